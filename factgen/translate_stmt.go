package main

import (
	"crypto/sha1"
	"encoding/hex"
	"fmt"
	"go/ast"
	"go/token"
	"go/types"
	"os"
	"sort"
	"strings"

	"golang.org/x/tools/go/packages"
)

func sha1sum(s string) string { h := sha1.Sum([]byte(s)); return hex.EncodeToString(h[:]) }

type flowState struct {
	alias map[types.Object]pathVal
	must  map[types.Object]types.Object
	may   map[types.Object][]types.Object
	stale map[types.Object]bool
	fresh map[types.Object]bool
	scope int
}

func cpMap[K comparable, V any](m map[K]V) map[K]V {
	n := make(map[K]V, len(m))
	for k, v := range m {
		n[k] = v
	}
	return n
}

func (f *fnCtx) save() flowState {
	return flowState{cpMap(f.alias), cpMap(f.must), cpMap(f.may), cpMap(f.stale), cpMap(f.fresh), len(f.scope)}
}

func (f *fnCtx) restore(s flowState) {
	f.alias, f.must, f.may, f.stale, f.fresh = cpMap(s.alias), cpMap(s.must), cpMap(s.may), cpMap(s.stale), cpMap(s.fresh)
	f.scope = f.scope[:s.scope]
}

// capture runs fn with a fresh line buffer and the current flow state, and returns the lines it emitted
func (f *fnCtx) capture(fn func()) []string {
	st := f.save()
	old := f.lines
	f.lines = nil
	fn()
	out := f.lines
	f.lines = old
	f.restore(st)
	return out
}

func indent(ls []string) []string {
	out := make([]string, len(ls))
	for i, l := range ls {
		out[i] = "  " + l
	}
	return out
}

func paren(ls []string) []string {
	if len(ls) == 0 {
		return []string{"(none)"}
	}
	out := append([]string{}, ls...)
	out[0] = "(" + out[0]
	out[len(out)-1] = out[len(out)-1] + ")"
	return out
}

type loopCtx struct{ brk, cont func() }

var loopStack []loopCtx

func (f *fnCtx) declare(o types.Object) {
	for _, s := range f.scope {
		if s == o {
			return
		}
	}
	f.scope = append(f.scope, o)
}

// ret emits the function result
func (f *fnCtx) ret(vals []string) {
	comps := append([]string{}, vals...)
	for _, p := range f.params {
		if _, isRoot := f.roots[p]; isRoot && (f.mut[p] || f.mutAss[p]) {
			comps = append(comps, f.nameOf(p))
		}
	}
	if f.hasEff || f.effAss {
		comps = append(comps, "eff")
	}
	switch len(comps) {
	case 0:
		f.emit("some ()")
	case 1:
		f.emit("some " + f.atom(comps[0]))
	default:
		f.emit("some (" + strings.Join(comps, ", ") + ")")
	}
}

func (f *fnCtx) namedVals() []string {
	var vs []string
	for _, o := range f.named {
		vs = append(vs, f.readVar(o, &ast.Ident{Name: o.Name()}))
	}
	return vs
}

func (f *fnCtx) block(stmts []ast.Stmt, k func()) {
	if len(stmts) == 0 {
		k()
		return
	}
	f.stmt(stmts[0], func() { f.block(stmts[1:], k) })
}

func terminates(s ast.Stmt) bool {
	switch x := s.(type) {
	case *ast.ReturnStmt:
		return true
	case *ast.ExprStmt:
		if c, ok := x.X.(*ast.CallExpr); ok {
			if id, ok := c.Fun.(*ast.Ident); ok && id.Name == "panic" {
				return true
			}
		}
	case *ast.BlockStmt:
		return len(x.List) > 0 && terminates(x.List[len(x.List)-1])
	case *ast.IfStmt:
		if x.Else == nil {
			return false
		}
		return terminates(x.Body) && terminates(x.Else)
	case *ast.BranchStmt:
		return true
	}
	return false
}

func (f *fnCtx) stmt(s ast.Stmt, rest func()) {
	switch x := s.(type) {
	case *ast.EmptyStmt:
		rest()
	case *ast.BlockStmt:
		f.block(x.List, rest)
	case *ast.ReturnStmt:
		if len(x.Results) == 0 {
			f.ret(f.namedVals())
			return
		}
		if len(x.Results) == 1 && len(f.resAll) > 1 {
			// return f(...) with several results
			if c, ok := x.Results[0].(*ast.CallExpr); ok {
				all := f.multi(c, len(f.resAll))
				var vals []string
				for i, v := range all {
					if !f.erased[i] {
						vals = append(vals, v)
					}
				}
				f.ret(vals)
				return
			}
		}
		if len(x.Results) != len(f.resAll) {
			trFail("return with %d values, %d expected", len(x.Results), len(f.resAll))
		}
		var kept []ast.Expr
		for i, r := range x.Results {
			if !f.erased[i] {
				kept = append(kept, r)
			}
		}
		var vals []string
		for i, r := range kept {
			if isNilIdent(r) {
				vals = append(vals, zeroOf(f.res[i]))
				continue
			}
			if f.res[i].k == kErr && f.kindOf(r).k != kErr {
				// a registered error value returned as error
				vals = append(vals, f.expr(r))
				continue
			}
			vals = append(vals, f.expr(r))
		}
		f.ret(vals)
	case *ast.ExprStmt:
		if c, ok := x.X.(*ast.CallExpr); ok {
			if id, ok := c.Fun.(*ast.Ident); ok && id.Name == "panic" {
				f.emit("none")
				return
			}
			if f.visitorCall(c) {
				rest()
				return
			}
			_ = f.call(c, true)
			rest()
			return
		}
		trFail("expression statement %s", f.src(x.X))
	case *ast.IncDecStmt:
		op := token.ADD
		if x.Tok == token.DEC {
			op = token.SUB
		}
		k := f.kindOf(x.X)
		one := "(1 : Nat)"
		if k.k == kInt {
			one = "(1 : Int)"
		}
		f.assignTo(x.X, f.arith(op, k, f.atom(f.expr(x.X)), one, nil, x.X), false, nil)
		rest()
	case *ast.DeclStmt:
		gd, ok := x.Decl.(*ast.GenDecl)
		if !ok || gd.Tok != token.VAR {
			if ok && (gd.Tok == token.CONST || gd.Tok == token.TYPE) {
				rest()
				return
			}
			trFail("declaration")
		}
		for _, sp := range gd.Specs {
			vs := sp.(*ast.ValueSpec)
			for i, n := range vs.Names {
				o := f.info.ObjectOf(n)
				if n.Name == "_" {
					continue
				}
				if i < len(vs.Values) {
					f.bind(n, vs.Values[i], true)
				} else {
					k := f.g.classify(o.Type())
					if k.k == kOpaque || k.k == kFunc {
						trFail("variable %s of opaque type declared without a value", n.Name)
					}
					f.emit("let " + f.nameOf(o) + " : " + k.lean + " := " + zeroOf(k))
					f.declare(o)
					if k.k == kBig {
						f.fresh[o] = true // nil until assigned
					}
				}
			}
		}
		rest()
	case *ast.AssignStmt:
		f.assign(x)
		rest()
	case *ast.IfStmt:
		if x.Init != nil {
			f.stmt(x.Init, func() { f.ifStmt(x, rest) })
			return
		}
		f.ifStmt(x, rest)
	case *ast.SwitchStmt:
		f.switchStmt(x, rest)
	case *ast.TypeSwitchStmt:
		f.typeSwitchStmt(x, rest)
	case *ast.ForStmt:
		f.forStmt(x, rest)
	case *ast.RangeStmt:
		f.rangeStmt(x, rest)
	case *ast.BranchStmt:
		if len(loopStack) == 0 || x.Label != nil {
			trFail("branch statement %s", x.Tok)
		}
		top := loopStack[len(loopStack)-1]
		switch x.Tok {
		case token.BREAK:
			top.brk()
		case token.CONTINUE:
			top.cont()
		default:
			trFail("branch statement %s", x.Tok)
		}
	default:
		trFail("statement %T", s)
	}
}

// straight: the statement list only assigns (no return / branch / loop / panic): it can be joined instead of duplicating
// the continuation
func straight(stmts []ast.Stmt) bool {
	ok := true
	for _, s := range stmts {
		ast.Inspect(s, func(n ast.Node) bool {
			switch c := n.(type) {
			case *ast.ReturnStmt, *ast.BranchStmt, *ast.ForStmt, *ast.RangeStmt, *ast.DeferStmt, *ast.GoStmt, *ast.FuncLit:
				ok = false
			case *ast.CallExpr:
				if id, isId := c.Fun.(*ast.Ident); isId && id.Name == "panic" {
					ok = false
				}
			}
			return ok
		})
	}
	return ok
}

// assignedOuter: the variables declared before the statement that the statements assign (in declaration order)
func (f *fnCtx) assignedOuter(stmts []ast.Stmt) []string {
	hit := map[types.Object]bool{}
	mark := func(e ast.Expr) {
		switch l := e.(type) {
		case *ast.Ident:
			if o, ok := f.localVar(l); ok {
				for f.must[o] != nil {
					o = f.must[o]
				}
				hit[o] = true
			}
		default:
			if p, _, ok := f.pathOf(e); ok {
				hit[p.root] = true
			}
		}
	}
	for _, s := range stmts {
		ast.Inspect(s, func(n ast.Node) bool {
			switch a := n.(type) {
			case *ast.AssignStmt:
				for _, l := range a.Lhs {
					mark(l)
				}
			case *ast.IncDecStmt:
				mark(a.X)
			case *ast.CallExpr:
				if sel, ok := a.Fun.(*ast.SelectorExpr); ok {
					if bigMutating[sel.Sel.Name] {
						mark(sel.X)
					}
					// a target method may update its receiver
					if fn, ok := f.info.ObjectOf(sel.Sel).(*types.Func); ok && fn.Pkg() != nil {
						if p, _, isPath := f.pathOf(sel.X); isPath && len(p.segs) == 0 {
							hit[p.root] = true
						}
					}
				}
				for _, arg := range a.Args {
					if p, _, isPath := f.pathOf(arg); isPath && len(p.segs) == 0 {
						if f.calleeFunc(a) != nil {
							hit[p.root] = true
						}
					}
				}
			}
			return true
		})
	}
	var out []string
	seen := map[string]bool{}
	for _, p := range f.params {
		if hit[p] {
			if _, isRoot := f.roots[p]; isRoot && !(f.mutAss[p] || f.mut[p]) {
				continue // only read
			}
			n := f.nameOf(p)
			if !seen[n] {
				seen[n] = true
				out = append(out, n)
			}
		}
	}
	for _, o := range f.scope {
		if hit[o] {
			n := f.nameOf(o)
			if !seen[n] {
				seen[n] = true
				out = append(out, n)
			}
		}
	}
	return out
}

func (f *fnCtx) joinIf(x *ast.IfStmt, cond string, rest func()) bool {
	var elseList []ast.Stmt
	switch e := x.Else.(type) {
	case nil:
	case *ast.BlockStmt:
		elseList = e.List
	case *ast.IfStmt:
		elseList = []ast.Stmt{e}
	default:
		return false
	}
	if !straight(x.Body.List) || !straight(elseList) {
		return false
	}
	vars := f.assignedOuter(append(append([]ast.Stmt{}, x.Body.List...), elseList...))
	effBefore := f.hasEff
	tuple := func(extra bool) string {
		vs := append([]string{}, vars...)
		if extra {
			vs = append(vs, "eff")
		}
		switch len(vs) {
		case 0:
			return "()"
		case 1:
			return vs[0]
		}
		return "(" + strings.Join(vs, ", ") + ")"
	}
	var st1, st2 flowState
	run := func(list []ast.Stmt, out *flowState) []string {
		st := f.save()
		old := f.lines
		f.lines = nil
		f.block(list, func() { f.emit("\x00") })
		ls := f.lines
		f.lines = old
		*out = f.save()
		out.scope = st.scope
		f.restore(st)
		return ls
	}
	thenL := run(x.Body.List, &st1)
	elseL := run(elseList, &st2)
	withEff := (f.hasEff && !effBefore) || f.effAss && (hasEffLine(thenL) || hasEffLine(elseL))
	partial := hasMatch(thenL) || hasMatch(elseL)
	fin := func(ls []string) []string {
		out := append([]string{}, ls...)
		t := tuple(withEff)
		if partial {
			t = "some " + t
		}
		for i := range out {
			if out[i] == "\x00" {
				out[i] = t
			}
		}
		return out
	}
	if len(vars) == 0 && !withEff && !partial {
		// nothing escapes the branches
		rest()
		return true
	}
	if partial {
		f.emit("match (if " + cond + " then")
		f.lines = append(f.lines, indent(paren(fin(thenL)))...)
		f.emit("else")
		ls := indent(paren(fin(elseL)))
		ls[len(ls)-1] += ") with"
		f.lines = append(f.lines, ls...)
		f.emit("| none => none")
		f.emit("| some " + tuple(withEff) + " =>")
	} else {
		f.emit("let " + tuple(withEff) + " := if " + cond + " then")
		f.lines = append(f.lines, indent(paren(fin(thenL)))...)
		f.emit("else")
		f.lines = append(f.lines, indent(paren(fin(elseL)))...)
	}
	// merge the flow facts of the two branches
	for o := range st1.stale {
		f.stale[o] = true
	}
	for o := range st2.stale {
		f.stale[o] = true
	}
	for o := range f.fresh {
		f.fresh[o] = st1.fresh[o] && st2.fresh[o]
	}
	for o, m := range st1.must {
		if st2.must[o] != m {
			if _, before := f.must[o]; before || st2.must[o] != nil {
				trFail("big.Int aliasing differs between the branches of an if")
			}
		}
	}
	for o, as := range st1.may {
		f.may[o] = append(append([]types.Object{}, as...), st2.may[o]...)
	}
	for o, as := range st2.may {
		if _, ok := st1.may[o]; !ok {
			f.may[o] = as
		}
	}
	rest()
	return true
}

func hasMatch(ls []string) bool {
	for _, l := range ls {
		if strings.HasPrefix(strings.TrimLeft(l, " ("), "match ") {
			return true
		}
	}
	return false
}

func hasEffLine(ls []string) bool {
	for _, l := range ls {
		if strings.Contains(l, "let eff := eff ++") {
			return true
		}
	}
	return false
}

func (f *fnCtx) ifStmt(x *ast.IfStmt, rest func()) {
	cond := f.expr(x.Cond)
	if f.joinIf(x, cond, rest) {
		return
	}
	if !terminates(x.Body) && (x.Else == nil || !terminates(x.Else)) && len(loopStack) == 0 {
		// (inside a loop body the continuation may `continue`, i.e. call the loop's own definition: it is duplicated
		// into the branches instead of becoming a definition of its own)
		rest = f.joinPoint(rest)
	}
	saved := loopStack
	thenL := f.capture(func() { f.block(x.Body.List, rest) })
	loopStack = saved
	elseL := f.capture(func() {
		switch e := x.Else.(type) {
		case nil:
			rest()
		case *ast.BlockStmt:
			f.block(e.List, rest)
		case *ast.IfStmt:
			f.stmt(e, rest)
		default:
			trFail("else %T", e)
		}
	})
	loopStack = saved
	f.emit("if " + cond + " then")
	f.lines = append(f.lines, indent(paren(thenL))...)
	f.emit("else")
	f.lines = append(f.lines, indent(paren(elseL))...)
}

func (f *fnCtx) switchStmt(x *ast.SwitchStmt, rest func()) {
	doSwitch := func() {
		var tag string
		var tagK lty
		if x.Tag != nil {
			tagK = f.kindOf(x.Tag)
			tag = f.atom(f.expr(x.Tag))
		}
		var clauses []*ast.CaseClause
		var deflt *ast.CaseClause
		for _, c := range x.Body.List {
			cc := c.(*ast.CaseClause)
			if cc.List == nil {
				deflt = cc
			} else {
				clauses = append(clauses, cc)
			}
			for _, s := range cc.Body {
				if b, ok := s.(*ast.BranchStmt); ok && b.Tok == token.FALLTHROUGH {
					trFail("fallthrough")
				}
			}
		}
		var chain func(i int)
		chain = func(i int) {
			if i == len(clauses) {
				if deflt != nil {
					f.block(deflt.Body, rest)
				} else {
					rest()
				}
				return
			}
			cc := clauses[i]
			var conds []string
			for _, e := range cc.List {
				if x.Tag == nil {
					conds = append(conds, f.atom(f.expr(e)))
				} else if tagK.k == kBool {
					conds = append(conds, "("+tag+" == "+f.atom(f.expr(e))+")")
				} else {
					conds = append(conds, "(decide ("+tag+" = "+f.atom(f.expr(e))+"))")
				}
			}
			cond := strings.Join(conds, " || ")
			thenL := f.capture(func() {
				loopStack = append(loopStack, loopCtx{brk: rest, cont: func() { trFail("continue inside switch inside loop") }})
				f.block(cc.Body, rest)
				loopStack = loopStack[:len(loopStack)-1]
			})
			elseL := f.capture(func() { chain(i + 1) })
			f.emit("if " + cond + " then")
			f.lines = append(f.lines, indent(paren(thenL))...)
			f.emit("else")
			f.lines = append(f.lines, indent(paren(elseL))...)
		}
		chain(0)
	}
	if x.Init != nil {
		f.stmt(x.Init, doSwitch)
		return
	}
	doSwitch()
}

// typeSwitchStmt: `switch [v :=] path.(type) { case *T: … default: … }` over an opaque object: a chain of tests of the
// object's `is_T` fields; in a single-type clause the bound variable is the object seen `as_T`
func (f *fnCtx) typeSwitchStmt(x *ast.TypeSwitchStmt, rest func()) {
	if x.Init != nil {
		trFail("type switch with an init statement")
	}
	var ta *ast.TypeAssertExpr
	var bound *ast.Ident
	switch a := x.Assign.(type) {
	case *ast.ExprStmt:
		ta, _ = a.X.(*ast.TypeAssertExpr)
	case *ast.AssignStmt:
		if len(a.Lhs) == 1 && len(a.Rhs) == 1 {
			bound, _ = a.Lhs[0].(*ast.Ident)
			ta, _ = a.Rhs[0].(*ast.TypeAssertExpr)
		}
	}
	if ta == nil {
		trFail("type switch guard")
	}
	f.bindIndexRoots(ta.X)
	p, args, ok := f.pathOf(ta.X)
	if !ok || args != nil {
		trFail("type switch over %s", f.src(ta.X))
	}
	var clauses []*ast.CaseClause
	var deflt *ast.CaseClause
	for _, c := range x.Body.List {
		cc := c.(*ast.CaseClause)
		if cc.List == nil {
			deflt = cc
		} else {
			clauses = append(clauses, cc)
		}
	}
	outer := loopStack
	inSwitch := func(body []ast.Stmt, cc *ast.CaseClause, single string) {
		cont := func() { trFail("continue outside a loop") }
		if len(outer) > 0 {
			cont = outer[len(outer)-1].cont
		}
		saved := loopStack
		loopStack = append(append([]loopCtx{}, outer...), loopCtx{brk: rest, cont: cont})
		if bound != nil && bound.Name != "_" {
			if o := f.info.Implicits[cc]; o != nil {
				segs := append([]string{}, p.segs...)
				if single != "" {
					segs = append(segs, "as_"+single)
				}
				f.alias[o] = pathVal{root: p.root, st: p.st, segs: segs}
			}
		}
		f.block(body, rest)
		loopStack = saved
	}
	var chain func(i int)
	chain = func(i int) {
		if i == len(clauses) {
			if deflt != nil {
				inSwitch(deflt.Body, deflt, "")
			} else {
				rest()
			}
			return
		}
		cc := clauses[i]
		var conds []string
		single := ""
		for _, e := range cc.List {
			if isNilIdent(e) {
				trFail("case nil in a type switch")
			}
			tn := sanitize(strings.TrimPrefix(exprFull(e), "*"))
			field := strings.Join(append(append([]string{}, p.segs...), "is_"+tn), "_")
			f.g.field(p.st, field, "Bool", "")
			conds = append(conds, f.nameOf(p.root)+"."+field)
			single = tn
		}
		if len(cc.List) != 1 {
			single = ""
		}
		thenL := f.capture(func() { inSwitch(cc.Body, cc, single) })
		elseL := f.capture(func() { chain(i + 1) })
		f.emit("if " + strings.Join(conds, " || ") + " then")
		f.lines = append(f.lines, indent(paren(thenL))...)
		f.emit("else")
		f.lines = append(f.lines, indent(paren(elseL))...)
	}
	chain(0)
}

// joinPoint: the code after a statement that is reached from several places (loop exit, break, both branches of an if
// that cannot be joined by a tuple) becomes ONE auxiliary definition over the variables in scope at the statement
func (f *fnCtx) joinPoint(rest func()) func() {
	binders, args := f.scopeBinders()
	scopeLen, rootsLen := len(f.scope), len(f.loopRoots)
	name := ""
	uses := 0
	return func() {
		uses++
		if name == "" {
			f.nloop++
			name = fmt.Sprintf("%s.k%d", f.lean, f.nloop)
			saved := loopStack
			// the continuation sees the variables of the statement's own scope only
			fullScope, fullRoots := f.scope, f.loopRoots
			f.scope, f.loopRoots = append([]types.Object{}, f.scope[:scopeLen]...), append([]types.Object{}, f.loopRoots[:rootsLen]...)
			lines := f.capture(rest)
			f.scope, f.loopRoots = fullScope, fullRoots
			loopStack = saved
			def := "def " + name + " " + strings.Join(binders, " ") + " : Option " + f.retTy + " :=\n" + strings.Join(indent(lines), "\n")
			f.aux = append(f.aux, def)
		}
		f.emit(strings.TrimSpace(name + " " + strings.Join(args, " ")))
	}
}

// scopeBinders: every Lean variable a loop body / continuation may mention
func (f *fnCtx) scopeBinders() (binders []string, args []string) {
	seen := map[string]bool{}
	add := func(n, t string) {
		if seen[n] {
			return
		}
		seen[n] = true
		binders = append(binders, "("+n+" : "+t+")")
		args = append(args, n)
	}
	for _, p := range f.params {
		if st, ok := f.roots[p]; ok {
			add(f.nameOf(p), st)
		} else {
			add(f.nameOf(p), f.g.classify(p.Type()).lean)
		}
	}
	for _, o := range f.scope {
		if _, isAlias := f.alias[o]; isAlias {
			continue
		}
		if _, isRoot := f.roots[o]; isRoot {
			continue
		}
		add(f.nameOf(o), f.g.classify(o.Type()).lean)
	}
	for _, o := range f.loopRoots {
		add(f.nameOf(o), f.roots[o])
	}
	if f.hasEff || f.effAss {
		add("eff", "List Go.Effect")
	}
	return
}

func (f *fnCtx) forStmt(x *ast.ForStmt, rest func()) {
	body := func() {
		rest := f.joinPoint(rest)
		f.nloop++
		name := fmt.Sprintf("%s.loop%d", f.lean, f.nloop)
		binders, args := f.scopeBinders()
		fuel := f.tgt.Fuel
		if fuel == "" {
			fuel = "2^64"
		}
		call := func(fu string) string { return name + " " + fu + " " + strings.Join(args, " ") }
		lines := f.capture(func() {
			f.emit("match fuel with")
			f.emit("| 0 => none")
			f.emit("| fuel + 1 =>")
			cond := "true"
			if x.Cond != nil {
				cond = f.expr(x.Cond)
			}
			next := func() {
				if x.Post != nil {
					f.stmt(x.Post, func() { f.emit(call("fuel")) })
				} else {
					f.emit(call("fuel"))
				}
			}
			saved := loopStack
			thenL := f.capture(func() {
				loopStack = append(saved, loopCtx{brk: rest, cont: next})
				f.block(x.Body.List, next)
			})
			loopStack = saved
			elseL := f.capture(rest)
			loopStack = saved
			f.emit("if " + cond + " then")
			f.lines = append(f.lines, indent(paren(thenL))...)
			f.emit("else")
			f.lines = append(f.lines, indent(paren(elseL))...)
		})
		def := "def " + name + " (fuel : Nat) " + strings.Join(binders, " ") + " : Option " + f.retTy + " :=\n" + strings.Join(indent(lines), "\n")
		f.aux = append(f.aux, def)
		f.emit(call("(" + fuel + ")"))
	}
	if x.Init != nil {
		f.stmt(x.Init, body)
		return
	}
	body()
}

func (f *fnCtx) rangeStmt(x *ast.RangeStmt, rest func()) {
	k := f.kindOf(x.X)
	elem := ""
	switch k.k {
	case kBytes:
		elem = "Nat"
	case kCoins:
		elem = "Go.Coin"
	case kOList:
		elem = k.opaque
	case kStrs:
		elem = "String"
	default:
		trFail("range over %s", k.lean)
	}
	xs := f.atom(f.expr(x.X))
	rest = f.joinPoint(rest)
	f.nloop++
	name := fmt.Sprintf("%s.range%d", f.lean, f.nloop)
	binders, args := f.scopeBinders()
	var keyO, valO types.Object
	if id, ok := x.Key.(*ast.Ident); ok && id.Name != "_" {
		keyO = f.info.ObjectOf(id)
	}
	if id, ok := x.Value.(*ast.Ident); ok && id.Name != "_" {
		valO = f.info.ObjectOf(id)
	}
	if x.Tok != token.DEFINE && (x.Key != nil || x.Value != nil) {
		trFail("range with assignment to existing variables")
	}
	call := func(it, idx string) string { return name + " " + it + " " + idx + " " + strings.Join(args, " ") }
	lines := f.capture(func() {
		f.emit("match it with")
		restL := f.capture(rest)
		f.emit("| [] =>")
		f.lines = append(f.lines, indent(paren(restL))...)
		vn := "_v"
		if valO != nil {
			vn = f.nameOf(valO)
			if k.k == kOList {
				f.roots[valO] = k.opaque
				f.loopRoots = append(f.loopRoots, valO)
			}
		}
		f.emit("| " + vn + " :: it =>")
		if keyO != nil {
			f.emit("let " + f.nameOf(keyO) + " : Int := ix")
		}
		next := func() { f.emit(call("it", "(ix + 1)")) }
		saved := loopStack
		loopStack = append(saved, loopCtx{brk: rest, cont: next})
		f.block(x.Body.List, next)
		loopStack = saved
	})
	def := "def " + name + " (it : List " + elem + ") (ix : Int) " + strings.Join(binders, " ") + " : Option " + f.retTy + " :=\n" + strings.Join(indent(lines), "\n")
	f.aux = append(f.aux, def)
	f.emit(call(xs, "0"))
}

// assignTo: store a Lean term into an lvalue
func (f *fnCtx) assignTo(lhs ast.Expr, term string, define bool, rhs ast.Expr) {
	switch l := lhs.(type) {
	case *ast.Ident:
		if l.Name == "_" {
			return
		}
		o, ok := f.localVar(l)
		if !ok {
			trFail("assignment to %s", l.Name)
		}
		for f.must[o] != nil && !define {
			// assigning a new pointer to a variable ends its must-alias
			delete(f.must, o)
		}
		k := f.g.classify(o.Type())
		if k.k == kOpaque || k.k == kFunc {
			trFail("assignment of an opaque value to %s", l.Name)
		}
		f.emit("let " + f.nameOf(o) + " : " + k.lean + " := " + term)
		f.declare(o)
		delete(f.stale, o)
		// a value read from an object by a plain accessor (`from := msg.GetFrom()`) remembers where it came from: handed on to
		// another object's method it names that accessor (like an object argument) instead of becoming a value argument
		delete(f.valOrigin, o)
		if rhs != nil && define && k.k == kBytes {
			if p, args, ok := f.pathOf(rhs); ok && args == nil && len(p.segs) > 0 {
				f.valOrigin[o] = p
			}
		}
		if k.k == kBig && rhs != nil {
			f.fresh[o] = f.isFreshBig(rhs)
			var as []types.Object
			if !f.fresh[o] {
				ast.Inspect(rhs, func(n ast.Node) bool {
					if id, ok := n.(*ast.Ident); ok {
						if ro, ok := f.localVar(id); ok && f.g.classifySafe(ro.Type()).k == kBig {
							as = append(as, ro)
						}
					}
					return true
				})
			}
			f.may[o] = as
		}
		return
	case *ast.SelectorExpr, *ast.StarExpr:
		p, args, ok := f.pathOf(lhs)
		if ok && args == nil && len(p.segs) > 0 {
			k := f.kindOf(lhs)
			if k.k == kOpaque {
				trFail("assignment of an opaque value to %s", f.src(lhs))
			}
			field := fieldIdent(strings.Join(p.segs, "_"))
			f.g.field(p.st, field, k.lean, "")
			n := f.nameOf(p.root)
			f.emit("let " + n + " : " + p.st + " := { " + n + " with " + field + " := " + term + " }")
			f.mut[p.root] = true
			return
		}
	}
	trFail("assignment to %s", f.src(lhs))
}

func (g *gen) classifySafe(t types.Type) (k lty) {
	defer func() {
		if r := recover(); r != nil {
			k = lty{k: kUnit}
		}
	}()
	return g.classify(t)
}

// exprSrc: exprFull that also renders composite literals (field by field)
func exprSrc(e ast.Expr) string {
	switch t := e.(type) {
	case *ast.UnaryExpr:
		return t.Op.String() + exprSrc(t.X)
	case *ast.KeyValueExpr:
		return exprSrc(t.Key) + ": " + exprSrc(t.Value)
	case *ast.CompositeLit:
		var es []string
		for _, x := range t.Elts {
			es = append(es, exprSrc(x))
		}
		return exprFull(t.Type) + "{" + strings.Join(es, ", ") + "}"
	case *ast.BinaryExpr:
		return exprSrc(t.X) + t.Op.String() + exprSrc(t.Y)
	case *ast.CallExpr:
		var as []string
		for _, a := range t.Args {
			as = append(as, exprSrc(a))
		}
		return exprFull(t.Fun) + "(" + strings.Join(as, ",") + ")"
	}
	return exprFull(e)
}

// visitorCall: `obj.ForEach…(ctx, x, func(…) bool { flag = <const>; return <const> })` — an iteration of an opaque object with a
// visitor that only sets captured locals to constants.  The object decides how often the visitor runs; what the function can
// observe afterwards is whether it ran at all: an accessor `<method>_visits : Bool` of the object, and the captured locals
// take their constants when it did
func (f *fnCtx) visitorCall(c *ast.CallExpr) bool {
	if len(c.Args) == 0 {
		return false
	}
	lit, ok := c.Args[len(c.Args)-1].(*ast.FuncLit)
	if !ok {
		return false
	}
	type asg struct {
		o   types.Object
		val string
	}
	var asgs []asg
	for _, st := range lit.Body.List {
		switch y := st.(type) {
		case *ast.AssignStmt:
			if y.Tok != token.ASSIGN || len(y.Lhs) != 1 || len(y.Rhs) != 1 {
				return false
			}
			id, ok := y.Lhs[0].(*ast.Ident)
			if !ok {
				return false
			}
			o, ok := f.localVar(id)
			if !ok {
				return false
			}
			tv, ok := f.info.Types[y.Rhs[0]]
			if !ok || tv.Value == nil {
				return false
			}
			asgs = append(asgs, asg{o, f.constTerm(tv.Value, f.g.classify(tv.Type), y.Rhs[0])})
		case *ast.ReturnStmt:
			for _, r := range y.Results {
				if tv, ok := f.info.Types[r]; !ok || tv.Value == nil {
					return false
				}
			}
		default:
			return false
		}
	}
	head := &ast.CallExpr{Fun: c.Fun, Args: c.Args[:len(c.Args)-1]}
	p, args, ok := f.pathOf(head)
	if !ok || args != nil {
		return false
	}
	p.segs[len(p.segs)-1] += "_visits"
	visits := f.pathValue(p, nil, lty{k: kBool, lean: "Bool"}, c)
	for _, a := range asgs {
		k := f.g.classify(a.o.Type())
		f.emit("let " + f.nameOf(a.o) + " : " + k.lean + " := if " + visits + " then " + a.val + " else " + f.readVar(a.o, &ast.Ident{Name: a.o.Name()}))
	}
	return true
}

// derivedObject: see bind
func (f *fnCtx) derivedObject(rhs ast.Expr) (pathVal, bool) {
	var what string
	e := rhs
	if u, ok := e.(*ast.UnaryExpr); ok && u.Op == token.AND {
		e = u.X
	}
	switch x := e.(type) {
	case *ast.CompositeLit:
		what = "lit_" + sanitize(strings.TrimPrefix(exprFull(x.Type), "*"))
	case *ast.CallExpr:
		fn := f.calleeFunc(x)
		if fn == nil || fn.Type().(*types.Signature).Recv() != nil {
			return pathVal{}, false
		}
		what = "new_" + fn.Name()
	default:
		return pathVal{}, false
	}
	if len(f.params) == 0 {
		return pathVal{}, false
	}
	root := f.params[0]
	st, isRoot := f.roots[root]
	if !isRoot {
		return pathVal{}, false
	}
	src := strings.Join(strings.Fields(exprSrc(rhs)), " ")
	seg := what + "_" + shortHash(src)
	f.g.opaqueC = append(f.g.opaqueC, f.lean+": object "+seg+" = "+src)
	return pathVal{root: root, st: st, segs: []string{seg}}, true
}

// bind: `lhs := rhs` / `lhs = rhs` for one value
func (f *fnCtx) bind(lhs ast.Expr, rhs ast.Expr, define bool) {
	if id, ok := lhs.(*ast.Ident); ok && id.Name != "_" {
		if o, ok := f.localVar(id); ok {
			k := f.g.classifySafe(o.Type())
			if k.k == kOpaque || k.k == kUnit {
				// a local name for an opaque object: an alias of the accessor path
				f.bindIndexRoots(rhs)
				p, args, ok := f.pathOf(rhs)
				if ok && args == nil {
					if c, isCall := rhs.(*ast.CallExpr); isCall {
						if sel, isSel := c.Fun.(*ast.SelectorExpr); isSel && effectful[sel.Sel.Name] {
							// an object obtained from a call that has an effect (the context returned by SetupExecutionContext)
							f.effect(f.nameOfRootGo(p.root)+"."+strings.Join(p.segs, "."), nil)
						}
					}
				}
				if !ok || args != nil {
					// an object the function builds itself — a composite literal, or the result of a package function the
					// translator does not interpret: an object *named by its construction*.  The name (with a hash of the
					// source text of the construction) becomes part of every accessor and effect that receives the object,
					// and the construction is listed among the uninterpreted items (pinned by Facts/TieMeta).
					if dp, ok := f.derivedObject(rhs); ok {
						f.alias[o] = dp
						return
					}
					trFail("opaque local %s bound to %s", id.Name, f.src(rhs))
				}
				f.alias[o] = p
				return
			}
			if k.k == kBig {
				// y := x.Op(...) with x a local: y and x are the same pointer from now on
				if c, ok := rhs.(*ast.CallExpr); ok {
					if sel, ok := c.Fun.(*ast.SelectorExpr); ok && bigMutating[sel.Sel.Name] {
						if rid, ok := sel.X.(*ast.Ident); ok {
							if ro, ok := f.localVar(rid); ok && f.g.classifySafe(ro.Type()).k == kBig && ro != o {
								_ = f.expr(rhs)
								f.must[o] = ro
								return
							}
						}
					}
				}
				if rid, ok := rhs.(*ast.Ident); ok {
					if ro, ok := f.localVar(rid); ok && ro != o && f.g.classifySafe(ro.Type()).k == kBig {
						if _, isRoot := f.roots[ro]; !isRoot {
							f.must[o] = ro
							return
						}
					}
				}
			}
		}
	}
	if isNilIdent(rhs) {
		f.assignTo(lhs, zeroOf(f.kindOf(lhs)), define, nil)
		return
	}
	f.assignTo(lhs, f.expr(rhs), define, rhs)
}

func (f *fnCtx) assign(x *ast.AssignStmt) {
	define := x.Tok == token.DEFINE
	if x.Tok != token.ASSIGN && x.Tok != token.DEFINE {
		// op=
		ops := map[token.Token]token.Token{token.ADD_ASSIGN: token.ADD, token.SUB_ASSIGN: token.SUB, token.MUL_ASSIGN: token.MUL, token.QUO_ASSIGN: token.QUO, token.REM_ASSIGN: token.REM}
		op, ok := ops[x.Tok]
		if !ok || len(x.Lhs) != 1 {
			trFail("assignment operator %s", x.Tok)
		}
		k := f.kindOf(x.Lhs[0])
		a := f.atom(f.expr(x.Lhs[0]))
		b := f.atom(f.expr(x.Rhs[0]))
		f.assignTo(x.Lhs[0], f.arith(op, k, a, b, x.Rhs[0], x.Lhs[0]), false, nil)
		return
	}
	if len(x.Lhs) == len(x.Rhs) {
		if len(x.Lhs) == 1 {
			f.bind(x.Lhs[0], x.Rhs[0], define)
			return
		}
		// parallel assignment: all right-hand sides first
		var ts []string
		for _, r := range x.Rhs {
			t := f.tmp()
			f.emit("let " + t + " := " + f.expr(r))
			ts = append(ts, t)
		}
		for i, l := range x.Lhs {
			f.assignTo(l, ts[i], define, x.Rhs[i])
		}
		return
	}
	if len(x.Rhs) != 1 {
		trFail("assignment %d := %d", len(x.Lhs), len(x.Rhs))
	}
	switch r := x.Rhs[0].(type) {
	case *ast.TypeAssertExpr:
		// v, ok := path.(T)
		f.bindIndexRoots(r.X)
		p, args, ok := f.pathOf(r.X)
		if !ok || args != nil || len(x.Lhs) != 2 {
			trFail("type assertion %s", f.src(r))
		}
		tn := sanitize(strings.TrimPrefix(exprFull(r.Type), "*"))
		field := strings.Join(append(append([]string{}, p.segs...), "is_"+tn), "_")
		f.g.field(p.st, field, "Bool", "")
		f.assignTo(x.Lhs[1], f.nameOf(p.root)+"."+field, define, nil)
		if id, ok := x.Lhs[0].(*ast.Ident); ok && id.Name != "_" {
			o := f.info.ObjectOf(id)
			f.alias[o] = pathVal{root: p.root, st: p.st, segs: append(append([]string{}, p.segs...), "as_"+tn)}
		}
	case *ast.CallExpr:
		// an object among the results of a method of an opaque object (`sender, err := signer.Sender(ethTx)`) is the object
		// named by that call
		objAlias := map[int]bool{}
		if cp, cargs, ok := f.pathOf(r); ok && cargs == nil {
			for i, l := range x.Lhs {
				if id, ok := l.(*ast.Ident); ok && id.Name != "_" {
					if o, ok := f.localVar(id); ok {
						if k := f.g.classifySafe(o.Type()); k.k == kOpaque {
							f.alias[o] = pathVal{root: cp.root, st: cp.st, segs: append(append([]string{}, cp.segs...), fmt.Sprintf("res%d", i))}
							objAlias[i] = true
						}
					}
				}
			}
		}
		vals := f.multi(r, len(x.Lhs))
		for i, l := range x.Lhs {
			if objAlias[i] {
				continue
			}
			f.assignTo(l, vals[i], define, nil)
		}
	default:
		trFail("multi-value assignment from %s", f.src(x.Rhs[0]))
	}
}

// multi: a call with n results
func (f *fnCtx) multi(c *ast.CallExpr, n int) []string {
	if fn := f.calleeFunc(c); fn != nil {
		if sig := f.g.sigFor(fn); sig != nil {
			vals := f.callTargetN(c, fn, sig)
			if len(vals) != n {
				trFail("call %s yields %d values, %d expected", f.src(c), len(vals), n)
			}
			return vals
		}
	}
	if id, ok := c.Fun.(*ast.Ident); ok {
		if o, ok := f.localVar(id); ok && f.g.classify(o.Type()).k == kFunc {
			as := f.callbackArgs(c)
			var ts []string
			for i := 0; i < n; i++ {
				ts = append(ts, f.tmp())
			}
			f.emit("let (" + strings.Join(ts, ", ") + ") := " + f.nameOf(o) + " " + strings.Join(as, " "))
			return ts
		}
	}
	if fn := f.calleeFunc(c); fn != nil && fn.Pkg() != nil && fn.Name() == "AbiEncodeBool" && strings.HasSuffix(fn.Pkg().Path(), "x/cpc/utils") && n == 2 && len(c.Args) == 1 {
		// the ABI encoding of a bool: one 32-byte word; never an error
		return []string{"(Go.abiBool " + f.atom(f.expr(c.Args[0])) + ")", "none"}
	}
	if vals, ok := f.opaqueCall(c, n); ok {
		return vals
	}
	// a method of an opaque object with several results (cd.AnteHandle(ctx, tx, simulate, next)): an accessor whose
	// value is the tuple of results, objects among them being Unit
	if p, args, ok := f.pathOf(c); ok {
		if tv, ok := f.info.Types[c]; ok {
			if tup, isTup := tv.Type.(*types.Tuple); isTup && tup.Len() == n {
				var ts []string
				for i := 0; i < n; i++ {
					k := f.g.classifySafe(tup.At(i).Type())
					switch k.k {
					case kOpaque, kOList, kUnit:
						ts = append(ts, "Unit")
					case kFunc:
						trFail("function result of %s", f.src(c))
					default:
						ts = append(ts, k.lean)
					}
				}
				rt := lty{k: kStr, lean: "(" + strings.Join(ts, " × ") + ")"}
				if sel, ok := c.Fun.(*ast.SelectorExpr); ok && effectful[sel.Sel.Name] {
					f.effect(f.nameOfRootGo(p.root)+"."+strings.Join(p.segs, "."), nil)
				}
				term := f.pathValue(p, args, rt, c)
				var vs []string
				for range ts {
					vs = append(vs, f.tmp())
				}
				f.emit("let (" + strings.Join(vs, ", ") + ") := " + term)
				return vs
			}
		}
	}
	trFail("multi-value call %s", f.src(c))
	return nil
}

// callbackArgs: the value arguments of a call of a callback parameter (objects are dropped, see classify)
func (f *fnCtx) callbackArgs(c *ast.CallExpr) []string {
	var as []string
	for _, a := range c.Args {
		ak := f.g.classifySafe(f.typeOf(a))
		if ak.k == kOpaque || ak.k == kOList {
			continue
		}
		as = append(as, f.atom(f.expr(a)))
	}
	if len(as) == 0 {
		as = []string{"()"}
	}
	return as
}

func (f *fnCtx) calleeFunc(c *ast.CallExpr) *types.Func {
	switch fun := c.Fun.(type) {
	case *ast.Ident:
		if fn, ok := f.info.ObjectOf(fun).(*types.Func); ok {
			return fn
		}
	case *ast.SelectorExpr:
		if fn, ok := f.info.ObjectOf(fun.Sel).(*types.Func); ok {
			return fn
		}
	}
	return nil
}

func (f *fnCtx) callTarget(c *ast.CallExpr, fn *types.Func, sig *fnSig, stmt bool) string {
	vals := f.callTargetN(c, fn, sig)
	if stmt || len(vals) == 0 {
		return "()"
	}
	if len(vals) != 1 {
		trFail("call %s yields %d values in a single-value context", f.src(c), len(vals))
	}
	return vals[0]
}

func (f *fnCtx) callTargetN(c *ast.CallExpr, fn *types.Func, sig *fnSig) []string {
	var goArgs []ast.Expr
	if s := fn.Type().(*types.Signature); s.Recv() != nil {
		goArgs = append(goArgs, c.Fun.(*ast.SelectorExpr).X)
	}
	goArgs = append(goArgs, c.Args...)
	if len(goArgs) != len(sig.ptypes) {
		trFail("call %s: %d arguments for %d parameters", f.src(c), len(goArgs), len(sig.ptypes))
	}
	var as []string
	var rootArgs []types.Object
	for i, a := range goArgs {
		if sig.ptypes[i].k == kOpaque {
			want := sig.ptypes[i].opaque
			if lit := compositeOf(a); lit != nil && f.g.classifySafe(f.typeOf(a)).opaque == want {
				// a freshly built object: every field the callee reads must be given
				given := map[string]string{}
				for _, el := range lit.Elts {
					kv, ok := el.(*ast.KeyValueExpr)
					if !ok {
						trFail("positional composite literal %s", f.src(a))
					}
					given[fieldIdent(kv.Key.(*ast.Ident).Name)] = f.expr(kv.Value)
				}
				var fs []string
				for _, fn := range sortedKeys(f.g.structOf(want).fields) {
					v, ok := given[fn]
					if !ok {
						trFail("call %s: the callee reads %s.%s, which the literal does not set", f.src(c), want, fn)
					}
					fs = append(fs, fn+" := "+v)
				}
				as = append(as, structLit(want, fs))
				rootArgs = append(rootArgs, nil)
				continue
			}
			p, args, ok := f.pathOf(a)
			if !ok || args != nil {
				trFail("call %s: argument %d is not an opaque object", f.src(c), i)
			}
			if len(p.segs) != 0 {
				// part of an opaque object handed on: the callee's reads become reads of the caller's object
				if f.g.classifySafe(f.typeOf(a)).opaque != want {
					trFail("call %s: argument %d has type %s, expected %s", f.src(c), i, f.g.classifySafe(f.typeOf(a)).lean, want)
				}
				var fs []string
				prefix := strings.Join(p.segs, "_")
				for _, fn := range sortedKeys(f.g.structOf(want).fields) {
					f.g.field(p.st, prefix+"_"+fn, f.g.structOf(want).fields[fn], "")
					fs = append(fs, fn+" := "+f.nameOf(p.root)+"."+prefix+"_"+fn)
				}
				as = append(as, structLit(want, fs))
				rootArgs = append(rootArgs, nil)
				continue
			}
			if p.st != want {
				trFail("call %s: argument %d must be an opaque object of type %s", f.src(c), i, want)
			}
			as = append(as, f.nameOf(p.root))
			rootArgs = append(rootArgs, p.root)
		} else {
			as = append(as, f.atom(f.expr(a)))
			rootArgs = append(rootArgs, nil)
		}
	}
	var pat, vals []string
	for range sig.results {
		t := f.tmp()
		pat = append(pat, t)
		vals = append(vals, t)
	}
	for _, mi := range sig.mutRoots {
		r := rootArgs[mi]
		if r == nil {
			trFail("call %s: the callee modifies an object that is not a whole parameter of the caller", f.src(c))
		}
		pat = append(pat, f.nameOf(r))
		f.mut[r] = true
	}
	effv := ""
	if sig.hasEff {
		effv = f.tmp()
		pat = append(pat, effv)
		f.hasEff = true
	}
	p := "()"
	if len(pat) == 1 {
		p = pat[0]
	} else if len(pat) > 1 {
		p = "(" + strings.Join(pat, ", ") + ")"
	}
	f.emit("match " + sig.lean + " " + strings.Join(as, " ") + " with")
	f.emit("| none => none")
	f.emit("| some " + p + " =>")
	if effv != "" {
		f.emit("let eff := eff ++ " + effv)
	}
	return vals
}

func compositeOf(e ast.Expr) *ast.CompositeLit {
	if u, ok := e.(*ast.UnaryExpr); ok && u.Op == token.AND {
		e = u.X
	}
	if c, ok := e.(*ast.CompositeLit); ok {
		return c
	}
	return nil
}

func sortedKeys(m map[string]string) []string {
	var ks []string
	for k := range m {
		ks = append(ks, k)
	}
	sort.Strings(ks)
	return ks
}

func structLit(st string, fields []string) string {
	if len(fields) == 0 {
		return st + ".mk"
	}
	return "({ " + strings.Join(fields, ", ") + " } : " + st + ")"
}

// ---------------------------------------------------------------------------------------------
// functions

func (g *gen) sigFor(fn *types.Func) *fnSig {
	if fn.Pkg() == nil {
		return nil
	}
	recv := ""
	if s := fn.Type().(*types.Signature); s.Recv() != nil {
		t := s.Recv().Type()
		if p, ok := t.(*types.Pointer); ok {
			t = p.Elem()
		}
		if n, ok := t.(*types.Named); ok {
			recv = n.Obj().Name()
		}
	}
	key := fn.Pkg().Path() + "." + recv + "." + fn.Name()
	for _, t := range trTargets {
		if t.key() == key {
			if g.active[key] {
				trFail("recursive call of %s", key)
			}
			if _, done := g.sigs[key]; !done {
				g.translate(t)
			}
			s := g.sigs[key]
			if s == nil || !s.ok {
				trFail("callee %s could not be translated", key)
			}
			return s
		}
	}
	return nil
}

func leanName(t trTarget) string {
	parts := strings.Split(t.Pkg, "/")
	n := parts[len(parts)-1]
	if t.Recv != "" {
		n += "_" + t.Recv
	}
	return sanitize(n + "_" + t.Name)
}

func (g *gen) translate(t trTarget) {
	key := t.key()
	if _, done := g.sigs[key]; done {
		return
	}
	g.sigs[key] = nil
	g.active[key] = true
	defer delete(g.active, key)
	defer func() {
		if r := recover(); r != nil {
			if e, ok := r.(trError); ok {
				g.errors[key] = e.msg
				g.sigs[key] = &fnSig{lean: leanName(t), ok: false}
				return
			}
			panic(r)
		}
	}()
	p := g.pkgs[t.Pkg]
	if p == nil {
		trFail("package %s not loaded", t.Pkg)
	}
	var fd *ast.FuncDecl
	if t.Recv == "" {
		fd, _ = findFunc(p, t.Name)
	} else {
		fd = findMethod(p, t.Recv, t.Name)
	}
	if fd == nil || fd.Body == nil {
		trFail("function not found")
	}
	var text string
	var sig *fnSig
	mutAss := map[types.Object]bool{}
	effAss := false
	for pass := 0; pass < 4; pass++ {
		f := &fnCtx{g: g, pkg: p, info: p.TypesInfo, fd: fd, tgt: t, lean: leanName(t),
			names: map[types.Object]string{}, used: map[string]bool{}, roots: map[types.Object]string{},
			alias: map[types.Object]pathVal{}, must: map[types.Object]types.Object{}, may: map[types.Object][]types.Object{},
			stale: map[types.Object]bool{}, fresh: map[types.Object]bool{}, mut: map[types.Object]bool{}, mutAss: mutAss, effAss: effAss,
			idxRoot: map[*ast.IndexExpr]types.Object{}, valOrigin: map[types.Object]pathVal{}}
		text, sig = f.function()
		changed := false
		for o := range f.mut {
			if !mutAss[o] {
				mutAss[o] = true
				changed = true
			}
		}
		if f.hasEff && !effAss {
			effAss = true
			changed = true
		}
		if !changed {
			break
		}
	}
	sig.ok = true
	g.sigs[key] = sig
	g.decls[key] = text
	g.order = append(g.order, key)
}

func (f *fnCtx) function() (string, *fnSig) {
	loopStack = nil
	sig := &fnSig{lean: f.lean}
	ft := f.info.ObjectOf(f.fd.Name).Type().(*types.Signature)
	body := f.fd.Body
	var lit *ast.FuncLit
	if len(body.List) == 1 {
		if r, ok := body.List[0].(*ast.ReturnStmt); ok && len(r.Results) == 1 {
			if fl, ok := r.Results[0].(*ast.FuncLit); ok {
				// a constructor of a closure: the closure body with the constructor's parameters in scope
				lit = fl
				body = fl.Body
			}
		}
	}
	var binders []string
	addParam := func(o types.Object) {
		k := f.g.classify(o.Type())
		n := f.nameOf(o)
		f.params = append(f.params, o)
		if k.k == kOpaque {
			f.roots[o] = k.opaque
			f.g.structOf(k.opaque)
		}
		binders = append(binders, "("+n+" : "+k.lean+")")
		sig.ptypes = append(sig.ptypes, k)
	}
	if f.fd.Recv != nil {
		for _, fl := range f.fd.Recv.List {
			if len(fl.Names) == 0 {
				addParam(ft.Recv())
			}
			for _, n := range fl.Names {
				addParam(f.info.ObjectOf(n))
			}
		}
	}
	for i := 0; i < ft.Params().Len(); i++ {
		addParam(ft.Params().At(i))
	}
	if lit != nil {
		ft = f.info.TypeOf(lit).(*types.Signature)
		for i := 0; i < ft.Params().Len(); i++ {
			addParam(ft.Params().At(i))
		}
	}
	var resT []string
	for i := 0; i < ft.Results().Len(); i++ {
		r := ft.Results().At(i)
		k := f.g.classify(r.Type())
		if k.k == kFunc {
			trFail("result of function type %s", k.lean)
		}
		f.resAll = append(f.resAll, k)
		if k.k == kOpaque || k.k == kOList {
			// an object handed back to the caller (the context, a response message) is erased from the Lean result:
			// what the function decides is carried by its value results and its effect log
			if !f.tgt.EraseObj {
				trFail("result of opaque type %s", k.lean)
			}
			f.erased = append(f.erased, true)
			continue
		}
		f.erased = append(f.erased, false)
		f.res = append(f.res, k)
		resT = append(resT, k.lean)
		if r.Name() != "" && r.Name() != "_" {
			f.named = append(f.named, r)
		}
	}
	if len(f.named) != 0 && len(f.named) != len(f.res) {
		trFail("partly named results")
	}
	sig.results = f.res
	for i, p := range f.params {
		if f.mutAss[p] {
			sig.mutRoots = append(sig.mutRoots, i)
			resT = append(resT, f.roots[p])
		}
	}
	if f.effAss {
		resT = append(resT, "List Go.Effect")
		sig.hasEff = true
	}
	switch len(resT) {
	case 0:
		f.retTy = "Unit"
	case 1:
		f.retTy = resT[0]
		if strings.Contains(f.retTy, " ") {
			f.retTy = "(" + f.retTy + ")"
		}
	default:
		f.retTy = "(" + strings.Join(resT, " × ") + ")"
	}
	sig.resLean = f.retTy
	if f.effAss {
		f.emit("let eff : List Go.Effect := []")
	}
	for _, o := range f.named {
		k := f.g.classify(o.Type())
		f.emit("let " + f.nameOf(o) + " : " + k.lean + " := " + zeroOf(k))
		f.declare(o)
	}
	f.block(body.List, func() {
		if len(f.res) == 0 || len(f.named) > 0 {
			f.ret(f.namedVals())
		} else {
			f.emit("none")
		}
	})
	pos := f.pkg.Fset.Position(f.fd.Pos())
	var b strings.Builder
	for _, a := range f.aux {
		b.WriteString(a + "\n\n")
	}
	fmt.Fprintf(&b, "/-- %s (%s) -/\n", f.tgt.key(), relMod(pos.Filename))
	fmt.Fprintf(&b, "def %s %s : Option %s :=\n%s\n", f.lean, strings.Join(binders, " "), f.retTy, strings.Join(indent(f.lines), "\n"))
	return b.String(), sig
}

func relMod(fn string) string {
	if i := strings.Index(fn, "/pkg/mod/"); i >= 0 {
		return fn[i+len("/pkg/mod/"):]
	}
	if i := strings.Index(fn, "/x/"); i >= 0 {
		return fn[i+1:]
	}
	parts := strings.Split(fn, "/")
	if len(parts) > 3 {
		return strings.Join(parts[len(parts)-3:], "/")
	}
	return fn
}

// translateAll renders Facts/GenCode.lean
func translateAll(pkgs map[string]*packages.Package, out string) (okKeys []string, errs map[string]string) {
	g := &gen{pkgs: pkgs, structs: map[string]*structDef{}}
	// twice: the second pass sees every field that any function reads from an opaque type (structure literals are complete)
	for pass := 0; pass < 2; pass++ {
		g.sigs, g.decls, g.order, g.errors, g.active, g.opaqueC = map[string]*fnSig{}, map[string]string{}, nil, map[string]string{}, map[string]bool{}, nil
		ntmp = 0
		for _, t := range trTargets {
			g.translate(t)
		}
	}
	var b strings.Builder
	b.WriteString("/- GENERATED by factgen/translate.go from /repo and the pinned go-ethereum fork on every check run — do not edit.\n")
	b.WriteString("   One Lean definition per translated Go function (semantics: Base/GoSem.lean); Facts/Tie*.lean relate them to the models. -/\n")
	b.WriteString("import EvermintModel.Base.GoSem\nset_option linter.unusedVariables false\nnamespace Evermint.GenCode\nopen Evermint\n\n")
	var names []string
	for n := range g.structs {
		names = append(names, n)
	}
	sort.Strings(names)
	var sn []string
	done := map[string]bool{}
	var visit func(n string)
	visit = func(n string) {
		if done[n] {
			return
		}
		done[n] = true
		for _, ft := range g.structs[n].fields {
			for _, m := range names {
				if m != n && strings.Contains(" "+strings.NewReplacer("(", " ", ")", " ").Replace(ft)+" ", " "+m+" ") {
					visit(m)
				}
			}
		}
		sn = append(sn, n)
	}
	for _, n := range names {
		visit(n)
	}
	for _, n := range sn {
		s := g.structs[n]
		var fs []string
		for fn := range s.fields {
			fs = append(fs, fn)
		}
		sort.Strings(fs)
		fmt.Fprintf(&b, "/-- what the translated functions read from (and write to) a Go value of type `%s` -/\nstructure %s where\n", n, n)
		if len(fs) == 0 {
			b.WriteString("  mk ::\n")
		}
		for _, fn := range fs {
			note := ""
			if s.notes[fn] != "" {
				note = "   -- " + s.notes[fn]
			}
			fmt.Fprintf(&b, "  %s : %s%s\n", fn, s.fields[fn], note)
		}
		b.WriteString("deriving Inhabited\n\n")
	}
	for _, k := range g.order {
		b.WriteString(g.decls[k] + "\n")
		okKeys = append(okKeys, k)
	}
	var ts []string
	for _, k := range g.order {
		ts = append(ts, fmt.Sprintf("%q", g.sigs[k].lean))
	}
	fmt.Fprintf(&b, "/-- the functions that were translated in this run -/\ndef translated : List String := [%s]\n\n", strings.Join(ts, ", "))
	var oc []string
	for _, c := range g.opaqueC {
		oc = append(oc, fmt.Sprintf("%q", c))
	}
	oc = dedup(oc)
	fmt.Fprintf(&b, "/-- conditions left uninterpreted (inputs of the generated definitions) -/\ndef uninterpreted : List String := [%s]\n\n", strings.Join(oc, ", "))
	b.WriteString("end Evermint.GenCode\n")
	if err := os.WriteFile(out, []byte(b.String()), 0o644); err != nil {
		g.errors["*"] = err.Error()
	}
	return okKeys, g.errors
}

func dedup(xs []string) []string {
	seen := map[string]bool{}
	var out []string
	for _, x := range xs {
		if !seen[x] {
			seen[x] = true
			out = append(out, x)
		}
	}
	return out
}
