// translate.go — go2lean: the regenerated *functions* of the model.
//
// For a fixed list of target functions of /repo and of the pinned go-ethereum fork this file translates the
// function body (go/ast + go/types) into a Lean 4 definition over the semantics of
// lean/EvermintModel/Base/GoSem.lean.  The output (Facts/GenCode.lean) is rewritten on every check run; the
// theorems of Facts/Tie*.lean prove that each generated definition equals the hand-written model the property
// theorems are about.  A change of the Go code therefore changes the definition the tie theorem talks about.
//
// Supported: integer / boolean / string / big.Int / sdkmath.Int / LegacyDec / error values, assignments,
// if / switch / early return, named results, `for cond` loops (fuel) and `for range` over slices (structural),
// calls between targets, callbacks, and *opaque objects*: a parameter or receiver of any other type becomes a
// Lean structure whose fields are the accessor paths the code reads (`tx.Gas()` ↦ `tx.Gas`), assumed stable
// during the function; assigned fields (`st.gas -= x`) are threaded through and returned; calls in statement
// position on opaque objects are appended to an effect log.  Anything else is a translation error, reported
// as an unchecked obligation — never guessed.
package main

import (
	"fmt"
	"go/ast"
	"go/types"
	"strings"

	"golang.org/x/tools/go/packages"
)

type trTarget struct {
	Pkg      string // import path
	Recv     string // receiver type name ("" for a function)
	Name     string
	Fuel     string // Lean expression for the fuel of `for cond` loops (over the variables in scope)
	EraseObj bool   // results of object type (the context, a response message) are erased from the Lean result
}

func (t trTarget) key() string { return t.Pkg + "." + t.Recv + "." + t.Name }

const evm = "github.com/EscanBE/evermint/v12/"
const geth = "github.com/ethereum/go-ethereum/"

var trTargets = []trTarget{
	{Pkg: evm + "x/evm/utils", Name: "add"},
	{Pkg: evm + "x/evm/utils", Name: "mul"},
	{Pkg: evm + "x/evm/utils", Name: "EthTxGasPrice"},
	{Pkg: evm + "x/evm/utils", Name: "EthTxFee"},
	{Pkg: evm + "x/evm/utils", Name: "EthTxEffectiveGasPrice"},
	{Pkg: evm + "x/evm/utils", Name: "EthTxEffectiveFee"},
	{Pkg: evm + "x/evm/utils", Name: "CheckIfAccountIsSuitableForDestroyingAt"},
	{Pkg: evm + "app/antedl/utils", Name: "HasSingleEthereumMessage"},
	{Pkg: evm + "app/antedl/utils", Name: "IsEthereumTx"},
	{Pkg: evm + "app/antedl/duallane", Name: "validateSingleFee"},
	{Pkg: evm + "app/antedl/duallane", Name: "getMinGasPricesAllowed"},
	{Pkg: evm + "app/antedl/duallane", Name: "getTxPriority"},
	{Pkg: evm + "app/antedl/duallane", Name: "EthereumTxFeeChecker"},
	{Pkg: evm + "app/antedl/duallane", Name: "CosmosTxFeeChecker"},
	{Pkg: evm + "x/evm/keeper", Recv: "StateTransition", Name: "gasUsed"},
	{Pkg: evm + "x/evm/keeper", Recv: "StateTransition", Name: "buyGas"},
	{Pkg: evm + "x/evm/keeper", Recv: "StateTransition", Name: "preCheck"},
	{Pkg: evm + "x/evm/keeper", Recv: "StateTransition", Name: "refundGas"},
	{Pkg: evm + "x/evm/types", Name: "BinSearch", Fuel: "hi + 1"},
	{Pkg: evm + "x/evm/keeper", Recv: "Keeper", Name: "GetRawTxCountTransient"},
	{Pkg: evm + "x/evm/keeper", Recv: "Keeper", Name: "GetTxCountTransient"},
	{Pkg: evm + "x/evm/keeper", Recv: "Keeper", Name: "IncreaseTxCountTransient"},
	{Pkg: evm + "x/evm/keeper", Recv: "Keeper", Name: "SetGasUsedForCurrentTxTransient"},
	{Pkg: evm + "x/evm/keeper", Recv: "Keeper", Name: "GetGasUsedForTdxIndexTransient"},
	{Pkg: evm + "x/evm/keeper", Recv: "Keeper", Name: "SetLogCountForCurrentTxTransient"},
	{Pkg: evm + "x/evm/keeper", Recv: "Keeper", Name: "GetCumulativeLogCountTransient", Fuel: "txCount + 1"},
	{Pkg: evm + "x/cpc/keeper", Recv: "erc20CustomPrecompiledContractRwTransferFrom", Name: "spendAllowance"},
	{Pkg: evm + "types", Name: "BlockGasLimit"},
	{Pkg: geth + "core/vm", Recv: "CustomPrecompiledContract", Name: "RunCustom"},
	{Pkg: geth + "core/vm", Recv: "CustomPrecompiledContractMethod", Name: "Validate"},
	{Pkg: geth + "consensus/misc", Name: "CalcBaseFee"},
	{Pkg: geth + "core", Name: "IntrinsicGas"},
	{Pkg: evm + "x/feemarket/keeper", Recv: "Keeper", Name: "CalculateBaseFee"},
	{Pkg: evm + "types", Name: "addUint64Overflow"},
	{Pkg: evm + "types", Recv: "infiniteGasMeterWithLimit", Name: "ConsumeGas"},
	{Pkg: evm + "types", Recv: "infiniteGasMeterWithLimit", Name: "RefundGas"},
	{Pkg: evm + "x/evm/keeper", Recv: "Keeper", Name: "ResetGasMeterAndConsumeGas"},
	{Pkg: evm + "x/evm/keeper", Recv: "Keeper", Name: "GetBaseFee"},
	{Pkg: evm + "x/cpc/keeper", Name: "validateDeployer"},
	{Pkg: evm + "app/antedl/duallane", Recv: "DLExtensionOptionsDecorator", Name: "AnteHandle", EraseObj: true},
	{Pkg: evm + "app/antedl/duallane", Recv: "DLTxTimeoutHeightDecorator", Name: "AnteHandle", EraseObj: true},
	{Pkg: evm + "app/antedl/duallane", Recv: "DLValidateMemoDecorator", Name: "AnteHandle", EraseObj: true},
	{Pkg: evm + "app/antedl/cosmoslane", Recv: "CLRejectEthereumMsgsDecorator", Name: "AnteHandle", EraseObj: true},
	{Pkg: evm + "app/antedl/cosmoslane", Recv: "CLVestingMessagesAuthorizationDecorator", Name: "AnteHandle", EraseObj: true},
	{Pkg: evm + "app/antedl/duallane", Recv: "DLValidateBasicDecorator", Name: "AnteHandle", EraseObj: true},
	{Pkg: evm + "x/vauth/keeper", Recv: "msgServer", Name: "SubmitProofExternalOwnedAccount", EraseObj: true},
	{Pkg: evm + "app/antedl/duallane", Recv: "DLSigVerificationDecorator", Name: "AnteHandle", EraseObj: true},
	{Pkg: evm + "app/antedl/duallane", Recv: "DLIncrementSequenceDecorator", Name: "AnteHandle", EraseObj: true},
	{Pkg: evm + "app/antedl/duallane", Recv: "DLDeductFeeDecorator", Name: "AnteHandle", EraseObj: true},
	{Pkg: evm + "x/evm/keeper", Recv: "Keeper", Name: "IsEmptyAccount"},
	{Pkg: evm + "x/cpc/keeper", Recv: "erc20CustomPrecompiledContractRwTransferFrom", Name: "transfer"},
	{Pkg: evm + "x/feemarket/types", Recv: "Params", Name: "Validate"},
	{Pkg: evm + "indexer", Name: "TxIndexKey"},
	{Pkg: evm + "indexer", Name: "parseBlockNumberFromKey"},
	{Pkg: evm + "indexer", Name: "isEthTx"},
	{Pkg: evm + "app/antedl/evmlane", Recv: "ELValidateBasicEoaDecorator", Name: "AnteHandle", EraseObj: true},
	{Pkg: evm + "app/antedl/evmlane", Recv: "ELSetupExecutionDecorator", Name: "AnteHandle", EraseObj: true},
	{Pkg: evm + "app/antedl/evmlane", Recv: "ELEmitEventDecorator", Name: "AnteHandle", EraseObj: true},
}

// ---------------------------------------------------------------------------------------------
// types

type kind int

const (
	kNat kind = iota
	kInt
	kBig
	kSdk
	kDec
	kBool
	kStr
	kErr
	kBytes
	kCoin
	kCoins
	kOpaque
	kFunc
	kUnit
	kPtrSdk // *sdkmath.Int: nil or a value
	kOList  // a slice of opaque objects
	kStrs   // []string
)

type lty struct {
	k      kind
	bits   int
	lean   string
	opaque string
}

type trError struct{ msg string }

func trFail(format string, a ...any) { panic(trError{fmt.Sprintf(format, a...)}) }

type structDef struct {
	name   string
	fields map[string]string // field -> lean type
	notes  map[string]string
}

type fnSig struct {
	lean     string
	params   []string // lean binder text
	ptypes   []lty
	results  []lty
	mutRoots []int // indices into params of opaque roots that are returned updated
	hasEff   bool
	effCoins []string // coin-list arguments of the effect being emitted
	resLean  string
	ok       bool
}

type gen struct {
	pkgs      map[string]*packages.Package
	structs   map[string]*structDef
	sigs      map[string]*fnSig
	decls     map[string]string // key -> lean text
	order     []string
	errors    map[string]string
	active    map[string]bool
	opaqueC   []string          // opaque conditions, for the record
	typeNames map[string]string // Go type (full path) -> structure name
	nameOwner map[string]string
}

func (g *gen) structOf(name string) *structDef {
	s := g.structs[name]
	if s == nil {
		s = &structDef{name: name, fields: map[string]string{}, notes: map[string]string{}}
		g.structs[name] = s
	}
	return s
}

var leanKeywords = map[string]bool{"at": true, "from": true, "to": true, "end": true, "fun": true, "open": true, "in": true, "then": true, "else": true, "do": true, "let": true, "have": true, "show": true, "match": true, "with": true, "where": true, "by": true, "def": true, "theorem": true, "instance": true, "structure": true, "class": true, "namespace": true, "section": true, "variable": true, "universe": true, "import": true, "if": true, "max": true, "min": true, "some": true, "none": true, "eff": true, "fuel": true, "local": true, "prefix": true, "infix": true, "notation": true, "macro": true, "syntax": true, "deriving": true, "extends": true, "mutual": true, "partial": true, "private": true, "protected": true, "unsafe": true, "Type": true, "Prop": true, "Sort": true, "true": true, "false": true, "this": true, "using": true, "calc": true, "nomatch": true, "forall": true, "exists": true, "it": true, "ix": true, "mk": true}

func fieldIdent(s string) string {
	if leanKeywords[s] {
		return s + "'"
	}
	return s
}

func (g *gen) field(st, field, leanType, note string) {
	s := g.structOf(st)
	if old, ok := s.fields[field]; ok && old != leanType {
		trFail("field %s.%s used at two Lean types: %s / %s", st, field, old, leanType)
	}
	s.fields[field] = leanType
	if note != "" {
		s.notes[field] = note
	}
}

func (g *gen) snapshotFields() map[string]map[string]string {
	out := map[string]map[string]string{}
	for n, s := range g.structs {
		out[n] = cpMap(s.fields)
	}
	return out
}

func (g *gen) restoreFields(snap map[string]map[string]string) {
	for n, s := range g.structs {
		if old, ok := snap[n]; ok {
			s.fields = cpMap(old)
		} else {
			s.fields = map[string]string{}
		}
	}
}

func sanitize(s string) string {
	var b strings.Builder
	for _, r := range s {
		if r >= 'a' && r <= 'z' || r >= 'A' && r <= 'Z' || r >= '0' && r <= '9' || r == '_' {
			b.WriteRune(r)
		} else {
			b.WriteByte('_')
		}
	}
	return b.String()
}

func (g *gen) classify(t types.Type) lty {
	if t == nil {
		return lty{k: kUnit, lean: "Unit"}
	}
	s := types.TypeString(t, nil)
	switch s {
	case "*math/big.Int":
		return lty{k: kBig, lean: "Int"}
	case "cosmossdk.io/math.Int":
		return lty{k: kSdk, lean: "Int"}
	case "cosmossdk.io/math.LegacyDec":
		return lty{k: kDec, lean: "Int"}
	case "*cosmossdk.io/math.Int":
		return lty{k: kPtrSdk, lean: "(Option Int)"}
	case "error":
		return lty{k: kErr, lean: "Option String"}
	case "github.com/cosmos/cosmos-sdk/types.Coin":
		return lty{k: kCoin, lean: "Go.Coin"}
	case "github.com/cosmos/cosmos-sdk/types.Coins", "[]github.com/cosmos/cosmos-sdk/types.Coin":
		return lty{k: kCoins, lean: "List Go.Coin"}
	}
	if a, ok := t.(*types.Alias); ok {
		// an alias of an unnamed interface / struct keeps its own name (sdk.Msg); otherwise look through it
		ua := types.Unalias(a)
		if _, isNamed := ua.(*types.Named); !isNamed {
			if _, isPtr := ua.(*types.Pointer); !isPtr {
				switch ua.Underlying().(type) {
				case *types.Interface, *types.Struct:
					name := a.Obj().Name()
					if a.Obj().Pkg() != nil {
						name = a.Obj().Pkg().Name() + "_" + name
					}
					return lty{k: kOpaque, lean: name, opaque: name}
				}
			}
		}
		return g.classify(ua)
	}
	_, isNamedType := t.(*types.Named)
	switch u := t.Underlying().(type) {
	case *types.Basic:
		info := u.Info()
		switch {
		case info&types.IsBoolean != 0:
			return lty{k: kBool, lean: "Bool"}
		case info&types.IsString != 0:
			return lty{k: kStr, lean: "String"}
		case info&types.IsInteger != 0:
			bits := 64
			switch u.Kind() {
			case types.Int8, types.Uint8:
				bits = 8
			case types.Int16, types.Uint16:
				bits = 16
			case types.Int32, types.Uint32:
				bits = 32
			}
			if info&types.IsUnsigned != 0 {
				return lty{k: kNat, bits: bits, lean: "Nat"}
			}
			return lty{k: kInt, bits: bits, lean: "Int"}
		}
	case *types.Slice:
		if b, ok := u.Elem().Underlying().(*types.Basic); ok && b.Kind() == types.Uint8 {
			return lty{k: kBytes, lean: "List Nat"}
		}
		if b, ok := u.Elem().Underlying().(*types.Basic); ok && b.Kind() == types.String {
			return lty{k: kStrs, lean: "(List String)"}
		}
		if ek := g.classifySafe(u.Elem()); ek.k == kOpaque && !isNamedType {
			g.structOf(ek.opaque)
			return lty{k: kOList, lean: "(List " + ek.opaque + ")", opaque: ek.opaque}
		}
	case *types.Signature:
		var ps, rs []string
		for i := 0; i < u.Params().Len(); i++ {
			pt := g.classifySafe(u.Params().At(i).Type())
			if pt.k == kFunc || pt.k == kUnit {
				trFail("callback with a function parameter")
			}
			if pt.k == kOpaque || pt.k == kOList {
				// an opaque argument of a callback (the context, the transaction) is dropped: the callback's result is a
				// function of its value arguments only (the objects are the ones the enclosing function already reads)
				continue
			}
			ps = append(ps, pt.lean)
		}
		if len(ps) == 0 {
			ps = []string{"Unit"}
		}
		for i := 0; i < u.Results().Len(); i++ {
			rt := g.classify(u.Results().At(i).Type())
			if rt.k == kOpaque {
				rs = append(rs, "Unit")
			} else {
				rs = append(rs, rt.lean)
			}
		}
		r := "Unit"
		if len(rs) == 1 {
			r = rs[0]
		} else if len(rs) > 1 {
			r = "(" + strings.Join(rs, " × ") + ")"
		}
		return lty{k: kFunc, lean: "(" + strings.Join(append(ps, r), " → ") + ")"}
	}
	// opaque: a named (pointer to) struct / interface
	tt := t
	if p, ok := tt.(*types.Pointer); ok {
		tt = p.Elem()
	}
	if n, ok := tt.(*types.Named); ok {
		name := n.Obj().Name()
		full := name
		if n.Obj().Pkg() != nil {
			name = n.Obj().Pkg().Name() + "_" + name
			full = n.Obj().Pkg().Path() + "." + n.Obj().Name()
		}
		// two Go types with the same short name (x/evm/keeper.Keeper, x/feemarket/keeper.Keeper) get distinct structures
		if g.typeNames == nil {
			g.typeNames, g.nameOwner = map[string]string{}, map[string]string{}
		}
		if nm, ok := g.typeNames[full]; ok {
			name = nm
		} else {
			if owner, taken := g.nameOwner[name]; taken && owner != full {
				parts := strings.Split(n.Obj().Pkg().Path(), "/")
				if len(parts) >= 2 {
					name = sanitize(parts[len(parts)-2]) + "_" + name
				}
			}
			g.typeNames[full] = name
			g.nameOwner[name] = full
		}
		return lty{k: kOpaque, lean: name, opaque: name}
	}
	if a, ok := tt.(*types.Alias); ok {
		return g.classify(types.Unalias(a))
	}
	if it, ok := tt.(*types.Interface); ok && it.NumMethods() > 0 {
		// an unnamed interface (sdk.Msg is an alias of one): named by its methods
		var ms []string
		for i := 0; i < it.NumMethods() && i < 3; i++ {
			ms = append(ms, it.Method(i).Name())
		}
		name := "iface_" + strings.Join(ms, "_")
		return lty{k: kOpaque, lean: name, opaque: name}
	}
	trFail("unsupported type %s", s)
	return lty{}
}

// ---------------------------------------------------------------------------------------------
// per-function state

type pathVal struct {
	root types.Object
	st   string   // lean struct of the root
	segs []string // accessor segments
}

type fnCtx struct {
	g         *gen
	pkg       *packages.Package
	info      *types.Info
	fd        *ast.FuncDecl
	tgt       trTarget
	lean      string
	names     map[types.Object]string
	used      map[string]bool
	roots     map[types.Object]string // opaque roots (params / receiver) -> struct
	alias     map[types.Object]pathVal
	must      map[types.Object]types.Object // big.Int must-alias
	may       map[types.Object][]types.Object
	stale     map[types.Object]bool
	fresh     map[types.Object]bool
	scope     []types.Object // value variables in scope, declaration order
	params    []types.Object
	named     []types.Object // named results
	res       []lty
	resAll    []lty // every declared result; opaque ones are erased from the Lean result
	erased    []bool
	mut       map[types.Object]bool
	mutAss    map[types.Object]bool // assumed (second pass)
	hasEff    bool
	effCoins  []string // coin-list arguments of the effect being emitted
	effAss    bool
	lines     []string
	aux       []string
	nloop     int
	retTy     string
	idxRoot   map[*ast.IndexExpr]types.Object // elements of opaque slices bound to a name
	valOrigin map[types.Object]pathVal        // byte-slice locals read from an object by a plain accessor
	loopRoots []types.Object                  // opaque loop variables in scope
}

func (f *fnCtx) nameOf(o types.Object) string {
	if m, ok := f.must[o]; ok {
		return f.nameOf(m)
	}
	if n, ok := f.names[o]; ok {
		return n
	}
	base := sanitize(o.Name())
	if base == "_" || base == "" {
		base = "_x"
	}
	switch base {
	case "at", "from", "to", "end", "fun", "open", "in", "then", "else", "do", "let", "have", "show", "match", "with", "where", "by", "def", "theorem", "instance", "structure", "class", "namespace", "section", "variable", "universe", "import", "if", "max", "min", "some", "none", "eff", "fuel", "local", "prefix", "infix", "notation", "macro", "syntax", "deriving", "extends", "mutual", "partial", "private", "protected", "unsafe", "Type", "Prop", "Sort", "true", "false", "this", "using", "calc", "nomatch", "forall", "exists":
		base = base + "'"
	}
	n := base
	for i := 1; f.used[n]; i++ {
		n = fmt.Sprintf("%s_%d", base, i)
	}
	f.used[n] = true
	f.names[o] = n
	return n
}

func (f *fnCtx) emit(s string) { f.lines = append(f.lines, s) }

func (f *fnCtx) typeOf(e ast.Expr) types.Type {
	if tv, ok := f.info.Types[e]; ok {
		return tv.Type
	}
	if id, ok := e.(*ast.Ident); ok {
		if o := f.info.ObjectOf(id); o != nil {
			return o.Type()
		}
	}
	trFail("no type for %s", exprFull(e))
	return nil
}

func (f *fnCtx) kindOf(e ast.Expr) lty { return f.g.classify(f.typeOf(e)) }

func (f *fnCtx) src(e ast.Node) string {
	if ex, ok := e.(ast.Expr); ok {
		return exprFull(ex)
	}
	return fmt.Sprintf("%T", e)
}

// ---------------------------------------------------------------------------------------------
// paths on opaque objects

func (f *fnCtx) pathOf(e ast.Expr) (pathVal, []ast.Expr, bool) {
	switch x := e.(type) {
	case *ast.ParenExpr:
		return f.pathOf(x.X)
	case *ast.Ident:
		o := f.info.ObjectOf(x)
		if o == nil {
			return pathVal{}, nil, false
		}
		if st, ok := f.roots[o]; ok {
			return pathVal{root: o, st: st}, nil, true
		}
		if p, ok := f.alias[o]; ok {
			return pathVal{root: p.root, st: p.st, segs: append([]string{}, p.segs...)}, nil, true
		}
	case *ast.SelectorExpr:
		// a method value / field of a path
		if _, isPkg := f.info.ObjectOf(identOf(x.X)).(*types.PkgName); isPkg && identOf(x.X) != nil {
			return pathVal{}, nil, false
		}
		p, args, ok := f.pathOf(x.X)
		if ok && args == nil {
			p.segs = append(p.segs, x.Sel.Name)
			return p, nil, true
		}
	case *ast.StarExpr:
		p, args, ok := f.pathOf(x.X)
		if ok && args == nil {
			p.segs = append(p.segs, "deref")
			return p, nil, true
		}
	case *ast.IndexExpr:
		if o, ok := f.idxRoot[x]; ok {
			return pathVal{root: o, st: f.roots[o]}, nil, true
		}
	case *ast.TypeAssertExpr:
		// the single-value form: panics on another dynamic type — the caller has checked the type (assumed)
		if x.Type != nil {
			p, args, ok := f.pathOf(x.X)
			if ok && args == nil {
				p.segs = append(p.segs, "as_"+sanitize(strings.TrimPrefix(exprFull(x.Type), "*")))
				return p, nil, true
			}
		}
	case *ast.CallExpr:
		// sdk.UnwrapSDKContext(goCtx): the same object under its other type
		if fn := f.calleeFunc(x); fn != nil && fn.Pkg() != nil && fn.Pkg().Path() == "github.com/cosmos/cosmos-sdk/types" && fn.Name() == "UnwrapSDKContext" && len(x.Args) == 1 {
			return f.pathOf(x.Args[0])
		}
		if sel, ok := x.Fun.(*ast.SelectorExpr); ok {
			p, args, ok := f.pathOf(sel)
			if ok && args == nil {
				var vals []ast.Expr
				for _, a := range x.Args {
					ak := f.g.classifySafe(f.typeOf(a))
					if ak.k == kOpaque || ak.k == kUnit {
						// an opaque argument: the context is dropped, any other object names the accessor
						// (GetAllowance(ctx, owner, spender) ↦ GetAllowance_owner_spender)
						ap, aargs, isPath := f.pathOf(a)
						if !isPath || aargs != nil {
							return pathVal{}, nil, false
						}
						if ak.opaque == "types_Context" || ak.opaque == "context_Context" {
							continue
						}
						p.segs[len(p.segs)-1] += "_" + strings.Join(append([]string{ap.root.Name()}, ap.segs...), "_")
						continue
					}
					// a value read straight from another object by a plain accessor (`ak.GetAccount(ctx, msg.GetFrom())`) names the
					// accessor, like an object argument
					if ak.k == kBytes || ak.k == kStr {
						if ap, aargs, isPath := f.pathOf(a); isPath && aargs == nil && len(ap.segs) > 0 {
							p.segs[len(p.segs)-1] += "_" + strings.Join(append([]string{ap.root.Name()}, ap.segs...), "_")
							continue
						}
					}
					if id, ok := a.(*ast.Ident); ok {
						if o := f.info.ObjectOf(id); o != nil {
							if op, ok := f.valOrigin[o]; ok {
								p.segs[len(p.segs)-1] += "_" + strings.Join(append([]string{op.root.Name()}, op.segs...), "_")
								continue
							}
						}
					}
					// a package-level variable as argument (a fixed store key) names the accessor
					if pv := pkgLevelVar(f.info, a); pv != "" {
						p.segs[len(p.segs)-1] += "_" + pv
						continue
					}
					// a key built from values by a package function (evmtypes.TxGasTransientKey(i)): the constructor names
					// the accessor, its arguments are the accessor's arguments
					if kc, ok := a.(*ast.CallExpr); ok {
						if kfn := f.calleeFunc(kc); kfn != nil && kfn.Type().(*types.Signature).Recv() == nil && f.g.sigForNoTranslate(kfn) == nil && !knownPkgFunc(kfn) {
							allVals := len(kc.Args) > 0
							for _, ka := range kc.Args {
								kk := f.g.classifySafe(f.typeOf(ka))
								if kk.k == kOpaque || kk.k == kUnit || kk.k == kFunc || kk.k == kOList {
									allVals = false
								}
							}
							if allVals {
								p.segs[len(p.segs)-1] += "_" + kfn.Name()
								vals = append(vals, kc.Args...)
								continue
							}
						}
					}
					vals = append(vals, a)
				}
				if vals == nil {
					vals = []ast.Expr{}
				}
				if len(vals) > 0 {
					return p, vals, true
				}
				// a call without value arguments can be continued (k.GetParams(ctx).BaseFee)
				return p, nil, true
			}
		}
	}
	return pathVal{}, nil, false
}

// sigForNoTranslate: is the function one of the targets (without translating it now)
func (g *gen) sigForNoTranslate(fn *types.Func) *trTarget {
	if fn.Pkg() == nil {
		return nil
	}
	for i, t := range trTargets {
		if t.Recv == "" && t.Pkg == fn.Pkg().Path() && t.Name == fn.Name() {
			return &trTargets[i]
		}
	}
	return nil
}

func pkgLevelVar(info *types.Info, e ast.Expr) string {
	var id *ast.Ident
	switch x := e.(type) {
	case *ast.Ident:
		id = x
	case *ast.SelectorExpr:
		if _, isPkg := info.ObjectOf(identOf(x.X)).(*types.PkgName); isPkg {
			id = x.Sel
		}
	}
	if id == nil {
		return ""
	}
	if v, ok := info.ObjectOf(id).(*types.Var); ok && !v.IsField() && v.Pkg() != nil && v.Parent() == v.Pkg().Scope() {
		return v.Name()
	}
	return ""
}

func knownPkgFunc(fn *types.Func) bool {
	if fn.Pkg() == nil {
		return false
	}
	switch fn.Pkg().Path() + "." + fn.Name() {
	case "github.com/cosmos/cosmos-sdk/types.BigEndianToUint64", "github.com/cosmos/cosmos-sdk/types.Uint64ToBigEndian",
		"math/big.NewInt", "cosmossdk.io/math.NewInt", "cosmossdk.io/math.NewIntFromUint64", "cosmossdk.io/math.NewIntFromBigInt":
		return true
	}
	return false
}

func identOf(e ast.Expr) *ast.Ident {
	if id, ok := e.(*ast.Ident); ok {
		return id
	}
	return &ast.Ident{Name: "\x00"}
}

// pathValue: the Lean term reading an accessor path (registers the field)
func (f *fnCtx) pathValue(p pathVal, args []ast.Expr, rt lty, e ast.Expr) string {
	if len(p.segs) == 0 {
		trFail("opaque object %s used as a value", f.src(e))
	}
	field := fieldIdent(strings.Join(p.segs, "_"))
	lt := rt.lean
	if rt.k == kOpaque {
		trFail("opaque value %s (type %s) used where a value is needed", f.src(e), rt.lean)
	}
	if rt.k == kOList {
		lt = "List " + rt.opaque
	}
	var as []string
	if len(args) > 0 {
		var ts []string
		for _, a := range args {
			ts = append(ts, f.kindOf(a).lean)
			as = append(as, f.atom(f.expr(a)))
		}
		lt = strings.Join(append(ts, rt.lean), " → ")
	}
	f.g.field(p.st, field, lt, "")
	t := f.nameOf(p.root) + "." + field
	if len(as) > 0 {
		return "(" + t + " " + strings.Join(as, " ") + ")"
	}
	return t
}

func (f *fnCtx) atom(s string) string {
	if strings.ContainsAny(s, " ") && !(strings.HasPrefix(s, "(") && balanced(s)) {
		return "(" + s + ")"
	}
	return s
}

func balanced(s string) bool {
	// true when the leading '(' closes at the very end
	d := 0
	for i, r := range s {
		if r == '(' {
			d++
		} else if r == ')' {
			d--
			if d == 0 && i != len(s)-1 {
				return false
			}
		}
	}
	return d == 0
}
