package main

import (
	"fmt"
	"go/ast"
	"go/constant"
	"go/token"
	"go/types"
	"math/big"
	"strconv"
	"strings"
)

var ntmp int

func (f *fnCtx) tmp() string {
	ntmp++
	n := fmt.Sprintf("t%d", ntmp)
	f.used[n] = true
	return n
}

// partial: bind the result of an operation that may panic
func (f *fnCtx) partial(term string) string {
	v := f.tmp()
	f.emit("match " + term + " with")
	f.emit("| none => none")
	f.emit("| some " + v + " =>")
	return v
}

func (f *fnCtx) constTerm(v constant.Value, k lty, e ast.Expr) string {
	switch k.k {
	case kBool:
		if constant.BoolVal(v) {
			return "true"
		}
		return "false"
	case kStr:
		return strconv.Quote(constant.StringVal(v))
	case kNat:
		iv := constant.ToInt(v)
		if iv.Kind() != constant.Int {
			trFail("constant %s is not an integer", f.src(e))
		}
		return "(" + iv.ExactString() + " : Nat)"
	case kInt:
		iv := constant.ToInt(v)
		if iv.Kind() != constant.Int {
			trFail("constant %s is not an integer", f.src(e))
		}
		return "(" + iv.ExactString() + " : Int)"
	}
	trFail("constant %s of unsupported kind", f.src(e))
	return ""
}

func zeroOf(k lty) string {
	switch k.k {
	case kNat:
		return "(0 : Nat)"
	case kInt, kBig, kSdk, kDec:
		return "(0 : Int)"
	case kBool:
		return "false"
	case kStr:
		return `""`
	case kErr:
		return "none"
	case kBytes, kCoins, kOList:
		return "[]"
	case kPtrSdk:
		return "none"
	case kUnit:
		return "()"
	}
	trFail("no zero value for %s", k.lean)
	return ""
}

func isNilIdent(e ast.Expr) bool {
	id, ok := e.(*ast.Ident)
	return ok && id.Name == "nil"
}

var bigConsts = map[string]string{"Big0": "0", "Big1": "1", "Big2": "2", "Big3": "3", "Big32": "32", "Big256": "256", "Big257": "257"}

// pkgBigVar: a package-level *big.Int whose initialiser is a constant expression the translator can evaluate
func (f *fnCtx) pkgBigVar(o types.Object) (string, bool) {
	if o == nil || o.Pkg() == nil {
		return "", false
	}
	p := f.g.pkgs[o.Pkg().Path()]
	if p == nil {
		return "", false
	}
	for _, file := range p.Syntax {
		for _, d := range file.Decls {
			gd, ok := d.(*ast.GenDecl)
			if !ok || gd.Tok != token.VAR {
				continue
			}
			for _, sp := range gd.Specs {
				vs := sp.(*ast.ValueSpec)
				for i, n := range vs.Names {
					if p.TypesInfo.ObjectOf(n) != o || i >= len(vs.Values) {
						continue
					}
					// new(big.Int).SetBytes([]byte{…constants…})
					if c, ok := vs.Values[i].(*ast.CallExpr); ok {
						if sel, ok := c.Fun.(*ast.SelectorExpr); ok && sel.Sel.Name == "SetBytes" && isNewBigInt(sel.X) && len(c.Args) == 1 {
							if lit, ok := c.Args[0].(*ast.CompositeLit); ok {
								v := new(big.Int)
								for _, el := range lit.Elts {
									tv, ok := p.TypesInfo.Types[el]
									if !ok || tv.Value == nil {
										return "", false
									}
									b, _ := constant.Uint64Val(constant.ToInt(tv.Value))
									v.Lsh(v, 8)
									v.Or(v, new(big.Int).SetUint64(b))
								}
								return "(" + v.String() + " : Int)", true
							}
						}
						if exprFull(c.Fun) == "big.NewInt" && len(c.Args) == 1 {
							if tv, ok := p.TypesInfo.Types[c.Args[0]]; ok && tv.Value != nil {
								return "(" + constant.ToInt(tv.Value).ExactString() + " : Int)", true
							}
						}
					}
				}
			}
		}
	}
	return "", false
}

func (f *fnCtx) localVar(id *ast.Ident) (types.Object, bool) {
	o := f.info.ObjectOf(id)
	v, ok := o.(*types.Var)
	if !ok || v.IsField() {
		return nil, false
	}
	if v.Parent() == nil || v.Pkg() == nil || v.Parent() == v.Pkg().Scope() {
		return nil, false // package level
	}
	return o, true
}

func (f *fnCtx) readVar(o types.Object, e ast.Expr) string {
	if f.stale[o] {
		trFail("%s is read after a big.Int it may alias was modified in place", f.src(e))
	}
	return f.nameOf(o)
}

// expr translates an expression to a Lean term; operations that may panic are bound first (f.emit).
func (f *fnCtx) expr(e ast.Expr) string {
	if tv, ok := f.info.Types[e]; ok && tv.Value != nil {
		return f.constTerm(tv.Value, f.g.classify(tv.Type), e)
	}
	f.bindIndexRoots(e)
	switch x := e.(type) {
	case *ast.ParenExpr:
		return f.expr(x.X)
	case *ast.Ident:
		if x.Name == "nil" {
			trFail("nil outside a comparison / return")
		}
		if o, ok := f.localVar(x); ok {
			if _, isRoot := f.roots[o]; isRoot {
				trFail("opaque object %s used as a value", x.Name)
			}
			if _, isAlias := f.alias[o]; isAlias {
				trFail("opaque object %s used as a value", x.Name)
			}
			return f.readVar(o, e)
		}
		// package-level variable of this package
		k := f.kindOf(e)
		if k.k == kErr {
			return `(some "` + x.Name + `")`
		}
		trFail("package-level variable %s", x.Name)
	case *ast.SelectorExpr:
		if id, ok := x.X.(*ast.Ident); ok {
			if _, isPkg := f.info.ObjectOf(id).(*types.PkgName); isPkg {
				if f.isErrorValue(e) {
					return `(some "` + x.Sel.Name + `")`
				}
				k := f.kindOf(e)
				if k.k == kErr {
					return `(some "` + x.Sel.Name + `")`
				}
				if k.k == kBig {
					if c, ok := bigConsts[x.Sel.Name]; ok && strings.HasSuffix(f.info.ObjectOf(x.Sel).Pkg().Path(), "go-ethereum/common") {
						return "(" + c + " : Int)"
					}
					if v, ok := f.pkgBigVar(f.info.ObjectOf(x.Sel)); ok {
						return v
					}
				}
				trFail("package-level variable %s", f.src(e))
			}
		}
		if p, args, ok := f.pathOf(e); ok && args == nil {
			return f.pathValue(p, nil, f.kindOf(e), e)
		}
		if f.kindOf(x.X).k == kCoin {
			return f.atom(f.expr(x.X)) + "." + x.Sel.Name
		}
		trFail("selector %s", f.src(e))
	case *ast.StarExpr:
		if p, args, ok := f.pathOf(e); ok && args == nil {
			return f.pathValue(p, nil, f.kindOf(e), e)
		}
		trFail("dereference %s", f.src(e))
	case *ast.UnaryExpr:
		k := f.kindOf(x.X)
		switch x.Op {
		case token.NOT:
			return "(!" + f.atom(f.expr(x.X)) + ")"
		case token.SUB:
			if k.k == kInt {
				return fmt.Sprintf("(Go.ineg %d %s)", k.bits, f.atom(f.expr(x.X)))
			}
			if k.k == kNat {
				return fmt.Sprintf("(Go.usub %d 0 %s)", k.bits, f.atom(f.expr(x.X)))
			}
		case token.ADD:
			return f.expr(x.X)
		case token.AND:
			if k.k == kSdk {
				return "(some " + f.atom(f.expr(x.X)) + ")"
			}
		}
		trFail("unary %s", f.src(e))
	case *ast.BinaryExpr:
		return f.binary(x)
	case *ast.IndexExpr:
		k := f.kindOf(x.X)
		if k.k == kOList {
			trFail("element of an opaque slice used as a value: %s", f.src(e))
		}
		if k.k == kCoins || k.k == kBytes {
			xs := f.atom(f.expr(x.X))
			i := f.asInt(x.Index)
			return f.partial(fmt.Sprintf("Go.idx %s %s", xs, f.atom(i)))
		}
		trFail("index %s", f.src(e))
	case *ast.CallExpr:
		return f.call(x, false)
	case *ast.CompositeLit:
		// a byte-slice literal
		if f.kindOf(e).k == kBytes {
			var es []string
			for _, el := range x.Elts {
				if _, isKV := el.(*ast.KeyValueExpr); isKV {
					trFail("keyed byte-slice literal")
				}
				es = append(es, f.asNatByte(el))
			}
			return "([" + strings.Join(es, ", ") + "] : List Nat)"
		}
	case *ast.SliceExpr:
		// bz[lo:hi] of a byte slice: panics when the bounds are not lo <= hi <= len
		if f.kindOf(x.X).k == kBytes && !x.Slice3 {
			xs := f.atom(f.expr(x.X))
			lo, hi := "(0 : Int)", "(("+xs+".length : Nat) : Int)"
			if x.Low != nil {
				lo = f.atom(f.asInt(x.Low))
			}
			if x.High != nil {
				hi = f.atom(f.asInt(x.High))
			}
			return f.partial(fmt.Sprintf("Go.sliceBytes %s %s %s", xs, lo, hi))
		}
	}
	trFail("expression %s (%T)", f.src(e), e)
	return ""
}

// bindIndexRoots: `xs[i]` of a slice of opaque objects inside an accessor chain is bound to a name first
// (`match Go.idx xs i with | none => none | some el => …`), the chain then continues from `el`
func (f *fnCtx) bindIndexRoots(e ast.Expr) {
	var walk func(n ast.Expr)
	walk = func(n ast.Expr) {
		switch x := n.(type) {
		case *ast.ParenExpr:
			walk(x.X)
		case *ast.SelectorExpr:
			walk(x.X)
		case *ast.StarExpr:
			walk(x.X)
		case *ast.TypeAssertExpr:
			walk(x.X)
		case *ast.CallExpr:
			if sel, ok := x.Fun.(*ast.SelectorExpr); ok {
				walk(sel.X)
			}
		case *ast.IndexExpr:
			if _, done := f.idxRoot[x]; done {
				return
			}
			k := f.g.classifySafe(f.typeOf(x.X))
			if k.k != kOList {
				return
			}
			walk(x.X)
			xs := f.atom(f.expr(x.X))
			i := f.atom(f.asInt(x.Index))
			o := types.NewVar(token.NoPos, f.pkg.Types, "el", f.typeOf(x))
			f.roots[o] = k.opaque
			f.loopRoots = append(f.loopRoots, o)
			f.idxRoot[x] = o
			f.emit("match Go.idx " + xs + " " + i + " with")
			f.emit("| none => none")
			f.emit("| some " + f.nameOf(o) + " =>")
		}
	}
	walk(e)
}

// asInt: an integer expression as a Lean Int
func (f *fnCtx) asInt(e ast.Expr) string {
	k := f.kindOf(e)
	t := f.expr(e)
	if k.k == kNat {
		return "((" + t + " : Nat) : Int)"
	}
	return t
}

func (f *fnCtx) boolOpaque(e ast.Expr) (string, bool) {
	// a boolean expression the translator cannot interpret, mentioning exactly the opaque objects: an input
	var root types.Object
	ast.Inspect(e, func(n ast.Node) bool {
		if id, ok := n.(*ast.Ident); ok && root == nil {
			if o := f.info.ObjectOf(id); o != nil {
				if _, ok := f.roots[o]; ok {
					root = o
				} else if p, ok := f.alias[o]; ok {
					root = p.root
				}
			}
		}
		return true
	})
	if root == nil {
		return "", false
	}
	src := exprFull(e)
	name := "cond_" + shortHash(src)
	f.g.field(f.roots[root], name, "Bool", "uninterpreted condition: "+src)
	f.g.opaqueC = append(f.g.opaqueC, f.lean+": "+src)
	return f.nameOf(root) + "." + name, true
}

func (f *fnCtx) binary(x *ast.BinaryExpr) (out string) {
	lk := f.kindOf(x.X)
	if f.kindOf(x).k == kBool {
		// anything boolean that cannot be interpreted becomes an uninterpreted condition on an opaque object
		snap := f.g.snapshotFields()
		nlines := len(f.lines)
		idxSnap := cpMap(f.idxRoot)
		defer func() {
			if r := recover(); r != nil {
				if _, isTr := r.(trError); !isTr {
					panic(r)
				}
				f.g.restoreFields(snap)
				f.lines = f.lines[:nlines]
				f.idxRoot = idxSnap
				if t, ok := f.boolOpaque(x); ok {
					out = t
					return
				}
				panic(r)
			}
		}()
	}
	// nil comparisons
	if isNilIdent(x.Y) || isNilIdent(x.X) {
		other := x.X
		if isNilIdent(x.X) {
			other = x.Y
		}
		ok := f.kindOf(other)
		var isNil string
		if p, args, isPath := f.pathOf(other); isPath && args == nil && ok.k != kErr && ok.k != kPtrSdk {
			if len(p.segs) == 0 {
				f.g.field(p.st, "isNil", "Bool", "")
				isNil = f.nameOf(p.root) + ".isNil"
			} else {
				field := strings.Join(p.segs, "_") + "_isNil"
				f.g.field(p.st, field, "Bool", "")
				isNil = f.nameOf(p.root) + "." + field
			}
		} else if ok.k == kErr || ok.k == kPtrSdk {
			isNil = "(" + f.atom(f.expr(other)) + ").isNone"
		} else if ok.k == kBytes || ok.k == kCoins {
			trFail("nil comparison of a slice: %s", f.src(x))
		} else {
			trFail("nil comparison %s", f.src(x))
		}
		if x.Op == token.EQL {
			return isNil
		}
		return "(!" + isNil + ")"
	}
	switch x.Op {
	case token.LAND, token.LOR:
		a := f.atom(f.expr(x.X))
		n := len(f.lines)
		b := f.atom(f.expr(x.Y))
		if len(f.lines) != n {
			trFail("short-circuit operand may panic: %s", f.src(x))
		}
		if x.Op == token.LAND {
			return "(" + a + " && " + b + ")"
		}
		return "(" + a + " || " + b + ")"
	}
	a := f.atom(f.expr(x.X))
	b := f.atom(f.expr(x.Y))
	cmp := func(op string) string { return "(decide (" + a + " " + op + " " + b + "))" }
	switch x.Op {
	case token.EQL:
		if lk.k == kOpaque {
			trFail("comparison of opaque values")
		}
		if lk.k == kBool {
			return "(" + a + " == " + b + ")"
		}
		return cmp("=")
	case token.NEQ:
		if lk.k == kOpaque {
			trFail("comparison of opaque values")
		}
		if lk.k == kBool {
			return "(" + a + " != " + b + ")"
		}
		return "(!" + cmp("=") + ")"
	case token.LSS:
		return cmp("<")
	case token.LEQ:
		return cmp("≤")
	case token.GTR:
		return cmp(">")
	case token.GEQ:
		return cmp("≥")
	}
	return f.arith(x.Op, lk, a, b, x.Y, x)
}

func (f *fnCtx) arith(op token.Token, k lty, a, b string, y ast.Expr, whole ast.Expr) string {
	constNonZero := false
	if y != nil {
		if tv, ok := f.info.Types[y]; ok && tv.Value != nil {
			if iv := constant.ToInt(tv.Value); iv.Kind() == constant.Int && constant.Sign(iv) != 0 {
				constNonZero = true
			}
		}
	}
	switch k.k {
	case kNat:
		switch op {
		case token.ADD:
			return fmt.Sprintf("(Go.uadd %d %s %s)", k.bits, a, b)
		case token.SUB:
			return fmt.Sprintf("(Go.usub %d %s %s)", k.bits, a, b)
		case token.MUL:
			return fmt.Sprintf("(Go.umul %d %s %s)", k.bits, a, b)
		case token.QUO:
			if constNonZero {
				return "(" + a + " / " + b + ")"
			}
			return f.partial(fmt.Sprintf("Go.udiv %s %s", a, b))
		case token.REM:
			if constNonZero {
				return "(" + a + " % " + b + ")"
			}
			return f.partial(fmt.Sprintf("Go.umod %s %s", a, b))
		}
	case kInt:
		switch op {
		case token.ADD:
			return fmt.Sprintf("(Go.iadd %d %s %s)", k.bits, a, b)
		case token.SUB:
			return fmt.Sprintf("(Go.isub %d %s %s)", k.bits, a, b)
		case token.MUL:
			return fmt.Sprintf("(Go.imul %d %s %s)", k.bits, a, b)
		case token.QUO:
			return f.partial(fmt.Sprintf("Go.idiv %d %s %s", k.bits, a, b))
		case token.REM:
			return f.partial(fmt.Sprintf("Go.imod %s %s", a, b))
		}
	case kStr:
		if op == token.ADD {
			return "(" + a + " ++ " + b + ")"
		}
	}
	trFail("operator %s on %s in %s", op, k.lean, f.src(whole))
	return ""
}

func (f *fnCtx) convert(dst lty, arg ast.Expr) string {
	src := f.kindOf(arg)
	t := f.atom(f.expr(arg))
	switch {
	case src.k == kNat && dst.k == kNat:
		if dst.bits < src.bits {
			return fmt.Sprintf("(Go.uwrap %d %s)", dst.bits, t)
		}
		return t
	case src.k == kNat && dst.k == kInt:
		if src.bits < dst.bits {
			return "((" + t + " : Nat) : Int)"
		}
		return fmt.Sprintf("(Go.toI %d ((%s : Nat) : Int))", dst.bits, t)
	case src.k == kInt && dst.k == kNat:
		return fmt.Sprintf("(Go.toU %d %s)", dst.bits, t)
	case src.k == kInt && dst.k == kInt:
		if dst.bits < src.bits {
			return fmt.Sprintf("(Go.toI %d %s)", dst.bits, t)
		}
		return t
	case src.k == dst.k:
		return t
	}
	trFail("conversion %s -> %s", src.lean, dst.lean)
	return ""
}

func isNewBigInt(e ast.Expr) bool {
	c, ok := e.(*ast.CallExpr)
	if !ok || len(c.Args) != 1 {
		return false
	}
	id, ok := c.Fun.(*ast.Ident)
	if !ok || id.Name != "new" {
		return false
	}
	return exprFull(c.Args[0]) == "big.Int"
}

var bigMutating = map[string]bool{"Add": true, "Sub": true, "Mul": true, "Div": true, "Mod": true, "Quo": true, "Rem": true,
	"Set": true, "SetUint64": true, "SetInt64": true, "Neg": true, "Abs": true, "Lsh": true, "Rsh": true}

// isFreshBig: does the expression denote a big.Int nobody else holds
func (f *fnCtx) isFreshBig(e ast.Expr) bool {
	switch x := e.(type) {
	case *ast.ParenExpr:
		return f.isFreshBig(x.X)
	case *ast.CallExpr:
		if isNewBigInt(x) {
			return true
		}
		if sel, ok := x.Fun.(*ast.SelectorExpr); ok {
			rk := lty{k: kUnit}
			if tv, ok := f.info.Types[sel.X]; ok && !tv.IsType() && tv.Type != nil {
				if _, isPkg := f.info.ObjectOf(identOf(sel.X)).(*types.PkgName); !isPkg {
					rk = f.g.classify(tv.Type)
				}
			}
			if rk.k == kBig && bigMutating[sel.Sel.Name] {
				return f.isFreshBig(sel.X) || f.isFreshVar(sel.X)
			}
			if (rk.k == kSdk || rk.k == kDec) && sel.Sel.Name == "BigInt" {
				return true
			}
			if exprFull(x.Fun) == "big.NewInt" {
				return true
			}
		}
	}
	return false
}

func (f *fnCtx) isFreshVar(e ast.Expr) bool {
	id, ok := e.(*ast.Ident)
	if !ok {
		return false
	}
	o, ok := f.localVar(id)
	if !ok {
		return false
	}
	for {
		m, ok := f.must[o]
		if !ok {
			break
		}
		o = m
	}
	return f.fresh[o]
}

func (f *fnCtx) bigOp(m string, args []ast.Expr, recvVal string, whole ast.Expr) (term string, partial bool) {
	arg := func(i int) string {
		if i >= len(args) {
			trFail("big.Int.%s: missing argument", m)
		}
		return f.atom(f.expr(args[i]))
	}
	switch m {
	case "Add":
		return "(" + arg(0) + " + " + arg(1) + ")", false
	case "Sub":
		return "(" + arg(0) + " - " + arg(1) + ")", false
	case "Mul":
		return "(" + arg(0) + " * " + arg(1) + ")", false
	case "Div":
		return "Go.bigDiv " + arg(0) + " " + arg(1), true
	case "Mod":
		return "Go.bigMod " + arg(0) + " " + arg(1), true
	case "Quo":
		return "Go.bigQuo " + arg(0) + " " + arg(1), true
	case "Rem":
		return "Go.bigRem " + arg(0) + " " + arg(1), true
	case "Set":
		return arg(0), false
	case "SetUint64":
		return "((" + arg(0) + " : Nat) : Int)", false
	case "SetInt64":
		return arg(0), false
	case "Neg":
		return "(-" + arg(0) + ")", false
	case "Abs":
		return "((Int.natAbs " + arg(0) + " : Nat) : Int)", false
	case "Lsh":
		n := f.atom(f.expr(args[1]))
		return "(Go.bigLsh " + arg(0) + " " + n + ")", false
	}
	trFail("big.Int.%s in %s", m, f.src(whole))
	return "", false
}

// call: function / method calls.  stmt = the call is an expression statement (its value is dropped)
func (f *fnCtx) call(c *ast.CallExpr, stmt bool) string {
	// conversions
	if tv, ok := f.info.Types[c.Fun]; ok && tv.IsType() {
		if len(c.Args) != 1 {
			trFail("conversion with %d arguments", len(c.Args))
		}
		return f.convert(f.g.classify(tv.Type), c.Args[0])
	}
	// builtins
	if id, ok := c.Fun.(*ast.Ident); ok {
		if _, isBuiltin := f.info.ObjectOf(id).(*types.Builtin); isBuiltin {
			switch id.Name {
			case "len":
				k := f.g.classifySafe(f.typeOf(c.Args[0]))
				if k.k == kBytes || k.k == kCoins || k.k == kOList {
					return "((" + f.atom(f.expr(c.Args[0])) + ".length : Nat) : Int)"
				}
				if k.k == kStr {
					return "((" + f.atom(f.expr(c.Args[0])) + ".utf8ByteSize : Nat) : Int)"
				}
				if p, args, ok := f.pathOf(c.Args[0]); ok && args == nil {
					p.segs = append(p.segs, "len")
					return f.pathValue(p, nil, lty{k: kInt, bits: 64, lean: "Int"}, c)
				}
			case "append":
				// byte slices (value semantics: the result is a new list; see the aliasing note in the file header)
				if f.kindOf(c.Args[0]).k == kBytes {
					base := f.atom(f.expr(c.Args[0]))
					if c.Ellipsis.IsValid() && len(c.Args) == 2 {
						return "(" + base + " ++ " + f.atom(f.expr(c.Args[1])) + ")"
					}
					var es []string
					for _, a := range c.Args[1:] {
						es = append(es, f.asNatByte(a))
					}
					return "(" + base + " ++ [" + strings.Join(es, ", ") + "])"
				}
			case "new":
				if isNewBigInt(c) {
					return "(0 : Int)"
				}
			case "min", "max":
				if len(c.Args) == 2 {
					return "(" + id.Name + " " + f.atom(f.expr(c.Args[0])) + " " + f.atom(f.expr(c.Args[1])) + ")"
				}
			}
			trFail("builtin %s", f.src(c))
		}
		// a callback parameter
		if o, ok := f.localVar(id); ok {
			if f.g.classify(o.Type()).k == kFunc {
				as := f.callbackArgs(c)
				return "(" + f.nameOf(o) + " " + strings.Join(as, " ") + ")"
			}
		}
	}
	// calls of other targets
	if fn := f.calleeFunc(c); fn != nil {
		if sig := f.g.sigFor(fn); sig != nil {
			return f.callTarget(c, fn, sig, stmt)
		}
	}
	if sel, ok := c.Fun.(*ast.SelectorExpr); ok {
		m := sel.Sel.Name
		// `sdk.AccAddress(obj.Bytes()).String()`: the bech32 text of bytes read from an object — an accessor of that object
		if m == "String" && len(c.Args) == 0 {
			if conv, ok := sel.X.(*ast.CallExpr); ok && len(conv.Args) == 1 {
				if tv, ok := f.info.Types[conv.Fun]; ok && tv.IsType() && f.g.classifySafe(tv.Type).k == kBytes {
					if ap, aargs, isPath := f.pathOf(conv.Args[0]); isPath && aargs == nil && len(ap.segs) > 0 {
						ap.segs = append(ap.segs, "as_"+sanitize(exprFull(conv.Fun))+"_String")
						return f.pathValue(ap, nil, lty{k: kStr, lean: "String"}, c)
					}
				}
			}
		}
		// package functions
		if id, ok := sel.X.(*ast.Ident); ok {
			if pn, isPkg := f.info.ObjectOf(id).(*types.PkgName); isPkg {
				return f.pkgCall(pn.Imported().Path(), m, c)
			}
		}
		var rk lty
		if _, _, isPath := f.pathOf(sel.X); isPath {
			rk = lty{k: kOpaque}
			if tv, ok := f.info.Types[sel.X]; ok {
				func() {
					defer func() { recover() }()
					rk = f.g.classify(tv.Type)
				}()
			}
		} else {
			rk = f.kindOf(sel.X)
		}
		switch rk.k {
		case kBig:
			return f.bigCall(sel.X, m, c)
		case kPtrSdk:
			v := f.partial(f.atom(f.expr(sel.X))) // a nil pointer dereference panics
			return f.sdkCall(v, m, c)
		case kSdk:
			if m == "IsNil" && len(c.Args) == 0 {
				// an sdkmath.Int read from an object may be the zero value without a number inside: an accessor of that object
				if ap, aargs, isPath := f.pathOf(sel.X); isPath && aargs == nil && len(ap.segs) > 0 {
					ap.segs = append(ap.segs, "IsNil")
					return f.pathValue(ap, nil, lty{k: kBool, lean: "Bool"}, c)
				}
			}
			return f.sdkCall(f.atom(f.expr(sel.X)), m, c)
		case kDec:
			return f.decCall(f.atom(f.expr(sel.X)), m, c)
		case kCoins:
			r := f.atom(f.expr(sel.X))
			switch m {
			case "Len":
				return "((" + r + ".length : Nat) : Int)"
			case "IsZero", "Empty":
				return "(" + r + ".all fun c => decide (c.Amount = 0))"
			case "Equal":
				if len(c.Args) == 1 {
					return "(Go.coinsEqual " + r + " " + f.atom(f.expr(c.Args[0])) + ")"
				}
			}
		case kBytes:
			if m == "Empty" && len(c.Args) == 0 { // sdk.AccAddress.Empty
				return "(" + f.atom(f.expr(sel.X)) + ".isEmpty)"
			}
		case kErr:
			if m == "Error" {
				return "(" + f.atom(f.expr(sel.X)) + ".getD \"\")"
			}
		}
	}
	// a call on an opaque object
	if p, args, ok := f.pathOf(c); ok {
		var rt lty
		if tv, ok := f.info.Types[c]; ok {
			if tup, isTup := tv.Type.(*types.Tuple); isTup {
				if tup.Len() == 0 {
					rt = lty{k: kUnit, lean: "Unit"}
				} else {
					trFail("multi-value call on an opaque object: %s", f.src(c))
				}
			} else {
				rt = f.g.classify(tv.Type)
			}
		}
		name := strings.Join(p.segs, ".")
		eff := stmt || effectful[p.segs[len(p.segs)-1]]
		if sel, ok := c.Fun.(*ast.SelectorExpr); ok && effectful[sel.Sel.Name] {
			eff = true // (the last segment may carry the names of object arguments)
		}
		if eff {
			var ia []string
			for _, a := range c.Args {
				ak := f.g.classifySafe(f.typeOf(a))
				switch ak.k {
				case kCoins:
					// the amounts of a coin list handed to an effect
					f.effCoins = append(f.effCoins, f.atom(f.expr(a)))
				case kNat, kInt, kBig, kSdk, kDec:
					ia = append(ia, f.asInt(a))
				case kBytes:
					// bytes built from integers (a store key, an encoded counter): the integers
					if kc, ok := a.(*ast.CallExpr); ok {
						for _, ka := range kc.Args {
							switch f.g.classifySafe(f.typeOf(ka)).k {
							case kNat, kInt:
								ia = append(ia, f.asInt(ka))
							}
						}
					}
				case kOpaque, kUnit:
					// an object built in place (an event with its attributes): the integer variables of the function that
					// occur in its construction, in source order; a composite literal also names the effect by a hash of its
					// source text (pinned among the uninterpreted items), so that another literal is another effect
					if _, _, isPath := f.pathOf(a); !isPath {
						ia = append(ia, f.intLocalsIn(a)...)
						lit := a
						if u, ok := lit.(*ast.UnaryExpr); ok && u.Op == token.AND {
							lit = u.X
						}
						if _, isLit := lit.(*ast.CompositeLit); isLit {
							src := strings.Join(strings.Fields(exprSrc(a)), " ")
							name += "#" + shortHash(src)
							f.g.opaqueC = append(f.g.opaqueC, f.lean+": literal "+shortHash(src)+" = "+src)
						}
					}
				}
			}
			f.effect(types.ExprString(&ast.Ident{Name: f.nameOfRootGo(p.root)})+"."+name, ia)
		}
		if stmt || rt.k == kUnit {
			return "()"
		}
		return f.pathValue(p, args, rt, c)
	}
	if !stmt {
		if vals, ok := f.opaqueCall(c, 1); ok {
			return vals[0]
		}
	}
	if stmt {
		if tv, ok := f.info.Types[c]; ok {
			if tup, isTup := tv.Type.(*types.Tuple); isTup && tup.Len() == 0 {
				// a call for its effect only, on something the translator does not interpret
				var ia []string
				litTag := ""
				for _, a := range c.Args {
					switch f.g.classifySafe(f.typeOf(a)).k {
					case kNat, kInt, kBig, kSdk, kDec:
						ia = append(ia, f.asInt(a))
					case kOpaque, kUnit:
						ia = append(ia, f.intLocalsIn(a)...)
						lit := a
						if u, ok := lit.(*ast.UnaryExpr); ok && u.Op == token.AND {
							lit = u.X
						}
						if _, isLit := lit.(*ast.CompositeLit); isLit {
							src := strings.Join(strings.Fields(exprSrc(a)), " ")
							litTag += "#" + shortHash(src)
							f.g.opaqueC = append(f.g.opaqueC, f.lean+": literal "+shortHash(src)+" = "+src)
						}
					}
				}
				f.effect(exprFull(c.Fun)+litTag, ia)
				return "()"
			}
		}
	}
	// errors
	if f.kindOf(c).k == kErr {
		return f.errorCall(c)
	}
	trFail("call %s", f.src(c))
	return ""
}

var effectful = map[string]bool{"SendCoinsFromAccountToModule": true, "SendCoinsFromModuleToModule": true, "SendCoinsFromModuleToAccount": true,
	"BurnCoins": true, "MintCoins": true, "SendCoins": true, "SaveProofExternalOwnedAccount": true, "SetupExecutionContext": true, "SetSequence": true, "SetAccount": true, "SetFlagSenderNonceIncreasedByAnteHandle": true, "EmitEvent": true, "EmitEvents": true, "SubGas": true, "AddGas": true, "AddBalance": true, "SubBalance": true, "SetNonce": true, "SetState": true,
	"SetCode": true, "AddLog": true, "Suicide": true, "ConsumeGas": true, "RefundGas": true, "SetParams": true, "SetBaseFee": true}

func (f *fnCtx) nameOfRootGo(o types.Object) string { return o.Name() }

// asNatByte: a byte-typed expression as a Nat
func (f *fnCtx) asNatByte(e ast.Expr) string {
	k := f.kindOf(e)
	if k.k != kNat {
		trFail("byte element %s", f.src(e))
	}
	return f.atom(f.expr(e))
}

// intLocalsIn: the integer variables of the function that occur in an expression the translator does not interpret (an
// event built in place with its attributes), in source order
func (f *fnCtx) intLocalsIn(a ast.Expr) []string {
	var ia []string
	ast.Inspect(a, func(n ast.Node) bool {
		if id, ok := n.(*ast.Ident); ok {
			if o, ok := f.localVar(id); ok {
				switch f.g.classifySafe(o.Type()).k {
				case kNat, kInt, kBig:
					if _, isRoot := f.roots[o]; !isRoot {
						ia = append(ia, f.asInt(id))
					}
				}
			}
		}
		return true
	})
	return ia
}

func (f *fnCtx) effect(name string, intArgs []string) {
	f.hasEff = true
	args := "[" + strings.Join(intArgs, ", ") + "]"
	for _, c := range f.effCoins {
		args = "(" + args + " ++ " + c + ".map (fun c => c.Amount))"
	}
	f.effCoins = nil
	f.emit(fmt.Sprintf("let eff := eff ++ [Go.Effect.mk %s %s]", strconv.Quote(name), args))
}

func (f *fnCtx) errorCall(c *ast.CallExpr) string {
	// the error class: the first error-typed argument (a sentinel's name, or the wrapped variable)
	for _, a := range c.Args {
		if isNilIdent(a) {
			continue
		}
		if tv, ok := f.info.Types[a]; ok && tv.Type != nil && types.TypeString(tv.Type, nil) == "error" || f.isErrorValue(a) {
			return f.expr(a)
		}
	}
	for _, a := range c.Args {
		if tv, ok := f.info.Types[a]; ok && tv.Value != nil && tv.Value.Kind() == constant.String {
			return "(some " + strconv.Quote(constant.StringVal(tv.Value)) + ")"
		}
	}
	trFail("error constructor %s", f.src(c))
	return ""
}

func (f *fnCtx) isErrorValue(a ast.Expr) bool {
	tv, ok := f.info.Types[a]
	if !ok || tv.Type == nil {
		return false
	}
	// registered sdk errors (*errorsmod.Error) and anything implementing error, when a package-level variable
	if sel, ok := a.(*ast.SelectorExpr); ok {
		if _, isPkg := f.info.ObjectOf(identOf(sel.X)).(*types.PkgName); isPkg {
			if _, isVar := f.info.ObjectOf(sel.Sel).(*types.Var); isVar {
				errT := types.Universe.Lookup("error").Type().Underlying().(*types.Interface)
				return types.Implements(tv.Type, errT)
			}
		}
	}
	return false
}

func (f *fnCtx) pkgCall(path, name string, c *ast.CallExpr) string {
	arg := func(i int) string { return f.atom(f.expr(c.Args[i])) }
	switch path + "." + name {
	case "math/big.NewInt":
		return arg(0)
	case "cosmossdk.io/math.NewInt":
		return arg(0)
	case "cosmossdk.io/math.NewIntFromUint64":
		return "((" + arg(0) + " : Nat) : Int)"
	case "cosmossdk.io/math.ZeroInt":
		return "(0 : Int)"
	case "cosmossdk.io/math.OneInt":
		return "(1 : Int)"
	case "cosmossdk.io/math.NewIntFromBigInt":
		return f.partial("Go.sdkInt " + arg(0))
	case "github.com/cosmos/cosmos-sdk/types.BigEndianToUint64":
		return "(Go.beToU64 " + arg(0) + ")"
	case "github.com/cosmos/cosmos-sdk/types.Uint64ToBigEndian":
		return "(Go.u64ToBe " + arg(0) + ")"
	case "github.com/cosmos/cosmos-sdk/types.NewCoin":
		return f.partial("Go.newCoin " + arg(0) + " " + arg(1))
	case "github.com/cosmos/cosmos-sdk/types.NewInt64Coin":
		return f.partial("Go.newCoin " + arg(0) + " " + arg(1))
	case "github.com/cosmos/cosmos-sdk/types.NewCoins":
		if len(c.Args) == 1 {
			return "(Go.newCoins1 " + arg(0) + ")"
		}
	case "bytes.Equal":
		return "(decide (" + arg(0) + " = " + arg(1) + "))"
	case "errors.Is":
		// errors are their class (the sentinel's name; wrapping keeps the class)
		return "(decide (" + arg(0) + " = " + arg(1) + "))"
	case "github.com/ethereum/go-ethereum/common/math.BigMax":
		return "(max " + arg(0) + " " + arg(1) + ")"
	case "github.com/ethereum/go-ethereum/common/math.BigMin":
		return "(min " + arg(0) + " " + arg(1) + ")"
	}
	if f.kindOf(c).k == kErr {
		return f.errorCall(c)
	}
	if vals, ok := f.opaqueCall(c, 1); ok {
		return vals[0]
	}
	trFail("package function %s.%s", path, name)
	return ""
}

func (f *fnCtx) bigCall(recv ast.Expr, m string, c *ast.CallExpr) string {
	if bigMutating[m] {
		// the receiver is overwritten with the result and returned
		if f.isFreshBig(recv) {
			// evaluate the receiver for its own effects (nested in-place operations), drop its value
			_ = f.expr(recv)
			term, part := f.bigOp(m, c.Args, "", c)
			if part {
				return f.partial(term)
			}
			return term
		}
		if id, ok := recv.(*ast.Ident); ok {
			if o, ok := f.localVar(id); ok {
				if _, isRoot := f.roots[o]; !isRoot {
					if !f.isFreshVar(id) {
						trFail("in-place big.Int operation on %s, which may be shared with the caller", id.Name)
					}
					term, part := f.bigOp(m, c.Args, "", c)
					if part {
						term = f.partial(term)
					}
					for f.must[o] != nil {
						o = f.must[o]
					}
					n := f.nameOf(o)
					f.emit("let " + n + " := " + term)
					// everything that may alias the receiver is now out of date
					for v, as := range f.may {
						for _, a := range as {
							if a == o && v != o {
								f.stale[v] = true
							}
						}
					}
					delete(f.stale, o)
					return n
				}
			}
		}
		trFail("in-place big.Int operation on %s", f.src(recv))
	}
	r := f.atom(f.expr(recv))
	arg := func(i int) string { return f.atom(f.expr(c.Args[i])) }
	switch m {
	case "Cmp":
		return "(Go.bigCmp " + r + " " + arg(0) + ")"
	case "Sign":
		return "(Go.bigSign " + r + ")"
	case "BitLen":
		return "(Go.bigBitLen " + r + ")"
	case "Uint64":
		return "(Go.bigUint64 " + r + ")"
	case "Int64":
		return "(Go.bigInt64 " + r + ")"
	case "IsInt64":
		return "(Go.bigIsInt64 " + r + ")"
	case "IsUint64":
		return "(Go.bigIsUint64 " + r + ")"
	}
	trFail("big.Int.%s", m)
	return ""
}

func (f *fnCtx) sdkCall(r, m string, c *ast.CallExpr) string {
	arg := func(i int) string { return f.atom(f.expr(c.Args[i])) }
	switch m {
	case "Add", "AddRaw":
		return f.partial("Go.sdkAdd " + r + " " + arg(0))
	case "Sub", "SubRaw":
		return f.partial("Go.sdkSub " + r + " " + arg(0))
	case "Mul", "MulRaw":
		return f.partial("Go.sdkMul " + r + " " + arg(0))
	case "Quo", "QuoRaw":
		return f.partial("Go.sdkQuo " + r + " " + arg(0))
	case "LT":
		return "(decide (" + r + " < " + arg(0) + "))"
	case "GT":
		return "(decide (" + r + " > " + arg(0) + "))"
	case "LTE":
		return "(decide (" + r + " ≤ " + arg(0) + "))"
	case "GTE":
		return "(decide (" + r + " ≥ " + arg(0) + "))"
	case "Equal":
		return "(decide (" + r + " = " + arg(0) + "))"
	case "IsZero":
		return "(decide (" + r + " = 0))"
	case "IsNegative":
		return "(decide (" + r + " < 0))"
	case "IsPositive":
		return "(decide (" + r + " > 0))"
	case "IsNil":
		return "false"
	case "BigInt", "BigIntMut":
		return r
	case "Int64":
		return f.partial("Go.sdkInt64 " + r)
	case "Uint64":
		return f.partial("Go.sdkUint64 " + r)
	case "IsInt64":
		return "(Go.bigIsInt64 " + r + ")"
	case "IsUint64":
		return "(Go.bigIsUint64 " + r + ")"
	case "Neg":
		return "(-" + r + ")"
	}
	trFail("sdkmath.Int.%s", m)
	return ""
}

func (f *fnCtx) decCall(r, m string, c *ast.CallExpr) string {
	arg := func(i int) string { return f.atom(f.expr(c.Args[i])) }
	switch m {
	case "TruncateInt":
		return "(Go.decTruncate " + r + ")"
	case "IsNegative":
		return "(decide (" + r + " < 0))"
	case "IsZero":
		return "(decide (" + r + " = 0))"
	case "IsPositive":
		return "(decide (" + r + " > 0))"
	case "IsNil":
		return "false"
	case "LT":
		return "(decide (" + r + " < " + arg(0) + "))"
	case "GT":
		return "(decide (" + r + " > " + arg(0) + "))"
	case "LTE":
		return "(decide (" + r + " ≤ " + arg(0) + "))"
	case "GTE":
		return "(decide (" + r + " ≥ " + arg(0) + "))"
	case "Equal":
		return "(decide (" + r + " = " + arg(0) + "))"
	}
	trFail("LegacyDec.%s", m)
	return ""
}

func shortHash(s string) string {
	h := sha1sum(s)
	return h[:8]
}

// opaqueCall: a call of a function that is not a target, all of whose arguments are opaque objects: an uninterpreted
// (but named) accessor of the first object — `checkTxFeeWithValidatorMinGasPrices(ctx, feeTx)` ↦ `ctx.call_check…_feeTx`
func (f *fnCtx) opaqueCall(c *ast.CallExpr, n int) ([]string, bool) {
	fn := f.calleeFunc(c)
	if fn == nil || fn.Type().(*types.Signature).Recv() != nil || len(c.Args) == 0 {
		return nil, false
	}
	var first *pathVal
	name := "call_" + fn.Name()
	for i, a := range c.Args {
		p, args, ok := f.pathOf(a)
		if !ok || args != nil {
			return nil, false
		}
		if i == 0 {
			pp := p
			first = &pp
			if len(p.segs) > 0 {
				name = strings.Join(p.segs, "_") + "_" + name
			}
		} else {
			name += "_" + strings.Join(append([]string{p.root.Name()}, p.segs...), "_")
		}
	}
	res := fn.Type().(*types.Signature).Results()
	if res.Len() != n {
		return nil, false
	}
	var ts []string
	for i := 0; i < res.Len(); i++ {
		k := f.g.classifySafe(res.At(i).Type())
		if k.k == kOpaque || k.k == kUnit || k.k == kFunc {
			return nil, false
		}
		ts = append(ts, k.lean)
	}
	lt := ts[0]
	if len(ts) > 1 {
		lt = "(" + strings.Join(ts, " × ") + ")"
	}
	f.g.field(first.st, name, lt, "uninterpreted call: "+exprFull(c))
	f.g.opaqueC = append(f.g.opaqueC, f.lean+": call "+exprFull(c))
	term := f.nameOf(first.root) + "." + name
	if n == 1 {
		return []string{term}, true
	}
	var vs []string
	for range ts {
		vs = append(vs, f.tmp())
	}
	f.emit("let (" + strings.Join(vs, ", ") + ") := " + term)
	return vs, true
}
