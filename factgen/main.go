// factgen — the regenerated part of the model.
//
// It does not translate control flow.  It re-extracts, on every check run, the tables and
// constants the hand-written Lean models are parameterised by (go/packages: AST + types),
// from /repo's current working tree and from the pinned go-ethereum fork in the module
// cache, and writes them as JSON.  tools/factgen_driver.py renders the JSON to
// lean/EvermintModel/Facts/Gen.lean; lean/EvermintModel/Facts/Obligations.lean proves that
// the models' parameters equal the regenerated values.
package main

import (
	"encoding/json"
	"fmt"
	"go/ast"
	"go/constant"
	"go/token"
	"go/types"
	"os"
	"os/exec"
	"path/filepath"
	"sort"
	"strconv"
	"strings"

	"golang.org/x/tools/go/packages"
)

type Site struct {
	File string `json:"file"`
	Line int    `json:"line"`
	Func string `json:"func"`
	What string `json:"what"`
}

var facts = map[string]any{}
var errs []string

func fail(format string, a ...any) { errs = append(errs, fmt.Sprintf(format, a...)) }

func main() {
	repo := "/repo"
	if len(os.Args) > 1 {
		repo = os.Args[1]
	}
	out := "facts_ast.json"
	if len(os.Args) > 2 {
		out = os.Args[2]
	}

	cfg := &packages.Config{
		Mode: packages.NeedName | packages.NeedFiles | packages.NeedSyntax | packages.NeedTypes | packages.NeedTypesInfo | packages.NeedImports,
		Dir:  repo,
		Env:  append(os.Environ(), "GOFLAGS=-mod=mod", "GOPROXY=off", "GOSUMDB=off", "GOTOOLCHAIN=local"),
	}
	pkgs, err := packages.Load(cfg, "./x/...", "./app/...", "./types/...", "./utils/...", "./ethereum/...", "./crypto/...", "./indexer/...", "./server/...", "./rpc/...")
	if err != nil {
		fmt.Fprintln(os.Stderr, "load:", err)
		os.Exit(2)
	}
	const mod = "github.com/EscanBE/evermint/v12/"
	byPath := map[string]*packages.Package{}
	for _, p := range pkgs {
		byPath[p.PkgPath] = p
		for _, e := range p.Errors {
			fail("package %s: %v", p.PkgPath, e)
		}
	}
	// the nondeterminism census covers the consensus packages only (not rpc / indexer / server)
	var consensus []*packages.Package
	for _, p := range pkgs {
		rel := strings.TrimPrefix(p.PkgPath, mod)
		for _, pre := range []string{"x/", "app", "types", "utils", "ethereum/", "crypto/"} {
			if strings.HasPrefix(rel, pre) {
				consensus = append(consensus, p)
				break
			}
		}
	}
	census(repo, consensus)
	anteChain(repo, byPath[mod+"app/antedl"])
	disabledNested(byPath[mod+"app/antedl"])
	nestedCap(byPath[mod+"app/antedl/cosmoslane"])
	moduleOrders(byPath[mod+"app"])
	maccPerms(byPath[mod+"app"])
	allowanceKey(byPath[mod+"x/cpc/types"])
	vauthConsts(byPath[mod+"x/vauth/types"], byPath[mod+"x/vauth/keeper"])
	evmKeeperFacts(byPath[mod+"x/evm/keeper"], byPath[mod+"x/evm/vm"], byPath[mod+"x/evm/utils"])
	feemarketFacts(byPath[mod+"x/feemarket/keeper"])
	chainConfigFacts(byPath[mod+"x/evm/types"])
	cpcExecutorWrites(byPath[mod+"x/cpc/keeper"])
	stakingExecutorFacts(byPath[mod+"x/cpc/keeper"])
	cryptoFacts(byPath[mod+"crypto/ethsecp256k1"], byPath[mod+"ethereum/eip712"], byPath[mod+"x/cpc/eip712"])
	indexerFacts(byPath[mod+"indexer"], byPath[mod+"server"])
	eventSysFacts(byPath[mod+"rpc/namespaces/ethereum/eth/filters"])

	// the pinned fork (module cache)
	forkDir := forkDirOf(repo)
	facts["forkDir"] = forkDir
	if forkDir != "" {
		fcfg := &packages.Config{Mode: cfg.Mode, Dir: repo, Env: cfg.Env}
		fp, err := packages.Load(fcfg, "github.com/ethereum/go-ethereum/core/vm", "github.com/ethereum/go-ethereum/core", "github.com/ethereum/go-ethereum/consensus/misc")
		if err != nil {
			fail("load fork: %v", err)
		} else {
			for _, p := range fp {
				byPath[p.PkgPath] = p
				switch p.PkgPath {
				case "github.com/ethereum/go-ethereum/core/vm":
					forkVM(p)
				case "github.com/ethereum/go-ethereum/core":
					forkCore(p)
				}
			}
		}
	} else {
		fail("fork directory not found")
	}

	// go2lean: the regenerated functions (Facts/GenCode.lean)
	okKeys, trErrs := translateAll(byPath, out+".gencode.lean")
	facts["translated"] = okKeys
	facts["translateErrors"] = trErrs

	facts["errors"] = errs
	bz, _ := json.MarshalIndent(facts, "", " ")
	if err := os.WriteFile(out, bz, 0o644); err != nil {
		fmt.Fprintln(os.Stderr, err)
		os.Exit(2)
	}
}

func forkDirOf(repo string) string {
	cmd := exec.Command("go", "list", "-m", "-f", "{{.Dir}}", "github.com/ethereum/go-ethereum")
	cmd.Dir = repo
	cmd.Env = append(os.Environ(), "GOFLAGS=-mod=mod", "GOPROXY=off", "GOSUMDB=off", "GOTOOLCHAIN=local")
	bz, err := cmd.Output()
	if err != nil {
		return ""
	}
	return strings.TrimSpace(string(bz))
}

func rel(repo, f string) string {
	if r, err := filepath.Rel(repo, f); err == nil && !strings.HasPrefix(r, "..") {
		return r
	}
	if i := strings.Index(f, "/pkg/mod/"); i >= 0 {
		return f[i+len("/pkg/mod/"):]
	}
	return f
}

func isTest(f string) bool {
	return strings.HasSuffix(f, "_test.go") || strings.Contains(f, "/testutil/") || strings.Contains(f, "/simulation/") || strings.Contains(f, "/client/cli/") || strings.Contains(f, "/client/") && strings.HasSuffix(f, "cli.go")
}

// enclosingFuncs walks a file and calls fn for every node together with the name of the
// enclosing top-level function (Recv.Name or Name).
func walkWithFunc(file *ast.File, fn func(n ast.Node, fun string)) {
	for _, d := range file.Decls {
		name := "<pkg>"
		if fd, ok := d.(*ast.FuncDecl); ok {
			name = fd.Name.Name
			if fd.Recv != nil && len(fd.Recv.List) > 0 {
				name = typeString(fd.Recv.List[0].Type) + "." + name
			}
		}
		ast.Inspect(d, func(n ast.Node) bool {
			if n != nil {
				fn(n, name)
			}
			return true
		})
	}
}

func typeString(e ast.Expr) string {
	switch t := e.(type) {
	case *ast.StarExpr:
		return typeString(t.X)
	case *ast.Ident:
		return t.Name
	case *ast.SelectorExpr:
		return typeString(t.X) + "." + t.Sel.Name
	case *ast.IndexExpr:
		return typeString(t.X)
	}
	return "?"
}

// ---------------------------------------------------------------------------------------------
// C01 / C20: census of nondeterminism and crash sources in consensus packages

func census(repo string, pkgs []*packages.Package) {
	var timeNow, mapRange, goStmt, randUse, getenv []Site
	for _, p := range pkgs {
		for _, file := range p.Syntax {
			fname := p.Fset.Position(file.Pos()).Filename
			if isTest(fname) {
				continue
			}
			r := rel(repo, fname)
			for _, imp := range file.Imports {
				if imp.Path.Value == `"math/rand"` || imp.Path.Value == `"math/rand/v2"` {
					randUse = append(randUse, Site{r, p.Fset.Position(imp.Pos()).Line, "<import>", "math/rand"})
				}
			}
			walkWithFunc(file, func(n ast.Node, fun string) {
				switch x := n.(type) {
				case *ast.CallExpr:
					if sel, ok := x.Fun.(*ast.SelectorExpr); ok {
						if obj := p.TypesInfo.Uses[sel.Sel]; obj != nil && obj.Pkg() != nil {
							switch obj.Pkg().Path() + "." + obj.Name() {
							case "time.Now", "time.Since", "time.Until", "time.AfterFunc", "time.NewTimer", "time.After", "time.Tick", "time.NewTicker", "time.Sleep":
								timeNow = append(timeNow, Site{r, p.Fset.Position(x.Pos()).Line, fun, obj.Pkg().Path() + "." + obj.Name()})
							case "os.Getenv", "os.LookupEnv":
								getenv = append(getenv, Site{r, p.Fset.Position(x.Pos()).Line, fun, obj.Name()})
							}
						}
					}
				case *ast.RangeStmt:
					if tv, ok := p.TypesInfo.Types[x.X]; ok {
						if _, isMap := tv.Type.Underlying().(*types.Map); isMap {
							mapRange = append(mapRange, Site{r, p.Fset.Position(x.Pos()).Line, fun, exprString(x.X) + " effects=" + fmt.Sprint(bodyHasEffects(x.Body))})
						}
					}
				case *ast.GoStmt:
					goStmt = append(goStmt, Site{r, p.Fset.Position(x.Pos()).Line, fun, "go"})
				}
			})
		}
	}
	for _, s := range [][]Site{timeNow, mapRange, goStmt, randUse, getenv} {
		sort.Slice(s, func(i, j int) bool {
			if s[i].File != s[j].File {
				return s[i].File < s[j].File
			}
			return s[i].Line < s[j].Line
		})
	}
	facts["census_time_now"] = timeNow
	facts["census_map_range"] = mapRange
	facts["census_go_stmt"] = goStmt
	facts["census_rand"] = randUse
	facts["census_getenv"] = getenv

	// explicit panic sites in the files that run OUTSIDE the per-transaction recovery (begin / end of block) and in
	// the precompile dispatcher: a new one is a new way to halt the chain and has to be looked at (C20)
	blockFiles := map[string]bool{"x/evm/keeper/abci.go": true, "x/evm/keeper/keeper.go": true, "x/feemarket/keeper/abci.go": true,
		"x/feemarket/keeper/eip1559.go": true, "x/feemarket/keeper/keeper.go": true, "x/feemarket/keeper/params.go": true, "x/evm/keeper/params.go": true,
		"x/cpc/keeper/precompiles.go": true, "x/cpc/keeper/abci.go": true, "x/vauth/keeper/abci.go": true}
	var panics []Site
	for _, p := range pkgs {
		for _, file := range p.Syntax {
			fname := p.Fset.Position(file.Pos()).Filename
			r := rel(repo, fname)
			if isTest(fname) || !blockFiles[r] {
				continue
			}
			count := map[string]int{}
			var order []string
			walkWithFunc(file, func(n ast.Node, fun string) {
				if ce, ok := n.(*ast.CallExpr); ok {
					if id, ok := ce.Fun.(*ast.Ident); ok && id.Name == "panic" {
						if count[fun] == 0 {
							order = append(order, fun)
						}
						count[fun]++
					}
				}
			})
			for _, fun := range order {
				panics = append(panics, Site{r, 0, fun, fmt.Sprintf("panic x%d", count[fun])})
			}
		}
	}
	sort.Slice(panics, func(i, j int) bool {
		if panics[i].File != panics[j].File {
			return panics[i].File < panics[j].File
		}
		return panics[i].Func < panics[j].Func
	})
	facts["census_block_panics"] = panics

	// in-memory state that outlives a transaction: package-level variables, and struct fields that are maps, channels or
	// sync primitives, in the consensus packages.  A memoisation added to a keeper, a precompile or a key type shows up here.
	var pkgVars, memFields []Site
	qual := func(other *types.Package) string { return other.Name() }
	for _, p := range pkgs {
		for _, file := range p.Syntax {
			fname := p.Fset.Position(file.Pos()).Filename
			r := rel(repo, fname)
			if isTest(fname) || strings.HasSuffix(fname, ".pb.go") || strings.HasSuffix(fname, ".pb.gw.go") || strings.Contains(r, "verifhook") ||
				strings.Contains(r, "/tests/") || strings.Contains(r, "test_helpers") {
				continue
			}
			for _, d := range file.Decls {
				gd, ok := d.(*ast.GenDecl)
				if !ok {
					continue
				}
				for _, sp := range gd.Specs {
					switch x := sp.(type) {
					case *ast.ValueSpec:
						if gd.Tok.String() != "var" {
							continue
						}
						for _, nm := range x.Names {
							if nm.Name == "_" {
								continue
							}
							ty := "?"
							if obj := p.TypesInfo.Defs[nm]; obj != nil {
								ty = types.TypeString(obj.Type(), qual)
							}
							if strings.HasSuffix(ty, "errors.Error") || ty == "error" {
								continue // registered error values
							}
							pkgVars = append(pkgVars, Site{r, 0, nm.Name, ty})
						}
					case *ast.TypeSpec:
						st, ok := x.Type.(*ast.StructType)
						if !ok {
							continue
						}
						for _, f := range st.Fields.List {
							tv, ok := p.TypesInfo.Types[f.Type]
							if !ok {
								continue
							}
							ts := types.TypeString(tv.Type, qual)
							mutable := false
							switch u := tv.Type.Underlying().(type) {
							case *types.Map, *types.Chan:
								mutable = true
							case *types.Pointer:
								if _, isMap := u.Elem().Underlying().(*types.Map); isMap {
									mutable = true
								}
							}
							if strings.Contains(ts, "sync.") || strings.Contains(ts, "atomic.") || strings.Contains(strings.ToLower(ts), "cache") {
								mutable = true
							}
							for _, nm := range f.Names {
								if strings.Contains(strings.ToLower(nm.Name), "cache") || strings.Contains(strings.ToLower(nm.Name), "memo") {
									mutable = true
								}
							}
							if !mutable {
								continue
							}
							for _, nm := range f.Names {
								memFields = append(memFields, Site{r, 0, x.Name.Name + "." + nm.Name, ts})
							}
							if len(f.Names) == 0 {
								memFields = append(memFields, Site{r, 0, x.Name.Name + ".(embedded)", ts})
							}
						}
					}
				}
			}
		}
	}
	for _, s := range [][]Site{pkgVars, memFields} {
		sort.Slice(s, func(i, j int) bool {
			if s[i].File != s[j].File {
				return s[i].File < s[j].File
			}
			return s[i].Func < s[j].Func
		})
	}
	facts["census_pkg_vars"] = pkgVars
	facts["census_mem_fields"] = memFields

	// dereferences of a recipient pointer, `*x.To()`: nil for a contract creation.  Each site is recorded with whether
	// the enclosing function compares a To() result with nil at all (finding F21: NewTracer did not).
	var toDerefs []Site
	for _, p := range pkgs {
		for _, file := range p.Syntax {
			fname := p.Fset.Position(file.Pos()).Filename
			if isTest(fname) {
				continue
			}
			r := rel(repo, fname)
			isToCall := func(e ast.Expr) bool {
				ce, ok := e.(*ast.CallExpr)
				if !ok || len(ce.Args) != 0 {
					return false
				}
				sel, ok := ce.Fun.(*ast.SelectorExpr)
				return ok && (sel.Sel.Name == "To" || sel.Sel.Name == "GetTo")
			}
			guards := map[string]bool{}
			walkWithFunc(file, func(n ast.Node, fun string) {
				if be, ok := n.(*ast.BinaryExpr); ok && (be.Op == token.EQL || be.Op == token.NEQ) {
					if id, ok := be.Y.(*ast.Ident); ok && id.Name == "nil" && isToCall(be.X) {
						guards[fun] = true
					}
				}
			})
			walkWithFunc(file, func(n ast.Node, fun string) {
				if st, ok := n.(*ast.StarExpr); ok && isToCall(st.X) {
					if tv, ok := p.TypesInfo.Types[st.X]; ok {
						if _, isPtr := tv.Type.Underlying().(*types.Pointer); !isPtr {
							return
						}
					}
					g := "unguarded"
					if guards[fun] {
						g = "guarded"
					}
					toDerefs = append(toDerefs, Site{r, 0, fun, g})
				}
			})
		}
	}
	sort.Slice(toDerefs, func(i, j int) bool {
		if toDerefs[i].File != toDerefs[j].File {
			return toDerefs[i].File < toDerefs[j].File
		}
		return toDerefs[i].Func < toDerefs[j].Func
	})
	facts["census_to_derefs"] = toDerefs

	// `append(f(...), ...)`: appending to a slice that a *call* returned.  When the callee hands out a package-level
	// slice with spare capacity the append writes into an array shared by every goroutine of the process (finding F23:
	// TransitionDb appended the custom precompile addresses to go-ethereum's `ActivePrecompiles(rules)`).  Each site is
	// recorded with the callee; conversions, `make`, nested `append` and composite literals are fresh values and not listed.
	var appendToCall []Site
	for _, p := range pkgs {
		for _, file := range p.Syntax {
			fname := p.Fset.Position(file.Pos()).Filename
			if isTest(fname) || strings.Contains(fname, ".pb.") || strings.Contains(fname, ".pulsar.") {
				continue
			}
			r := rel(repo, fname)
			walkWithFunc(file, func(n ast.Node, fun string) {
				ce, ok := n.(*ast.CallExpr)
				if !ok || len(ce.Args) == 0 {
					return
				}
				if id, ok := ce.Fun.(*ast.Ident); !ok || id.Name != "append" {
					return
				}
				if _, isBuiltin := p.TypesInfo.ObjectOf(ce.Fun.(*ast.Ident)).(*types.Builtin); !isBuiltin {
					return
				}
				first, ok := ce.Args[0].(*ast.CallExpr)
				if !ok {
					return
				}
				if tv, ok := p.TypesInfo.Types[first.Fun]; ok && tv.IsType() {
					return // a conversion
				}
				if id, ok := first.Fun.(*ast.Ident); ok {
					if _, isBuiltin := p.TypesInfo.ObjectOf(id).(*types.Builtin); isBuiltin {
						return // make / append / new
					}
				}
				appendToCall = append(appendToCall, Site{r, 0, fun, exprFull(first.Fun)})
			})
		}
	}
	sort.Slice(appendToCall, func(i, j int) bool {
		if appendToCall[i].File != appendToCall[j].File {
			return appendToCall[i].File < appendToCall[j].File
		}
		if appendToCall[i].Func != appendToCall[j].Func {
			return appendToCall[i].Func < appendToCall[j].Func
		}
		return appendToCall[i].What < appendToCall[j].What
	})
	facts["census_append_to_call"] = appendToCall
}

// bodyHasEffects: does the loop body do anything besides building a local collection?
// (a call other than append/len/copy/delete-free builtins, a send, a return of the key…)
func bodyHasEffects(b *ast.BlockStmt) bool {
	eff := false
	ast.Inspect(b, func(n ast.Node) bool {
		switch x := n.(type) {
		case *ast.CallExpr:
			if id, ok := x.Fun.(*ast.Ident); ok {
				switch id.Name {
				case "append", "len", "cap", "make", "new", "string", "copy", "int", "uint64", "int64", "bool", "byte":
					return true
				}
			}
			eff = true
		case *ast.SendStmt, *ast.ReturnStmt, *ast.GoStmt, *ast.BranchStmt:
			eff = true
		}
		return true
	})
	return eff
}

func exprString(e ast.Expr) string {
	switch t := e.(type) {
	case *ast.Ident:
		return t.Name
	case *ast.SelectorExpr:
		return exprString(t.X) + "." + t.Sel.Name
	case *ast.CallExpr:
		return exprString(t.Fun) + "()"
	case *ast.IndexExpr:
		return exprString(t.X) + "[]"
	case *ast.StarExpr:
		return "*" + exprString(t.X)
	case *ast.ParenExpr:
		return exprString(t.X)
	}
	return fmt.Sprintf("%T", e)
}

// ---------------------------------------------------------------------------------------------
// C07: ante decorator order

func findFunc(p *packages.Package, name string) (*ast.FuncDecl, *ast.File) {
	if p == nil {
		return nil, nil
	}
	for _, f := range p.Syntax {
		for _, d := range f.Decls {
			if fd, ok := d.(*ast.FuncDecl); ok && fd.Name.Name == name {
				return fd, f
			}
		}
	}
	return nil, nil
}

func findMethod(p *packages.Package, recv, name string) *ast.FuncDecl {
	if p == nil {
		return nil
	}
	for _, f := range p.Syntax {
		for _, d := range f.Decls {
			if fd, ok := d.(*ast.FuncDecl); ok && fd.Name.Name == name && fd.Recv != nil && len(fd.Recv.List) > 0 && typeString(fd.Recv.List[0].Type) == recv {
				return fd
			}
		}
	}
	return nil
}

func anteChain(repo string, p *packages.Package) {
	fd, _ := findFunc(p, "NewAnteHandler")
	if fd == nil {
		fail("anteChain: NewAnteHandler not found")
		return
	}
	var chain []string
	var chained bool
	ast.Inspect(fd, func(n ast.Node) bool {
		switch x := n.(type) {
		case *ast.CompositeLit:
			if at, ok := x.Type.(*ast.ArrayType); ok && exprString(at.Elt) == "sdk.AnteDecorator" && chain == nil {
				for _, el := range x.Elts {
					if ce, ok := el.(*ast.CallExpr); ok {
						chain = append(chain, exprString(ce.Fun))
					} else {
						chain = append(chain, "?"+exprString(el))
					}
				}
			}
		case *ast.CallExpr:
			if exprString(x.Fun) == "sdk.ChainAnteDecorators" {
				chained = true
			}
		}
		return true
	})
	if chain == nil || !chained {
		fail("anteChain: decorator list or ChainAnteDecorators call not found")
	}
	facts["anteChain"] = chain
}

func disabledNested(p *packages.Package) {
	fd := findMethod(p, "HandlerOptions", "WithDefaultDisabledNestedMsgs")
	if fd == nil {
		fail("disabledNested: method not found")
		return
	}
	var urls []string
	ast.Inspect(fd, func(n ast.Node) bool {
		if ce, ok := n.(*ast.CallExpr); ok && exprString(ce.Fun) == "sdk.MsgTypeURL" && len(ce.Args) == 1 {
			if ue, ok := ce.Args[0].(*ast.UnaryExpr); ok {
				if cl, ok := ue.X.(*ast.CompositeLit); ok {
					urls = append(urls, exprString(cl.Type))
				}
			}
		}
		return true
	})
	if len(urls) == 0 {
		fail("disabledNested: no urls")
	}
	facts["disabledNestedMsgs"] = urls
}

func constValue(p *packages.Package, name string) (constant.Value, bool) {
	if p == nil || p.Types == nil {
		return nil, false
	}
	if obj := p.Types.Scope().Lookup(name); obj != nil {
		if c, ok := obj.(*types.Const); ok {
			return c.Val(), true
		}
	}
	return nil, false
}

func nestedCap(p *packages.Package) {
	if v, ok := constValue(p, "maxNestedLevelsCount"); ok {
		n, _ := constant.Int64Val(v)
		facts["maxNestedLevelsCount"] = n
	} else {
		fail("maxNestedLevelsCount not found")
	}
	// the comparison operator used against the cap and the level the top-level call starts at
	var cmp string
	var startLevel int64 = -1
	for _, f := range p.Syntax {
		ast.Inspect(f, func(n ast.Node) bool {
			switch x := n.(type) {
			case *ast.BinaryExpr:
				if id, ok := x.Y.(*ast.Ident); ok && id.Name == "maxNestedLevelsCount" {
					cmp = exprString(x.X) + " " + x.Op.String() + " cap"
				}
			case *ast.CallExpr:
				if strings.HasSuffix(exprString(x.Fun), "checkDisabledMsgs") && len(x.Args) == 2 {
					if bl, ok := x.Args[1].(*ast.BasicLit); ok && bl.Kind == token.INT {
						fmt.Sscan(bl.Value, &startLevel)
					}
				}
			}
			return true
		})
	}
	facts["nestedCapCompare"] = cmp
	facts["nestedStartLevel"] = startLevel
}

// ---------------------------------------------------------------------------------------------
// module orders and account permissions (app package)

func moduleOrders(p *packages.Package) {
	if p == nil {
		fail("app package not loaded")
		return
	}
	for _, which := range []string{"SetOrderBeginBlockers", "SetOrderEndBlockers", "SetOrderInitGenesis", "SetOrderPreBlockers"} {
		var order []string
		for _, f := range p.Syntax {
			ast.Inspect(f, func(n ast.Node) bool {
				if ce, ok := n.(*ast.CallExpr); ok {
					if sel, ok := ce.Fun.(*ast.SelectorExpr); ok && sel.Sel.Name == which && order == nil {
						for _, a := range ce.Args {
							if inner, ok := a.(*ast.CallExpr); ok {
								if fd, _ := findFunc(p, exprString(inner.Fun)); fd != nil {
									ast.Inspect(fd, func(m ast.Node) bool {
										if cl, ok := m.(*ast.CompositeLit); ok && order == nil {
											for _, el := range cl.Elts {
												order = append(order, resolveModuleName(p, el))
											}
										}
										return true
									})
									continue
								}
							}
							order = append(order, resolveModuleName(p, a))
						}
					}
				}
				return true
			})
		}
		if order == nil && which != "SetOrderPreBlockers" {
			fail("module order %s not found", which)
		}
		facts[which] = order
	}
}

func resolveModuleName(p *packages.Package, e ast.Expr) string {
	if tv, ok := p.TypesInfo.Types[e]; ok && tv.Value != nil && tv.Value.Kind() == constant.String {
		return constant.StringVal(tv.Value)
	}
	return "?" + exprString(e)
}

func maccPerms(p *packages.Package) {
	if p == nil {
		return
	}
	perms := map[string][]string{}
	found := false
	for _, f := range p.Syntax {
		for _, d := range f.Decls {
			gd, ok := d.(*ast.GenDecl)
			if !ok {
				continue
			}
			for _, s := range gd.Specs {
				vs, ok := s.(*ast.ValueSpec)
				if !ok || len(vs.Names) != 1 || vs.Names[0].Name != "maccPerms" || len(vs.Values) != 1 {
					continue
				}
				cl, ok := vs.Values[0].(*ast.CompositeLit)
				if !ok {
					continue
				}
				found = true
				for _, el := range cl.Elts {
					kv := el.(*ast.KeyValueExpr)
					name := resolveModuleName(p, kv.Key)
					var ps []string
					if vcl, ok := kv.Value.(*ast.CompositeLit); ok {
						for _, pe := range vcl.Elts {
							ps = append(ps, resolveModuleName(p, pe))
						}
					}
					sort.Strings(ps)
					perms[name] = ps
				}
			}
		}
	}
	if !found {
		fail("maccPerms not found")
	}
	facts["maccPerms"] = perms
}

// ---------------------------------------------------------------------------------------------
// C10: ERC-20 allowance store key layout

func allowanceKey(p *packages.Package) {
	fd, _ := findFunc(p, "Erc20CustomPrecompiledContractAllowanceKey")
	if fd == nil {
		fail("allowance key function not found")
		return
	}
	var params []string
	for _, f := range fd.Type.Params.List {
		for _, n := range f.Names {
			params = append(params, n.Name)
		}
	}
	// components appended to the key, in order
	var comps []string
	ast.Inspect(fd.Body, func(n ast.Node) bool {
		if ce, ok := n.(*ast.CallExpr); ok && exprString(ce.Fun) == "append" && len(ce.Args) >= 2 {
			comps = append(comps, strings.TrimSuffix(exprString(ce.Args[1]), ".Bytes()"))
		}
		return true
	})
	facts["allowanceKeyParams"] = params
	facts["allowanceKeyComponents"] = comps
}

// ---------------------------------------------------------------------------------------------
// C16: vauth constants

func vauthConsts(p *packages.Package, kp *packages.Package) {
	if v, ok := constValue(kp, "CostSubmitProofExternalOwnedAccount"); ok {
		facts["vauthCost"] = v.ExactString()
	}
	if p == nil {
		fail("vauth types not loaded")
		return
	}
	if v, ok := constValue(p, "MessageToSign"); ok {
		facts["vauthMessageToSign"] = constant.StringVal(v)
	} else {
		fail("vauth MessageToSign not found")
	}
	// CostSubmitProofExternalOwnedAccount: value or initialiser text
	for _, f := range p.Syntax {
		for _, d := range f.Decls {
			gd, ok := d.(*ast.GenDecl)
			if !ok {
				continue
			}
			for _, s := range gd.Specs {
				vs, ok := s.(*ast.ValueSpec)
				if !ok {
					continue
				}
				for i, n := range vs.Names {
					if n.Name == "CostSubmitProofExternalOwnedAccount" {
						if v, ok := constValue(p, n.Name); ok {
							facts["vauthCost"] = v.ExactString()
						} else if i < len(vs.Values) {
							facts["vauthCostExpr"] = exprStringDeep(vs.Values[i])
						}
					}
				}
			}
		}
	}
	if _, ok := facts["vauthCost"]; !ok {
		if _, ok2 := facts["vauthCostExpr"]; !ok2 {
			fail("vauth cost not found")
		}
	}
}

func exprStringDeep(e ast.Expr) string {
	switch t := e.(type) {
	case *ast.BasicLit:
		return t.Value
	case *ast.CallExpr:
		var as []string
		for _, a := range t.Args {
			as = append(as, exprStringDeep(a))
		}
		return exprString(t.Fun) + "(" + strings.Join(as, ",") + ")"
	case *ast.BinaryExpr:
		return exprStringDeep(t.X) + t.Op.String() + exprStringDeep(t.Y)
	}
	return exprString(e)
}

// ---------------------------------------------------------------------------------------------
// x/evm keeper facts: which StateDB primitive the refund uses, what the destroy guard compares
// with, whether the commit loop iterates a sorted slice, the disabled flag wiring, …

func callsIn(fd *ast.FuncDecl) []string {
	var out []string
	if fd == nil {
		return out
	}
	ast.Inspect(fd, func(n ast.Node) bool {
		if ce, ok := n.(*ast.CallExpr); ok {
			out = append(out, exprString(ce.Fun))
		}
		return true
	})
	return out
}

func containsSuffix(xs []string, suf string) bool {
	for _, x := range xs {
		if strings.HasSuffix(x, suf) {
			return true
		}
	}
	return false
}

func evmKeeperFacts(keeper, vm, utils *packages.Package) {
	if keeper == nil || vm == nil || utils == nil {
		fail("x/evm packages not loaded")
		return
	}
	// EstimateGas: how the search bound `hi` and the remembered cap `gasCap` are assigned
	facts["estimateGasAssigns"] = assignOrder(findMethod(keeper, "Keeper", "EstimateGas"), map[string]bool{"hi": true, "gasCap": true})
	// one base fee: the EVM keeper hands out the fee market's value unmodified (the ante handler, the refund in the message
	// server and the EVM configuration must price a transaction with the same number)
	if fd := findMethod(keeper, "Keeper", "GetBaseFee"); fd != nil {
		facts["evmGetBaseFeeReturns"] = returnExprs(fd)
	} else {
		fail("x/evm Keeper.GetBaseFee not found")
	}
	// refundGas
	rg := findMethod(keeper, "StateTransition", "refundGas")
	facts["refundGasCalls"] = callsIn(rg)
	// TransitionDb refund quotient argument
	td := findMethod(keeper, "StateTransition", "TransitionDb")
	var quot []string
	if td != nil {
		ast.Inspect(td, func(n ast.Node) bool {
			if ce, ok := n.(*ast.CallExpr); ok && strings.HasSuffix(exprString(ce.Fun), "refundGas") && len(ce.Args) == 1 {
				quot = append(quot, exprString(ce.Args[0]))
			}
			return true
		})
	}
	facts["refundQuotientArgs"] = quot
	// destroy guard time source
	da := findMethod(vm, "cStateDb", "DestroyAccount")
	facts["destroyAccountCalls"] = callsIn(da)
	guardAt, _ := findFunc(utils, "CheckIfAccountIsSuitableForDestroyingAt")
	facts["destroyGuardAtCalls"] = callsIn(guardAt)
	// commit loop: range target
	cm := findMethod(vm, "cStateDb", "CommitMultiStore")
	var ranges []string
	if cm != nil {
		ast.Inspect(cm, func(n ast.Node) bool {
			if rs, ok := n.(*ast.RangeStmt); ok {
				isMap := false
				if tv, ok := vm.TypesInfo.Types[rs.X]; ok {
					_, isMap = tv.Type.Underlying().(*types.Map)
				}
				ranges = append(ranges, fmt.Sprintf("%s map=%v effects=%v", exprString(rs.X), isMap, bodyHasEffects(rs.Body)))
			}
			return true
		})
	}
	facts["commitRanges"] = ranges
	facts["commitCalls"] = callsIn(cm)
	// NewEVM: disabled wiring
	ne := findMethod(keeper, "Keeper", "NewEVM")
	facts["newEvmCalls"] = callsIn(ne)
	// msg server
	et := findMethod(keeper, "Keeper", "EthereumTx")
	facts["ethereumTxCalls"] = callsIn(et)
	at := findMethod(keeper, "Keeper", "ApplyTransaction")
	facts["applyTransactionCalls"] = callsIn(at)
	// the `commit` argument at every call site of ApplyMessageWithConfig in the keeper package
	var commits []string
	for _, f := range keeper.Syntax {
		fname := keeper.Fset.Position(f.Pos()).Filename
		if isTest(fname) {
			continue
		}
		walkWithFunc(f, func(n ast.Node, fun string) {
			if ce, ok := n.(*ast.CallExpr); ok && strings.HasSuffix(exprString(ce.Fun), "ApplyMessageWithConfig") && len(ce.Args) == 6 {
				commits = append(commits, fun+":"+exprString(ce.Args[3]))
			}
		})
	}
	sort.Strings(commits)
	facts["applyMessageCommitArgs"] = commits
}

func feemarketFacts(p *packages.Package) {
	if p != nil {
		if fd := findMethod(p, "Keeper", "GetBaseFee"); fd != nil {
			facts["feemarketGetBaseFeeReturns"] = returnExprs(fd)
		} else {
			fail("x/feemarket Keeper.GetBaseFee not found")
		}
	}
	fd := findMethod(p, "Keeper", "CalculateBaseFee")
	if fd == nil {
		fail("CalculateBaseFee not found")
		return
	}
	facts["calculateBaseFeeCalls"] = callsIn(fd)
	var conds []string
	ast.Inspect(fd, func(n ast.Node) bool {
		if be, ok := n.(*ast.BinaryExpr); ok {
			if strings.Contains(exprString(be.X), "MaxGas") {
				conds = append(conds, exprString(be.X)+" "+be.Op.String()+" "+exprStringDeep(be.Y))
			}
		}
		return true
	})
	facts["calculateBaseFeeMaxGasConds"] = conds
	// every guard of CalculateBaseFee, in source order, rendered completely
	facts["calculateBaseFeeGuards"] = ifConds(findMethod(p, "Keeper", "CalculateBaseFee"))
}

// assignOrder lists, in source order, the assignments to the given variables inside a function (not inside
// function literals), each annotated with the conditions it sits under.
func assignOrder(fd *ast.FuncDecl, vars map[string]bool) []string {
	var out []string
	if fd == nil || fd.Body == nil {
		return out
	}
	var walk func(n ast.Node, under string)
	walk = func(n ast.Node, under string) {
		ast.Inspect(n, func(x ast.Node) bool {
			switch t := x.(type) {
			case *ast.FuncLit:
				return false
			case *ast.IfStmt:
				if t.Init != nil {
					walk(t.Init, under)
				}
				walk(t.Body, under+"@if("+exprFull(t.Cond)+")")
				if t.Else != nil {
					walk(t.Else, under+"@else("+exprFull(t.Cond)+")")
				}
				return false
			case *ast.AssignStmt:
				hit := false
				var lhs []string
				for _, l := range t.Lhs {
					nm := exprFull(l)
					lhs = append(lhs, nm)
					hit = hit || vars[nm]
				}
				if hit {
					var rhs []string
					for _, r := range t.Rhs {
						rhs = append(rhs, exprFull(r))
					}
					out = append(out, strings.Join(lhs, ",")+t.Tok.String()+strings.Join(rhs, ",")+under)
				}
			}
			return true
		})
	}
	walk(fd.Body, "")
	return out
}

func chainConfigFacts(p *packages.Package) {
	fd, _ := findFunc(p, "validateBlock")
	if fd == nil {
		fail("validateBlock not found")
		return
	}
	// the guard must refuse every non-zero fork block: `block == nil || !block.IsZero()`
	var cond string
	ast.Inspect(fd, func(n ast.Node) bool {
		if is, ok := n.(*ast.IfStmt); ok && cond == "" {
			cond = condString(is.Cond)
		}
		return true
	})
	facts["validateBlockCond"] = cond
}

func condString(e ast.Expr) string {
	switch t := e.(type) {
	case *ast.BinaryExpr:
		return condString(t.X) + " " + t.Op.String() + " " + condString(t.Y)
	case *ast.UnaryExpr:
		return t.Op.String() + condString(t.X)
	case *ast.CallExpr:
		return exprString(t.Fun) + "()"
	case *ast.ParenExpr:
		return "(" + condString(t.X) + ")"
	}
	return exprString(e)
}

// ---------------------------------------------------------------------------------------------
// pinned fork

func forkVM(p *packages.Package) {
	// readOnly literal at each RunPrecompiledContract call site, by enclosing EVM method
	lit := map[string]string{}
	// AddBalance / SubBalance / Transfer call sites
	var bal []Site
	for _, f := range p.Syntax {
		fname := p.Fset.Position(f.Pos()).Filename
		if strings.HasSuffix(fname, "_test.go") {
			continue
		}
		walkWithFunc(f, func(n ast.Node, fun string) {
			ce, ok := n.(*ast.CallExpr)
			if !ok {
				return
			}
			name := exprString(ce.Fun)
			if strings.HasSuffix(name, "interpreter.RunPrecompiledContract") && len(ce.Args) == 5 {
				lit[fun] = exprString(ce.Args[4])
			}
			for _, s := range []string{".AddBalance", ".SubBalance", ".Transfer", ".CanTransfer", ".Suicide", ".CreateAccount", ".SetNonce", ".SetCode", ".SetState", ".AddLog", ".AddRefund", ".SubRefund"} {
				if strings.HasSuffix(name, s) {
					bal = append(bal, Site{filepath.Base(fname), p.Fset.Position(ce.Pos()).Line, fun, strings.TrimPrefix(s, ".")})
				}
			}
		})
	}
	facts["forkRunPrecompiledReadOnlyArg"] = lit
	sort.Slice(bal, func(i, j int) bool {
		if bal[i].File != bal[j].File {
			return bal[i].File < bal[j].File
		}
		return bal[i].Line < bal[j].Line
	})
	facts["forkStateWriteSites"] = bal
	// RunCustom: the write-protection test
	var guards []string
	for _, f := range p.Syntax {
		for _, d := range f.Decls {
			fd, ok := d.(*ast.FuncDecl)
			if !ok || fd.Name.Name != "RunCustom" {
				continue
			}
			ast.Inspect(fd, func(n ast.Node) bool {
				if is, ok := n.(*ast.IfStmt); ok {
					guards = append(guards, condString(is.Cond))
				}
				return true
			})
		}
	}
	facts["forkRunCustomGuards"] = guards
	// GetCustomPrecompiledContractsAddress: how the list handed to PrepareAccessList is built
	var build []string
	for _, f := range p.Syntax {
		for _, d := range f.Decls {
			fd, ok := d.(*ast.FuncDecl)
			if !ok || fd.Name.Name != "GetCustomPrecompiledContractsAddress" {
				continue
			}
			ast.Inspect(fd, func(n ast.Node) bool {
				if ce, ok := n.(*ast.CallExpr); ok {
					switch exprString(ce.Fun) {
					case "make":
						build = append(build, fmt.Sprintf("make/%d", len(ce.Args)))
					case "append":
						build = append(build, "append")
					}
				}
				return true
			})
		}
	}
	facts["forkCustomPrecompileAddrBuild"] = build
}

func forkCore(p *packages.Package) {
	var sites []Site
	for _, f := range p.Syntax {
		fname := p.Fset.Position(f.Pos()).Filename
		if filepath.Base(fname) != "evm.go" {
			continue
		}
		walkWithFunc(f, func(n ast.Node, fun string) {
			if ce, ok := n.(*ast.CallExpr); ok {
				name := exprString(ce.Fun)
				for _, s := range []string{".AddBalance", ".SubBalance"} {
					if strings.HasSuffix(name, s) {
						sites = append(sites, Site{filepath.Base(fname), p.Fset.Position(ce.Pos()).Line, fun, strings.TrimPrefix(s, ".")})
					}
				}
			}
		})
	}
	facts["forkCoreEvmBalanceSites"] = sites
}

// ---------------------------------------------------------------------------------------------
// write-API census per custom-precompile method executor: for every type of x/cpc/keeper with an
// `Execute` method, the state-writing callees reachable from its body through functions and
// methods declared in the same package (transitive closure over go/types uses).

var writeAPI = []string{"Set", "Send", "Burn", "Mint", "Delete", "Remove", "Delegate", "Undelegate", "BeginRedelegate",
	"CancelUnbonding", "Withdraw", "AddLog", "AddBalance", "SubBalance", "Fund"}

func isWriteName(n string) bool {
	for _, w := range writeAPI {
		if strings.HasPrefix(n, w) {
			return true
		}
	}
	return false
}

func cpcExecutorWrites(p *packages.Package) {
	if p == nil {
		fail("x/cpc/keeper not loaded")
		return
	}
	// index function declarations of the package by their types.Object
	decls := map[types.Object]*ast.FuncDecl{}
	for _, f := range p.Syntax {
		if isTest(p.Fset.Position(f.Pos()).Filename) {
			continue
		}
		for _, d := range f.Decls {
			if fd, ok := d.(*ast.FuncDecl); ok {
				if obj := p.TypesInfo.Defs[fd.Name]; obj != nil {
					decls[obj] = fd
				}
			}
		}
	}
	var reach func(fd *ast.FuncDecl, seen map[*ast.FuncDecl]bool, out map[string]bool)
	reach = func(fd *ast.FuncDecl, seen map[*ast.FuncDecl]bool, out map[string]bool) {
		if fd == nil || fd.Body == nil || seen[fd] {
			return
		}
		seen[fd] = true
		ast.Inspect(fd.Body, func(n ast.Node) bool {
			ce, ok := n.(*ast.CallExpr)
			if !ok {
				return true
			}
			var id *ast.Ident
			switch fn := ce.Fun.(type) {
			case *ast.Ident:
				id = fn
			case *ast.SelectorExpr:
				id = fn.Sel
			}
			if id == nil {
				return true
			}
			if obj := p.TypesInfo.Uses[id]; obj != nil {
				if callee, ok := decls[obj]; ok {
					reach(callee, seen, out)
					// a package-local helper is itself a write when its name says so (e.g. SetErc20CpcAllowance)
					if isWriteName(id.Name) {
						out[id.Name] = true
					}
					return true
				}
			}
			if obj := p.TypesInfo.Uses[id]; obj != nil && obj.Pkg() != nil {
				switch obj.Pkg().Path() {
				case "math/big", "cosmossdk.io/math", "strings", "fmt", "bytes":
					return true // arithmetic / formatting setters are not state writes
				}
			}
			if isWriteName(id.Name) {
				out[id.Name] = true
			}
			return true
		})
	}
	res := map[string][]string{}
	for obj, fd := range decls {
		if fd.Name.Name != "Execute" || fd.Recv == nil || len(fd.Recv.List) == 0 {
			continue
		}
		_ = obj
		recv := typeString(fd.Recv.List[0].Type)
		recv = strings.TrimPrefix(recv, "*")
		out := map[string]bool{}
		reach(fd, map[*ast.FuncDecl]bool{}, out)
		var ws []string
		for w := range out {
			ws = append(ws, w)
		}
		sort.Strings(ws)
		res[recv] = ws
	}
	if len(res) == 0 {
		fail("no Execute methods found in x/cpc/keeper")
	}
	facts["cpcExecutorWrites"] = res
}

// ---------------------------------------------------------------------------------------------
// indexer: one write batch per block; the restart rule of the service.
func indexerFacts(idx, srv *packages.Package) {
	if idx == nil || srv == nil {
		fail("indexer / server packages not loaded")
		return
	}
	ib := findMethod(idx, "KVIndexer", "IndexBlock")
	var batch []string
	for _, c := range callsIn(ib) {
		if strings.Contains(c, "NewBatch") || strings.HasSuffix(c, "batch.Write") || strings.HasSuffix(c, ".Set") || c == "saveTxResult" {
			batch = append(batch, c)
		}
	}
	facts["indexBlockBatchCalls"] = batch
	os := findMethod(srv, "EVMIndexerService", "OnStart")
	var conds []string
	if os != nil {
		ast.Inspect(os, func(n ast.Node) bool {
			if is, ok := n.(*ast.IfStmt); ok {
				c := condString(is.Cond)
				if strings.Contains(c, "lastIndexedBlock") {
					var assigns []string
					for _, st := range is.Body.List {
						if as, ok := st.(*ast.AssignStmt); ok && len(as.Lhs) == 1 && len(as.Rhs) == 1 {
							assigns = append(assigns, exprString(as.Lhs[0])+"="+exprString(as.Rhs[0]))
						}
					}
					conds = append(conds, c+" => "+strings.Join(assigns, ";"))
				}
			}
			return true
		})
	}
	facts["indexerRestartRule"] = conds
}

// ---------------------------------------------------------------------------------------------
// staking precompile: who the executors act for (C11) and on which context the distribution
// queries (which close reward periods, i.e. write) are evaluated (C12).

func stakingExecutorFacts(p *packages.Package) {
	if p == nil {
		fail("x/cpc/keeper not loaded")
		return
	}
	type exec struct {
		Recv              string `json:"recv"`
		CallerParam       string `json:"callerParam"`
		ReadsCaller       bool   `json:"readsCaller"`
		DelegatorFrom     string `json:"delegatorFrom"`     // right-hand side of `delegator := …` / `from := …`
		CallerVsDelegator string `json:"callerVsDelegator"` // the `caller.Address() != X` guard, if any
		VerifyArgs        string `json:"verifyArgs"`        // "<expected>|<message>|<chain id>" of eip712.VerifySignature, if called
		VerifyGuard       bool   `json:"verifyGuard"`       // `if !match { return … }` follows
	}
	var execs []exec
	type qcall struct {
		Func   string `json:"func"`
		Method string `json:"method"`
		Ctx    string `json:"ctx"`
		CtxDef string `json:"ctxDef"`
	}
	var qcalls []qcall
	for _, f := range p.Syntax {
		fn := p.Fset.Position(f.Pos()).Filename
		if isTest(fn) || !strings.HasSuffix(fn, "precompiles_staking.go") {
			continue
		}
		for _, d := range f.Decls {
			fd, ok := d.(*ast.FuncDecl)
			if !ok || fd.Body == nil || fd.Recv == nil || len(fd.Recv.List) == 0 {
				continue
			}
			recv := strings.TrimPrefix(typeString(fd.Recv.List[0].Type), "*")
			// context definitions inside this function: `x, _ := y.CacheContext()` / `x := env.ctx`
			defs := map[string]string{}
			ast.Inspect(fd.Body, func(n ast.Node) bool {
				as, ok := n.(*ast.AssignStmt)
				if !ok || len(as.Rhs) != 1 || len(as.Lhs) == 0 {
					return true
				}
				if id, ok := as.Lhs[0].(*ast.Ident); ok {
					if _, seen := defs[id.Name]; !seen {
						defs[id.Name] = exprStringDeep(as.Rhs[0])
					}
				}
				return true
			})
			ast.Inspect(fd.Body, func(n ast.Node) bool {
				ce, ok := n.(*ast.CallExpr)
				if !ok {
					return true
				}
				sel, ok := ce.Fun.(*ast.SelectorExpr)
				if !ok || len(ce.Args) == 0 {
					return true
				}
				if sel.Sel.Name == "DelegationRewards" || sel.Sel.Name == "DelegationTotalRewards" {
					ctx := exprStringDeep(ce.Args[0])
					qcalls = append(qcalls, qcall{Func: recv + "." + fd.Name.Name, Method: sel.Sel.Name, Ctx: ctx, CtxDef: defs[ctx]})
				}
				return true
			})
			if fd.Name.Name != "Execute" {
				continue
			}
			e := exec{Recv: recv}
			if ps := fd.Type.Params.List; len(ps) > 0 && len(ps[0].Names) > 0 {
				e.CallerParam = ps[0].Names[0].Name
			}
			for i, st := range fd.Body.List {
				_ = i
				ast.Inspect(st, func(n ast.Node) bool {
					switch x := n.(type) {
					case *ast.CallExpr:
						s := exprStringDeep(x.Fun)
						if s == "caller.Address" {
							e.ReadsCaller = true
						}
						if strings.HasSuffix(s, "eip712.VerifySignature") && len(x.Args) == 6 {
							e.VerifyArgs = exprStringDeep(x.Args[0]) + "|" + exprStringDeep(x.Args[1]) + "|" + exprStringDeep(x.Args[5])
						}
					case *ast.AssignStmt:
						if len(x.Lhs) == 1 && len(x.Rhs) == 1 {
							if id, ok := x.Lhs[0].(*ast.Ident); ok && (id.Name == "delegator" || id.Name == "from") && e.DelegatorFrom == "" {
								e.DelegatorFrom = exprStringDeep(x.Rhs[0])
							}
						}
					case *ast.IfStmt:
						c := condString(x.Cond)
						if strings.HasPrefix(c, "caller.Address() != ") && returnsError(x.Body) {
							e.CallerVsDelegator = c
						}
						if c == "!match" && returnsError(x.Body) {
							e.VerifyGuard = true
						}
					}
					return true
				})
			}
			execs = append(execs, e)
		}
	}
	sort.Slice(execs, func(i, j int) bool { return execs[i].Recv < execs[j].Recv })
	sort.Slice(qcalls, func(i, j int) bool { return qcalls[i].Func+qcalls[i].Method < qcalls[j].Func+qcalls[j].Method })
	if len(execs) == 0 {
		fail("no staking executors found")
	}
	facts["stakingExecutors"] = execs
	facts["distQuerierCalls"] = qcalls
}

func returnsError(b *ast.BlockStmt) bool {
	if b == nil || len(b.List) == 0 {
		return false
	}
	rs, ok := b.List[len(b.List)-1].(*ast.ReturnStmt)
	if !ok || len(rs.Results) != 2 {
		return false
	}
	id, ok := rs.Results[0].(*ast.Ident)
	return ok && id.Name == "nil" && exprStringDeep(rs.Results[1]) != "nil"
}

// ---------------------------------------------------------------------------------------------
// crypto (C19): the shape of VerifySignature, the fixed EIP-712 type table and domain, the constants of the
// type generation.

func returnExprs(fd *ast.FuncDecl) []string {
	var out []string
	if fd == nil || fd.Body == nil {
		return out
	}
	ast.Inspect(fd.Body, func(n ast.Node) bool {
		if _, ok := n.(*ast.FuncLit); ok {
			return false
		}
		if rs, ok := n.(*ast.ReturnStmt); ok {
			var parts []string
			for _, r := range rs.Results {
				parts = append(parts, exprFull(r))
			}
			out = append(out, strings.Join(parts, ", "))
		}
		return true
	})
	return out
}

func ifConds(fd *ast.FuncDecl) []string {
	var out []string
	if fd == nil || fd.Body == nil {
		return out
	}
	ast.Inspect(fd.Body, func(n ast.Node) bool {
		if is, ok := n.(*ast.IfStmt); ok {
			out = append(out, exprFull(is.Cond))
		}
		return true
	})
	return out
}

func unquote(s string) string {
	if u, err := strconv.Unquote(s); err == nil {
		return u
	}
	return s
}

func cryptoFacts(keyPkg, eipPkg, cpcEipPkg *packages.Package) {
	if keyPkg == nil || eipPkg == nil || cpcEipPkg == nil {
		fail("crypto packages not loaded")
		return
	}
	facts["verifySignatureReturns"] = returnExprs(findMethod(keyPkg, "PubKey", "VerifySignature"))
	facts["verifyAsEIP712Returns"] = returnExprs(findMethod(keyPkg, "PubKey", "verifySignatureAsEIP712"))
	ec := findMethod(keyPkg, "PubKey", "verifySignatureECDSA")
	facts["verifyECDSAReturns"] = returnExprs(ec)
	facts["verifyECDSAConds"] = ifConds(ec)
	facts["addressCalls"] = callsIn(findMethod(keyPkg, "PubKey", "Address"))
	for _, cn := range []string{"PrivKeySize", "PubKeySize"} {
		if v, ok := constValue(keyPkg, cn); ok {
			n, _ := constant.Int64Val(v)
			facts["ethsecp256k1_"+cn] = n
		} else {
			fail("constant %s not found", cn)
		}
	}
	consts := []string{}
	for _, cn := range []string{"rootPrefix", "typePrefix", "txField", "ethBool", "ethInt64", "ethString", "msgTypeField", "maxDuplicateTypeDefs", "payloadMsgsField"} {
		if v, ok := constValue(eipPkg, cn); ok {
			consts = append(consts, cn+"="+unquote(v.ExactString()))
		} else {
			fail("constant %s not found", cn)
		}
	}
	facts["eip712Consts"] = consts
	// the composite literal of createEIP712Types
	var table []string
	if fd, _ := findFunc(eipPkg, "createEIP712Types"); fd != nil {
		ast.Inspect(fd.Body, func(n ast.Node) bool {
			cl, ok := n.(*ast.CompositeLit)
			if !ok || exprString(cl.Type) != "apitypes.Types" {
				return true
			}
			for _, el := range cl.Elts {
				kv, ok := el.(*ast.KeyValueExpr)
				if !ok {
					continue
				}
				row := unquote(exprStringDeep(kv.Key)) + ":"
				if inner, ok := kv.Value.(*ast.CompositeLit); ok {
					var ms []string
					for _, m := range inner.Elts {
						ml, ok := m.(*ast.CompositeLit)
						if !ok {
							continue
						}
						name, ty := "", ""
						for _, f := range ml.Elts {
							if fkv, ok := f.(*ast.KeyValueExpr); ok {
								switch exprString(fkv.Key) {
								case "Name":
									name = unquote(exprStringDeep(fkv.Value))
								case "Type":
									ty = unquote(exprStringDeep(fkv.Value))
								}
							}
						}
						ms = append(ms, name+" "+ty)
					}
					row += strings.Join(ms, ",")
				}
				table = append(table, row)
			}
			return false
		})
	}
	if len(table) == 0 {
		fail("createEIP712Types literal not found")
	}
	facts["eip712FixedTypes"] = table
	var dom []string
	if fd, _ := findFunc(eipPkg, "createEIP712Domain"); fd != nil {
		ast.Inspect(fd.Body, func(n ast.Node) bool {
			cl, ok := n.(*ast.CompositeLit)
			if !ok || exprString(cl.Type) != "apitypes.TypedDataDomain" {
				return true
			}
			for _, el := range cl.Elts {
				if kv, ok := el.(*ast.KeyValueExpr); ok {
					dom = append(dom, exprString(kv.Key)+"="+unquote(exprStringDeep(kv.Value)))
				}
			}
			return false
		})
	}
	facts["eip712Domain"] = dom
	if fd, _ := findFunc(eipPkg, "sortedJSONKeys"); fd != nil {
		var cmp []string
		ast.Inspect(fd.Body, func(n ast.Node) bool {
			if fl, ok := n.(*ast.FuncLit); ok {
				for _, st := range fl.Body.List {
					if rs, ok := st.(*ast.ReturnStmt); ok && len(rs.Results) == 1 {
						cmp = append(cmp, exprFull(rs.Results[0]))
					}
				}
			}
			return true
		})
		facts["eip712KeyOrder"] = cmp
	}
	if fd, _ := findFunc(eipPkg, "GetEIP712TypedDataForMsg"); fd != nil {
		facts["eip712DecodeOrder"] = ifConds(fd)
	}
	// x/cpc/eip712.VerifySignature: what it hashes and what it compares
	if fd, _ := findFunc(cpcEipPkg, "VerifySignature"); fd != nil {
		var calls []string
		for _, c := range callsIn(fd) {
			if strings.HasPrefix(c, "crypto.") || c == "EIP712HashingTypedMessage" {
				calls = append(calls, c)
			}
		}
		facts["cpcVerifyCalls"] = calls
		var assigns []string
		ast.Inspect(fd.Body, func(n ast.Node) bool {
			if as, ok := n.(*ast.AssignStmt); ok && len(as.Lhs) == 1 && exprString(as.Lhs[0]) == "match" {
				assigns = append(assigns, exprFull(as.Rhs[0]))
			}
			return true
		})
		facts["cpcVerifyMatch"] = assigns
	}
}

// exprFull renders an expression completely (nested calls keep their arguments).
func exprFull(e ast.Expr) string {
	switch t := e.(type) {
	case *ast.BasicLit:
		return t.Value
	case *ast.Ident:
		return t.Name
	case *ast.SelectorExpr:
		return exprFull(t.X) + "." + t.Sel.Name
	case *ast.CallExpr:
		var as []string
		for _, a := range t.Args {
			as = append(as, exprFull(a))
		}
		return exprFull(t.Fun) + "(" + strings.Join(as, ",") + ")"
	case *ast.BinaryExpr:
		return exprFull(t.X) + t.Op.String() + exprFull(t.Y)
	case *ast.UnaryExpr:
		return t.Op.String() + exprFull(t.X)
	case *ast.IndexExpr:
		return exprFull(t.X) + "[" + exprFull(t.Index) + "]"
	case *ast.SliceExpr:
		lo, hi := "", ""
		if t.Low != nil {
			lo = exprFull(t.Low)
		}
		if t.High != nil {
			hi = exprFull(t.High)
		}
		return exprFull(t.X) + "[" + lo + ":" + hi + "]"
	case *ast.ParenExpr:
		return "(" + exprFull(t.X) + ")"
	case *ast.StarExpr:
		return "*" + exprFull(t.X)
	}
	return exprString(e)
}

// ---------------------------------------------------------------------------------------------
// event system (C20): the order of lock operations, channel sends and closes in the goroutines of
// rpc/namespaces/ethereum/eth/filters/filter_system.go.

func syncTokens(n ast.Node) []string {
	var out []string
	var walk func(n ast.Node, under string)
	walk = func(n ast.Node, under string) {
		ast.Inspect(n, func(x ast.Node) bool {
			switch t := x.(type) {
			case *ast.IfStmt:
				if t.Init != nil {
					walk(t.Init, under)
				}
				walk(t.Cond, under)
				walk(t.Body, under+"@if("+exprFull(t.Cond)+")")
				if t.Else != nil {
					walk(t.Else, under+"@else")
				}
				return false
			case *ast.SendStmt:
				out = append(out, "send "+exprFull(t.Chan)+under)
			case *ast.AssignStmt:
				if len(t.Lhs) == 1 {
					if ix, ok := t.Lhs[0].(*ast.IndexExpr); ok && strings.HasPrefix(exprFull(ix.X), "es.index") {
						out = append(out, "index-assign"+under)
					}
					if ix, ok := t.Lhs[0].(*ast.IndexExpr); ok && exprFull(ix.X) == "es.topicChans" {
						out = append(out, "topicChans-assign"+under)
					}
					if exprFull(t.Lhs[0]) == "es.ctx" {
						out = append(out, "ctx-assign"+under)
					}
				}
			case *ast.CallExpr:
				f := exprFull(t.Fun)
				switch {
				case strings.HasPrefix(f, "es.indexMux."):
					out = append(out, strings.TrimPrefix(f, "es.indexMux.")+under)
				case f == "close":
					out = append(out, "close "+exprFull(t.Args[0])+under)
				case f == "delete":
					out = append(out, "delete "+exprFull(t.Args[0])+under)
				case strings.HasPrefix(f, "es.eventBus."):
					out = append(out, strings.TrimPrefix(f, "es.eventBus.")+under)
				}
			}
			return true
		})
	}
	walk(n, "")
	return out
}

func eventSysFacts(p *packages.Package) {
	if p == nil {
		fail("filters package not loaded")
		return
	}
	if fd, _ := findFunc(p, "FilterLogs"); fd != nil {
		facts["filterLogsGuards"] = ifConds(fd)
	} else {
		fail("FilterLogs not found")
	}
	if fd := findMethod(p, "EventSystem", "consumeEvents"); fd != nil {
		facts["eventSysConsume"] = syncTokens(fd.Body)
	} else {
		fail("consumeEvents not found")
	}
	if fd := findMethod(p, "EventSystem", "eventLoop"); fd != nil {
		ast.Inspect(fd.Body, func(n ast.Node) bool {
			cc, ok := n.(*ast.CommClause)
			if !ok || cc.Comm == nil {
				return true
			}
			name := ""
			if as, ok := cc.Comm.(*ast.AssignStmt); ok && len(as.Rhs) == 1 {
				name = exprFull(as.Rhs[0])
			}
			var toks []string
			for _, st := range cc.Body {
				toks = append(toks, syncTokens(st)...)
			}
			switch name {
			case "<-es.install":
				facts["eventSysInstall"] = toks
			case "<-es.uninstall":
				facts["eventSysUninstall"] = toks
			}
			return true
		})
	} else {
		fail("eventLoop not found")
	}
	// the context of the event system is shared between the goroutines of all clients' requests and the event loop:
	// written under the index lock, read only by the event loop (under that lock), and the struct is never copied
	if fd := findMethod(p, "EventSystem", "WithContext"); fd != nil {
		facts["eventSysWithContext"] = syncTokens(fd.Body)
	} else {
		fail("WithContext not found")
	}
	{
		var valueRecv, ctxUsers []string
		for _, file := range p.Syntax {
			if isTest(p.Fset.Position(file.Pos()).Filename) {
				continue
			}
			for _, d := range file.Decls {
				fd, ok := d.(*ast.FuncDecl)
				if !ok || fd.Recv == nil || len(fd.Recv.List) == 0 {
					continue
				}
				if id, ok := fd.Recv.List[0].Type.(*ast.Ident); ok && id.Name == "EventSystem" {
					valueRecv = append(valueRecv, fd.Name.Name)
				}
			}
			walkWithFunc(file, func(n ast.Node, fun string) {
				if sel, ok := n.(*ast.SelectorExpr); ok && exprFull(sel) == "es.ctx" {
					if len(ctxUsers) == 0 || ctxUsers[len(ctxUsers)-1] != fun {
						ctxUsers = append(ctxUsers, fun)
					}
				}
			})
		}
		sort.Strings(valueRecv)
		sort.Strings(ctxUsers)
		if valueRecv == nil {
			valueRecv = []string{}
		}
		facts["eventSysValueReceivers"] = valueRecv
		facts["eventSysCtxUsers"] = ctxUsers
	}
	if fd := findMethod(p, "EventSystem", "subscribe"); fd != nil {
		var toks []string
		ast.Inspect(fd.Body, func(n ast.Node) bool {
			if is, ok := n.(*ast.IfStmt); ok && exprFull(is.Cond) == "topic==sub.event" {
				toks = syncTokens(is.Body)
				return false
			}
			return true
		})
		facts["eventSysJoin"] = toks
	} else {
		fail("subscribe not found")
	}
}
