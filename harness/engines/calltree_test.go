package engines

import (
	"fmt"
	chainapp "github.com/EscanBE/evermint/v12/app"
	"github.com/EscanBE/evermint/v12/constants"
	cpcabi "github.com/EscanBE/evermint/v12/x/cpc/abi"
	cpctypes "github.com/EscanBE/evermint/v12/x/cpc/types"
	"github.com/stretchr/testify/require"
	"math/big"
	"sort"
	"strings"
	"testing"

	"github.com/ethereum/go-ethereum/common"
	ethtypes "github.com/ethereum/go-ethereum/core/types"

	"verifharness/hx"
)

// E-calltree: generated call trees (depth <= 4, all four call opcodes, reverting and returning frames,
// ERC-20 precompile calls at every depth) executed by a scripted runner contract through the real
// interpreter; the Lean CallTree model must predict every balance, supply, allowance and log.
// Serves C12 (write protection under STATICCALL), C03 (reverted frames leave no trace, including
// precompile writes into bank / cpc stores at several depths of one transaction) and C10 (contract callers).

// codeRunner interprets its calldata as a script:
//
//	0x01 kind(1) target(20) len(2) payload(len)   perform a call of that kind (0 CALL, 1 STATICCALL, 2 DELEGATECALL, 3 CALLCODE), ignore its result;
//	                                              kind 4 = "probe": a CALL whose return data is published as a LOG0 of the runner (only
//	                                              in the root frame, which is never read-only): what a view method answers *inside* the transaction
//	0x02                                           RETURN
//	0x03                                           REVERT
//
// running off the end of the script returns.  Every call is given half of the remaining gas: a precompile
// call refused by RunCustom fails with a non-revert error and burns all the gas it was given.
var codeRunner = asm(
	"PUSH1", 0,
	"@loop", "JUMPDEST",
	"DUP1", "CALLDATASIZE", "GT", "ISZERO", "PUSH@", "ret", "JUMPI",
	"DUP1", "CALLDATALOAD", "PUSH1", 0xf8, "SHR",
	"DUP1", "PUSH1", 2, "EQ", "PUSH@", "ret", "JUMPI",
	"DUP1", "PUSH1", 3, "EQ", "PUSH@", "rev", "JUMPI",
	"POP",
	"DUP1", "PUSH1", 1, "ADD", "CALLDATALOAD", "PUSH1", 0xf8, "SHR",
	"DUP2", "PUSH1", 2, "ADD", "CALLDATALOAD", "PUSH1", 96, "SHR",
	"DUP3", "PUSH1", 22, "ADD", "CALLDATALOAD", "PUSH1", 240, "SHR",
	"DUP1", "DUP5", "PUSH1", 24, "ADD", "PUSH1", 0, "CALLDATACOPY",
	"DUP3", "ISZERO", "PUSH@", "kcall", "JUMPI",
	"DUP3", "PUSH1", 4, "EQ", "PUSH@", "kprobe", "JUMPI",
	"DUP3", "PUSH1", 1, "EQ", "PUSH@", "kstatic", "JUMPI",
	"DUP3", "PUSH1", 2, "EQ", "PUSH@", "kdeleg", "JUMPI",
	"PUSH1", 0, "PUSH1", 0, "DUP3", "PUSH1", 0, "PUSH1", 0, "DUP7", "GAS", "PUSH1", 1, "SHR", "CALLCODE", "PUSH@", "after", "JUMP",
	"@kcall", "JUMPDEST", "PUSH1", 0, "PUSH1", 0, "DUP3", "PUSH1", 0, "PUSH1", 0, "DUP7", "GAS", "PUSH1", 1, "SHR", "CALL", "PUSH@", "after", "JUMP",
	"@kprobe", "JUMPDEST", "PUSH1", 0, "PUSH1", 0, "DUP3", "PUSH1", 0, "PUSH1", 0, "DUP7", "GAS", "PUSH1", 1, "SHR", "CALL",
	"RETURNDATASIZE", "PUSH1", 0, "PUSH1", 0, "RETURNDATACOPY", "RETURNDATASIZE", "PUSH1", 0, "LOG0", "PUSH@", "after", "JUMP",
	"@kstatic", "JUMPDEST", "PUSH1", 0, "PUSH1", 0, "DUP3", "PUSH1", 0, "DUP6", "GAS", "PUSH1", 1, "SHR", "STATICCALL", "PUSH@", "after", "JUMP",
	"@kdeleg", "JUMPDEST", "PUSH1", 0, "PUSH1", 0, "DUP3", "PUSH1", 0, "DUP6", "GAS", "PUSH1", 1, "SHR", "DELEGATECALL",
	"@after", "JUMPDEST", "POP", "SWAP1", "POP", "SWAP1", "POP", "ADD", "PUSH1", 24, "ADD", "PUSH@", "loop", "JUMP",
	"@ret", "JUMPDEST", "PUSH1", 0, "PUSH1", 0, "RETURN",
	"@rev", "JUMPDEST", "PUSH1", 0, "PUSH1", 0, "REVERT")

type tnode struct {
	pc     bool
	kind   int
	tok    int
	method string
	a, b   int
	amt    *big.Int
	target int
	rev    bool
	kids   []*tnode
	probe  bool // a view call of the root frame whose answer is logged (written `V<tok>.<method>.<a>.<b>`)
}

func (n *tnode) String() string {
	if n.probe {
		return fmt.Sprintf("V%d.%s.%d.%d", n.tok, n.method, n.a, n.b)
	}
	if n.pc {
		return fmt.Sprintf("P%d.%d.%s.%d.%d.%s", n.kind, n.tok, n.method, n.a, n.b, n.amt.String())
	}
	parts := make([]string, len(n.kids))
	for i, k := range n.kids {
		parts[i] = k.String()
	}
	return fmt.Sprintf("S%d.%d.%d(%s)", n.kind, n.target, b01(n.rev), strings.Join(parts, ","))
}

func record(kind int, target common.Address, payload []byte) []byte {
	out := []byte{1, byte(kind)}
	out = append(out, target.Bytes()...)
	out = append(out, byte(len(payload)>>8), byte(len(payload)))
	return append(out, payload...)
}

func (f *ercFixture) encodeBody(kids []*tnode, rev bool) []byte {
	var out []byte
	for _, k := range kids {
		if k.pc {
			var input []byte
			switch k.method {
			case "balanceOf":
				input = pack(k.method, f.addrs[k.a])
			case "totalSupply":
				input = pack(k.method)
			case "allowance":
				input = pack(k.method, f.addrs[k.a], f.addrs[k.b])
			case "transfer", "approve", "burnFrom":
				input = pack(k.method, f.addrs[k.a], k.amt)
			case "transferFrom":
				input = pack(k.method, f.addrs[k.a], f.addrs[k.b], k.amt)
			case "burn":
				input = pack(k.method, k.amt)
			}
			if k.probe {
				out = append(out, record(4, f.tokens[k.tok], input)...)
				continue
			}
			out = append(out, record(k.kind, f.tokens[k.tok], input)...)
		} else {
			out = append(out, record(k.kind, f.addrs[k.target], f.encodeBody(k.kids, k.rev))...)
		}
	}
	if rev {
		out = append(out, 3)
	} else {
		out = append(out, 2)
	}
	return out
}

func TestEngineCalltree(t *testing.T) {
	seed := hx.Seed()
	n := hx.EnvInt("VERIF_N", 400)
	r := hx.NewRng(seed ^ 0xca11)
	p := hx.NewProto("calltree")
	defer p.Close()
	f, _ := newErcFixture(t, p, true)
	f.probeRng = hx.NewRng(seed ^ 0x9e0be)

	others := []int{1, 2, 3, 4, 5, 6, 7, 0, 90}
	var gen func(depth int, self int, static bool) []*tnode
	gen = func(depth int, self int, static bool) []*tnode {
		k := 1 + r.Intn(3)
		var out []*tnode
		for i := 0; i < k; i++ {
			if depth > 0 && r.Chance(2, 5) {
				nd := &tnode{kind: r.Intn(4), target: 5 + r.Intn(2), rev: r.Chance(1, 3)}
				ns := self
				if nd.kind == 0 || nd.kind == 1 {
					ns = nd.target
				}
				nd.kids = gen(depth-1, ns, static || nd.kind == 1)
				out = append(out, nd)
				continue
			}
			nd := &tnode{pc: true, kind: r.Intn(4), tok: 50 + r.Intn(2), amt: big.NewInt(int64(r.Intn(40)))}
			if r.Chance(1, 3) {
				nd.kind = 0
			}
			switch m := r.Intn(11); {
			case m < 3:
				nd.method, nd.a = "transfer", hx.Pick(r, others)
			case m < 5:
				nd.method, nd.a = "approve", hx.Pick(r, others)
				nd.amt = big.NewInt(int64(r.Intn(200)))
			case m < 7:
				nd.method, nd.a, nd.b = "transferFrom", hx.Pick(r, []int{self, 5, 6, 1}), hx.Pick(r, others)
			case m < 8:
				nd.method = "burn"
			case m < 9:
				nd.method, nd.a = "burnFrom", hx.Pick(r, []int{self, 5, 6})
			default:
				switch r.Intn(3) { // views inside the frames too: whatever they may remember must not survive the frame's revert
				case 0:
					nd.method, nd.a = "balanceOf", hx.Pick(r, others)
				case 1:
					nd.method = "totalSupply"
				default:
					nd.method, nd.a, nd.b = "allowance", hx.Pick(r, []int{self, 5, 6}), hx.Pick(r, others)
				}
			}
			out = append(out, nd)
		}
		return out
	}
	// the holders approve the runners for each other so that transferFrom / burnFrom succeed often
	for i, from := range []int{5, 6} {
		to := []int{6, 5}[i]
		body := []*tnode{{pc: true, kind: 0, tok: 50, method: "approve", a: to, amt: big.NewInt(100000)}, {pc: true, kind: 0, tok: 51, method: "approve", a: to, amt: big.NewInt(100000)}}
		f.runTree(p, from, body)
	}
	// directed witness of finding F6, first on every run: STATICCALL -> runner 6 -> CALL -> erc20.transfer
	f.runTree(p, 5, []*tnode{{kind: 1, target: 6, kids: []*tnode{{pc: true, kind: 0, tok: 50, method: "transfer", a: 2, amt: big.NewInt(7)}}}})
	// ---- static probes: every store of the application, with vs. without the read-only subtree --------------
	// EOA -> runner A -CALL-> [ STATICCALL runner B [ k STATICCALLs into custom precompiles, any method ] ] against the same
	// transaction with an empty script for B, both on cache contexts of the same state: every KV store must come out
	// byte-identical (the only edges into precompiles are STATICCALL edges, so finding F6 does not apply).  The first
	// probes run before anything else ever called the staking / bech32 contracts.
	app := f.c.s.ChainApp.IbcTestingApp().(*chainapp.Evermint)
	keys := app.GetKVStoreKey()
	var storeNames []string
	for n := range keys {
		storeNames = append(storeNames, n)
	}
	sort.Strings(storeNames)
	ck := f.c.s.ChainApp.CpcKeeper()
	if !ck.HasCustomPrecompiledContract(f.ctx, cpctypes.CpcStakingFixedAddress) {
		_, err := ck.DeployStakingCustomPrecompiledContract(f.ctx, cpctypes.StakingCustomPrecompiledContractMeta{Symbol: constants.SymbolDenom, Decimals: 18})
		require.NoError(t, err)
	}
	type probeCall struct {
		name   string
		target common.Address
		input  []byte
	}
	probeCalls := func() []probeCall {
		who := f.addrs[1+r.Intn(6)]
		val := common.BytesToAddress(f.c.s.ValidatorAccounts.Number(1).GetValidatorAddress())
		tok := f.tokens[50+r.Intn(2)]
		bech := func(m string, args ...any) []byte {
			mm := cpcabi.Bech32CpcInfo.ABI.Methods[m]
			bz, err := mm.Inputs.Pack(args...)
			require.NoError(t, err)
			return append(append([]byte{}, mm.ID...), bz...)
		}
		return []probeCall{
			{"erc20.name", tok, pack("name")}, {"erc20.symbol", tok, pack("symbol")}, {"erc20.decimals", tok, pack("decimals")},
			{"erc20.totalSupply", tok, pack("totalSupply")}, {"erc20.balanceOf", tok, pack("balanceOf", who)}, {"erc20.allowance", tok, pack("allowance", who, f.addrs[5])},
			{"erc20.transfer", tok, pack("transfer", who, big.NewInt(1))}, {"erc20.approve", tok, pack("approve", who, big.NewInt(5))},
			{"staking.name", cpctypes.CpcStakingFixedAddress, packStk("name")}, {"staking.symbol", cpctypes.CpcStakingFixedAddress, packStk("symbol")},
			{"staking.decimals", cpctypes.CpcStakingFixedAddress, packStk("decimals")},
			{"staking.delegatedValidators", cpctypes.CpcStakingFixedAddress, packStk("delegatedValidators", who)},
			{"staking.delegationOf", cpctypes.CpcStakingFixedAddress, packStk("delegationOf", who, val)},
			{"staking.totalDelegationOf", cpctypes.CpcStakingFixedAddress, packStk("totalDelegationOf", who)},
			{"staking.rewardOf", cpctypes.CpcStakingFixedAddress, packStk("rewardOf", who, val)}, {"staking.rewardsOf", cpctypes.CpcStakingFixedAddress, packStk("rewardsOf", who)},
			{"staking.balanceOf", cpctypes.CpcStakingFixedAddress, packStk("balanceOf", who)},
			{"staking.delegate", cpctypes.CpcStakingFixedAddress, packStk("delegate", val, big.NewInt(10))},
			{"staking.withdrawRewards", cpctypes.CpcStakingFixedAddress, packStk("withdrawRewards")},
			{"bech32.accountPrefix", cpctypes.CpcBech32FixedAddress, bech("bech32AccountAddrPrefix")},
			{"bech32.encode", cpctypes.CpcBech32FixedAddress, bech("bech32EncodeAddress", "evm", who)},
			{"bech32.garbage", cpctypes.CpcBech32FixedAddress, []byte{1, 2, 3, 4, 5}},
		}
	}
	staticProbe := func() {
		all := probeCalls()
		var script []byte
		var names []string
		for i, k := 0, 1+r.Intn(4); i < k; i++ {
			pc := all[r.Intn(len(all))]
			names = append(names, pc.name)
			script = append(script, record(1, pc.target, pc.input)...)
		}
		script = append(script, 2)
		run := func(inner []byte) map[string]string {
			cc, _ := f.ctx.CacheContext()
			saved := f.ctx
			f.ctx = cc
			body := append(record(1, f.addrs[6], inner), 2)
			_, err := f.call(f.addrs[1], f.addrs[5], body)
			f.ctx = saved
			require.NoError(t, err)
			return dumpStores(cc, keys, storeNames)
		}
		with, without := run(script), run([]byte{2})
		p.Count("static-probe")
		for _, nm := range names {
			p.Count("static-probe:" + nm)
		}
		if d := diffDumps(with, without); len(d) > 0 {
			p.Oracle("C12-write-under-static", "read-only subtree [%s] (STATICCALL edges only) changed %d store entries, first: %s", strings.Join(names, ","), len(d), strings.Join(firstK(d, 3), ";"))
		}
	}
	for i := 0; i < 12; i++ {
		staticProbe()
	}
	for i := 0; i < n; i++ {
		if i%10 == 9 {
			staticProbe()
		}
		root := 5 + r.Intn(2)
		if r.Chance(1, 4) { // the whole tree under one STATICCALL frame: the oracle can observe "nothing changed"
			tgt := 5 + r.Intn(2)
			f.runTree(p, root, []*tnode{{kind: 1, target: tgt, rev: r.Chance(1, 5), kids: gen(r.Intn(3), tgt, true)}})
			continue
		}
		if r.Chance(1, 6) { // [untouched action] ; [whole subtree reverted]: the oracle can observe "no trace"
			tgt := 5 + r.Intn(2)
			f.runTree(p, root, []*tnode{{kind: 0, target: tgt, rev: true, kids: gen(1+r.Intn(3), tgt, false)}})
			continue
		}
		f.runTree(p, root, gen(1+r.Intn(4), root, false))
	}
}

// staticWrites lists the write calls of a tree that sit under a STATICCALL ancestor (or edge), with the
// kind of their own edge.
func staticWrites(kids []*tnode, static bool, reverted bool, out *[][2]int) {
	for _, k := range kids {
		if k.pc {
			if k.method != "balanceOf" && k.method != "totalSupply" && k.method != "allowance" && (static || k.kind == 1) && !reverted {
				*out = append(*out, [2]int{k.kind, 1})
			}
			continue
		}
		staticWrites(k.kids, static || k.kind == 1, reverted || k.rev, out)
	}
}

func (f *ercFixture) runTree(p *hx.Proto, root int, body []*tnode) {
	if f.probeRng != nil && f.probeRng.Chance(1, 2) {
		// what the view methods answer inside the transaction, after everything else (reverted frames included) has run
		body = append(append([]*tnode{}, body...), &tnode{pc: true, probe: true, tok: 50 + f.probeRng.Intn(2), method: "totalSupply", amt: big.NewInt(0)})
		body = append(body, &tnode{pc: true, probe: true, tok: 50 + f.probeRng.Intn(2), method: "balanceOf", a: hx.Pick(f.probeRng, []int{root, 5, 6, 1, 2}), amt: big.NewInt(0)})
		if f.probeRng.Chance(1, 2) {
			body = append(body, &tnode{pc: true, probe: true, tok: 50 + f.probeRng.Intn(2), method: "allowance", a: hx.Pick(f.probeRng, []int{root, 5, 6}), b: hx.Pick(f.probeRng, []int{5, 6, 1}), amt: big.NewInt(0)})
		}
		p.Count("tree:with-view-probes")
	}
	parts := make([]string, len(body))
	for i, k := range body {
		parts[i] = k.String()
	}
	op := fmt.Sprintf("tree self=%d acts=%s", root, strings.Join(parts, ","))
	before := f.digest()
	res, err := f.call(f.addrs[1], f.addrs[root], f.encodeBody(body, false))
	if err != nil {
		p.Emit(op, "error:"+strings.ReplaceAll(err.Error(), " ", "_"))
		return
	}
	if res.VmError != "" {
		p.Emit(op, "toplevel-vmerror:"+strings.ReplaceAll(res.VmError, " ", "_")+" "+f.digest())
		return
	}
	logS := "-"
	rc := &ethtypes.Receipt{}
	if err := rc.UnmarshalBinary(res.MarshalledReceipt); err == nil && len(rc.Logs) > 0 {
		var ls []string
		for _, lg := range rc.Logs {
			tok := f.idOf(lg.Address)
			if len(lg.Topics) == 3 && lg.Topics[0] == topicTransfer {
				ls = append(ls, fmt.Sprintf("T:%d:%d:%d:%s", tok, f.idOf(common.BytesToAddress(lg.Topics[1].Bytes())), f.idOf(common.BytesToAddress(lg.Topics[2].Bytes())), new(big.Int).SetBytes(lg.Data).String()))
			} else if len(lg.Topics) == 3 && lg.Topics[0] == topicApproval {
				ls = append(ls, fmt.Sprintf("A:%d:%d:%d:%s", tok, f.idOf(common.BytesToAddress(lg.Topics[1].Bytes())), f.idOf(common.BytesToAddress(lg.Topics[2].Bytes())), new(big.Int).SetBytes(lg.Data).String()))
			} else if len(lg.Topics) == 0 && len(lg.Data) == 32 {
				ls = append(ls, fmt.Sprintf("V:%s", new(big.Int).SetBytes(lg.Data).String()))
			} else if len(lg.Topics) == 0 {
				ls = append(ls, fmt.Sprintf("V:len%d", len(lg.Data)))
			} else {
				ls = append(ls, "?")
			}
		}
		logS = strings.Join(ls, "+")
	}
	after := f.digest()
	p.Emit(op, fmt.Sprintf("ok logs=%s ", logS)+after)
	p.Count(fmt.Sprintf("tree:logs=%d", len(rc.Logs)))
	// ---- oracle (C03): a tree that is one reverted frame must leave no trace ------------------------------
	if len(body) == 1 && !body[0].pc && body[0].rev && (before != after || len(rc.Logs) != 0) {
		p.Oracle("C03-reverted-frame-trace", "a reverted frame left a trace (balances, supply, allowances or logs differ): %s", op)
	}
	// ---- oracle (C12): a tree whose root frame is itself entered by STATICCALL must change nothing -------
	if len(body) == 1 && !body[0].pc && body[0].kind == 1 && !body[0].rev {
		if before != after || len(rc.Logs) != 0 {
			var sw [][2]int
			staticWrites(body[0].kids, true, false, &sw)
			allIndirect := len(sw) > 0
			for _, w := range sw {
				if w[0] == 1 {
					// a write over a direct STATICCALL edge is refused by RunCustom: it cannot be the cause
					continue
				}
			}
			direct := true
			for _, w := range sw {
				if w[0] != 1 {
					direct = false
				}
			}
			if allIndirect && !direct {
				p.Oracle("C12-indirect-write-under-static", "state or logs changed inside a STATICCALL frame through a non-STATICCALL edge into the precompile: %s", op)
			} else {
				p.Oracle("C12-write-under-static", "state or logs changed inside a STATICCALL frame although every precompile write used a STATICCALL edge: %s", op)
			}
		}
	}
}
