package engines

import (
	"crypto/sha256"
	"encoding/binary"
	"fmt"
	"math/big"
	"strconv"
	"strings"
	"testing"
	"time"

	sdkmath "cosmossdk.io/math"
	abci "github.com/cometbft/cometbft/abci/types"
	tmproto "github.com/cometbft/cometbft/proto/tendermint/types"
	"github.com/cosmos/cosmos-sdk/baseapp"
	clienttx "github.com/cosmos/cosmos-sdk/client/tx"
	codectypes "github.com/cosmos/cosmos-sdk/codec/types"
	sdk "github.com/cosmos/cosmos-sdk/types"
	"github.com/cosmos/cosmos-sdk/types/tx/signing"
	authsigning "github.com/cosmos/cosmos-sdk/x/auth/signing"
	authtx "github.com/cosmos/cosmos-sdk/x/auth/tx"
	authtypes "github.com/cosmos/cosmos-sdk/x/auth/types"
	banktypes "github.com/cosmos/cosmos-sdk/x/bank/types"
	"github.com/ethereum/go-ethereum/common"
	"github.com/ethereum/go-ethereum/common/hexutil"
	ethtypes "github.com/ethereum/go-ethereum/core/types"
	"github.com/stretchr/testify/require"

	itutil "github.com/EscanBE/evermint/v12/integration_test_util"
	itutiltypes "github.com/EscanBE/evermint/v12/integration_test_util/types"
	evmtypes "github.com/EscanBE/evermint/v12/x/evm/types"
)

// chain drives BaseApp directly (FinalizeBlock with many txs, then Commit): the suite's own
// helpers execute one tx per block, which cannot exercise block positions, cumulative gas,
// log indices or block-gas exhaustion.
type chain struct {
	t        *testing.T
	s        *itutil.ChainIntegrationTestSuite
	app      *baseapp.BaseApp
	hdr      tmproto.Header
	wallets  []*itutiltypes.TestAccount
	evmDenom string
	chainID  *big.Int
	now      time.Time
}

func newChain(t *testing.T) *chain {
	s := itutil.CreateChainIntegrationTestSuiteFromChainConfig(t, require.New(t), itutil.IntegrationTestChain1, true)
	c := &chain{t: t, s: s, app: s.BaseApp()}
	c.hdr = s.CurrentContext.BlockHeader()
	c.wallets = s.WalletAccounts
	c.evmDenom = s.ChainApp.EvmKeeper().GetParams(s.CurrentContext).EvmDenom
	c.chainID = s.ChainApp.EvmKeeper().GetEip155ChainId(s.CurrentContext).BigInt()
	return c
}

// setupDone commits whatever the fixture wrote through s.CurrentContext and takes over block production.
func (c *chain) setupDone() {
	c.s.Commit()
	c.hdr = c.s.CurrentContext.BlockHeader()
	c.now = c.hdr.Time
}

// ctx reads the last committed state.
func (c *chain) ctx() sdk.Context {
	h := c.hdr
	h.Height = c.app.LastBlockHeight()
	h.Time = c.now
	return c.app.NewUncachedContext(false, h).WithChainID(c.hdr.ChainID)
}

func blockHashOf(height int64) []byte {
	var b [8]byte
	binary.BigEndian.PutUint64(b[:], uint64(height))
	h := sha256.Sum256(b[:])
	return h[:]
}

// finalize executes one block with the given txs and commits it.
func (c *chain) finalize(txs [][]byte) *abci.ResponseFinalizeBlock {
	height := c.app.LastBlockHeight() + 1
	c.now = c.now.Add(5 * time.Second)
	req := &abci.RequestFinalizeBlock{
		Height:             height,
		Txs:                txs,
		Hash:               blockHashOf(height),
		Time:               c.now,
		ProposerAddress:    c.hdr.ProposerAddress,
		NextValidatorsHash: c.hdr.NextValidatorsHash,
	}
	res, err := c.app.FinalizeBlock(req)
	if err != nil {
		c.t.Fatalf("FinalizeBlock: %v", err)
	}
	if _, err := c.app.Commit(); err != nil {
		c.t.Fatalf("Commit: %v", err)
	}
	return res
}

// deployRuntime plants a contract with the given runtime code (fixture time, through keepers).
func (c *chain) deployRuntime(name string, runtime []byte) common.Address {
	h := sha256.Sum256([]byte("verif-contract-" + name))
	return c.deployRuntimeAt(common.BytesToAddress(h[:20]), runtime)
}

// deployRuntimeAt: the same at a chosen address
func (c *chain) deployRuntimeAt(addr common.Address, runtime []byte) common.Address {
	ctx := c.s.CurrentContext
	ak := c.s.ChainApp.AccountKeeper()
	acc := ak.NewAccountWithAddress(ctx, addr.Bytes())
	_ = acc.SetSequence(1)
	ak.SetAccount(ctx, acc)
	ek := c.s.ChainApp.EvmKeeper()
	hash := common.BytesToHash(ethCryptoKeccak(runtime))
	ek.SetCode(ctx, hash.Bytes(), runtime)
	ek.SetCodeHash(ctx, addr, hash)
	return addr
}

// ethTxArgs describes an Ethereum transaction to build; zero values are meaningful.
type ethTxArgs struct {
	from     *itutiltypes.TestAccount
	typ      int // 0 legacy, 1 access list, 2 dynamic
	nonce    uint64
	to       *common.Address
	value    *big.Int
	gas      uint64
	gasPrice *big.Int
	feeCap   *big.Int
	tip      *big.Int
	data     []byte
	access   ethtypes.AccessList
	// perturbations
	chainID       *big.Int                 // nil = this chain
	declaredFrom  sdk.AccAddress           // nil = signer
	unprotected   bool                     // legacy homestead signature
	signWith      *itutiltypes.TestAccount // nil = from
	feeAmount     *sdk.Coins               // nil = gas*cap
	wrapGasLimit  *uint64                  // nil = gas
	memo          string
	timeoutHeight uint64
}

func (c *chain) buildEthTx(a ethTxArgs) ([]byte, *ethtypes.Transaction) {
	chainID := c.chainID
	if a.chainID != nil {
		chainID = a.chainID
	}
	val := a.value
	if val == nil {
		val = big.NewInt(0)
	}
	var inner ethtypes.TxData
	switch a.typ {
	case 2:
		inner = &ethtypes.DynamicFeeTx{ChainID: chainID, Nonce: a.nonce, GasTipCap: a.tip, GasFeeCap: a.feeCap, Gas: a.gas, To: a.to, Value: val, Data: a.data, AccessList: a.access}
	case 1:
		inner = &ethtypes.AccessListTx{ChainID: chainID, Nonce: a.nonce, GasPrice: a.gasPrice, Gas: a.gas, To: a.to, Value: val, Data: a.data, AccessList: a.access}
	default:
		inner = &ethtypes.LegacyTx{Nonce: a.nonce, GasPrice: a.gasPrice, Gas: a.gas, To: a.to, Value: val, Data: a.data}
	}
	signerAcc := a.from
	if a.signWith != nil {
		signerAcc = a.signWith
	}
	key, err := signerAcc.PrivateKey.ToECDSA()
	require.NoError(c.t, err)
	var signer ethtypes.Signer = ethtypes.LatestSignerForChainID(chainID)
	if a.unprotected {
		signer = ethtypes.HomesteadSigner{}
	}
	tx, err := ethtypes.SignNewTx(key, signer, inner)
	require.NoError(c.t, err)
	bz, err := tx.MarshalBinary()
	require.NoError(c.t, err)
	from := sdk.AccAddress(a.from.GetEthAddress().Bytes())
	if a.declaredFrom != nil {
		from = a.declaredFrom
	}
	msg := &evmtypes.MsgEthereumTx{MarshalledTx: bz, From: from.String()}

	txBuilder := c.s.EncodingConfig.TxConfig.NewTxBuilder()
	require.NoError(c.t, txBuilder.SetMsgs(msg))
	option, err := codectypes.NewAnyWithValue(&evmtypes.ExtensionOptionsEthereumTx{})
	require.NoError(c.t, err)
	txBuilder.(authtx.ExtensionOptionsTxBuilder).SetExtensionOptions(option)
	gl := a.gas
	if a.wrapGasLimit != nil {
		gl = *a.wrapGasLimit
	}
	txBuilder.SetGasLimit(gl)
	price := a.gasPrice
	if a.typ == 2 {
		price = a.feeCap
	}
	fee := sdk.Coins{}
	if f := new(big.Int).Mul(price, new(big.Int).SetUint64(a.gas)); f.Sign() > 0 {
		fee = sdk.NewCoins(sdk.NewCoin(c.evmDenom, sdkmath.NewIntFromBigInt(f)))
	}
	if a.feeAmount != nil {
		fee = *a.feeAmount
	}
	txBuilder.SetFeeAmount(fee)
	if a.memo != "" {
		txBuilder.SetMemo(a.memo)
	}
	if a.timeoutHeight != 0 {
		txBuilder.SetTimeoutHeight(a.timeoutHeight)
	}
	out, err := c.s.EncodingConfig.TxConfig.TxEncoder()(txBuilder.GetTx())
	require.NoError(c.t, err)
	return out, tx
}

// buildCosmosTxFee builds and signs (SIGN_MODE_DIRECT) a Cosmos tx with an explicit fee amount and sequence.
func (c *chain) buildCosmosTxFee(from *itutiltypes.TestAccount, msgs []sdk.Msg, seq uint64, gas uint64, fee *big.Int) []byte {
	txCfg := c.s.EncodingConfig.TxConfig
	b := txCfg.NewTxBuilder()
	require.NoError(c.t, b.SetMsgs(msgs...))
	b.SetGasLimit(gas)
	if fee.Sign() > 0 {
		b.SetFeeAmount(sdk.NewCoins(sdk.NewCoin(c.evmDenom, sdkmath.NewIntFromBigInt(fee))))
	}
	ctx := c.ctx()
	acc := c.s.ChainApp.AccountKeeper().GetAccount(ctx, from.GetCosmosAddress())
	require.NotNil(c.t, acc)
	signMode, err := authsigning.APISignModeToInternal(txCfg.SignModeHandler().DefaultMode())
	require.NoError(c.t, err)
	sig0 := signing.SignatureV2{PubKey: from.GetPubKey(), Data: &signing.SingleSignatureData{SignMode: signMode}, Sequence: seq}
	require.NoError(c.t, b.SetSignatures(sig0))
	sd := authsigning.SignerData{ChainID: c.hdr.ChainID, AccountNumber: acc.GetAccountNumber(), Sequence: seq}
	sig, err := clienttx.SignWithPrivKey(ctx, signMode, sd, b, from.PrivateKey, txCfg, seq)
	require.NoError(c.t, err)
	require.NoError(c.t, b.SetSignatures(sig))
	bz, err := txCfg.TxEncoder()(b.GetTx())
	require.NoError(c.t, err)
	return bz
}

// buildBankSend builds a signed Cosmos MsgSend tx with an explicit sequence.
func (c *chain) buildBankSend(from *itutiltypes.TestAccount, to sdk.AccAddress, amount int64, seq uint64, gas uint64, gasPrice *big.Int) []byte {
	ctx, _ := c.ctx().CacheContext()
	ak := c.s.ChainApp.AccountKeeper()
	acc := ak.GetAccount(ctx, from.GetCosmosAddress())
	require.NotNil(c.t, acc)
	require.NoError(c.t, acc.SetSequence(seq))
	ak.SetAccount(ctx, acc)
	gp := sdkmath.NewIntFromBigInt(gasPrice)
	tx, err := c.s.PrepareCosmosTx(ctx, from, itutil.CosmosTxArgs{
		Gas:      gas,
		GasPrice: &gp,
		Msgs: []sdk.Msg{&banktypes.MsgSend{
			FromAddress: from.GetCosmosAddress().String(),
			ToAddress:   to.String(),
			Amount:      sdk.NewCoins(sdk.NewInt64Coin(c.evmDenom, amount)),
		}},
	})
	require.NoError(c.t, err)
	bz, err := c.s.EncodingConfig.TxConfig.TxEncoder()(tx)
	require.NoError(c.t, err)
	return bz
}

// ---------------------------------------------------------------------------------------------
// observations

type txObs struct {
	code      uint32
	codespace string
	gasWanted int64
	gasUsed   int64
	hasEthEv  bool // ethereum_tx event (ante passed)
	anteTxIdx int64
	hasRcpt   bool // tx_receipt event (execution committed)
	txIdx     int64
	logIdx    int64 // -1 = attribute absent
	rGasUsed  uint64
	effPrice  string
	contract  string
	vmErr     string
	receipt   *ethtypes.Receipt
	// bank deltas per address (bech32) for the EVM denom, and supply delta
	delta  map[string]*big.Int
	minted *big.Int
	burnt  *big.Int
	log    string
}

func attr(ev abci.Event, key string) (string, bool) {
	for _, a := range ev.Attributes {
		if a.Key == key {
			return a.Value, true
		}
	}
	return "", false
}

// amountOf extracts the amount of `denom` from a coins string like "12aevm,3utwo".
func amountOf(coins, denom string) *big.Int {
	out := big.NewInt(0)
	for _, part := range strings.Split(coins, ",") {
		part = strings.TrimSpace(part)
		if strings.HasSuffix(part, denom) {
			num := strings.TrimSuffix(part, denom)
			if n, ok := new(big.Int).SetString(num, 10); ok {
				// make sure the denom matches exactly (digits only before it)
				out.Add(out, n)
			}
		}
	}
	return out
}

func bankDeltas(events []abci.Event, denom string) (delta map[string]*big.Int, minted, burnt *big.Int) {
	delta = map[string]*big.Int{}
	minted, burnt = big.NewInt(0), big.NewInt(0)
	add := func(who string, n *big.Int) {
		if _, ok := delta[who]; !ok {
			delta[who] = big.NewInt(0)
		}
		delta[who].Add(delta[who], n)
	}
	for _, ev := range events {
		switch ev.Type {
		case "coin_spent":
			who, _ := attr(ev, "spender")
			amt, _ := attr(ev, "amount")
			add(who, new(big.Int).Neg(amountOf(amt, denom)))
		case "coin_received":
			who, _ := attr(ev, "receiver")
			amt, _ := attr(ev, "amount")
			add(who, amountOf(amt, denom))
		case "coinbase":
			amt, _ := attr(ev, "amount")
			minted.Add(minted, amountOf(amt, denom))
		case "burn":
			amt, _ := attr(ev, "amount")
			burnt.Add(burnt, amountOf(amt, denom))
		}
	}
	return
}

func (c *chain) observe(r *abci.ExecTxResult) txObs {
	o := txObs{code: r.Code, codespace: r.Codespace, gasWanted: r.GasWanted, gasUsed: r.GasUsed, logIdx: -1, txIdx: -1, anteTxIdx: -1, log: r.Log}
	for _, ev := range r.Events {
		switch ev.Type {
		case evmtypes.EventTypeEthereumTx:
			if v, ok := attr(ev, evmtypes.AttributeKeyTxIndex); ok {
				o.hasEthEv = true
				o.anteTxIdx, _ = strconv.ParseInt(v, 10, 64)
			}
		case evmtypes.EventTypeTxReceipt:
			o.hasRcpt = true
			if v, ok := attr(ev, evmtypes.AttributeKeyReceiptTxIndex); ok {
				o.txIdx, _ = strconv.ParseInt(v, 10, 64)
			}
			if v, ok := attr(ev, evmtypes.AttributeKeyReceiptStartLogIndex); ok {
				o.logIdx, _ = strconv.ParseInt(v, 10, 64)
			}
			if v, ok := attr(ev, evmtypes.AttributeKeyReceiptGasUsed); ok {
				o.rGasUsed, _ = strconv.ParseUint(v, 10, 64)
			}
			o.effPrice, _ = attr(ev, evmtypes.AttributeKeyReceiptEffectiveGasPrice)
			o.contract, _ = attr(ev, evmtypes.AttributeKeyReceiptContractAddress)
			o.vmErr, _ = attr(ev, evmtypes.AttributeKeyReceiptVmError)
			if v, ok := attr(ev, evmtypes.AttributeKeyReceiptMarshalled); ok {
				if bz, err := hexutil.Decode(v); err == nil {
					rc := &ethtypes.Receipt{}
					if err := rc.UnmarshalBinary(bz); err == nil {
						o.receipt = rc
					}
				}
			}
		}
	}
	o.delta, o.minted, o.burnt = bankDeltas(r.Events, c.evmDenom)
	return o
}

func (c *chain) bech(a common.Address) string { return sdk.AccAddress(a.Bytes()).String() }

func (c *chain) feeCollector() string {
	return authtypes.NewModuleAddress(authtypes.FeeCollectorName).String()
}

func (c *chain) balance(ctx sdk.Context, a sdk.AccAddress) *big.Int {
	return c.s.ChainApp.BankKeeper().GetBalance(ctx, a, c.evmDenom).Amount.BigInt()
}

func (c *chain) seq(ctx sdk.Context, a sdk.AccAddress) uint64 {
	acc := c.s.ChainApp.AccountKeeper().GetAccount(ctx, a)
	if acc == nil {
		return 0
	}
	return acc.GetSequence()
}

func errClass(o txObs) string {
	if o.code == 0 {
		return "ok"
	}
	return fmt.Sprintf("%s/%d", o.codespace, o.code)
}
