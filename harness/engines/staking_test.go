package engines

import (
	"bytes"
	"encoding/hex"
	"fmt"
	"math/big"
	"sort"
	"strings"
	"testing"
	"time"

	sdkmath "cosmossdk.io/math"
	storetypes "cosmossdk.io/store/types"
	sdk "github.com/cosmos/cosmos-sdk/types"
	authtypes "github.com/cosmos/cosmos-sdk/x/auth/types"
	vestingtypes "github.com/cosmos/cosmos-sdk/x/auth/vesting/types"
	distkeeper "github.com/cosmos/cosmos-sdk/x/distribution/keeper"
	disttypes "github.com/cosmos/cosmos-sdk/x/distribution/types"
	minttypes "github.com/cosmos/cosmos-sdk/x/mint/types"
	stakingkeeper "github.com/cosmos/cosmos-sdk/x/staking/keeper"
	stakingtypes "github.com/cosmos/cosmos-sdk/x/staking/types"
	"github.com/ethereum/go-ethereum/common"
	"github.com/ethereum/go-ethereum/common/hexutil"
	cmath "github.com/ethereum/go-ethereum/common/math"
	ethtypes "github.com/ethereum/go-ethereum/core/types"
	"github.com/ethereum/go-ethereum/crypto"
	"github.com/ethereum/go-ethereum/signer/core/apitypes"
	"github.com/stretchr/testify/require"

	chainapp "github.com/EscanBE/evermint/v12/app"
	"github.com/EscanBE/evermint/v12/constants"
	cpcabi "github.com/EscanBE/evermint/v12/x/cpc/abi"
	cpctypes "github.com/EscanBE/evermint/v12/x/cpc/types"
	evmtypes "github.com/EscanBE/evermint/v12/x/evm/types"

	"verifharness/hx"
)

// E-staking: twin execution.  Every state-changing call to the staking precompile is run through the real
// EVM (`EvmKeeper.ApplyMessage`, commit = true) on one cache of the current state, and the native message
// the specification names for it (delegator := the immediate caller) is run through the SDK's own message
// servers on a second cache of the same state.  The staking, distribution and bank stores of the two caches
// must then be byte-identical, the call must succeed exactly when the native message does, and the EVM logs
// must be the translation (`logsOf`, Lean model) of the module events the *native* run produced.  Callers are
// EOAs and two contracts (one forwarding by CALL, one by DELEGATECALL); the signed-message variants are driven
// with honest, foreign-chain, foreign-key, tampered-message and tampered-signature inputs, where the harness
// signs over typed data it builds itself.  View methods are compared with the native gRPC queriers and every
// store is compared before / after each view (a declared read-only method must not write: C12).

// forwarder by DELEGATECALL: calldata = target(32) ++ payload
var codeForwarderD = asm(
	"PUSH1", 32, "CALLDATASIZE", "SUB",
	"DUP1", "PUSH1", 32, "PUSH1", 0, "CALLDATACOPY",
	"PUSH1", 0, "PUSH1", 0, "DUP3", "PUSH1", 0, "PUSH1", 0, "CALLDATALOAD", "GAS", "DELEGATECALL",
	"RETURNDATASIZE", "PUSH1", 0, "PUSH1", 0, "RETURNDATACOPY",
	"PUSH@", "ok", "JUMPI",
	"RETURNDATASIZE", "PUSH1", 0, "REVERT",
	"@ok", "JUMPDEST", "RETURNDATASIZE", "PUSH1", 0, "RETURN")

// codeRunnerLog: the script interpreter of E-calltree, but after every call it emits LOG1(topic = success flag,
// data = the call's return data), so that the values nested calls returned can be read from the receipt.
var codeRunnerLog = asm(
	"PUSH1", 0,
	"@loop", "JUMPDEST",
	"DUP1", "CALLDATASIZE", "GT", "ISZERO", "PUSH@", "ret", "JUMPI",
	"DUP1", "CALLDATALOAD", "PUSH1", 0xf8, "SHR",
	"DUP1", "PUSH1", 2, "EQ", "PUSH@", "ret", "JUMPI",
	"DUP1", "PUSH1", 3, "EQ", "PUSH@", "rev", "JUMPI",
	"POP",
	"DUP1", "PUSH1", 1, "ADD", "CALLDATALOAD", "PUSH1", 0xf8, "SHR",
	"DUP2", "PUSH1", 2, "ADD", "CALLDATALOAD", "PUSH1", 96, "SHR",
	"DUP3", "PUSH1", 22, "ADD", "CALLDATALOAD", "PUSH1", 240, "SHR",
	"DUP1", "DUP5", "PUSH1", 24, "ADD", "PUSH1", 0, "CALLDATACOPY",
	"DUP3", "ISZERO", "PUSH@", "kcall", "JUMPI",
	"DUP3", "PUSH1", 1, "EQ", "PUSH@", "kstatic", "JUMPI",
	"PUSH1", 0, "PUSH1", 0, "DUP3", "PUSH1", 0, "DUP6", "GAS", "PUSH1", 1, "SHR", "DELEGATECALL", "PUSH@", "after", "JUMP",
	"@kcall", "JUMPDEST", "PUSH1", 0, "PUSH1", 0, "DUP3", "PUSH1", 0, "PUSH1", 0, "DUP7", "GAS", "PUSH1", 1, "SHR", "CALL", "PUSH@", "after", "JUMP",
	"@kstatic", "JUMPDEST", "PUSH1", 0, "PUSH1", 0, "DUP3", "PUSH1", 0, "DUP6", "GAS", "PUSH1", 1, "SHR", "STATICCALL",
	"@after", "JUMPDEST",
	"RETURNDATASIZE", "PUSH1", 0, "PUSH2", 0x0800, "RETURNDATACOPY",
	"RETURNDATASIZE", "PUSH2", 0x0800, "LOG1",
	"SWAP1", "POP", "SWAP1", "POP", "ADD", "PUSH1", 24, "ADD", "PUSH@", "loop", "JUMP",
	"@ret", "JUMPDEST", "PUSH1", 0, "PUSH1", 0, "RETURN",
	"@rev", "JUMPDEST", "PUSH1", 0, "PUSH1", 0, "REVERT")

func packStk(name string, args ...any) []byte {
	m := cpcabi.StakingCpcInfo.ABI.Methods[name]
	bz, err := m.Inputs.Pack(args...)
	if err != nil {
		panic(err)
	}
	return append(append([]byte{}, m.ID...), bz...)
}

// independent EIP-712 digest of a staking / withdraw message: built here from the published type
// definitions and hashed by go-ethereum's signer library, not by x/cpc/eip712.
func stakingTypedDigest(primary string, fields []apitypes.Type, message apitypes.TypedDataMessage, chainID *big.Int) []byte {
	stk := cpctypes.CpcStakingFixedAddress
	td := apitypes.TypedData{
		Types: apitypes.Types{
			"EIP712Domain": []apitypes.Type{{Name: "name", Type: "string"}, {Name: "version", Type: "string"}, {Name: "chainId", Type: "uint256"}, {Name: "verifyingContract", Type: "address"}, {Name: "salt", Type: "string"}},
			primary:        fields,
		},
		PrimaryType: primary,
		Domain: apitypes.TypedDataDomain{
			Name:              strings.ToUpper(constants.ApplicationName),
			Version:           "1.0.0",
			ChainId:           (*cmath.HexOrDecimal256)(chainID),
			VerifyingContract: stk.Hex(),
			Salt:              fmt.Sprintf("0x%x", stk.Bytes()[19]),
		},
		Message: message,
	}
	h, _, err := apitypes.TypedDataAndHash(td)
	if err != nil {
		panic(err)
	}
	return h
}

func dumpStores(ctx sdk.Context, keys map[string]*storetypes.KVStoreKey, names []string) map[string]string {
	out := map[string]string{}
	for _, n := range names {
		st := ctx.KVStore(keys[n])
		it := storetypes.KVStorePrefixIterator(st, nil)
		for ; it.Valid(); it.Next() {
			out[n+"/"+hex.EncodeToString(it.Key())] = hex.EncodeToString(it.Value())
		}
		it.Close()
	}
	return out
}

func diffDumps(a, b map[string]string) []string {
	var d []string
	for k, v := range a {
		if w, ok := b[k]; !ok {
			d = append(d, "-B "+k)
		} else if v != w {
			d = append(d, "≠ "+k)
		}
	}
	for k := range b {
		if _, ok := a[k]; !ok {
			d = append(d, "-A "+k)
		}
	}
	sort.Strings(d)
	return d
}

func TestEngineStaking(t *testing.T) {
	seed := hx.Seed()
	n := hx.EnvInt("VERIF_N", 400)
	r := hx.NewRng(seed ^ 0x57a4e)
	p := hx.NewProto("staking")
	defer p.Close()

	c := newChain(t)
	app := c.s.ChainApp
	sk := app.StakingKeeper()
	dk := app.DistributionKeeper()
	bk := app.BankKeeper()
	ek := app.EvmKeeper()
	ck := app.CpcKeeper()
	keys := app.IbcTestingApp().(*chainapp.Evermint).GetKVStoreKey()
	twinStores := []string{stakingtypes.StoreKey, disttypes.StoreKey, "bank"}
	var allStores []string
	for n := range keys {
		allStores = append(allStores, n)
	}
	sort.Strings(allStores)

	base := c.s.CurrentContext
	stk := cpctypes.CpcStakingFixedAddress
	if !ck.HasCustomPrecompiledContract(base, stk) {
		_, err := ck.DeployStakingCustomPrecompiledContract(base, cpctypes.StakingCustomPrecompiledContractMeta{Symbol: constants.SymbolDenom, Decimals: 18})
		require.NoError(t, err)
	}
	bond, err := sk.BondDenom(base)
	require.NoError(t, err)
	{ // unbonding entries mature within the run
		sp, err := sk.GetParams(base)
		require.NoError(t, err)
		sp.UnbondingTime = 3 * time.Hour
		require.NoError(t, sk.SetParams(base, sp))
	}
	mint := func(ctx sdk.Context, to sdk.AccAddress, amt *big.Int) {
		coins := sdk.NewCoins(sdk.NewCoin(bond, sdkmath.NewIntFromBigInt(amt)))
		require.NoError(t, bk.MintCoins(ctx, minttypes.ModuleName, coins))
		require.NoError(t, bk.SendCoinsFromModuleToAccount(ctx, minttypes.ModuleName, to, coins))
	}

	// universe
	addrs := map[int]common.Address{}
	keyOf := map[int]*itAccount{}
	for i := 1; i <= 3; i++ {
		addrs[i] = c.wallets[i].GetEthAddress()
		keyOf[i] = &itAccount{c.wallets[i].PrivateKey.Bytes()}
	}
	addrs[5] = c.deployRuntime("stk-fwd-call", codeForwarder)
	addrs[6] = c.deployRuntime("stk-fwd-delegatecall", codeForwarderD)
	addrs[7] = c.deployRuntime("stk-runner", codeRunner) // scripted: several precompile calls in ONE transaction
	addrs[8] = c.deployRuntime("stk-runner-log", codeRunnerLog)
	one := new(big.Int).Exp(big.NewInt(10), big.NewInt(18), nil)
	mint(base, addrs[5].Bytes(), new(big.Int).Mul(one, big.NewInt(50)))
	mint(base, addrs[6].Bytes(), new(big.Int).Mul(one, big.NewInt(50)))
	mint(base, addrs[7].Bytes(), new(big.Int).Mul(one, big.NewInt(50)))
	for i := 1; i <= 3; i++ { // externally owned callers hold more than 2^63 base units: signed messages carry amounts beyond int64
		mint(base, addrs[i].Bytes(), new(big.Int).Mul(one, big.NewInt(30)))
	}
	mint(base, addrs[8].Bytes(), new(big.Int).Mul(one, big.NewInt(50)))
	{ // a delayed-vesting account whose bond coins are mostly still locked: only ever looked at (views): its bank balance
		// and its spendable amount differ
		addrs[9] = common.HexToAddress("0x00000000000000000000000000000000009e5719")
		baseAcc := c.s.ChainApp.AccountKeeper().NewAccountWithAddress(base, addrs[9].Bytes())
		locked := new(big.Int).Mul(one, big.NewInt(7))
		bva, err := vestingtypes.NewBaseVestingAccount(baseAcc.(*authtypes.BaseAccount), sdk.NewCoins(sdk.NewCoin(bond, sdkmath.NewIntFromBigInt(locked))), base.BlockTime().Add(100000*time.Hour).Unix())
		require.NoError(t, err)
		c.s.ChainApp.AccountKeeper().SetAccount(base, vestingtypes.NewDelayedVestingAccountRaw(bva))
		mint(base, addrs[9].Bytes(), new(big.Int).Add(locked, big.NewInt(12345)))
	}
	vals, err := sk.GetAllValidators(base)
	require.NoError(t, err)
	sort.Slice(vals, func(i, j int) bool { return vals[i].OperatorAddress < vals[j].OperatorAddress })
	valAddr := map[int]sdk.ValAddress{}
	valIDs := []int{}
	for i, v := range vals {
		bz, err := sk.ValidatorAddressCodec().StringToBytes(v.OperatorAddress)
		require.NoError(t, err)
		valAddr[101+i] = bz
		if cons, err := v.GetConsAddr(); err == nil && bytes.Equal(cons, c.hdr.ProposerAddress) {
			// the proposer of every block of this run: no generated operation targets it, so that no history empties and
			// removes it (a chain whose proposer is not a validator is not a reachable state; EVM execution refuses to run there)
			continue
		}
		valIDs = append(valIDs, 101+i)
	}
	{ // one validator is jailed (without slashing): the native messages accept it as a target, so must the precompile
		cons, err := vals[len(vals)-1].GetConsAddr()
		require.NoError(t, err)
		if !bytes.Equal(cons, c.hdr.ProposerAddress) {
			require.NoError(t, sk.Jail(base, cons))
		} else {
			cons, err = vals[0].GetConsAddr()
			require.NoError(t, err)
			require.NoError(t, sk.Jail(base, cons))
		}
	}
	valAddr[199] = sdk.ValAddress(common.HexToAddress("0x00000000000000000000000000000000000badff").Bytes()) // not a validator
	valStr := func(id int) string {
		s, _ := sk.ValidatorAddressCodec().BytesToString(valAddr[id])
		return s
	}
	idOfAcc := func(bech string) int {
		a, err := sdk.AccAddressFromBech32(bech)
		if err != nil {
			return 998
		}
		for id, x := range addrs {
			if bytes.Equal(x.Bytes(), a) {
				return id
			}
		}
		return 999
	}
	idOfAddr := func(a common.Address) int {
		for id, x := range addrs {
			if x == a {
				return id
			}
		}
		for id, x := range valAddr {
			if bytes.Equal(x, a.Bytes()) {
				return id
			}
		}
		return 999
	}
	idOfVal := func(s string) int {
		bz, err := sk.ValidatorAddressCodec().StringToBytes(s)
		if err != nil {
			return 998
		}
		for id, x := range valAddr {
			if bytes.Equal(x, bz) {
				return id
			}
		}
		return 999
	}
	c.setupDone()
	c.finalize(nil)
	base = c.ctx()

	evmCall := func(ctx sdk.Context, from, to common.Address, input []byte) (*evmtypes.MsgEthereumTxResponse, error) {
		baseFee := ek.GetBaseFee(ctx).BigInt()
		gas := hexutil.Uint64(30_000_000)
		args := evmtypes.TransactionArgs{From: &from, To: &to, Data: (*hexutil.Bytes)(&input), GasPrice: (*hexutil.Big)(baseFee), Gas: &gas}
		msg, err := args.ToMessage(0, baseFee)
		if err != nil {
			return nil, err
		}
		return ek.ApplyMessage(ctx, msg, evmtypes.NewNoOpTracer(), true)
	}
	// callAs: caller 1..3 calls directly; 5 / 6 are reached from EOA 1 and forward by CALL / DELEGATECALL
	callAs := func(ctx sdk.Context, caller int, input []byte) (*evmtypes.MsgEthereumTxResponse, error) {
		if caller >= 5 {
			return evmCall(ctx, addrs[1], addrs[caller], append(common.LeftPadBytes(stk.Bytes(), 32), input...))
		}
		return evmCall(ctx, addrs[caller], stk, input)
	}

	// relevant module events of a native run, in the driver's notation
	eventsOf := func(em sdk.EventManagerI) []string {
		var out []string
		for _, ev := range em.Events() {
			at := map[string]string{}
			for _, a := range ev.Attributes {
				at[a.Key] = a.Value
			}
			amt := amountOf(at[sdk.AttributeKeyAmount], bond).String()
			switch ev.Type {
			case stakingtypes.EventTypeDelegate:
				out = append(out, fmt.Sprintf("D:%d:%d:%s", idOfVal(at[stakingtypes.AttributeKeyValidator]), idOfAcc(at[stakingtypes.AttributeKeyDelegator]), amt))
			case stakingtypes.EventTypeUnbond:
				out = append(out, fmt.Sprintf("U:%d:%d:%s", idOfVal(at[stakingtypes.AttributeKeyValidator]), idOfAcc(at[stakingtypes.AttributeKeyDelegator]), amt))
			case stakingtypes.EventTypeRedelegate:
				out = append(out, fmt.Sprintf("R:%d:%d:%s", idOfVal(at[stakingtypes.AttributeKeySrcValidator]), idOfVal(at[stakingtypes.AttributeKeyDstValidator]), amt))
			case disttypes.EventTypeWithdrawRewards:
				out = append(out, fmt.Sprintf("W:%d:%d:%s", idOfVal(at[disttypes.AttributeKeyValidator]), idOfAcc(at[disttypes.AttributeKeyDelegator]), amt))
			}
		}
		return out
	}
	topicD := cpcabi.StakingCpcInfo.ABI.Events["Delegate"].ID
	topicU := cpcabi.StakingCpcInfo.ABI.Events["Undelegate"].ID
	topicW := cpcabi.StakingCpcInfo.ABI.Events["WithdrawReward"].ID
	logsOfResp := func(res *evmtypes.MsgEthereumTxResponse) string {
		rc := &ethtypes.Receipt{}
		if err := rc.UnmarshalBinary(res.MarshalledReceipt); err != nil {
			return "undecodable"
		}
		var parts []string
		for _, lg := range rc.Logs {
			k := "?"
			if lg.Address == stk && len(lg.Topics) == 3 {
				switch lg.Topics[0] {
				case topicD:
					k = "D"
				case topicU:
					k = "U"
				case topicW:
					k = "W"
				}
			}
			if k == "?" {
				parts = append(parts, "?")
				continue
			}
			parts = append(parts, fmt.Sprintf("%s:%d:%d:%s", k, idOfAddr(common.BytesToAddress(lg.Topics[1].Bytes())), idOfAddr(common.BytesToAddress(lg.Topics[2].Bytes())), new(big.Int).SetBytes(lg.Data).String()))
		}
		if len(parts) == 0 {
			return "-"
		}
		return strings.Join(parts, ",")
	}

	coin := func(a *big.Int) sdk.Coin { return sdk.NewCoin(bond, sdkmath.NewIntFromBigInt(a)) }
	accStr := func(id int) string { return sdk.AccAddress(addrs[id].Bytes()).String() }
	minReward := new(big.Int).Div(one, big.NewInt(1000))

	// the native side of withdraw-all: one MsgWithdrawDelegatorReward per validator whose pending reward
	// (as the distribution query reports it, evaluated on a throw-away cache) is at least the minimum
	nativeWithdrawAll := func(ctx sdk.Context, del int) (any bool, err error) {
		q, _ := ctx.CacheContext()
		resp, err := distkeeper.NewQuerier(dk).DelegationTotalRewards(q, &disttypes.QueryDelegationTotalRewardsRequest{DelegatorAddress: accStr(del)})
		if err != nil {
			return false, err
		}
		for _, rw := range resp.Rewards {
			if rw.Reward.AmountOf(bond).TruncateInt().BigInt().Cmp(minReward) < 0 {
				continue
			}
			if _, err := distkeeper.NewMsgServerImpl(dk).WithdrawDelegatorReward(ctx, &disttypes.MsgWithdrawDelegatorReward{DelegatorAddress: accStr(del), ValidatorAddress: rw.ValidatorAddress}); err != nil {
				return false, err
			}
			any = true
		}
		return any, nil
	}
	// validator choice of transfer(self, amount), from its documentation
	pickValidator := func(ctx sdk.Context, del int) (int, bool) {
		dels, _ := sk.GetAllDelegatorDelegations(ctx, addrs[del].Bytes())
		type cand struct {
			id  int
			tok *big.Int
			op  string
		}
		var mine []cand
		for _, d := range dels {
			id := idOfVal(d.ValidatorAddress)
			v, err := sk.GetValidator(ctx, valAddr[id])
			if err != nil || !v.IsBonded() {
				continue
			}
			mine = append(mine, cand{id, v.Tokens.BigInt(), v.OperatorAddress})
		}
		less := func(xs []cand) func(i, j int) bool {
			return func(i, j int) bool {
				if c := xs[i].tok.Cmp(xs[j].tok); c != 0 {
					return c < 0
				}
				return xs[i].op < xs[j].op
			}
		}
		switch {
		case len(mine) == 1:
			return mine[0].id, true
		case len(mine) > 1:
			sort.Slice(mine, less(mine))
			return mine[0].id, true
		}
		// every bonded validator of the chain — also the block proposer's, which the generated operations never target
		// (a false alarm of seed 2: the candidates were taken from the operation targets, one validator short)
		var all []cand
		everyVal, _ := sk.GetAllValidators(ctx)
		for _, v := range everyVal {
			if v.IsBonded() {
				all = append(all, cand{idOfVal(v.OperatorAddress), v.Tokens.BigInt(), v.OperatorAddress})
			}
		}
		if len(all) == 0 {
			return 0, false
		}
		sort.Slice(all, less(all))
		return all[len(all)/2].id, true
	}

	// observables: staking and bank stores byte for byte, and of the distribution store what anybody can be
	// paid or is owed: pending rewards per delegation, outstanding rewards, commission, community pool.
	observables := func(ctx sdk.Context) map[string]string {
		out := dumpStores(ctx, keys, []string{stakingtypes.StoreKey, "bank"})
		q, _ := ctx.CacheContext()
		dels, _ := sk.GetAllDelegations(q)
		for _, d := range dels {
			resp, err := distkeeper.NewQuerier(dk).DelegationRewards(q, &disttypes.QueryDelegationRewardsRequest{DelegatorAddress: d.DelegatorAddress, ValidatorAddress: d.ValidatorAddress})
			if err != nil {
				out["reward/"+d.DelegatorAddress+"/"+d.ValidatorAddress] = "error:" + err.Error()
				continue
			}
			out["reward/"+d.DelegatorAddress+"/"+d.ValidatorAddress] = resp.Rewards.String()
		}
		for _, id := range valIDs {
			if o, err := dk.GetValidatorOutstandingRewards(q, valAddr[id]); err == nil {
				out[fmt.Sprintf("outstanding/%d", id)] = o.Rewards.String()
			}
			if cm, err := dk.GetValidatorAccumulatedCommission(q, valAddr[id]); err == nil {
				out[fmt.Sprintf("commission/%d", id)] = cm.Commission.String()
			}
		}
		if fp, err := dk.FeePool.Get(q); err == nil {
			out["community-pool"] = fp.CommunityPool.String()
		}
		return out
	}

	type call struct {
		kind          string
		val, src, dst int
		amt           *big.Int
		act           string
		md, old       int
		valid         bool
		rec           int // 0 = nothing / garbage
		fv            int // 0 = all
		to            int
		sigMode       string
		input         []byte
	}
	// run one state-changing call on both twins and report
	runTwin := func(caller int, cl call) {
		ctxA, writeA := base.CacheContext()
		ctxB, _ := base.CacheContext()
		ctxA = ctxA.WithEventManager(sdk.NewEventManager())
		ctxB = ctxB.WithEventManager(sdk.NewEventManager())

		// ---- the native message the specification names (delegator = immediate caller) ----
		del := caller
		native := "none"
		var nerr error
		ran := false
		switch cl.kind {
		case "delegate", "undelegate", "redelegate":
			if cl.amt.Sign() > 0 {
				ran = true
			}
		case "withdraw", "withdrawall":
			ran = true
		case "transfer":
			ran = cl.to == caller && cl.amt.Sign() > 0 && addrs[caller] != (common.Address{})
		case "bymsg", "wbymsg":
			ran = cl.valid && cl.md == caller && cl.rec == cl.md
			del = cl.md
		}
		kind := cl.kind
		val, src, dst, amt := cl.val, cl.src, cl.dst, cl.amt
		if cl.kind == "bymsg" {
			kind = strings.ToLower(cl.act)
			if kind == "redelegate" {
				src, dst = cl.old, cl.val
			}
		}
		if cl.kind == "wbymsg" {
			if cl.fv == 0 {
				kind = "withdrawall"
			} else {
				kind, val = "withdraw", cl.fv
			}
		}
		if ran {
			pv := hx.Catch(func() {
				switch kind {
				case "delegate":
					native = fmt.Sprintf("delegate:%d:%d:%s", del, val, amt)
					_, nerr = stakingkeeper.NewMsgServerImpl(sk).Delegate(ctxB, stakingtypes.NewMsgDelegate(accStr(del), valStr(val), coin(amt)))
				case "undelegate":
					native = fmt.Sprintf("undelegate:%d:%d:%s", del, val, amt)
					_, nerr = stakingkeeper.NewMsgServerImpl(sk).Undelegate(ctxB, stakingtypes.NewMsgUndelegate(accStr(del), valStr(val), coin(amt)))
				case "redelegate":
					native = fmt.Sprintf("redelegate:%d:%d:%d:%s", del, src, dst, amt)
					_, nerr = stakingkeeper.NewMsgServerImpl(sk).BeginRedelegate(ctxB, stakingtypes.NewMsgBeginRedelegate(accStr(del), valStr(src), valStr(dst), coin(amt)))
				case "withdraw":
					native = fmt.Sprintf("withdraw:%d:%d", del, val)
					_, nerr = distkeeper.NewMsgServerImpl(dk).WithdrawDelegatorReward(ctxB, &disttypes.MsgWithdrawDelegatorReward{DelegatorAddress: accStr(del), ValidatorAddress: valStr(val)})
				case "withdrawall":
					native = fmt.Sprintf("withdrawall:%d", del)
					_, nerr = nativeWithdrawAll(ctxB, del)
				case "transfer":
					native = fmt.Sprintf("selfstake:%d:%s", del, amt)
					if _, nerr = nativeWithdrawAll(ctxB, del); nerr != nil {
						return
					}
					if bk.GetBalance(ctxB, addrs[del].Bytes(), bond).Amount.BigInt().Cmp(amt) < 0 {
						nerr = fmt.Errorf("insufficient balance")
						return
					}
					v, ok := pickValidator(ctxB, del)
					if !ok {
						nerr = fmt.Errorf("no validator")
						return
					}
					_, nerr = stakingkeeper.NewMsgServerImpl(sk).Delegate(ctxB, stakingtypes.NewMsgDelegate(accStr(del), valStr(v), coin(amt)))
				}
			})
			if pv != nil {
				nerr = fmt.Errorf("panic: %v", pv)
			}
		}
		nat := "skip"
		evs := "-"
		if ran {
			if nerr != nil {
				nat = "err"
				ctxB, _ = base.CacheContext() // a failed message leaves nothing behind (runMsgs discards the cache)
			} else {
				nat = "ok"
				if e := eventsOf(ctxB.EventManager()); len(e) > 0 {
					evs = strings.Join(e, ",")
				}
			}
		}

		// ---- the precompile ----
		var res *evmtypes.MsgEthereumTxResponse
		var err error
		if pv := hx.Catch(func() { res, err = callAs(ctxA, caller, cl.input) }); pv != nil {
			// C20: precompile input supplied by a user either succeeds or returns an error; a panic under the EVM call is
			// recovered at the transaction boundary only (no gas accounted, fee kept) and propagates on the query paths
			p.Oracle("C20-precompile-input-panics", "caller=%d call=%s act=%s mode=%s: the staking precompile panicked: %s", caller, kind, cl.act, cl.sigMode, firstWords(fmt.Sprint(pv), 14))
			err = fmt.Errorf("panic: %v", pv)
		}
		implRes := "ok"
		logs := "-"
		if err != nil {
			implRes = "error:" + strings.ReplaceAll(firstWords(err.Error(), 6), " ", "_")
		} else if res.VmError != "" {
			implRes = "revert"
		} else {
			logs = logsOfResp(res)
		}
		twin := "eq"
		d := diffDumps(dumpStores(ctxA, keys, twinStores), dumpStores(ctxB, keys, twinStores))
		if len(d) > 0 {
			twin = "diff"
			if kind == "withdrawall" || kind == "transfer" {
				// The composite methods evaluate the distribution query on the live context, which closes a
				// reward period per delegation (period counters / historical-reward records differ from the
				// native run).  The property speaks of delegations, entries, rewards and balances: compare those.
				d = diffDumps(observables(ctxA), observables(ctxB))
				if len(d) == 0 {
					twin = "eq"
					p.Count("twin:equal-up-to-period-bookkeeping")
				}
			}
		} else if ran && nat == "ok" {
			p.Count("twin:byte-identical")
		}

		op := fmt.Sprintf("stk caller=%d call=%s val=%d src=%d dst=%d amt=%s act=%s md=%d old=%d valid=%d rec=%s fv=%s to=%d nat=%s ev=%s",
			caller, cl.kind, cl.val, cl.src, cl.dst, cl.amt, strings.ToLower(cl.act), cl.md, cl.old, b01(cl.valid), dashIfZero(cl.rec), dashIfZero(cl.fv), cl.to, nat, evs)
		p.Emit(op, fmt.Sprintf("native=%s res=%s logs=%s twin=%s", native, implRes, logs, twin))
		p.Count(fmt.Sprintf("%s:%s:%s", cl.kind, callerClass(caller), implRes))
		if cl.kind == "bymsg" || cl.kind == "wbymsg" {
			p.Count("sig:" + cl.sigMode + ":" + implRes)
		}
		if twin == "diff" {
			p.Oracle("C11-differs-from-native", "caller=%d call=%s native=%s nat=%s impl=%s first-diffs=%s", caller, cl.kind, native, nat, implRes, strings.Join(firstK(d, 4), ";"))
		}
		if (nat == "ok") != (implRes == "ok") && !(nat == "ok" && kind == "withdrawall" && evs == "-") {
			p.Oracle("C11-result-differs-from-native", "caller=%d call=%s native=%s nat=%s (%v) impl=%s vmerr=%s", caller, cl.kind, native, nat, nerr, implRes, vmErrOf(res))
		}
		// caller-only: no account other than the immediate caller changes its delegations / balance, unless the native twin does too
		writeA()
	}

	signFor := func(signer int, digest []byte) (r, s [32]byte, v uint8) {
		k, err := crypto.ToECDSA(keyOf[signer].priv)
		require.NoError(t, err)
		sig, err := crypto.Sign(digest, k)
		require.NoError(t, err)
		copy(r[:], sig[:32])
		copy(s[:], sig[32:64])
		return r, s, sig[64]
	}

	amountFor := func(holder int, of *big.Int) *big.Int {
		switch r.Intn(10) {
		case 0:
			return big.NewInt(0)
		case 1:
			return new(big.Int).Add(of, big.NewInt(1))
		case 2:
			return new(big.Int).Set(of)
		case 3:
			return new(big.Int).Rsh(of, 1)
		case 4:
			return big.NewInt(int64(1 + r.Intn(1000)))
		default:
			return new(big.Int).Mul(new(big.Int).Div(one, big.NewInt(100)), big.NewInt(int64(1+r.Intn(300))))
		}
	}
	delegated := func(del, val int) *big.Int {
		d, err := sk.GetDelegation(base, addrs[del].Bytes(), valAddr[val])
		if err != nil {
			return big.NewInt(0)
		}
		v, err := sk.GetValidator(base, valAddr[val])
		if err != nil {
			return big.NewInt(0)
		}
		return v.TokensFromShares(d.Shares).TruncateInt().BigInt()
	}
	pickVal := func() int {
		if r.Chance(1, 25) {
			return 199
		}
		return hx.Pick(r, valIDs)
	}
	callers := []int{1, 1, 2, 2, 3, 5, 5, 6, 6}
	// a validator the account has a delegation with (3 in 4), else any
	pickMine := func(del int) int {
		if r.Chance(3, 4) {
			var mine []int
			for _, id := range valIDs {
				if delegated(del, id).Sign() > 0 {
					mine = append(mine, id)
				}
			}
			if len(mine) > 0 {
				return hx.Pick(r, mine)
			}
		}
		return pickVal()
	}

	checkViews := func() {
		who := hx.Pick(r, []int{1, 2, 3, 5, 6, 9})
		v := pickVal()
		before := dumpStores(base, keys, allStores)
		type view struct {
			name  string
			input []byte
		}
		views := []view{
			{"delegationOf", packStk("delegationOf", addrs[who], common.BytesToAddress(valAddr[v]))},
			{"totalDelegationOf", packStk("totalDelegationOf", addrs[who])},
			{"rewardOf", packStk("rewardOf", addrs[who], common.BytesToAddress(valAddr[v]))},
			{"rewardsOf", packStk("rewardsOf", addrs[who])},
			{"balanceOf", packStk("balanceOf", addrs[who])},
			{"delegatedValidators", packStk("delegatedValidators", addrs[who])},
		}
		for _, vw := range views {
			ctxV, _ := base.CacheContext()
			res, err := evmCall(ctxV, addrs[2], stk, vw.input)
			if err != nil || res.VmError != "" {
				p.Count("view:" + vw.name + ":fail")
				if v != 199 {
					p.Oracle("C11-view-fails", "view=%s who=%d val=%d err=%v vmerr=%s", vw.name, who, v, err, vmErrOf(res))
				}
				continue
			}
			p.Count("view:" + vw.name + ":ok")
			got := new(big.Int).SetBytes(res.Ret)
			// --- a declared read-only method leaves every store as it was, except the caller's nonce ---
			after := dumpStores(ctxV, keys, allStores)
			var d []string
			for _, x := range diffDumps(before, after) {
				if strings.Contains(x, " acc/") || strings.Contains(x, " auth/") {
					continue // sender nonce / account creation of the message itself
				}
				d = append(d, x)
			}
			if len(d) > 0 {
				p.Count("view:" + vw.name + ":writes")
				p.Oracle("C12-readonly-method-writes", "view=%s who=%d val=%d changed=%d first=%s", vw.name, who, v, len(d), strings.Join(firstK(d, 3), ";"))
			}
			// --- same numbers as the native queries (evaluated on a throw-away cache) ---
			q, _ := base.CacheContext()
			var want *big.Int
			switch vw.name {
			case "delegationOf":
				want = delegated(who, v)
				if resp, err := stakingkeeper.NewQuerier(sk).Delegation(q, &stakingtypes.QueryDelegationRequest{DelegatorAddr: accStr(who), ValidatorAddr: valStr(v)}); err == nil {
					want = resp.DelegationResponse.Balance.Amount.BigInt()
				} else {
					want = big.NewInt(0)
				}
			case "rewardOf":
				if resp, err := distkeeper.NewQuerier(dk).DelegationRewards(q, &disttypes.QueryDelegationRewardsRequest{DelegatorAddress: accStr(who), ValidatorAddress: valStr(v)}); err == nil {
					want = resp.Rewards.AmountOf(bond).TruncateInt().BigInt()
				} else {
					want = big.NewInt(0)
				}
			case "rewardsOf", "balanceOf":
				resp, err := distkeeper.NewQuerier(dk).DelegationTotalRewards(q, &disttypes.QueryDelegationTotalRewardsRequest{DelegatorAddress: accStr(who)})
				if err != nil {
					continue
				}
				want = resp.Total.AmountOf(bond).TruncateInt().BigInt()
				if vw.name == "balanceOf" {
					want = new(big.Int).Add(want, bk.GetBalance(base, addrs[who].Bytes(), bond).Amount.BigInt())
				}
			case "totalDelegationOf":
				resp, err := stakingkeeper.NewQuerier(sk).DelegatorDelegations(q, &stakingtypes.QueryDelegatorDelegationsRequest{DelegatorAddr: accStr(who)})
				if err != nil {
					continue
				}
				sum := big.NewInt(0)
				for _, dr := range resp.DelegationResponses {
					sum.Add(sum, dr.Balance.Amount.BigInt())
				}
				// the precompile truncates the sum, the query truncates each term
				hi := new(big.Int).Add(sum, big.NewInt(int64(len(resp.DelegationResponses))))
				if got.Cmp(sum) < 0 || got.Cmp(hi) > 0 {
					p.Oracle("C11-view-differs-from-query", "view=%s who=%d got=%s want in [%s,%s]", vw.name, who, got, sum, hi)
				}
				continue
			default:
				continue
			}
			if got.Cmp(want) != 0 {
				p.Oracle("C11-view-differs-from-query", "view=%s who=%d val=%d got=%s want=%s", vw.name, who, v, got, want)
			}
		}
	}

	// a view on a state the module's own hooks did not prepare: a delegation whose distribution starting info is missing
	// (state imported or migrated without running the staking hooks).  Whatever the view answers — the SDK panics for it,
	// the call fails — it is declared read-only: no store may change (C12: "methods declared read-only never write state in
	// any context")
	checkViewOnUnpreparedState := func() {
		for _, who := range []int{1, 2, 3} {
			for _, v := range valIDs {
				if delegated(who, v).Sign() <= 0 {
					continue
				}
				ctxU, _ := base.CacheContext()
				if err := dk.DeleteDelegatorStartingInfo(ctxU, valAddr[v], addrs[who].Bytes()); err != nil {
					return
				}
				before := dumpStores(ctxU, keys, allStores)
				func() {
					defer func() { _ = recover() }()
					_, _ = evmCall(ctxU, addrs[2], stk, packStk("rewardOf", addrs[who], common.BytesToAddress(valAddr[v])))
				}()
				after := dumpStores(ctxU, keys, allStores)
				var d []string
				for _, x := range diffDumps(before, after) {
					if strings.Contains(x, " acc/") || strings.Contains(x, " auth/") {
						continue
					}
					d = append(d, x)
				}
				p.Count("view:rewardOf:unprepared-state")
				if len(d) > 0 {
					p.Oracle("C12-readonly-method-writes", "view=rewardOf who=%d val=%d on a delegation without distribution starting info changed %d store entries, first=%s", who, v, len(d), strings.Join(firstK(d, 3), ";"))
				}
				return
			}
		}
	}

	for i := 0; i < n; i++ {
		if i%97 == 41 {
			checkViewOnUnpreparedState()
		}
		caller := hx.Pick(r, callers)
		bal := bk.GetBalance(base, addrs[caller].Bytes(), bond).Amount.BigInt()
		if bal.Cmp(one) < 0 && r.Chance(1, 2) {
			mint(base, addrs[caller].Bytes(), new(big.Int).Mul(one, big.NewInt(20)))
			bal = bk.GetBalance(base, addrs[caller].Bytes(), bond).Amount.BigInt()
		}
		k := r.Intn(100)
		switch {
		case k < 20:
			v := pickVal()
			a := amountFor(caller, bal)
			runTwin(caller, call{kind: "delegate", val: v, amt: a, input: packStk("delegate", common.BytesToAddress(valAddr[v]), a)})
		case k < 32:
			v := pickMine(caller)
			a := amountFor(caller, delegated(caller, v))
			runTwin(caller, call{kind: "undelegate", val: v, amt: a, input: packStk("undelegate", common.BytesToAddress(valAddr[v]), a)})
		case k < 42:
			s, d := pickMine(caller), pickVal()
			a := amountFor(caller, delegated(caller, s))
			runTwin(caller, call{kind: "redelegate", src: s, dst: d, amt: a, input: packStk("redelegate", common.BytesToAddress(valAddr[s]), common.BytesToAddress(valAddr[d]), a)})
		case k < 50:
			v := pickMine(caller)
			runTwin(caller, call{kind: "withdraw", val: v, amt: big.NewInt(0), input: packStk("withdrawReward", common.BytesToAddress(valAddr[v]))})
		case k < 56:
			runTwin(caller, call{kind: "withdrawall", amt: big.NewInt(0), input: packStk("withdrawRewards")})
		case k < 62:
			to := caller
			if r.Chance(1, 3) {
				to = hx.Pick(r, []int{1, 2, 3, 5, 6})
			}
			a := amountFor(caller, bal)
			runTwin(caller, call{kind: "transfer", to: to, amt: a, input: packStk("transfer", addrs[to], a)})
		case k < 78: // delegateByActionMessage
			md := caller
			mode := hx.Pick(r, []string{"honest", "honest", "honest", "other-delegator", "foreign-chain", "foreign-key", "tampered-amount", "tampered-validator", "tampered-s", "v27", "zero-amount", "bad-denom"})
			signer := md
			if md >= 5 { // contracts have no key: whoever signs, the signer is not the delegator
				signer = 1 + r.Intn(3)
			}
			if mode == "other-delegator" {
				md = hx.Pick(r, []int{1, 2, 3})
				for md == caller {
					md = 1 + r.Intn(3)
				}
				signer = md // the victim's own valid signature, replayed by somebody else
			}
			act := hx.Pick(r, []string{"Delegate", "Undelegate", "Redelegate"})
			v, old := hx.Pick(r, valIDs), 0
			of := bal
			if act == "Undelegate" {
				v = pickMine(md)
				for v == 199 {
					v = hx.Pick(r, valIDs)
				}
				of = delegated(md, v)
			}
			oldS := "-"
			if act == "Redelegate" {
				old = pickMine(md)
				for old == 199 {
					old = hx.Pick(r, valIDs)
				}
				oldS = valStr(old)
				of = delegated(md, old)
			}
			a := amountFor(md, of)
			if a.Sign() == 0 && mode != "zero-amount" {
				a = big.NewInt(int64(1 + r.Intn(100000)))
			}
			if mode == "zero-amount" {
				a = big.NewInt(0)
			}
			denom := bond
			if mode == "bad-denom" {
				denom = "uother"
			}
			if act == "Redelegate" && r.Chance(1, 3) {
				oldS = "-" // a redelegation that names no source validator: not a valid message
				mode = "honest"
				p.Count("bymsg:redelegate-without-source")
			}
			msg := cpcabi.StakingMessage{Action: act, Delegator: addrs[md], Validator: valStr(v), Amount: a, Denom: denom, OldValidator: oldS}
			chainID := c.chainID
			if mode == "foreign-chain" {
				chainID = new(big.Int).Add(c.chainID, big.NewInt(int64(1+r.Intn(3))))
			}
			if mode == "foreign-key" {
				signer = 1 + (signer % 3)
			}
			digest := stakingTypedDigest("StakingMessage",
				[]apitypes.Type{{Name: "action", Type: "string"}, {Name: "delegator", Type: "address"}, {Name: "validator", Type: "string"}, {Name: "amount", Type: "uint256"}, {Name: "denom", Type: "string"}, {Name: "oldValidator", Type: "string"}},
				apitypes.TypedDataMessage{"action": msg.Action, "delegator": msg.Delegator.String(), "validator": msg.Validator, "amount": (*cmath.HexOrDecimal256)(msg.Amount), "denom": msg.Denom, "oldValidator": msg.OldValidator}, chainID)
			rr, ss, vv := signFor(signer, digest)
			switch mode {
			case "tampered-amount":
				msg.Amount = new(big.Int).Add(a, big.NewInt(1))
				a = msg.Amount
			case "tampered-validator":
				nv := hx.Pick(r, valIDs)
				for nv == v && len(valIDs) > 1 {
					nv = hx.Pick(r, valIDs)
				}
				v = nv
				msg.Validator = valStr(v)
			case "tampered-s":
				ss[31] ^= 1
			case "v27":
				vv += 27
			}
			honest := mode == "honest" || mode == "v27" || mode == "other-delegator" || mode == "zero-amount" || mode == "bad-denom"
			if len(valIDs) == 1 && mode == "tampered-validator" {
				honest = true
			}
			rec := 0
			if honest && signer == md {
				rec = md
			}
			valid := a.Sign() > 0 && denom == bond && !(act == "Redelegate" && oldS == "-")
			runTwin(caller, call{kind: "bymsg", act: act, md: md, val: v, old: old, amt: a, valid: valid, rec: rec, sigMode: mode,
				input: packStk("delegateByActionMessage", msg, rr, ss, vv)})
		case k < 86: // withdrawRewardsByMessage
			md := caller
			mode := hx.Pick(r, []string{"honest", "honest", "other-delegator", "foreign-chain", "foreign-key", "tampered-validator", "tampered-s"})
			signer := md
			if md >= 5 {
				signer = 1 + r.Intn(3)
			}
			if mode == "other-delegator" {
				md = 1 + r.Intn(3)
				for md == caller {
					md = 1 + r.Intn(3)
				}
				signer = md
			}
			fv := 0
			fvS := "all"
			if r.Chance(2, 3) {
				fv = pickMine(md)
				for fv == 199 {
					fv = hx.Pick(r, valIDs)
				}
				fvS = valStr(fv)
			}
			msg := cpcabi.WithdrawRewardMessage{Delegator: addrs[md], FromValidator: fvS}
			chainID := c.chainID
			if mode == "foreign-chain" {
				chainID = new(big.Int).Add(c.chainID, big.NewInt(1))
			}
			if mode == "foreign-key" {
				signer = 1 + (signer % 3)
			}
			digest := stakingTypedDigest("WithdrawRewardMessage",
				[]apitypes.Type{{Name: "delegator", Type: "address"}, {Name: "fromValidator", Type: "string"}},
				apitypes.TypedDataMessage{"delegator": msg.Delegator.String(), "fromValidator": msg.FromValidator}, chainID)
			rr, ss, vv := signFor(signer, digest)
			honest := mode == "honest" || mode == "other-delegator"
			switch mode {
			case "tampered-validator":
				if fv == 0 {
					fv = hx.Pick(r, valIDs)
				} else {
					fv = 0
				}
				if fv == 0 {
					msg.FromValidator = "all"
				} else {
					msg.FromValidator = valStr(fv)
				}
			case "tampered-s":
				ss[31] ^= 1
			}
			rec := 0
			if honest && signer == md {
				rec = md
			}
			runTwin(caller, call{kind: "wbymsg", md: md, fv: fv, amt: big.NewInt(0), valid: true, rec: rec, sigMode: mode,
				input: packStk("withdrawRewardsByMessage", msg, rr, ss, vv)})
		case k < 89: // TWO delegations by one contract in ONE transaction: the second call must log its own events only
			v1, v2 := hx.Pick(r, valIDs), hx.Pick(r, valIDs)
			a1 := new(big.Int).Mul(new(big.Int).Div(one, big.NewInt(1000)), big.NewInt(int64(1+r.Intn(300))))
			a2 := new(big.Int).Mul(new(big.Int).Div(one, big.NewInt(1000)), big.NewInt(int64(1+r.Intn(300))))
			if bk.GetBalance(base, addrs[7].Bytes(), bond).Amount.BigInt().Cmp(new(big.Int).Add(a1, a2)) < 0 {
				mint(base, addrs[7].Bytes(), new(big.Int).Mul(one, big.NewInt(20)))
			}
			ctxA, writeA := base.CacheContext()
			ctxB, _ := base.CacheContext()
			ctxA = ctxA.WithEventManager(sdk.NewEventManager())
			var evs [2]string
			natOK := true
			for j, pr := range []struct {
				v int
				a *big.Int
			}{{v1, a1}, {v2, a2}} {
				cb := ctxB.WithEventManager(sdk.NewEventManager())
				if _, err := stakingkeeper.NewMsgServerImpl(sk).Delegate(cb, stakingtypes.NewMsgDelegate(accStr(7), valStr(pr.v), coin(pr.a))); err != nil {
					natOK = false
				}
				evs[j] = "-"
				if e := eventsOf(cb.EventManager()); len(e) > 0 {
					evs[j] = strings.Join(e, ",")
				}
			}
			script := append(record(0, stk, packStk("delegate", common.BytesToAddress(valAddr[v1]), a1)), record(0, stk, packStk("delegate", common.BytesToAddress(valAddr[v2]), a2))...)
			script = append(script, 2)
			res, err := evmCall(ctxA, addrs[1], addrs[7], script)
			implRes, logs := "ok", "-"
			if err != nil || res.VmError != "" {
				implRes = "revert"
			} else {
				logs = logsOfResp(res)
			}
			twin := "eq"
			if d := diffDumps(dumpStores(ctxA, keys, twinStores), dumpStores(ctxB, keys, twinStores)); len(d) > 0 {
				twin = "diff"
				p.Oracle("C11-differs-from-native", "two delegations in one transaction by contract 7: stores differ from two native messages, first: %s", strings.Join(firstK(d, 3), ";"))
			}
			if !natOK {
				p.Count("stk2:native-failed")
				continue
			}
			p.Emit(fmt.Sprintf("stk2 caller=7 ev1=%s ev2=%s", evs[0], evs[1]), fmt.Sprintf("res=%s logs=%s twin=%s", implRes, logs, twin))
			p.Count("stk2:" + implRes)
			writeA()
		case k < 91: // views BEFORE and AFTER a state-changing call, all inside ONE transaction of a contract
			self := 8
			v := pickMine(self)
			for v == 199 {
				v = hx.Pick(r, valIDs)
			}
			if bk.GetBalance(base, addrs[self].Bytes(), bond).Amount.BigInt().Cmp(one) < 0 {
				mint(base, addrs[self].Bytes(), new(big.Int).Mul(one, big.NewInt(20)))
			}
			amt := new(big.Int).Mul(new(big.Int).Div(one, big.NewInt(1000)), big.NewInt(int64(1+r.Intn(300))))
			wkind := hx.Pick(r, []string{"delegate", "delegate", "withdrawall", "undelegate"})
			var winput []byte
			switch wkind {
			case "delegate":
				winput = packStk("delegate", common.BytesToAddress(valAddr[v]), amt)
			case "undelegate":
				amt = new(big.Int).Rsh(delegated(self, v), 1)
				if amt.Sign() == 0 {
					wkind, amt = "delegate", big.NewInt(12345)
					winput = packStk("delegate", common.BytesToAddress(valAddr[v]), amt)
				} else {
					winput = packStk("undelegate", common.BytesToAddress(valAddr[v]), amt)
				}
			default:
				winput = packStk("withdrawRewards")
			}
			// expected view values from the native queries: before = current state, after = the native message applied
			nativeViews := func(ctx sdk.Context) [4]*big.Int {
				q, _ := ctx.CacheContext()
				var out [4]*big.Int
				out[0] = big.NewInt(0)
				if resp, err := distkeeper.NewQuerier(dk).DelegationTotalRewards(q, &disttypes.QueryDelegationTotalRewardsRequest{DelegatorAddress: accStr(self)}); err == nil {
					out[0] = resp.Total.AmountOf(bond).TruncateInt().BigInt()
				}
				out[1] = new(big.Int).Add(out[0], bk.GetBalance(ctx, addrs[self].Bytes(), bond).Amount.BigInt())
				out[2] = big.NewInt(0)
				if resp, err := stakingkeeper.NewQuerier(sk).Delegation(q, &stakingtypes.QueryDelegationRequest{DelegatorAddr: accStr(self), ValidatorAddr: valStr(v)}); err == nil {
					out[2] = resp.DelegationResponse.Balance.Amount.BigInt()
				}
				bonded, _ := sk.GetDelegatorBonded(q, addrs[self].Bytes())
				out[3] = bonded.BigInt()
				return out
			}
			ctxA, writeA := base.CacheContext()
			ctxB, _ := base.CacheContext()
			ctxA = ctxA.WithEventManager(sdk.NewEventManager())
			cb := ctxB.WithEventManager(sdk.NewEventManager())
			before := nativeViews(base)
			var nerr error
			anyW := true
			switch wkind {
			case "delegate":
				_, nerr = stakingkeeper.NewMsgServerImpl(sk).Delegate(cb, stakingtypes.NewMsgDelegate(accStr(self), valStr(v), coin(amt)))
			case "undelegate":
				_, nerr = stakingkeeper.NewMsgServerImpl(sk).Undelegate(cb, stakingtypes.NewMsgUndelegate(accStr(self), valStr(v), coin(amt)))
			default:
				anyW, nerr = nativeWithdrawAll(cb, self)
			}
			wOK := nerr == nil && anyW
			after := before
			if wOK {
				after = nativeViews(ctxB)
			}
			selfA := addrs[self]
			vA := common.BytesToAddress(valAddr[v])
			var script []byte
			script = append(script, record(1, stk, packStk("rewardsOf", selfA))...)
			script = append(script, record(1, stk, packStk("balanceOf", selfA))...)
			script = append(script, record(0, stk, winput)...)
			script = append(script, record(1, stk, packStk("rewardsOf", selfA))...)
			script = append(script, record(1, stk, packStk("balanceOf", selfA))...)
			script = append(script, record(1, stk, packStk("delegationOf", selfA, vA))...)
			script = append(script, record(1, stk, packStk("totalDelegationOf", selfA))...)
			script = append(script, 2)
			res, err := evmCall(ctxA, addrs[1], addrs[self], script)
			if err != nil || res.VmError != "" {
				p.Count("stkv:tx-failed")
				continue
			}
			rc := &ethtypes.Receipt{}
			require.NoError(t, rc.UnmarshalBinary(res.MarshalledReceipt))
			var flags []int
			var vals []*big.Int
			for _, lg := range rc.Logs {
				if lg.Address == addrs[self] && len(lg.Topics) == 1 {
					flags = append(flags, int(lg.Topics[0].Big().Int64()))
					vals = append(vals, new(big.Int).SetBytes(lg.Data))
				}
			}
			if len(flags) != 7 {
				p.Oracle("C11-view-differs-from-query", "in-transaction views: expected 7 call records, got %d", len(flags))
				continue
			}
			exp := []*big.Int{before[0], before[1], nil, after[0], after[1], after[2], after[3]}
			names := []string{"rewardsOf(before)", "balanceOf(before)", "write", "rewardsOf(after)", "balanceOf(after)", "delegationOf(after)", "totalDelegationOf(after)"}
			if (flags[2] == 1) != wOK {
				p.Oracle("C11-result-differs-from-native", "in one transaction: %s by contract 8 success=%d, native ok=%v (%v)", wkind, flags[2], wOK, nerr)
			}
			for j := range exp {
				if exp[j] == nil {
					continue
				}
				lo, hi := exp[j], exp[j]
				if j == 6 { // the precompile truncates the sum, the queries truncate each term
					hi = new(big.Int).Add(exp[j], big.NewInt(int64(len(valIDs))))
				}
				if flags[j] != 1 || vals[j].Cmp(lo) < 0 || vals[j].Cmp(hi) > 0 {
					p.Oracle("C11-view-differs-from-query", "inside one transaction of contract 8 around %s (native ok=%v): %s returned %s (call ok=%d), the native query gives %s", wkind, wOK, names[j], vals[j], flags[j], exp[j])
				}
			}
			p.Count(fmt.Sprintf("stkv:%s:write-ok=%v", wkind, wOK))
			writeA()
		case k < 92: // native staking by somebody (interleaving)
			who := hx.Pick(r, []int{1, 2, 3})
			v := hx.Pick(r, valIDs)
			cc, w := base.CacheContext()
			a := new(big.Int).Mul(new(big.Int).Div(one, big.NewInt(10)), big.NewInt(int64(1+r.Intn(30))))
			if _, err := stakingkeeper.NewMsgServerImpl(sk).Delegate(cc, stakingtypes.NewMsgDelegate(accStr(who), valStr(v), coin(a))); err == nil {
				w()
				p.Count("native-delegate:ok")
			} else {
				p.Count("native-delegate:err")
			}
		default: // reward accrual and block progression
			for _, v := range valIDs {
				if r.Chance(2, 3) {
					val, err := sk.GetValidator(base, valAddr[v])
					if err != nil { // the history emptied and removed this validator: nothing to allocate to
						p.Count("validator-gone")
						continue
					}
					rw := new(big.Int).Mul(new(big.Int).Div(one, big.NewInt(1000)), big.NewInt(int64(1+r.Intn(5000))))
					coins := sdk.NewCoins(coin(rw))
					if r.Chance(1, 4) { // fees of blocks come in every denomination that pays fees: rewards in a second denomination
						coins = coins.Add(sdk.NewInt64Coin("utwo", int64(1000+r.Intn(100000))))
						p.Count("reward:second-denomination")
					}
					require.NoError(t, bk.MintCoins(base, minttypes.ModuleName, coins))
					require.NoError(t, bk.SendCoinsFromModuleToModule(base, minttypes.ModuleName, disttypes.ModuleName, coins))
					require.NoError(t, dk.AllocateTokensToValidator(base, val, sdk.NewDecCoinsFromCoins(coins...)))
				}
			}
			c.now = c.now.Add(time.Hour)
			c.finalize(nil)
			base = c.ctx()
			p.Count("block")
		}
		if r.Chance(1, 4) {
			checkViews()
		}
	}
}

type itAccount struct{ priv []byte }

func callerClass(id int) string {
	switch id {
	case 5:
		return "contract-call"
	case 6:
		return "contract-delegatecall"
	}
	return "eoa"
}

func dashIfZero(v int) string {
	if v == 0 {
		return "-"
	}
	return fmt.Sprint(v)
}

func firstK(xs []string, k int) []string {
	if len(xs) > k {
		return xs[:k]
	}
	return xs
}

func vmErrOf(res *evmtypes.MsgEthereumTxResponse) string {
	if res == nil {
		return "-"
	}
	if res.VmError == "" {
		return "-"
	}
	s := res.VmError
	if len(res.Ret) > 4 {
		s += ":" + strings.Map(func(r rune) rune {
			if r < 32 || r > 126 {
				return -1
			}
			return r
		}, string(res.Ret[4:]))
	}
	return firstWords(s, 14)
}
