package engines

import (
	"bytes"
	"encoding/hex"
	"fmt"
	"math/big"
	"strings"
	"testing"

	sdkmath "cosmossdk.io/math"
	sdk "github.com/cosmos/cosmos-sdk/types"
	authtypes "github.com/cosmos/cosmos-sdk/x/auth/types"
	minttypes "github.com/cosmos/cosmos-sdk/x/mint/types"
	"github.com/ethereum/go-ethereum/common"
	"github.com/ethereum/go-ethereum/crypto"
	"github.com/stretchr/testify/require"

	itutil "github.com/EscanBE/evermint/v12/integration_test_util"
	itutiltypes "github.com/EscanBE/evermint/v12/integration_test_util/types"
	vauthtypes "github.com/EscanBE/evermint/v12/x/vauth/types"

	"verifharness/hx"
)

// E-vauth: proof submissions with arbitrary signatures, submitters, balances and repetitions,
// delivered in real blocks.  The symbolic facts about each signature (well-formed hex, what it
// recovers to for the fixed message, lower-case) are computed here with go-ethereum's crypto
// package, not with x/vauth/utils.

func TestEngineVauth(t *testing.T) {
	seed := hx.Seed()
	n := hx.EnvInt("VERIF_N", 300)
	r := hx.NewRng(seed ^ 0x7a07)
	p := hx.NewProto("vauth")
	defer p.Close()

	c := newChain(t)
	ctx := c.s.CurrentContext
	bk := c.s.ChainApp.BankKeeper()
	vk := c.s.ChainApp.VAuthKeeper()
	fund := func(a common.Address, amt *big.Int) {
		coins := sdk.NewCoins(sdk.NewCoin(c.evmDenom, sdkmath.NewIntFromBigInt(amt)))
		require.NoError(t, bk.MintCoins(ctx, minttypes.ModuleName, coins))
		require.NoError(t, bk.SendCoinsFromModuleToAccount(ctx, minttypes.ModuleName, a.Bytes(), coins))
	}
	e18 := new(big.Int).Exp(big.NewInt(10), big.NewInt(18), nil)
	// submitters: rich wallets plus poor ones around the fixed cost
	submitters := append([]*itutiltypes.TestAccount{}, c.wallets[:4]...)
	for _, w := range submitters {
		fund(w.GetEthAddress(), new(big.Int).Mul(e18, big.NewInt(100000)))
	}
	for i := 0; i < 4; i++ {
		a := c.s.CreateAccount()
		amt := new(big.Int).Div(new(big.Int).Mul(e18, big.NewInt(int64(5+4*i))), big.NewInt(10)) // 0.5, 0.9, 1.3, 1.7 e18
		fund(a.GetEthAddress(), amt)
		submitters = append(submitters, a)
	}
	var accounts []*itutiltypes.TestAccount
	nAcc := 8 + n/6
	for i := 0; i < nAcc; i++ {
		accounts = append(accounts, c.s.CreateAccount())
	}
	{ // the module account that collects and burns the fixed fee holds coins of its own (a genesis allocation): a submission burns the fee, nothing else
		coins := sdk.NewCoins(sdk.NewCoin(c.evmDenom, sdkmath.NewIntFromBigInt(new(big.Int).Mul(e18, big.NewInt(6)))), sdk.NewInt64Coin("utwo", 7_000_000))
		require.NoError(t, bk.MintCoins(ctx, minttypes.ModuleName, coins))
		require.NoError(t, bk.SendCoinsFromModuleToModule(ctx, minttypes.ModuleName, vauthtypes.ModuleName, coins))
	}
	vauthModule := authtypes.NewModuleAddress(vauthtypes.ModuleName)
	vauthHeld := bk.GetAllBalances(ctx, vauthModule).String()
	c.setupDone()
	txCfg := c.s.EncodingConfig.TxConfig
	msgHash := crypto.Keccak256([]byte("vauth"))
	idOf := func(a common.Address) string {
		if a == (common.Address{}) {
			return "998"
		}
		for i, s := range submitters {
			if s.GetEthAddress() == a {
				return fmt.Sprint(i)
			}
		}
		for i, s := range accounts {
			if s.GetEthAddress() == a {
				return fmt.Sprint(100 + i)
			}
		}
		return "999"
	}
	gasPrice := sdkmath.NewInt(2_000_000_000)
	const gas = 300_000
	txFee := new(big.Int).Mul(gasPrice.BigInt(), big.NewInt(gas))

	done := 0
	for done < n {
		k := 1 + r.Intn(3)
		type sub struct {
			si, ai int
			sig    string
			op     string
		}
		var subs []sub
		var txs [][]byte
		usedS, usedA := map[int]bool{}, map[int]bool{}
		cctx := c.ctx()
		for j := 0; j < k; j++ {
			si := r.Intn(len(submitters))
			if r.Chance(1, 2) {
				si = r.Intn(4) // rich
			}
			ai := r.Intn(len(accounts))
			if r.Chance(1, 3) && done > 10 {
				ai = r.Intn(1+done/4) % len(accounts) // revisit early accounts: conflicts
			}
			if usedS[si] || usedA[ai] {
				continue
			}
			usedS[si], usedA[ai] = true, true
			acc := accounts[ai]
			key, _ := acc.PrivateKey.ToECDSA()
			good, _ := crypto.Sign(msgHash, key)
			var sigBz []byte
			sigStr := ""
			switch r.Intn(20) {
			case 0: // signed by somebody else
				ok, _ := accounts[(ai+1)%len(accounts)].PrivateKey.ToECDSA()
				sigBz, _ = crypto.Sign(msgHash, ok)
			case 1: // right key, wrong message
				sigBz, _ = crypto.Sign(crypto.Keccak256([]byte("vauth ")), key)
			case 2: // truncated to 64 bytes
				sigBz = good[:64]
			case 3: // upper-case hex
				sigBz = good
				sigStr = "0x" + strings.ToUpper(hex.EncodeToString(good))
			case 4: // no prefix
				sigBz = good
				sigStr = hex.EncodeToString(good)
			case 5: // empty
				sigStr = "0x"
			case 6: // V = 27/28 form
				sigBz = append([]byte{}, good...)
				sigBz[64] += 27
			case 7: // flipped bit
				sigBz = append([]byte{}, good...)
				sigBz[r.Intn(64)] ^= 1 << uint(r.Intn(8))
			case 8: // one extra byte
				sigBz = append(append([]byte{}, good...), 0)
			case 9: // the account's own key over another digest of the same text: the EIP-191 personal_sign envelope
				sigBz, _ = crypto.Sign(accounts191Hash(vauthtypes.MessageToSign), key)
			case 10: // the account's own key over the text hashed twice
				sigBz, _ = crypto.Sign(crypto.Keccak256(msgHash), key)
			default:
				sigBz = good
			}
			if sigStr == "" {
				sigStr = "0x" + hex.EncodeToString(sigBz)
			}
			submitter := submitters[si]
			var subAddr sdk.AccAddress = submitter.GetCosmosAddress()
			accAddr := acc.GetCosmosAddress()
			if r.Chance(1, 25) { // self submission: submitter proves itself
				accAddr = subAddr
				k2, _ := submitter.PrivateKey.ToECDSA()
				g2, _ := crypto.Sign(msgHash, k2)
				sigStr = "0x" + hex.EncodeToString(g2)
			}
			if r.Chance(1, 12) && !usedA[-1] { // the zero address, "proved" by bytes from which no key can be recovered (what a failed recovery leaves is the zero value)
				usedA[-1] = true
				accAddr = sdk.AccAddress(make([]byte, 20))
				raw := make([]byte, 65)
				switch r.Intn(5) {
				case 0: // r = s = 0
				case 1: // a recovery id that does not exist
					copy(raw, good)
					raw[64] = byte(4 + r.Intn(200))
				case 2: // wrong length
					raw = bytes.Repeat([]byte{0xff}, 64)
				case 3: // r, s above the group order
					raw = append(bytes.Repeat([]byte{0xff}, 64), 0)
				default:
					for k := range raw {
						raw[k] = byte(r.Intn(256))
					}
					raw[64] = 2
				}
				sigStr = "0x" + hex.EncodeToString(raw)
			}
			accStr := accAddr.String()
			if r.Chance(1, 5) { // the all-upper-case notation of the same bech32 address
				accStr = strings.ToUpper(accStr)
			}
			msg := &vauthtypes.MsgSubmitProofExternalOwnedAccount{Submitter: subAddr.String(), Account: accStr, Signature: sigStr}
			tx, err := c.s.PrepareCosmosTx(cctx, submitter, itutil.CosmosTxArgs{Gas: gas, GasPrice: &gasPrice, Msgs: []sdk.Msg{msg}})
			require.NoError(t, err)
			bz, err := txCfg.TxEncoder()(tx)
			require.NoError(t, err)
			// symbolic facts, computed independently
			wf, rec, lower := false, "-", false
			if strings.HasPrefix(sigStr, "0x") {
				if raw, err := hex.DecodeString(sigStr[2:]); err == nil && len(raw) >= 1 {
					wf = true
					if pub, err := crypto.Ecrecover(msgHash, raw); err == nil {
						rec = idOf(common.BytesToAddress(crypto.Keccak256(pub[1:])[12:]))
					}
				}
			}
			lower = strings.ToLower(sigStr) == sigStr
			bal := new(big.Int).Sub(c.balance(cctx, subAddr), txFee)
			op := fmt.Sprintf("vsubmit s=%d a=%s wf=%d rec=%s lower=%d bal=%s", si, idOf(common.BytesToAddress(accAddr)), b01(wf), rec, b01(lower), bal.String())
			subs = append(subs, sub{si: si, ai: ai, sig: sigStr, op: op})
			txs = append(txs, bz)
		}
		if len(txs) == 0 {
			continue
		}
		res := c.finalize(txs)
		after := c.ctx()
		for j, sb := range subs {
			tr := res.TxResults[j]
			o := c.observe(tr)
			cls := "other:" + errClass(o)
			switch {
			case tr.Code == 0:
				cls = "ok"
			case tr.Codespace == "sdk" && tr.Code == 18:
				cls = "basic"
			case tr.Codespace == "sdk" && tr.Code == 36:
				cls = "conflict"
			case tr.Codespace == "sdk" && tr.Code == 5:
				cls = "funds"
			case tr.Code == 111222:
				cls = "panic"
			}
			// the op's account address
			var accAddr sdk.AccAddress
			fields := strings.Fields(sb.op)
			aid := strings.TrimPrefix(fields[2], "a=")
			var ai int
			fmt.Sscan(aid, &ai)
			if ai == 998 {
				accAddr = sdk.AccAddress(make([]byte, 20))
			} else if ai >= 100 {
				accAddr = accounts[ai-100].GetCosmosAddress()
			} else {
				accAddr = submitters[ai].GetCosmosAddress()
			}
			has := vk.HasProofExternalOwnedAccount(after, accAddr)
			dS := new(big.Int)
			if d, ok := o.delta[submitters[sb.si].GetCosmosAddress().String()]; ok {
				dS.Set(d)
			}
			antePassed := false
			for _, ev := range tr.Events {
				if ev.Type == "tx" {
					if _, ok := attr(ev, "fee"); ok {
						antePassed = true
					}
				}
			}
			if antePassed {
				dS.Add(dS, txFee)
			} else if tr.Code != 0 && tr.GasWanted != 0 {
				cls = "ante:" + errClass(o)
			}
			dSup := new(big.Int).Sub(o.minted, o.burnt)
			p.Emit(sb.op, fmt.Sprintf("cls=%s proof=%d dS=%s dSup=%s", cls, b01(has), dS.String(), dSup.String()))
			p.Count(cls)
			done++
			// oracle: whatever is stored must be signed by the key controlling the address
			if pr := vk.GetProofExternalOwnedAccount(after, accAddr); pr != nil {
				raw, err := hex.DecodeString(strings.TrimPrefix(pr.Signature, "0x"))
				okSig := false
				if err == nil {
					if pub, err := crypto.Ecrecover(msgHash, raw); err == nil {
						okSig = common.BytesToAddress(crypto.Keccak256(pub[1:])[12:]) == common.BytesToAddress(accAddr)
					}
				}
				if !okSig {
					p.Oracle("C16-forged-proof", "stored proof of %s does not carry a signature of that key: %s", accAddr, sb.op)
				}
			}
			if tr.Code != 0 && (dSup.Sign() != 0) {
				p.Oracle("C16-reject-burnt", "rejected submission changed the supply by %s: %s", dSup, sb.op)
			}
			if now := c.s.ChainApp.BankKeeper().GetAllBalances(after, vauthModule).String(); now != vauthHeld {
				p.Oracle("C16-burnt-more-than-the-fee", "the module account held %s before, %s after: %s", vauthHeld, now, sb.op)
				vauthHeld = now
			}
		}
	}
}

// accounts191Hash: keccak256("\x19Ethereum Signed Message:\n" + len(text) + text), the digest wallets sign for personal_sign
func accounts191Hash(text string) []byte {
	return crypto.Keccak256([]byte(fmt.Sprintf("\x19Ethereum Signed Message:\n%d%s", len(text), text)))
}
