package engines

import (
	"encoding/hex"
	"fmt"
	"sort"
	"strings"
	"testing"

	gethabi "github.com/ethereum/go-ethereum/accounts/abi"

	"github.com/EscanBE/evermint/v12/constants"
	cpcabi "github.com/EscanBE/evermint/v12/x/cpc/abi"
	cpctypes "github.com/EscanBE/evermint/v12/x/cpc/types"
)

// The method table of every registered custom precompile, introspected from a running app:
// selector, gas, ReadOnly flag, executor type, and the ABI-JSON method carrying that id.
func init() {
	runtimeFactProviders = append(runtimeFactProviders, func(t *testing.T) map[string]any {
		c := newChain(t)
		ctx := c.s.CurrentContext
		ck := c.s.ChainApp.CpcKeeper()
		// make sure all three kinds exist
		if ck.GetErc20CustomPrecompiledContractAddressByMinDenom(ctx, c.evmDenom) == nil {
			_, err := ck.DeployErc20CustomPrecompiledContract(ctx, "native", cpctypes.Erc20CustomPrecompiledContractMeta{Symbol: constants.SymbolDenom, Decimals: 18, MinDenom: c.evmDenom})
			if err != nil {
				t.Fatal(err)
			}
		}
		if !ck.HasCustomPrecompiledContract(ctx, cpctypes.CpcStakingFixedAddress) {
			if _, err := ck.DeployStakingCustomPrecompiledContract(ctx, cpctypes.StakingCustomPrecompiledContractMeta{Symbol: constants.SymbolDenom, Decimals: 18}); err != nil {
				t.Fatal(err)
			}
		}
		abis := map[uint32]gethabi.ABI{uint32(cpctypes.CpcTypeErc20): cpcabi.Erc20CpcInfo.ABI, uint32(cpctypes.CpcTypeStaking): cpcabi.StakingCpcInfo.ABI, uint32(cpctypes.CpcTypeBech32): cpcabi.Bech32CpcInfo.ABI}
		kind := map[uint32]string{uint32(cpctypes.CpcTypeErc20): "erc20", uint32(cpctypes.CpcTypeStaking): "staking", uint32(cpctypes.CpcTypeBech32): "bech32"}
		var rows []map[string]any
		seen := map[string]bool{}
		for _, contract := range ck.GetAllCustomPrecompiledContracts(ctx) {
			meta := contract.GetMetadata()
			k := kind[uint32(meta.CustomPrecompiledType)]
			if seen[k] {
				continue // one table per contract type
			}
			seen[k] = true
			ab := abis[uint32(meta.CustomPrecompiledType)]
			for _, ex := range contract.GetMethodExecutors() {
				sel := hex.EncodeToString(ex.Method4BytesSignatures())
				name, abiID := "", ""
				for _, m := range ab.Methods {
					if hex.EncodeToString(m.ID) == sel {
						name, abiID = m.Sig, hex.EncodeToString(m.ID)
					}
				}
				typ := strings.TrimPrefix(fmt.Sprintf("%T", ex), "*")
				typ = strings.TrimPrefix(typ, "keeper.")
				rows = append(rows, map[string]any{"contract": k, "selector": sel, "name": name, "gas": ex.RequireGas(), "readOnly": ex.ReadOnly(), "abiId": abiID, "executor": typ})
			}
		}
		sort.Slice(rows, func(i, j int) bool {
			a, b := rows[i], rows[j]
			if a["contract"].(string) != b["contract"].(string) {
				return a["contract"].(string) < b["contract"].(string)
			}
			return a["selector"].(string) < b["selector"].(string)
		})
		// number of ABI methods per contract type (every ABI method must have an executor and vice versa)
		out := map[string]any{"cpcMethods": rows}
		for ty, ab := range abis {
			out["nat:abiMethodCount_"+kind[ty]] = len(ab.Methods)
		}
		return out
	})
}
