package engines

import (
	"crypto/ecdsa"

	"bytes"
	"context"
	"encoding/hex"
	"encoding/json"
	"fmt"
	evclient "github.com/EscanBE/evermint/v12/client"
	cpcabi "github.com/EscanBE/evermint/v12/x/cpc/abi"
	cpceip712 "github.com/EscanBE/evermint/v12/x/cpc/eip712"
	sdkclient "github.com/cosmos/cosmos-sdk/client"
	"github.com/cosmos/cosmos-sdk/crypto/keyring"
	"github.com/ethereum/go-ethereum/common"
	cmath "github.com/ethereum/go-ethereum/common/math"
	"github.com/spf13/cobra"
	"io"
	"math/big"
	"os"
	"strings"
	"testing"

	sdkmath "cosmossdk.io/math"
	"github.com/btcsuite/btcd/btcec/v2"
	"github.com/cosmos/cosmos-sdk/codec"
	codectypes "github.com/cosmos/cosmos-sdk/codec/types"
	sdkhd "github.com/cosmos/cosmos-sdk/crypto/hd"
	cryptotypes "github.com/cosmos/cosmos-sdk/crypto/types"
	sdk "github.com/cosmos/cosmos-sdk/types"
	"github.com/cosmos/cosmos-sdk/types/tx/signing"
	"github.com/cosmos/cosmos-sdk/x/auth/migrations/legacytx"
	authsigning "github.com/cosmos/cosmos-sdk/x/auth/signing"
	banktypes "github.com/cosmos/cosmos-sdk/x/bank/types"
	disttypes "github.com/cosmos/cosmos-sdk/x/distribution/types"
	govv1 "github.com/cosmos/cosmos-sdk/x/gov/types/v1"
	stakingtypes "github.com/cosmos/cosmos-sdk/x/staking/types"
	"github.com/ethereum/go-ethereum/crypto"
	"github.com/ethereum/go-ethereum/signer/core/apitypes"
	"github.com/stretchr/testify/require"
	"github.com/tyler-smith/go-bip39"
	"golang.org/x/crypto/sha3"

	"github.com/EscanBE/evermint/v12/crypto/ethsecp256k1"
	evhd "github.com/EscanBE/evermint/v12/crypto/hd"
	"github.com/EscanBE/evermint/v12/ethereum/eip712"

	"verifharness/hx"
)

// E-crypto.
//  (a) Keccak-256 of the Lean model against go-ethereum's, on inputs of every length class around the rate.
//  (b) The EIP-712 rendering: generated JSON sign documents (well-formed ones and every malformation the
//      rendering code has a branch for) through the real `WrapTxToTypedData` + `TypedDataAndHash`; the Lean
//      model computes the digest of the same document — the two must agree, digest for digest, error for error.
//  (c) Real sign documents of registered messages (amino JSON and protobuf) through `GetEIP712BytesForMsg`;
//      the protobuf and the amino document of one transaction must give one digest; every single-field
//      perturbation (chain id, account number, sequence, fee amount / denom, gas, memo, each message field) must
//      change it; `PubKey.VerifySignature` must accept exactly (key, document) pairs that were signed — over the
//      plain bytes or over the EIP-712 rendering — and nothing perturbed in key, message or signature.
//  (d) Address = last 20 bytes of Keccak-256 of the uncompressed key (independent decompression + hash);
//      BIP-39/32/44 derivation against cosmos-sdk's own BIP-32 code and published vectors; key encodings round trip.
// (c) and (d) are tests (sampled, labelled so in DESIGN.md); (a) and (b) are the correspondence of the Lean model.

type jv struct {
	kind byte // N T F I X S A O
	n    int64
	s    string
	arr  []*jv
	keys []string
	vals []*jv
}

func jS(s string) *jv { return &jv{kind: 'S', s: s} }
func jO(kv ...any) *jv {
	o := &jv{kind: 'O'}
	for i := 0; i+1 < len(kv); i += 2 {
		o.keys = append(o.keys, kv[i].(string))
		o.vals = append(o.vals, kv[i+1].(*jv))
	}
	return o
}
func jA(xs ...*jv) *jv { return &jv{kind: 'A', arr: xs} }

func (v *jv) clone() *jv {
	c := *v
	c.arr = nil
	for _, x := range v.arr {
		c.arr = append(c.arr, x.clone())
	}
	c.keys = append([]string{}, v.keys...)
	c.vals = nil
	for _, x := range v.vals {
		c.vals = append(c.vals, x.clone())
	}
	return &c
}

func (v *jv) json(b *bytes.Buffer) {
	switch v.kind {
	case 'N':
		b.WriteString("null")
	case 'T':
		b.WriteString("true")
	case 'F':
		b.WriteString("false")
	case 'I':
		fmt.Fprintf(b, "%d", v.n)
	case 'X':
		fmt.Fprintf(b, "%d.5", v.n)
	case 'S':
		bz, _ := json.Marshal(v.s)
		b.Write(bz)
	case 'A':
		b.WriteByte('[')
		for i, x := range v.arr {
			if i > 0 {
				b.WriteByte(',')
			}
			x.json(b)
		}
		b.WriteByte(']')
	case 'O':
		b.WriteByte('{')
		for i, k := range v.keys {
			if i > 0 {
				b.WriteByte(',')
			}
			bz, _ := json.Marshal(k)
			b.Write(bz)
			b.WriteByte(':')
			v.vals[i].json(b)
		}
		b.WriteByte('}')
	}
}

func (v *jv) compact(b *strings.Builder) {
	switch v.kind {
	case 'N', 'T', 'F', 'X':
		b.WriteByte(v.kind)
	case 'I':
		fmt.Fprintf(b, "I%d", v.n)
	case 'S':
		b.WriteString("S" + hex.EncodeToString([]byte(v.s)))
	case 'A':
		fmt.Fprintf(b, "A%d", len(v.arr))
		for _, x := range v.arr {
			b.WriteByte(' ')
			x.compact(b)
		}
	case 'O':
		fmt.Fprintf(b, "O%d", len(v.keys))
		for i, k := range v.keys {
			b.WriteString(" S" + hex.EncodeToString([]byte(k)) + " ")
			v.vals[i].compact(b)
		}
	}
}

func (v *jv) get(k string) *jv {
	for i, x := range v.keys {
		if x == k {
			return v.vals[i]
		}
	}
	return nil
}
func (v *jv) set(k string, x *jv) {
	for i, y := range v.keys {
		if y == k {
			v.vals[i] = x
			return
		}
	}
	v.keys = append(v.keys, k)
	v.vals = append(v.vals, x)
}
func (v *jv) del(k string) {
	for i, y := range v.keys {
		if y == k {
			v.keys = append(v.keys[:i], v.keys[i+1:]...)
			v.vals = append(v.vals[:i], v.vals[i+1:]...)
			return
		}
	}
}

// fromJSON parses canonical JSON text into the tree (numbers: integers only, as produced by amino JSON)
func fromJSON(t *testing.T, bz []byte) *jv {
	dec := json.NewDecoder(bytes.NewReader(bz))
	dec.UseNumber()
	var rec func() *jv
	rec = func() *jv {
		tok, err := dec.Token()
		require.NoError(t, err)
		switch x := tok.(type) {
		case json.Delim:
			if x == '{' {
				o := &jv{kind: 'O'}
				for dec.More() {
					kt, err := dec.Token()
					require.NoError(t, err)
					o.keys = append(o.keys, kt.(string))
					o.vals = append(o.vals, rec())
				}
				_, _ = dec.Token()
				return o
			}
			a := &jv{kind: 'A'}
			for dec.More() {
				a.arr = append(a.arr, rec())
			}
			_, _ = dec.Token()
			return a
		case string:
			return jS(x)
		case json.Number:
			n, err := x.Int64()
			if err != nil {
				return &jv{kind: 'X'}
			}
			return &jv{kind: 'I', n: n}
		case bool:
			if x {
				return &jv{kind: 'T'}
			}
			return &jv{kind: 'F'}
		case nil:
			return &jv{kind: 'N'}
		}
		t.Fatalf("token %v", tok)
		return nil
	}
	return rec()
}

func TestEngineCrypto(t *testing.T) {
	seed := hx.Seed()
	n := hx.EnvInt("VERIF_N", 1500)
	r := hx.NewRng(seed ^ 0xc4197)
	p := hx.NewProto("crypto")
	defer p.Close()
	c := newChain(t) // installs the application's codecs into ethereum/eip712
	txCfg := c.s.EncodingConfig.TxConfig
	cdc := c.s.EncodingConfig.Codec

	randBytes := func(k int) []byte {
		b := make([]byte, k)
		for i := range b {
			b[i] = byte(r.U64())
		}
		return b
	}

	// ---------------------------------------------------------------- (a) keccak
	for _, l := range []int{0, 1, 31, 32, 33, 55, 64, 135, 136, 137, 271, 272, 273, 407, 408, 409} {
		in := randBytes(l)
		h := "-"
		if l > 0 {
			h = hex.EncodeToString(in)
		}
		p.Emit("keccak "+h, hex.EncodeToString(crypto.Keccak256(in)))
		p.Count("keccak")
	}
	for i := 0; i < n/10; i++ {
		in := randBytes(1 + r.Intn(700))
		p.Emit("keccak "+hex.EncodeToString(in), hex.EncodeToString(crypto.Keccak256(in)))
		p.Count("keccak")
	}

	// ---------------------------------------------------------------- (b) generated documents
	render := func(chainID uint64, doc *jv) string {
		var buf bytes.Buffer
		doc.json(&buf)
		out := "error"
		pv := hx.Catch(func() {
			td, err := eip712.WrapTxToTypedData(chainID, buf.Bytes())
			if err != nil {
				return
			}
			if len(td.Message) == 0 {
				return
			}
			h, _, err := apitypes.TypedDataAndHash(td)
			if err != nil {
				return
			}
			out = "ok " + hex.EncodeToString(h)
		})
		if pv != nil {
			out = "panic"
			p.Oracle("C20-eip712-panic", "WrapTxToTypedData / TypedDataAndHash panicked on %s: %v", buf.String(), pv)
		}
		return out
	}
	emitDoc := func(chainID uint64, doc *jv, class string) string {
		var sb strings.Builder
		doc.compact(&sb)
		out := render(chainID, doc)
		p.Emit(fmt.Sprintf("eip712 %d %s", chainID, sb.String()), out)
		p.Count("doc:" + class + ":" + strings.Fields(out)[0])
		return out
	}
	keyPool := []string{"amount", "denom", "from_address", "to_address", "a", "b_c", "value", "type", "inputs", "x1", "Coins", "option", "zz_top", "delegator_address", "k"}
	strPool := []string{"", "a", "evm1xyz", "100", "aevm", "x y", "é", "0x00", "-5", "+7", "0x", "0Xff", "0x-1", "18446744073709551615", "18446744073709551616", "1_0"}
	var genVal func(depth int) *jv
	genVal = func(depth int) *jv {
		k := r.Intn(20)
		switch {
		case k < 8 || depth <= 0:
			return jS(hx.Pick(r, strPool))
		case k < 10:
			return &jv{kind: 'I', n: int64(r.Intn(2000)) - 1000}
		case k == 10:
			return &jv{kind: "TF"[r.Intn(2)]}
		case k == 11:
			return &jv{kind: 'N'}
		case k == 12:
			return &jv{kind: 'X', n: int64(r.Intn(9))}
		case k < 16:
			a := &jv{kind: 'A'}
			m := r.Intn(4)
			if r.Chance(3, 4) && m > 0 { // homogeneous
				first := genVal(depth - 1)
				a.arr = append(a.arr, first)
				for i := 1; i < m; i++ {
					x := first.clone()
					if x.kind == 'S' {
						x.s = hx.Pick(r, strPool)
					}
					if x.kind == 'O' && len(x.vals) > 0 && r.Bool() {
						x.vals[0] = genVal(depth - 2)
					}
					a.arr = append(a.arr, x)
				}
			} else {
				for i := 0; i < m; i++ {
					a.arr = append(a.arr, genVal(depth-1))
				}
			}
			return a
		default:
			o := &jv{kind: 'O'}
			m := r.Intn(4)
			for i := 0; i < m; i++ {
				k := hx.Pick(r, keyPool)
				if o.get(k) == nil {
					o.set(k, genVal(depth-1))
				}
			}
			return o
		}
	}
	baseDoc := func(nmsgs int) *jv {
		msgs := &jv{kind: 'A'}
		for i := 0; i < nmsgs; i++ {
			val := &jv{kind: 'O'}
			for j, m := 0, 1+r.Intn(4); j < m; j++ {
				k := hx.Pick(r, keyPool)
				if val.get(k) == nil {
					val.set(k, genVal(3))
				}
			}
			msgs.arr = append(msgs.arr, jO("type", jS(hx.Pick(r, []string{"cosmos-sdk/MsgSend", "cosmos-sdk/MsgSend", "x/MsgFoo", "MsgBar", "a/b/Value"})), "value", val))
		}
		return jO("account_number", jS(fmt.Sprint(r.Intn(50))), "chain_id", jS("evermint_9000-1"),
			"fee", jO("amount", jA(jO("amount", jS(fmt.Sprint(r.Intn(100000))), "denom", jS("aevm"))), "gas", jS(fmt.Sprint(21000+r.Intn(100000)))),
			"memo", jS(hx.Pick(r, strPool)), "msgs", msgs, "sequence", jS(fmt.Sprint(r.Intn(1000))))
	}
	mutations := []string{"none", "none", "none", "drop-top", "extra-top", "null-top", "fee-extra", "fee-empty-amount", "msgs-not-array", "msg-not-object", "msg-type-missing",
		"msg-type-number", "msg-type-empty", "preexisting-msg0", "no-msgs", "empty-msgs", "memo-number", "sequence-number", "two-coins", "coin-extra", "top-not-object", "empty-value", "empty-key"}
	for i := 0; i < n; i++ {
		doc := baseDoc(1 + r.Intn(3))
		mut := hx.Pick(r, mutations)
		switch mut {
		case "drop-top":
			doc.del(hx.Pick(r, []string{"account_number", "chain_id", "fee", "memo", "sequence"}))
		case "extra-top":
			doc.set(hx.Pick(r, []string{"timeout_height", "zzz", "msg7"}), genVal(1))
		case "null-top":
			doc.set(hx.Pick(r, []string{"memo", "fee", "sequence"}), &jv{kind: 'N'})
		case "fee-extra":
			doc.get("fee").set(hx.Pick(r, []string{"payer", "granter"}), jS("evm1abc"))
		case "fee-empty-amount":
			doc.get("fee").set("amount", jA())
		case "msgs-not-array":
			doc.set("msgs", jO("type", jS("x/M")))
		case "msg-not-object":
			doc.get("msgs").arr[0] = jS("hello")
		case "msg-type-missing":
			doc.get("msgs").arr[0].del("type")
		case "msg-type-number":
			doc.get("msgs").arr[0].set("type", &jv{kind: 'I', n: 5})
		case "msg-type-empty":
			doc.get("msgs").arr[0].set("type", jS(""))
		case "preexisting-msg0":
			doc.set("msg0", jO("type", jS("x/M")))
		case "no-msgs":
			doc.del("msgs")
		case "empty-msgs":
			doc.set("msgs", jA())
		case "memo-number":
			doc.set("memo", &jv{kind: 'I', n: 7})
		case "sequence-number":
			doc.set("sequence", &jv{kind: 'I', n: int64(r.Intn(100))})
		case "two-coins":
			am := doc.get("fee").get("amount")
			am.arr = append(am.arr, jO("amount", jS("5"), "denom", jS("utwo")))
		case "coin-extra":
			doc.get("fee").get("amount").arr[0].set("extra", jS("1"))
		case "top-not-object":
			doc = jA(doc)
		case "empty-value":
			doc.get("msgs").arr[0].set("value", jO())
		case "empty-key":
			doc.get("msgs").arr[0].get("value").set("", jS("x"))
		}
		chainID := uint64(9000)
		if r.Chance(1, 6) {
			chainID = uint64(1 + r.Intn(100000))
		}
		emitDoc(chainID, doc, mut)
	}

	// the witness of `C19_numeric_string_collides` on the Go code: two different documents, one digest.  Neither is
	// the rendering of a transaction (arrays of a typed message are homogeneous); recorded in the histogram, not a violation.
	{
		mk := func(second *jv) *jv {
			d := baseDoc(1)
			d.get("msgs").arr[0] = jO("type", jS("x/MsgFoo"), "value", jO("k", jA(&jv{kind: 'I', n: 1}, second)))
			d.set("memo", jS("w"))
			d.set("account_number", jS("1"))
			d.set("sequence", jS("1"))
			d.set("fee", jO("amount", jA(), "gas", jS("1")))
			return d
		}
		o1 := emitDoc(9000, mk(&jv{kind: 'I', n: 16}), "witness")
		o2 := emitDoc(9000, mk(jS("0x10")), "witness")
		if o1 == o2 && strings.HasPrefix(o1, "ok ") {
			p.Count("witness:numeric-string-collides-on-the-go-code")
		} else {
			p.Count("witness:numeric-string-does-not-collide")
		}
	}

	// ---------------------------------------------------------------- (c) real sign documents
	a1 := sdk.AccAddress(c.wallets[1].GetEthAddress().Bytes())
	a2 := sdk.AccAddress(c.wallets[2].GetEthAddress().Bytes())
	vals, err := c.s.ChainApp.StakingKeeper().GetAllValidators(c.s.CurrentContext)
	require.NoError(t, err)
	coins := func(a int64) sdk.Coins { return sdk.NewCoins(sdk.NewCoin(c.evmDenom, sdkmath.NewInt(a))) }
	genMsgs := func() []sdk.Msg {
		var out []sdk.Msg
		for i, m := 0, 1+r.Intn(3); i < m; i++ {
			switch r.Intn(6) {
			case 0, 1:
				out = append(out, banktypes.NewMsgSend(a1, a2, coins(int64(1+r.Intn(1_000_000)))))
			case 2:
				out = append(out, stakingtypes.NewMsgDelegate(a1.String(), vals[r.Intn(len(vals))].OperatorAddress, sdk.NewCoin(c.evmDenom, sdkmath.NewInt(int64(1+r.Intn(9999))))))
			case 3:
				out = append(out, &disttypes.MsgWithdrawDelegatorReward{DelegatorAddress: a1.String(), ValidatorAddress: vals[r.Intn(len(vals))].OperatorAddress})
			case 4:
				out = append(out, govv1.NewMsgVote(a1, uint64(1+r.Intn(50)), govv1.VoteOption(1+r.Intn(4)), hx.Pick(r, []string{"", "meta"})))
			case 5:
				out = append(out, &banktypes.MsgMultiSend{Inputs: []banktypes.Input{{Address: a1.String(), Coins: coins(7)}}, Outputs: []banktypes.Output{{Address: a2.String(), Coins: coins(3)}, {Address: a1.String(), Coins: coins(4)}}})
			}
		}
		return out
	}
	type docSpec struct {
		chain       string
		accNum, seq uint64
		feeAmt      int64
		feeDenom    string
		gas         uint64
		memo        string
		msgs        []sdk.Msg
		// an optional second fee coin; the list is handed over in exactly this order (a transaction's fee coins need not be
		// sorted: Tx.ValidateBasic does not demand it and TxBuilder.SetFeeAmount keeps the order)
		fee2Amt   int64
		fee2Denom string
		fee2First bool
	}
	feeCoins := func(d docSpec) sdk.Coins {
		c1 := sdk.NewCoin(d.feeDenom, sdkmath.NewInt(d.feeAmt))
		if d.fee2Denom == "" || d.fee2Denom == d.feeDenom {
			return sdk.NewCoins(c1)
		}
		c2 := sdk.NewCoin(d.fee2Denom, sdkmath.NewInt(d.fee2Amt))
		if d.fee2First {
			return sdk.Coins{c2, c1}
		}
		return sdk.Coins{c1, c2}
	}
	aminoBytes := func(d docSpec) []byte {
		return legacytx.StdSignBytes(d.chain, d.accNum, d.seq, 0, legacytx.StdFee{Amount: feeCoins(d), Gas: d.gas}, d.msgs, d.memo)
	}
	protoBytes := func(d docSpec, pub cryptotypes.PubKey) []byte {
		b := txCfg.NewTxBuilder()
		require.NoError(t, b.SetMsgs(d.msgs...))
		b.SetMemo(d.memo)
		b.SetGasLimit(d.gas)
		b.SetFeeAmount(feeCoins(d))
		require.NoError(t, b.SetSignatures(signing.SignatureV2{PubKey: pub, Data: &signing.SingleSignatureData{SignMode: signing.SignMode_SIGN_MODE_DIRECT}, Sequence: d.seq}))
		bz, err := authsigning.GetSignBytesAdapter(c.s.CurrentContext, txCfg.SignModeHandler(), signing.SignMode_SIGN_MODE_DIRECT,
			authsigning.SignerData{Address: a1.String(), ChainID: d.chain, AccountNumber: d.accNum, Sequence: d.seq, PubKey: pub}, b.GetTx())
		require.NoError(t, err)
		return bz
	}
	digestOf := func(signBytes []byte) (string, []byte) {
		bz, err := eip712.GetEIP712BytesForMsg(signBytes)
		if err != nil {
			return "error", nil
		}
		return hex.EncodeToString(crypto.Keccak256(bz)), bz
	}
	priv1 := c.wallets[1].PrivateKey
	priv2 := c.wallets[2].PrivateKey
	pub1 := priv1.PubKey().(*ethsecp256k1.PubKey)
	pub2 := priv2.PubKey().(*ethsecp256k1.PubKey)
	nReal := n / 6
	for i := 0; i < nReal; i++ {
		d := docSpec{chain: "evermint_9000-1", accNum: uint64(r.Intn(100)), seq: uint64(r.Intn(1000)), feeAmt: int64(1 + r.Intn(1_000_000)), feeDenom: c.evmDenom,
			gas: uint64(21000 + r.Intn(900000)), memo: hx.Pick(r, []string{"", "hello", "memo with spaces"}), msgs: genMsgs()}
		if i%3 == 1 { // two fee coins, in either order
			d.fee2Denom, d.fee2Amt, d.fee2First = hx.Pick(r, []string{"utwo", "aaa", "zzz"}), int64(1+r.Intn(5000)), r.Bool()
			p.Count("real:two-fee-coins")
		}
		am := aminoBytes(d)
		dgA, eipBytes := digestOf(am)
		// the same document through the Lean model (layer 1 on the canonical JSON)
		tree := fromJSON(t, am)
		out := emitDoc(9000, tree, "real")
		{ // every real sign document must satisfy the hypotheses of the injectivity theorem (canonical, members listed once, well typed by its own schema)
			var sb strings.Builder
			tree.compact(&sb)
			p.Emit("docok 9000 "+sb.String(), "1")
			p.Count("docok")
		}
		if dgA == "error" || out != "ok "+dgA {
			p.Oracle("C19-signdoc-digest-differs", "GetEIP712BytesForMsg(amino) = %s, WrapTxToTypedData on the same JSON = %s; doc=%s", dgA, out, am)
			continue
		}
		pb := protoBytes(d, pub1)
		dgP, _ := digestOf(pb)
		if dgP != dgA {
			p.Oracle("C19-proto-amino-digest-differs", "protobuf sign doc digest %s, amino %s; doc=%s", dgP, dgA, am)
		}
		p.Count("real:ok")
		if i%4 == 2 {
			// a DIRECT-mode document with a fee payer: two signer infos.  The payer's sequence is part of what is signed; if such a
			// document is rendered at all, two documents differing in that sequence only must not render alike
			withPayer := func(paySeq uint64) []byte {
				b := txCfg.NewTxBuilder()
				require.NoError(t, b.SetMsgs(d.msgs...))
				b.SetMemo(d.memo)
				b.SetGasLimit(d.gas)
				b.SetFeeAmount(feeCoins(d))
				b.SetFeePayer(a2)
				require.NoError(t, b.SetSignatures(
					signing.SignatureV2{PubKey: pub1, Data: &signing.SingleSignatureData{SignMode: signing.SignMode_SIGN_MODE_DIRECT}, Sequence: d.seq},
					signing.SignatureV2{PubKey: pub2, Data: &signing.SingleSignatureData{SignMode: signing.SignMode_SIGN_MODE_DIRECT}, Sequence: paySeq}))
				bz, err := authsigning.GetSignBytesAdapter(c.s.CurrentContext, txCfg.SignModeHandler(), signing.SignMode_SIGN_MODE_DIRECT,
					authsigning.SignerData{Address: a2.String(), ChainID: d.chain, AccountNumber: d.accNum + 1, Sequence: paySeq, PubKey: pub2}, b.GetTx())
				if err != nil {
					return nil
				}
				return bz
			}
			dA, dB := withPayer(7), withPayer(8)
			if dA != nil && dB != nil {
				gA, _ := digestOf(dA)
				gB, _ := digestOf(dB)
				p.Count("fee-payer-doc:rendered=" + fmt.Sprint(gA != "error"))
				if gA != "error" && gA == gB {
					p.Oracle("C19-eip712-collision", "two DIRECT-mode sign documents with a fee payer that differ only in the payer's sequence (7 / 8) have the same EIP-712 rendering %s", gA)
				}
				sigPay, _ := priv2.Sign(dA)
				if gA != "error" && !bytes.Equal(dA, dB) && pub2.VerifySignature(dB, sigPay) {
					p.Oracle("C19-signature-accepts-other-message", "the fee payer's signature for sequence 7 verifies for the document with sequence 8")
				}
			}
		}
		// ---- single-field perturbations must change the digest
		perturb := []struct {
			name string
			f    func(d *docSpec)
		}{
			{"chain-epoch", func(d *docSpec) { d.chain = "evermint_9001-1" }},
			{"chain-revision", func(d *docSpec) { d.chain = "evermint_9000-2" }},
			{"account-number", func(d *docSpec) { d.accNum++ }},
			{"sequence", func(d *docSpec) { d.seq++ }},
			{"fee-amount", func(d *docSpec) { d.feeAmt++ }},
			{"fee-denom", func(d *docSpec) {
				if d.fee2Denom == "utwo" {
					d.feeDenom = "uthree"
				} else {
					d.feeDenom = "utwo"
				}
			}},
			{"fee-coin-order", func(d *docSpec) { // the fee is a list: the same coins in another order are another document
				if d.fee2Denom == "" {
					d.feeAmt += 2
				} else {
					d.fee2First = !d.fee2First
				}
			}},
			{"fee-second-coin", func(d *docSpec) {
				if d.fee2Denom == "" {
					d.fee2Denom, d.fee2Amt = "utwo", 7
				} else {
					d.fee2Amt++
				}
			}},
			{"gas", func(d *docSpec) { d.gas++ }},
			{"memo", func(d *docSpec) { d.memo += "x" }},
			{"memo-trailing-space", func(d *docSpec) { d.memo += " " }},
			{"memo-leading-space", func(d *docSpec) { d.memo = " " + d.memo }},
			{"memo-case", func(d *docSpec) {
				if d.memo == strings.ToUpper(d.memo) {
					d.memo += "A"
				} else {
					d.memo = strings.ToUpper(d.memo)
				}
			}},
			{"msg-field", func(d *docSpec) {
				ms := append([]sdk.Msg{}, d.msgs...)
				k := r.Intn(len(ms))
				switch m := ms[k].(type) {
				case *banktypes.MsgSend:
					cp := *m
					switch r.Intn(3) {
					case 0:
						cp.Amount = cp.Amount.Add(sdk.NewCoin(c.evmDenom, sdkmath.NewInt(1)))
					case 1:
						cp.ToAddress = a1.String()
					default:
						cp.Amount = sdk.NewCoins(sdk.NewCoin("utwo", cp.Amount[0].Amount))
					}
					ms[k] = &cp
				case *stakingtypes.MsgDelegate:
					cp := *m
					if r.Bool() {
						cp.Amount = cp.Amount.AddAmount(sdkmath.NewInt(1))
					} else {
						nv := vals[r.Intn(len(vals))].OperatorAddress
						for nv == cp.ValidatorAddress {
							nv = vals[r.Intn(len(vals))].OperatorAddress
						}
						cp.ValidatorAddress = nv
					}
					ms[k] = &cp
				case *disttypes.MsgWithdrawDelegatorReward:
					cp := *m
					nv := vals[r.Intn(len(vals))].OperatorAddress
					for nv == cp.ValidatorAddress {
						nv = vals[r.Intn(len(vals))].OperatorAddress
					}
					cp.ValidatorAddress = nv
					ms[k] = &cp
				case *govv1.MsgVote:
					cp := *m
					switch r.Intn(3) {
					case 0:
						cp.ProposalId++
					case 1:
						cp.Option = govv1.VoteOption(1 + (int(cp.Option) % 4))
					default:
						cp.Metadata += "!"
					}
					ms[k] = &cp
				case *banktypes.MsgMultiSend:
					cp := *m
					cp.Outputs = []banktypes.Output{{Address: a2.String(), Coins: coins(4)}, {Address: a1.String(), Coins: coins(3)}}
					ms[k] = &cp
				}
				d.msgs = ms
			}},
			{"msg-order", func(d *docSpec) {
				if len(d.msgs) < 2 {
					d.memo += "y"
					return
				}
				ms := append([]sdk.Msg{}, d.msgs...)
				ms[0], ms[1] = ms[1], ms[0]
				if bytes.Equal(aminoBytes(docSpec{msgs: ms, feeDenom: c.evmDenom, feeAmt: 1}), aminoBytes(docSpec{msgs: d.msgs, feeDenom: c.evmDenom, feeAmt: 1})) {
					d.memo += "y" // identical messages: swap is the identity
				}
				d.msgs = ms
			}},
			{"msg-dropped", func(d *docSpec) {
				if len(d.msgs) < 2 {
					d.memo += "z"
					return
				}
				d.msgs = d.msgs[:len(d.msgs)-1]
			}},
		}
		sigE, err := priv1.Sign(eipBytes) // signature over the EIP-712 rendering
		require.NoError(t, err)
		sigP, err := priv1.Sign(am) // signature over the plain sign bytes
		require.NoError(t, err)
		for _, pt := range perturb {
			d2 := d
			pt.f(&d2)
			am2 := aminoBytes(d2)
			dg2, _ := digestOf(am2)
			p.Count("perturb:" + pt.name)
			if dg2 == dgA {
				p.Oracle("C19-eip712-collision", "perturbation %s leaves the EIP-712 digest unchanged: %s vs %s", pt.name, am, am2)
			}
			if pub1.VerifySignature(am2, sigE) || pub1.VerifySignature(am2, sigP) || pub1.VerifySignature(am2, sigE[:64]) {
				p.Oracle("C19-signature-accepts-other-message", "a signature for %s verifies for %s (perturbation %s)", am, am2, pt.name)
			}
			pb2 := protoBytes(d2, pub1)
			if pub1.VerifySignature(pb2, sigE) || pub1.VerifySignature(pb2, sigP) {
				p.Oracle("C19-signature-accepts-other-message", "a signature for %s verifies for the protobuf document of %s (perturbation %s)", am, am2, pt.name)
			}
			if dgP2, _ := digestOf(pb2); dgP2 == dgA || dgP2 != dg2 {
				p.Oracle("C19-eip712-collision", "perturbation %s: the protobuf sign document renders to %s, the amino one to %s, the unperturbed one to %s", pt.name, dgP2, dg2, dgA)
			}
			// C06: sequence, account number and chain id are what make a signed Cosmos transaction single-use on one chain; a
			// signature made for the document must not authorise the same body at another sequence / account / chain,
			// in either sign mode (the node verifies DIRECT-mode documents of eth_secp256k1 accounts through the same rendering)
			if pt.name == "sequence" || pt.name == "account-number" || pt.name == "chain-epoch" || pt.name == "chain-revision" {
				dgP2, _ := digestOf(pb2)
				if dgP2 == dgP || dg2 == dgA || pub1.VerifySignature(pb2, sigE) || pub1.VerifySignature(am2, sigE) || pub1.VerifySignature(pb2, sigP) || pub1.VerifySignature(am2, sigP) {
					p.Oracle("C06-signed-cosmos-tx-replayable", "perturbation %s: the signature (or EIP-712 rendering) of %s also stands for %s (protobuf digests %s / %s)", pt.name, am, am2, dgP, dgP2)
				}
				p.Count("replay-binding:" + pt.name)
			}
		}
		// ---- what must verify
		must := []struct {
			name string
			ok   bool
		}{
			{"eip712-sig/amino-doc/65", pub1.VerifySignature(am, sigE)},
			{"eip712-sig/amino-doc/64", pub1.VerifySignature(am, sigE[:64])},
			{"eip712-sig/proto-doc", pub1.VerifySignature(pb, sigE)},
			{"plain-sig/amino-doc", pub1.VerifySignature(am, sigP)},
		}
		for _, m := range must {
			if !m.ok {
				p.Oracle("C19-valid-signature-rejected", "%s does not verify; doc=%s", m.name, am)
			}
		}
		// ---- what must not: other key, perturbed signature, plain signature of another document form
		bad := false
		bad = bad || pub2.VerifySignature(am, sigE) || pub2.VerifySignature(am, sigP)
		for k := 0; k < 6; k++ {
			s2 := append([]byte{}, sigE...)
			s2[r.Intn(64)] ^= 1 << uint(r.Intn(8))
			bad = bad || pub1.VerifySignature(am, s2) || pub1.VerifySignature(pb, s2)
			s3 := append([]byte{}, sigP...)
			s3[r.Intn(64)] ^= 1 << uint(r.Intn(8))
			bad = bad || pub1.VerifySignature(am, s3)
		}
		bad = bad || pub1.VerifySignature(am, sigE[:63]) || pub1.VerifySignature(am, append(append([]byte{}, sigE...), 0)) || pub1.VerifySignature(am, nil)
		bad = bad || pub1.VerifySignature(pb, sigP) // the plain signature was made over the amino bytes, not over the protobuf bytes
		// malleability: (r, n - s) is the other ECDSA solution; go-ethereum's verifier rejects high s
		{
			nn := crypto.S256().Params().N
			s := new(big.Int).SetBytes(sigE[32:64])
			hs := new(big.Int).Sub(nn, s)
			s4 := append(append([]byte{}, sigE[:32]...), common32(hs)...)
			bad = bad || pub1.VerifySignature(am, s4)
		}
		if bad {
			p.Oracle("C19-signature-accepts-other-key-or-signature", "a perturbed key or signature verifies; doc=%s", am)
		}
		p.Count("verify")
	}

	// ---------------------------------------------------------------- (d) addresses, derivation, encodings
	for i := 0; i < n/10; i++ {
		k, err := ethsecp256k1.GenerateKey()
		require.NoError(t, err)
		pub := k.PubKey().(*ethsecp256k1.PubKey)
		// independent: decompress with btcec, hash with x/crypto sha3
		pk, err := btcec.ParsePubKey(pub.Key)
		require.NoError(t, err)
		un := pk.SerializeUncompressed()
		h := sha3.NewLegacyKeccak256()
		h.Write(un[1:])
		want := h.Sum(nil)[12:]
		p.Emit("keccak "+hex.EncodeToString(un[1:]), hex.EncodeToString(crypto.Keccak256(un[1:])))
		if !bytes.Equal(pub.Address().Bytes(), want) || len(pub.Key) != 33 {
			p.Oracle("C19-address", "address %x, want %x for key %x", pub.Address().Bytes(), want, pub.Key)
		}
		p.Count("address")
		// encodings round trip
		amino := c.s.EncodingConfig.Amino
		bz, err := amino.Marshal(pub)
		require.NoError(t, err)
		var back cryptotypes.PubKey
		if err := amino.Unmarshal(bz, &back); err != nil || !back.Equals(pub) {
			p.Oracle("C19-encoding-roundtrip", "amino pubkey round trip: %v", err)
		}
		jb, err := amino.MarshalJSON(k)
		require.NoError(t, err)
		var kb cryptotypes.PrivKey
		if err := amino.UnmarshalJSON(jb, &kb); err != nil || !kb.Equals(k) {
			p.Oracle("C19-encoding-roundtrip", "amino JSON privkey round trip: %v", err)
		}
		any, err := codectypes.NewAnyWithValue(pub)
		require.NoError(t, err)
		abz, err := cdc.(*codec.ProtoCodec).Marshal(any)
		require.NoError(t, err)
		var any2 codectypes.Any
		require.NoError(t, cdc.(*codec.ProtoCodec).Unmarshal(abz, &any2))
		var back2 cryptotypes.PubKey
		if err := cdc.UnpackAny(&any2, &back2); err != nil || !back2.Equals(pub) {
			p.Oracle("C19-encoding-roundtrip", "protobuf Any pubkey round trip: %v", err)
		}
		var bad1 ethsecp256k1.PubKey
		var bad2 ethsecp256k1.PrivKey
		if bad1.UnmarshalAmino(pub.Key[:32]) == nil || bad1.UnmarshalAmino(append(append([]byte{}, pub.Key...), 1)) == nil || bad2.UnmarshalAmino(k.Key[:31]) == nil {
			p.Oracle("C19-encoding-roundtrip", "a key of the wrong size is accepted")
		}
		p.Count("encoding")
	}
	// the typed messages of the staking precompile (x/cpc/eip712, x/cpc/abi): digest against an independent construction,
	// honest signature verifies, every single-field perturbation (amounts differing by 2^64 included) changes the digest
	for i := 0; i < n/10; i++ {
		signer := c.wallets[1+r.Intn(3)]
		key, _ := signer.PrivateKey.ToECDSA()
		amount := new(big.Int).Add(r.BigBits(8+r.Intn(240)), big.NewInt(1))
		action := hx.Pick(r, []string{"Delegate", "Undelegate", "Redelegate"})
		old := "-"
		if action == "Redelegate" {
			old = vals[r.Intn(len(vals))].OperatorAddress
		}
		msg := cpcabi.StakingMessage{Action: action, Delegator: signer.GetEthAddress(), Validator: vals[r.Intn(len(vals))].OperatorAddress, Amount: amount, Denom: c.evmDenom, OldValidator: old}
		fields := []apitypes.Type{{Name: "action", Type: "string"}, {Name: "delegator", Type: "address"}, {Name: "validator", Type: "string"}, {Name: "amount", Type: "uint256"}, {Name: "denom", Type: "string"}, {Name: "oldValidator", Type: "string"}}
		indep := func(m cpcabi.StakingMessage, chainID *big.Int) []byte {
			return stakingTypedDigest("StakingMessage", fields, apitypes.TypedDataMessage{"action": m.Action, "delegator": m.Delegator.String(), "validator": m.Validator, "amount": (*cmath.HexOrDecimal256)(m.Amount), "denom": m.Denom, "oldValidator": m.OldValidator}, chainID)
		}
		want := indep(msg, c.chainID)
		got, err := cpceip712.EIP712HashingTypedMessage(&msg, c.chainID)
		if err != nil || !bytes.Equal(got, want) {
			p.Oracle("C19-cpc-typed-digest", "StakingMessage amount=%s: x/cpc digest %x (%v), independent EIP-712 digest %x", amount, got, err, want)
		}
		{ // the domain binds the chain id as a uint256: every EIP-155 id a chain can have (x/evm keeps it as a 64-bit number,
			// the typed-data domain takes any), also beyond the int64 range
			two := func(k uint) *big.Int { return new(big.Int).Lsh(big.NewInt(1), k) }
			cid := hx.Pick(r, []*big.Int{big.NewInt(1), big.NewInt(9001), new(big.Int).Sub(two(63), big.NewInt(1)), two(63), new(big.Int).Add(two(63), big.NewInt(90909)),
				new(big.Int).Sub(two(64), big.NewInt(1)), new(big.Int).Add(two(64), big.NewInt(7)), new(big.Int).Add(two(200), big.NewInt(5))})
			wantC := indep(msg, cid)
			gotC, errC := cpceip712.EIP712HashingTypedMessage(&msg, cid)
			sigC, _ := crypto.Sign(wantC, key)
			var rc, sc [32]byte
			copy(rc[:], sigC[:32])
			copy(sc[:], sigC[32:64])
			okC, _, errV := cpceip712.VerifySignature(signer.GetEthAddress(), &msg, rc, sc, sigC[64], cid)
			p.Count(fmt.Sprintf("cpc-typed-chain-id:bits=%d", cid.BitLen()))
			if errC != nil || !bytes.Equal(gotC, wantC) || !okC || errV != nil {
				p.Oracle("C11-typed-message-chain-id", "chain id %s: x/cpc digest %x (%v), independent EIP-712 digest %x; honest signature for that chain verifies=%v (%v)", cid, gotC, errC, wantC, okC, errV)
			}
			if bytes.Equal(gotC, got) && cid.Cmp(c.chainID) != 0 {
				p.Oracle("C11-typed-message-chain-id", "chain id %s and %s give the same StakingMessage digest", cid, c.chainID)
			}
		}
		sig, _ := crypto.Sign(want, key)
		var rr, ss [32]byte
		copy(rr[:], sig[:32])
		copy(ss[:], sig[32:64])
		if ok, _, err := cpceip712.VerifySignature(signer.GetEthAddress(), &msg, rr, ss, sig[64], c.chainID); err != nil || !ok {
			p.Oracle("C19-valid-signature-rejected", "x/cpc VerifySignature rejects an honest signature over StakingMessage amount=%s (%v)", amount, err)
		}
		perturbed := []cpcabi.StakingMessage{msg, msg, msg, msg, msg, msg}
		perturbed[0].Amount = new(big.Int).Add(amount, new(big.Int).Lsh(big.NewInt(1), 64))
		perturbed[1].Amount = new(big.Int).Add(amount, big.NewInt(1))
		perturbed[2].Validator = vals[(r.Intn(len(vals)-1)+1)%len(vals)].OperatorAddress + "x"
		perturbed[3].Denom = "utwo"
		perturbed[4].Action = map[string]string{"Delegate": "Undelegate", "Undelegate": "Delegate", "Redelegate": "Delegate"}[action]
		perturbed[5].Delegator = c.wallets[4].GetEthAddress()
		for j, pm := range perturbed {
			pm := pm
			d2, err := cpceip712.EIP712HashingTypedMessage(&pm, c.chainID)
			if err == nil && bytes.Equal(d2, got) {
				p.Oracle("C19-eip712-collision", "StakingMessage perturbation %d leaves the x/cpc digest unchanged (amount %s vs %s)", j, amount, pm.Amount)
			}
			if ok, _, _ := cpceip712.VerifySignature(signer.GetEthAddress(), &pm, rr, ss, sig[64], c.chainID); ok {
				p.Oracle("C19-signature-accepts-other-message", "x/cpc VerifySignature accepts a signature for another StakingMessage (perturbation %d, amount %s vs %s)", j, amount, pm.Amount)
			}
		}
		if ok, _, _ := cpceip712.VerifySignature(signer.GetEthAddress(), &msg, rr, ss, sig[64], new(big.Int).Add(c.chainID, big.NewInt(1))); ok {
			p.Oracle("C19-signature-accepts-other-message", "x/cpc VerifySignature accepts a signature for another chain id")
		}
		p.Count("cpc-typed")
	}
	// the key export / import commands (`keys unsafe-export-eth-key`, `keys unsafe-import-eth-key`): what is exported is
	// the hex of the 32 key bytes and imports back to the same key — also for a key whose first byte is zero
	{
		kr := keyring.NewInMemory(cdc, evhd.MultiSecp256k1Option())
		runCmd := func(cmd *cobra.Command, stdin string, args ...string) (string, error) {
			clientCtx := sdkclient.Context{}.WithKeyring(kr).WithCodec(cdc)
			cctx := context.WithValue(context.Background(), sdkclient.ClientContextKey, &clientCtx)
			cmd.SetArgs(args)
			cmd.SetIn(strings.NewReader(stdin))
			cmd.SetOut(io.Discard)
			cmd.SetErr(io.Discard)
			orig := os.Stdout
			rd, wr, err := os.Pipe()
			require.NoError(t, err)
			os.Stdout = wr
			done := make(chan string)
			go func() {
				var buf bytes.Buffer
				_, _ = io.Copy(&buf, rd)
				done <- buf.String()
			}()
			errExec := cmd.ExecuteContext(cctx)
			_ = wr.Close()
			os.Stdout = orig
			return <-done, errExec
		}
		type kcase struct{ name, mnemonic, path string }
		cases := []kcase{{"lead0", "picnic rent average infant boat squirrel federal assault mercy purity very motor fossil wheel verify upset box fresh horse vivid copy predict square regret", "m/44'/60'/0'/0/0"}}
		for i := 0; i < 4; i++ {
			mn, _ := bip39.NewMnemonic(randBytes(16))
			cases = append(cases, kcase{fmt.Sprintf("k%d", i), mn, fmt.Sprintf("m/44'/60'/0'/0/%d", r.Intn(5))})
		}
		for _, kc := range cases {
			rec, err := kr.NewAccount(kc.name, kc.mnemonic, keyring.DefaultBIP39Passphrase, kc.path, evhd.EthSecp256k1)
			require.NoError(t, err)
			pub, err := rec.GetPubKey()
			require.NoError(t, err)
			priv, err := evhd.EthSecp256k1.Derive()(kc.mnemonic, keyring.DefaultBIP39Passphrase, kc.path)
			require.NoError(t, err)
			want := strings.ToUpper(hex.EncodeToString(priv))
			out, err := runCmd(evclient.UnsafeExportEthKeyCommand(), "", kc.name)
			exported := strings.TrimSpace(out)
			_, errImp := runCmd(evclient.UnsafeImportKeyCommand(), "password1\npassword1\n", kc.name+"-again", exported)
			same := false
			if errImp == nil {
				if rec2, err := kr.Key(kc.name + "-again"); err == nil {
					if pub2, err := rec2.GetPubKey(); err == nil && pub2 != nil {
						same = bytes.Equal(pub2.Bytes(), pub.Bytes())
					}
				}
			}
			p.Count("key-export-import")
			if err != nil || !strings.EqualFold(exported, want) || errImp != nil || !same {
				p.Oracle("C19-encoding-roundtrip", "key %s (first byte %02x): export err=%v printed %d hex digits (want 64, equal=%v), import err=%v, same key after import=%v", kc.name, priv[0], err, len(exported), strings.EqualFold(exported, want), errImp, same)
			}
		}
	}
	// `keys add` (the command that creates / recovers a key from a mnemonic): the key it stores is the BIP-39 / BIP-44 key of
	// (mnemonic, passphrase, m/44'/60'/account'/0/index) — with the flags --account / --index, with an explicit --hd-path,
	// and with the passphrase typed at the --interactive prompt
	{
		devMn := "test test test test test test test test test test test junk"
		for j := 0; j < 10; j++ {
			kr := keyring.NewInMemory(cdc, evhd.MultiSecp256k1Option())
			mn := devMn
			if j >= 3 {
				mn, _ = bip39.NewMnemonic(randBytes(16))
			}
			acct, idx := uint32(hx.Pick(r, []int{0, 0, 1, 2, 5})), uint32(hx.Pick(r, []int{0, 1, 1, 3, 7}))
			if j == 0 {
				acct, idx = 0, 1 // the second address of every dev wallet
			}
			if j == 1 {
				acct, idx = 2, 0
			}
			pass := hx.Pick(r, []string{"", "", "correct horse battery staple", "x"})
			interactive := pass != "" || r.Chance(1, 3)
			if j == 0 || j == 1 {
				pass, interactive = "", false // (j = 0 is compared with the published address of the dev mnemonic: no passphrase)
			}
			if j == 2 {
				pass, interactive = "correct horse battery staple", true
			}
			path := fmt.Sprintf("m/44'/60'/%d'/0/%d", acct, idx)
			args := []string{"add", fmt.Sprintf("ka%d", j), "--recover", "--coin-type", "60"}
			if r.Chance(1, 4) && j > 2 {
				args = append(args, "--hd-path", path)
			} else {
				args = append(args, "--account", fmt.Sprint(acct), "--index", fmt.Sprint(idx))
			}
			stdin := mn + "\n"
			if interactive {
				args = append(args, "--interactive")
				stdin += pass + "\n"
				if pass != "" {
					stdin += pass + "\n"
				}
			}
			cmd := evclient.KeyCommands(t.TempDir())
			clientCtx := sdkclient.Context{}.WithKeyring(kr).WithCodec(cdc).WithInput(strings.NewReader(stdin))
			cctx := context.WithValue(context.Background(), sdkclient.ClientContextKey, &clientCtx)
			cmd.SetArgs(args)
			cmd.SetIn(strings.NewReader(stdin))
			cmd.SetOut(io.Discard)
			cmd.SetErr(io.Discard)
			errRun := cmd.ExecuteContext(cctx)
			wantPriv, errD := evhd.EthSecp256k1.Derive()(mn, pass, path)
			require.NoError(t, errD)
			wantAddr := crypto.PubkeyToAddress(mustECDSA(t, wantPriv).PublicKey)
			got := "none"
			if rec, err := kr.Key(fmt.Sprintf("ka%d", j)); err == nil {
				if pk, err := rec.GetPubKey(); err == nil && pk != nil {
					got = common.BytesToAddress(pk.Address().Bytes()).Hex()
				}
			}
			p.Count("keys-add")
			if interactive && pass != "" {
				p.Count("keys-add:passphrase")
			}
			if acct != idx {
				p.Count("keys-add:account!=index")
			}
			if errRun != nil || got != wantAddr.Hex() {
				p.Oracle("C19-derivation", "keys add %v (passphrase %q): stored key has address %s, BIP-39/44 gives %s for %s (err=%v)", args[1:], pass, got, wantAddr.Hex(), path, errRun)
			}
			if j == 0 && wantAddr.Hex() != "0x70997970C51812dc3A010C7d01b50e0d17dc79C8" {
				p.Oracle("C19-derivation", "reference derivation of the dev mnemonic at index 1 is %s", wantAddr.Hex())
			}
		}
	}
	// published vectors: the mnemonic every Ethereum dev tool ships with
	{
		const mn = "test test test test test test test test test test test junk"
		for path, want := range map[string]string{
			"m/44'/60'/0'/0/0": "f39fd6e51aad88f6f4ce6ab8827279cfffb92266",
			"m/44'/60'/0'/0/1": "70997970c51812dc3a010c7d01b50e0d17dc79c8",
			"m/44'/60'/0'/0/2": "3c44cdddb6a900fa2b585dd299e03d12fa4293bc",
		} {
			bz, err := evhd.EthSecp256k1.Derive()(mn, "", path)
			require.NoError(t, err)
			got := hex.EncodeToString(evhd.EthSecp256k1.Generate()(bz).PubKey().Address().Bytes())
			if got != want {
				p.Oracle("C19-derivation", "path %s derives %s, every Ethereum wallet derives %s", path, got, want)
			}
			p.Count("derivation:vector")
		}
	}
	for i := 0; i < n/15; i++ {
		ent := randBytes([]int{16, 20, 24, 28, 32}[r.Intn(5)])
		mn, err := bip39.NewMnemonic(ent)
		require.NoError(t, err)
		pass := hx.Pick(r, []string{"", "", "TREZOR", "pass phrase"})
		var parts []string
		for j, m := 0, 1+r.Intn(6); j < m; j++ {
			x := fmt.Sprint(r.Intn(1 << 20))
			if r.Bool() {
				x += "'"
			}
			parts = append(parts, x)
		}
		path := "m/" + strings.Join(parts, "/")
		if r.Chance(1, 2) {
			path = fmt.Sprintf("m/44'/60'/%d'/0/%d", r.Intn(5), r.Intn(20))
		}
		got, err := evhd.EthSecp256k1.Derive()(mn, pass, path)
		// independent: cosmos-sdk's own BIP-32 implementation over the same BIP-39 seed
		seed2 := bip39.NewSeed(mn, pass)
		master, ch := sdkhd.ComputeMastersFromSeed(seed2)
		want, err2 := sdkhd.DerivePrivateKeyForPath(master, ch, path)
		if (err == nil) != (err2 == nil) || (err == nil && !bytes.Equal(got, want)) {
			p.Oracle("C19-derivation", "mnemonic %q pass %q path %s: evermint %x (%v), cosmos-sdk BIP-32 %x (%v)", mn, pass, path, got, err, want, err2)
		}
		p.Count("derivation:random")
	}
	// directed: mnemonics whose private key at a hardened level of the Ethereum path (m/44', m/44'/60', m/44'/60'/0')
	// begins with a zero byte — the case in which a derivation that does not left-pad the parent key to 32 bytes
	// (btcutil's DeriveNonStandard, old BIP-32 libraries) yields another child than every standard wallet
	found := 0
	for try := 0; try < 4000 && found < 3; try++ {
		ent := randBytes(16)
		mn, err := bip39.NewMnemonic(ent)
		require.NoError(t, err)
		seed2 := bip39.NewSeed(mn, "")
		master, ch := sdkhd.ComputeMastersFromSeed(seed2)
		lead := false
		for _, pre := range []string{"m/44'", "m/44'/60'", "m/44'/60'/0'"} {
			k, e := sdkhd.DerivePrivateKeyForPath(master, ch, pre)
			if e == nil && k[0] == 0 {
				lead = true
			}
		}
		if !lead {
			continue
		}
		found++
		path := "m/44'/60'/0'/0/0"
		got, err := evhd.EthSecp256k1.Derive()(mn, "", path)
		want, err2 := sdkhd.DerivePrivateKeyForPath(master, ch, path)
		if (err == nil) != (err2 == nil) || (err == nil && !bytes.Equal(got, want)) {
			p.Oracle("C19-derivation", "mnemonic %q (an intermediate hardened key begins with a zero byte) path %s: evermint %x (%v), BIP-32 %x (%v)", mn, path, got, err, want, err2)
		}
		p.Count("derivation:leading-zero-parent")
	}
}

func common32(x *big.Int) []byte {
	b := x.Bytes()
	return append(make([]byte, 32-len(b)), b...)
}

func mustECDSA(t *testing.T, priv []byte) *ecdsa.PrivateKey {
	k, err := crypto.ToECDSA(priv)
	require.NoError(t, err)
	return k
}
