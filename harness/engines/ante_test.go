package engines

import (
	"encoding/hex"
	"fmt"
	"math"
	"math/big"
	"sort"
	"strings"
	"testing"
	"time"

	errorsmod "cosmossdk.io/errors"
	sdkmath "cosmossdk.io/math"
	"errors"
	abci "github.com/cometbft/cometbft/abci/types"
	codectypes "github.com/cosmos/cosmos-sdk/codec/types"
	sdk "github.com/cosmos/cosmos-sdk/types"
	sdkerrors "github.com/cosmos/cosmos-sdk/types/errors"
	sdktx "github.com/cosmos/cosmos-sdk/types/tx"
	"github.com/cosmos/cosmos-sdk/types/tx/signing"
	authtx "github.com/cosmos/cosmos-sdk/x/auth/tx"
	vestingtypes "github.com/cosmos/cosmos-sdk/x/auth/vesting/types"
	"github.com/cosmos/cosmos-sdk/x/authz"
	banktypes "github.com/cosmos/cosmos-sdk/x/bank/types"
	"github.com/ethereum/go-ethereum/common"
	ethtypes "github.com/ethereum/go-ethereum/core/types"
	"github.com/ethereum/go-ethereum/crypto"
	"github.com/stretchr/testify/require"

	itutil "github.com/EscanBE/evermint/v12/integration_test_util"
	itutiltypes "github.com/EscanBE/evermint/v12/integration_test_util/types"
	evertypes "github.com/EscanBE/evermint/v12/types"
	evmtypes "github.com/EscanBE/evermint/v12/x/evm/types"
	evmutils "github.com/EscanBE/evermint/v12/x/evm/utils"
	vauthtypes "github.com/EscanBE/evermint/v12/x/vauth/types"

	"verifharness/hx"
)

// E-ante: random transaction shapes × the four modes through the real ABCI entry points
// (Simulate, CheckTx new / recheck, FinalizeBlock), i.e. through the real composed ante handler.
// The model must name the rejecting lane rule (or accept); the oracle checks the property's
// acceptance rule directly on the decoded transaction of every accepted run.

type protoTxProvider interface{ GetProtoTx() *sdktx.Tx }

type anteFixture struct {
	c        *chain
	sender   *itutiltypes.TestAccount
	other    *itutiltypes.TestAccount
	contract common.Address
	targets  []*itutiltypes.TestAccount // vesting targets; the first two have a stored proof
	sink     common.Address
}

// msg tree description used both to build the sdk.Msg and to print the op line
type mnode struct {
	kind  byte // E X G V O
	n, to int
	kids  []*mnode
}

func (m *mnode) String() string {
	switch m.kind {
	case 'E':
		return "E"
	case 'X':
		parts := make([]string, len(m.kids))
		for i, k := range m.kids {
			parts[i] = k.String()
		}
		return "X(" + strings.Join(parts, ",") + ")"
	case 'G':
		return fmt.Sprintf("G%d", m.n)
	case 'V':
		return fmt.Sprintf("V%d.%d", m.n, m.to)
	default:
		return fmt.Sprintf("O%d", m.n)
	}
}

var urlOfID = map[int]string{
	0: "/ethermint.evm.v1.MsgEthereumTx",
	1: "/cosmos.vesting.v1beta1.MsgCreateVestingAccount",
	2: "/cosmos.vesting.v1beta1.MsgCreatePeriodicVestingAccount",
	3: "/cosmos.vesting.v1beta1.MsgCreatePermanentLockedAccount",
	9: "/cosmos.bank.v1beta1.MsgSend",
}

func (f *anteFixture) ethMsg(nonce uint64) *evmtypes.MsgEthereumTx {
	// a valid embedded Ethereum transaction of the sender (used for nested / mixed positions)
	key, _ := f.sender.PrivateKey.ToECDSA()
	to := f.sink
	tx, err := ethtypes.SignNewTx(key, ethtypes.LatestSignerForChainID(f.c.chainID), &ethtypes.LegacyTx{
		Nonce: nonce, GasPrice: big.NewInt(2_000_000_000), Gas: 21000, To: &to, Value: big.NewInt(1)})
	require.NoError(f.c.t, err)
	bz, _ := tx.MarshalBinary()
	return &evmtypes.MsgEthereumTx{MarshalledTx: bz, From: f.sender.GetCosmosAddress().String()}
}

func (f *anteFixture) build(m *mnode, nonce uint64) sdk.Msg {
	me := f.sender.GetCosmosAddress().String()
	coins := sdk.NewCoins(sdk.NewInt64Coin(f.c.evmDenom, 3))
	switch m.kind {
	case 'E':
		return f.ethMsg(nonce)
	case 'X':
		var inner []sdk.Msg
		for _, k := range m.kids {
			inner = append(inner, f.build(k, nonce))
		}
		x := authz.NewMsgExec(f.sender.GetCosmosAddress(), inner)
		return &x
	case 'G':
		g, err := authz.NewMsgGrant(f.sender.GetCosmosAddress(), f.other.GetCosmosAddress(), authz.NewGenericAuthorization(urlOfID[m.n]), nil)
		require.NoError(f.c.t, err)
		return g
	case 'V':
		to := f.targets[m.to].GetCosmosAddress().String()
		switch m.n {
		case 0:
			return &vestingtypes.MsgCreateVestingAccount{FromAddress: me, ToAddress: to, Amount: coins, EndTime: f.c.now.Unix() + 100000}
		case 1:
			return &vestingtypes.MsgCreatePeriodicVestingAccount{FromAddress: me, ToAddress: to, StartTime: f.c.now.Unix(), VestingPeriods: []vestingtypes.Period{{Length: 1000, Amount: coins}}}
		default:
			return &vestingtypes.MsgCreatePermanentLockedAccount{FromAddress: me, ToAddress: to, Amount: coins}
		}
	default:
		return &banktypes.MsgSend{FromAddress: me, ToAddress: f.other.GetCosmosAddress().String(), Amount: coins}
	}
}

func randTree(r *hx.Rng, depth int, nested bool) *mnode {
	k := r.Intn(100)
	switch {
	case depth > 0 && k < 38:
		n := 1 + r.Intn(2)
		if r.Chance(1, 12) {
			n = 0
		}
		x := &mnode{kind: 'X'}
		for i := 0; i < n; i++ {
			x.kids = append(x.kids, randTree(r, depth-1, true))
		}
		return x
	case k < 50:
		return &mnode{kind: 'G', n: hx.Pick(r, []int{0, 1, 2, 3, 9, 9})}
	case k < 64:
		return &mnode{kind: 'V', n: r.Intn(3), to: r.Intn(4)}
	case k < 72 && nested:
		return &mnode{kind: 'E'}
	case k < 76:
		return &mnode{kind: 'E'}
	default:
		return &mnode{kind: 'O', n: 9}
	}
}

// shape is what is read back from the *decoded* transaction (not from the generator's intention)
type anteShape struct {
	tree                                         string
	ext                                          []int
	nc, sigs, si                                 int
	to                                           uint64
	payer, granter, memo                         bool
	fee                                          string
	gl                                           uint64
	txb                                          bool
	emb, eam, ecr, epr, efe, ecode               bool
	efee                                         *big.Int
	egas                                         uint64
	single, anyEthTop, anyEthNested, anyVestNest bool
	maxDepth                                     int
	badGrant                                     bool
	vestNoProofTop                               bool
}

func (f *anteFixture) denomID(d string) int {
	if d == f.c.evmDenom {
		return 0
	}
	return 1 + int(d[0])%7
}

var antePatterns = []struct{ sub, tag string }{
	{"unknown extension options", "rej:02-extopt"},
	{"is not allowed to combine with other messages", "rej:03c-mixed"},
	{"but is not a valid Ethereum tx", "rej:03e-shape"},
	{"tx basic validation failed", "rej:03e-txbasic"},
	{"AuthInfo SignerInfos should be empty", "rej:03e-signerinfos"},
	{"Fee payer and granter should be empty", "rej:03e-payer"},
	{"Signatures should be empty", "rej:03e-sigs"},
	{"msg basic validation failed", "rej:03e-msgbasic"},
	{"cannot cast to Ethereum core message", "rej:03e-asmsg"},
	{"failed to create new contract", "rej:03e-create"},
	{"failed to call contract", "rej:03e-call"},
	{"unprotected Ethereum tx is not allowed", "rej:03e-unprotected"},
	{"invalid AuthInfo Fee Amount", "rej:03e-fee"},
	{"invalid AuthInfo Fee GasLimit", "rej:03e-gas"},
	{"from address cannot be empty", "rej:03eoa-from"},
	{"the sender is not EOA", "rej:03eoa-code"},
	{"TimeoutHeight should be zero", "rej:04e-timeout"},
	{"memo should be empty", "rej:05e-memo"},
	{"cannot be mixed with Cosmos messages", "rej:991c-mixed"},
	{"nested level:", "rej:992c-level"},
	{"not allowed to be nested message", "rej:992c-nested"},
	{"not allowed to grant", "rej:992c-grant"},
	{"must prove account is external owned account", "rej:993c"},
}

// classify maps a response to ok | rej:<tag> | late:<codespace/code>; antePassed tells whether the
// ante handler is known to have accepted (message-level failures afterwards are not the ante's).
func classifyAnte(code uint32, codespace, log string, antePassed bool, preBasic bool) string {
	if code == 0 || antePassed {
		return "ok"
	}
	for _, p := range antePatterns {
		if strings.Contains(log, p.sub) {
			return p.tag
		}
	}
	if preBasic {
		return "rej:prebasic"
	}
	return fmt.Sprintf("late:%s/%d", codespace, code)
}

func TestEngineAnte(t *testing.T) {
	seed := hx.Seed()
	n := hx.EnvInt("VERIF_N", 400)
	r := hx.NewRng(seed ^ 0xa47e)
	p := hx.NewProto("ante")
	defer p.Close()

	c := newChain(t)
	f := &anteFixture{c: c, sender: c.wallets[0], other: c.wallets[1]}
	f.contract = c.deployRuntime("ante-contract", codeSink)
	f.sink = c.deployRuntime("ante-sink", codeSink)
	ctx := c.s.CurrentContext
	for i := 0; i < 4; i++ {
		f.targets = append(f.targets, c.s.CreateAccount())
	}
	for i := 0; i < 2; i++ {
		key, _ := f.targets[i].PrivateKey.ToECDSA()
		sig, err := crypto.Sign(crypto.Keccak256([]byte(vauthtypes.MessageToSign)), key)
		require.NoError(t, err)
		require.NoError(t, c.s.ChainApp.VAuthKeeper().SaveProofExternalOwnedAccount(ctx, vauthtypes.ProofExternalOwnedAccount{
			Account:   f.targets[i].GetCosmosAddress().String(),
			Hash:      "0x" + hex.EncodeToString(crypto.Keccak256([]byte(vauthtypes.MessageToSign))),
			Signature: "0x" + hex.EncodeToString(sig),
		}))
	}
	c.setupDone()
	txCfg := c.s.EncodingConfig.TxConfig
	ak := c.s.ChainApp.AccountKeeper()
	vk := c.s.ChainApp.VAuthKeeper()
	ek := c.s.ChainApp.EvmKeeper()

	ethOpt, _ := codectypes.NewAnyWithValue(&evmtypes.ExtensionOptionsEthereumTx{})
	dynOpt, _ := codectypes.NewAnyWithValue(&evertypes.ExtensionOptionDynamicFeeTx{MaxPriorityPrice: sdkmath.NewInt(1)})

	encode := func(ptx *sdktx.Tx) []byte {
		body, err := ptx.Body.Marshal()
		require.NoError(t, err)
		ai, err := ptx.AuthInfo.Marshal()
		require.NoError(t, err)
		raw := &sdktx.TxRaw{BodyBytes: body, AuthInfoBytes: ai, Signatures: ptx.Signatures}
		bz, err := raw.Marshal()
		require.NoError(t, err)
		return bz
	}

	for i := 0; i < n; i++ {
		cctx := c.ctx()
		seq := c.seq(cctx, f.sender.GetCosmosAddress())
		var txBytes []byte
		kind := ""
		if r.Chance(45, 100) {
			// ---- Ethereum lane base + perturbations -------------------------------------------------
			kind = "eth"
			to := f.sink
			a := ethTxArgs{from: f.sender, typ: r.Intn(3), nonce: seq, to: &to, value: big.NewInt(int64(r.Intn(3))), gas: 21000 + uint64(r.Intn(3))*1000,
				gasPrice: big.NewInt(2_000_000_000), feeCap: big.NewInt(3_000_000_000), tip: big.NewInt(1)}
			np := 0
			if !r.Chance(1, 5) {
				np = 1 + r.Intn(2)
			}
			var extra []func(ptx *sdktx.Tx)
			for k := 0; k < np; k++ {
				switch r.Intn(20) {
				case 0:
					a.memo = hx.Pick(r, []string{"hello", " ", "\n", "\t ", "\u00a0", "\u2003", strings.Repeat(" ", 256), "x"}) // blank is not empty
				case 1:
					a.timeoutHeight = hx.Pick(r, []uint64{uint64(1 + r.Intn(1000000)), 1, 1 << 63, 1<<63 + 5, math.MaxInt64, math.MaxUint64}) // any non-zero value, also one that is negative as int64
				case 2:
					fa := sdk.NewCoins(sdk.NewInt64Coin(c.evmDenom, int64(1+r.Intn(1000))))
					a.feeAmount = &fa
				case 3:
					gl := a.gas + uint64(1+r.Intn(5))
					if r.Bool() {
						gl = a.gas - 1
					}
					a.wrapGasLimit = &gl
				case 4:
					a.unprotected = true
					a.typ = 0
				case 5:
					a.declaredFrom = f.contract.Bytes()
				case 6:
					extra = append(extra, func(ptx *sdktx.Tx) { ptx.Body.ExtensionOptions = append(ptx.Body.ExtensionOptions, dynOpt) })
				case 7:
					extra = append(extra, func(ptx *sdktx.Tx) { ptx.Body.ExtensionOptions = nil })
				case 8:
					extra = append(extra, func(ptx *sdktx.Tx) { ptx.Body.ExtensionOptions = []*codectypes.Any{dynOpt} })
				case 9:
					extra = append(extra, func(ptx *sdktx.Tx) { ptx.Body.NonCriticalExtensionOptions = []*codectypes.Any{dynOpt} })
				case 10:
					extra = append(extra, func(ptx *sdktx.Tx) { ptx.Signatures = [][]byte{{1, 2, 3}} })
				case 11:
					pk, _ := codectypes.NewAnyWithValue(f.sender.GetPubKey())
					extra = append(extra, func(ptx *sdktx.Tx) {
						ptx.AuthInfo.SignerInfos = []*sdktx.SignerInfo{{PublicKey: pk, ModeInfo: &sdktx.ModeInfo{Sum: &sdktx.ModeInfo_Single_{Single: &sdktx.ModeInfo_Single{Mode: signing.SignMode_SIGN_MODE_DIRECT}}}, Sequence: seq}}
					})
				case 12:
					extra = append(extra, func(ptx *sdktx.Tx) { ptx.AuthInfo.Fee.Payer = f.other.GetCosmosAddress().String() })
				case 13:
					extra = append(extra, func(ptx *sdktx.Tx) { ptx.AuthInfo.Fee.Granter = f.other.GetCosmosAddress().String() })
				case 14:
					extra = append(extra, func(ptx *sdktx.Tx) {
						ptx.AuthInfo.Fee.Amount = append(sdk.Coins{}, ptx.AuthInfo.Fee.Amount...)
						ptx.AuthInfo.Fee.Amount = append(ptx.AuthInfo.Fee.Amount, sdk.NewInt64Coin("utwo", 5))
						sort.Sort(ptx.AuthInfo.Fee.Amount)
					})
				case 15:
					extra = append(extra, func(ptx *sdktx.Tx) { ptx.Body.ExtensionOptions = append(ptx.Body.ExtensionOptions, ethOpt) })
				case 16:
					a.gas = 20000 // below the minimum: refused by the message's own ValidateBasic before the ante handler
				case 17:
					a.typ = 2
					a.tip = big.NewInt(4_000_000_000) // tip above cap
				case 18:
					gl := uint64(1) << 63 // above MaxGasWanted: the SDK's tx.ValidateBasic refuses
					a.wrapGasLimit = &gl
				case 19:
					a.to = nil // contract creation
					a.gas = 60000
					a.data = []byte{0x00}
				}
			}
			if a.unprotected {
				a.typ = 0 // a Homestead signature exists for legacy transactions only (two perturbations may have been combined)
			}
			bz, _ := c.buildEthTx(a)
			if len(extra) > 0 {
				dec, err := txCfg.TxDecoder()(bz)
				require.NoError(t, err)
				ptx := dec.(protoTxProvider).GetProtoTx()
				for _, e := range extra {
					e(ptx)
				}
				bz = encode(ptx)
			}
			txBytes = bz
		} else {
			// ---- Cosmos lane: message trees, signed by the sender ------------------------------------
			kind = "cos"
			nTop := 1 + r.Intn(3)
			var msgs []sdk.Msg
			depth := r.Intn(6)
			for k := 0; k < nTop; k++ {
				msgs = append(msgs, f.build(randTree(r, depth, false), seq))
			}
			gp := sdkmath.NewInt(2_000_000_000)
			tx, err := c.s.PrepareCosmosTx(cctx, f.sender, itutil.CosmosTxArgs{Gas: 900_000, GasPrice: &gp, Msgs: msgs})
			require.NoError(t, err)
			bz, err := txCfg.TxEncoder()(tx)
			require.NoError(t, err)
			if r.Chance(1, 10) {
				dec, err := txCfg.TxDecoder()(bz)
				require.NoError(t, err)
				ptx := dec.(protoTxProvider).GetProtoTx()
				if r.Bool() {
					ptx.Body.ExtensionOptions = []*codectypes.Any{ethOpt} // foreign option for the Cosmos lane (breaks the signature too: late)
				} else {
					ptx.Body.NonCriticalExtensionOptions = []*codectypes.Any{dynOpt}
				}
				bz = encode(ptx)
			}
			txBytes = bz
		}

		// ---- read the shape back from the decoded bytes -----------------------------------------------
		dec, err := txCfg.TxDecoder()(txBytes)
		if err != nil {
			p.Count("undecodable")
			continue
		}
		ptx := dec.(protoTxProvider).GetProtoTx()
		sh := anteShape{efee: big.NewInt(0), emb: true, eam: true, epr: true}
		var walk func(m sdk.Msg, lvl int, top bool) string
		walk = func(m sdk.Msg, lvl int, top bool) string {
			switch mm := m.(type) {
			case *evmtypes.MsgEthereumTx:
				if top {
					sh.anyEthTop = true
				} else {
					sh.anyEthNested = true
				}
				return "E"
			case *authz.MsgExec:
				inner, err := mm.GetMessages()
				require.NoError(t, err)
				parts := []string{}
				if lvl+1 > sh.maxDepth {
					sh.maxDepth = lvl + 1 // level at which checkDisabledMsgs is entered for the inner list
				}
				for _, im := range inner {
					parts = append(parts, walk(im, lvl+1, false))
				}
				return "X(" + strings.Join(parts, ",") + ")"
			case *authz.MsgGrant:
				au, err := mm.GetAuthorization()
				require.NoError(t, err)
				id := 9
				for k, u := range urlOfID {
					if u == au.MsgTypeURL() {
						id = k
					}
				}
				if id <= 3 {
					sh.badGrant = true
				}
				return fmt.Sprintf("G%d", id)
			case *vestingtypes.MsgCreateVestingAccount, *vestingtypes.MsgCreatePeriodicVestingAccount, *vestingtypes.MsgCreatePermanentLockedAccount:
				k, toS := 0, ""
				switch v := mm.(type) {
				case *vestingtypes.MsgCreateVestingAccount:
					k, toS = 0, v.ToAddress
				case *vestingtypes.MsgCreatePeriodicVestingAccount:
					k, toS = 1, v.ToAddress
				case *vestingtypes.MsgCreatePermanentLockedAccount:
					k, toS = 2, v.ToAddress
				}
				ti := 0
				for j, ta := range f.targets {
					if ta.GetCosmosAddress().String() == toS {
						ti = j
					}
				}
				if !top {
					sh.anyVestNest = true
				} else if !vk.HasProofExternalOwnedAccount(cctx, f.targets[ti].GetCosmosAddress()) {
					sh.vestNoProofTop = true
				}
				return fmt.Sprintf("V%d.%d", k, ti)
			default:
				return "O9"
			}
		}
		parts := []string{}
		for _, m := range dec.GetMsgs() {
			parts = append(parts, walk(m, 1, true))
		}
		sh.tree = strings.Join(parts, ",")
		sh.single = len(dec.GetMsgs()) == 1 && sh.anyEthTop
		for _, o := range ptx.Body.ExtensionOptions {
			switch o.TypeUrl {
			case "/ethermint.evm.v1.ExtensionOptionsEthereumTx":
				sh.ext = append(sh.ext, 0)
			case "/ethermint.types.v1.ExtensionOptionDynamicFeeTx":
				sh.ext = append(sh.ext, 1)
			default:
				sh.ext = append(sh.ext, 2)
			}
		}
		sh.nc = len(ptx.Body.NonCriticalExtensionOptions)
		sh.sigs = len(ptx.Signatures)
		sh.si = len(ptx.AuthInfo.SignerInfos)
		sh.payer = ptx.AuthInfo.Fee.Payer != ""
		sh.granter = ptx.AuthInfo.Fee.Granter != ""
		sh.memo = ptx.Body.Memo != ""
		sh.to = ptx.Body.TimeoutHeight
		fparts := []string{}
		for _, co := range ptx.AuthInfo.Fee.Amount {
			fparts = append(fparts, fmt.Sprintf("%d:%s", f.denomID(co.Denom), co.Amount.String()))
		}
		sh.fee = strings.Join(fparts, ",")
		if sh.fee == "" {
			sh.fee = "-"
		}
		sh.gl = ptx.AuthInfo.Fee.GasLimit
		if vb, ok := dec.(sdk.HasValidateBasic); ok {
			e := vb.ValidateBasic()
			sh.txb = e == nil || errors.Is(e, sdkerrors.ErrNoSignatures)
		}
		if sh.single {
			me := dec.GetMsgs()[0].(*evmtypes.MsgEthereumTx)
			sh.emb = me.ValidateBasic() == nil
			if sh.emb {
				etx := me.AsTransaction()
				_, e := etx.AsMessage(ethtypes.LatestSignerForChainID(c.chainID), ek.GetBaseFee(cctx).BigInt())
				sh.eam = e == nil
				sh.ecr = etx.To() == nil
				sh.epr = etx.Protected()
				sh.efee = evmutils.EthTxFee(etx)
				sh.egas = etx.Gas()
				sh.efe = me.GetFrom().Empty()
				sh.ecode = !evmtypes.IsEmptyCodeHash(ek.GetCodeHash(cctx, me.GetFrom()))
			}
		}
		proofs := []string{}
		for j, ta := range f.targets {
			if vk.HasProofExternalOwnedAccount(cctx, ta.GetCosmosAddress()) {
				proofs = append(proofs, fmt.Sprint(j))
			}
		}
		pr := strings.Join(proofs, ",")
		if pr == "" {
			pr = "-"
		}
		extS := "-"
		if len(sh.ext) > 0 {
			es := []string{}
			for _, e := range sh.ext {
				es = append(es, fmt.Sprint(e))
			}
			extS = strings.Join(es, ",")
		}
		preBasic := sh.anyEthTop && !sh.emb

		// ---- the four modes ----------------------------------------------------------------------------
		type res struct {
			mode, out string
		}
		var results []res
		// simulate
		{
			_, sres, serr := c.app.Simulate(txBytes)
			code, cs, lg := uint32(0), "", ""
			passed := false
			if serr != nil {
				cs2, cd, l := errorsABCI(serr)
				code, cs, lg = cd, cs2, l
				passed = strings.Contains(lg, "failed to execute message") || strings.Contains(lg, "message index")
			}
			_ = sres
			results = append(results, res{"s", classifyAnte(code, cs, lg, passed, preBasic)})
		}
		// recheck on a fresh check state, then check
		for _, md := range []struct {
			m  string
			ty abci.CheckTxType
		}{{"r", abci.CheckTxType_Recheck}, {"c", abci.CheckTxType_New}} {
			cres, cerr := c.app.CheckTx(&abci.RequestCheckTx{Tx: txBytes, Type: md.ty})
			require.NoError(t, cerr)
			results = append(results, res{md.m, classifyAnte(cres.Code, cres.Codespace, cres.Log, false, preBasic)})
			if md.m == "r" && cres.Code == 0 {
				c.finalize(nil) // an accepted re-check bumped the sequence in the check state: an empty block resets it
			}
		}
		// deliver
		{
			fres := c.finalize([][]byte{txBytes})
			tr := fres.TxResults[0]
			passed := false
			for _, ev := range tr.Events {
				if ev.Type == "tx" {
					if _, ok := attr(ev, "fee"); ok {
						passed = true
					}
				}
				if ev.Type == evmtypes.EventTypeEthereumTx {
					passed = true
				}
			}
			results = append(results, res{"d", classifyAnte(tr.Code, tr.Codespace, tr.Log, passed, preBasic)})
		}
		for _, rs := range results {
			late := "-"
			if strings.HasPrefix(rs.out, "late:") {
				late = strings.TrimPrefix(rs.out, "late:")
			}
			op := fmt.Sprintf("ante mode=%s msgs=%s ext=%s nc=%d sigs=%d si=%d payer=%d granter=%d memo=%d to=%d fee=%s gl=%d txb=%d emb=%d eam=%d ecr=%d epr=%d efee=%s egas=%d efe=%d ecode=%d late=%s proofs=%s",
				rs.mode, sh.tree, extS, sh.nc, sh.sigs, sh.si, b01(sh.payer), b01(sh.granter), b01(sh.memo), sh.to, sh.fee, sh.gl, b01(sh.txb),
				b01(sh.emb), b01(sh.eam), b01(sh.ecr), b01(sh.epr), sh.efee.String(), sh.egas, b01(sh.efe), b01(sh.ecode), late, pr)
			p.Emit(op, rs.out)
			p.Count(kind + ":" + rs.mode + ":" + strings.SplitN(rs.out, "/", 2)[0])
			// ---- implementation-side oracle: the property's acceptance rule on every accepted run ----
			if rs.out == "ok" {
				if sh.single {
					shapeOK := sh.nc == 0 && (len(sh.ext) == 0 || (len(sh.ext) == 1 && sh.ext[0] == 0)) && !sh.memo && sh.to == 0
					if rs.mode != "r" {
						wantFee := "-"
						if sh.efee.Sign() > 0 {
							wantFee = "0:" + sh.efee.String()
						}
						shapeOK = shapeOK && sh.sigs == 0 && sh.si == 0 && !sh.payer && !sh.granter && sh.fee == wantFee && sh.gl == sh.egas
					}
					if !shapeOK {
						p.Oracle("C07-eth-shape", "accepted Ethereum-lane tx outside the allowed shape: %s", op)
					}
				} else {
					if sh.anyEthTop || sh.anyEthNested {
						p.Oracle("C07-eth-in-cosmos-lane", "accepted Cosmos-lane tx containing an Ethereum message: %s", op)
					}
					if sh.anyVestNest {
						p.Oracle("C07-vesting-nested", "accepted tx with a nested vesting-creation message: %s", op)
					}
					if sh.badGrant {
						p.Oracle("C07-grant", "accepted a grant for a disabled message: %s", op)
					}
					if sh.maxDepth > 3 {
						p.Oracle("C07-depth", "accepted exec nesting beyond the cap: %s", op)
					}
					if sh.vestNoProofTop {
						p.Oracle("C16-gate", "accepted a vesting-creation message for an address without proof: %s", op)
					}
				}
			}
		}
		_ = ak
		_ = time.Now
	}
}

// errorsABCI extracts (codespace, code, log) from an error as BaseApp would report it.
func errorsABCI(err error) (string, uint32, string) {
	return errorsmod.ABCIInfo(err, false)
}

var _ = authtx.DefaultSignModes
