package engines

import (
	"fmt"
	"math/big"
	"strings"
	"testing"

	"github.com/ethereum/go-ethereum/common"
	ethtypes "github.com/ethereum/go-ethereum/core/types"

	rpcfilters "github.com/EscanBE/evermint/v12/rpc/namespaces/ethereum/eth/filters"

	"verifharness/hx"
)

// E-logfilter: the real FilterLogs (the function every log filter, subscription and eth_getLogs call evaluates,
// in goroutines without recovery) on generated criteria — block ranges with missing / negative / inverted bounds,
// address lists, 0..5 topic positions with wildcards in every position (leading ones included) and alternatives —
// against logs with 0..4 topics; compared with the Lean model (`Model/LogFilter.lean`), a panic included.
func TestEngineLogfilter(t *testing.T) {
	r := hx.NewRng(hx.Seed() ^ 0x10f117)
	n := hx.EnvInt("VERIF_N", 3000)
	p := hx.NewProto("logfilter")
	defer p.Close()
	addr := func(i int) common.Address { return common.BigToAddress(big.NewInt(int64(i))) }
	topic := func(i int) common.Hash { return common.BigToHash(big.NewInt(int64(i))) }
	optBlock := func() (*big.Int, string) {
		switch r.Intn(4) {
		case 0:
			return nil, "-"
		case 1:
			return big.NewInt(-1), "-1" // "latest"
		default:
			v := int64(r.Intn(8))
			return big.NewInt(v), fmt.Sprint(v)
		}
	}
	for i := 0; i < n; i++ {
		from, fs := optBlock()
		to, ts := optBlock()
		var addrs []common.Address
		var as []string
		for j, k := 0, r.Intn(3); j < k; j++ {
			a := 1 + r.Intn(3)
			addrs = append(addrs, addr(a))
			as = append(as, fmt.Sprint(a))
		}
		var topics [][]common.Hash
		var tps []string
		for j, k := 0, r.Intn(6); j < k; j++ {
			var alt []common.Hash
			var alts []string
			for q, m := 0, r.Intn(3); q < m; q++ {
				x := 1 + r.Intn(4)
				alt = append(alt, topic(x))
				alts = append(alts, fmt.Sprint(x))
			}
			topics = append(topics, alt)
			if len(alts) == 0 {
				tps = append(tps, "*")
			} else {
				tps = append(tps, strings.Join(alts, "."))
			}
		}
		var logs []*ethtypes.Log
		var ls []string
		for j, k := 0, r.Intn(5); j < k; j++ {
			a, b := 1+r.Intn(3), r.Intn(8)
			lg := &ethtypes.Log{Address: addr(a), BlockNumber: uint64(b), Index: uint(j)}
			var tl []string
			for q, m := 0, r.Intn(5); q < m; q++ {
				x := 1 + r.Intn(4)
				lg.Topics = append(lg.Topics, topic(x))
				tl = append(tl, fmt.Sprint(x))
			}
			logs = append(logs, lg)
			ls = append(ls, fmt.Sprintf("%d:%d:%s", a, b, dashJoin(tl, ".")))
		}
		if len(logs) > 0 && r.Chance(1, 2) { // a criterion derived from one of the logs: its address, its topics with wildcards / alternatives
			src := logs[r.Intn(len(logs))]
			addrs, as, topics, tps = nil, nil, nil, nil
			if r.Bool() {
				addrs = []common.Address{src.Address}
				as = []string{fmt.Sprint(new(big.Int).SetBytes(src.Address.Bytes()).Int64())}
			}
			for _, tp := range src.Topics[:r.Intn(len(src.Topics)+1)] {
				switch r.Intn(3) {
				case 0:
					topics = append(topics, nil)
					tps = append(tps, "*")
				case 1:
					topics = append(topics, []common.Hash{tp})
					tps = append(tps, fmt.Sprint(tp.Big().Int64()))
				default:
					other := 1 + r.Intn(4)
					topics = append(topics, []common.Hash{topic(other), tp})
					tps = append(tps, fmt.Sprintf("%d.%d", other, tp.Big().Int64()))
				}
			}
			if r.Chance(1, 3) { // one position more than the log has, wildcard or not
				if r.Bool() {
					topics = append(topics, nil)
					tps = append(tps, "*")
				} else {
					topics = append(topics, []common.Hash{topic(1)})
					tps = append(tps, "1")
				}
			}
		}
		out := "panic"
		if pv := hx.Catch(func() {
			got := rpcfilters.FilterLogs(logs, from, to, addrs, topics)
			var idx []string
			for _, g := range got {
				idx = append(idx, fmt.Sprint(g.Index))
			}
			out = dashJoin(idx, ",")
		}); pv != nil {
			p.Oracle("C20-filterlogs-panic", "FilterLogs panicked (%v) on topics=%s logs=%s — in a node this runs in goroutines without recovery", pv, dashJoin(tps, "|"), dashJoin(ls, ";"))
		}
		p.Emit(fmt.Sprintf("lf from=%s to=%s addrs=%s topics=%s logs=%s", fs, ts, dashJoin(as, ","), dashJoin(tps, "|"), dashJoin(ls, ";")), out)
		p.Count(fmt.Sprintf("positions=%d", len(topics)))
	}
}

func dashJoin(xs []string, sep string) string {
	if len(xs) == 0 {
		return "-"
	}
	return strings.Join(xs, sep)
}
