package engines

import (
	"fmt"
	"math/big"
	"testing"

	sdkmath "cosmossdk.io/math"
	storetypes "cosmossdk.io/store/types"
	tmproto "github.com/cometbft/cometbft/proto/tendermint/types"
	"github.com/stretchr/testify/require"

	itutil "github.com/EscanBE/evermint/v12/integration_test_util"

	"verifharness/hx"
)

// TestEngineFeemarket drives the real fee-market keeper (CalculateBaseFee and the whole
// EndBlock including its telemetry gauge) on contexts with chosen consensus params, block
// gas meters, base fees and minimum gas prices.  One op line per tuple; the Lean model must
// print the same outcome (value or panic class).
func TestEngineFeemarket(t *testing.T) {
	rng := hx.NewRng(hx.Seed())
	n := hx.EnvInt("VERIF_N", 2000)
	p := hx.NewProto("feemarket")
	defer p.Close()

	s := itutil.CreateChainIntegrationTestSuiteFromChainConfig(t, require.New(t), itutil.IntegrationTestChain1, true)
	defer s.Cleanup()
	k := s.ChainApp.FeeMarketKeeper()

	two := big.NewInt(2)
	pow := func(e int) *big.Int { return new(big.Int).Exp(two, big.NewInt(int64(e)), nil) }
	max256 := new(big.Int).Sub(pow(256), big.NewInt(1))

	baseFees := func() *big.Int {
		switch rng.Intn(12) {
		case 0:
			return big.NewInt(0)
		case 1:
			return big.NewInt(1)
		case 2:
			return big.NewInt(int64(rng.Intn(16)))
		case 3:
			return big.NewInt(1_000_000_000)
		case 4:
			return pow(63)
		case 5:
			return new(big.Int).Sub(pow(63), big.NewInt(int64(rng.Intn(3))))
		case 6:
			return new(big.Int).Sub(max256, big.NewInt(int64(rng.Intn(3))))
		case 7:
			return rng.BigBits(256)
		case 8:
			return rng.BigBits(64)
		case 9:
			return rng.BigBits(rng.Intn(257))
		case 10:
			// just below the overflow edge b + b/8
			return new(big.Int).Div(new(big.Int).Mul(max256, big.NewInt(8)), big.NewInt(int64(8+rng.Intn(3))))
		default:
			return rng.BigBits(40)
		}
	}
	maxGases := func() (int64, bool) { // value, nilBlock
		switch rng.Intn(10) {
		case 0:
			return 0, true
		case 1:
			return -1, false
		case 2:
			return 0, false
		case 3:
			return 1, false
		case 4:
			return 2, false
		case 5:
			return 3, false
		case 6:
			return int64(rng.Intn(100) + 1), false
		case 7:
			return int64(rng.U64() >> 1), false
		case 8:
			return 40_000_000, false
		default:
			return int64(rng.Intn(1_000_000) + 1), false
		}
	}

	for i := 0; i < n; i++ {
		b := baseFees()
		mg, nilBlock := maxGases()

		// gas consumed, chosen around the target of this limit
		var consumed uint64
		{
			var limit uint64
			if !nilBlock && mg > 0 {
				limit = uint64(mg)
			} else {
				limit = ^uint64(0)
			}
			target := limit / 2
			switch rng.Intn(8) {
			case 0:
				consumed = 0
			case 1:
				consumed = target
			case 2:
				consumed = target + 1
			case 3:
				if target > 0 {
					consumed = target - 1
				}
			case 4:
				consumed = limit
			case 5:
				consumed = rng.U64() % (limit/2 + 1)
			case 6:
				consumed = 21000
			default:
				if limit == ^uint64(0) {
					consumed = rng.U64()
				} else {
					consumed = rng.U64() % (limit + 1 + uint64(rng.Intn(3)))
				}
			}
		}

		// minimum gas price: LegacyDec with 18 decimals, mantissa chosen directly
		var minRaw *big.Int
		switch rng.Intn(6) {
		case 0:
			minRaw = big.NewInt(0)
		case 1:
			minRaw = new(big.Int).Mul(big.NewInt(1_000_000_000), pow10(18))
		case 2:
			minRaw = new(big.Int).Add(new(big.Int).Mul(new(big.Int).Set(b), pow10(18)), rng.BigBits(59)) // ≈ b + fraction
		case 3:
			minRaw = rng.BigBits(100)
		case 4:
			minRaw = new(big.Int).Add(new(big.Int).Mul(new(big.Int).Add(b, big.NewInt(1)), pow10(18)), big.NewInt(0))
		default:
			minRaw = rng.BigBits(rng.Intn(200))
		}

		if minRaw.BitLen() > 315 { // LegacyDec cannot be encoded beyond 315 bits: not a storable parameter
			minRaw = new(big.Int).Rsh(minRaw, uint(minRaw.BitLen()-315))
		}

		ctx, _ := s.CurrentContext.CacheContext()
		params := k.GetParams(ctx)
		params.BaseFee = sdkmath.NewIntFromBigInt(b)
		params.MinGasPrice = sdkmath.LegacyNewDecFromBigIntWithPrec(minRaw, 18)
		if err := k.SetParams(ctx, params); err != nil {
			t.Fatalf("set params: %v", err)
		}
		if nilBlock {
			ctx = ctx.WithConsensusParams(tmproto.ConsensusParams{})
		} else {
			ctx = ctx.WithConsensusParams(tmproto.ConsensusParams{Block: &tmproto.BlockParams{MaxGas: mg, MaxBytes: 1 << 20}})
		}
		// the block gas meter exactly as BaseApp.getBlockGasMeter builds it
		var meter storetypes.GasMeter
		if !nilBlock && mg > 0 {
			meter = storetypes.NewGasMeter(uint64(mg))
		} else {
			meter = storetypes.NewInfiniteGasMeter()
		}
		hx.Catch(func() { meter.ConsumeGas(consumed, "block") })
		ctx = ctx.WithBlockGasMeter(meter)

		var got string
		if pv := hx.Catch(func() {
			r := k.CalculateBaseFee(ctx)
			got = "ok " + r.String()
		}); pv != nil {
			got = "panic " + hx.PanicClass(pv)
		}
		// whole EndBlock (stores the fee, telemetry gauge, event) must agree with the pure function
		var got2 string
		if pv := hx.Catch(func() {
			k.EndBlock(ctx)
			got2 = "ok " + k.GetBaseFee(ctx).String()
		}); pv != nil {
			got2 = "panic " + hx.PanicClass(pv)
		}
		if got2 != got {
			p.Oracle("endblock-differs", "b=%s maxGas=%v nil=%v consumed=%d minRaw=%s calc=%q endblock=%q", b, mg, nilBlock, consumed, minRaw, got, got2)
			got = got2
		}
		if len(got) > 5 && got[:5] == "panic" {
			p.Count("panic")
		} else {
			p.Count("ok")
		}
		mgs := fmt.Sprint(mg)
		if nilBlock {
			mgs = "nil"
		}
		p.Emit(fmt.Sprintf("calc %s %s %d %s", b, mgs, consumed, minRaw), got)
	}
}

func pow10(e int) *big.Int { return new(big.Int).Exp(big.NewInt(10), big.NewInt(int64(e)), nil) }
