package engines

import (
	"errors"
	"fmt"
	"math/big"
	"strings"
	"testing"

	errorsmod "cosmossdk.io/errors"
	sdkmath "cosmossdk.io/math"
	codectypes "github.com/cosmos/cosmos-sdk/codec/types"
	sdk "github.com/cosmos/cosmos-sdk/types"
	sdktx "github.com/cosmos/cosmos-sdk/types/tx"
	authtx "github.com/cosmos/cosmos-sdk/x/auth/tx"
	banktypes "github.com/cosmos/cosmos-sdk/x/bank/types"
	"github.com/ethereum/go-ethereum/common"
	ethtypes "github.com/ethereum/go-ethereum/core/types"
	"github.com/stretchr/testify/require"

	"github.com/EscanBE/evermint/v12/app/antedl/duallane"
	itutil "github.com/EscanBE/evermint/v12/integration_test_util"
	evertypes "github.com/EscanBE/evermint/v12/types"
	evmtypes "github.com/EscanBE/evermint/v12/x/evm/types"

	"verifharness/hx"
)

// TestEngineFeecheck drives the two real fee checkers (`duallane.CosmosTxFeeChecker`, `duallane.EthereumTxFeeChecker`)
// directly, on contexts with chosen fee-market parameters (base fee BELOW, AT and ABOVE the minimum gas price — the
// first block after a genesis / parameter change), execution modes and node minimum gas prices, with transactions whose fee,
// gas, dynamic-fee extension option and embedded Ethereum fields are drawn from edge classes.
//
//	op:   fc lane=<c|e> mode=<d|c|r> h=<height> base=<n> min=<mantissa> node=<mantissa> fees=<denomId:amt,..|-> gas=<n> ext=<d:tip|o,..|-> [ty= gp= cap= tip= egas=]
//	impl: ok fee=<amt|-> prio=<n> | err <class> | panic
//
// The same lines are evaluated by the definitions translated from the Go source (gendriver), and the engine's own law
// (C09): an accepted transaction is charged at least max(base fee, ⌊min gas price⌋) per gas.
func TestEngineFeecheck(t *testing.T) {
	rng := hx.NewRng(hx.Seed())
	n := hx.EnvInt("VERIF_N", 2000)
	p := hx.NewProto("feecheck")
	defer p.Close()

	s := itutil.CreateChainIntegrationTestSuiteFromChainConfig(t, require.New(t), itutil.IntegrationTestChain1, true)
	defer s.Cleanup()
	fk := s.ChainApp.FeeMarketKeeper()
	ek := s.ChainApp.EvmKeeper()
	txCfg := s.EncodingConfig.TxConfig
	evmDenom := ek.GetParams(s.CurrentContext).EvmDenom
	denoms := []string{evmDenom, "uother"}
	w1 := s.WalletAccounts.Number(1)
	w2 := s.WalletAccounts.Number(2)

	small := func() *big.Int {
		switch rng.Intn(9) {
		case 0:
			return big.NewInt(0)
		case 1:
			return big.NewInt(1)
		case 2:
			return big.NewInt(int64(rng.Intn(20)))
		case 3:
			return big.NewInt(1_000_000_000)
		case 4:
			return big.NewInt(int64(1_000_000_000 + rng.Intn(3) - 1))
		case 5:
			return rng.BigBits(40)
		case 6:
			return rng.BigBits(70)
		case 7:
			return big.NewInt(int64(rng.Intn(5_000_000_000)))
		default:
			return big.NewInt(int64(rng.Intn(1000)))
		}
	}
	errClass := func(err error) string {
		var e *errorsmod.Error
		if errors.As(err, &e) {
			switch fmt.Sprintf("%s/%d", e.Codespace(), e.ABCICode()) {
			case "sdk/13":
				return "ErrInsufficientFee"
			case "sdk/10":
				return "ErrInvalidCoins"
			case "sdk/2":
				return "ErrTxDecode"
			}
			return fmt.Sprintf("%s/%d", e.Codespace(), e.ABCICode())
		}
		return "other"
	}

	for i := 0; i < n; i++ {
		lane := "c"
		if rng.Chance(2, 5) {
			lane = "e"
		}
		mode := hx.Pick(rng, []string{"d", "d", "c", "r"})
		base := small()
		// the minimum gas price around the base fee: below, equal, above (the window after genesis), with a fraction
		var minRaw *big.Int
		switch rng.Intn(6) {
		case 0:
			minRaw = big.NewInt(0)
		case 1:
			minRaw = new(big.Int).Mul(base, pow10(18))
		case 2:
			minRaw = new(big.Int).Add(new(big.Int).Mul(new(big.Int).Add(base, big.NewInt(int64(1+rng.Intn(5)))), pow10(18)), rng.BigBits(50))
		case 3:
			minRaw = new(big.Int).Mul(small(), pow10(18))
		case 4:
			minRaw = new(big.Int).Add(new(big.Int).Mul(base, pow10(18)), rng.BigBits(59))
		default:
			minRaw = rng.BigBits(rng.Intn(100))
		}
		nodeRaw := big.NewInt(0)
		if rng.Chance(1, 2) {
			nodeRaw = new(big.Int).Add(new(big.Int).Mul(small(), pow10(18)), rng.BigBits(30))
		}
		height := int64(5)

		gas := uint64(21000 + rng.Intn(200000))
		if rng.Chance(1, 12) && lane == "c" {
			gas = uint64(1 + rng.Intn(3))
		}
		// a price around the floors, times the gas (+/- a remainder)
		floor := new(big.Int).Set(base)
		if f := new(big.Int).Quo(minRaw, pow10(18)); f.Cmp(floor) > 0 {
			floor = f
		}
		price := func() *big.Int {
			switch rng.Intn(7) {
			case 0:
				return new(big.Int).Set(floor)
			case 1:
				return new(big.Int).Add(floor, big.NewInt(int64(rng.Intn(3))))
			case 2:
				if floor.Sign() > 0 {
					return new(big.Int).Sub(floor, big.NewInt(1))
				}
				return big.NewInt(0)
			case 3:
				return new(big.Int).Set(base)
			case 4:
				return new(big.Int).Add(base, big.NewInt(int64(rng.Intn(4))))
			case 5:
				return new(big.Int).Add(floor, small())
			default:
				return small()
			}
		}
		feeAmt := new(big.Int).Mul(price(), new(big.Int).SetUint64(gas))
		if rng.Chance(1, 4) {
			feeAmt.Add(feeAmt, big.NewInt(int64(rng.Intn(int(gas%100000)+1))))
		}

		var msgs []sdk.Msg
		var ethDesc string
		var feeCoins sdk.Coins
		type extOpt struct {
			kind string
			tip  *big.Int
		}
		var exts []extOpt
		if lane == "e" {
			ty := rng.Intn(3)
			gp, capv, tip := price(), price(), small()
			if rng.Chance(1, 3) {
				tip = big.NewInt(int64(rng.Intn(3)))
			}
			if tip.Cmp(capv) > 0 {
				tip = new(big.Int).Set(capv)
			}
			to := common.BytesToAddress(w2.GetEthAddress().Bytes())
			var inner ethtypes.TxData
			switch ty {
			case 0:
				inner = &ethtypes.LegacyTx{Nonce: 0, GasPrice: gp, Gas: gas, To: &to, Value: big.NewInt(0)}
			case 1:
				inner = &ethtypes.AccessListTx{ChainID: big.NewInt(1), Nonce: 0, GasPrice: gp, Gas: gas, To: &to, Value: big.NewInt(0)}
			default:
				inner = &ethtypes.DynamicFeeTx{ChainID: big.NewInt(1), Nonce: 0, GasTipCap: tip, GasFeeCap: capv, Gas: gas, To: &to, Value: big.NewInt(0)}
			}
			ethTx := ethtypes.NewTx(inner)
			m := &evmtypes.MsgEthereumTx{}
			if err := m.FromEthereumTx(ethTx, w1.GetEthAddress()); err != nil {
				t.Fatalf("FromEthereumTx: %v", err)
			}
			msgs = []sdk.Msg{m}
			ethDesc = fmt.Sprintf(" ty=%d gp=%s cap=%s tip=%s egas=%d", ty, ethTx.GasPrice(), ethTx.GasFeeCap(), ethTx.GasTipCap(), gas)
			feeCoins = sdk.Coins{{Denom: evmDenom, Amount: sdkmath.NewIntFromBigInt(feeAmt)}}
		} else {
			msgs = []sdk.Msg{banktypes.NewMsgSend(w1.GetCosmosAddress(), w2.GetCosmosAddress(), sdk.NewCoins(sdk.NewInt64Coin(evmDenom, 1)))}
			feeCoins = sdk.Coins{{Denom: evmDenom, Amount: sdkmath.NewIntFromBigInt(feeAmt)}}
			switch rng.Intn(6) {
			case 0:
				exts = append(exts, extOpt{"d", small()})
			case 1:
				exts = append(exts, extOpt{"d", big.NewInt(int64(rng.Intn(3)))})
			case 2:
				exts = append(exts, extOpt{"o", nil}, extOpt{"d", small()})
			case 3:
				exts = append(exts, extOpt{"d", big.NewInt(int64(-1 - rng.Intn(3)))})
			}
		}
		// malformed fee lists, now and then
		switch rng.Intn(14) {
		case 0:
			feeCoins = sdk.Coins{}
		case 1:
			feeCoins = sdk.Coins{{Denom: "uother", Amount: sdkmath.NewIntFromBigInt(feeAmt)}}
		case 2:
			feeCoins = sdk.Coins{feeCoins[0], {Denom: "uother", Amount: sdkmath.NewInt(5)}}
		}

		b := txCfg.NewTxBuilder()
		if err := b.SetMsgs(msgs...); err != nil {
			t.Fatalf("SetMsgs: %v", err)
		}
		b.SetGasLimit(gas)
		b.SetFeeAmount(feeCoins)
		if len(exts) > 0 {
			var anys []*codectypes.Any
			for _, e := range exts {
				if e.kind == "d" {
					a, _ := codectypes.NewAnyWithValue(&evertypes.ExtensionOptionDynamicFeeTx{MaxPriorityPrice: sdkmath.NewIntFromBigInt(e.tip)})
					anys = append(anys, a)
				} else {
					a, _ := codectypes.NewAnyWithValue(&evmtypes.ExtensionOptionsEthereumTx{})
					anys = append(anys, a)
				}
			}
			if eb, ok := b.(authtx.ExtensionOptionsTxBuilder); ok {
				eb.SetExtensionOptions(anys...)
			} else {
				t.Fatalf("tx builder without extension options")
			}
		}
		tx := b.GetTx()
		_ = sdktx.Tx{}

		ctx, _ := s.CurrentContext.CacheContext()
		params := fk.GetParams(ctx)
		params.BaseFee = sdkmath.NewIntFromBigInt(base)
		params.MinGasPrice = sdkmath.LegacyNewDecFromBigIntWithPrec(minRaw, 18)
		if err := fk.SetParams(ctx, params); err != nil {
			t.Fatalf("set params: %v", err)
		}
		ctx = ctx.WithBlockHeight(height).WithIsCheckTx(mode != "d").WithIsReCheckTx(mode == "r").
			WithMinGasPrices(sdk.DecCoins{{Denom: evmDenom, Amount: sdkmath.LegacyNewDecFromBigIntWithPrec(nodeRaw, 18)}})

		var got string
		var okFee *big.Int
		if pv := hx.Catch(func() {
			var coins sdk.Coins
			var prio int64
			var err error
			if lane == "e" {
				coins, prio, err = duallane.EthereumTxFeeChecker(ek, fk)(ctx, tx)
			} else {
				coins, prio, err = duallane.CosmosTxFeeChecker(ek, fk)(ctx, tx)
			}
			if err != nil {
				got = "err " + errClass(err)
				return
			}
			fs := "-"
			if len(coins) > 0 {
				fs = coins[0].Amount.String()
				okFee = coins[0].Amount.BigInt()
			}
			got = fmt.Sprintf("ok fee=%s prio=%d", fs, prio)
		}); pv != nil {
			got = "panic"
		}
		p.Count(strings.SplitN(got, " ", 3)[0] + ":" + lane + mode)
		if okFee != nil {
			// C09: the price actually charged is never below either floor
			if new(big.Int).Quo(okFee, new(big.Int).SetUint64(gas)).Cmp(floor) < 0 {
				p.Oracle("C09-admitted-below-floor", "lane=%s mode=%s base=%s minRaw=%s fee charged %s for gas %d: price %s < floor %s (ext=%v)",
					lane, mode, base, minRaw, okFee, gas, new(big.Int).Quo(okFee, new(big.Int).SetUint64(gas)), floor, exts)
			}
		}
		var fl []string
		for _, c := range feeCoins {
			id := 1
			if c.Denom == denoms[0] {
				id = 0
			}
			fl = append(fl, fmt.Sprintf("%d:%s", id, c.Amount))
		}
		fstr := "-"
		if len(fl) > 0 {
			fstr = strings.Join(fl, ",")
		}
		var el []string
		for _, e := range exts {
			if e.kind == "d" {
				el = append(el, "d:"+e.tip.String())
			} else {
				el = append(el, "o")
			}
		}
		estr := "-"
		if len(el) > 0 {
			estr = strings.Join(el, ",")
		}
		p.Emit(fmt.Sprintf("fc lane=%s mode=%s h=%d base=%s min=%s node=%s fees=%s gas=%d ext=%s%s", lane, mode, height, base, minRaw, nodeRaw, fstr, gas, estr, ethDesc), got)
	}
}
