package engines

import (
	"encoding/json"
	"os"
	"path/filepath"
	"testing"

	ethparams "github.com/ethereum/go-ethereum/params"

	"verifharness/hx"
)

// TestFacts prints the facts that are read from the *compiled* code (constants of the pinned
// go-ethereum fork, tables registered at runtime).  They are rendered to
// lean/EvermintModel/Facts/Gen.lean on every run and the models' parameters are proved
// equal to them there.
func TestFacts(t *testing.T) {
	facts := map[string]any{}
	facts["ElasticityMultiplier"] = ethparams.ElasticityMultiplier
	facts["BaseFeeChangeDenominator"] = ethparams.BaseFeeChangeDenominator
	facts["RefundQuotientEIP3529"] = ethparams.RefundQuotientEIP3529
	facts["RefundQuotient"] = ethparams.RefundQuotient
	facts["TxGas"] = ethparams.TxGas
	facts["TxGasContractCreation"] = ethparams.TxGasContractCreation
	facts["CallCreateDepth"] = ethparams.CallCreateDepth
	facts["InitialBaseFee"] = ethparams.InitialBaseFee
	for k, v := range runtimeFacts(t) {
		facts[k] = v
	}
	bz, err := json.MarshalIndent(facts, "", " ")
	if err != nil {
		t.Fatal(err)
	}
	if err := os.WriteFile(filepath.Join(hx.OutDir(), "facts_runtime.json"), bz, 0o644); err != nil {
		t.Fatal(err)
	}
}
