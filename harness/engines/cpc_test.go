package engines

import (
	"encoding/hex"
	"encoding/json"
	"fmt"
	"sort"
	"strings"
	"testing"

	storetypes "cosmossdk.io/store/types"
	sdk "github.com/cosmos/cosmos-sdk/types"
	authtypes "github.com/cosmos/cosmos-sdk/x/auth/types"
	govtypes "github.com/cosmos/cosmos-sdk/x/gov/types"
	minttypes "github.com/cosmos/cosmos-sdk/x/mint/types"
	"github.com/ethereum/go-ethereum/common"
	"github.com/ethereum/go-ethereum/common/hexutil"
	"github.com/ethereum/go-ethereum/crypto"
	"github.com/stretchr/testify/require"

	chainapp "github.com/EscanBE/evermint/v12/app"
	"github.com/EscanBE/evermint/v12/x/cpc"
	cpckeeper "github.com/EscanBE/evermint/v12/x/cpc/keeper"
	cpctypes "github.com/EscanBE/evermint/v12/x/cpc/types"
	evmtypes "github.com/EscanBE/evermint/v12/x/evm/types"

	"verifharness/hx"
)

// E-cpc: epochs of [InitGenesis on a wiped cpc store with a random flag combination; random deploy /
// update-params / disable operations by whitelisted and other senders] through the real message
// server and keeper; after every operation the whole registry (metadata, reverse index, params,
// module sequence) and the set of addresses actually callable through the EVM — via ApplyMessage and
// via the EthCall query path — are compared with the model.

func TestEngineCpc(t *testing.T) {
	seed := hx.Seed()
	n := hx.EnvInt("VERIF_N", 600)
	r := hx.NewRng(seed ^ 0xc9c)
	p := hx.NewProto("cpc")
	defer p.Close()

	c := newChain(t)
	ctx := c.s.CurrentContext
	app := c.s.ChainApp.IbcTestingApp().(*chainapp.Evermint)
	ck := c.s.ChainApp.CpcKeeper()
	bk := c.s.ChainApp.BankKeeper()
	ak := c.s.ChainApp.AccountKeeper()
	ek := c.s.ChainApp.EvmKeeper()
	storeKey := app.GetKey(cpctypes.StoreKey)
	ms := cpckeeper.NewMsgServerImpl(*ck)
	bond, err := c.s.ChainApp.StakingKeeper().BondDenom(ctx)
	require.NoError(t, err)

	// denominations: 0 = bond/native, 1..3 minted, 4 without supply, 5 invalid name
	// (1 and 2 differ in letter case only: bank denominations are case-sensitive, an IBC voucher denom has upper-case hex)
	denoms := []string{bond, "ibc/27394FB092D2ECCD56123C74F36E4C1F926001CEADA9CA97EA622B25F41E5EB2", "ibc/27394fb092d2eccd56123c74f36e4c1f926001ceada9ca97ea622b25f41e5eb2", "uthree", "unosupply", "Bad Denom!"}
	for _, d := range denoms[1:4] {
		coins := sdk.NewCoins(sdk.NewInt64Coin(d, 1000))
		require.NoError(t, bk.MintCoins(ctx, minttypes.ModuleName, coins))
		require.NoError(t, bk.SendCoinsFromModuleToAccount(ctx, minttypes.ModuleName, c.wallets[0].GetCosmosAddress(), coins))
	}
	senders := c.wallets[:5]
	// deployers: the five wallets, then addresses that are never on a whitelist — the governance module account (the
	// authority of the parameter message: a proposal could carry a deploy message signed by it), the cpc module
	// account itself, the EVM module account
	specialDeployers := []string{authtypes.NewModuleAddress(govtypes.ModuleName).String(), authtypes.NewModuleAddress(cpctypes.ModuleName).String(), authtypes.NewModuleAddress(evmtypes.ModuleName).String()}
	deployerAddr := func(i int) string {
		if i < len(senders) {
			return senders[i].GetCosmosAddress().String()
		}
		return specialDeployers[i-len(senders)]
	}
	nDeployers := len(senders) + len(specialDeployers)
	gov := authtypes.NewModuleAddress(govtypes.ModuleName).String()

	const maxNonce = 400
	dyn := map[common.Address]int{}
	for i := 0; i < maxNonce; i++ {
		dyn[crypto.CreateAddress(cpctypes.CpcModuleAddress, uint64(i))] = 2000 + i
	}
	var deployedAt, deployedIs string
	idOfAddr := func(a common.Address) int {
		if a == cpctypes.CpcStakingFixedAddress {
			return 1001
		}
		if a == cpctypes.CpcBech32FixedAddress {
			return 1002
		}
		if id, ok := dyn[a]; ok {
			return id
		}
		return 9999
	}
	addrOfID := func(id int) common.Address {
		switch {
		case id == 1001:
			return cpctypes.CpcStakingFixedAddress
		case id == 1002:
			return cpctypes.CpcBech32FixedAddress
		case id >= 2000 && id < 2000+maxNonce:
			return crypto.CreateAddress(cpctypes.CpcModuleAddress, uint64(id-2000))
		default:
			return common.BytesToAddress(crypto.Keccak256([]byte(fmt.Sprintf("random-%d", id)))[12:])
		}
	}
	denomID := func(d string) int {
		for i, x := range denoms {
			if x == d {
				return i
			}
		}
		return 99
	}
	selName := hexutil.MustDecode("0x06fdde03")
	selBech := hexutil.MustDecode("0x96443b16")
	callableVia := func(a common.Address, query bool) bool {
		for _, sel := range [][]byte{selName, selBech} {
			from := c.wallets[0].GetEthAddress()
			if query {
				args, _ := json.Marshal(evmtypes.TransactionArgs{From: &from, To: &a, Data: (*hexutil.Bytes)(&sel)})
				res, err := ek.EthCall(ctx, &evmtypes.EthCallRequest{Args: args, GasCap: 5_000_000})
				if err == nil && res.VmError == "" && len(res.Ret) > 0 {
					return true
				}
			} else {
				baseFee := ek.GetBaseFee(ctx).BigInt()
				gas := hexutil.Uint64(5_000_000)
				targs := evmtypes.TransactionArgs{From: &from, To: &a, Data: (*hexutil.Bytes)(&sel), GasPrice: (*hexutil.Big)(baseFee), Gas: &gas}
				msg, err := targs.ToMessage(0, baseFee)
				if err != nil {
					continue
				}
				res, err := ek.ApplyMessage(ctx, msg, evmtypes.NewNoOpTracer(), false)
				if err == nil && res.VmError == "" && len(res.Ret) > 0 {
					return true
				}
			}
		}
		return false
	}
	// a registered contract (enabled or disabled) answers a call WITHOUT calldata with an error (revert / disabled);
	// any other code-less address accepts it as a plain transfer.  Independent of selectors.
	emptyCallFails := func(a common.Address, query bool) bool {
		from := c.wallets[0].GetEthAddress()
		if query {
			args, _ := json.Marshal(evmtypes.TransactionArgs{From: &from, To: &a})
			res, err := ek.EthCall(ctx, &evmtypes.EthCallRequest{Args: args, GasCap: 5_000_000})
			return err != nil || res.VmError != ""
		}
		baseFee := ek.GetBaseFee(ctx).BigInt()
		gas := hexutil.Uint64(5_000_000)
		targs := evmtypes.TransactionArgs{From: &from, To: &a, GasPrice: (*hexutil.Big)(baseFee), Gas: &gas}
		msg, err := targs.ToMessage(0, baseFee)
		if err != nil {
			return true
		}
		res, err := ek.ApplyMessage(ctx, msg, evmtypes.NewNoOpTracer(), false)
		return err != nil || res.VmError != ""
	}
	dump := func(cand []int) string {
		params := ck.GetParams(ctx)
		var wl []string
		for _, w := range params.WhitelistedDeployers {
			id := 99
			for i, s := range senders {
				if s.GetCosmosAddress().String() == w {
					id = i
				}
			}
			wl = append(wl, fmt.Sprint(id))
		}
		seq := ak.GetModuleAccount(ctx, cpctypes.ModuleName).GetSequence()
		var metas, idx, call []string
		for _, id := range cand {
			a := addrOfID(id)
			if m := ck.GetCustomPrecompiledContractMeta(ctx, a); m != nil {
				den := 0
				if m.CustomPrecompiledType == cpctypes.CpcTypeErc20 {
					var em cpctypes.Erc20CustomPrecompiledContractMeta
					_ = json.Unmarshal([]byte(m.TypedMeta), &em)
					den = denomID(em.MinDenom)
				}
				metas = append(metas, fmt.Sprintf("%d:%d:%d:%d", id, m.CustomPrecompiledType, den, b01(m.Disabled)))
			}
			registered := ck.GetCustomPrecompiledContractMeta(ctx, a) != nil
			if e1, e2 := emptyCallFails(a, false), emptyCallFails(a, true); e1 != registered || e2 != registered {
				p.Oracle("C17-exposure-without-calldata", "address id %d registered=%v, but a call without calldata fails via ApplyMessage=%v via EthCall=%v (a registered contract must answer every call itself, any other address accepts a plain call)", id, registered, e1, e2)
			}
			c1, c2 := callableVia(a, false), callableVia(a, true)
			if c1 != c2 {
				p.Oracle("C17-mode-disagreement", "address id %d callable via ApplyMessage=%v via EthCall=%v", id, c1, c2)
			}
			if c1 {
				call = append(call, fmt.Sprint(id))
			}
		}
		for i, d := range denoms {
			if a := ck.GetErc20CustomPrecompiledContractAddressByMinDenom(ctx, d); a != nil {
				idx = append(idx, fmt.Sprintf("%d:%d", i, idOfAddr(*a)))
			}
		}
		// every stored contract must be inside the candidate list (nothing registered elsewhere)
		for _, m := range ck.GetAllCustomPrecompiledContractsMeta(ctx) {
			id := idOfAddr(common.BytesToAddress(m.Address))
			found := false
			for _, x := range cand {
				if x == id {
					found = true
				}
			}
			if !found {
				p.Oracle("C17-unexpected-contract", "contract stored at an address outside the candidate set: %x", m.Address)
			}
		}
		return fmt.Sprintf("ver=%d wl=%s seq=%d metas=%s idx=%s callable=%s", params.ProtocolVersion, strings.Join(wl, ","), seq, strings.Join(metas, ","), strings.Join(idx, ","), strings.Join(call, ","))
	}
	wlString := func(ids []int) string {
		var s []string
		for _, i := range ids {
			s = append(s, fmt.Sprint(i))
		}
		if len(s) == 0 {
			return "-"
		}
		return strings.Join(s, ",")
	}
	classify := func(err error) string {
		if err == nil {
			return "ok"
		}
		m := err.Error()
		switch {
		case strings.Contains(m, "must be whitelisted"), strings.Contains(m, "invalid authority"):
			return "unauthorized"
		case strings.Contains(m, "existing contract for"):
			return "conflict"
		case strings.Contains(m, "zero supply"):
			return "zerosupply"
		case strings.Contains(m, "being in use"):
			return "inuse"
		case strings.Contains(m, "does not exist"):
			return "missing"
		case strings.Contains(m, "downgrade"):
			return "downgrade"
		default:
			return "invalid"
		}
	}

	done := 0
	for done < n {
		// ---- epoch: wipe the cpc store, reset the module sequence, InitGenesis with random flags -------------
		st := ctx.KVStore(storeKey)
		it := storetypes.KVStorePrefixIterator(st, nil)
		var keys [][]byte
		for ; it.Valid(); it.Next() {
			keys = append(keys, append([]byte{}, it.Key()...))
		}
		it.Close()
		for _, k := range keys {
			st.Delete(k)
		}
		ma := ak.GetModuleAccount(ctx, cpctypes.ModuleName)
		require.NoError(t, ma.SetSequence(0))
		ak.SetModuleAccount(ctx, ma)
		e, stk := r.Bool(), r.Bool()
		var wlIDs []int
		emptyWl := r.Chance(1, 4) // the default parameters: nobody may deploy
		for i := range senders {
			if !emptyWl && r.Chance(3, 5) {
				wlIDs = append(wlIDs, i)
			}
		}
		gs := cpctypes.GenesisState{Params: cpctypes.Params{ProtocolVersion: 1}, DeployErc20Native: e, DeployStakingContract: stk}
		for _, i := range wlIDs {
			gs.Params.WhitelistedDeployers = append(gs.Params.WhitelistedDeployers, senders[i].GetCosmosAddress().String())
		}
		cpc.InitGenesis(ctx, *ck, *c.s.ChainApp.StakingKeeper(), gs)
		cand := []int{1001, 1002, 7777, 7778}
		for i := 0; i < 12; i++ {
			cand = append(cand, 2000+i)
		}
		sort.Ints(cand)
		candS := wlString(cand)
		tail := fmt.Sprintf(" cand=%s denoms=0,1,2,3,4,5", candS)
		p.Emit(fmt.Sprintf("cgen v=1 wl=%s e=%d st=%d bond=0", wlString(wlIDs), b01(e), b01(stk))+tail, "ok "+dump(cand))
		done++
		nops := 8 + r.Intn(25)
		// directed (every other epoch with a whitelist): a whitelisted sender deploys an ERC-20 contract for a denomination,
		// the contract is disabled, the same sender deploys for the same denomination again (one per denomination, disabled or not)
		forced := []int{}
		forceSi, forceDi, forceDisableID := -1, -1, -1
		if len(wlIDs) > 0 && r.Chance(1, 2) {
			forced = []int{0, 99, 0}
			forceSi, forceDi = wlIDs[r.Intn(len(wlIDs))], hx.Pick(r, []int{0, 1, 3})
			p.Count("cpc:directed-redeploy-after-disable")
		}
		for j := 0; j < nops && done < n; j++ {
			cctx, write := ctx.CacheContext()
			var op, out string
			k := r.Intn(100)
			isForced := false
			if len(forced) > 0 {
				k, forced = forced[0], forced[1:]
				isForced = true
			}
			switch {
			case k < 40: // deploy ERC-20
				si := r.Intn(nDeployers)
				di := r.Intn(len(denoms))
				if isForced {
					si, di = forceSi, forceDi
				}
				req := &cpctypes.MsgDeployErc20ContractRequest{Authority: deployerAddr(si), Name: "Tok" + strings.ReplaceAll(strings.ReplaceAll(denoms[di], " ", ""), "!", ""), Symbol: "TK", Decimals: uint32(1 + r.Intn(18)), MinDenom: denoms[di]}
				if r.Chance(1, 10) && !isForced {
					req.Decimals = uint32(hx.Pick(r, []int{0, 19, 255, 256, 262}))
				}
				if r.Chance(1, 15) && !isForced {
					req.Symbol = ""
				}
				mv := req.ValidateBasic() == nil
				sp := false
				func() {
					defer func() { _ = recover() }() // an invalid denom panics inside the bank keeper
					sp = bk.GetSupply(ctx, denoms[di]).IsPositive()
				}()
				var err error
				if mv { // runTx runs the message's ValidateBasic before the handler
					_, err = ms.DeployErc20Contract(cctx, req)
				} else {
					err = fmt.Errorf("invalid: basic validation")
					// is the sender even whitelisted? the handler checks that first, but basic validation comes earlier in runTx
					wlOK := false
					for _, w := range ck.GetParams(ctx).WhitelistedDeployers {
						if w == req.Authority {
							wlOK = true
						}
					}
					if !wlOK {
						err = fmt.Errorf("must be whitelisted")
					}
				}
				op = fmt.Sprintf("cdep s=%d d=%d mv=%d sp=%d", si, di, b01(mv), b01(sp))
				out = classify(err)
				if err == nil {
					write()
					a := ck.GetErc20CustomPrecompiledContractAddressByMinDenom(ctx, denoms[di])
					out = fmt.Sprintf("ok:%d", idOfAddr(*a))
					if isForced {
						forceDisableID = idOfAddr(*a)
					}
					if id := idOfAddr(*a); id >= 2000 && id < 9999 {
						deployedAt = fmt.Sprintf("caddr %s %d", hex.EncodeToString(cpctypes.CpcModuleAddress.Bytes()), id-2000)
						deployedIs = hex.EncodeToString(a.Bytes())
					}
				}
			case k < 55: // deploy staking
				si := r.Intn(nDeployers)
				req := &cpctypes.MsgDeployStakingContractRequest{Authority: deployerAddr(si), Symbol: "STK", Decimals: 18}
				if r.Chance(1, 8) {
					req.Symbol = ""
				}
				mv := req.ValidateBasic() == nil
				var err error
				if mv {
					_, err = ms.DeployStakingContract(cctx, req)
				} else {
					err = fmt.Errorf("invalid: basic validation")
					wlOK := false
					for _, w := range ck.GetParams(ctx).WhitelistedDeployers {
						if w == req.Authority {
							wlOK = true
						}
					}
					if !wlOK {
						err = fmt.Errorf("must be whitelisted")
					}
				}
				op = fmt.Sprintf("cstk s=%d mv=%d", si, b01(mv))
				out = classify(err)
				if err == nil {
					write()
					out = "ok:1001"
				}
			case k < 75: // update params
				auth := gov
				if r.Chance(1, 4) {
					auth = senders[r.Intn(len(senders))].GetCosmosAddress().String()
				}
				var ids []int
				for i := range senders {
					if r.Chance(2, 5) {
						ids = append(ids, i)
					}
				}
				np := cpctypes.Params{ProtocolVersion: uint32(hx.Pick(r, []int{1, 1, 1, 0, 2}))}
				for _, i := range ids {
					np.WhitelistedDeployers = append(np.WhitelistedDeployers, senders[i].GetCosmosAddress().String())
				}
				if r.Chance(1, 10) && len(np.WhitelistedDeployers) > 0 {
					np.WhitelistedDeployers = append(np.WhitelistedDeployers, np.WhitelistedDeployers[0]) // duplicate: invalid
				}
				pv := np.Validate() == nil
				var err error
				func() {
					defer func() {
						if rec := recover(); rec != nil {
							err = fmt.Errorf("invalid: panic %v", rec)
						}
					}()
					_, err = ms.UpdateParams(cctx, &cpctypes.MsgUpdateParams{Authority: auth, NewParams: np})
				}()
				op = fmt.Sprintf("cupd auth=%d pv=%d v=%d wl=%s", b01(auth == gov), b01(pv), np.ProtocolVersion, wlString(ids))
				out = classify(err)
				if err == nil {
					write()
					out = "ok:0"
				}
			default: // keeper-level enable / disable (upgrade handlers)
				id := hx.Pick(r, cand)
				if r.Chance(2, 3) { // prefer registered contracts
					if ms := ck.GetAllCustomPrecompiledContractsMeta(ctx); len(ms) > 0 {
						id = idOfAddr(common.BytesToAddress(ms[r.Intn(len(ms))].Address))
					}
				}
				dis := r.Bool()
				if isForced && forceDisableID >= 0 {
					id, dis = forceDisableID, true
				} else if isForced {
					if a := ck.GetErc20CustomPrecompiledContractAddressByMinDenom(ctx, denoms[forceDi]); a != nil {
						id, dis = idOfAddr(*a), true // the denomination had its contract already
					}
				}
				a := addrOfID(id)
				var err error
				if m := ck.GetCustomPrecompiledContractMeta(cctx, a); m != nil {
					m.Disabled = dis
					err = ck.SetCustomPrecompiledContractMeta(cctx, *m, false)
				} else {
					err = fmt.Errorf("does not exist")
				}
				op = fmt.Sprintf("cdis a=%d d=%d", id, b01(dis))
				out = classify(err)
				if err == nil {
					write()
					out = fmt.Sprintf("ok:%d", id)
				}
			}
			p.Emit(op+tail, out+" "+dump(cand))
			if deployedAt != "" { // the new contract's address against the Lean model of CreateAddress(module account, nonce)
				p.Emit(deployedAt, deployedIs)
				p.Count("caddr-line")
				deployedAt = ""
			}
			p.Count(strings.Fields(op)[0] + ":" + strings.SplitN(out, ":", 2)[0])
			done++
		}
	}

	// ---- scale: a registry larger than any page size -----------------------------------------------------------
	// 120 further ERC-20 contracts on a branch of the final state: every registered, enabled contract must answer,
	// through both EVM construction paths ("exactly the registered enabled contracts — no more, no fewer").
	{
		sctx, _ := ctx.CacheContext()
		var addrs []common.Address
		for i := 0; i < 120; i++ {
			d := fmt.Sprintf("scale%03d", i)
			coins := sdk.NewCoins(sdk.NewInt64Coin(d, 10))
			require.NoError(t, bk.MintCoins(sctx, minttypes.ModuleName, coins))
			require.NoError(t, bk.SendCoinsFromModuleToAccount(sctx, minttypes.ModuleName, c.wallets[0].GetCosmosAddress(), coins))
			a, err := ck.DeployErc20CustomPrecompiledContract(sctx, "s"+d, cpctypes.Erc20CustomPrecompiledContractMeta{Symbol: "S", Decimals: 6, MinDenom: d})
			require.NoError(t, err)
			addrs = append(addrs, a)
		}
		// the whole supply of three of the denominations is burnt after deployment (positive supply is a condition of
		// *deploying*; a registered, enabled contract stays exposed whatever the bank supply does later)
		for i := 0; i < 3; i++ {
			coins := sdk.NewCoins(sdk.NewInt64Coin(fmt.Sprintf("scale%03d", i*7), 10))
			require.NoError(t, bk.SendCoinsFromAccountToModule(sctx, c.wallets[0].GetCosmosAddress(), evmtypes.ModuleName, coins))
			require.NoError(t, bk.BurnCoins(sctx, evmtypes.ModuleName, coins))
		}
		p.Count("scale:supply-burnt-to-zero=3")
		saved := ctx
		ctx = sctx // callableVia reads `ctx`
		silent := 0
		var first common.Address
		for _, a := range addrs {
			if !callableVia(a, false) || !callableVia(a, true) {
				if silent == 0 {
					first = a
				}
				silent++
			}
		}
		ctx = saved
		p.Count(fmt.Sprintf("scale:registered=%d:silent=%d", len(ck.GetAllCustomPrecompiledContractsMeta(sctx)), silent))
		if silent > 0 {
			p.Oracle("C17-registered-but-not-exposed", "%d of 120 registered, enabled ERC-20 contracts do not answer name() through the EVM (first: %s) once the registry holds %d contracts", silent, first.Hex(), len(ck.GetAllCustomPrecompiledContractsMeta(sctx)))
		}
	}
}
