package engines

import (
	"bytes"
	"encoding/hex"
	"fmt"
	"math/big"
	"sort"
	"strings"
	"testing"

	sdkmath "cosmossdk.io/math"
	sdk "github.com/cosmos/cosmos-sdk/types"
	minttypes "github.com/cosmos/cosmos-sdk/x/mint/types"
	"github.com/ethereum/go-ethereum/common"
	"github.com/ethereum/go-ethereum/common/hexutil"
	"github.com/ethereum/go-ethereum/core"
	"github.com/ethereum/go-ethereum/core/rawdb"
	gethstate "github.com/ethereum/go-ethereum/core/state"
	ethtypes "github.com/ethereum/go-ethereum/core/types"
	corevm "github.com/ethereum/go-ethereum/core/vm"
	"github.com/ethereum/go-ethereum/crypto"
	"github.com/stretchr/testify/require"

	evertypes "github.com/EscanBE/evermint/v12/types"
	evmtypes "github.com/EscanBE/evermint/v12/x/evm/types"

	"verifharness/hx"
)

// E-geth (C02, also C03 / C04 / C15): generated contract programs (storage, logs, the CALL family with
// value, CREATE / CREATE2, SELFDESTRUCT, REVERT, INVALID, BALANCE / EXTCODE*) are executed through
// evermint's `ApplyMessage` (context StateDB over auth / bank / evm stores) and through go-ethereum's own
// `core.ApplyMessage` over its own `state.StateDB` seeded with the mirrored pre-state, with the same chain
// config and block context.  Result (error class, return data, gas used, logs) and the resulting nonce,
// balance, code and storage of every tracked account must be equal.

type gethWorld struct {
	db    gethstate.Database
	root  common.Hash
	state *gethstate.StateDB
}

type prog struct {
	code []byte
	desc string
}

// snippet generators ------------------------------------------------------------------------------------------

func pushAddr(a common.Address) []any { return []any{"PUSH20", a.Bytes()} }

func genProgram(r *hx.Rng, self int, addrs []common.Address, depth int) prog {
	var items []any
	var d []string
	n := 2 + r.Intn(6)
	term := false
	for i := 0; i < n && !term; i++ {
		switch k := r.Intn(100); {
		case k < 22:
			key, val := r.Intn(4), hx.Pick(r, []int{0, 0, 1, 2, 7, 200})
			items = append(items, "PUSH1", val, "PUSH1", key, "SSTORE")
			d = append(d, fmt.Sprintf("sstore(%d,%d)", key, val))
		case k < 26:
			key := r.Intn(4)
			items = append(items, "PUSH1", key, "SLOAD", "POP")
			d = append(d, fmt.Sprintf("sload(%d)", key))
		case k < 36:
			if r.Bool() {
				items = append(items, "PUSH1", 0, "PUSH1", 0, "LOG0")
			} else {
				items = append(items, "PUSH1", r.Intn(250), "PUSH1", 0, "PUSH1", 0, "LOG1")
			}
			d = append(d, "log")
		case k < 30 && depth > 0: // burst: the same target called three times with value in between (self-destruct / re-fund / re-enter patterns)
			t := r.Intn(len(addrs))
			for j := 0; j < 3; j++ {
				items = append(items, "PUSH1", 0, "PUSH1", 0, "PUSH1", 0, "PUSH1", 0, "PUSH1", 1+r.Intn(9))
				items = append(items, pushAddr(addrs[t])...)
				items = append(items, "GAS", "PUSH1", 2, "SHR", "CALL", "POP")
			}
			d = append(d, fmt.Sprintf("burst(a%d)", t))
		case k < 62: // call family
			t := r.Intn(len(addrs))
			val := 0
			op := hx.Pick(r, []string{"CALL", "CALL", "CALL", "STATICCALL", "DELEGATECALL", "CALLCODE"})
			if (op == "CALL" || op == "CALLCODE") && r.Chance(1, 2) {
				val = r.Intn(30)
			}
			items = append(items, "PUSH1", 0, "PUSH1", 0, "PUSH1", 0, "PUSH1", 0)
			if op == "CALL" || op == "CALLCODE" {
				items = append(items, "PUSH1", val)
			}
			items = append(items, pushAddr(addrs[t])...)
			items = append(items, "GAS", "PUSH1", 1, "SHR", op, "POP")
			d = append(d, fmt.Sprintf("%s(a%d,%d)", strings.ToLower(op), t, val))
		case k < 70:
			t := r.Intn(len(addrs))
			op := hx.Pick(r, []string{"BALANCE", "EXTCODESIZE", "EXTCODEHASH"})
			items = append(items, pushAddr(addrs[t])...)
			items = append(items, op, "POP")
			d = append(d, fmt.Sprintf("%s(a%d)", strings.ToLower(op), t))
		case k < 78 && depth > 0: // CREATE / CREATE2 with an init code that stores and returns nothing or one byte of runtime
			init := asm("PUSH1", 1+r.Intn(9), "PUSH1", r.Intn(3), "SSTORE", "STOP")
			if r.Bool() {
				init = asm("PUSH1", 0xfe, "PUSH1", 0, "MSTORE8", "PUSH1", 1, "PUSH1", 0, "RETURN")
			}
			if r.Chance(1, 6) {
				init = asm("PUSH1", 0, "PUSH1", 0, "REVERT")
			}
			val := hx.Pick(r, []int{0, 0, 3})
			items = append(items, fmt.Sprintf("PUSH%d", len(init)), init, "PUSH1", 0, "MSTORE")
			if r.Bool() {
				items = append(items, "PUSH1", len(init), "PUSH1", 32-len(init), "PUSH1", val, "CREATE", "POP")
				d = append(d, fmt.Sprintf("create(%d)", val))
			} else {
				items = append(items, "PUSH1", r.Intn(2), "PUSH1", len(init), "PUSH1", 32-len(init), "PUSH1", val, "CREATE2", "POP")
				d = append(d, fmt.Sprintf("create2(%d)", val))
			}
		case k < 84:
			t := r.Intn(len(addrs))
			items = append(items, pushAddr(addrs[t])...)
			items = append(items, "SELFDESTRUCT")
			d = append(d, fmt.Sprintf("selfdestruct(a%d)", t))
			term = true
		case k < 89:
			items = append(items, "PUSH1", 0, "PUSH1", 0, "REVERT")
			d = append(d, "revert")
			term = true
		case k < 92:
			items = append(items, "INVALID")
			d = append(d, "invalid")
			term = true
		default:
			items = append(items, "PUSH1", r.Intn(200), "PUSH1", 0, "MSTORE", "PUSH1", 32, "PUSH1", 0, "RETURN")
			d = append(d, "return")
			term = true
		}
	}
	if !term {
		items = append(items, "STOP")
	}
	return prog{code: asm(items...), desc: strings.Join(d, ";")}
}

func vmErrClass(s string) string {
	switch {
	case s == "":
		return "ok"
	case strings.Contains(s, "reverted"):
		return "revert"
	case strings.Contains(s, "out of gas"):
		return "oog"
	case strings.Contains(s, "invalid opcode"):
		return "invalid-opcode"
	case strings.Contains(s, "insufficient balance"):
		return "insufficient-balance"
	case strings.Contains(s, "write protection"):
		return "write-protection"
	case strings.Contains(s, "contract address collision"):
		return "collision"
	case strings.Contains(s, "max code size"), strings.Contains(s, "code size"):
		return "code-size"
	case strings.Contains(s, "invalid code"):
		return "invalid-code"
	case strings.Contains(s, "depth"):
		return "depth"
	default:
		return "other:" + strings.ReplaceAll(s, " ", "_")
	}
}

func TestEngineGeth(t *testing.T) {
	seed := hx.Seed()
	n := hx.EnvInt("VERIF_N", 300)
	r := hx.NewRng(seed ^ 0x9e78)
	p := hx.NewProto("geth")
	defer p.Close()

	done := 0
	epoch := 0
	for done < n {
		epoch++
		c := newChain(t)
		ctx := c.s.CurrentContext
		ek, ak, bk := c.s.ChainApp.EvmKeeper(), c.s.ChainApp.AccountKeeper(), c.s.ChainApp.BankKeeper()
		fund := func(a common.Address, amt int64) {
			coins := sdk.NewCoins(sdk.NewCoin(c.evmDenom, sdkmath.NewInt(amt)))
			require.NoError(t, bk.MintCoins(ctx, minttypes.ModuleName, coins))
			require.NoError(t, bk.SendCoinsFromModuleToAccount(ctx, minttypes.ModuleName, a.Bytes(), coins))
		}
		// universe: contracts, two beneficiaries without account, two funded externally owned accounts
		nC := 5
		var addrs []common.Address
		for i := 0; i < nC; i++ {
			addrs = append(addrs, common.BytesToAddress(crypto.Keccak256([]byte(fmt.Sprintf("geth-%d-%d-c%d", seed, epoch, i)))[12:]))
		}
		ben0 := common.BytesToAddress(crypto.Keccak256([]byte(fmt.Sprintf("geth-%d-%d-ben0", seed, epoch)))[12:])
		ben1 := common.BytesToAddress(crypto.Keccak256([]byte(fmt.Sprintf("geth-%d-%d-ben1", seed, epoch)))[12:])
		targets := append(append([]common.Address{}, addrs...), ben0, ben1)
		eoas := []common.Address{c.wallets[1].GetEthAddress(), c.wallets[2].GetEthAddress()}
		var progs []prog
		for i := 0; i < nC; i++ {
			pg := genProgram(r, i, targets, 2)
			progs = append(progs, pg)
			acc := ak.NewAccountWithAddress(ctx, addrs[i].Bytes())
			_ = acc.SetSequence(1)
			ak.SetAccount(ctx, acc)
			ch := crypto.Keccak256Hash(pg.code)
			ek.SetCode(ctx, ch.Bytes(), pg.code)
			ek.SetCodeHash(ctx, addrs[i], ch)
			if r.Chance(2, 3) {
				fund(addrs[i], int64(50+r.Intn(200)))
			}
			for k := 0; k < r.Intn(3); k++ {
				ek.SetState(ctx, addrs[i], common.BigToHash(big.NewInt(int64(r.Intn(4)))), common.BigToHash(big.NewInt(int64(1+r.Intn(9)))).Bytes())
			}
		}
		// tracked = universe + addresses the programs can create
		tracked := append(append([]common.Address{}, targets...), eoas...)
		inits := [][]byte{}
		for v := 1; v <= 9; v++ {
			for k := 0; k < 3; k++ {
				inits = append(inits, asm("PUSH1", v, "PUSH1", k, "SSTORE", "STOP"))
			}
		}
		inits = append(inits, asm("PUSH1", 0xfe, "PUSH1", 0, "MSTORE8", "PUSH1", 1, "PUSH1", 0, "RETURN"), asm("PUSH1", 0, "PUSH1", 0, "REVERT"))
		for _, a := range addrs {
			for nonce := uint64(1); nonce < 5; nonce++ {
				tracked = append(tracked, crypto.CreateAddress(a, nonce))
			}
			for salt := 0; salt < 2; salt++ {
				for _, ic := range inits {
					tracked = append(tracked, crypto.CreateAddress2(a, common.BigToHash(big.NewInt(int64(salt))), crypto.Keccak256(ic)))
				}
			}
		}
		sort.Slice(tracked, func(i, j int) bool { return bytes.Compare(tracked[i].Bytes(), tracked[j].Bytes()) < 0 })

		// ---- mirror into go-ethereum's own state database -------------------------------------------------------
		gw := &gethWorld{db: gethstate.NewDatabase(rawdb.NewMemoryDatabase())}
		st, err := gethstate.New(common.Hash{}, gw.db, nil)
		require.NoError(t, err)
		for _, a := range tracked {
			bal := bk.GetBalance(ctx, a.Bytes(), c.evmDenom).Amount.BigInt()
			acc := ak.GetAccount(ctx, a.Bytes())
			ch := ek.GetCodeHash(ctx, a.Bytes())
			if acc == nil && bal.Sign() == 0 {
				continue
			}
			st.CreateAccount(a)
			st.SetBalance(a, bal)
			if acc != nil {
				st.SetNonce(a, acc.GetSequence())
			}
			if !evmtypes.IsEmptyCodeHash(ch) {
				st.SetCode(a, ek.GetCode(ctx, ch))
			}
			for _, e := range ek.GetAccountStorage(ctx, a) {
				st.SetState(a, common.HexToHash(e.Key), common.HexToHash(e.Value))
			}
		}
		gw.root, err = st.Commit(true)
		require.NoError(t, err)

		ek.SetFlagEnableNoBaseFee(ctx, true) // as eth_call / estimateGas do: zero-priced messages skip the fee-cap check on both sides
		evmCfg, err := ek.EVMConfig(ctx, nil)
		require.NoError(t, err)
		blockCtx := corevm.BlockContext{CanTransfer: core.CanTransfer, Transfer: core.Transfer, GetHash: func(uint64) common.Hash { return common.Hash{} },
			Coinbase: evmCfg.CoinBase, GasLimit: evertypes.BlockGasLimit(ctx), BlockNumber: big.NewInt(ctx.BlockHeight()), Time: big.NewInt(ctx.BlockHeader().Time.Unix()),
			Difficulty: big.NewInt(0), BaseFee: evmCfg.BaseFee}

		view := func(get func(a common.Address) (uint64, *big.Int, []byte, []common.Hash)) string {
			var parts []string
			for i, a := range tracked {
				nonce, bal, code, slots := get(a)
				if nonce == 0 && bal.Sign() == 0 && len(code) == 0 {
					empty := true
					for _, s := range slots {
						if s != (common.Hash{}) {
							empty = false
						}
					}
					if empty {
						continue
					}
				}
				var ss []string
				for _, s := range slots {
					ss = append(ss, s.Big().String())
				}
				parts = append(parts, fmt.Sprintf("%d:n%d:b%s:c%s:s%s", i, nonce, bal, hex.EncodeToString(crypto.Keccak256(code)[:3]), strings.Join(ss, ",")))
			}
			return strings.Join(parts, " ")
		}
		keys := []common.Hash{common.BigToHash(big.NewInt(0)), common.BigToHash(big.NewInt(1)), common.BigToHash(big.NewInt(2)), common.BigToHash(big.NewInt(3))}

		msgs := 12 + r.Intn(12)
		for mi := 0; mi < msgs && done < n; mi++ {
			from := eoas[r.Intn(2)]
			var to *common.Address
			var data []byte
			value := big.NewInt(0)
			kind := ""
			switch k := r.Intn(100); {
			case mi == 0 && epoch == 1: // directed witness of finding F11: BALANCE(0x0) is charged as warm
				code := asm("PUSH1", 0, "BALANCE", "POP", "STOP")
				// at an address of its own: the universe's contracts keep their programs for the rest of the epoch
				a := common.BytesToAddress(crypto.Keccak256([]byte(fmt.Sprintf("geth-%d-probe", seed)))[12:])
				{
					acc := ak.NewAccountWithAddress(ctx, a.Bytes())
					_ = acc.SetSequence(1)
					ak.SetAccount(ctx, acc)
				}
				ch := crypto.Keccak256Hash(code)
				ek.SetCode(ctx, ch.Bytes(), code)
				ek.SetCodeHash(ctx, a, ch)
				st2, _ := gethstate.New(gw.root, gw.db, nil)
				st2.SetNonce(a, 1)
				st2.SetCode(a, code)
				gw.root, _ = st2.Commit(true)
				to, kind = &a, "balance-of-zero-address"
			case k < 75:
				ti := r.Intn(nC)
				to = &addrs[ti]
				if r.Chance(1, 3) {
					value = big.NewInt(int64(r.Intn(40)))
				}
				kind = fmt.Sprintf("call-c%d[%s]", ti, progs[ti].desc)
			case k < 85:
				tt := hx.Pick(r, []common.Address{ben0, ben1, eoas[0], addrs[0]})
				to, value, kind = &tt, big.NewInt(int64(r.Intn(50))), "transfer"
			case k < 88:
				// a creation whose init code returns normally but whose result is refused at deposit: code starting with
				// 0xEF (EIP-3541), code above the 24576-byte limit (EIP-170) — failures that are not reverts and still
				// carry return data — or an init code that reverts with data
				switch r.Intn(3) {
				case 0:
					data, kind = initCode(append([]byte{0xEF}, make([]byte, r.Intn(4))...)), "create-tx[0xEF code]"
				case 1:
					data, kind = initCode(make([]byte, 24577+r.Intn(3))), "create-tx[oversize code]"
				default:
					data, kind = asm("PUSH1", 0x2a, "PUSH1", 0, "MSTORE", "PUSH1", 32, "PUSH1", 0, "REVERT"), "create-tx[reverting init]"
				}
			default:
				pg := genProgram(r, 9, targets, 1)
				data, kind = initCode(pg.code), "create-tx["+pg.desc+"]"
				if r.Chance(1, 3) {
					value = big.NewInt(int64(r.Intn(20)))
				}
			}
			gas := hexutil.Uint64(3_000_000)
			args := evmtypes.TransactionArgs{From: &from, To: to, Data: (*hexutil.Bytes)(&data), Value: (*hexutil.Big)(value), GasPrice: (*hexutil.Big)(big.NewInt(0)), Gas: &gas}
			if data == nil {
				args.Data = nil
			}
			msg, err := args.ToMessage(0, evmCfg.BaseFee)
			require.NoError(t, err)

			// evermint
			cctx, write := ctx.CacheContext()
			eres, eerr := ek.ApplyMessage(cctx, msg, evmtypes.NewNoOpTracer(), true)
			eOut := ""
			var eLogs []*ethtypes.Log
			if eerr != nil {
				eOut = "consensus-error:" + strings.ReplaceAll(firstWords(eerr.Error(), 6), " ", "_")
			} else {
				write()
				rc := &ethtypes.Receipt{}
				if err := rc.UnmarshalBinary(eres.MarshalledReceipt); err == nil {
					eLogs = rc.Logs
				}
				eOut = fmt.Sprintf("%s ret=%s gas=%d logs=%s", vmErrClass(eres.VmError), hex.EncodeToString(eres.Ret), eres.GasUsed, logsDigest(eLogs))
			}
			// go-ethereum
			gst, err := gethstate.New(gw.root, gw.db, nil)
			require.NoError(t, err)
			gevm := corevm.NewEVM(blockCtx, core.NewEVMTxContext(msg), gst, evmCfg.ChainConfig, corevm.Config{NoBaseFee: true})
			gres, gerr := core.ApplyMessage(gevm, msg, new(core.GasPool).AddGas(uint64(gas)))
			gOut := ""
			if gerr != nil {
				gOut = "consensus-error:" + strings.ReplaceAll(firstWords(gerr.Error(), 6), " ", "_")
			} else {
				es := ""
				if gres.Err != nil {
					es = gres.Err.Error()
				}
				gst.Finalise(true)
				gOut = fmt.Sprintf("%s ret=%s gas=%d logs=%s", vmErrClass(es), hex.EncodeToString(gres.ReturnData), gres.UsedGas, logsDigest(gst.Logs()))
				gw.root, err = gst.Commit(true)
				require.NoError(t, err)
			}
			gst2, _ := gethstate.New(gw.root, gw.db, nil)
			eView := view(func(a common.Address) (uint64, *big.Int, []byte, []common.Hash) {
				var nonce uint64
				if acc := ak.GetAccount(ctx, a.Bytes()); acc != nil {
					nonce = acc.GetSequence()
				}
				var code []byte
				if ch := ek.GetCodeHash(ctx, a.Bytes()); !evmtypes.IsEmptyCodeHash(ch) {
					code = ek.GetCode(ctx, ch)
				}
				var slots []common.Hash
				for _, k := range keys {
					slots = append(slots, ek.GetState(ctx, a, k))
				}
				return nonce, bk.GetBalance(ctx, a.Bytes(), c.evmDenom).Amount.BigInt(), code, slots
			})
			gView := view(func(a common.Address) (uint64, *big.Int, []byte, []common.Hash) {
				var slots []common.Hash
				for _, k := range keys {
					slots = append(slots, gst2.GetState(a, k))
				}
				return gst2.GetNonce(a), gst2.GetBalance(a), gst2.GetCode(a), slots
			})
			op := fmt.Sprintf("msg e=%d i=%d from=%d val=%s kind=%s", epoch, mi, b01(from == eoas[1]), value, strings.ReplaceAll(kind, " ", ""))
			p.Emit(op, eOut+" | "+eView)
			p.Count("res:" + strings.Fields(eOut)[0])
			done++
			if eOut != gOut || eView != gView {
				cls := "C02-differs-from-geth"
				if eView != gView { // balances / state differ from the reference: coins created or lost, accounts wrongly kept or removed
					p.Oracle("C04-differs-from-reference", "%s: post-state differs from go-ethereum's: evermint [%s] go-ethereum [%s]", op, firstDiff(eView, gView), firstDiff(gView, eView))
				}
				// the one documented-in-findings difference: the zero address is pre-warmed (2500 gas cheaper cold access)
				if kind == "balance-of-zero-address" && eView == gView && strings.Replace(eOut, "gas=21105", "gas=23605", 1) == gOut {
					cls = "C02-zero-address-warm"
				}
				p.Oracle(cls, "%s: evermint [%s | %s] go-ethereum [%s | %s]", op, eOut, firstDiff(eView, gView), gOut, firstDiff(gView, eView))
			}
		}
		c.s.Cleanup()
	}
}

func firstWords(s string, n int) string {
	f := strings.Fields(s)
	if len(f) > n {
		f = f[:n]
	}
	return strings.Join(f, " ")
}

func logsDigest(ls []*ethtypes.Log) string {
	if len(ls) == 0 {
		return "-"
	}
	var parts []string
	for _, l := range ls {
		tp := ""
		if len(l.Topics) > 0 {
			tp = l.Topics[0].Big().String()
		}
		parts = append(parts, fmt.Sprintf("%x:%s:%x", l.Address.Bytes()[:3], tp, l.Data))
	}
	return strings.Join(parts, "+")
}

// firstDiff returns the space-separated fields of a that are not in b.
func firstDiff(a, b string) string {
	in := map[string]bool{}
	for _, f := range strings.Fields(b) {
		in[f] = true
	}
	var out []string
	for _, f := range strings.Fields(a) {
		if !in[f] {
			out = append(out, f)
		}
	}
	if len(out) == 0 {
		return "same-state"
	}
	return strings.Join(out, " ")
}
