package engines

import (
	"crypto/sha256"
	"encoding/hex"
	"encoding/json"
	"errors"
	"fmt"
	minttypes "github.com/cosmos/cosmos-sdk/x/mint/types"
	"math/big"
	"sort"
	"strings"
	"testing"

	storetypes "cosmossdk.io/store/types"
	abci "github.com/cometbft/cometbft/abci/types"
	sdk "github.com/cosmos/cosmos-sdk/types"
	"github.com/cosmos/gogoproto/proto"
	"github.com/ethereum/go-ethereum/common"
	"github.com/ethereum/go-ethereum/common/hexutil"
	ethtypes "github.com/ethereum/go-ethereum/core/types"
	"github.com/stretchr/testify/require"

	chainapp "github.com/EscanBE/evermint/v12/app"
	cpcabi "github.com/EscanBE/evermint/v12/x/cpc/abi"
	cpctypes "github.com/EscanBE/evermint/v12/x/cpc/types"
	evmtypes "github.com/EscanBE/evermint/v12/x/evm/types"
	feemarkettypes "github.com/EscanBE/evermint/v12/x/feemarket/types"
	vauthtypes "github.com/EscanBE/evermint/v12/x/vauth/types"

	"verifharness/hx"
)

// E-binsearch: the real `evmtypes.BinSearch` against the Lean `binSearch` on arbitrary (non-monotone)
// executable tables, including consensus errors.
func TestEngineBinsearch(t *testing.T) {
	r := hx.NewRng(hx.Seed() ^ 0xb15)
	n := hx.EnvInt("VERIF_N", 3000)
	p := hx.NewProto("binsearch")
	defer p.Close()
	for i := 0; i < n; i++ {
		lo := uint64(r.Intn(40))
		width := 1 + r.Intn(70)
		if r.Chance(1, 10) {
			width = r.Intn(3)
		}
		hi := lo + uint64(width)
		tab := make([]byte, width+1)
		shape := r.Intn(4)
		thr := r.Intn(width + 1)
		for j := range tab {
			switch shape {
			case 0: // monotone threshold
				if j < thr {
					tab[j] = '1'
				} else {
					tab[j] = '0'
				}
			case 1: // random
				tab[j] = "01"[r.Intn(2)]
			case 2: // mostly failing
				tab[j] = '1'
				if r.Chance(1, 8) {
					tab[j] = '0'
				}
			default: // gaps
				tab[j] = "0011"[(j/(1+thr%5))%4]
			}
			if r.Chance(1, 60) {
				tab[j] = 'e'
			}
		}
		calls := 0
		got, err := evmtypes.BinSearch(lo, hi, func(g uint64) (bool, *evmtypes.MsgEthereumTxResponse, error) {
			calls++
			if g < lo || g > hi {
				return true, nil, fmt.Errorf("probe outside [lo,hi]")
			}
			switch tab[g-lo] {
			case 'e':
				return true, nil, errors.New("consensus error")
			case '1':
				return true, nil, nil
			}
			// a successful probe reports the gas it used (what an estimator might be tempted to take as a bound)
			return false, &evmtypes.MsgEthereumTxResponse{GasUsed: g - uint64(r.Intn(3))%(g+1)}, nil
		})
		obs := fmt.Sprintf("gas=%d", got)
		if err != nil {
			obs = "err"
		}
		p.Emit(fmt.Sprintf("bs lo=%d hi=%d t=%s", lo, hi, string(tab)), obs)
		p.Count(fmt.Sprintf("shape%d:%s", shape, strings.SplitN(obs, "=", 2)[0]))
		// oracle: a value below the initial cap was observed executable
		if err == nil && got != hi && tab[got-lo] != '0' {
			p.Oracle("C08-binsearch-not-executable", "BinSearch returned %d which was not observed executable (lo=%d hi=%d table=%s)", got, lo, hi, tab)
		}
	}
}

var codeGassy = asm(
	"GAS", "PUSH3", 60000, "LT", "PUSH@", "heavy", "JUMPI", "STOP",
	"@heavy", "JUMPDEST", "PUSH2", 6000,
	"@l", "JUMPDEST", "PUSH1", 1, "SWAP1", "SUB", "DUP1", "PUSH@", "l", "JUMPI", "STOP")

// storesDigest hashes every key and value of every KV store of the committed multistore.
func storesDigest(c *chain, app *chainapp.Evermint) string {
	ctx := c.ctx()
	keys := app.GetKVStoreKey()
	var names []string
	for n := range keys {
		names = append(names, n)
	}
	sort.Strings(names)
	h := sha256.New()
	for _, n := range names {
		st := ctx.KVStore(keys[n])
		it := storetypes.KVStorePrefixIterator(st, nil)
		for ; it.Valid(); it.Next() {
			h.Write([]byte(n))
			h.Write(it.Key())
			h.Write([]byte{0})
			h.Write(it.Value())
		}
		it.Close()
	}
	return hex.EncodeToString(h.Sum(nil)[:8]) + ":" + hex.EncodeToString(app.CommitMultiStore().WorkingHash()[:6])
}

// E-query: query / simulation paths through the real ABCI entry points (Query, CheckTx, Simulate) against
// committed states; every store is hashed before and after each request; calls are then delivered as the
// next transaction and compared with what eth_call / estimateGas predicted.
func TestEngineQuery(t *testing.T) {
	seed := hx.Seed()
	n := hx.EnvInt("VERIF_N", 120)
	r := hx.NewRng(seed ^ 0x90e41)
	p := hx.NewProto("query")
	defer p.Close()

	f, c := newErcFixture(t, hx.NewProto("query-fixture"), true)
	storer := c.deployRuntime("q-storer", codeStorer)
	logger := c.deployRuntime("q-logger", codeLogger)
	gassy := c.deployRuntime("q-gassy", codeGassy)
	sd := c.deployRuntime("q-sd", codeSD)
	reverter := c.deployRuntime("q-reverter", codeReverter)
	c.setupDone()
	c.finalize(nil)
	app := c.s.ChainApp.IbcTestingApp().(*chainapp.Evermint)
	runner := f.addrs[5]

	kvKeys := app.GetKVStoreKey()
	var kvNames []string
	for nm := range kvKeys {
		kvNames = append(kvNames, nm)
	}
	sort.Strings(kvNames)
	queryHeight := int64(0)
	query := func(path string, req proto.Message, out proto.Message) (uint32, string) {
		bz, err := proto.Marshal(req)
		require.NoError(t, err)
		h := c.app.LastBlockHeight()
		if queryHeight > 0 {
			h = queryHeight
		}
		res, err := c.app.Query(c.ctx(), &abci.RequestQuery{Path: path, Data: bz, Height: h})
		if err != nil {
			return 1, err.Error()
		}
		if res.Code == 0 && out != nil {
			require.NoError(t, proto.Unmarshal(res.Value, out))
		}
		p.Count(fmt.Sprintf("query:%s:code=%d", path[strings.LastIndex(path, "/")+1:], res.Code))
		if res.Code != 0 && hx.EnvInt("VERIF_DEBUG", 0) > 0 {
			fmt.Println("QUERY FAIL", path, res.Log)
		}
		return res.Code, res.Log
	}
	sender := c.wallets[1]
	type call struct {
		name  string
		to    *common.Address
		data  []byte
		value int64
		pure  bool // reads neither block context nor the sender balance: eth_call must predict delivery
		al    ethtypes.AccessList
	}
	tr := func(to common.Address, amt int64) []byte {
		return append(append([]byte{}, cpcabi.Erc20CpcInfo.ABI.Methods["transfer"].ID...), mustPack(cpcabi.Erc20CpcInfo.ABI.Methods["transfer"].Inputs.Pack(to, big.NewInt(amt)))...)
	}
	mk := func() call {
		switch r.Intn(13) {
		case 9: // no call data, the recipient has no code — but it executes and charges gas: a standard precompile
			a := common.BytesToAddress([]byte{byte(2 + r.Intn(3))}) // sha256, ripemd160, identity
			return call{"dataless-std-precompile", &a, nil, int64(r.Intn(2)), false, nil}
		case 10: // data to a standard precompile
			a := common.BytesToAddress([]byte{byte(2 + 2*r.Intn(2))})
			return call{"std-precompile", &a, make([]byte, 1+r.Intn(70)), 0, true, nil}
		case 11: // a plain value transfer to an account without code
			a := c.wallets[2+r.Intn(3)].GetEthAddress()
			return call{"plain-transfer", &a, nil, int64(1 + r.Intn(9)), false, nil}
		case 12: // no call data to a contract: its code still runs
			return call{"dataless-contract", &gassy, nil, int64(r.Intn(2)), false, nil}
		case 0:
			return call{"storer-set", &storer, []byte{1}, 0, true, nil}
		case 1:
			return call{"storer-clear", &storer, []byte{0}, 0, true, nil}
		case 2:
			return call{"logger", &logger, []byte{byte(1 + r.Intn(4))}, 0, true, nil}
		case 3:
			return call{"gassy", &gassy, nil, 0, false, nil}
		case 4: // a precompile write under simulation
			tb := f.tokens[51]
			return call{"erc20-transfer", &tb, tr(c.wallets[2].GetEthAddress(), int64(1+r.Intn(5))), 0, true, nil}
		case 5: // through a contract: two precompile writes, one in a reverted frame
			tb := f.tokens[51]
			sub := append(record(0, tb, tr(c.wallets[3].GetEthAddress(), 2)), 3)
			script := append(append(record(0, tb, tr(c.wallets[2].GetEthAddress(), 1)), record(0, runner, sub)...), 2)
			return call{"runner-erc20", &runner, script, 0, false, nil}
		case 6:
			return call{"selfdestruct", &sd, common.LeftPadBytes(c.wallets[4].GetEthAddress().Bytes(), 20), 0, false, nil}
		case 7:
			// runtime code that is not in the code store yet (a simulated deployment must not leave the blob behind)
			fresh := append(append([]byte{}, codeLogger...), 0xfe, byte(r.U64()), byte(r.U64()), byte(r.U64()))
			return call{"create", nil, initCode(fresh), 0, false, nil}
		default:
			return call{"reverter", &reverter, nil, 0, true, nil}
		}
	}
	ethCallReq := func(cl call, gas uint64) *evmtypes.EthCallRequest {
		from := sender.GetEthAddress()
		g := hexutil.Uint64(gas)
		args := evmtypes.TransactionArgs{From: &from, To: cl.to, Gas: &g, Value: (*hexutil.Big)(big.NewInt(cl.value))}
		if cl.data != nil {
			args.Data = (*hexutil.Bytes)(&cl.data)
		}
		if cl.al != nil { // an EIP-2930 style call: a gas price AND an access list
			args.AccessList = &cl.al
			args.GasPrice = (*hexutil.Big)(big.NewInt(0))
		}
		bz, _ := json.Marshal(args)
		return &evmtypes.EthCallRequest{Args: bz, GasCap: 25_000_000}
	}
	var lastTxs []*evmtypes.MsgEthereumTx
	var lastHeader = c.hdr
	var lastTime = c.now

	var lateToken *common.Address
	lateHeight := int64(0)
	for i := 0; i < n; i++ {
		if i == n/3 && lateToken == nil {
			// a custom precompile that did not exist at the earlier heights of this history
			w := c.ctx()
			coins := sdk.NewCoins(sdk.NewInt64Coin("ulate", 1_000_000))
			require.NoError(t, c.s.ChainApp.BankKeeper().MintCoins(w, minttypes.ModuleName, coins))
			require.NoError(t, c.s.ChainApp.BankKeeper().SendCoinsFromModuleToAccount(w, minttypes.ModuleName, sender.GetCosmosAddress(), coins))
			a, err := c.s.ChainApp.CpcKeeper().DeployErc20CustomPrecompiledContract(w, "late", cpctypes.Erc20CustomPrecompiledContractMeta{Symbol: "LATE", Decimals: 6, MinDenom: "ulate"})
			require.NoError(t, err)
			lateToken = &a
			c.finalize(nil)
			lateHeight = c.app.LastBlockHeight()
		}
		before := storesDigest(c, app)
		cl := mk()
		if lateToken != nil && r.Chance(1, 4) {
			cl = call{"late-erc20-transfer", lateToken, tr(c.wallets[2].GetEthAddress(), int64(1+r.Intn(5))), 0, true, nil}
		}
		if cl.to != nil && r.Chance(1, 4) { // some calls carry an access list (addresses and slots, touched or not)
			cl.al = ethtypes.AccessList{{Address: *cl.to, StorageKeys: []common.Hash{{}, common.BigToHash(big.NewInt(1))}}, {Address: c.wallets[3].GetEthAddress(), StorageKeys: []common.Hash{}}}
			cl.name += "+al"
		}
		if lateToken != nil && i%3 == 0 {
			// the answer of a query at the latest height does not depend on which queries were served before it:
			// ask, serve a query for a height BEFORE the deployment, ask again
			probe := call{"late-erc20-name", lateToken, pack("name"), 0, true, nil}
			var r1, r2 evmtypes.MsgEthereumTxResponse
			query("/ethermint.evm.v1.Query/EthCall", ethCallReq(probe, 200_000), &r1)
			queryHeight = lateHeight - 1
			var old evmtypes.MsgEthereumTxResponse
			query("/ethermint.evm.v1.Query/EthCall", ethCallReq(probe, 200_000), &old)
			queryHeight = 0
			query("/ethermint.evm.v1.Query/EthCall", ethCallReq(probe, 200_000), &r2)
			if hex.EncodeToString(r1.Ret) != hex.EncodeToString(r2.Ret) || r1.VmError != r2.VmError || len(r2.Ret) == 0 || len(old.Ret) != 0 {
				p.Oracle("C08-query-depends-on-earlier-query", "eth_call name() on a precompile deployed at height %d: latest=%x (%s), at height %d=%x, latest again=%x (%s)", lateHeight, r1.Ret, r1.VmError, lateHeight-1, old.Ret, r2.Ret, r2.VmError)
			}
		}
		var ops []string
		same := func(tag string) {
			if after := storesDigest(c, app); after != before {
				p.Oracle("C08-store-modified", "%s changed committed state (%s -> %s): call %s", tag, before, after, cl.name)
				before = after
			}
			ops = append(ops, tag)
		}
		// ---- eth_call, estimateGas -------------------------------------------------------------------------------
		const gasLimit = 400_000
		var callRes evmtypes.MsgEthereumTxResponse
		codeC, _ := query("/ethermint.evm.v1.Query/EthCall", ethCallReq(cl, gasLimit), &callRes)
		same("eth_call")
		var est evmtypes.EstimateGasResponse
		codeE, logE := query("/ethermint.evm.v1.Query/EstimateGas", ethCallReq(cl, 0), &est)
		same("estimateGas")
		// ---- the same two queries at keeper level, on a branch of the committed state that is NOT discarded by BaseApp:
		// every KV store of the branch must be byte-identical afterwards (commit = false writes nothing, C08_no_commit_no_write)
		{
			cc, _ := c.ctx().CacheContext()
			b0 := dumpStores(cc, kvKeys, kvNames)
			_, _ = c.s.ChainApp.EvmKeeper().EthCall(cc, ethCallReq(cl, gasLimit))
			if d := diffDumps(b0, dumpStores(cc, kvKeys, kvNames)); len(d) > 0 {
				p.Oracle("C08-store-modified", "keeper-level eth_call (commit=false) wrote %d store entries on its own context, first: %s; call %s", len(d), strings.Join(firstK(d, 3), ";"), cl.name)
			}
			cc2, _ := c.ctx().CacheContext()
			_, _ = c.s.ChainApp.EvmKeeper().EstimateGas(cc2, ethCallReq(cl, 0))
			if d := diffDumps(b0, dumpStores(cc2, kvKeys, kvNames)); len(d) > 0 {
				p.Oracle("C08-store-modified", "keeper-level estimateGas wrote %d store entries on its own context, first: %s; call %s", len(d), strings.Join(firstK(d, 3), ";"), cl.name)
			}
			ops = append(ops, "keeper-level")
		}
		// ---- estimateGas with the caller's gas above a gas cap that is below what the call needs: the only correct
		// answers are an error or an estimate that is at least the requirement found without the cap
		if codeE == 0 && est.Gas > 30_000 && cl.pure {
			capped := ethCallReq(cl, 10_000_000)
			capped.GasCap = est.Gas - uint64(1+r.Intn(int(est.Gas-21_000)))
			var est2 evmtypes.EstimateGasResponse
			if code2, _ := query("/ethermint.evm.v1.Query/EstimateGas", capped, &est2); code2 == 0 && est2.Gas < est.Gas {
				p.Oracle("C08-estimate-not-executable", "%s: needs %d gas; with gas cap %d (caller gas 10000000) estimateGas returned %d, a limit the call cannot run with", cl.name, est.Gas, capped.GasCap, est2.Gas)
			}
			same("estimateGas-capped")
		}
		// ---- other queries ------------------------------------------------------------------------------------------
		switch r.Intn(6) {
		case 0:
			query("/ethermint.evm.v1.Query/Account", &evmtypes.QueryAccountRequest{Address: storer.Hex()}, &evmtypes.QueryAccountResponse{})
			query("/ethermint.evm.v1.Query/Storage", &evmtypes.QueryStorageRequest{Address: storer.Hex(), Key: common.Hash{}.Hex()}, &evmtypes.QueryStorageResponse{})
			query("/ethermint.evm.v1.Query/Code", &evmtypes.QueryCodeRequest{Address: storer.Hex()}, &evmtypes.QueryCodeResponse{})
			same("evm-queries")
		case 1:
			query("/evermint.cpc.v1.Query/CustomPrecompiledContracts", &cpctypes.QueryCustomPrecompiledContractsRequest{}, nil)
			query("/evermint.cpc.v1.Query/Params", &cpctypes.QueryParamsRequest{}, nil)
			same("cpc-queries")
		case 2:
			query("/ethermint.feemarket.v1.Query/Params", &feemarkettypes.QueryParamsRequest{}, nil)
			query("/ethermint.evm.v1.Query/BaseFee", &evmtypes.QueryBaseFeeRequest{}, nil)
			same("feemarket-queries")
		case 3:
			query("/evermint.vauth.v1.Query/ProofExternalOwnedAccount", &vauthtypes.QueryProofExternalOwnedAccountRequest{Account: sender.GetCosmosAddress().String()}, nil)
			same("vauth-queries")
		case 4:
			if len(lastTxs) > 0 { // trace the last delivered tx with its predecessors (commit = true inside a query context)
				k := r.Intn(len(lastTxs))
				queryHeight = lastHeader.Height - 1 // as the JSON-RPC backend does: the state before the traced block
				query("/ethermint.evm.v1.Query/TraceTx", &evmtypes.QueryTraceTxRequest{Msg: lastTxs[k], Predecessors: lastTxs[:k], BlockNumber: lastHeader.Height,
					BlockHash: common.BytesToHash(blockHashOf(lastHeader.Height)).Hex(), BlockTime: lastTime, ProposerAddress: c.hdr.ProposerAddress}, nil)
				queryHeight = 0
				same("traceTx")
			}
		default:
			if len(lastTxs) > 0 {
				queryHeight = lastHeader.Height - 1
				query("/ethermint.evm.v1.Query/TraceBlock", &evmtypes.QueryTraceBlockRequest{Txs: lastTxs, BlockNumber: lastHeader.Height,
					BlockHash: common.BytesToHash(blockHashOf(lastHeader.Height)).Hex(), BlockTime: lastTime, ProposerAddress: c.hdr.ProposerAddress}, nil)
				queryHeight = 0
				same("traceBlock")
			}
		}
		// ---- mempool admission and simulation of the same call as a real transaction -------------------------------------
		ctx := c.ctx()
		baseFee := c.s.ChainApp.FeeMarketKeeper().GetBaseFee(ctx).BigInt()
		price := new(big.Int).Add(baseFee, big.NewInt(1000))
		nonce := c.seq(ctx, sender.GetCosmosAddress())
		build := func(gas uint64, nonce uint64) ([]byte, *ethtypes.Transaction) {
			typ := 0
			if cl.al != nil {
				typ = 1
			}
			return c.buildEthTx(ethTxArgs{from: sender, typ: typ, nonce: nonce, to: cl.to, value: big.NewInt(cl.value), gas: gas, gasPrice: price, feeCap: price, tip: big.NewInt(0), data: cl.data, access: cl.al})
		}
		txBytes, _ := build(gasLimit, nonce)
		_, _, _ = c.app.Simulate(txBytes)
		same("simulate")
		_, _ = c.app.CheckTx(&abci.RequestCheckTx{Tx: txBytes, Type: abci.CheckTxType_New})
		same("checkTx")
		_, _ = c.app.CheckTx(&abci.RequestCheckTx{Tx: txBytes, Type: abci.CheckTxType_Recheck})
		same("recheckTx")

		// ---- prediction: deliver the same call (same gas limit), and once more with the estimate as gas limit -------------
		txs := [][]byte{txBytes}
		estOK := codeE == 0 && est.Gas > 0
		if estOK {
			t2, _ := build(est.Gas, nonce+1)
			txs = append(txs, t2)
		}
		res := c.finalize(txs)
		lastHeader.Height = c.app.LastBlockHeight()
		lastTime = c.now
		lastTxs = lastTxs[:0]
		for _, bz := range txs {
			dec, err := c.s.EncodingConfig.TxConfig.TxDecoder()(bz)
			require.NoError(t, err)
			lastTxs = append(lastTxs, dec.GetMsgs()[0].(*evmtypes.MsgEthereumTx))
		}
		o := c.observe(res.TxResults[0])
		dGas, dErr, dLogs, dRet := uint64(0), "n/a", -1, ""
		if o.hasRcpt && o.receipt != nil {
			dGas, dErr, dLogs = o.rGasUsed, vmErrClass(o.vmErr), len(o.receipt.Logs)
			var md sdk.TxMsgData
			if err := proto.Unmarshal(res.TxResults[0].Data, &md); err == nil && len(md.MsgResponses) > 0 {
				var er evmtypes.MsgEthereumTxResponse
				if err := proto.Unmarshal(md.MsgResponses[0].Value, &er); err == nil {
					dRet = hex.EncodeToString(er.Ret)
				}
			}
		}
		cLogs := 0
		if rc := (&ethtypes.Receipt{}); callRes.MarshalledReceipt != nil && rc.UnmarshalBinary(callRes.MarshalledReceipt) == nil {
			cLogs = len(rc.Logs)
		}
		pred := "-"
		if cl.pure && codeC == 0 && o.hasRcpt {
			pred = "ok"
			if callRes.GasUsed != dGas || vmErrClass(callRes.VmError) != dErr || cLogs != dLogs || hex.EncodeToString(callRes.Ret) != dRet {
				pred = "mismatch"
				p.Oracle("C08-prediction", "%s: eth_call said [%s gas=%d logs=%d ret=%x], delivery gave [%s gas=%d logs=%d ret=%s]", cl.name, vmErrClass(callRes.VmError), callRes.GasUsed, cLogs, callRes.Ret, dErr, dGas, dLogs, dRet)
			}
		}
		estS := "-"
		if estOK {
			o2 := c.observe(res.TxResults[1])
			estS = fmt.Sprintf("%d:%s", est.Gas, vmErrClass(o2.vmErr))
			if !o2.hasRcpt || o2.vmErr != "" {
				// the estimate was computed on the state before tx 0 of this block; only judge calls whose first delivery cannot change the outcome of the second
				base := strings.TrimSuffix(cl.name, "+al")
				if base == "logger" || base == "reverter" || base == "gassy" || base == "erc20-transfer" || base == "dataless-std-precompile" || base == "std-precompile" || base == "plain-transfer" || base == "dataless-contract" {
					p.Oracle("C08-estimate-not-executable", "%s: estimateGas returned %d but delivery with that limit failed: class=%s vmErr=%q", cl.name, est.Gas, obsClass(o2), o2.vmErr)
				}
			}
		} else if codeE != 0 {
			estS = "err:" + firstWords(logE, 3)
		}
		p.Emit(fmt.Sprintf("q i=%d call=%s", i, cl.name), fmt.Sprintf("queries=%s call=%s/%d est=%s deliver=%s/%d pred=%s", strings.Join(ops, ","), vmErrClass(callRes.VmError), callRes.GasUsed, strings.ReplaceAll(estS, " ", "_"), dErr, dGas, pred))
		p.Count("call:" + cl.name)
	}
}
