package engines

import (
	"fmt"
	vestingtypes "github.com/cosmos/cosmos-sdk/x/auth/vesting/types"
	"math/big"
	"sort"
	"strings"
	"testing"
	"time"

	sdkmath "cosmossdk.io/math"
	sdk "github.com/cosmos/cosmos-sdk/types"
	authtypes "github.com/cosmos/cosmos-sdk/x/auth/types"
	bankkeeper "github.com/cosmos/cosmos-sdk/x/bank/keeper"
	banktypes "github.com/cosmos/cosmos-sdk/x/bank/types"
	minttypes "github.com/cosmos/cosmos-sdk/x/mint/types"
	"github.com/ethereum/go-ethereum/common"
	"github.com/ethereum/go-ethereum/common/hexutil"
	ethtypes "github.com/ethereum/go-ethereum/core/types"
	"github.com/stretchr/testify/require"

	"github.com/EscanBE/evermint/v12/constants"
	cpcabi "github.com/EscanBE/evermint/v12/x/cpc/abi"
	cpctypes "github.com/EscanBE/evermint/v12/x/cpc/types"
	evmtypes "github.com/EscanBE/evermint/v12/x/evm/types"

	"verifharness/hx"
)

// E-erc20: random sequences of ERC-20 precompile calls (two tokens over two bank denominations)
// by EOAs, contracts (through a forwarder), the zero address and module addresses, with edge
// amounts, interleaved with native bank sends.  Calls run through the real EVM
// (`EvmKeeper.ApplyMessage`, commit = true): NewEVM wiring, fork dispatch, executor, StateDB commit.
// After every op bank balances, supplies and the whole allowance store are compared with the model.

// forwarder: calldata = target(32) ++ payload; CALLs target with payload, bubbles up result.
var codeForwarder = asm(
	"PUSH1", 32, "CALLDATASIZE", "SUB",
	"DUP1", "PUSH1", 32, "PUSH1", 0, "CALLDATACOPY",
	"PUSH1", 0, "PUSH1", 0, "DUP3", "PUSH1", 0, "PUSH1", 0, "PUSH1", 0, "CALLDATALOAD", "GAS", "CALL",
	"RETURNDATASIZE", "PUSH1", 0, "PUSH1", 0, "RETURNDATACOPY",
	"PUSH@", "ok", "JUMPI",
	"RETURNDATASIZE", "PUSH1", 0, "REVERT",
	"@ok", "JUMPDEST", "RETURNDATASIZE", "PUSH1", 0, "RETURN")

type ercFixture struct {
	c        *chain
	ctx      sdk.Context
	addrs    map[int]common.Address // id -> address
	ids      []int
	tokens   map[int]common.Address // token id -> precompile address
	denoms   map[int]string         // denom id -> denom
	tokDen   map[int]int
	fwd      map[int]bool // ids that are forwarder contracts
	probeRng *hx.Rng      // E-calltree: view probes appended to root frames
}

var (
	topicTransfer = common.HexToHash("0xddf252ad1be2c89b69c2b068fc378daa952ba7f163c4a11628f55a4df523b3ef")
	topicApproval = common.HexToHash("0x8c5be1e5ebec7d5bd14f71427d1e84f3dd0314c0f7b2291e5b200ac8c7c3b925")
	maxU256       = new(big.Int).Sub(new(big.Int).Lsh(big.NewInt(1), 256), big.NewInt(1))
)

func (f *ercFixture) idOf(a common.Address) int {
	for id, x := range f.addrs {
		if x == a {
			return id
		}
	}
	for id, x := range f.tokens {
		if x == a {
			return id
		}
	}
	return 999
}

func (f *ercFixture) digest() string {
	bk := f.c.s.ChainApp.BankKeeper()
	var bals, sups, als []string
	for _, id := range f.ids {
		for d := 0; d < len(f.denoms); d++ {
			v := bk.GetBalance(f.ctx, f.addrs[id].Bytes(), f.denoms[d]).Amount
			if !v.IsZero() {
				bals = append(bals, fmt.Sprintf("%d:%d:%s", id, d, v.String()))
			}
		}
	}
	for d := 0; d < len(f.denoms); d++ {
		sups = append(sups, fmt.Sprintf("%d:%s", d, bk.GetSupply(f.ctx, f.denoms[d]).Amount.String()))
	}
	ck := f.c.s.ChainApp.CpcKeeper()
	for _, o := range f.ids {
		for _, s := range f.ids {
			v := ck.GetErc20CpcAllowance(f.ctx, f.addrs[o], f.addrs[s])
			if v.Sign() != 0 {
				als = append(als, fmt.Sprintf("%d:%d:%s", o, s, v.String()))
			}
		}
	}
	return fmt.Sprintf("bal=%s sup=%s al=%s", strings.Join(bals, ","), strings.Join(sups, ","), strings.Join(als, ","))
}

// rawAllowanceEntries counts every entry under the allowance prefix (also those outside the universe).
func (f *ercFixture) rawAllowanceEntries() int {
	n := 0
	app := f.c.s.ChainApp
	_ = app
	return n
}

func (f *ercFixture) call(from common.Address, to common.Address, input []byte) (*evmtypes.MsgEthereumTxResponse, error) {
	ek := f.c.s.ChainApp.EvmKeeper()
	baseFee := ek.GetBaseFee(f.ctx).BigInt()
	gas := hexutil.Uint64(4_000_000_000)
	args := evmtypes.TransactionArgs{From: &from, To: &to, Data: (*hexutil.Bytes)(&input), GasPrice: (*hexutil.Big)(baseFee), Gas: &gas}
	msg, err := args.ToMessage(0, baseFee)
	if err != nil {
		return nil, err
	}
	return ek.ApplyMessage(f.ctx, msg, evmtypes.NewNoOpTracer(), true)
}

func pack(name string, args ...any) []byte {
	m := cpcabi.Erc20CpcInfo.ABI.Methods[name]
	bz, err := m.Inputs.Pack(args...)
	if err != nil {
		panic(err)
	}
	return append(append([]byte{}, m.ID...), bz...)
}

func newErcFixture(t *testing.T, p *hx.Proto, runners bool) (*ercFixture, *chain) {
	c := newChain(t)
	ctx := c.s.CurrentContext
	f := &ercFixture{c: c, ctx: ctx, addrs: map[int]common.Address{}, tokens: map[int]common.Address{}, denoms: map[int]string{0: c.evmDenom, 1: "utwo"}, tokDen: map[int]int{}, fwd: map[int]bool{}}
	bk := c.s.ChainApp.BankKeeper()
	ck := c.s.ChainApp.CpcKeeper()
	fund := func(a common.Address, d string, amt *big.Int) {
		coins := sdk.NewCoins(sdk.NewCoin(d, sdkmath.NewIntFromBigInt(amt)))
		require.NoError(t, bk.MintCoins(ctx, minttypes.ModuleName, coins))
		require.NoError(t, bk.SendCoinsFromModuleToAccount(ctx, minttypes.ModuleName, a.Bytes(), coins))
	}
	// universe
	f.addrs[0] = common.Address{}
	for i := 1; i <= 4; i++ {
		f.addrs[i] = c.wallets[i].GetEthAddress()
	}
	code := codeForwarder
	if runners {
		code = codeRunner
	}
	f.addrs[5] = c.deployRuntime("erc-fwd-1", code)
	f.addrs[6] = c.deployRuntime("erc-fwd-2", code)
	f.fwd[5], f.fwd[6] = true, true
	f.addrs[7] = common.HexToAddress("0x00000000000000000000000000000000000f4e57") // no account yet
	{                                                                              // a holder whose coins are partly locked by vesting (it only receives and is looked at; it never sends)
		a := common.HexToAddress("0x00000000000000000000000000000000000e5780")
		ak := c.s.ChainApp.AccountKeeper()
		baseAcc := ak.NewAccountWithAddress(ctx, a.Bytes()).(*authtypes.BaseAccount)
		bva, err := vestingtypes.NewBaseVestingAccount(baseAcc, sdk.NewCoins(sdk.NewInt64Coin("utwo", 700), sdk.NewInt64Coin(c.evmDenom, 900)), ctx.BlockTime().Add(1000*time.Hour).Unix())
		require.NoError(t, err)
		ak.SetAccount(ctx, vestingtypes.NewDelayedVestingAccountRaw(bva))
		f.addrs[8] = a
	}
	f.addrs[9] = common.HexToAddress("0x00000000000000000000000000000000000071c9") // a pure recipient: sequence 0, no code, and (at first) coins of the second denomination only
	f.addrs[90] = common.BytesToAddress(authtypes.NewModuleAddress(authtypes.FeeCollectorName))
	f.addrs[91] = common.BytesToAddress(authtypes.NewModuleAddress(evmtypes.ModuleName))
	f.addrs[92] = cpctypes.CpcModuleAddress
	for id := range f.addrs {
		f.ids = append(f.ids, id)
	}
	sort.Ints(f.ids)
	// a second denomination with supply
	for i := 1; i <= 6; i++ {
		fund(f.addrs[i], "utwo", big.NewInt(int64(1000*i)))
	}
	fund(f.addrs[9], "utwo", big.NewInt(444))
	fund(f.addrs[8], "utwo", big.NewInt(750))
	fund(f.addrs[8], c.evmDenom, big.NewInt(950))
	fund(f.addrs[5], c.evmDenom, big.NewInt(5000))
	fund(f.addrs[6], c.evmDenom, big.NewInt(6000))
	{ // the cpc module account holds some too
		coins := sdk.NewCoins(sdk.NewInt64Coin("utwo", 77))
		require.NoError(t, bk.MintCoins(ctx, minttypes.ModuleName, coins))
		require.NoError(t, bk.SendCoinsFromModuleToModule(ctx, minttypes.ModuleName, cpctypes.ModuleName, coins))
	}
	// two ERC-20 precompiles
	tA := ck.GetErc20CustomPrecompiledContractAddressByMinDenom(ctx, c.evmDenom)
	if tA == nil {
		a, err := ck.DeployErc20CustomPrecompiledContract(ctx, "native", cpctypes.Erc20CustomPrecompiledContractMeta{Symbol: constants.SymbolDenom, Decimals: 18, MinDenom: c.evmDenom})
		require.NoError(t, err)
		tA = &a
	}
	tB, err := ck.DeployErc20CustomPrecompiledContract(ctx, "two", cpctypes.Erc20CustomPrecompiledContractMeta{Symbol: "TWO", Decimals: 6, MinDenom: "utwo"})
	require.NoError(t, err)
	f.tokens[50], f.tokens[51] = *tA, tB
	f.tokDen[50], f.tokDen[51] = 0, 1

	blocked := []string{}
	for _, id := range f.ids {
		if bk.BlockedAddr(f.addrs[id].Bytes()) {
			blocked = append(blocked, fmt.Sprint(id))
		}
	}
	var balInit, supInit []string
	for _, id := range f.ids {
		for d := 0; d < 2; d++ {
			v := bk.GetBalance(ctx, f.addrs[id].Bytes(), f.denoms[d]).Amount
			if !v.IsZero() {
				balInit = append(balInit, fmt.Sprintf("%d:%d:%s", id, d, v.String()))
			}
		}
	}
	for d := 0; d < 2; d++ {
		supInit = append(supInit, fmt.Sprintf("%d:%s", d, bk.GetSupply(ctx, f.denoms[d]).Amount.String()))
	}
	idsS := []string{}
	for _, id := range f.ids {
		idsS = append(idsS, fmt.Sprint(id))
	}
	p.Emit(fmt.Sprintf("einit tokens=50:0,51:1 blocked=%s addrs=%s denoms=0,1 bal=%s sup=%s", strings.Join(blocked, ","), strings.Join(idsS, ","), strings.Join(balInit, ","), strings.Join(supInit, ",")),
		"ok "+f.digest())
	return f, c
}

func TestEngineErc20(t *testing.T) {
	seed := hx.Seed()
	n := hx.EnvInt("VERIF_N", 1500)
	r := hx.NewRng(seed ^ 0xe2c20)
	p := hx.NewProto("erc20")
	defer p.Close()
	f, c := newErcFixture(t, p, false)
	_ = c
	bk := c.s.ChainApp.BankKeeper()

	// specification shadow (implementation-side oracle): per-token allowances, and the unscoped table the code keeps
	type key3 struct{ t, o, s int }
	type key2 struct{ o, s int }
	shadow := map[key3]*big.Int{}
	unscoped := map[key2]*big.Int{}
	get3 := func(k key3) *big.Int {
		if v, ok := shadow[k]; ok {
			return v
		}
		return big.NewInt(0)
	}
	get2 := func(k key2) *big.Int {
		if v, ok := unscoped[k]; ok {
			return v
		}
		return big.NewInt(0)
	}

	callers := []int{1, 1, 2, 2, 3, 3, 4, 5, 6, 0, 7, 92, 90}
	anyAddr := func() int { return hx.Pick(r, f.ids) }
	amountFor := func(holder, den int) *big.Int {
		b := bk.GetBalance(f.ctx, f.addrs[holder].Bytes(), f.denoms[den]).Amount.BigInt()
		switch r.Intn(9) {
		case 0:
			return big.NewInt(0)
		case 1:
			return big.NewInt(1)
		case 2:
			return new(big.Int).Set(b)
		case 3:
			return new(big.Int).Add(b, big.NewInt(1))
		case 4:
			return new(big.Int).Set(maxU256)
		case 5:
			return new(big.Int).Rsh(b, 1)
		default:
			return big.NewInt(int64(r.Intn(700)))
		}
	}

	doCall := func(tok, caller int, method string, a, b int, amt *big.Int) {
		var input []byte
		switch method {
		case "balanceOf":
			input = pack(method, f.addrs[a])
		case "totalSupply":
			input = pack(method)
		case "allowance":
			input = pack(method, f.addrs[a], f.addrs[b])
		case "transfer", "approve", "burnFrom":
			input = pack(method, f.addrs[a], amt)
		case "transferFrom":
			input = pack(method, f.addrs[a], f.addrs[b], amt)
		case "burn":
			input = pack(method, amt)
		}
		var res *evmtypes.MsgEthereumTxResponse
		var err error
		if f.fwd[caller] {
			payload := append(common.LeftPadBytes(f.tokens[tok].Bytes(), 32), input...)
			res, err = f.call(f.addrs[1], f.addrs[caller], payload)
		} else {
			res, err = f.call(f.addrs[caller], f.tokens[tok], input)
		}
		op := fmt.Sprintf("erc t=%d c=%d m=%s a=%d b=%d n=%s", tok, caller, method, a, b, amt.String())
		if err != nil {
			p.Emit(op, "error:"+strings.ReplaceAll(err.Error(), " ", "_")+" "+f.digest())
			p.Count("error")
			return
		}
		den := f.tokDen[tok]
		if res.VmError != "" {
			p.Emit(op, "revert "+f.digest())
			p.Count(method + ":revert")
			return
		}
		ret := new(big.Int).SetBytes(res.Ret)
		logS := "-"
		rc := &ethtypes.Receipt{}
		nLogs := 0
		if err := rc.UnmarshalBinary(res.MarshalledReceipt); err == nil {
			var parts []string
			for _, lg := range rc.Logs {
				if lg.Address != f.tokens[tok] {
					continue // logs of the forwarder (none) or others
				}
				nLogs++
				if len(lg.Topics) == 3 && lg.Topics[0] == topicTransfer {
					parts = append(parts, fmt.Sprintf("T:%d:%d:%d:%s", tok, f.idOf(common.BytesToAddress(lg.Topics[1].Bytes())), f.idOf(common.BytesToAddress(lg.Topics[2].Bytes())), new(big.Int).SetBytes(lg.Data).String()))
				} else if len(lg.Topics) == 3 && lg.Topics[0] == topicApproval {
					parts = append(parts, fmt.Sprintf("A:%d:%d:%d:%s", tok, f.idOf(common.BytesToAddress(lg.Topics[1].Bytes())), f.idOf(common.BytesToAddress(lg.Topics[2].Bytes())), new(big.Int).SetBytes(lg.Data).String()))
				} else {
					parts = append(parts, "?")
				}
			}
			if len(rc.Logs) != nLogs {
				parts = append(parts, fmt.Sprintf("foreign=%d", len(rc.Logs)-nLogs))
			}
			if len(parts) > 0 {
				logS = strings.Join(parts, "+")
			}
		}
		p.Emit(op, fmt.Sprintf("ok ret=%s log=%s ", ret.String(), logS)+f.digest())
		p.Count(method + ":ok")
		_ = den
		// ---- oracle: allowance safety against the per-token specification ----------------------------
		switch method {
		case "approve":
			shadow[key3{tok, caller, a}] = new(big.Int).Set(amt)
			unscoped[key2{caller, a}] = new(big.Int).Set(amt)
		case "transferFrom", "burnFrom":
			if a != caller {
				k3, k2 := key3{tok, a, caller}, key2{a, caller}
				cur := get3(k3)
				if cur.Cmp(maxU256) != 0 {
					if cur.Cmp(amt) < 0 {
						if get2(k2).Cmp(maxU256) == 0 || get2(k2).Cmp(amt) >= 0 {
							p.Oracle("C10-cross-token-allowance", "spender %d moved %s of holder %d on token %d with per-token allowance %s: the allowance came from another ERC-20 precompile: %s", caller, amt, a, tok, cur, op)
						} else {
							p.Oracle("C10-allowance-exceeded", "spender %d moved %s of holder %d on token %d with allowance %s: %s", caller, amt, a, tok, cur, op)
						}
						shadow[k3] = big.NewInt(0)
					} else {
						shadow[k3] = new(big.Int).Sub(cur, amt)
					}
				}
				if u := get2(k2); u.Cmp(maxU256) != 0 {
					if u.Cmp(amt) >= 0 {
						unscoped[k2] = new(big.Int).Sub(u, amt)
					} else {
						unscoped[k2] = big.NewInt(0)
					}
				}
			}
		}
	}

	// directed witness of finding F5, replayed first on every run
	doCall(50, 1, "approve", 2, 0, big.NewInt(500))
	doCall(51, 2, "transferFrom", 1, 3, big.NewInt(400))

	// directed: a zero-value message to the holder that has coins of the second denomination only (sequence 0, no code):
	// nobody but the holder may move or burn them, so every balance must stand (emptiness looks at every denomination)
	touch := func(caller, to int) {
		op := fmt.Sprintf("etouch c=%d a=%d", caller, to)
		if _, err := f.call(f.addrs[caller], f.addrs[to], nil); err != nil {
			p.Emit(op, "error "+f.digest())
		} else {
			p.Emit(op, "ok "+f.digest())
		}
		p.Count("touch")
	}
	touch(1, 9)
	doCall(51, 2, "transfer", 7, 0, big.NewInt(5)) // the account that did not exist receives the second denomination only …
	touch(3, 7)                                    // … and is touched

	for i := 0; i < n; i++ {
		tok := 50 + r.Intn(2)
		den := f.tokDen[tok]
		caller := hx.Pick(r, callers)
		switch k := r.Intn(100); {
		case k < 6:
			doCall(tok, caller, "balanceOf", anyAddr(), 0, big.NewInt(0))
		case k < 9:
			doCall(tok, caller, "totalSupply", 0, 0, big.NewInt(0))
		case k < 14:
			doCall(tok, caller, "allowance", anyAddr(), anyAddr(), big.NewInt(0))
		case k < 34:
			doCall(tok, caller, "transfer", anyAddr(), 0, amountFor(caller, den))
		case k < 54:
			from := anyAddr()
			amt := amountFor(from, den)
			if al := f.c.s.ChainApp.CpcKeeper().GetErc20CpcAllowance(f.ctx, f.addrs[from], f.addrs[caller]); al.Sign() > 0 && r.Chance(1, 3) {
				amt = new(big.Int).Set(al) // spend the allowance exactly: the entry must disappear
				if al.Cmp(maxU256) == 0 || r.Chance(1, 4) {
					amt = new(big.Int).Sub(al, big.NewInt(1))
				}
			}
			doCall(tok, caller, "transferFrom", from, anyAddr(), amt)
		case k < 72:
			sp := anyAddr()
			amt := amountFor(caller, den)
			if r.Chance(1, 6) {
				amt = new(big.Int).Set(maxU256)
			}
			if r.Chance(1, 4) { // values at the edges of the byte encodings of the stored allowance
				two := func(k uint) *big.Int { return new(big.Int).Lsh(big.NewInt(1), k) }
				amt = hx.Pick(r, []*big.Int{big.NewInt(255), big.NewInt(256), big.NewInt(65535), new(big.Int).Sub(two(64), big.NewInt(1)), two(64), two(128),
					new(big.Int).Sub(two(255), big.NewInt(1)), two(255), new(big.Int).Sub(maxU256, big.NewInt(1)), new(big.Int).Sub(two(248), big.NewInt(1)), two(248)})
				p.Count("approve:edge-value")
			}
			doCall(tok, caller, "approve", sp, 0, amt)
		case k < 80:
			doCall(tok, caller, "burn", 0, 0, amountFor(caller, den))
		case k < 90:
			from := anyAddr()
			amt := amountFor(from, den)
			if al := f.c.s.ChainApp.CpcKeeper().GetErc20CpcAllowance(f.ctx, f.addrs[from], f.addrs[caller]); al.Sign() > 0 && al.Cmp(maxU256) != 0 && r.Chance(1, 3) {
				amt = new(big.Int).Set(al)
			}
			doCall(tok, caller, "burnFrom", from, 0, amt)
		case k < 93: // a zero-value plain EVM message to an address (touches it; it holds coins of some denomination or nothing)
			to := hx.Pick(r, []int{1, 2, 3, 4, 7, 8, 5, 9, 9})
			touch(1+r.Intn(4), to)
		default:
			// native bank send through the real message server
			from, to := 1+r.Intn(4), anyAddr()
			amt := amountFor(from, den)
			if amt.BitLen() > 200 {
				amt = big.NewInt(3)
			}
			op := fmt.Sprintf("esend f=%d t=%d d=%d n=%s", from, to, den, amt.String())
			ms := bankkeeper.NewMsgServerImpl(bk)
			cctx, write := f.ctx.CacheContext()
			ok := true
			if amt.Sign() == 0 {
				ok = false // MsgSend.ValidateBasic refuses zero coins
				p.Count("send:zero")
				continue
			}
			_, err := ms.Send(cctx, &banktypes.MsgSend{FromAddress: sdk.AccAddress(f.addrs[from].Bytes()).String(), ToAddress: sdk.AccAddress(f.addrs[to].Bytes()).String(),
				Amount: sdk.NewCoins(sdk.NewCoin(f.denoms[den], sdkmath.NewIntFromBigInt(amt)))})
			if err != nil {
				ok = false
			} else {
				write()
			}
			if ok {
				p.Emit(op, "ok "+f.digest())
				p.Count("send:ok")
			} else {
				p.Emit(op, "fail "+f.digest())
				p.Count("send:fail")
			}
		}
	}
}
