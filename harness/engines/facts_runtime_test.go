package engines

import "testing"

// runtimeFacts is extended by the engines' files (tables introspected from a running app).
func runtimeFacts(t *testing.T) map[string]any {
	out := map[string]any{}
	for _, f := range runtimeFactProviders {
		for k, v := range f(t) {
			out[k] = v
		}
	}
	return out
}

var runtimeFactProviders []func(t *testing.T) map[string]any
