package engines

import (
	"sort"
	"testing"

	cpctypes "github.com/EscanBE/evermint/v12/x/cpc/types"
	evmtypes "github.com/EscanBE/evermint/v12/x/evm/types"
	vauthtypes "github.com/EscanBE/evermint/v12/x/vauth/types"
)

// Store-key prefixes are package-level byte slices that every goroutine (consensus, queries, mempool checks) extends
// with `append(prefix, addr...)`.  That is only safe while the slice has no spare capacity: with cap > len the
// appends of all goroutines write into one shared backing array.  The fact lists the prefixes with spare capacity
// (none); the set of package-level variables itself is pinned by the census (fact_pkg_vars).
func init() {
	runtimeFactProviders = append(runtimeFactProviders, func(t *testing.T) map[string]any {
		prefixes := map[string][]byte{
			"evm.KeyPrefixCode":                          evmtypes.KeyPrefixCode,
			"evm.KeyPrefixStorage":                       evmtypes.KeyPrefixStorage,
			"evm.KeyPrefixParams":                        evmtypes.KeyPrefixParams,
			"evm.KeyPrefixCodeHash":                      evmtypes.KeyPrefixCodeHash,
			"evm.KeyPrefixBlockHash":                     evmtypes.KeyPrefixBlockHash,
			"evm.KeyEip155ChainId":                       evmtypes.KeyEip155ChainId,
			"evm.KeyPrefixTransientTxGas":                evmtypes.KeyPrefixTransientTxGas,
			"evm.KeyPrefixTransientTxLogCount":           evmtypes.KeyPrefixTransientTxLogCount,
			"evm.KeyPrefixTransientTxReceipt":            evmtypes.KeyPrefixTransientTxReceipt,
			"evm.KeyTransientFlagIncreasedSenderNonce":   evmtypes.KeyTransientFlagIncreasedSenderNonce,
			"evm.KeyTransientFlagNoBaseFee":              evmtypes.KeyTransientFlagNoBaseFee,
			"evm.KeyTransientSenderPaidFee":              evmtypes.KeyTransientSenderPaidFee,
			"evm.KeyTransientTxCount":                    evmtypes.KeyTransientTxCount,
			"cpc.KeyPrefixCustomPrecompiledContractMeta": cpctypes.KeyPrefixCustomPrecompiledContractMeta,
			"cpc.KeyPrefixErc20CpcAllowance":             cpctypes.KeyPrefixErc20CpcAllowance,
			"cpc.KeyPrefixErc20CpcDenomToAddress":        cpctypes.KeyPrefixErc20CpcDenomToAddress,
			"cpc.KeyPrefixParams":                        cpctypes.KeyPrefixParams,
			"vauth.KeyPrefixProofExternalOwnedAccount":   vauthtypes.KeyPrefixProofExternalOwnedAccount,
		}
		spare := []string{}
		for name, p := range prefixes {
			if cap(p) > len(p) {
				spare = append(spare, name)
			}
		}
		sort.Strings(spare)
		return map[string]any{"strs:keyPrefixesWithSpareCapacity": spare, "nat:keyPrefixesExamined": len(prefixes)}
	})
}
