package engines

import (
	"encoding/hex"
	"fmt"
	"testing"

	"verifharness/hx"

	"github.com/EscanBE/evermint/v12/indexer"
	evertypes "github.com/EscanBE/evermint/v12/types"
)

// E-genfuncs: small pure functions of /repo whose Go source is translated to Lean on every run (Facts/GenCode.lean), executed
// here on generated inputs; `gendriver` runs the *translated* definitions on the same lines and the check compares the two
// outputs — the translator and the Go semantics (`Base/GoSem.lean`) are checked against the implementation, not trusted:
//
//	tik h=<int64> i=<int32>                 indexer.TxIndexKey            -> the key, hex
//	gm c=<uint64> op=consume|refund a=<uint64>   the Ethereum transaction gas meter (types/gasmeter.go) after reading c -> new reading | panic
func TestEngineGenfuncs(t *testing.T) {
	seed := hx.Seed()
	n := hx.EnvInt("VERIF_N", 2000)
	r := hx.NewRng(seed ^ 0x6e4f)
	p := hx.NewProto("genfuncs")
	defer p.Close()
	edgeU := []uint64{0, 1, 2, 255, 256, 65535, 1 << 32, 1<<63 - 1, 1 << 63, 1<<64 - 2, 1<<64 - 1}
	pickU := func() uint64 {
		if r.Chance(1, 2) {
			return hx.Pick(r, edgeU)
		}
		return r.U64() >> uint(r.Intn(64))
	}
	for i := 0; i < n; i++ {
		if i%2 == 0 {
			h := int64(pickU())
			if r.Chance(1, 8) {
				h = -h
			}
			ix := int32(uint32(pickU()))
			p.Emit(fmt.Sprintf("tik h=%d i=%d", h, ix), hex.EncodeToString(indexer.TxIndexKey(h, ix)))
			p.Count("tik")
			continue
		}
		c, a := pickU(), pickU()
		op := hx.Pick(r, []string{"consume", "refund"})
		out := "?"
		pv := hx.Catch(func() {
			gm := evertypes.NewInfiniteGasMeterWithLimit(30_000_000)
			gm.ConsumeGas(c, "reading")
			if op == "consume" {
				gm.ConsumeGas(a, "op")
			} else {
				gm.RefundGas(a, "op")
			}
			out = fmt.Sprint(gm.GasConsumed())
		})
		if pv != nil {
			out = "panic"
		}
		p.Emit(fmt.Sprintf("gm c=%d op=%s a=%d", c, op, a), out)
		p.Count("gm:" + op + ":" + map[bool]string{true: "panic", false: "ok"}[pv != nil])
	}
}
