package engines

import (
	"bytes"
	"fmt"
	"math/big"
	"sort"
	"strings"
	"testing"
	"time"

	sdkmath "cosmossdk.io/math"
	sdk "github.com/cosmos/cosmos-sdk/types"
	authtypes "github.com/cosmos/cosmos-sdk/x/auth/types"
	vestingtypes "github.com/cosmos/cosmos-sdk/x/auth/vesting/types"
	minttypes "github.com/cosmos/cosmos-sdk/x/mint/types"
	"github.com/ethereum/go-ethereum/common"
	ethtypes "github.com/ethereum/go-ethereum/core/types"
	"github.com/ethereum/go-ethereum/crypto"
	"github.com/stretchr/testify/require"

	itutil "github.com/EscanBE/evermint/v12/integration_test_util"
	evmtypes "github.com/EscanBE/evermint/v12/x/evm/types"
	evmvm "github.com/EscanBE/evermint/v12/x/evm/vm"

	"verifharness/hx"
)

// sdbFixture is the address / key / code universe of E-statedb.  Ids on the wire are ranks in
// byte order of the real addresses, so that "sorted" means the same on both sides.
type sdbFixture struct {
	s        *itutil.ChainIntegrationTestSuite
	base     sdk.Context // fixture state; every case branches from it
	addrs    []common.Address
	names    []string
	denoms   []string // [evm denom, second denom]
	codes    [][]byte
	codeHash []common.Hash
	keys     []common.Hash
	evmMod   int
	blocked  []int
}

func (f *sdbFixture) id(a common.Address) int {
	for i, x := range f.addrs {
		if x == a {
			return i
		}
	}
	return -1
}

func newSdbFixture(t *testing.T, s *itutil.ChainIntegrationTestSuite) *sdbFixture {
	f := &sdbFixture{s: s}
	ctx, _ := s.CurrentContext.CacheContext()
	// a fixed block time in the past: wall-clock dependence of the destroy guard would show
	// as a disagreement with the model (which only knows the block time)
	blockTime := time.Unix(1_700_000_000, 0).UTC()
	ctx = ctx.WithBlockTime(blockTime)
	ak := s.ChainApp.AccountKeeper()
	bk := s.ChainApp.BankKeeper()
	ek := s.ChainApp.EvmKeeper()
	evmDenom := ek.GetParams(ctx).EvmDenom
	f.denoms = []string{evmDenom, "utwo"}
	f.codes = [][]byte{nil, {0x60, 0x01}, {0x60, 0x02, 0x00}}
	f.codeHash = []common.Hash{common.BytesToHash(evmtypes.EmptyCodeHash), crypto.Keccak256Hash(f.codes[1]), crypto.Keccak256Hash(f.codes[2])}
	for i := 0; i < 4; i++ {
		f.keys = append(f.keys, common.BigToHash(big.NewInt(int64(i+1))))
	}

	fund := func(a common.Address, d string, n int64) {
		if n == 0 {
			return
		}
		coins := sdk.NewCoins(sdk.NewInt64Coin(d, n))
		require.NoError(t, bk.MintCoins(ctx, minttypes.ModuleName, coins))
		require.NoError(t, bk.SendCoinsFromModuleToAccount(ctx, minttypes.ModuleName, a.Bytes(), coins))
	}
	mk := func(seed string) common.Address {
		return common.BytesToAddress(crypto.Keccak256([]byte("verif-fixture-" + seed))[12:])
	}
	type ent struct {
		name string
		addr common.Address
	}
	var ents []ent
	add := func(name string, a common.Address) { ents = append(ents, ent{name, a}) }

	eoa1 := mk("eoa1")
	fund(eoa1, f.denoms[0], 1000)
	fund(eoa1, f.denoms[1], 50)
	{
		acc := ak.GetAccount(ctx, eoa1.Bytes())
		require.NoError(t, acc.SetSequence(3))
		ak.SetAccount(ctx, acc)
	}
	add("eoa1", eoa1)
	eoa2 := mk("eoa2")
	fund(eoa2, f.denoms[0], 500)
	add("eoa2", eoa2)
	contract := mk("contract")
	fund(contract, f.denoms[0], 20)
	fund(contract, f.denoms[1], 5)
	{
		acc := ak.GetAccount(ctx, contract.Bytes())
		require.NoError(t, acc.SetSequence(1))
		ak.SetAccount(ctx, acc)
		ek.SetCode(ctx, f.codeHash[1].Bytes(), f.codes[1])
		ek.SetCodeHash(ctx, contract, f.codeHash[1])
		ek.SetState(ctx, contract, f.keys[0], common.BigToHash(big.NewInt(7)).Bytes())
		ek.SetState(ctx, contract, f.keys[1], common.Hash{}.Bytes()) // stored zero word
	}
	add("contract", contract)
	add("fresh1", mk("fresh1"))
	add("fresh2", mk("fresh2"))
	balonly := mk("balonly")
	fund(balonly, f.denoms[1], 9)
	add("balonly", balonly)
	emptyacc := common.BytesToAddress([]byte{3}) // account record, nothing else — at the address of the RIPEMD-160 precompile (go-ethereum's journal has a quirk for touches of exactly this address)
	ak.SetAccount(ctx, ak.NewAccountWithAddress(ctx, emptyacc.Bytes()))
	add("emptyacc", emptyacc)
	// module accounts
	feeCollector := common.BytesToAddress(ak.GetModuleAccount(ctx, authtypes.FeeCollectorName).GetAddress())
	add("fee_collector", feeCollector)
	// make sure the evm module account exists and holds nothing
	{
		one := sdk.NewCoins(sdk.NewInt64Coin(evmDenom, 1))
		require.NoError(t, bk.MintCoins(ctx, evmtypes.ModuleName, one))
		require.NoError(t, bk.BurnCoins(ctx, evmtypes.ModuleName, one))
	}
	evmMod := common.BytesToAddress(ak.GetModuleAddress(evmtypes.ModuleName))
	add("evm_module", evmMod)
	// vesting accounts (delayed): unexpired funded, expired funded, unexpired without balance
	mkVest := func(seed string, ov int64, end time.Time, funded int64) common.Address {
		a := mk(seed)
		baseAcc := ak.NewAccountWithAddress(ctx, a.Bytes()).(*authtypes.BaseAccount)
		bva, err := vestingtypes.NewBaseVestingAccount(baseAcc, sdk.NewCoins(sdk.NewInt64Coin(evmDenom, ov)), end.Unix())
		require.NoError(t, err)
		ak.SetAccount(ctx, vestingtypes.NewDelayedVestingAccountRaw(bva))
		fund(a, evmDenom, funded)
		return a
	}
	add("vest_unexpired", mkVest("vu", 100, blockTime.Add(24*time.Hour), 130))
	add("vest_expired", mkVest("ve", 60, blockTime.Add(-24*time.Hour), 60))
	// end time between the block time and the wall clock: protected as of the block time
	add("vest_between", mkVest("vb", 10, blockTime.Add(48*time.Hour), 0))
	// schedules that have not STARTED yet (continuous / periodic): everything is locked, the period has certainly not ended
	{
		a := mk("vfc")
		baseAcc := ak.NewAccountWithAddress(ctx, a.Bytes()).(*authtypes.BaseAccount)
		bva, err := vestingtypes.NewBaseVestingAccount(baseAcc, sdk.NewCoins(sdk.NewInt64Coin(evmDenom, 40)), blockTime.Add(72*time.Hour).Unix())
		require.NoError(t, err)
		ak.SetAccount(ctx, vestingtypes.NewContinuousVestingAccountRaw(bva, blockTime.Add(24*time.Hour).Unix()))
		add("vest_future_continuous", a)
		b := mk("vfp")
		baseAcc = ak.NewAccountWithAddress(ctx, b.Bytes()).(*authtypes.BaseAccount)
		bva, err = vestingtypes.NewBaseVestingAccount(baseAcc, sdk.NewCoins(sdk.NewInt64Coin(evmDenom, 30)), blockTime.Add(96*time.Hour).Unix())
		require.NoError(t, err)
		ak.SetAccount(ctx, vestingtypes.NewPeriodicVestingAccountRaw(bva, blockTime.Add(48*time.Hour).Unix(),
			vestingtypes.Periods{{Length: int64(48 * 3600), Amount: sdk.NewCoins(sdk.NewInt64Coin(evmDenom, 30))}}))
		fund(b, evmDenom, 30)
		add("vest_future_periodic", b)
	}

	sort.Slice(ents, func(i, j int) bool { return bytes.Compare(ents[i].addr.Bytes(), ents[j].addr.Bytes()) < 0 })
	for i, e := range ents {
		f.addrs = append(f.addrs, e.addr)
		f.names = append(f.names, e.name)
		if e.addr == evmMod {
			f.evmMod = i
		}
		if bk.BlockedAddr(e.addr.Bytes()) {
			f.blocked = append(f.blocked, i)
		}
	}
	f.base = ctx
	return f
}

// worldLines prints the real initial world of a case as setup op lines for the model.
func (f *sdbFixture) worldLines(ctx sdk.Context, p *hx.Proto) {
	ak := f.s.ChainApp.AccountKeeper()
	bk := f.s.ChainApp.BankKeeper()
	ek := f.s.ChainApp.EvmKeeper()
	ck := f.s.ChainApp.CpcKeeper()
	next, _ := ak.AccountNumber.Peek(ctx)
	bl := make([]string, len(f.blocked))
	for i, b := range f.blocked {
		bl[i] = fmt.Sprint(b)
	}
	p.Emit(fmt.Sprintf("w.meta %d %d %d %s", ctx.BlockTime().Unix(), f.evmMod, next, strings.Join(bl, ",")), "ok")
	for i, a := range f.addrs {
		if acc := ak.GetAccount(ctx, a.Bytes()); acc != nil {
			kind, end, locked := "b", int64(0), "0"
			switch v := acc.(type) {
			case sdk.ModuleAccountI:
				kind = "m"
			case *vestingtypes.DelayedVestingAccount:
				kind, end, locked = "v", v.EndTime, v.OriginalVesting.AmountOf(f.denoms[0]).String()
			case *vestingtypes.ContinuousVestingAccount: // fixture: schedule starts after the block time, so everything is locked
				kind, end, locked = "v", v.EndTime, v.LockedCoins(ctx.BlockTime()).AmountOf(f.denoms[0]).String()
			case *vestingtypes.PeriodicVestingAccount:
				kind, end, locked = "v", v.EndTime, v.LockedCoins(ctx.BlockTime()).AmountOf(f.denoms[0]).String()
			}
			p.Emit(fmt.Sprintf("w.acc %d %s %d %d %d %s", i, kind, acc.GetSequence(), acc.GetAccountNumber(), end, locked), "ok")
		}
		for d, dn := range f.denoms {
			if b := bk.GetBalance(ctx, a.Bytes(), dn).Amount; !b.IsZero() {
				p.Emit(fmt.Sprintf("w.bal %d %d %s", i, d, b), "ok")
			}
		}
		if ch := ek.GetCodeHash(ctx, a.Bytes()); !evmtypes.IsEmptyCodeHash(ch) {
			p.Emit(fmt.Sprintf("w.ch %d %d", i, f.codeClass(ch)-1), "ok")
		}
		ek.ForEachStorage(ctx, a, func(k, v common.Hash) bool {
			p.Emit(fmt.Sprintf("w.st %d %d %s", i, f.keyID(k), v.Big()), "ok")
			return true
		})
		for j, b := range f.addrs {
			if al := ck.GetErc20CpcAllowance(ctx, a, b); al.Sign() != 0 {
				p.Emit(fmt.Sprintf("w.al %d %d %s", i, j, al), "ok")
			}
		}
	}
	for d, dn := range f.denoms {
		p.Emit(fmt.Sprintf("w.sup %d %s", d, bk.GetSupply(ctx, dn).Amount), "ok")
	}
}

func (f *sdbFixture) keyID(k common.Hash) int {
	for i, x := range f.keys {
		if x == k {
			return i
		}
	}
	return 999
}

// 0 zero hash, 1 empty-code hash, c+1 hash of code c
func (f *sdbFixture) codeClass(h common.Hash) int {
	if h == (common.Hash{}) {
		return 0
	}
	for i, x := range f.codeHash {
		if x == h {
			return i + 1
		}
	}
	return 99
}

func ids(xs []int) string {
	sort.Ints(xs)
	ss := make([]string, len(xs))
	for i, x := range xs {
		ss[i] = fmt.Sprint(x)
	}
	return strings.Join(ss, ",")
}

func b01(b bool) int {
	if b {
		return 1
	}
	return 0
}

// dump prints every getter over the universe, the journaled fields and the module state
// visible through the given context, in the canonical format the Lean driver reproduces.
func (f *sdbFixture) dump(db evmvm.CStateDB, ctx sdk.Context, nsnaps int) string {
	ak := f.s.ChainApp.AccountKeeper()
	bk := f.s.ChainApp.BankKeeper()
	ck := f.s.ChainApp.CpcKeeper()
	var sb strings.Builder
	fmt.Fprintf(&sb, "R=%d", db.GetRefund())
	sb.WriteString(" L=")
	for i, l := range db.GetTransactionLogs() {
		if i > 0 {
			sb.WriteByte(',')
		}
		fmt.Fprintf(&sb, "%d:%d", f.id(l.Address), new(big.Int).SetBytes(l.Data).Int64())
	}
	var touched, sd, aa []int
	for a := range db.ForTest_CloneTouched() {
		touched = append(touched, f.id(a))
	}
	for a := range db.ForTest_CloneSelfDestructed() {
		sd = append(sd, f.id(a))
	}
	var as []int
	for a, slots := range db.ForTest_CloneAccessList().CloneElements() {
		aa = append(aa, f.id(a))
		for k := range slots {
			as = append(as, f.id(a)*4096+f.keyID(k))
		}
	}
	fmt.Fprintf(&sb, " T=%s SD=%s AA=%s AS=%s", ids(touched), ids(sd), ids(aa), ids(as))
	sb.WriteString(" TS=")
	first := true
	for i, a := range f.addrs {
		for k, key := range f.keys {
			if v := db.GetTransientState(a, key); v != (common.Hash{}) {
				if !first {
					sb.WriteByte(',')
				}
				first = false
				fmt.Fprintf(&sb, "%d:%s", i*4096+k, v.Big())
			}
		}
	}
	next, _ := ak.AccountNumber.Peek(ctx)
	fmt.Fprintf(&sb, " SN=%d NA=%d", nsnaps, next)
	for i, a := range f.addrs {
		acc := ak.GetAccount(ctx, a.Bytes())
		num, kind := "-", "-"
		if acc != nil {
			num = fmt.Sprint(acc.GetAccountNumber())
			kind = "b"
			switch acc.(type) {
			case sdk.ModuleAccountI:
				kind = "m"
			case *vestingtypes.DelayedVestingAccount, *vestingtypes.ContinuousVestingAccount, *vestingtypes.PeriodicVestingAccount:
				kind = "v"
			}
		}
		fmt.Fprintf(&sb, " |a%d x=%d e=%d b=%s,%s n=%d ch=%d cs=%d sd=%d num=%s kind=%s st=", i,
			b01(db.Exist(a)), b01(db.Empty(a)), db.GetBalance(a), bk.GetBalance(ctx, a.Bytes(), f.denoms[1]).Amount,
			db.GetNonce(a), f.codeClass(db.GetCodeHash(a)), db.GetCodeSize(a), b01(db.HasSuicided(a)), num, kind)
		for k, key := range f.keys {
			if k > 0 {
				sb.WriteByte(',')
			}
			sb.WriteString(db.GetState(a, key).Big().String())
		}
		sb.WriteString(" cst=")
		for k, key := range f.keys {
			if k > 0 {
				sb.WriteByte(',')
			}
			sb.WriteString(db.GetCommittedState(a, key).Big().String())
		}
		in := db.AddressInAccessList(a)
		fmt.Fprintf(&sb, " al=%d", b01(in))
	}
	fmt.Fprintf(&sb, " |sup=%s,%s |allow=", bk.GetSupply(ctx, f.denoms[0]).Amount, bk.GetSupply(ctx, f.denoms[1]).Amount)
	first = true
	for i, a := range f.addrs {
		for j, b := range f.addrs {
			if al := ck.GetErc20CpcAllowance(ctx, a, b); al.Sign() != 0 {
				if !first {
					sb.WriteByte(',')
				}
				first = false
				fmt.Fprintf(&sb, "%d:%d:%s", i, j, al)
			}
		}
	}
	return sb.String()
}

// TestEngineStatedb: random StateDB API sequences with arbitrarily nested snapshot / revert and
// precompile-style writes through GetCurrentContext(), against the real cStateDb on a real
// chain context.  After every op: full dump.  Oracle: dump at Snapshot() == dump after the
// matching RevertToSnapshot().
func TestEngineStatedb(t *testing.T) {
	rng := hx.NewRng(hx.Seed())
	nOps := hx.EnvInt("VERIF_N", 3000)
	p := hx.NewProto("statedb")
	defer p.Close()
	s := itutil.CreateChainIntegrationTestSuiteFromChainConfig(t, require.New(t), itutil.IntegrationTestChain1, true)
	defer s.Cleanup()
	f := newSdbFixture(t, s)
	runSdbCases(t, f, rng, p, nOps, false)
}

func runSdbCases(t *testing.T, f *sdbFixture, rng *hx.Rng, p *hx.Proto, nOps int, interpreterShaped bool) {
	s := f.s
	bk := s.ChainApp.BankKeeper()
	ck := s.ChainApp.CpcKeeper()
	na := len(f.addrs)
	amounts := func(a int, ctx sdk.Context) *big.Int {
		bal := bk.GetBalance(ctx, f.addrs[a].Bytes(), f.denoms[0]).Amount.BigInt()
		switch rng.Intn(7) {
		case 0:
			return big.NewInt(0)
		case 1:
			return big.NewInt(1)
		case 2:
			return new(big.Int).Set(bal)
		case 3:
			return new(big.Int).Add(bal, big.NewInt(1))
		case 4:
			return big.NewInt(int64(rng.Intn(50)))
		case 5:
			if bal.Sign() > 0 {
				return new(big.Int).Mod(rng.BigBits(64), bal)
			}
			return big.NewInt(3)
		default:
			return big.NewInt(int64(rng.Intn(2000)))
		}
	}
	// addresses on which most operations panic (protected / block-listed); picked less often so
	// that cases get deep, but still often enough to exercise every guard
	risky := map[string]bool{"fee_collector": true, "evm_module": true, "vest_unexpired": true, "vest_between": true, "vest_future_continuous": true, "vest_future_periodic": true}
	pickAddr := func() int {
		for {
			a := rng.Intn(na)
			if !risky[f.names[a]] || rng.Chance(1, 6) {
				return a
			}
		}
	}
	// directed operations, replayed at the head of the first case of every run (index of the operation class, address,
	// two parameters): (i) transient storage of ONE address overwritten between two snapshots, the later one reverted — the
	// write made before it must stand; (ii) a zero-value touch of the empty account at 0x03 inside a reverted frame, then a
	// commit that deletes empty touched accounts — the account must survive
	type forcedOp struct{ k, a, p1, p2 int }
	idxOf := func(name string) int {
		for i, n := range f.names {
			if n == name {
				return i
			}
		}
		return 0
	}
	forced := []forcedOp{{66, idxOf("eoa2"), 0, 1}, {85, 0, 0, 0}, {66, idxOf("eoa2"), 0, 2}, {85, 0, 0, 0}, {66, idxOf("eoa2"), 1, 1}, {95, 0, 1, 0},
		{85, 0, 0, 0}, {5, idxOf("emptyacc"), 0, 0}, {95, 0, 2, 0}, {99, 0, 1, 0}}
	realOps := 0
	for realOps < nOps {
		ctx, _ := f.base.CacheContext()
		ctx = ctx.WithEventManager(sdk.NewEventManager())
		f.worldLines(ctx, p)
		coinbase := common.Address{}
		db := evmvm.NewStateDB(ctx, coinbase, s.ChainApp.EvmKeeper(), *s.ChainApp.AccountKeeper(), bk)
		p.Emit("new", "ok "+f.dump(db, db.GetCurrentContext(), 1))
		nsnaps := 1
		savedDump := map[int]string{}
		caseLen := 5 + rng.Intn(55)
		if len(forced) > 0 {
			caseLen = len(forced)
		}
		committed := false
		for step := 0; step < caseLen && !committed; step++ {
			a := pickAddr()
			b := pickAddr()
			realOps++
			var op string
			var run func() string
			cur := db.GetCurrentContext()
			kk := rng.Intn(100)
			var fo *forcedOp
			if len(forced) > 0 {
				fo, forced = &forced[0], forced[1:]
				kk, a = fo.k, fo.a
			}
			switch k := kk; {
			case k < 9:
				n := amounts(a, cur)
				if fo != nil {
					n = big.NewInt(int64(fo.p1))
				}
				op = fmt.Sprintf("addBalance %d %s", a, n)
				run = func() string { db.AddBalance(f.addrs[a], n); return "ok" }
			case k < 18:
				n := amounts(a, cur)
				if bal := bk.GetBalance(cur, f.addrs[a].Bytes(), f.denoms[0]).Amount.BigInt(); n.Cmp(bal) > 0 && rng.Chance(5, 6) {
					n = new(big.Int).Mod(n, new(big.Int).Add(bal, big.NewInt(1)))
				}
				op = fmt.Sprintf("subBalance %d %s", a, n)
				run = func() string { db.SubBalance(f.addrs[a], n); return "ok" }
			case k < 24:
				n := uint64(rng.Intn(4))
				op = fmt.Sprintf("setNonce %d %d", a, n)
				run = func() string { db.SetNonce(f.addrs[a], n); return "ok" }
			case k < 30:
				c := rng.Intn(3)
				op = fmt.Sprintf("setCode %d %d", a, c)
				run = func() string { db.SetCode(f.addrs[a], f.codes[c]); return "ok" }
			case k < 40:
				key, v := rng.Intn(4), rng.Intn(3)
				op = fmt.Sprintf("setState %d %d %d", a, key, v)
				run = func() string {
					db.SetState(f.addrs[a], f.keys[key], common.BigToHash(big.NewInt(int64(v))))
					return "ok"
				}
			case k < 45:
				op = fmt.Sprintf("suicide %d", a)
				run = func() string {
					if db.Suicide(f.addrs[a]) {
						return "true"
					}
					return "false"
				}
			case k < 48:
				op = fmt.Sprintf("selfdestruct6780 %d", a)
				run = func() string { db.Selfdestruct6780(f.addrs[a]); return "ok" }
			case k < 52:
				op = fmt.Sprintf("createAccount %d", a)
				run = func() string { db.CreateAccount(f.addrs[a]); return "ok" }
			case k < 56:
				n := uint64(rng.Intn(100))
				if rng.Chance(1, 30) {
					n = ^uint64(0) - uint64(rng.Intn(3))
				}
				op = fmt.Sprintf("addRefund %d", n)
				run = func() string { db.AddRefund(n); return "ok" }
			case k < 59:
				n := uint64(rng.Intn(60))
				if rng.Chance(5, 6) {
					n = db.GetRefund() / uint64(1+rng.Intn(3))
				}
				op = fmt.Sprintf("subRefund %d", n)
				run = func() string { db.SubRefund(n); return "ok" }
			case k < 62:
				op = fmt.Sprintf("addAddr %d", a)
				run = func() string { db.AddAddressToAccessList(f.addrs[a]); return "ok" }
			case k < 65:
				key := rng.Intn(4)
				op = fmt.Sprintf("addSlot %d %d", a, key)
				run = func() string { db.AddSlotToAccessList(f.addrs[a], f.keys[key]); return "ok" }
			case k < 68:
				key, v := rng.Intn(4), rng.Intn(3)
				if fo != nil {
					key, v = fo.p1, fo.p2
				}
				op = fmt.Sprintf("setTransient %d %d %d", a, key, v)
				run = func() string {
					db.SetTransientState(f.addrs[a], f.keys[key], common.BigToHash(big.NewInt(int64(v))))
					return "ok"
				}
			case k < 72:
				tag := rng.Intn(1000)
				op = fmt.Sprintf("addLog %d %d", a, tag)
				run = func() string {
					db.AddLog(&ethtypes.Log{Address: f.addrs[a], Data: big.NewInt(int64(tag)).Bytes()})
					return "ok"
				}
			case k < 78:
				d := rng.Intn(2)
				bal := bk.GetBalance(cur, f.addrs[a].Bytes(), f.denoms[d]).Amount.BigInt()
				n := big.NewInt(int64(1 + rng.Intn(40)))
				if rng.Chance(1, 4) && bal.Sign() > 0 {
					n = bal
				}
				op = fmt.Sprintf("pcSend %d %d %d %s", a, b, d, n)
				run = func() string {
					// what the ERC-20 precompile does: keeper-level bank send on the StateDB's current context
					err := bk.SendCoins(db.GetCurrentContext(), f.addrs[a].Bytes(), f.addrs[b].Bytes(), sdk.NewCoins(sdk.NewCoin(f.denoms[d], sdkmath.NewIntFromBigInt(n))))
					if err != nil {
						return "err"
					}
					return "ok"
				}
			case k < 82:
				n := big.NewInt(int64(rng.Intn(5)))
				op = fmt.Sprintf("pcAllow %d %d %s", a, b, n)
				run = func() string {
					ck.SetErc20CpcAllowance(db.GetCurrentContext(), f.addrs[a], f.addrs[b], n)
					return "ok"
				}
			case k < 90:
				op = "snapshot"
				run = func() string { id := db.Snapshot(); nsnaps++; return fmt.Sprint(id) }
			case k < 97 && fo != nil:
				id := fo.p1
				op = fmt.Sprintf("revert %d", id)
				run = func() string { db.RevertToSnapshot(id); nsnaps = id + 2; return "ok" }
			case k < 97:
				id := 0
				if nsnaps > 1 {
					id = rng.Intn(nsnaps - 1)
				} else if rng.Chance(9, 10) {
					op = "snapshot"
					run = func() string { id := db.Snapshot(); nsnaps++; return fmt.Sprint(id) }
					break
				}
				if rng.Chance(1, 12) {
					id = []int{-1, nsnaps - 1, nsnaps + 3}[rng.Intn(3)]
				}
				op = fmt.Sprintf("revert %d", id)
				run = func() string { db.RevertToSnapshot(id); nsnaps = id + 2; return "ok" }
			default:
				de := rng.Chance(4, 5)
				if fo != nil {
					de = fo.p1 == 1
				}
				op = fmt.Sprintf("commit %d", b01(de))
				run = func() string {
					if err := db.CommitMultiStore(de); err != nil {
						return "err"
					}
					committed = true
					return "ok"
				}
			}
			p.Count(strings.SplitN(op, " ", 2)[0])
			var ret string
			if pv := hx.Catch(func() { ret = run() }); pv != nil {
				p.Count("panic")
				p.Emit(op, "panic")
				break
			}
			readCtx := db.GetCurrentContext()
			var d string
			if committed {
				readCtx = ctx
				d = f.dump(db, readCtx, nsnaps) + fmt.Sprintf(" EV=%d", len(ctx.EventManager().Events()))
			} else {
				d = f.dump(db, readCtx, nsnaps)
			}
			p.Emit(op, ret+" "+d)
			// implementation-side oracle for C15: a successful commit never removes or re-types a protected account
			if committed && ret == "ok" {
				ak := s.ChainApp.AccountKeeper()
				for i, nm := range f.names {
					if !risky[nm] {
						continue
					}
					before := ak.GetAccount(f.base, f.addrs[i].Bytes())
					after := ak.GetAccount(ctx, f.addrs[i].Bytes())
					if before != nil && (after == nil || fmt.Sprintf("%T", before) != fmt.Sprintf("%T", after)) {
						p.Oracle("C15-protected-account", "commit removed or re-typed the protected account %s (%T -> %T)", nm, before, after)
					}
				}
			}
			// implementation-side oracle for C03: revert restores the dump taken at snapshot time
			if strings.HasPrefix(op, "snapshot") {
				savedDump[nsnaps-2] = d
			} else if strings.HasPrefix(op, "revert") {
				var id int
				fmt.Sscanf(op, "revert %d", &id)
				if want, ok := savedDump[id]; ok && want != d {
					p.Oracle("revert-trace", "after revert %d the state differs from the state at snapshot: want %q got %q", id, want, d)
				}
				for k := range savedDump {
					if k > id {
						delete(savedDump, k)
					}
				}
			}
		}
	}
}
