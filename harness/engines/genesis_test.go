package engines

import (
	"bytes"
	sdkmath "cosmossdk.io/math"
	"encoding/hex"
	"encoding/json"
	"fmt"
	"math/big"
	"sort"
	"strings"
	"testing"

	"cosmossdk.io/log"
	abci "github.com/cometbft/cometbft/abci/types"
	sdkdb "github.com/cosmos/cosmos-db"
	"github.com/cosmos/cosmos-sdk/baseapp"
	simtestutil "github.com/cosmos/cosmos-sdk/testutil/sims"
	sdk "github.com/cosmos/cosmos-sdk/types"
	"github.com/ethereum/go-ethereum/common"
	"github.com/ethereum/go-ethereum/crypto"
	"github.com/stretchr/testify/require"

	chainapp "github.com/EscanBE/evermint/v12/app"
	"github.com/EscanBE/evermint/v12/constants"
	"github.com/EscanBE/evermint/v12/x/cpc"
	cpckeeper "github.com/EscanBE/evermint/v12/x/cpc/keeper"
	cpctypes "github.com/EscanBE/evermint/v12/x/cpc/types"
	"github.com/EscanBE/evermint/v12/x/evm"
	evmkeeper "github.com/EscanBE/evermint/v12/x/evm/keeper"
	evmtypes "github.com/EscanBE/evermint/v12/x/evm/types"
	"github.com/EscanBE/evermint/v12/x/feemarket"
	feemarketkeeper "github.com/EscanBE/evermint/v12/x/feemarket/keeper"
	vauthkeeper "github.com/EscanBE/evermint/v12/x/vauth/keeper"
	vauthtypes "github.com/EscanBE/evermint/v12/x/vauth/types"

	"verifharness/hx"
)

// E-genesis: states produced by real operations (contracts with storage incl. zero-valued and deleted
// slots, a self-destructed contract, storage without code, precompiles deployed by keeper, disabled
// flags, allowances, ownership proofs, a moved base fee) -> ExportAppStateAndValidators -> a fresh
// application InitChain'ed from that export -> every observable of the four custom modules compared with
// the original and with the model's prediction; the second export of each module compared with the first.

type genView struct {
	ek   *evmkeeper.Keeper
	ck   *cpckeeper.Keeper
	vk   *vauthkeeper.Keeper
	fk   *feemarketkeeper.Keeper
	ctx  sdk.Context
	name string
}

func TestEngineGenesis(t *testing.T) {
	seed := hx.Seed()
	n := hx.EnvInt("VERIF_N", 6)
	r := hx.NewRng(seed ^ 0x9e4e515)
	p := hx.NewProto("genesis")
	defer p.Close()

	for epoch := 0; epoch < n; epoch++ {
		c := newChain(t)
		ctx := c.s.CurrentContext
		ek, ck, vk, bk := c.s.ChainApp.EvmKeeper(), c.s.ChainApp.CpcKeeper(), c.s.ChainApp.VAuthKeeper(), c.s.ChainApp.BankKeeper()
		_ = bk
		directed := epoch == 0 // the first epoch always contains every lossy ingredient (known finding F10)
		// ---- contracts with storage ---------------------------------------------------------------------------
		var universe []common.Address
		nContracts := 1 + r.Intn(4)
		if directed && nContracts < 3 {
			nContracts = 3
		}
		for i := 0; i < nContracts; i++ {
			code := []byte{0x60, byte(i), 0x00}
			if r.Chance(1, 3) || (directed && i < 2) { // the first epoch always has two contracts with one and the same byte code
				code = codeStorer
			}
			a := c.deployRuntime(fmt.Sprintf("gen-%d-%d", epoch, i), code)
			universe = append(universe, a)
			for k := 0; k < r.Intn(5); k++ {
				val := common.BigToHash(big.NewInt(int64(r.Intn(1000))))
				if r.Chance(1, 3) {
					val = common.Hash{} // a stored zero word
				}
				ek.SetState(ctx, a, common.BigToHash(big.NewInt(int64(k))), val.Bytes())
			}
			if r.Chance(1, 3) { // a deleted slot
				ek.SetState(ctx, a, common.BigToHash(big.NewInt(0)), nil)
			}
		}
		if directed || r.Chance(1, 4) {
			// contracts whose addresses begin with the bytes the EVM store uses as key prefixes (1 … 6), once and repeated:
			// the export reads addresses back out of store keys
			for _, lead := range [][]byte{{0x04}, {0x04, 0x04}, {0x01}, {0x02, 0x04}, {0x06}} {
				h := crypto.Keccak256([]byte(fmt.Sprintf("lead-%d-%x", epoch, lead)))
				addr := common.BytesToAddress(append(append([]byte{}, lead...), h[:20-len(lead)]...))
				c.deployRuntimeAt(addr, []byte{0x60, lead[0], 0x00})
				ek.SetState(ctx, addr, common.BigToHash(big.NewInt(3)), common.BigToHash(big.NewInt(int64(40+len(lead)))).Bytes())
				universe = append(universe, addr)
			}
			p.Count("gen:addresses-with-prefix-bytes")
		}
		if directed || r.Chance(1, 4) {
			// byte code of exactly the largest size the EVM accepts (EIP-170: 24576 bytes), and one byte less
			for _, sz := range []int{24576, 24575} {
				code := bytes.Repeat([]byte{0x5b}, sz) // JUMPDESTs
				code[sz-1] = 0x00
				a := c.deployRuntime(fmt.Sprintf("gen-%d-size-%d", epoch, sz), code)
				universe = append(universe, a)
			}
			p.Count("gen:max-size-code")
		}
		if directed || r.Chance(1, 3) { // storage without code hash (e.g. a constructor that stored and returned empty code)
			a := c.deployRuntime(fmt.Sprintf("gen-%d-orphan", epoch), nil)
			ek.DeleteCodeHash(ctx, a.Bytes())
			ek.SetState(ctx, a, common.BigToHash(big.NewInt(5)), common.BigToHash(big.NewInt(77)).Bytes())
			universe = append(universe, a)
		}
		{ // a self-destructed contract: created, then destroyed through the real EVM
			a := c.deployRuntime(fmt.Sprintf("gen-%d-sd", epoch), codeSD)
			ek.SetState(ctx, a, common.BigToHash(big.NewInt(1)), common.BigToHash(big.NewInt(9)).Bytes())
			f := &ercFixture{c: c, ctx: ctx}
			_, err := f.call(c.wallets[1].GetEthAddress(), a, common.LeftPadBytes(c.wallets[2].GetEthAddress().Bytes(), 20))
			require.NoError(t, err)
			universe = append(universe, a)
		}
		// ---- precompile registry, allowances, proofs ----------------------------------------------------------
		if directed || r.Chance(1, 2) {
			_, err := ck.DeployErc20CustomPrecompiledContract(ctx, "two", cpctypes.Erc20CustomPrecompiledContractMeta{Symbol: "TWO", Decimals: 6, MinDenom: "utwo"})
			require.NoError(t, err)
		}
		if r.Chance(1, 2) {
			_, err := ck.DeployStakingCustomPrecompiledContract(ctx, cpctypes.StakingCustomPrecompiledContractMeta{Symbol: constants.SymbolDenom, Decimals: 18})
			require.NoError(t, err)
			if r.Chance(1, 3) {
				m := ck.GetCustomPrecompiledContractMeta(ctx, cpctypes.CpcStakingFixedAddress)
				m.Disabled = true
				require.NoError(t, ck.SetCustomPrecompiledContractMeta(ctx, *m, false))
			}
		}
		if r.Chance(1, 2) {
			params := ck.GetParams(ctx)
			params.WhitelistedDeployers = []string{c.wallets[1].GetCosmosAddress().String()}
			require.NoError(t, ck.SetParams(ctx, params))
		}
		holders := []common.Address{c.wallets[1].GetEthAddress(), c.wallets[2].GetEthAddress(), c.wallets[3].GetEthAddress()}
		if directed || r.Chance(1, 2) {
			ck.SetErc20CpcAllowance(ctx, holders[0], holders[1], big.NewInt(int64(1+r.Intn(900))))
			if r.Bool() {
				ck.SetErc20CpcAllowance(ctx, holders[2], holders[0], maxU256)
			}
		}
		if directed || r.Chance(1, 2) {
			key, _ := c.wallets[3].PrivateKey.ToECDSA()
			sig, _ := crypto.Sign(crypto.Keccak256([]byte(vauthtypes.MessageToSign)), key)
			require.NoError(t, vk.SaveProofExternalOwnedAccount(ctx, vauthtypes.ProofExternalOwnedAccount{Account: c.wallets[3].GetCosmosAddress().String(),
				Hash: "0x" + hex.EncodeToString(crypto.Keccak256([]byte(vauthtypes.MessageToSign))), Signature: "0x" + hex.EncodeToString(sig)}))
		}
		if r.Chance(1, 2) { // a fee market away from its defaults: fractional minimum gas price, base fee at or near its floor
			fk := c.s.ChainApp.FeeMarketKeeper()
			fp := fk.GetParams(ctx)
			whole := int64(1_000_000_000 + r.Intn(1_000_000_000))
			fp.MinGasPrice = sdkmath.LegacyNewDec(whole).Add(sdkmath.LegacyNewDecWithPrec(int64(r.Intn(100)), 2))
			fp.BaseFee = sdkmath.NewInt(whole + int64([]int{0, 0, 1, 12345}[r.Intn(4)]))
			require.NoError(t, fk.SetParams(ctx, fp))
		}
		if directed || r.Chance(1, 2) { // EVM parameters away from their defaults: asymmetric toggles, extra EIPs
			ek := c.s.ChainApp.EvmKeeper()
			ep := ek.GetParams(ctx)
			switch r.Intn(3) {
			case 0:
				ep.EnableCreate, ep.EnableCall = false, true
			case 1:
				ep.EnableCreate, ep.EnableCall = true, false
			default:
				ep.ExtraEIPs = []int64{3855}
			}
			if r.Chance(1, 3) { // no extra EIP at all (a legal value that an update of the parameters can set)
				ep.ExtraEIPs = []int64{}
				p.Count("gen:no-extra-eips")
			}
			if directed {
				ep.EnableCreate, ep.EnableCall = false, true
				ep.ExtraEIPs = []int64{}
			}
			require.NoError(t, ek.SetParams(ctx, ep))
		}
		c.setupDone()
		for i := 0; i < r.Intn(3); i++ { // a few blocks: the base fee moves
			c.finalize(nil)
		}

		// ---- export, re-import ----------------------------------------------------------------------------------
		app := c.s.ChainApp.IbcTestingApp().(*chainapp.Evermint)
		exported, err := app.ExportAppStateAndValidators(false, nil, nil)
		require.NoError(t, err)
		app2 := chainapp.NewEvermint(log.NewNopLogger(), sdkdb.NewMemDB(), nil, true, map[int64]bool{}, chainapp.DefaultNodeHome, 0, c.s.EncodingConfig,
			simtestutil.NewAppOptionsWithFlagHome(chainapp.DefaultNodeHome), baseapp.SetChainID(c.hdr.ChainID))
		cp := exported.ConsensusParams
		_, err = app2.InitChain(&abci.RequestInitChain{ChainId: c.hdr.ChainID, ConsensusParams: &cp, Validators: []abci.ValidatorUpdate{}, AppStateBytes: exported.AppState, InitialHeight: exported.Height, Time: c.now})
		require.NoError(t, err)
		orig := genView{ek: app.EvmKeeper, ck: &app.CPCKeeper, vk: &app.VAuthKeeper, fk: &app.FeeMarketKeeper, ctx: c.ctx(), name: "original"}
		again := genView{ek: app2.EvmKeeper, ck: &app2.CPCKeeper, vk: &app2.VAuthKeeper, fk: &app2.FeeMarketKeeper, ctx: app2.NewContext(false).WithChainID(c.hdr.ChainID), name: "re-imported"}

		// canonical ids
		sort.Slice(universe, func(i, j int) bool { return bytes.Compare(universe[i].Bytes(), universe[j].Bytes()) < 0 })
		aid := func(a common.Address) int {
			for i, x := range universe {
				if x == a {
					return 10 + i
				}
			}
			return 999
		}
		codeIDs := map[common.Hash]int{}
		hid := func(a common.Address) int {
			for i, x := range holders {
				if x == a {
					return 1 + i
				}
			}
			return 99
		}
		dyn := map[common.Address]int{}
		for i := 0; i < 50; i++ {
			dyn[crypto.CreateAddress(cpctypes.CpcModuleAddress, uint64(i))] = 2000 + i
		}
		pid := func(a common.Address) int {
			switch a {
			case cpctypes.CpcStakingFixedAddress:
				return 1001
			case cpctypes.CpcBech32FixedAddress:
				return 1002
			}
			if id, ok := dyn[a]; ok {
				return id
			}
			return 9999
		}
		paramsID := map[string]int{}
		pidOf := func(bz []byte) int {
			k := string(bz)
			if _, ok := paramsID[k]; !ok {
				paramsID[k] = len(paramsID) + 1
			}
			return paramsID[k]
		}
		view := func(v genView) string {
			// evm: every address of the universe plus whatever the code-hash table holds
			seen := map[common.Address]bool{}
			addrs := append([]common.Address{}, universe...)
			v.ek.IterateContracts(v.ctx, func(a common.Address, _ common.Hash) bool {
				if aid(a) == 999 {
					return false // contracts of the test genesis outside the universe are ignored
				}
				return false
			})
			var cs []string
			for _, a := range addrs {
				if seen[a] {
					continue
				}
				seen[a] = true
				ch := v.ek.GetCodeHash(v.ctx, a.Bytes())
				code := 0
				if !evmtypes.IsEmptyCodeHash(ch) {
					if _, ok := codeIDs[ch]; !ok {
						codeIDs[ch] = len(codeIDs) + 1
					}
					code = codeIDs[ch]
					// the code blob must be retrievable
					if len(v.ek.GetCode(v.ctx, ch)) == 0 {
						code = 9000
					}
				}
				st := v.ek.GetAccountStorage(v.ctx, a)
				if code == 0 && len(st) == 0 {
					continue
				}
				var kvs []string
				for _, e := range st {
					kvs = append(kvs, fmt.Sprintf("%s=%s", common.HexToHash(e.Key).Big().String(), common.HexToHash(e.Value).Big().String()))
				}
				s := "-"
				if len(kvs) > 0 {
					s = strings.Join(kvs, ";")
				}
				cs = append(cs, fmt.Sprintf("%d:%d:%s", aid(a), code, s))
			}
			contracts := "-"
			if len(cs) > 0 {
				contracts = strings.Join(cs, "|")
			}
			ep := v.ek.GetParams(v.ctx)
			epb, _ := ep.Marshal()
			fp := v.fk.GetParams(v.ctx)
			bf := fp.BaseFee
			fp.BaseFee = fp.BaseFee.Sub(fp.BaseFee) // compared separately
			fpb, _ := fp.Marshal()
			cparams := v.ck.GetParams(v.ctx)
			var wl []string
			for _, w := range cparams.WhitelistedDeployers {
				if w == c.wallets[1].GetCosmosAddress().String() {
					wl = append(wl, "1")
				} else {
					wl = append(wl, "99")
				}
			}
			var metas []string
			ms := v.ck.GetAllCustomPrecompiledContractsMeta(v.ctx)
			sort.Slice(ms, func(i, j int) bool {
				return pid(common.BytesToAddress(ms[i].Address)) < pid(common.BytesToAddress(ms[j].Address))
			})
			for _, m := range ms {
				den := 0
				if m.CustomPrecompiledType == cpctypes.CpcTypeErc20 {
					var em cpctypes.Erc20CustomPrecompiledContractMeta
					_ = json.Unmarshal([]byte(m.TypedMeta), &em)
					den = map[string]int{c.evmDenom: 0, "utwo": 5}[em.MinDenom]
					// the reverse index must agree
					if a := v.ck.GetErc20CustomPrecompiledContractAddressByMinDenom(v.ctx, em.MinDenom); a == nil || *a != common.BytesToAddress(m.Address) {
						p.Oracle("C17-index-mismatch", "%s: denom index of %s does not point to its contract", v.name, em.MinDenom)
					}
				}
				metas = append(metas, fmt.Sprintf("%d:%d:%d:%d", pid(common.BytesToAddress(m.Address)), m.CustomPrecompiledType, den, b01(m.Disabled)))
			}
			var als []string
			for _, o := range holders {
				for _, sp := range holders {
					if a := v.ck.GetErc20CpcAllowance(v.ctx, o, sp); a.Sign() != 0 {
						als = append(als, fmt.Sprintf("%d:%d:%s", hid(o), hid(sp), a.String()))
					}
				}
			}
			var prs []string
			for i, w := range c.wallets[:5] {
				if v.vk.HasProofExternalOwnedAccount(v.ctx, w.GetCosmosAddress()) {
					prs = append(prs, fmt.Sprint(i))
				}
			}
			dash := func(xs []string, sep string) string {
				if len(xs) == 0 {
					return "-"
				}
				return strings.Join(xs, sep)
			}
			return fmt.Sprintf("contracts=%s evmp=%d feep=%d bf=%s ver=%d wl=%s cpc=%s al=%s proofs=%s", contracts, pidOf(epb), pidOf(fpb), bf.String(), cparams.ProtocolVersion,
				strings.Join(wl, ","), dash(metas, ","), dash(als, ","), dash(prs, ","))
		}
		before := view(orig)
		after := view(again)
		// second export of each module vs the first
		same := true
		{
			e1, _ := json.Marshal(evm.ExportGenesis(orig.ctx, orig.ek))
			e2, _ := json.Marshal(evm.ExportGenesis(again.ctx, again.ek))
			f1, _ := json.Marshal(feemarket.ExportGenesis(orig.ctx, *orig.fk))
			f2, _ := json.Marshal(feemarket.ExportGenesis(again.ctx, *again.fk))
			c1, _ := json.Marshal(cpc.ExportGenesis(orig.ctx, *orig.ck))
			c2, _ := json.Marshal(cpc.ExportGenesis(again.ctx, *again.ck))
			if !bytes.Equal(e1, e2) || !bytes.Equal(f1, f2) || !bytes.Equal(c1, c2) {
				same = false
				p.Oracle("C18-second-export", "the export of the re-imported state differs from the first export (evm %v, feemarket %v, cpc %v)", bytes.Equal(e1, e2), bytes.Equal(f1, f2), bytes.Equal(c1, c2))
			}
		}
		p.Emit("gen "+before, after+fmt.Sprintf(" second-export-equal=%d", b01(same)))
		// ---- implementation-side oracle: what a user can observe must survive --------------------------------------
		field := func(s, k string) string {
			for _, f := range strings.Fields(s) {
				if strings.HasPrefix(f, k+"=") {
					return strings.TrimPrefix(f, k+"=")
				}
			}
			return ""
		}
		for _, k := range []string{"evmp", "feep", "bf", "ver", "wl"} {
			if field(before, k) != field(after, k) {
				p.Oracle("C18-param-lost", "%s differs after the round trip: %s -> %s", k, field(before, k), field(after, k))
			}
		}
		// contracts: every entry with code must survive exactly; entries without code are the documented exception
		bc, ac := map[string]string{}, map[string]string{}
		for _, e := range strings.Split(field(before, "contracts"), "|") {
			if parts := strings.SplitN(e, ":", 3); len(parts) == 3 {
				bc[parts[0]] = parts[1] + ":" + parts[2]
			}
		}
		for _, e := range strings.Split(field(after, "contracts"), "|") {
			if parts := strings.SplitN(e, ":", 3); len(parts) == 3 {
				ac[parts[0]] = parts[1] + ":" + parts[2]
			}
		}
		for a, v := range bc {
			if strings.HasPrefix(v, "0:") {
				if _, ok := ac[a]; !ok {
					p.Oracle("C18-storage-without-code-lost", "storage of address id %s (no code hash) is not exported", a)
				}
				continue
			}
			if ac[a] != v {
				p.Oracle("C18-contract-lost", "contract id %s: %q before, %q after the round trip", a, v, ac[a])
			}
		}
		for a := range ac {
			if _, ok := bc[a]; !ok {
				p.Oracle("C18-contract-appeared", "contract id %s exists only after the round trip", a)
			}
		}
		if field(before, "cpc") != field(after, "cpc") {
			// known (F10): entries that genesis cannot express — dynamic ERC-20 precompiles and disabled flags — are lost;
			// anything else (a fixed contract missing, a wrong type, an extra entry) is a different violation
			var want []string
			for _, e := range strings.Split(field(before, "cpc"), ",") {
				parts := strings.Split(e, ":")
				if len(parts) == 4 && (parts[0] == "1001" || parts[0] == "1002") {
					want = append(want, parts[0]+":"+parts[1]+":"+parts[2]+":0")
				}
			}
			if strings.Join(want, ",") == field(after, "cpc") {
				p.Oracle("C18-cpc-dynamic-or-disabled-lost", "precompiles deployed after genesis / disabled flags are not exported: %s -> %s", field(before, "cpc"), field(after, "cpc"))
			} else {
				p.Oracle("C18-cpc-registry-wrong", "precompile registry after the round trip is not even the genesis-expressible part: %s -> %s", field(before, "cpc"), field(after, "cpc"))
			}
		}
		if field(before, "al") != field(after, "al") {
			if field(after, "al") == "-" {
				p.Oracle("C18-allowance-lost", "ERC-20 allowances are not exported: %s -> -", field(before, "al"))
			} else {
				p.Oracle("C18-allowance-wrong", "ERC-20 allowances differ after the round trip: %s -> %s", field(before, "al"), field(after, "al"))
			}
		}
		if field(before, "proofs") != field(after, "proofs") {
			if field(after, "proofs") == "-" {
				p.Oracle("C18-proof-lost", "ownership proofs are not exported: %s -> -", field(before, "proofs"))
			} else {
				p.Oracle("C18-proof-wrong", "ownership proofs differ after the round trip: %s -> %s", field(before, "proofs"), field(after, "proofs"))
			}
		}
		p.Count(fmt.Sprintf("epoch:contracts=%d", len(bc)))
		// ---- the export for a restart at height zero: staking and distribution are rewound by the SDK's preparation, the
		// custom modules' state is not — their sections must be those of the ordinary export (current base fee included)
		{
			zero, err := app.ExportAppStateAndValidators(true, nil, nil)
			require.NoError(t, err)
			var g0, g1 map[string]json.RawMessage
			require.NoError(t, json.Unmarshal(zero.AppState, &g0))
			require.NoError(t, json.Unmarshal(exported.AppState, &g1))
			for _, mod := range []string{"evm", "feemarket", "cpc", "vauth"} {
				if !bytes.Equal(g0[mod], g1[mod]) {
					p.Oracle("C18-zero-height-export", "module %s: the export for height zero differs from the export of the same state: %.300s  vs  %.300s", mod, g0[mod], g1[mod])
				}
			}
			p.Count("zero-height-export")
		}
		c.s.Cleanup()
	}
}
