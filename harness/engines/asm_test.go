package engines

import (
	"fmt"
	"math/big"
)

// A tiny two-pass EVM assembler with labels, enough to build the forwarding, logging,
// storing, self-destructing and reverting contracts the engines need without a compiler.
//
//	asm("PUSH1", 0, "CALLDATALOAD", "@loop", "JUMPDEST", ..., "PUSH@", "loop", "JUMP")
//
// "@name" defines a label at the current offset; "PUSH@" followed by a label name pushes the
// 2-byte offset of that label.  An int / *big.Int / []byte after PUSHn is its immediate.
var opcodes = map[string]byte{
	"STOP": 0x00, "ADD": 0x01, "MUL": 0x02, "SUB": 0x03, "DIV": 0x04, "LT": 0x10, "GT": 0x11, "EQ": 0x14, "ISZERO": 0x15,
	"AND": 0x16, "OR": 0x17, "NOT": 0x19, "SHL": 0x1b, "SHR": 0x1c, "SHA3": 0x20,
	"ADDRESS": 0x30, "BALANCE": 0x31, "ORIGIN": 0x32, "CALLER": 0x33, "CALLVALUE": 0x34, "CALLDATALOAD": 0x35, "CALLDATASIZE": 0x36,
	"CALLDATACOPY": 0x37, "CODESIZE": 0x38, "CODECOPY": 0x39, "GASPRICE": 0x3a, "EXTCODESIZE": 0x3b, "RETURNDATASIZE": 0x3d, "RETURNDATACOPY": 0x3e,
	"EXTCODEHASH": 0x3f, "COINBASE": 0x41, "TIMESTAMP": 0x42, "NUMBER": 0x43, "GASLIMIT": 0x45, "CHAINID": 0x46, "SELFBALANCE": 0x47, "BASEFEE": 0x48,
	"POP": 0x50, "MLOAD": 0x51, "MSTORE": 0x52, "MSTORE8": 0x53, "SLOAD": 0x54, "SSTORE": 0x55, "JUMP": 0x56, "JUMPI": 0x57, "PC": 0x58, "GAS": 0x5a, "JUMPDEST": 0x5b,
	"DUP1": 0x80, "DUP2": 0x81, "DUP3": 0x82, "DUP4": 0x83, "DUP5": 0x84, "DUP6": 0x85, "DUP7": 0x86,
	"SWAP1": 0x90, "SWAP2": 0x91, "SWAP3": 0x92, "SWAP4": 0x93,
	"LOG0": 0xa0, "LOG1": 0xa1, "LOG2": 0xa2,
	"CREATE": 0xf0, "CALL": 0xf1, "CALLCODE": 0xf2, "RETURN": 0xf3, "DELEGATECALL": 0xf4, "CREATE2": 0xf5, "STATICCALL": 0xfa, "REVERT": 0xfd, "INVALID": 0xfe, "SELFDESTRUCT": 0xff,
}

func asm(items ...any) []byte {
	type fix struct {
		at    int
		label string
	}
	var code []byte
	labels := map[string]int{}
	var fixes []fix
	for i := 0; i < len(items); i++ {
		switch v := items[i].(type) {
		case string:
			if len(v) > 1 && v[0] == '@' {
				labels[v[1:]] = len(code)
				continue
			}
			if v == "PUSH@" {
				i++
				code = append(code, 0x61, 0, 0)
				fixes = append(fixes, fix{len(code) - 2, items[i].(string)})
				continue
			}
			if len(v) > 4 && v[:4] == "PUSH" {
				var n int
				fmt.Sscanf(v[4:], "%d", &n)
				code = append(code, byte(0x5f+n))
				i++
				var imm []byte
				switch x := items[i].(type) {
				case int:
					imm = big.NewInt(int64(x)).Bytes()
				case *big.Int:
					imm = x.Bytes()
				case []byte:
					imm = x
				default:
					panic(fmt.Sprintf("bad immediate %T", x))
				}
				if len(imm) > n {
					panic("immediate too long")
				}
				pad := make([]byte, n-len(imm))
				code = append(code, append(pad, imm...)...)
				continue
			}
			op, ok := opcodes[v]
			if !ok {
				panic("unknown opcode " + v)
			}
			code = append(code, op)
		case byte:
			code = append(code, v)
		default:
			panic(fmt.Sprintf("bad asm item %T", v))
		}
	}
	for _, f := range fixes {
		off, ok := labels[f.label]
		if !ok {
			panic("unknown label " + f.label)
		}
		code[f.at] = byte(off >> 8)
		code[f.at+1] = byte(off)
	}
	return code
}

// initCode wraps runtime code into creation code that returns it.
func initCode(runtime []byte) []byte {
	n := len(runtime)
	prefix := asm("PUSH2", n, "DUP1", "PUSH1", 0x0c, "PUSH1", 0, "CODECOPY", "PUSH1", 0, "RETURN")
	// prefix length: 3 + 1 + 2 + 2 + 1 + 2 + 1 = 12
	if len(prefix) != 12 {
		panic("init prefix length")
	}
	return append(prefix, runtime...)
}
