package engines

import (
	"cosmossdk.io/log"
	"encoding/hex"
	"encoding/json"
	"fmt"
	"github.com/EscanBE/evermint/v12/indexer"
	sdkdb "github.com/cosmos/cosmos-db"
	cmttypes "github.com/cometbft/cometbft/types"
	"math"
	"math/big"
	"strings"
	"testing"

	sdkmath "cosmossdk.io/math"
	abci "github.com/cometbft/cometbft/abci/types"
	cmtproto "github.com/cometbft/cometbft/proto/tendermint/types"
	codectypes "github.com/cosmos/cosmos-sdk/codec/types"
	sdk "github.com/cosmos/cosmos-sdk/types"
	authtx "github.com/cosmos/cosmos-sdk/x/auth/tx"
	authztypes "github.com/cosmos/cosmos-sdk/x/authz"
	banktypes "github.com/cosmos/cosmos-sdk/x/bank/types"
	stakingtypes "github.com/cosmos/cosmos-sdk/x/staking/types"
	"github.com/cosmos/gogoproto/proto"
	"github.com/ethereum/go-ethereum/common"
	"github.com/ethereum/go-ethereum/common/hexutil"
	ethtypes "github.com/ethereum/go-ethereum/core/types"
	"github.com/stretchr/testify/require"

	itutiltypes "github.com/EscanBE/evermint/v12/integration_test_util/types"
	cpcabi "github.com/EscanBE/evermint/v12/x/cpc/abi"
	cpctypes "github.com/EscanBE/evermint/v12/x/cpc/types"
	rpctypes "github.com/EscanBE/evermint/v12/rpc/types"
	evmtypes "github.com/EscanBE/evermint/v12/x/evm/types"
	feemarkettypes "github.com/EscanBE/evermint/v12/x/feemarket/types"
	vauthtypes "github.com/EscanBE/evermint/v12/x/vauth/types"

	"verifharness/hx"
)

// E-crash (exploration, labelled so): user-controlled input through every ABCI entry point of the real
// application — CheckTx (new / recheck), PrepareProposal, ProcessProposal, FinalizeBlock + Commit, Query —
// with a recover sentinel OUTSIDE BaseApp: a panic that reaches the sentinel would have killed the node (or,
// in FinalizeBlock, halted the chain).  Inputs: random bytes; valid transactions with flipped / truncated /
// spliced bytes; well-typed transactions with adversarial contents (malformed embedded Ethereum payloads, bad
// addresses, extreme numbers, wrong extension options, nested authz, mixed lanes); every custom-precompile
// selector with random, truncated and saturated calldata (as transactions and as eth_call / estimateGas);
// random and adversarial gRPC queries; sweeps of the consensus parameters (MaxGas -1, 0, 1, 2, …; MaxBytes).
// After every batch the chain must still produce a block that executes a plain transfer.  Isolation: a block
// is executed twice from the same state with the failing transaction at one position replaced by another
// failing transaction — every other result must be identical.

func TestEngineCrash(t *testing.T) {
	seed := hx.Seed()
	n := hx.EnvInt("VERIF_N", 300)
	r := hx.NewRng(seed ^ 0xc7a54)
	p := hx.NewProto("crash")
	defer p.Close()

	f, c := newErcFixture(t, hx.NewProto("crash-fixture"), true)
	ck := c.s.ChainApp.CpcKeeper()
	if !ck.HasCustomPrecompiledContract(f.ctx, cpctypes.CpcStakingFixedAddress) {
		_, err := ck.DeployStakingCustomPrecompiledContract(f.ctx, cpctypes.StakingCustomPrecompiledContractMeta{Symbol: "STK", Decimals: 18})
		require.NoError(t, err)
	}
	c.setupDone()
	c.finalize(nil)
	txCfg := c.s.EncodingConfig.TxConfig
	kvIndexer := indexer.NewKVIndexer(sdkdb.NewMemDB(), log.NewNopLogger(), c.s.QueryClientsAt(0).ClientQueryCtx)

	randBytes := func(k int) []byte {
		b := make([]byte, k)
		for i := range b {
			b[i] = byte(r.U64())
		}
		return b
	}
	sentinel := func(entry, class string, input []byte, fn func() string) string {
		out := "?"
		pv := hx.Catch(func() { out = fn() })
		if pv != nil {
			out = "PANIC"
			in := hex.EncodeToString(input)
			if len(in) > 1200 {
				in = in[:1200] + "…"
			}
			p.Oracle("C20-panic-"+entry, "class=%s panic=%s input=%s", class, firstWords(fmt.Sprint(pv), 16), in)
		}
		p.Count(entry + ":" + class + ":" + out)
		return out
	}
	codeOf := func(code uint32) string {
		if code == 0 {
			return "ok"
		}
		return "rejected"
	}

	baseFee := func() *big.Int { return c.s.ChainApp.FeeMarketKeeper().GetBaseFee(c.ctx()).BigInt() }
	livePrice := func() *big.Int { return new(big.Int).Mul(baseFee(), big.NewInt(2)) }
	liveNonce := func(w *itutiltypes.TestAccount) uint64 { return c.seq(c.ctx(), w.GetCosmosAddress()) }
	// the builders below read nonces and prices through these two, so that the same generators can target a fresh twin
	price, nonceOf := livePrice, liveNonce
	precompiles := []common.Address{f.tokens[50], f.tokens[51], cpctypes.CpcStakingFixedAddress, cpctypes.CpcBech32FixedAddress}
	abis := []map[string][]byte{{}, {}, {}, {}}
	for name, m := range cpcabi.Erc20CpcInfo.ABI.Methods {
		abis[0][name], abis[1][name] = m.ID, m.ID
	}
	for name, m := range cpcabi.StakingCpcInfo.ABI.Methods {
		abis[2][name] = m.ID
	}
	for name, m := range cpcabi.Bech32CpcInfo.ABI.Methods {
		abis[3][name] = m.ID
	}
	fuzzCalldata := func() (common.Address, []byte, string) {
		k := r.Intn(len(precompiles))
		var names []string
		for nm := range abis[k] {
			names = append(names, nm)
		}
		sortStrings(names)
		nm := hx.Pick(r, names)
		sel := abis[k][nm]
		var args []byte
		switch r.Intn(7) {
		case 0:
			args = nil
		case 1:
			args = randBytes(1 + r.Intn(31))
		case 2:
			args = randBytes(32 * (1 + r.Intn(8)))
		case 3:
			args = make([]byte, 32*(1+r.Intn(8)))
			for i := range args {
				args[i] = 0xff
			}
		case 4: // dynamic offsets pointing far away
			args = append(common.LeftPadBytes(big.NewInt(int64(r.Intn(1<<30))).Bytes(), 32), randBytes(64)...)
			args = append(common.LeftPadBytes(new(big.Int).Lsh(big.NewInt(1), 255).Bytes(), 32), args...)
		case 5:
			args = make([]byte, 32*(1+r.Intn(6)))
		default:
			args = randBytes(r.Intn(300))
		}
		data := append(append([]byte{}, sel...), args...)
		if r.Chance(1, 12) {
			data = data[:r.Intn(4)] // shorter than a selector
		}
		return precompiles[k], data, []string{"erc20", "erc20", "staking", "bech32"}[k] + "." + nm
	}

	validTxs := func() [][]byte {
		w1, w2 := c.wallets[1], c.wallets[2]
		to := c.wallets[3].GetEthAddress()
		eth, _ := c.buildEthTx(ethTxArgs{from: w1, typ: 2, nonce: nonceOf(w1), to: &to, value: big.NewInt(5), gas: 21000, feeCap: price(), tip: big.NewInt(1)})
		cos := c.buildBankSend(w2, c.wallets[4].GetCosmosAddress(), 7, nonceOf(w2), 200000, price())
		return [][]byte{eth, cos}
	}
	mutate := func(b []byte) []byte {
		out := append([]byte{}, b...)
		switch r.Intn(5) {
		case 0:
			for i, k := 0, 1+r.Intn(3); i < k; i++ {
				out[r.Intn(len(out))] ^= 1 << uint(r.Intn(8))
			}
		case 1:
			out = out[:r.Intn(len(out))]
		case 2:
			i := r.Intn(len(out))
			out = append(out[:i], append(randBytes(1+r.Intn(8)), out[i:]...)...)
		case 3:
			i, j := r.Intn(len(out)), r.Intn(len(out))
			if i > j {
				i, j = j, i
			}
			out = append(append(append([]byte{}, out[:j]...), out[i:j]...), out[j:]...)
		default:
			i := r.Intn(len(out))
			out[i] = []byte{0, 0xff, 0x7f, 0x80}[r.Intn(4)]
		}
		return out
	}
	encode := func(b interface {
		GetTx() authsigningTx
	}) []byte {
		return nil
	}
	_ = encode
	buildRaw := func(msgs []sdk.Msg, ethExt bool, fee sdk.Coins, gas uint64) []byte {
		b := txCfg.NewTxBuilder()
		if err := b.SetMsgs(msgs...); err != nil {
			return nil
		}
		if ethExt {
			opt, _ := codectypes.NewAnyWithValue(&evmtypes.ExtensionOptionsEthereumTx{})
			b.(authtx.ExtensionOptionsTxBuilder).SetExtensionOptions(opt)
		}
		b.SetGasLimit(gas)
		b.SetFeeAmount(fee)
		var bz []byte
		_ = hx.Catch(func() { bz, _ = txCfg.TxEncoder()(b.GetTx()) })
		return bz
	}
	big256 := new(big.Int).Sub(new(big.Int).Lsh(big.NewInt(1), 256), big.NewInt(1))
	var forceSigner *itutiltypes.TestAccount // isolation: the hostile tx must not share a sender with the others
	adversarial := func() ([]byte, string) {
		w := c.wallets[1+r.Intn(3)]
		if forceSigner != nil {
			w = forceSigner
		}
		fee := sdk.NewCoins(sdk.NewCoin(c.evmDenom, sdkmath.NewIntFromBigInt(new(big.Int).Mul(price(), big.NewInt(100000)))))
		switch r.Intn(16) {
		case 0: // embedded payload is garbage
			msg := &evmtypes.MsgEthereumTx{MarshalledTx: randBytes(r.Intn(200)), From: w.GetCosmosAddress().String()}
			return buildRaw([]sdk.Msg{msg}, true, fee, 100000), "eth-garbage-payload"
		case 1: // empty payload / bad from
			msg := &evmtypes.MsgEthereumTx{MarshalledTx: nil, From: hx.Pick(r, []string{"", "abc", "cosmos1qqqqqqqqqqqqqqqqqqqqqqqqqqqqqqqqnrql8a", w.GetCosmosAddress().String()})}
			return buildRaw([]sdk.Msg{msg}, r.Bool(), fee, 100000), "eth-empty-payload"
		case 2: // extreme numeric fields, correctly signed
			to := hx.Pick(r, append(append([]common.Address{}, precompiles...), common.Address{}, c.wallets[4].GetEthAddress()))
			a := ethTxArgs{from: w, typ: r.Intn(3), nonce: nonceOf(w), to: &to, value: hx.Pick(r, []*big.Int{big.NewInt(0), big256, big.NewInt(1)}),
				gas: hx.Pick(r, []uint64{0, 1, 20999, 21000, 1 << 40, math.MaxUint64}), gasPrice: hx.Pick(r, []*big.Int{big.NewInt(0), price(), big256}),
				feeCap: hx.Pick(r, []*big.Int{big.NewInt(0), price(), big256}), tip: hx.Pick(r, []*big.Int{big.NewInt(0), big256, big.NewInt(1)})}
			if r.Chance(1, 3) {
				a.nonce = hx.Pick(r, []uint64{0, math.MaxUint64, math.MaxUint64 - 1})
			}
			if r.Chance(1, 3) {
				a.data = randBytes(r.Intn(5000))
			}
			if r.Chance(1, 4) {
				a.chainID = hx.Pick(r, []*big.Int{big.NewInt(1), big256, new(big.Int).Lsh(big.NewInt(1), 64)})
			}
			if r.Chance(1, 4) {
				a.to = nil
			}
			zero := sdk.Coins{}
			a.feeAmount = &zero
			if r.Bool() {
				a.feeAmount = &fee
			}
			gl := hx.Pick(r, []uint64{0, 21000, math.MaxUint64})
			a.wrapGasLimit = &gl
			var bz []byte
			if pv := hx.Catch(func() { bz, _ = c.buildEthTx(a) }); pv != nil {
				return nil, "eth-extreme(unbuildable)"
			}
			return bz, "eth-extreme"
		case 3: // precompile calldata as a transaction
			to, data, nm := fuzzCalldata()
			bz, _ := c.buildEthTx(ethTxArgs{from: w, typ: 2, nonce: nonceOf(w), to: &to, gas: 3_000_000, feeCap: price(), tip: big.NewInt(1), data: data})
			return bz, "cpc-tx:" + strings.Split(nm, ".")[0]
		case 4: // through a contract (CALL / STATICCALL / DELEGATECALL / CALLCODE edges)
			to, data, nm := fuzzCalldata()
			script := append(record(r.Intn(4), to, data), 2)
			runner := f.addrs[5]
			bz, _ := c.buildEthTx(ethTxArgs{from: w, typ: 2, nonce: nonceOf(w), to: &runner, gas: 3_000_000, feeCap: price(), tip: big.NewInt(1), data: script})
			return bz, "cpc-via-contract:" + strings.Split(nm, ".")[0]
		case 5: // two Ethereum messages in one tx / eth + cosmos
			good := validTxs()
			tx, _ := txCfg.TxDecoder()(good[0])
			m0 := tx.GetMsgs()[0]
			msgs := []sdk.Msg{m0, m0}
			if r.Bool() {
				msgs = []sdk.Msg{m0, banktypes.NewMsgSend(w.GetCosmosAddress(), c.wallets[4].GetCosmosAddress(), sdk.NewCoins(sdk.NewInt64Coin(c.evmDenom, 1)))}
			}
			return buildRaw(msgs, r.Bool(), fee, 100000), "mixed-lanes"
		case 6: // authz exec wrapping an Ethereum message, nested
			good := validTxs()
			tx, _ := txCfg.TxDecoder()(good[0])
			inner := tx.GetMsgs()[0]
			ex := authztypes.NewMsgExec(w.GetCosmosAddress(), []sdk.Msg{inner})
			var msg sdk.Msg = &ex
			for d := r.Intn(9); d > 0; d-- {
				e2 := authztypes.NewMsgExec(w.GetCosmosAddress(), []sdk.Msg{msg})
				msg = &e2
			}
			return c.buildCosmosTxFee(w, []sdk.Msg{msg}, nonceOf(w), 500000, new(big.Int).Mul(price(), big.NewInt(500000))), "authz-nested"
		case 7: // cosmos messages with bad addresses / extreme coins (unsigned: must be refused, not crash)
			bad := hx.Pick(r, []string{"", "x", "evm1", strings.Repeat("a", 300), "cosmos1qqqqqqqqqqqqqqqqqqqqqqqqqqqqqqqqnrql8a"})
			huge, _ := sdkmath.NewIntFromString("115792089237316195423570985008687907853269984665640564039457584007913129639935")
			msgs := []sdk.Msg{
				&banktypes.MsgSend{FromAddress: w.GetCosmosAddress().String(), ToAddress: bad, Amount: sdk.Coins{sdk.Coin{Denom: c.evmDenom, Amount: huge}}},
				&banktypes.MsgSend{FromAddress: bad, ToAddress: w.GetCosmosAddress().String(), Amount: sdk.Coins{sdk.Coin{Denom: "", Amount: sdkmath.NewInt(-5)}}},
				&stakingtypes.MsgDelegate{DelegatorAddress: w.GetCosmosAddress().String(), ValidatorAddress: bad, Amount: sdk.Coin{Denom: c.evmDenom, Amount: huge}},
			}
			return buildRaw([]sdk.Msg{msgs[r.Intn(len(msgs))]}, false, fee, 200000), "cosmos-bad-fields"
		case 8: // signed cosmos tx with adversarial module messages
			var msg sdk.Msg
			switch r.Intn(6) {
			case 0:
				msg = &cpctypes.MsgDeployErc20ContractRequest{Authority: w.GetCosmosAddress().String(), Name: hx.Pick(r, []string{"", "x", strings.Repeat("n", 500)}), Symbol: hx.Pick(r, []string{"", "S"}), Decimals: uint32(hx.Pick(r, []int{0, 18, 255, 256, 1 << 20})), MinDenom: hx.Pick(r, []string{"", "utwo", c.evmDenom, "!!"})}
			case 1:
				msg = &cpctypes.MsgDeployStakingContractRequest{Authority: w.GetCosmosAddress().String(), Symbol: hx.Pick(r, []string{"", "S"}), Decimals: uint32(hx.Pick(r, []int{0, 18, 300}))}
			case 2:
				msg = &vauthtypes.MsgSubmitProofExternalOwnedAccount{Submitter: w.GetCosmosAddress().String(), Account: hx.Pick(r, []string{"", c.wallets[4].GetCosmosAddress().String(), "zz"}), Signature: hx.Pick(r, []string{"", "0x", "0xzz", "0x" + hex.EncodeToString(randBytes(65)), "0x" + hex.EncodeToString(randBytes(200))})}
			case 3:
				fp := feemarkettypes.DefaultParams()
				fp.BaseFee = sdkmath.NewInt(0)
				fp.MinGasPrice = sdkmath.LegacyNewDec(int64(r.Intn(3)))
				msg = &feemarkettypes.MsgUpdateParams{Authority: w.GetCosmosAddress().String(), Params: fp}
			case 4:
				ep := evmtypes.DefaultParams()
				ep.EvmDenom = hx.Pick(r, []string{"", "x", c.evmDenom})
				msg = &evmtypes.MsgUpdateParams{Authority: w.GetCosmosAddress().String(), Params: ep}
			default:
				msg = &cpctypes.MsgUpdateParams{Authority: w.GetCosmosAddress().String(), NewParams: cpctypes.Params{ProtocolVersion: uint32(r.Intn(5)), WhitelistedDeployers: []string{"", "x"}}}
			}
			var bz []byte
			if pv := hx.Catch(func() {
				bz = c.buildCosmosTxFee(w, []sdk.Msg{msg}, nonceOf(w), 400000, new(big.Int).Mul(price(), big.NewInt(400000)))
			}); pv != nil {
				return buildRaw([]sdk.Msg{msg}, false, fee, 400000), "module-msg(unsigned)"
			}
			return bz, "module-msg"
		case 9: // an Ethereum message without the extension option / with a signature of the cosmos kind
			good := validTxs()
			tx, _ := txCfg.TxDecoder()(good[0])
			return c.buildCosmosTxFee(w, tx.GetMsgs(), nonceOf(w), 100000, new(big.Int).Mul(price(), big.NewInt(100000))), "eth-msg-in-cosmos-lane"
		case 10: // valid tx, mutated bytes
			return mutate(hx.Pick(r, validTxs())), "mutated"
		case 11:
			return randBytes(r.Intn(300)), "random"
		case 12: // access list with many entries, creation with init code that loops / returns huge
			var al ethtypes.AccessList
			for i := 0; i < 50+r.Intn(200); i++ {
				al = append(al, ethtypes.AccessTuple{Address: common.BytesToAddress(randBytes(20)), StorageKeys: []common.Hash{common.BytesToHash(randBytes(32))}})
			}
			bz, _ := c.buildEthTx(ethTxArgs{from: w, typ: 1, nonce: nonceOf(w), to: nil, gas: 5_000_000, gasPrice: price(), data: randBytes(r.Intn(400)), access: al})
			return bz, "eth-create-random-initcode"
		case 13: // legacy unprotected / foreign chain id
			to := c.wallets[4].GetEthAddress()
			bz, _ := c.buildEthTx(ethTxArgs{from: w, typ: 0, nonce: nonceOf(w), to: &to, gas: 21000, gasPrice: price(), unprotected: r.Bool(), chainID: big.NewInt(int64(1 + r.Intn(5)))})
			return bz, "eth-foreign-chain"
		case 14: // value transfer into module accounts / precompile addresses
			to := hx.Pick(r, []common.Address{f.addrs[90], f.addrs[91], f.addrs[92], precompiles[0], precompiles[2], precompiles[3]})
			bz, _ := c.buildEthTx(ethTxArgs{from: w, typ: 2, nonce: nonceOf(w), to: &to, value: big.NewInt(int64(1 + r.Intn(9))), gas: 100000, feeCap: price(), tip: big.NewInt(1)})
			return bz, "eth-value-to-special"
		default: // wrong declared sender / fee payer fields
			to := c.wallets[4].GetEthAddress()
			bz, _ := c.buildEthTx(ethTxArgs{from: w, typ: 2, nonce: nonceOf(w), to: &to, gas: 21000, feeCap: price(), tip: big.NewInt(1), declaredFrom: c.wallets[2].GetCosmosAddress(), memo: hx.Pick(r, []string{"", "m"}), timeoutHeight: uint64(r.Intn(3))})
			return bz, "eth-wrong-declared-from"
		}
	}

	finalizeGuarded := func(class string, txs [][]byte) *abci.ResponseFinalizeBlock {
		var res *abci.ResponseFinalizeBlock
		var joined []byte
		for _, tx := range txs {
			joined = append(joined, tx...)
		}
		out := sentinel("finalize", class, joined, func() string {
			height := c.app.LastBlockHeight() + 1
			c.now = c.now.Add(5_000_000_000)
			req := &abci.RequestFinalizeBlock{Height: height, Txs: txs, Hash: blockHashOf(height), Time: c.now, ProposerAddress: c.hdr.ProposerAddress, NextValidatorsHash: c.hdr.NextValidatorsHash}
			var err error
			res, err = c.app.FinalizeBlock(req)
			if err != nil {
				return "error:" + firstWords(err.Error(), 8)
			}
			if _, err := c.app.Commit(); err != nil {
				return "commit-error"
			}
			return "ok"
		})
		if strings.HasPrefix(out, "error:") || out == "commit-error" {
			p.Oracle("C20-block-production-failed", "class=%s FinalizeBlock/Commit returned %s (a failing block halts the chain)", class, out)
		}
		return res
	}
	liveness := func(after string) {
		w := c.wallets[4]
		to := c.wallets[0].GetEthAddress()
		tx, _ := c.buildEthTx(ethTxArgs{from: w, typ: 2, nonce: nonceOf(w), to: &to, value: big.NewInt(1), gas: 21000, feeCap: price(), tip: big.NewInt(1)})
		res := finalizeGuarded("liveness-after-"+after, [][]byte{tx})
		if res == nil || len(res.TxResults) != 1 || res.TxResults[0].Code != 0 {
			log := "-"
			if res != nil && len(res.TxResults) == 1 {
				log = firstWords(res.TxResults[0].Log, 14)
			}
			p.Oracle("C20-chain-stuck", "after %s a plain transfer no longer executes: %s", after, log)
		}
	}

	for i := 0; i < n; i++ {
		// ---------------------------------------------------------------- one batch of hostile transactions
		k := 1 + r.Intn(4)
		var txs [][]byte
		var classes []string
		for j := 0; j < k; j++ {
			bz, cls := adversarial()
			if bz == nil {
				continue
			}
			txs = append(txs, bz)
			classes = append(classes, cls)
		}
		if len(txs) == 0 {
			continue
		}
		for j, tx := range txs {
			cls := classes[j]
			out := sentinel("checktx", cls, tx, func() string {
				res, err := c.app.CheckTx(&abci.RequestCheckTx{Tx: tx, Type: abci.CheckTxType_New})
				if err != nil {
					return "error"
				}
				return codeOf(res.Code)
			})
			sentinel("recheck", cls, tx, func() string {
				res, err := c.app.CheckTx(&abci.RequestCheckTx{Tx: tx, Type: abci.CheckTxType_Recheck})
				if err != nil {
					return "error"
				}
				return codeOf(res.Code)
			})
			p.Emit(fmt.Sprintf("crash tx class=%s len=%d", strings.ReplaceAll(cls, " ", "_"), len(tx)), "checktx="+out)
		}
		height := c.app.LastBlockHeight() + 1
		all := strings.Join(classes, "+")
		sentinel("prepare", all, nil, func() string {
			res, err := c.app.PrepareProposal(&abci.RequestPrepareProposal{Txs: txs, MaxTxBytes: int64(hx.Pick(r, []int{1, 500, 1 << 20})), Height: height, Time: c.now, ProposerAddress: c.hdr.ProposerAddress})
			if err != nil {
				return "error"
			}
			return fmt.Sprintf("kept%d", len(res.Txs))
		})
		sentinel("process", all, nil, func() string {
			res, err := c.app.ProcessProposal(&abci.RequestProcessProposal{Txs: txs, Height: height, Time: c.now, Hash: blockHashOf(height), ProposerAddress: c.hdr.ProposerAddress})
			if err != nil {
				return "error"
			}
			return res.Status.String()
		})
		res := finalizeGuarded(all, txs)
		if res != nil {
			// the EVM indexer service indexes every committed block in a goroutine without recovery
			blk := &cmttypes.Block{Header: cmttypes.Header{Height: c.app.LastBlockHeight()}, Data: cmttypes.Data{}}
			for _, tx := range txs {
				blk.Data.Txs = append(blk.Data.Txs, cmttypes.Tx(tx))
			}
			var joined []byte
			for _, tx := range txs {
				joined = append(joined, tx...)
			}
			sentinel("indexer", all, joined, func() string {
				if err := kvIndexer.IndexBlock(blk, res.TxResults); err != nil {
					return "error"
				}
				return "ok"
			})
		}
		if res != nil {
			for j, tr := range res.TxResults {
				p.Emit(fmt.Sprintf("crash deliver class=%s", strings.ReplaceAll(classes[j], " ", "_")), "deliver="+codeOf(tr.Code))
				p.Count("deliver:" + classes[j] + ":" + codeOf(tr.Code))
				if tr.Code == 111222 || strings.Contains(tr.Log, "panic") || strings.Contains(tr.Log, "runtime error") {
					p.Count("deliver-recovered-panic:" + classes[j] + ":" + firstWords(tr.Log, 9))
				}
			}
		}
		if i%5 == 4 {
			liveness("batch")
		}

		// ---------------------------------------------------------------- JSON-RPC parameter decoding
		// go-ethereum's rpc server decodes the arguments of a request (json.Unmarshal into the parameter types) in its dispatch
		// goroutine, *outside* the recover() that wraps the method call: a panic in an UnmarshalJSON of a parameter type ends
		// the node process.  Hostile block parameters, as eth_getBalance / eth_call / eth_getBlockByNumber … receive them
		if i%3 == 0 {
			texts := []string{`"latest"`, `"Latest"`, `"lastest"`, `"1e3"`, `"0b101"`, `"12 "`, `""`, `null`, `-1`, `"-1"`, `"0x"`, `"0xzz"`, `"0x10000000000000000"`,
				`"99999999999999999999999999"`, `12`, `1.5`, `true`, `[]`, `{}`, `{"blockNumber":"abc"}`, `{"blockNumber":"1e3"}`, `{"blockNumber":null}`, `{"blockHash":"0x12"}`,
				`{"blockHash":"zz","blockNumber":"0x1"}`, `{"blockNumber":"0x1","requireCanonical":"yes"}`, `"pending"`, `"earliest"`, `"safe"`, `"finalized"`, `"0x7fffffffffffffff"`, `" 0x1"`}
			txt := hx.Pick(r, texts)
			if r.Chance(1, 4) {
				txt = `"` + strings.Trim(string(randBytes(1+r.Intn(12))), "\"\\") + `"`
			}
			sentinel("jsonrpc-param", "BlockNumber", []byte(txt), func() string {
				var bn rpctypes.BlockNumber
				if err := json.Unmarshal([]byte(txt), &bn); err != nil {
					return "rejected"
				}
				return "ok"
			})
			sentinel("jsonrpc-param", "BlockNumberOrHash", []byte(txt), func() string {
				var bnh rpctypes.BlockNumberOrHash
				if err := json.Unmarshal([]byte(txt), &bnh); err != nil {
					return "rejected"
				}
				return "ok"
			})
		}

		// ---------------------------------------------------------------- queries
		if i%2 == 0 {
			to, data, nm := fuzzCalldata()
			from := c.wallets[1].GetEthAddress()
			gas := hexutil.Uint64(hx.Pick(r, []uint64{0, 21000, 3_000_000, 30_000_000})) // (an unbounded gas allowance on the query path is a resource question, not a crash: the RPC gas cap is node configuration)
			args := evmtypes.TransactionArgs{From: &from, To: &to, Data: (*hexutil.Bytes)(&data), Gas: &gas}
			if r.Chance(1, 4) {
				args.Value = (*hexutil.Big)(big256)
			}
			if r.Chance(1, 5) {
				args.To = nil
			}
			argsBz, _ := json.Marshal(args)
			if r.Chance(1, 8) {
				argsBz = randBytes(r.Intn(100))
			}
			reqs := map[string]proto.Message{
				"/ethermint.evm.v1.Query/EthCall":                              &evmtypes.EthCallRequest{Args: argsBz, GasCap: hx.Pick(r, []uint64{1, 21000, 25_000_000})},
				"/ethermint.evm.v1.Query/EstimateGas":                          &evmtypes.EthCallRequest{Args: argsBz, GasCap: hx.Pick(r, []uint64{1, 21000, 25_000_000})},
				"/ethermint.evm.v1.Query/Account":                              &evmtypes.QueryAccountRequest{Address: hx.Pick(r, []string{"", "0x", "zz", to.Hex(), strings.Repeat("0x", 50)})},
				"/ethermint.evm.v1.Query/CosmosAccount":                        &evmtypes.QueryCosmosAccountRequest{Address: hx.Pick(r, []string{"", "0x1", to.Hex()})},
				"/ethermint.evm.v1.Query/ValidatorAccount":                     &evmtypes.QueryValidatorAccountRequest{ConsAddress: hx.Pick(r, []string{"", "x", "evmvalcons1qqqq"})},
				"/ethermint.evm.v1.Query/Balance":                              &evmtypes.QueryBalanceRequest{Address: hx.Pick(r, []string{"", to.Hex(), "0xzz"})},
				"/ethermint.evm.v1.Query/Storage":                              &evmtypes.QueryStorageRequest{Address: hx.Pick(r, []string{"", to.Hex()}), Key: hx.Pick(r, []string{"", "0x1", "zz", strings.Repeat("f", 100)})},
				"/ethermint.evm.v1.Query/Code":                                 &evmtypes.QueryCodeRequest{Address: hx.Pick(r, []string{"", to.Hex(), "q"})},
				"/ethermint.evm.v1.Query/TraceTx":                              &evmtypes.QueryTraceTxRequest{Msg: hx.Pick(r, []*evmtypes.MsgEthereumTx{nil, {MarshalledTx: randBytes(r.Intn(80)), From: "zz"}, {}}), Predecessors: hx.Pick(r, [][]*evmtypes.MsgEthereumTx{nil, {{MarshalledTx: randBytes(r.Intn(40))}}}), BlockNumber: int64(hx.Pick(r, []int{-5, 0, 1, 1 << 40})), BlockHash: hx.Pick(r, []string{"", "0x12", "zz"}), ProposerAddress: randBytes(r.Intn(25))},
				"/ethermint.evm.v1.Query/TraceBlock":                           &evmtypes.QueryTraceBlockRequest{Txs: hx.Pick(r, [][]*evmtypes.MsgEthereumTx{nil, {{MarshalledTx: randBytes(r.Intn(40))}}, {{}}}), BlockNumber: int64(hx.Pick(r, []int{-5, 0, 1})), BlockHash: "zz"},
				"/ethermint.evm.v1.Query/BaseFee":                              &evmtypes.QueryBaseFeeRequest{},
				"/evermint.cpc.v1.Query/CustomPrecompiledContract":             &cpctypes.QueryCustomPrecompiledContractRequest{Address: hx.Pick(r, []string{"", to.Hex(), "zz"})},
				"/evermint.cpc.v1.Query/Erc20CustomPrecompiledContractByDenom": &cpctypes.QueryErc20CustomPrecompiledContractByDenomRequest{MinDenom: hx.Pick(r, []string{"", "utwo", "!!"})},
				"/evermint.vauth.v1.Query/ProofExternalOwnedAccount":           &vauthtypes.QueryProofExternalOwnedAccountRequest{Account: hx.Pick(r, []string{"", "zz", c.wallets[1].GetCosmosAddress().String(), to.Hex()})},
				"/ethermint.feemarket.v1.Query/BaseFee":                        &feemarkettypes.QueryBaseFeeRequest{},
			}
			var paths []string
			for pth := range reqs {
				paths = append(paths, pth)
			}
			sortStrings(paths)
			for q := 0; q < 4; q++ {
				pth := hx.Pick(r, paths)
				bz, _ := proto.Marshal(reqs[pth])
				cls := pth[strings.LastIndex(pth, "/")+1:]
				if strings.Contains(pth, "EthCall") || strings.Contains(pth, "EstimateGas") {
					cls += ":" + strings.Split(nm, ".")[0]
				}
				if r.Chance(1, 8) {
					bz = randBytes(r.Intn(60))
					cls += ":random-bytes"
				}
				h := hx.Pick(r, []int64{0, c.app.LastBlockHeight(), c.app.LastBlockHeight() - 1, 1, -3, 1 << 40})
				sentinel("query", cls, bz, func() string {
					res, err := c.app.Query(c.ctx(), &abci.RequestQuery{Path: pth, Data: bz, Height: h})
					if err != nil {
						return "error"
					}
					return codeOf(res.Code)
				})
				p.Emit(fmt.Sprintf("crash query path=%s len=%d h=%d", cls, len(bz), h), "done")
			}
		}

		// ---------------------------------------------------------------- consensus parameters
		if i%25 == 24 {
			// the degenerate gas targets first, every run; then the rest of the grid in order
			sweep := i / 25
			maxGas := []int64{1, 2, 0, 21000, -1, 20999, 21001, 1_000_000, 3}[sweep%9]
			maxBytes := []int64{22020096, -1, 200, 1}[(sweep/2)%4]
			cls := fmt.Sprintf("maxgas=%d,maxbytes=%d", maxGas, maxBytes)
			ctx := c.ctx()
			cp := c.app.GetConsensusParams(ctx)
			orig := proto.Clone(&cp).(*cmtproto.ConsensusParams)
			cp.Block.MaxGas, cp.Block.MaxBytes = maxGas, maxBytes
			require.NoError(t, c.app.StoreConsensusParams(ctx, cp))
			for b := 0; b < 3; b++ {
				txs := validTxs()
				if b == 2 {
					txs = nil
				}
				res := finalizeGuarded("params:"+cls, txs)
				if res != nil {
					for _, tr := range res.TxResults {
						p.Count("params-deliver:" + codeOf(tr.Code))
					}
				}
				p.Emit("crash params "+cls, "done")
			}
			require.NoError(t, c.app.StoreConsensusParams(c.ctx(), *orig))
			finalizeGuarded("params:restore", nil)
			liveness("params:" + cls)
		}

		// ---------------------------------------------------------------- isolation
		if i%6 == 5 {
			// two fresh instances of the application with the same genesis execute block 1 = the same transactions
			// of two senders with ONE position holding a failing transaction — a different one on each instance
			A, B := newTwin(t, c.s, "A"), newTwin(t, c.s, "B")
			gctx := A.app.NewContext(false).WithBlockHeader(A.header(c.s, 1)).WithChainID(c.hdr.ChainID)
			gprice := new(big.Int).Mul(A.capp.FeeMarketKeeper().GetBaseFee(gctx).BigInt(), big.NewInt(2))
			price = func() *big.Int { return gprice }
			nonceOf = func(w *itutiltypes.TestAccount) uint64 { return 0 }
			good := validTxs()
			forceSigner = c.wallets[3]
			bad1, cls1 := adversarial()
			forceSigner = nil
			price, nonceOf = livePrice, liveNonce
			bad2 := randBytes(40 + r.Intn(100))
			if bad1 == nil {
				continue
			}
			pos := r.Intn(len(good) + 1)
			mk := func(bad []byte) [][]byte {
				out := append([][]byte{}, good[:pos]...)
				out = append(out, bad)
				return append(out, good[pos:]...)
			}
			var r1, r2 *abci.ResponseFinalizeBlock
			sentinel("finalize", "isolation:"+cls1, bad1, func() string {
				r1, _ = A.finalize(t, c.s, 1, mk(bad1))
				r2, _ = B.finalize(t, c.s, 1, mk(bad2))
				return "ok"
			})
			if r1 != nil && r2 != nil && r1.TxResults[pos].Code != 0 && len(r1.TxResults[pos].Events) > 0 {
				// the hostile tx failed AFTER the ante handler: its fee and sequence effects are legitimate state changes
				// (a later transfer then pays a few gas units more for a longer fee-collector balance) — not comparable
				p.Count("isolation:skipped(the hostile tx failed after paying its fee)")
			} else if r1 != nil && r2 != nil && r1.TxResults[pos].Code != 0 && r2.TxResults[pos].Code != 0 {
				okGood := 0
				for j := range r1.TxResults {
					if j == pos {
						continue
					}
					if r1.TxResults[j].Code == 0 {
						okGood++
					}
					a, _ := proto.Marshal(&abci.ExecTxResult{Code: r1.TxResults[j].Code, Data: r1.TxResults[j].Data, GasUsed: r1.TxResults[j].GasUsed, GasWanted: r1.TxResults[j].GasWanted, Events: r1.TxResults[j].Events, Codespace: r1.TxResults[j].Codespace})
					b, _ := proto.Marshal(&abci.ExecTxResult{Code: r2.TxResults[j].Code, Data: r2.TxResults[j].Data, GasUsed: r2.TxResults[j].GasUsed, GasWanted: r2.TxResults[j].GasWanted, Events: r2.TxResults[j].Events, Codespace: r2.TxResults[j].Codespace})
					if string(a) != string(b) {
						p.Oracle("C20-failure-not-isolated", "position %d of a block: result differs depending on WHICH failing transaction (%s vs random bytes) sits at position %d: %s", j, cls1, pos, diffResults(r1.TxResults[j], r2.TxResults[j]))
					}
				}
				p.Count(fmt.Sprintf("isolation:compared(%d other txs succeeded)", okGood))
			} else {
				p.Count("isolation:skipped(the hostile tx succeeded)")
			}
			p.Emit(fmt.Sprintf("crash isolation class=%s pos=%d", strings.ReplaceAll(cls1, " ", "_"), pos), "done")
		}
	}
	liveness("end")
}

type authsigningTx interface{}

func sortStrings(xs []string) {
	for i := 1; i < len(xs); i++ {
		for j := i; j > 0 && xs[j] < xs[j-1]; j-- {
			xs[j], xs[j-1] = xs[j-1], xs[j]
		}
	}
}

func diffResults(a, b *abci.ExecTxResult) string {
	if a.Code != b.Code {
		return fmt.Sprintf("code %d (%s) vs %d (%s)", a.Code, firstWords(a.Log, 10), b.Code, firstWords(b.Log, 10))
	}
	if a.GasUsed != b.GasUsed || a.GasWanted != b.GasWanted {
		return fmt.Sprintf("gas %d/%d vs %d/%d", a.GasUsed, a.GasWanted, b.GasUsed, b.GasWanted)
	}
	if len(a.Events) != len(b.Events) {
		return fmt.Sprintf("%d events vs %d", len(a.Events), len(b.Events))
	}
	for i := range a.Events {
		for k := range a.Events[i].Attributes {
			if k < len(b.Events[i].Attributes) && a.Events[i].Attributes[k] != b.Events[i].Attributes[k] {
				return fmt.Sprintf("event %s.%s: %s vs %s", a.Events[i].Type, a.Events[i].Attributes[k].Key, firstWords(a.Events[i].Attributes[k].Value, 6), firstWords(b.Events[i].Attributes[k].Value, 6))
			}
		}
	}
	return "data differs"
}
