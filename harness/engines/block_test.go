package engines

import (
	"bytes"
	"encoding/hex"
	"fmt"
	cpcabi "github.com/EscanBE/evermint/v12/x/cpc/abi"
	cpctypes "github.com/EscanBE/evermint/v12/x/cpc/types"
	"math/big"
	"os"
	"sort"
	"strings"
	"testing"
	"time"

	sdkmath "cosmossdk.io/math"
	abci "github.com/cometbft/cometbft/abci/types"
	sdk "github.com/cosmos/cosmos-sdk/types"
	authtypes "github.com/cosmos/cosmos-sdk/x/auth/types"
	vestingtypes "github.com/cosmos/cosmos-sdk/x/auth/vesting/types"
	banktypes "github.com/cosmos/cosmos-sdk/x/bank/types"
	minttypes "github.com/cosmos/cosmos-sdk/x/mint/types"
	"github.com/ethereum/go-ethereum/common"
	"github.com/ethereum/go-ethereum/core"
	ethtypes "github.com/ethereum/go-ethereum/core/types"
	"github.com/ethereum/go-ethereum/crypto"
	"github.com/stretchr/testify/require"

	chainapp "github.com/EscanBE/evermint/v12/app"
	itutiltypes "github.com/EscanBE/evermint/v12/integration_test_util/types"
	evmkeeper "github.com/EscanBE/evermint/v12/x/evm/keeper"
	evmtypes "github.com/EscanBE/evermint/v12/x/evm/types"

	"verifharness/hx"
)

func ethCryptoKeccak(b []byte) []byte { return crypto.Keccak256(b) }

// blockFixture: contracts planted at fixture time and the wallets used as senders.
type blockFixture struct {
	erc20Two                   common.Address
	c                          *chain
	logger                     common.Address // emits calldata[0] LOG0s
	reverter                   common.Address
	storer                     common.Address   // calldata[0]: 1 = set 8 slots, 0 = clear them (refund)
	burner                     common.Address   // infinite loop
	sink                       common.Address   // accepts value
	sds                        []common.Address // self-destructors (beneficiary = first 20 bytes of calldata)
	sdUsed                     []bool
	sdBal                      []int64 // EVM-denom balance each holds
	sdOther                    []int64 // second-denom balance each holds
	fresh                      int
	poor                       *itutiltypes.TestAccount // wallet with a tiny balance
	vester                     *itutiltypes.TestAccount // a sender that is a vesting account
	freeGas                    bool                     // the chain with base fee 0 and minimum gas price 0
	scripted                   bool                     // the directed first block has been generated
	script                     []int                    // forced transaction kinds of the directed block
	maxGas                     int64
	forceGas                   uint64         // gas limit of the next burner call (a filler that leaves little block gas)
	nonces                     map[int]uint64 // optimistic next nonce per wallet index
	heavy                      bool
	seqAtBegin, cosmosAdmitted map[int]uint64
}

var (
	codeLogger = asm("PUSH1", 0, "CALLDATALOAD", "PUSH1", 0xf8, "SHR",
		"@loop", "JUMPDEST", "DUP1", "ISZERO", "PUSH@", "end", "JUMPI",
		"PUSH1", 0, "PUSH1", 0, "LOG0", "PUSH1", 1, "SWAP1", "SUB", "PUSH@", "loop", "JUMP",
		"@end", "JUMPDEST", "STOP")
	codeReverter = asm("PUSH1", 0, "PUSH1", 0, "REVERT")
	codeStorer   = asm("PUSH1", 0, "CALLDATALOAD", "PUSH1", 0xf8, "SHR", "PUSH1", 8,
		"@loop", "JUMPDEST", "DUP1", "ISZERO", "PUSH@", "end", "JUMPI",
		"PUSH1", 1, "SWAP1", "SUB", "DUP2", "DUP2", "SSTORE", "PUSH@", "loop", "JUMP",
		"@end", "JUMPDEST", "STOP")
	codeBurner = asm("@l", "JUMPDEST", "PUSH@", "l", "JUMP")
	codeSink   = asm("STOP")
	codeSD     = asm("PUSH1", 0, "CALLDATALOAD", "PUSH1", 96, "SHR", "SELFDESTRUCT")
	// init code that reverts / that runs out of gas
	initReverting = asm("PUSH1", 0, "PUSH1", 0, "REVERT")
)

// blockFixtureFreeGas: the next fixture is a chain whose fee market parameters are base fee 0 and minimum gas price 0
// (valid parameters: gas is free unless a sender offers a tip)
var blockFixtureFreeGas bool

// blockFixtureMinAbove: the next fixture is a chain whose global minimum gas price (5 gwei) is above its base fee (1 gwei)
// in the first block — as after a governance increase of the minimum — and whose proposer has just been jailed (a jailed
// validator still proposes the blocks it was scheduled for)
var blockFixtureMinAbove bool

func newBlockFixture(t *testing.T, maxGas int64) *blockFixture {
	c := newChain(t)
	f := &blockFixture{c: c, maxGas: maxGas, nonces: map[int]uint64{}, seqAtBegin: map[int]uint64{}, cosmosAdmitted: map[int]uint64{}}
	f.logger = c.deployRuntime("logger", codeLogger)
	f.reverter = c.deployRuntime("reverter", codeReverter)
	f.storer = c.deployRuntime("storer", codeStorer)
	f.burner = c.deployRuntime("burner", codeBurner)
	f.sink = c.deployRuntime("sink", codeSink)
	ctx := c.s.CurrentContext
	bk := c.s.ChainApp.BankKeeper()
	fund := func(a common.Address, d string, n int64) {
		coins := sdk.NewCoins(sdk.NewInt64Coin(d, n))
		require.NoError(t, bk.MintCoins(ctx, minttypes.ModuleName, coins))
		require.NoError(t, bk.SendCoinsFromModuleToAccount(ctx, minttypes.ModuleName, a.Bytes(), coins))
	}
	for i := 0; i < 40; i++ {
		a := c.deployRuntime(fmt.Sprintf("sd%d", i), codeSD)
		f.sds = append(f.sds, a)
		f.sdUsed = append(f.sdUsed, false)
		b0, b1 := int64(0), int64(0)
		if i%2 == 0 {
			b0 = int64(100 + i)
			fund(a, c.evmDenom, b0)
		}
		if i%3 == 0 {
			b1 = int64(7 + i)
			fund(a, "utwo", b1)
		}
		f.sdBal = append(f.sdBal, b0)
		f.sdOther = append(f.sdOther, b1)
	}
	// a log-emitting custom precompile WITHOUT code in the EVM state: the ERC-20 face of a second denomination; the
	// senders hold some of it (the EVM denomination, which the model tracks, is not touched by these transfers)
	{
		tok, err := c.s.ChainApp.CpcKeeper().DeployErc20CustomPrecompiledContract(ctx, "two", cpctypes.Erc20CustomPrecompiledContractMeta{Symbol: "TWO", Decimals: 6, MinDenom: "utwo"})
		require.NoError(t, err)
		f.erc20Two = tok
		for _, w := range c.wallets {
			fund(w.GetEthAddress(), "utwo", 1_000_000)
		}
	}
	// a sender that is a vesting account (a thousand units locked for good, the rest free like any wallet's): sending
	// Ethereum transactions must leave it the vesting account it is
	{
		f.vester = c.s.CreateAccount()
		ak := c.s.ChainApp.AccountKeeper()
		base := ak.NewAccountWithAddress(ctx, f.vester.GetCosmosAddress()).(*authtypes.BaseAccount)
		bva, err := vestingtypes.NewBaseVestingAccount(base, sdk.NewCoins(sdk.NewInt64Coin(c.evmDenom, 1000)), ctx.BlockTime().Add(100000*time.Hour).Unix())
		require.NoError(t, err)
		ak.SetAccount(ctx, vestingtypes.NewDelayedVestingAccountRaw(bva))
		coins := sdk.NewCoins(sdk.NewCoin(c.evmDenom, sdkmath.NewIntFromBigInt(new(big.Int).Mul(big.NewInt(2), new(big.Int).Exp(big.NewInt(10), big.NewInt(18), nil)))))
		require.NoError(t, bk.MintCoins(ctx, minttypes.ModuleName, coins))
		require.NoError(t, bk.SendCoinsFromModuleToAccount(ctx, minttypes.ModuleName, f.vester.GetCosmosAddress(), coins))
	}
	// a poor wallet: enough for nothing but a couple of cheap txs
	f.poor = c.s.CreateAccount()
	fund(f.poor.GetEthAddress(), c.evmDenom, 30_000_000_000_000) // 21000 gas at 1 gwei = 2.1e13
	if blockFixtureFreeGas {
		f.freeGas = true
		fk := c.s.ChainApp.FeeMarketKeeper()
		fp := fk.GetParams(ctx)
		fp.BaseFee = sdkmath.ZeroInt()
		fp.MinGasPrice = sdkmath.LegacyZeroDec()
		require.NoError(t, fk.SetParams(ctx, fp))
	}
	if blockFixtureMinAbove {
		fk := c.s.ChainApp.FeeMarketKeeper()
		fp := fk.GetParams(ctx)
		fp.MinGasPrice = sdkmath.LegacyNewDec(5_000_000_000)
		require.NoError(t, fk.SetParams(ctx, fp))
		require.NoError(t, c.s.ChainApp.StakingKeeper().Jail(ctx, sdk.ConsAddress(ctx.BlockHeader().ProposerAddress)))
	}
	if maxGas != 0 {
		app := c.s.ChainApp.IbcTestingApp().(*chainapp.Evermint)
		cp, err := app.ConsensusParamsKeeper.ParamsStore.Get(ctx)
		require.NoError(t, err)
		cp.Block.MaxGas = maxGas
		require.NoError(t, app.ConsensusParamsKeeper.ParamsStore.Set(ctx, cp))
	}
	// for every sender a funded account at a 32-byte address whose last twenty bytes are the sender's address (sequence 0): an
	// Ethereum wrapper that names it as `From` is signed by a key that does not control it
	for _, w := range f.senders() {
		coins := sdk.NewCoins(sdk.NewCoin(c.evmDenom, sdkmath.NewIntFromBigInt(new(big.Int).Exp(big.NewInt(10), big.NewInt(20), nil))))
		require.NoError(t, bk.MintCoins(ctx, minttypes.ModuleName, coins))
		require.NoError(t, bk.SendCoinsFromModuleToAccount(ctx, minttypes.ModuleName, longFromOf(w.GetEthAddress()), coins))
	}
	c.setupDone()
	return f
}

func (f *blockFixture) senders() []*itutiltypes.TestAccount {
	ws := append([]*itutiltypes.TestAccount{}, f.c.wallets[:5]...)
	if f.vester != nil {
		ws = append(ws, f.vester)
	}
	return append(ws, f.poor)
}

type genTx struct {
	bytes  []byte
	opline string // model input (without the observed execution summary)
	sender int
	toW    int // wallet index credited, -1
	kind   string
	sdIdx  int
	ethTx  *ethtypes.Transaction
	cosmos bool
	replay bool
	gb, rc uint64 // refund hook: gas used before refund, refund counter
	cosFee *big.Int
	cosGas uint64
	prime  []byte // the same signed Ethereum payload wrapped honestly (From = its real signer): offered to CheckTx first
}

// appendCrossing: in a heavy block, a burner sized to leave only a little block gas, followed by an ordinary transaction whose gas
// limit is well above what it uses: that transaction is the one that crosses the block gas limit — the consensus result then
// holds the gas its execution really used while its sender paid for (and its receipt shows) the whole limit
func (f *blockFixture) appendCrossing(rng *hx.Rng, priceFloor *big.Int, ws []*itutiltypes.TestAccount, txs []genTx, heavy bool, p *hx.Proto) []genTx {
	if !heavy || f.maxGas <= 0 || len(f.script) > 0 || !rng.Chance(1, 2) {
		return txs
	}
	sum := uint64(0)
	for _, g := range txs {
		if g.ethTx != nil {
			sum += g.ethTx.Gas() // (an upper bound of what the transactions before consume)
		}
	}
	if rng.Chance(2, 3) { // a Cosmos transaction in front: from here on block positions and Ethereum indices differ
		f.script = []int{97}
		txs = append(txs, f.genTx(rng, priceFloor, ws))
	}
	delta := uint64(12_000 + rng.Intn(25_000))
	if sum+delta+60_000 < uint64(f.maxGas) {
		f.heavy, f.forceGas = true, uint64(f.maxGas)-sum-delta
		f.script = []int{48}
		txs = append(txs, f.genTx(rng, priceFloor, ws))
	}
	f.heavy, f.forceGas = false, 0
	f.script = []int{hx.Pick(rng, []int{35, 35, 25, 16})} // storer (limit 300 000), logger, transfer to a fresh address
	txs = append(txs, f.genTx(rng, priceFloor, ws))
	f.script = nil
	p.Count("block:crossing-pair")
	return txs
}

// longFromOf: a 32-byte account address whose last twenty bytes are the given Ethereum address
func longFromOf(a common.Address) sdk.AccAddress {
	return sdk.AccAddress(append(bytes.Repeat([]byte{0x5a}, 12), a.Bytes()...))
}

// records of the verif-tag refund hook, in execution order: {gasUsedBeforeRefund, counter, applied, remaining}
var hookRecs [][4]uint64

func init() {
	evmkeeper.VerifRefundHook = func(a, b, c, d uint64) { hookRecs = append(hookRecs, [4]uint64{a, b, c, d}) }
}

// TestEngineBlock: random multi-tx blocks through the real FinalizeBlock; per tx the model
// must predict class, gas wanted/used, indices, cumulative gas, status, effective price and the
// balance / supply deltas from the tx fields plus the EVM execution summary.
func TestEngineBlock(t *testing.T) {
	rng := hx.NewRng(hx.Seed())
	nTx := hx.EnvInt("VERIF_N", 300)
	p := hx.NewProto("block")
	defer p.Close()
	maxGas := int64(hx.EnvInt("VERIF_MAXGAS", 3_000_000))
	f := newBlockFixture(t, maxGas)
	defer f.c.s.Cleanup()
	runBlocks(t, f, rng, p, nTx-nTx/6-nTx/12)
	// a second chain on which gas is free (base fee 0, minimum gas price 0): the effective price is the tip alone
	blockFixtureFreeGas = true
	f2 := newBlockFixture(t, 20*maxGas) // a gas target that the generated blocks stay below: the base fee stays 0
	blockFixtureFreeGas = false
	defer f2.c.s.Cleanup()
	runBlocks(t, f2, rng, p, nTx/6)
	// a third chain: minimum gas price above the base fee in the first block, proposer jailed
	blockFixtureMinAbove = true
	f3 := newBlockFixture(t, maxGas)
	blockFixtureMinAbove = false
	defer f3.c.s.Cleanup()
	runBlocks(t, f3, rng, p, nTx/12)
}

func runBlocks(t *testing.T, f *blockFixture, rng *hx.Rng, p *hx.Proto, nTx int) {
	c := f.c
	ws := f.senders()
	total := 0
	blockOracle = p.Oracle
	var replayPool []genTx // transactions that were admitted in earlier blocks
	for total < nTx {
		ctx := c.ctx()
		baseFee := c.s.ChainApp.FeeMarketKeeper().GetBaseFee(ctx).BigInt()
		fmParams := c.s.ChainApp.FeeMarketKeeper().GetParams(ctx)
		// block header line: base fee, max gas, min gas price mantissa, and the real balances / sequences
		var sb strings.Builder
		fmt.Fprintf(&sb, "begin %s %d %s", baseFee, f.maxGas, fmParams.MinGasPrice.BigInt())
		priceFloor := baseFee // what the generator prices around: the larger of the base fee and the global minimum gas price
		if m := fmParams.MinGasPrice.TruncateInt().BigInt(); m.Cmp(priceFloor) > 0 {
			priceFloor = m
		}
		for i, w := range ws {
			fmt.Fprintf(&sb, " %d:%s:%d", i, c.balance(ctx, w.GetCosmosAddress()), c.seq(ctx, w.GetCosmosAddress()))
			f.nonces[i] = c.seq(ctx, w.GetCosmosAddress())
			f.seqAtBegin[i] = f.nonces[i]
			f.cosmosAdmitted[i] = 0
		}
		p.Emit(sb.String(), "ok")
		supplyBefore := c.s.ChainApp.BankKeeper().GetSupply(ctx, c.evmDenom).Amount.BigInt()
		_ = supplyBefore

		n := 1 + rng.Intn(10)
		if !f.scripted {
			// directed first block of every chain: log-emitting transactions separated by transactions that pass the ante handler
			// and then fail outside the EVM (value above the balance, a panic in the handler, intrinsic gas) or revert, a
			// transaction straight to a log-emitting precompile, a creation — the running log index, transaction index and
			// cumulative gas must survive every kind of failure in between
			f.scripted = true
			f.script = []int{192, 20, 75, 20, 78, 20, 72, 29, 64, 42, 20}
			n = len(f.script)
		}
		heavy := f.maxGas > 0 && rng.Chance(1, 5) && !f.freeGas // (a block above the gas target would move the base fee off zero for good)
		var txs []genTx
		for i := 0; i < n; i++ {
			f.heavy = heavy && rng.Chance(2, 3) && len(f.script) == 0
			if len(f.script) == 0 && len(replayPool) > 0 && rng.Chance(1, 25) { // replay previously accepted bytes
				r := replayPool[rng.Intn(len(replayPool))]
				r.kind, r.replay = "replay", true
				txs = append(txs, r)
				continue
			}
			scriptedTx := len(f.script) > 0
			txs = append(txs, f.genTx(rng, priceFloor, ws))
			if !scriptedTx && rng.Chance(1, 30) { // the same bytes twice in one block
				r := txs[len(txs)-1]
				r.kind, r.replay = "replay-same-block", true
				txs = append(txs, r)
			}
		}
		txs = f.appendCrossing(rng, priceFloor, ws, txs, heavy, p)
		raw := make([][]byte, len(txs))
		for i, g := range txs {
			raw[i] = g.bytes
		}
		for _, g := range txs {
			if g.prime != nil {
				_, _ = c.app.CheckTx(&abci.RequestCheckTx{Tx: g.prime, Type: abci.CheckTxType_New})
				_, _ = c.app.CheckTx(&abci.RequestCheckTx{Tx: g.prime, Type: abci.CheckTxType_Recheck})
				p.Count("primed-by-checktx")
			}
		}
		hookRecs = hookRecs[:0]
		res := c.finalize(raw)
		hi := 0
		// implementation-side oracles (running totals over the block)
		admittedCnt, logTotal, cumTotal := int64(0), int64(0), uint64(0)
		admittedBy := map[int]uint64{}
		blockBloom := ethtypes.Bloom{}
		var bloomRcpts, bloomWant []string // the logs of every receipt of the block (model input) and the receipts' own bloom fields
		for i, g := range txs {
			o := c.observe(res.TxResults[i])
			if g.replay && i > 0 && g.kind == "replay-same-block" {
				// the same bytes right after themselves: if the first copy was admitted the second must not be
				prev := c.observe(res.TxResults[i-1])
				if (prev.hasEthEv || (g.cosmos && prev.code == 0)) && (o.code == 0 || o.hasEthEv) {
					p.Oracle("replay", "the same transaction bytes were admitted twice in one block (code %d)", o.code)
				}
			} else if g.replay && (o.code == 0 || o.hasEthEv) {
				p.Oracle("replay", "previously accepted transaction bytes were admitted again (%s, code %d)", g.kind, o.code)
			}
			if !g.cosmos {
				cl := obsClass(o)
				if o.hasEthEv {
					if o.anteTxIdx != admittedCnt {
						p.Oracle("tx-index", "ethereum_tx txIndex=%d, expected %d (position %d)", o.anteTxIdx, admittedCnt, i)
					}
					admittedCnt++
					admittedBy[g.sender]++
					replayPool = append(replayPool, g)
					if len(replayPool) > 64 {
						replayPool = replayPool[1:]
					}
				}
				if o.hasRcpt && o.receipt != nil {
					if o.txIdx != o.anteTxIdx {
						p.Oracle("tx-index", "receipt txIdx %d != ante txIndex %d", o.txIdx, o.anteTxIdx)
					}
					if nl := int64(len(o.receipt.Logs)); nl > 0 && o.logIdx != logTotal {
						p.Oracle("log-index", "tx %d: first log index %d, expected %d (logs of earlier txs)", i, o.logIdx, logTotal)
					}
					logTotal += int64(len(o.receipt.Logs))
					if o.receipt.CumulativeGasUsed != cumTotal+o.rGasUsed {
						p.Oracle("cumulative-gas", "tx %d: cumulative %d, expected %d", i, o.receipt.CumulativeGasUsed, cumTotal+o.rGasUsed)
					}
					cumTotal += o.rGasUsed
					if uint64(o.gasUsed) != o.rGasUsed {
						p.Oracle("gas-result-receipt", "tx %d: consensus gas used %d != receipt gas used %d", i, o.gasUsed, o.rGasUsed)
					}
					if ig, _ := core.IntrinsicGas(g.ethTx.Data(), g.ethTx.AccessList(), g.ethTx.To() == nil, true, true); o.rGasUsed < ig || o.rGasUsed > g.ethTx.Gas() {
						p.Oracle("gas-bounds", "tx %d: gas used %d outside [intrinsic %d, limit %d]", i, o.rGasUsed, ig, g.ethTx.Gas())
					}
					// created-contract address: reported exactly when the creation succeeded, and equal to CREATE(sender, nonce)
					isCreate := g.ethTx.To() == nil
					wantAddr := ""
					if isCreate && o.receipt.Status == 1 {
						wantAddr = crypto.CreateAddress(ws[g.sender].GetEthAddress(), g.ethTx.Nonce()).Hex()
					}
					if !strings.EqualFold(o.contract, wantAddr) {
						p.Oracle("contract-address", "tx %d (%s): tx_receipt contract address %q, expected %q (creation=%v status=%d)", i, g.kind, o.contract, wantAddr, isCreate, o.receipt.Status)
					}
					if (o.receipt.Status == 1) != (o.vmErr == "") {
						p.Oracle("status", "tx %d: status %d but vm error %q", i, o.receipt.Status, o.vmErr)
					}
					for j := range blockBloom {
						blockBloom[j] |= o.receipt.Bloom[j]
					}
					{
						var ls []string
						for _, lg := range o.receipt.Logs {
							it := []string{hex.EncodeToString(lg.Address.Bytes())}
							for _, tp := range lg.Topics {
								it = append(it, hex.EncodeToString(tp.Bytes()))
							}
							ls = append(ls, strings.Join(it, ","))
						}
						enc := "-"
						if len(ls) > 0 {
							enc = strings.Join(ls, "|")
						}
						bloomRcpts = append(bloomRcpts, enc)
						if o.receipt.Bloom.Big().Sign() == 0 {
							bloomWant = append(bloomWant, "-")
						} else {
							bloomWant = append(bloomWant, hex.EncodeToString(o.receipt.Bloom.Bytes()))
						}
					}
				} else if o.hasEthEv { // admitted but not committed: the assume-failed receipt counts the full gas limit
					cumTotal += g.ethTx.Gas()
				}
				sender := ws[g.sender].GetCosmosAddress().String()
				dS, dC := big.NewInt(0), big.NewInt(0)
				if v, ok := o.delta[sender]; ok {
					dS = v
				}
				if v, ok := o.delta[c.feeCollector()]; ok {
					dC = v
				}
				if cl == "cerr" && uint64(o.gasUsed) != g.ethTx.Gas() {
					p.Oracle("consume-all-gas", "tx %d (%s): failed outside EVM execution but consensus gas used is %d, gas limit %d", i, g.kind, o.gasUsed, g.ethTx.Gas())
				}
				if new(big.Int).Sub(o.minted, o.burnt).Sign() > 0 {
					p.Oracle("supply-created", "tx %d (%s, %s): minted %s > burnt %s", i, g.kind, cl, o.minted, o.burnt)
				}
				moved := big.NewInt(0)
				if cl == "ok" && g.toW != g.sender {
					moved = g.ethTx.Value()
				}
				if sum := new(big.Int).Add(new(big.Int).Add(dS, dC), moved); sum.Sign() != 0 {
					p.Oracle("fee-leak", "tx %d (%s, %s): sender %s + collector %s + value %s != 0", i, g.kind, cl, dS, dC, moved)
				}
				if cl == "vmerr" { // C03: when the whole transaction ends with a VM error only the nonce increment and the gas fee remain
					var others []string
					for who, v := range o.delta {
						if who != sender && who != c.feeCollector() && v.Sign() != 0 {
							others = append(others, who+":"+v.String())
						}
					}
					sort.Strings(others)
					if len(others) > 0 || new(big.Int).Add(dS, dC).Sign() != 0 || o.minted.Cmp(o.burnt) != 0 {
						p.Oracle("C03-vmerr-leaves-more-than-the-fee", "tx %d (%s): status 0, yet sender %s, collector %s, others %v, minted %s burnt %s", i, g.kind, dS, dC, others, o.minted, o.burnt)
					}
				}
			}
			// attach the refund-hook record of this tx's state transition (matched in order, checked by gas)
			g.gb, g.rc = 0, 0
			if cl := obsClass(o); !g.cosmos && (cl == "ok" || cl == "vmerr" || cl == "blockoog") {
				for hi < len(hookRecs) {
					r := hookRecs[hi]
					hi++
					if int64(r[0]-r[2]) == o.gasUsed {
						g.gb, g.rc = r[0], r[1]
						break
					}
				}
			}
			if os.Getenv("VERIF_DEBUG") != "" && o.code != 0 {
				fmt.Printf("DBG kind=%s code=%s/%d gw=%d gu=%d log=%.160s\n", g.kind, o.codespace, o.code, o.gasWanted, o.gasUsed, o.log)
			}
			if g.cosmos {
				if v, ok := o.delta[c.feeCollector()]; ok && v.Sign() > 0 {
					f.cosmosAdmitted[g.sender]++
					// admission rule (C09): nothing priced below the base fee is ever executed
					if g.cosFee != nil && g.cosFee.Cmp(new(big.Int).Mul(baseFee, new(big.Int).SetUint64(g.cosGas))) < 0 {
						p.Oracle("admission-below-basefee", "Cosmos tx admitted with fee %s for gas %d: price below the base fee %s", g.cosFee, g.cosGas, baseFee)
					}
				}
			} else if o.hasEthEv && g.ethTx != nil {
				ep := g.ethTx.GasPrice()
				if g.ethTx.Type() == 2 {
					ep = new(big.Int).Add(g.ethTx.GasTipCap(), baseFee)
					if ep.Cmp(g.ethTx.GasFeeCap()) > 0 {
						ep = g.ethTx.GasFeeCap()
					}
				}
				if ep.Cmp(baseFee) < 0 {
					p.Oracle("admission-below-basefee", "Ethereum tx admitted with effective price %s below the base fee %s", ep, baseFee)
				}
			}
			op, obs := f.lines(g, o, ws)
			p.Count("class:" + obsClass(o))
			p.Count("kind:" + g.kind)
			p.Emit(op, obs)
			total++
			if o.hasRcpt && o.contract != "" && !g.cosmos && g.ethTx != nil {
				// the reported contract address against the Lean model of the CREATE address (RLP + Keccak-256 in Lean)
				p.Emit(fmt.Sprintf("caddr %s %d", hex.EncodeToString(ws[g.sender].GetEthAddress().Bytes()), g.ethTx.Nonce()), strings.ToLower(strings.TrimPrefix(o.contract, "0x")))
				p.Count("caddr-line")
			}
		}
		// end of block: next base fee (ties the block gas meter to the fee market model) and re-sync check
		ctx2 := c.ctx()
		var eb strings.Builder
		fmt.Fprintf(&eb, "basefee=%s", c.s.ChainApp.FeeMarketKeeper().GetBaseFee(ctx2).BigInt())
		for i, w := range ws {
			fmt.Fprintf(&eb, " %d:%s:%d", i, c.balance(ctx2, w.GetCosmosAddress()), c.seq(ctx2, w.GetCosmosAddress()))
		}
		bloom := "-"
		for _, ev := range res.Events {
			if ev.Type == evmtypes.EventTypeBlockBloom {
				if v, ok := attr(ev, evmtypes.AttributeKeyEthereumBloom); ok {
					bloom = fmt.Sprint(len(v))
				}
			}
		}
		{
			want := ""
			if blockBloom.Big().Sign() != 0 {
				want = fmt.Sprintf("%x", blockBloom.Bytes())
			}
			got, found := "", false
			for _, ev := range res.Events {
				if ev.Type == evmtypes.EventTypeBlockBloom {
					got, _ = attr(ev, evmtypes.AttributeKeyEthereumBloom)
					found = true
				}
			}
			if !found || got != want {
				p.Oracle("block-bloom", "block bloom event (found=%v) is not the union of the receipt blooms", found)
			}
			// the same through the Lean model of the bloom filter (Keccak-256 in Lean): every receipt's bloom from its own logs,
			// and the block bloom as EndBlock reports it
			if len(bloomRcpts) > 0 {
				if got == "" {
					got = "-"
				}
				p.Emit("bloom "+strings.Join(bloomRcpts, ";"), "rb="+strings.Join(bloomWant, ",")+" bb="+got)
				p.Count("bloom-line")
			}
		}
		for i, w := range ws {
			if want, got := f.seqAtBegin[i]+admittedBy[i]+f.cosmosAdmitted[i], c.seq(ctx2, w.GetCosmosAddress()); want != got {
				p.Oracle("sequence", "wallet %d: sequence %d after the block, expected %d (+1 per admitted tx)", i, got, want)
			}
		}
		_ = bloom
		p.Emit("end", eb.String())
		// oracle: a vesting account that sent transactions is still that vesting account, with its coins still locked
		if f.vester != nil {
			acc := c.s.ChainApp.AccountKeeper().GetAccount(ctx2, f.vester.GetCosmosAddress())
			dv, ok := acc.(*vestingtypes.DelayedVestingAccount)
			if !ok {
				p.Oracle("C15-sender-retyped", "the vesting account among the senders is a %T after block %d", acc, c.app.LastBlockHeight())
			} else if l := dv.LockedCoins(ctx2.BlockTime()).AmountOf(c.evmDenom); !l.Equal(sdkmath.NewInt(1000)) {
				p.Oracle("C15-sender-retyped", "the vesting account among the senders has %s locked after block %d, 1000 before", l, c.app.LastBlockHeight())
			}
		}
		// oracle: the EVM module account holds nothing after any block
		if b := c.balance(ctx2, authtypes.NewModuleAddress(evmtypes.ModuleName)); b.Sign() != 0 {
			p.Oracle("evm-module-nonzero", "evm module account holds %s after block %d", b, c.app.LastBlockHeight())
		}
	}
}

func obsClass(o txObs) string {
	switch {
	case o.code == 0:
		if o.receipt != nil && o.receipt.Status == 0 {
			return "vmerr"
		}
		return "ok"
	case !o.hasEthEv && o.gasWanted == 0 && strings.Contains(o.log, "no block gas left"):
		return "dropped"
	case !o.hasEthEv:
		return fmt.Sprintf("ante:%s/%d", o.codespace, o.code)
	case o.codespace == "sdk" && o.code == 11:
		return "blockoog"
	case o.code == 111222: // sdkerrors.ErrPanic: recovered by runTx
		return "panic"
	default:
		return "cerr"
	}
}

func (f *blockFixture) genTx(rng *hx.Rng, baseFee *big.Int, ws []*itutiltypes.TestAccount) genTx {
	c := f.c
	si := rng.Intn(len(ws))
	if si == len(ws)-1 && !rng.Chance(1, 3) { // the poor wallet less often
		si = rng.Intn(len(ws) - 1)
	}
	from := ws[si]
	a := ethTxArgs{from: from, typ: rng.Intn(3), nonce: f.nonces[si], value: big.NewInt(0)}
	g := genTx{sender: si, toW: -1, sdIdx: -1}

	// fee fields around the base fee
	above := new(big.Int).Add(baseFee, big.NewInt(int64(rng.Intn(1_000_000_000))))
	switch a.typ {
	case 2:
		a.feeCap = above
		switch rng.Intn(4) {
		case 0:
			a.tip = big.NewInt(0)
		case 1:
			a.tip = new(big.Int).Set(a.feeCap)
		case 2:
			a.tip = big.NewInt(int64(rng.Intn(2_000_000_000)))
			if a.tip.Cmp(a.feeCap) > 0 {
				a.tip = new(big.Int).Set(a.feeCap)
			}
		default:
			a.tip = big.NewInt(1)
		}
	default:
		a.gasPrice = above
	}
	if a.typ == 1 && rng.Bool() {
		a.access = ethtypes.AccessList{{Address: f.storer, StorageKeys: []common.Hash{{}, common.BigToHash(big.NewInt(1))}}}
	}
	a.gas = 100_000 + uint64(rng.Intn(400_000))
	sigClass := "ok"

	kind := rng.Intn(100)
	if f.heavy { // fill the block: gas-hungry calls that consume their whole limit
		kind = 48
	}
	if len(f.script) > 0 { // a directed block: the kinds are given
		kind, f.script = f.script[0], f.script[1:]
	}
	switch {
	case kind < 14: // plain transfer to a wallet
		wi := rng.Intn(len(ws))
		to := ws[wi].GetEthAddress()
		a.to = &to
		a.value = big.NewInt(int64(1 + rng.Intn(1000)))
		a.gas = 21000 + uint64(rng.Intn(3)*10000)
		g.toW = wi
		g.kind = "transfer"
	case kind < 20: // transfer to a fresh address
		f.fresh++
		to := common.BytesToAddress(crypto.Keccak256([]byte(fmt.Sprintf("fresh-%d", f.fresh)))[12:])
		a.to = &to
		a.value = big.NewInt(int64(rng.Intn(50)))
		a.gas = 21000 + uint64(rng.Intn(50000))
		g.kind = "transfer-fresh"
	case kind < 29:
		a.to = &f.logger
		a.data = []byte{byte(rng.Intn(6))}
		g.kind = "logger"
	case kind < 32: // a transaction addressed DIRECTLY to the precompile: one Transfer log from an address without code
		a.to = &f.erc20Two
		a.data = append(append([]byte{}, cpcabi.Erc20CpcInfo.ABI.Methods["transfer"].ID...), mustPack(cpcabi.Erc20CpcInfo.ABI.Methods["transfer"].Inputs.Pack(ws[rng.Intn(len(ws))].GetEthAddress(), big.NewInt(int64(1+rng.Intn(9)))))...)
		a.gas = 200_000
		g.kind = "erc20-direct"
	case kind < 42:
		a.to = &f.storer
		a.data = []byte{byte(rng.Intn(2))}
		a.gas = 300_000
		g.kind = "storer"
	case kind < 48:
		a.to = &f.reverter
		a.value = big.NewInt(int64(rng.Intn(3)))
		g.kind = "reverter"
	case kind < 53:
		a.to = &f.burner
		a.gas = 60_000 + uint64(rng.Intn(1_200_000))
		if f.heavy {
			a.gas = uint64(f.maxGas)/4 + uint64(rng.Intn(int(f.maxGas)/3))
		}
		if f.forceGas > 0 {
			a.gas, f.forceGas = f.forceGas, 0
		}
		g.kind = "burner"
	case kind < 58:
		a.to = &f.sink
		a.value = big.NewInt(int64(rng.Intn(500)))
		g.kind = "sink"
	case kind < 64: // self-destruct
		idx := -1
		for i := range f.sds {
			if !f.sdUsed[i] {
				idx = i
				break
			}
		}
		if idx >= 0 {
			f.sdUsed[idx] = true
			a.to = &f.sds[idx]
			ben := common.BytesToAddress(crypto.Keccak256([]byte(fmt.Sprintf("ben-%d", idx)))[12:])
			if rng.Chance(1, 3) {
				ben = f.sds[idx] // beneficiary = self: the balance is destroyed
			}
			a.data = ben.Bytes()
			g.sdIdx = idx
			g.kind = "selfdestruct"
			if ben == f.sds[idx] {
				g.kind = "selfdestruct-self"
			}
		} else {
			a.to = &f.sink
			g.kind = "sink"
		}
	case kind < 69:
		a.to = nil
		a.data = initCode(codeLogger)
		a.gas = 200_000
		g.kind = "create"
	case kind < 72:
		a.to = nil
		a.data = initReverting
		a.gas = 100_000
		g.kind = "create-revert"
	case kind < 75: // consensus error: intrinsic gas
		a.to = &f.logger
		a.data = []byte{1, 2, 3, 4, 5, 6, 7, 8}
		a.gas = 21000 + uint64(rng.Intn(60))
		g.kind = "intrinsic-low"
	case kind < 78: // consensus error: value above balance
		to := ws[0].GetEthAddress()
		a.to = &to
		a.value = new(big.Int).Mul(big.NewInt(1_000_000), big.NewInt(1_000_000_000_000_000_000))
		a.gas = 21000
		g.kind = "value-too-high"
		if rng.Chance(2, 5) { // the same for a contract creation (evm.Create must not be reached: the nonce is consumed by the ante handler only)
			a.to = nil
			a.data = initCode(codeSink)
			a.gas = 120_000
			g.kind = "create-value-too-high"
		}
	case kind < 81: // panic inside the handler: value to a block-listed module account
		// (every module account is block-listed, the EVM module's own transit account included: it must end every block empty)
		to := common.BytesToAddress(authtypes.NewModuleAddress(hx.Pick(rng, []string{authtypes.FeeCollectorName, evmtypes.ModuleName, evmtypes.ModuleName, cpctypes.ModuleName,
			"distribution", "bonded_tokens_pool", "not_bonded_tokens_pool", "gov", "mint", "transfer", "interchainaccounts", "vauth"})))
		a.to = &to
		a.value = big.NewInt(5)
		a.gas = 50_000
		g.kind = "blocked-recipient"
	case kind < 84:
		if rng.Bool() {
			a.nonce += uint64(1 + rng.Intn(3))
			g.kind = "nonce-future"
		} else if a.nonce > 0 {
			a.nonce -= 1
			g.kind = "nonce-stale"
		} else {
			a.nonce += 2
			g.kind = "nonce-future"
		}
		to := ws[0].GetEthAddress()
		a.to = &to
	case kind < 87: // price below the base fee
		low := new(big.Int).Sub(baseFee, big.NewInt(int64(1+rng.Intn(10))))
		if low.Sign() < 0 {
			low = big.NewInt(0)
		}
		if a.typ == 2 {
			a.feeCap = low
			a.tip = big.NewInt(0)
		} else {
			a.gasPrice = low
		}
		to := ws[0].GetEthAddress()
		a.to = &to
		g.kind = "price-low"
	case kind < 89:
		a.chainID = big.NewInt(1)
		if a.typ == 0 {
			a.typ = 1
			a.gasPrice = above
		}
		to := ws[0].GetEthAddress()
		a.to = &to
		sigClass = "chain"
		g.kind = "wrong-chain"
	case kind < 91:
		a.typ = 0
		a.gasPrice = above
		a.unprotected = true
		to := ws[0].GetEthAddress()
		a.to = &to
		sigClass = "unprot"
		g.kind = "unprotected"
	case kind == 192: // (directed) the declared sender is a funded 32-byte address ending in the signer's address
		a.declaredFrom = longFromOf(from.GetEthAddress())
		if a.typ == 0 || a.typ == 1 {
			a.gasPrice = above
		}
		to := ws[0].GetEthAddress()
		a.to = &to
		a.gas = 21000
		sigClass = "from"
		g.kind = "from-mismatch"
	case kind < 93:
		a.signWith = ws[(si+1)%len(ws)]
		to := ws[0].GetEthAddress()
		a.to = &to
		sigClass = "from"
		g.kind = "from-mismatch"
	case kind < 95:
		a.gas = 20_998 - uint64(rng.Intn(3))
		to := ws[0].GetEthAddress()
		a.to = &to
		g.kind = "gas-below-min"
	default: // Cosmos bank send
		wi := rng.Intn(len(ws))
		gp := new(big.Int).Add(baseFee, big.NewInt(int64(rng.Intn(100))))
		gl := uint64(150_000)
		amt := int64(1 + rng.Intn(100))
		fee := new(big.Int).Mul(gp, new(big.Int).SetUint64(gl))
		g.kind = "cosmos-send"
		switch rng.Intn(4) {
		case 0: // a fee that is not a multiple of the gas: price just below / at the base fee after integer division
			fee = new(big.Int).Mul(baseFee, new(big.Int).SetUint64(gl))
			fee.Sub(fee, big.NewInt(int64(rng.Intn(int(gl)))))
			g.kind = "cosmos-send-frac-below"
		case 1:
			fee.Add(fee, big.NewInt(int64(rng.Intn(int(gl)))))
			g.kind = "cosmos-send-frac-above"
		}
		if fee.Sign() <= 0 {
			fee = big.NewInt(1)
		}
		g.bytes = c.buildCosmosTxFee(from, []sdk.Msg{&banktypes.MsgSend{FromAddress: from.GetCosmosAddress().String(), ToAddress: ws[wi].GetCosmosAddress().String(),
			Amount: sdk.NewCoins(sdk.NewInt64Coin(c.evmDenom, amt))}}, f.nonces[si], gl, fee)
		g.cosmos = true
		g.cosFee, g.cosGas = fee, gl
		g.toW = wi
		g.opline = fmt.Sprintf("cos s=%d gl=%d fee=%s val=%d to=%d nonce=%d", si, gl, fee, amt, wi, f.nonces[si])
		f.nonces[si]++
		return g
	}
	if a.gasPrice == nil {
		a.gasPrice = big.NewInt(0)
	}
	if a.feeCap == nil {
		a.feeCap = big.NewInt(0)
	}
	if a.tip == nil {
		a.tip = big.NewInt(0)
	}
	raw, tx := c.buildEthTx(a)
	g.bytes, g.ethTx = raw, tx
	if g.kind == "from-mismatch" && a.signWith != nil && rng.Chance(4, 5) {
		// the attacker's own, correctly wrapped transaction is seen by the mempool first (signatures are deterministic:
		// the very same payload and hash); the forged wrapper that names another sender goes into the block
		h := a
		h.from, h.signWith, h.declaredFrom = a.signWith, nil, nil
		g.prime, _ = c.buildEthTx(h)
	}
	ig, err := core.IntrinsicGas(a.data, a.access, a.to == nil, true, true)
	if err != nil {
		ig = 0
	}
	sdb := int64(0)
	if g.kind == "selfdestruct-self" {
		sdb = f.sdBal[g.sdIdx]
	}
	g.opline = fmt.Sprintf("eth s=%d ty=%d gl=%d gp=%s cap=%s tip=%s val=%s nonce=%d create=%d ig=%d sig=%s to=%d sdb=%d",
		si, a.typ, a.gas, a.gasPrice, a.feeCap, a.tip, a.value, a.nonce, b01(a.to == nil), ig, sigClass, g.toW, sdb)
	// optimistic nonce tracking: kinds expected to pass the ante handler consume a nonce
	switch g.kind {
	case "nonce-future", "nonce-stale", "price-low", "wrong-chain", "unprotected", "from-mismatch", "gas-below-min":
	default:
		f.nonces[si]++
	}
	return g
}

// lines renders the model input (op fields + observed EVM execution summary) and the observed outputs.
func (f *blockFixture) lines(g genTx, o txObs, ws []*itutiltypes.TestAccount) (string, string) {
	c := f.c
	sender := ws[g.sender].GetCosmosAddress().String()
	d := func(who string) *big.Int {
		if v, ok := o.delta[who]; ok {
			return v
		}
		return big.NewInt(0)
	}
	dSup := new(big.Int).Sub(o.minted, o.burnt)
	if g.cosmos {
		op := fmt.Sprintf("%s | ok=%d gu=%d", g.opline, b01(o.code == 0), o.gasUsed)
		cls := obsClass(o)
		if o.code != 0 && o.codespace == "sdk" && o.code == 11 && strings.Contains(o.log, "block gas meter") {
			// a Cosmos transaction that overflows the block gas meter after it executed: runTx drops every event (so it
			// looks like an ante refusal) but the ante effects (fee, sequence) stay — the model's class `blockoog`
			cls = "blockoog"
		}
		obs := fmt.Sprintf("cls=%s gw=%d dS=%s dC=%s dSup=%s", cls, o.gasWanted, d(sender), d(c.feeCollector()), dSup)
		return op, obs
	}
	x, nl, st, cum := "na", 0, "-", "-"
	if o.hasRcpt && o.receipt != nil {
		x = "ok"
		if o.receipt.Status == 0 {
			x = "vmerr"
		}
		nl = len(o.receipt.Logs)
		st = fmt.Sprint(o.receipt.Status)
		cum = fmt.Sprint(o.receipt.CumulativeGasUsed)
	}
	pan := 0
	if obsClass(o) == "panic" {
		pan = 1
	}
	mg := int64(0)
	if cl := obsClass(o); cl == "ante:evm/16" || cl == "ante:undefined/111222" {
		// refused before / by a panic inside the ante handler: the reading of the context's own gas meter is what the result
		// reports and what the block gas meter is charged; it enters the model as an observed value
		mg = o.gasUsed
	}
	op := fmt.Sprintf("%s | x=%s gb=%d rc=%d nl=%d pan=%d mg=%d", g.opline, x, g.gb, g.rc, nl, pan, mg)
	dash := func(b bool, v any) string {
		if !b {
			return "-"
		}
		return fmt.Sprint(v)
	}
	// a created contract address is reported iff creation succeeded, and equals CREATE(sender, nonce)
	ctr := "-"
	if o.hasRcpt {
		ctr = "0"
		if o.contract != "" {
			want := crypto.CreateAddress(ws[g.sender].GetEthAddress(), g.ethTx.Nonce())
			if strings.EqualFold(o.contract, want.Hex()) {
				ctr = "1"
			} else {
				ctr = "wrong"
			}
		}
	}
	// receipt bloom covers exactly its own logs
	if o.receipt != nil {
		if want := ethtypes.CreateBloom(ethtypes.Receipts{&ethtypes.Receipt{Logs: o.receipt.Logs}}); want != o.receipt.Bloom {
			f.oracle("receipt-bloom", "receipt bloom does not cover exactly its logs (tx kind %s)", g.kind)
		}
	}
	obs := fmt.Sprintf("cls=%s gw=%d gu=%d aidx=%s ridx=%s lidx=%s rgu=%s cum=%s st=%s ep=%s dS=%s dC=%s dSup=%s ctr=%s",
		obsClass(o), o.gasWanted, o.gasUsed, dash(o.hasEthEv, o.anteTxIdx), dash(o.hasRcpt, o.txIdx), dash(o.hasRcpt && o.logIdx >= 0, o.logIdx),
		dash(o.hasRcpt, o.rGasUsed), cum, st, dash(o.hasRcpt, o.effPrice), d(sender), d(c.feeCollector()), dSup, ctr)
	return op, obs
}

var blockOracle func(class, format string, a ...any)

func (f *blockFixture) oracle(class, format string, a ...any) {
	if blockOracle != nil {
		blockOracle(class, format, a...)
	}
}

var _ = abci.CodeTypeOK
var _ = sdkmath.ZeroInt
