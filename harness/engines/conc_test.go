package engines

import (
	"encoding/json"
	"fmt"
	"net"
	"net/http"
	"os"
	"os/exec"
	"strings"
	"sync"
	"sync/atomic"
	"testing"
	"time"

	"cosmossdk.io/log"
	cmtjrpcclient "github.com/cometbft/cometbft/rpc/jsonrpc/client"
	cmttypes "github.com/cometbft/cometbft/types"
	"github.com/ethereum/go-ethereum/eth/filters"
	"github.com/gorilla/websocket"
	"github.com/stretchr/testify/require"

	"github.com/EscanBE/evermint/v12/rpc/ethereum/pubsub"
	evfilters "github.com/EscanBE/evermint/v12/rpc/namespaces/ethereum/eth/filters"

	"verifharness/hx"
)

// E-conc: the real EventSystem (rpc/namespaces/ethereum/eth/filters) and the real memEventBus (rpc/ethereum/pubsub)
// over the real CometBFT WSClient, connected to a small in-process websocket JSON-RPC endpoint that answers
// subscribe / unsubscribe and pushes events.  A panic in one of the event system's goroutines kills the
// process, so every scenario runs in a child process of the same test binary.
//   * replays: the schedules the Lean protocol model (Model/EventSys.lean) marks as dangerous are forced on the
//     real goroutines through the schedule points of the `verif` build (VerifSchedHook);
//   * stress: concurrent subscribe / unsubscribe of the three kinds with events for known and unknown queries,
//     no hook (and under the race detector in the thorough tier).

type fakeWS struct {
	ln    net.Listener
	mu    sync.Mutex
	conns []*websocket.Conn
	subs  int64
}

func startFakeWS(t *testing.T) *fakeWS {
	f := &fakeWS{}
	ln, err := net.Listen("tcp", "127.0.0.1:0")
	require.NoError(t, err)
	f.ln = ln
	up := websocket.Upgrader{}
	mux := http.NewServeMux()
	mux.HandleFunc("/websocket", func(w http.ResponseWriter, r *http.Request) {
		c, err := up.Upgrade(w, r, nil)
		if err != nil {
			return
		}
		f.mu.Lock()
		f.conns = append(f.conns, c)
		f.mu.Unlock()
		for {
			_, msg, err := c.ReadMessage()
			if err != nil {
				return
			}
			var req struct {
				ID     json.RawMessage `json:"id"`
				Method string          `json:"method"`
			}
			if json.Unmarshal(msg, &req) != nil {
				continue
			}
			atomic.AddInt64(&f.subs, 1)
			f.mu.Lock()
			_ = c.WriteMessage(websocket.TextMessage, []byte(fmt.Sprintf(`{"jsonrpc":"2.0","id":%s,"result":{}}`, string(req.ID))))
			f.mu.Unlock()
		}
	})
	go func() { _ = http.Serve(ln, mux) }()
	return f
}

func (f *fakeWS) push(query string) {
	q, _ := json.Marshal(query)
	msg := []byte(fmt.Sprintf(`{"jsonrpc":"2.0","id":1,"result":{"query":%s,"data":null,"events":{}}}`, string(q)))
	f.mu.Lock()
	defer f.mu.Unlock()
	for _, c := range f.conns {
		_ = c.WriteMessage(websocket.TextMessage, msg)
	}
}

var headerQuery = cmttypes.QueryForEvent(cmttypes.EventNewBlockHeader).String()
var txQuery = cmttypes.QueryForEvent(cmttypes.EventTx).String()

func newEventSystem(t *testing.T) (*evfilters.EventSystem, *fakeWS) {
	srv := startFakeWS(t)
	cl, err := cmtjrpcclient.NewWS("tcp://"+srv.ln.Addr().String(), "/websocket")
	require.NoError(t, err)
	require.NoError(t, cl.Start())
	return evfilters.NewEventSystem(log.NewNopLogger(), cl), srv
}

// TestConcChild is the body of the child processes (it does nothing unless VERIF_CONC_CHILD is set).
func TestConcChild(t *testing.T) {
	mode := os.Getenv("VERIF_CONC_CHILD")
	if mode == "" {
		t.Skip("child only")
	}
	switch {
	case mode == "send-after-uninstall":
		// consumeEvents has looked up the topic channel and is about to send; the last subscriber uninstalls
		es, srv := newEventSystem(t)
		reached, release := make(chan struct{}, 1), make(chan struct{})
		var once sync.Once
		evfilters.VerifSchedHook = func(point string) {
			if point == "consumeEvents:before-send" {
				once.Do(func() {
					reached <- struct{}{}
					select {
					case <-release:
					case <-time.After(4 * time.Second):
					}
				})
			}
		}
		sub, _, err := es.SubscribeNewHeads()
		require.NoError(t, err)
		go func() { // the subscriber reads its events as the API goroutines do
			for range sub.Event() {
			}
		}()
		srv.push(headerQuery)
		select {
		case <-reached:
		case <-time.After(5 * time.Second):
			fmt.Println("CHILD-RESULT consumer-never-reached-the-send")
			return
		}
		sub.Unsubscribe(es)
		uninstalled := false
		select {
		case <-sub.Err():
			uninstalled = true
		case <-time.After(700 * time.Millisecond): // the uninstall is held back while the consumer is inside its critical section
		}
		close(release)
		time.Sleep(1500 * time.Millisecond)
		fmt.Printf("CHILD-RESULT survived uninstall-completed-while-consumer-held-the-channel=%v\n", uninstalled)
	case mode == "second-subscriber":
		// a second subscription to the same query takes the existing-topic shortcut (it is never indexed); the first
		// one unsubscribes: is the second still served?
		es, srv := newEventSystem(t)
		sub1, _, err := es.SubscribeNewHeads()
		require.NoError(t, err)
		go func() {
			for range sub1.Event() {
			}
		}()
		sub2, _, err := es.SubscribeNewHeads()
		require.NoError(t, err)
		got := int64(0)
		closed := int64(0)
		go func() {
			for range sub2.Event() {
				atomic.AddInt64(&got, 1)
			}
			atomic.StoreInt64(&closed, 1)
		}()
		srv.push(headerQuery)
		time.Sleep(300 * time.Millisecond)
		before := atomic.LoadInt64(&got)
		sub1.Unsubscribe(es)
		<-sub1.Err()
		for i := 0; i < 5; i++ {
			srv.push(headerQuery)
			time.Sleep(100 * time.Millisecond)
		}
		// a loaded machine delivers late, not never: keep pushing for up to ten seconds before concluding "dropped"
		for deadline := time.Now().Add(10 * time.Second); atomic.LoadInt64(&got) == before && atomic.LoadInt64(&closed) == 0 && time.Now().Before(deadline); {
			srv.push(headerQuery)
			time.Sleep(200 * time.Millisecond)
		}
		after := atomic.LoadInt64(&got)
		fmt.Printf("CHILD-RESULT survived second-subscriber-events-before=%d after-first-unsubscribed=%d its-channel-closed=%v\n", before, after-before, atomic.LoadInt64(&closed) == 1)
	case strings.HasPrefix(mode, "stress"):
		seed := hx.Seed()
		es, srv := newEventSystem(t)
		var wg sync.WaitGroup
		stop := make(chan struct{})
		var nsub, nunsub, nerr int64
		for g := 0; g < 6; g++ {
			wg.Add(1)
			go func(g int) {
				defer wg.Done()
				r := hx.NewRng(seed ^ uint64(g)*0x9e3779b97f4a7c15)
				for {
					select {
					case <-stop:
						return
					default:
					}
					var sub *evfilters.Subscription
					var unsub pubsub.UnsubscribeFunc
					var err error
					switch r.Intn(3) {
					case 0:
						sub, unsub, err = es.SubscribeNewHeads()
					case 1:
						sub, unsub, err = es.SubscribePendingTxs()
					default:
						sub, unsub, err = es.SubscribeLogs(filters.FilterCriteria{})
					}
					if err != nil {
						atomic.AddInt64(&nerr, 1)
						continue
					}
					atomic.AddInt64(&nsub, 1)
					done := make(chan struct{})
					go func() {
						for {
							select {
							case _, ok := <-sub.Event():
								if !ok {
									return
								}
							case <-done:
								return
							}
						}
					}()
					time.Sleep(time.Duration(r.Intn(3000)) * time.Microsecond)
					if r.Chance(4, 5) {
						sub.Unsubscribe(es)
						select {
						case <-sub.Err():
						case <-time.After(3 * time.Second):
						}
						unsub()
						atomic.AddInt64(&nunsub, 1)
					}
					close(done)
				}
			}(g)
		}
		wg.Add(1)
		go func() {
			defer wg.Done()
			r := hx.NewRng(seed ^ 0x77)
			for {
				select {
				case <-stop:
					return
				default:
				}
				srv.push(hx.Pick(r, []string{headerQuery, txQuery, "tm.event='Tx' AND message.module='evm'", "unknown", ""}))
				time.Sleep(time.Duration(r.Intn(400)) * time.Microsecond)
			}
		}()
		dur := time.Duration(hx.EnvInt("VERIF_CONC_MS", 2500)) * time.Millisecond
		time.Sleep(dur)
		close(stop)
		finished := make(chan struct{})
		go func() { wg.Wait(); close(finished) }()
		select {
		case <-finished:
			fmt.Printf("CHILD-RESULT survived subscribes=%d unsubscribes=%d subscribe-errors=%d requests-seen-by-endpoint=%d\n", atomic.LoadInt64(&nsub), atomic.LoadInt64(&nunsub), atomic.LoadInt64(&nerr), atomic.LoadInt64(&srv.subs))
		case <-time.After(90 * time.Second):
			fmt.Printf("CHILD-RESULT deadlock subscribes=%d unsubscribes=%d\n", atomic.LoadInt64(&nsub), atomic.LoadInt64(&nunsub))
		}
	}
}

func TestEngineConc(t *testing.T) {
	seed := hx.Seed()
	n := hx.EnvInt("VERIF_N", 3)
	p := hx.NewProto("conc")
	defer p.Close()
	child := func(mode string, sd uint64) string {
		cmd := exec.Command(os.Args[0], "-test.run", "^TestConcChild$", "-test.count", "1", "-test.timeout", "300s")
		cmd.Env = append(os.Environ(), "VERIF_CONC_CHILD="+mode, fmt.Sprintf("VERIF_SEED=%d", sd))
		out, err := cmd.CombinedOutput()
		text := string(out)
		res := ""
		for _, l := range strings.Split(text, "\n") {
			if strings.HasPrefix(l, "CHILD-RESULT ") {
				res = strings.TrimPrefix(l, "CHILD-RESULT ")
			}
		}
		if strings.Contains(text, "DATA RACE") {
			first := text[strings.Index(text, "DATA RACE"):]
			p.Oracle("C20-data-race", "mode=%s seed=%d: %s", mode, sd, firstWords(first, 60))
		}
		if err != nil || res == "" {
			why := "no result line"
			for _, l := range strings.Split(text, "\n") {
				if strings.HasPrefix(l, "panic:") || strings.HasPrefix(l, "fatal error:") {
					why = l
					break
				}
			}
			return "crashed:" + strings.ReplaceAll(why, " ", "_")
		}
		return res
	}
	// ---- replays of the model's schedules
	for _, mode := range []string{"send-after-uninstall", "second-subscriber"} {
		res := child(mode, seed)
		p.Emit("conc replay="+mode, strings.Fields(res)[0])
		p.Count("replay:" + mode + ":" + res)
		if strings.HasPrefix(res, "crashed") {
			p.Oracle("C20-event-system-crash", "schedule %s kills the node process: %s", mode, res)
		}
		if mode == "second-subscriber" && strings.Contains(res, "after-first-unsubscribed=0") {
			p.Oracle("C20-live-subscription-dropped", "a second subscriber of a query stops receiving events when the first one unsubscribes: %s", res)
		}
	}
	// ---- stress
	for i := 0; i < n; i++ {
		sd := seed*1000 + uint64(i)
		res := child("stress", sd)
		p.Emit(fmt.Sprintf("conc stress seed=%d", sd), strings.Fields(res)[0])
		p.Count("stress:" + strings.Fields(res)[0])
		if strings.HasPrefix(res, "crashed") {
			p.Oracle("C20-event-system-crash", "stress seed=%d kills the node process: %s", sd, res)
		}
		if strings.HasPrefix(res, "deadlock") {
			p.Oracle("C20-event-system-deadlock", "stress seed=%d: workers did not finish: %s", sd, res)
		}
	}
}
