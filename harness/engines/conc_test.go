package engines

import (
	"context"
	"encoding/json"
	"fmt"
	"math/big"
	"net"
	"net/http"
	"os"
	"os/exec"
	"strings"
	"sync"
	"sync/atomic"
	"testing"
	"time"

	"cosmossdk.io/log"
	abci "github.com/cometbft/cometbft/abci/types"
	tmjson "github.com/cometbft/cometbft/libs/json"
	coretypes "github.com/cometbft/cometbft/rpc/core/types"
	cmtjrpcclient "github.com/cometbft/cometbft/rpc/jsonrpc/client"
	cmttypes "github.com/cometbft/cometbft/types"
	"github.com/cosmos/cosmos-sdk/client"
	codectypes "github.com/cosmos/cosmos-sdk/codec/types"
	sdk "github.com/cosmos/cosmos-sdk/types"
	authtx "github.com/cosmos/cosmos-sdk/x/auth/tx"
	"github.com/cosmos/gogoproto/proto"
	"github.com/ethereum/go-ethereum/common"
	ethtypes "github.com/ethereum/go-ethereum/core/types"
	"github.com/ethereum/go-ethereum/eth/filters"
	"github.com/ethereum/go-ethereum/rpc"
	"github.com/gorilla/websocket"
	"github.com/stretchr/testify/require"

	chainapp "github.com/EscanBE/evermint/v12/app"
	"github.com/EscanBE/evermint/v12/rpc/ethereum/pubsub"
	evfilters "github.com/EscanBE/evermint/v12/rpc/namespaces/ethereum/eth/filters"
	rpctypes "github.com/EscanBE/evermint/v12/rpc/types"
	evmtypes "github.com/EscanBE/evermint/v12/x/evm/types"

	"verifharness/hx"
)

// E-conc: the real EventSystem (rpc/namespaces/ethereum/eth/filters) and the real memEventBus (rpc/ethereum/pubsub)
// over the real CometBFT WSClient, connected to a small in-process websocket JSON-RPC endpoint that answers
// subscribe / unsubscribe and pushes events.  A panic in one of the event system's goroutines kills the
// process, so every scenario runs in a child process of the same test binary.
//   * replays: the schedules the Lean protocol model (Model/EventSys.lean) marks as dangerous are forced on the
//     real goroutines through the schedule points of the `verif` build (VerifSchedHook);
//   * stress: concurrent subscribe / unsubscribe of the three kinds with events for known and unknown queries,
//     no hook (and under the race detector in the thorough tier).

type fakeWS struct {
	ln    net.Listener
	mu    sync.Mutex
	conns []*websocket.Conn
	subs  int64
}

func startFakeWS(t *testing.T) *fakeWS {
	f := &fakeWS{}
	ln, err := net.Listen("tcp", "127.0.0.1:0")
	require.NoError(t, err)
	f.ln = ln
	up := websocket.Upgrader{}
	mux := http.NewServeMux()
	mux.HandleFunc("/websocket", func(w http.ResponseWriter, r *http.Request) {
		c, err := up.Upgrade(w, r, nil)
		if err != nil {
			return
		}
		f.mu.Lock()
		f.conns = append(f.conns, c)
		f.mu.Unlock()
		for {
			_, msg, err := c.ReadMessage()
			if err != nil {
				return
			}
			var req struct {
				ID     json.RawMessage `json:"id"`
				Method string          `json:"method"`
			}
			if json.Unmarshal(msg, &req) != nil {
				continue
			}
			atomic.AddInt64(&f.subs, 1)
			f.mu.Lock()
			_ = c.WriteMessage(websocket.TextMessage, []byte(fmt.Sprintf(`{"jsonrpc":"2.0","id":%s,"result":{}}`, string(req.ID))))
			f.mu.Unlock()
		}
	})
	go func() { _ = http.Serve(ln, mux) }()
	return f
}

// pushEvent sends a complete ResultEvent (any registered event data) to every connected client
func (f *fakeWS) pushEvent(ev coretypes.ResultEvent) {
	bz, err := tmjson.Marshal(ev)
	if err != nil {
		return
	}
	msg := []byte(fmt.Sprintf(`{"jsonrpc":"2.0","id":1,"result":%s}`, string(bz)))
	f.mu.Lock()
	defer f.mu.Unlock()
	for _, c := range f.conns {
		_ = c.WriteMessage(websocket.TextMessage, msg)
	}
}

// stub of the JSON-RPC backend: the filter API only needs the caps for what is exercised here
type filterBackendStub struct{}

func (filterBackendStub) GetBlockByNumber(rpctypes.BlockNumber, bool) (map[string]interface{}, error) {
	return nil, fmt.Errorf("not available")
}
func (filterBackendStub) HeaderByNumber(rpctypes.BlockNumber) (*ethtypes.Header, error) {
	return nil, fmt.Errorf("not available")
}
func (filterBackendStub) HeaderByHash(common.Hash) (*ethtypes.Header, error) {
	return nil, fmt.Errorf("not available")
}
func (filterBackendStub) CometBFTBlockByHash(common.Hash) (*coretypes.ResultBlock, error) {
	return nil, fmt.Errorf("not available")
}
func (filterBackendStub) CometBFTBlockResultByNumber(*int64) (*coretypes.ResultBlockResults, error) {
	return nil, fmt.Errorf("not available")
}
func (filterBackendStub) GetLogs(common.Hash) ([][]*ethtypes.Log, error)    { return nil, nil }
func (filterBackendStub) GetLogsByHeight(*int64) ([][]*ethtypes.Log, error) { return nil, nil }
func (filterBackendStub) BlockBloom(*coretypes.ResultBlockResults) ethtypes.Bloom {
	return ethtypes.Bloom{}
}
func (filterBackendStub) BloomStatus() (uint64, uint64) { return 0, 0 }
func (filterBackendStub) RPCFilterCap() int32           { return 200 }
func (filterBackendStub) RPCLogsCap() int32             { return 10000 }
func (filterBackendStub) RPCBlockRangeCap() int32       { return 10000 }

var evmTxQuery = "tm.event='Tx' AND message.module='evm'"

// txEvent builds the event CometBFT publishes for one transaction of a block
func txEvent(query string, txBytes []byte, resultData []byte, code uint32) coretypes.ResultEvent {
	return coretypes.ResultEvent{Query: query,
		Data:   cmttypes.EventDataTx{TxResult: abci.TxResult{Height: 10, Index: 0, Tx: txBytes, Result: abci.ExecTxResult{Code: code, Data: resultData, GasWanted: 100000, GasUsed: 50000}}},
		Events: map[string][]string{"tm.event": {"Tx"}, "message.module": {"evm"}}}
}

func receiptData(logs []*ethtypes.Log) []byte {
	receipt := &ethtypes.Receipt{Type: ethtypes.LegacyTxType, Status: ethtypes.ReceiptStatusSuccessful, CumulativeGasUsed: 50000, Logs: logs}
	receipt.Bloom = ethtypes.CreateBloom(ethtypes.Receipts{receipt})
	bz, _ := receipt.MarshalBinary()
	anyRsp, _ := codectypes.NewAnyWithValue(&evmtypes.MsgEthereumTxResponse{Hash: common.HexToHash("0x01").Hex(), GasUsed: 50000, MarshalledReceipt: bz})
	out, _ := proto.Marshal(&sdk.TxMsgData{MsgResponses: []*codectypes.Any{anyRsp}})
	return out
}

// matches re-implements the eth_getLogs matching rule (address list, positional topics with wildcards)
func matches(lg *ethtypes.Log, addrs []common.Address, topics [][]common.Hash) bool {
	if len(addrs) > 0 {
		ok := false
		for _, a := range addrs {
			ok = ok || a == lg.Address
		}
		if !ok {
			return false
		}
	}
	if len(topics) > len(lg.Topics) {
		return false
	}
	for i, alt := range topics {
		if len(alt) == 0 {
			continue
		}
		ok := false
		for _, h := range alt {
			ok = ok || h == lg.Topics[i]
		}
		if !ok {
			return false
		}
	}
	return true
}

func (f *fakeWS) push(query string) {
	q, _ := json.Marshal(query)
	msg := []byte(fmt.Sprintf(`{"jsonrpc":"2.0","id":1,"result":{"query":%s,"data":null,"events":{}}}`, string(q)))
	f.mu.Lock()
	defer f.mu.Unlock()
	for _, c := range f.conns {
		_ = c.WriteMessage(websocket.TextMessage, msg)
	}
}

var big1 = big.NewInt(1)

var headerQuery = cmttypes.QueryForEvent(cmttypes.EventNewBlockHeader).String()
var txQuery = cmttypes.QueryForEvent(cmttypes.EventTx).String()

func newEventSystem(t *testing.T) (*evfilters.EventSystem, *fakeWS) {
	srv := startFakeWS(t)
	cl, err := cmtjrpcclient.NewWS("tcp://"+srv.ln.Addr().String(), "/websocket")
	require.NoError(t, err)
	require.NoError(t, cl.Start())
	return evfilters.NewEventSystem(log.NewNopLogger(), cl), srv
}

// TestConcChild is the body of the child processes (it does nothing unless VERIF_CONC_CHILD is set).
func TestConcChild(t *testing.T) {
	mode := os.Getenv("VERIF_CONC_CHILD")
	if mode == "" {
		t.Skip("child only")
	}
	switch {
	case mode == "send-after-uninstall":
		// consumeEvents has looked up the topic channel and is about to send; the last subscriber uninstalls
		es, srv := newEventSystem(t)
		reached, release := make(chan struct{}, 1), make(chan struct{})
		var once sync.Once
		evfilters.VerifSchedHook = func(point string) {
			if point == "consumeEvents:before-send" {
				once.Do(func() {
					reached <- struct{}{}
					select {
					case <-release:
					case <-time.After(4 * time.Second):
					}
				})
			}
		}
		sub, _, err := es.SubscribeNewHeads()
		require.NoError(t, err)
		go func() { // the subscriber reads its events as the API goroutines do
			for range sub.Event() {
			}
		}()
		srv.push(headerQuery)
		select {
		case <-reached:
		case <-time.After(5 * time.Second):
			fmt.Println("CHILD-RESULT consumer-never-reached-the-send")
			return
		}
		sub.Unsubscribe(es)
		uninstalled := false
		select {
		case <-sub.Err():
			uninstalled = true
		case <-time.After(700 * time.Millisecond): // the uninstall is held back while the consumer is inside its critical section
		}
		close(release)
		time.Sleep(1500 * time.Millisecond)
		fmt.Printf("CHILD-RESULT survived uninstall-completed-while-consumer-held-the-channel=%v\n", uninstalled)
	case mode == "second-subscriber":
		// a second subscription to the same query takes the existing-topic shortcut (it is never indexed); the first
		// one unsubscribes: is the second still served?
		es, srv := newEventSystem(t)
		sub1, _, err := es.SubscribeNewHeads()
		require.NoError(t, err)
		go func() {
			for range sub1.Event() {
			}
		}()
		sub2, _, err := es.SubscribeNewHeads()
		require.NoError(t, err)
		got := int64(0)
		closed := int64(0)
		go func() {
			for range sub2.Event() {
				atomic.AddInt64(&got, 1)
			}
			atomic.StoreInt64(&closed, 1)
		}()
		srv.push(headerQuery)
		time.Sleep(300 * time.Millisecond)
		before := atomic.LoadInt64(&got)
		sub1.Unsubscribe(es)
		<-sub1.Err()
		for i := 0; i < 5; i++ {
			srv.push(headerQuery)
			time.Sleep(100 * time.Millisecond)
		}
		// a loaded machine delivers late, not never: keep pushing for up to ten seconds before concluding "dropped"
		for deadline := time.Now().Add(10 * time.Second); atomic.LoadInt64(&got) == before && atomic.LoadInt64(&closed) == 0 && time.Now().Before(deadline); {
			srv.push(headerQuery)
			time.Sleep(200 * time.Millisecond)
		}
		after := atomic.LoadInt64(&got)
		fmt.Printf("CHILD-RESULT survived second-subscriber-events-before=%d after-first-unsubscribed=%d its-channel-closed=%v\n", before, after-before, atomic.LoadInt64(&closed) == 1)
	case mode == "idle-filter":
		// a polling filter that is not polled for longer than the inactivity deadline while results are waiting in it, then
		// polled late: the call must return (the filter has expired, or its results are handed over) and the API must go on
		// serving other requests — the expiry loop, the poll and every event delivery share one mutex
		evfilters.VerifSetFilterDeadline(250 * time.Millisecond)
		enc := chainapp.RegisterEncodingConfig()
		srv := startFakeWS(t)
		cl, err := cmtjrpcclient.NewWS("tcp://"+srv.ln.Addr().String(), "/websocket")
		require.NoError(t, err)
		require.NoError(t, cl.Start())
		api := evfilters.NewPublicAPI(log.NewNopLogger(), client.Context{}.WithTxConfig(enc.TxConfig), cl, filterBackendStub{})
		id := api.NewBlockFilter()
		time.Sleep(50 * time.Millisecond)
		for h := 1; h <= 3; h++ {
			srv.pushEvent(coretypes.ResultEvent{Query: headerQuery, Data: cmttypes.EventDataNewBlockHeader{Header: cmttypes.Header{Height: int64(h), ChainID: "evermint_9000-1"}}})
		}
		time.Sleep(900 * time.Millisecond) // three periods of the expiry loop
		done := make(chan string, 1)
		go func() {
			_, err := api.GetFilterChanges(id)
			id2 := api.NewBlockFilter()
			api.UninstallFilter(id2)
			if err != nil {
				done <- "expired"
			} else {
				done <- "served"
			}
		}()
		select {
		case r := <-done:
			fmt.Println("CHILD-RESULT ok late-poll=" + r)
		case <-time.After(20 * time.Second): // (generous: the machine may be busy; a healthy API answers in microseconds)
			fmt.Println("CHILD-RESULT deadlock the late poll of an idle filter (and the requests after it) never returned")
		}
	case mode == "api":
		// the real PublicFilterAPI: filters of the three kinds with random criteria, polled, read and uninstalled by
		// concurrent JSON-RPC users while events of every shape arrive — hostile ones included: transactions a proposer
		// put into a block although they cannot be decoded, carry no message, or embed a garbage Ethereum payload
		seed := hx.Seed()
		enc := chainapp.RegisterEncodingConfig()
		srv := startFakeWS(t)
		cl, err := cmtjrpcclient.NewWS("tcp://"+srv.ln.Addr().String(), "/websocket")
		require.NoError(t, err)
		require.NoError(t, cl.Start())
		api := evfilters.NewPublicAPI(log.NewNopLogger(), client.Context{}.WithTxConfig(enc.TxConfig), cl, filterBackendStub{})
		emitters := []common.Address{common.HexToAddress("0x1111111111111111111111111111111111111111"), common.HexToAddress("0x2222222222222222222222222222222222222222")}
		tps := []common.Hash{common.HexToHash("0xaa"), common.HexToHash("0xbb"), common.HexToHash("0xcc")}
		mkTx := func(r *hx.Rng) []byte {
			b := enc.TxConfig.NewTxBuilder()
			switch r.Intn(5) {
			case 0: // no message at all
			case 1: // an Ethereum message whose payload is garbage
				_ = b.SetMsgs(&evmtypes.MsgEthereumTx{MarshalledTx: []byte{1, 2, 3, byte(r.U64())}, From: "evm1qqqq"})
				opt, _ := codectypes.NewAnyWithValue(&evmtypes.ExtensionOptionsEthereumTx{})
				b.(authtx.ExtensionOptionsTxBuilder).SetExtensionOptions(opt)
			case 2: // an Ethereum message with an empty payload
				_ = b.SetMsgs(&evmtypes.MsgEthereumTx{})
			case 3:
				return []byte{byte(r.U64()), byte(r.U64()), byte(r.U64())}
			default: // a well-formed legacy transaction
				tx := ethtypes.NewTx(&ethtypes.LegacyTx{Nonce: uint64(r.Intn(9)), Gas: 21000, GasPrice: big1, To: &emitters[0], Value: big1})
				bz, _ := tx.MarshalBinary()
				_ = b.SetMsgs(&evmtypes.MsgEthereumTx{MarshalledTx: bz, From: "evm1qqqq"})
			}
			bz, _ := enc.TxConfig.TxEncoder()(b.GetTx())
			return bz
		}
		// the websocket-style subscriptions go through go-ethereum's RPC server, in process
		rpcSrv := rpc.NewServer()
		require.NoError(t, rpcSrv.RegisterName("eth", api))
		rpcCl := rpc.DialInProc(rpcSrv)
		stop := make(chan struct{})
		var wg sync.WaitGroup
		var ncalls, nbad, nsubs int64
		for g := 0; g < 3; g++ {
			wg.Add(1)
			go func(g int) {
				defer wg.Done()
				r := hx.NewRng(seed ^ uint64(g+11)*0x9e3779b97f4a7c15)
				for {
					select {
					case <-stop:
						return
					default:
					}
					ctx, cancel := context.WithTimeout(context.Background(), 30*time.Second)
					var sub *rpc.ClientSubscription
					var err error
					switch r.Intn(3) {
					case 0:
						ch := make(chan map[string]interface{}, 64)
						sub, err = rpcCl.EthSubscribe(ctx, ch, "newHeads")
					case 1:
						ch := make(chan common.Hash, 64)
						sub, err = rpcCl.EthSubscribe(ctx, ch, "newPendingTransactions")
					default:
						ch := make(chan ethtypes.Log, 64)
						sub, err = rpcCl.EthSubscribe(ctx, ch, "logs", map[string]interface{}{"topics": []interface{}{nil, tps[r.Intn(len(tps))].Hex()}})
					}
					cancel()
					if err == nil {
						atomic.AddInt64(&nsubs, 1)
						time.Sleep(time.Duration(r.Intn(4000)) * time.Microsecond)
						sub.Unsubscribe()
					}
				}
			}(g)
		}
		watchdog := func(what string, fn func()) {
			done := make(chan struct{})
			go func() { fn(); close(done) }()
			select {
			case <-done:
			case <-time.After(60 * time.Second):
				fmt.Printf("CHILD-RESULT deadlock call=%s\n", what)
				os.Exit(0)
			}
			atomic.AddInt64(&ncalls, 1)
		}
		for g := 0; g < 5; g++ {
			wg.Add(1)
			go func(g int) {
				defer wg.Done()
				r := hx.NewRng(seed ^ uint64(g+1)*0x9e3779b97f4a7c15)
				type inst struct {
					id   rpc.ID
					kind int
					crit filters.FilterCriteria
				}
				var mine []inst
				for {
					select {
					case <-stop:
						return
					default:
					}
					switch r.Intn(8) {
					case 0, 1:
						crit := filters.FilterCriteria{}
						for i, k := 0, r.Intn(4); i < k; i++ { // positional topics, wildcards included (also leading ones)
							var alt []common.Hash
							for j, m := 0, r.Intn(3); j < m; j++ {
								alt = append(alt, hx.Pick(r, tps))
							}
							crit.Topics = append(crit.Topics, alt)
						}
						if r.Bool() {
							crit.Addresses = []common.Address{hx.Pick(r, emitters)}
						}
						watchdog("eth_newFilter", func() {
							if id, err := api.NewFilter(crit); err == nil {
								mine = append(mine, inst{id, 0, crit})
							}
						})
					case 2:
						watchdog("eth_newBlockFilter", func() { mine = append(mine, inst{api.NewBlockFilter(), 1, filters.FilterCriteria{}}) })
					case 3:
						watchdog("eth_newPendingTransactionFilter", func() { mine = append(mine, inst{api.NewPendingTransactionFilter(), 2, filters.FilterCriteria{}}) })
					case 4, 5:
						if len(mine) == 0 {
							continue
						}
						f := mine[r.Intn(len(mine))]
						watchdog("eth_getFilterChanges", func() {
							res, err := api.GetFilterChanges(f.id)
							if err != nil {
								return
							}
							if logs, ok := res.([]*ethtypes.Log); ok && f.kind == 0 {
								for _, lg := range logs {
									if !matches(lg, f.crit.Addresses, f.crit.Topics) {
										atomic.AddInt64(&nbad, 1)
									}
								}
							}
						})
					case 6:
						if len(mine) == 0 {
							continue
						}
						f := mine[r.Intn(len(mine))] // the id of ANY kind of filter, as a user may send it
						watchdog("eth_getFilterLogs", func() { _, _ = api.GetFilterLogs(context.Background(), f.id) })
					default:
						if len(mine) == 0 {
							watchdog("eth_uninstallFilter(unknown)", func() { api.UninstallFilter(rpc.ID("0xdeadbeef")) })
							continue
						}
						k := r.Intn(len(mine))
						f := mine[k]
						mine = append(mine[:k], mine[k+1:]...)
						if r.Chance(1, 2) {
							// the same uninstall request twice at the same time (a client that retries, two tabs of one
							// wallet): exactly one may succeed, and nothing may crash
							var okCnt int64
							var w2 sync.WaitGroup
							for d := 0; d < 2+r.Intn(2); d++ {
								w2.Add(1)
								go func() {
									defer w2.Done()
									watchdog("eth_uninstallFilter(duplicate)", func() {
										if api.UninstallFilter(f.id) {
											atomic.AddInt64(&okCnt, 1)
										}
									})
								}()
							}
							w2.Wait()
							if okCnt > 1 {
								atomic.AddInt64(&nbad, 1)
							}
						} else {
							watchdog("eth_uninstallFilter", func() { api.UninstallFilter(f.id) })
						}
					}
					time.Sleep(time.Duration(r.Intn(1500)) * time.Microsecond)
				}
			}(g)
		}
		wg.Add(1)
		go func() {
			defer wg.Done()
			r := hx.NewRng(seed ^ 0x51)
			for {
				select {
				case <-stop:
					return
				default:
				}
				switch r.Intn(6) {
				case 0, 1: // a receipt with logs of 0..4 topics
					var logs []*ethtypes.Log
					for i, k := 0, 1+r.Intn(3); i < k; i++ {
						lg := &ethtypes.Log{Address: hx.Pick(r, emitters), Data: []byte{byte(i)}, BlockNumber: 10}
						for j, m := 0, r.Intn(5); j < m; j++ {
							lg.Topics = append(lg.Topics, hx.Pick(r, tps))
						}
						logs = append(logs, lg)
					}
					srv.pushEvent(txEvent(evmTxQuery, mkTx(r), receiptData(logs), 0))
				case 2: // hostile transactions, as the plain Tx event the pending-transaction filters listen to
					srv.pushEvent(txEvent(txQuery, mkTx(r), nil, uint32(r.Intn(2))))
				case 3: // result data that is not a TxMsgData / a response without receipt
					srv.pushEvent(txEvent(evmTxQuery, mkTx(r), []byte{9, 9, 9, byte(r.U64())}, 0))
				case 4:
					srv.pushEvent(coretypes.ResultEvent{Query: headerQuery, Data: cmttypes.EventDataNewBlockHeader{Header: cmttypes.Header{Height: int64(r.Intn(100)), ChainID: "evermint_9000-1"}}})
				default: // event data missing or of another kind
					srv.pushEvent(coretypes.ResultEvent{Query: hx.Pick(r, []string{evmTxQuery, txQuery, headerQuery}), Data: nil})
					srv.pushEvent(coretypes.ResultEvent{Query: hx.Pick(r, []string{evmTxQuery, txQuery}), Data: cmttypes.EventDataNewBlockHeader{}})
				}
				time.Sleep(time.Duration(r.Intn(600)) * time.Microsecond)
			}
		}()
		time.Sleep(time.Duration(hx.EnvInt("VERIF_CONC_MS", 2500)) * time.Millisecond)
		close(stop)
		finished := make(chan struct{})
		go func() { wg.Wait(); close(finished) }()
		select {
		case <-finished:
			fmt.Printf("CHILD-RESULT survived api-calls=%d subscriptions=%d logs-not-matching-their-filter=%d\n", atomic.LoadInt64(&ncalls), atomic.LoadInt64(&nsubs), atomic.LoadInt64(&nbad))
		case <-time.After(90 * time.Second):
			fmt.Printf("CHILD-RESULT deadlock api-calls=%d\n", atomic.LoadInt64(&ncalls))
		}
	case strings.HasPrefix(mode, "stress"):
		seed := hx.Seed()
		es, srv := newEventSystem(t)
		var wg sync.WaitGroup
		stop := make(chan struct{})
		var nsub, nunsub, nerr int64
		for g := 0; g < 6; g++ {
			wg.Add(1)
			go func(g int) {
				defer wg.Done()
				r := hx.NewRng(seed ^ uint64(g)*0x9e3779b97f4a7c15)
				for {
					select {
					case <-stop:
						return
					default:
					}
					var sub *evfilters.Subscription
					var unsub pubsub.UnsubscribeFunc
					var err error
					switch r.Intn(3) {
					case 0:
						sub, unsub, err = es.SubscribeNewHeads()
					case 1:
						sub, unsub, err = es.SubscribePendingTxs()
					default:
						sub, unsub, err = es.SubscribeLogs(filters.FilterCriteria{})
					}
					if err != nil {
						atomic.AddInt64(&nerr, 1)
						continue
					}
					atomic.AddInt64(&nsub, 1)
					done := make(chan struct{})
					go func() {
						for {
							select {
							case _, ok := <-sub.Event():
								if !ok {
									return
								}
							case <-done:
								return
							}
						}
					}()
					time.Sleep(time.Duration(r.Intn(3000)) * time.Microsecond)
					if r.Chance(4, 5) {
						sub.Unsubscribe(es)
						select {
						case <-sub.Err():
						case <-time.After(3 * time.Second):
						}
						unsub()
						atomic.AddInt64(&nunsub, 1)
					}
					close(done)
				}
			}(g)
		}
		wg.Add(1)
		go func() {
			defer wg.Done()
			r := hx.NewRng(seed ^ 0x77)
			for {
				select {
				case <-stop:
					return
				default:
				}
				srv.push(hx.Pick(r, []string{headerQuery, txQuery, "tm.event='Tx' AND message.module='evm'", "unknown", ""}))
				time.Sleep(time.Duration(r.Intn(400)) * time.Microsecond)
			}
		}()
		dur := time.Duration(hx.EnvInt("VERIF_CONC_MS", 2500)) * time.Millisecond
		time.Sleep(dur)
		close(stop)
		finished := make(chan struct{})
		go func() { wg.Wait(); close(finished) }()
		select {
		case <-finished:
			fmt.Printf("CHILD-RESULT survived subscribes=%d unsubscribes=%d subscribe-errors=%d requests-seen-by-endpoint=%d\n", atomic.LoadInt64(&nsub), atomic.LoadInt64(&nunsub), atomic.LoadInt64(&nerr), atomic.LoadInt64(&srv.subs))
		case <-time.After(90 * time.Second):
			fmt.Printf("CHILD-RESULT deadlock subscribes=%d unsubscribes=%d\n", atomic.LoadInt64(&nsub), atomic.LoadInt64(&nunsub))
		}
	}
}

func TestEngineConc(t *testing.T) {
	seed := hx.Seed()
	n := hx.EnvInt("VERIF_N", 3)
	p := hx.NewProto("conc")
	defer p.Close()
	child := func(mode string, sd uint64) string {
		cmd := exec.Command(os.Args[0], "-test.run", "^TestConcChild$", "-test.count", "1", "-test.timeout", "300s")
		cmd.Env = append(os.Environ(), "VERIF_CONC_CHILD="+mode, fmt.Sprintf("VERIF_SEED=%d", sd))
		out, err := cmd.CombinedOutput()
		text := string(out)
		res := ""
		for _, l := range strings.Split(text, "\n") {
			if strings.HasPrefix(l, "CHILD-RESULT ") {
				res = strings.TrimPrefix(l, "CHILD-RESULT ")
			}
		}
		if strings.Contains(text, "DATA RACE") {
			first := text[strings.Index(text, "DATA RACE"):]
			p.Oracle("C20-data-race", "mode=%s seed=%d: %s", mode, sd, firstWords(first, 60))
		}
		if err != nil || res == "" {
			why := "no result line"
			for _, l := range strings.Split(text, "\n") {
				if strings.HasPrefix(l, "panic:") || strings.HasPrefix(l, "fatal error:") {
					why = l
					break
				}
			}
			return "crashed:" + strings.ReplaceAll(why, " ", "_")
		}
		return res
	}
	// ---- replays of the model's schedules
	for _, mode := range []string{"send-after-uninstall", "second-subscriber"} {
		res := child(mode, seed)
		p.Emit("conc replay="+mode, strings.Fields(res)[0])
		p.Count("replay:" + mode + ":" + res)
		if strings.HasPrefix(res, "crashed") {
			p.Oracle("C20-event-system-crash", "schedule %s kills the node process: %s", mode, res)
		}
		if mode == "second-subscriber" && strings.Contains(res, "after-first-unsubscribed=0") {
			p.Oracle("C20-live-subscription-dropped", "a second subscriber of a query stops receiving events when the first one unsubscribes: %s", res)
		}
	}
	// ---- an idle filter with waiting results, polled after its deadline
	{
		res := child("idle-filter", seed)
		p.Emit("conc idle-filter", strings.Fields(res)[0])
		p.Count("idle-filter:" + res)
		if strings.HasPrefix(res, "crashed") {
			p.Oracle("C20-filter-api-crash", "the late poll of an idle filter kills the node process: %s", res)
		}
		if strings.HasPrefix(res, "deadlock") {
			p.Oracle("C20-filter-api-deadlock", "idle filter: %s", res)
		}
	}
	// ---- the filter API under concurrent users and hostile events
	for i := 0; i < n; i++ {
		sd := seed*1000 + 500 + uint64(i)
		res := child("api", sd)
		p.Emit(fmt.Sprintf("conc api seed=%d", sd), strings.Fields(res)[0])
		p.Count("api:" + strings.Fields(res)[0])
		if strings.HasPrefix(res, "crashed") {
			p.Oracle("C20-filter-api-crash", "filter API seed=%d kills the node process: %s", sd, res)
		}
		if strings.HasPrefix(res, "deadlock") {
			p.Oracle("C20-filter-api-deadlock", "filter API seed=%d: a JSON-RPC call never returned: %s", sd, res)
		}
		if strings.Contains(res, "logs-not-matching-their-filter=") && !strings.Contains(res, "logs-not-matching-their-filter=0") {
			p.Oracle("C20-filter-delivers-foreign-logs", "filter API seed=%d: eth_getFilterChanges returned logs that do not match the filter: %s", sd, res)
		}
	}
	// ---- stress
	for i := 0; i < n; i++ {
		sd := seed*1000 + uint64(i)
		res := child("stress", sd)
		p.Emit(fmt.Sprintf("conc stress seed=%d", sd), strings.Fields(res)[0])
		p.Count("stress:" + strings.Fields(res)[0])
		if strings.HasPrefix(res, "crashed") {
			p.Oracle("C20-event-system-crash", "stress seed=%d kills the node process: %s", sd, res)
		}
		if strings.HasPrefix(res, "deadlock") {
			p.Oracle("C20-event-system-deadlock", "stress seed=%d: workers did not finish: %s", sd, res)
		}
	}
}
