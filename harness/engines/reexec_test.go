package engines

import (
	"bytes"
	"context"
	"crypto/sha256"
	"encoding/hex"
	"encoding/json"
	"fmt"
	chainapp "github.com/EscanBE/evermint/v12/app"
	evmtypes "github.com/EscanBE/evermint/v12/x/evm/types"
	sdkdb "github.com/cosmos/cosmos-db"
	simtestutil "github.com/cosmos/cosmos-sdk/testutil/sims"
	"github.com/cosmos/gogoproto/proto"
	"github.com/ethereum/go-ethereum/common/hexutil"
	"math/big"
	"os"
	"sync"

	sdkflags "github.com/cosmos/cosmos-sdk/client/flags"
	"strconv"
	"strings"
	"testing"
	"time"

	"cosmossdk.io/log"
	sdkmath "cosmossdk.io/math"
	cmtdb "github.com/cometbft/cometbft-db"
	abci "github.com/cometbft/cometbft/abci/types"
	tmproto "github.com/cometbft/cometbft/proto/tendermint/types"
	"github.com/cosmos/cosmos-sdk/baseapp"
	clienttx "github.com/cosmos/cosmos-sdk/client/tx"
	sdk "github.com/cosmos/cosmos-sdk/types"
	"github.com/cosmos/cosmos-sdk/types/tx/signing"
	authsigning "github.com/cosmos/cosmos-sdk/x/auth/signing"
	authtypes "github.com/cosmos/cosmos-sdk/x/auth/types"
	vestingtypes "github.com/cosmos/cosmos-sdk/x/auth/vesting/types"
	banktypes "github.com/cosmos/cosmos-sdk/x/bank/types"
	minttypes "github.com/cosmos/cosmos-sdk/x/mint/types"
	"github.com/ethereum/go-ethereum/common"
	ethtypes "github.com/ethereum/go-ethereum/core/types"
	corevm "github.com/ethereum/go-ethereum/core/vm"
	"github.com/ethereum/go-ethereum/crypto"
	"github.com/ethereum/go-ethereum/params"
	"github.com/stretchr/testify/require"

	"github.com/EscanBE/evermint/v12/constants"
	itutil "github.com/EscanBE/evermint/v12/integration_test_util"
	itutiltypes "github.com/EscanBE/evermint/v12/integration_test_util/types"
	cpcabi "github.com/EscanBE/evermint/v12/x/cpc/abi"
	cpctypes "github.com/EscanBE/evermint/v12/x/cpc/types"

	"verifharness/hx"
)

// E-reexec (C01): the same block history is executed on two fresh application instances built from
// the same genesis with FIXED genesis / header times (the suite's own bootstrap stamps the first
// header with time.Now()).  After every block the app hash, the whole ResponseFinalizeBlock
// (tx results: code, data, gas wanted / used, events; block events; validator and consensus-param
// updates) are compared byte-wise.  The check additionally runs this engine in a second process and
// compares the recorded hashes across processes (different map seeds, wall-clock instant, goroutine
// schedules); in the thorough tier the second process starts after the end time of a vesting account
// that the history touches, so that a wall-clock dependent guard would flip.

type twin struct {
	capp      itutiltypes.ChainApp
	app       *baseapp.BaseApp
	name      string
	nodeLocal func(h int64, txs [][]byte)
	// queries served by other goroutines WHILE the block executes (a node's gRPC / JSON-RPC server does exactly that)
	during func(h int64, stop <-chan struct{}, wg *sync.WaitGroup)
}

type reFix struct {
	logger, storer, reverter, sink, runner common.Address
	sds                                    []common.Address
	erc20A, erc20B                         common.Address
	vest                                   common.Address
}

var reexecLateDenoms = []string{"ufour", "ufive", "usix", "useven"}

func reexecT0() time.Time { return time.Unix(1_750_000_000, 0).UTC() }

func newTwin(t *testing.T, s *itutil.ChainIntegrationTestSuite, name string) *twin {
	cfg := itutil.IntegrationTestChain1
	cfg.EvmChainIdBigInt = big.NewInt(cfg.EvmChainId)
	bal := sdk.NewCoins(sdk.NewCoin(cfg.BaseDenom, s.TestConfig.InitBalanceAmount))
	for _, u := range s.TestConfig.SecondaryDenomUnits {
		bal = bal.Add(sdk.NewCoin(u.Denom, s.TestConfig.InitBalanceAmount))
	}
	capp, _, _ := itutiltypes.NewChainApp(cfg, true, s.TestConfig, s.EncodingConfig, cmtdb.NewMemDB(), s.ValidatorAccounts, s.WalletAccounts, bal, itutiltypes.NewTemporaryHolder(), log.NewNopLogger())
	return &twin{capp: capp, app: capp.BaseApp(), name: name}
}

func (tw *twin) header(s *itutil.ChainIntegrationTestSuite, h int64) tmproto.Header {
	return tmproto.Header{ChainID: itutil.IntegrationTestChain1.CosmosChainId, Height: h, Time: reexecT0().Add(time.Duration(h) * 5 * time.Second),
		ProposerAddress: s.ValidatorAccounts.Number(1).GetConsensusAddress().Bytes()}
}

// setup writes the fixture into the not-yet-committed genesis state, identically on every instance.
func (tw *twin) setup(t *testing.T, s *itutil.ChainIntegrationTestSuite, vestEnd int64) reFix {
	ctx := tw.app.NewContext(false).WithBlockHeader(tw.header(s, 1)).WithChainID(itutil.IntegrationTestChain1.CosmosChainId)
	ek, ak, bk, ck := tw.capp.EvmKeeper(), tw.capp.AccountKeeper(), tw.capp.BankKeeper(), tw.capp.CpcKeeper()
	p := ek.GetParams(ctx)
	p.EvmDenom = itutil.IntegrationTestChain1.BaseDenom
	require.NoError(t, ek.SetParams(ctx, p))
	deploy := func(name string, code []byte) common.Address {
		h := sha256.Sum256([]byte("reexec-" + name))
		a := common.BytesToAddress(h[:20])
		acc := ak.NewAccountWithAddress(ctx, a.Bytes())
		_ = acc.SetSequence(1)
		ak.SetAccount(ctx, acc)
		ch := crypto.Keccak256Hash(code)
		ek.SetCode(ctx, ch.Bytes(), code)
		ek.SetCodeHash(ctx, a, ch)
		return a
	}
	fund := func(a common.Address, d string, n int64) {
		coins := sdk.NewCoins(sdk.NewInt64Coin(d, n))
		require.NoError(t, bk.MintCoins(ctx, minttypes.ModuleName, coins))
		require.NoError(t, bk.SendCoinsFromModuleToAccount(ctx, minttypes.ModuleName, a.Bytes(), coins))
	}
	var f reFix
	f.logger, f.storer, f.reverter, f.sink = deploy("logger", codeLogger), deploy("storer", codeStorer), deploy("reverter", codeReverter), deploy("sink", codeSink)
	f.runner = deploy("runner", codeRunner)
	fund(f.runner, p.EvmDenom, 1_000_000)
	fund(f.runner, "utwo", 1_000_000)
	for _, d := range reexecLateDenoms { // denominations whose ERC-20 precompile is deployed later, by a transaction
		fund(f.runner, d, 1_000_000)
		for _, w := range s.WalletAccounts[:5] {
			fund(w.GetEthAddress(), d, 10_000)
		}
	}
	{
		cp := ck.GetParams(ctx)
		cp.WhitelistedDeployers = []string{s.WalletAccounts[0].GetCosmosAddress().String()}
		require.NoError(t, ck.SetParams(ctx, cp))
	}
	for i := 0; i < 120; i++ {
		a := deploy(fmt.Sprintf("sd%d", i), codeSD)
		fund(a, p.EvmDenom, int64(10+i))
		fund(a, "utwo", int64(3+i)) // a second denomination: destroyed at commit, one burn event per account
		if i%3 == 0 {
			fund(a, "uthree", int64(1+i))
		}
		f.sds = append(f.sds, a)
	}
	var err error
	f.erc20A, err = ck.DeployErc20CustomPrecompiledContract(ctx, "native", cpctypes.Erc20CustomPrecompiledContractMeta{Symbol: constants.SymbolDenom, Decimals: 18, MinDenom: p.EvmDenom})
	require.NoError(t, err)
	f.erc20B, err = ck.DeployErc20CustomPrecompiledContract(ctx, "two", cpctypes.Erc20CustomPrecompiledContractMeta{Symbol: "TWO", Decimals: 6, MinDenom: "utwo"})
	require.NoError(t, err)
	_, err = ck.DeployStakingCustomPrecompiledContract(ctx, cpctypes.StakingCustomPrecompiledContractMeta{Symbol: constants.SymbolDenom, Decimals: 18})
	require.NoError(t, err)
	// a delayed vesting account without balance: a zero-value touch makes it a deletion candidate at commit
	{
		h := sha256.Sum256([]byte("reexec-vesting"))
		f.vest = common.BytesToAddress(h[:20])
		base := ak.NewAccountWithAddress(ctx, f.vest.Bytes()).(*authtypes.BaseAccount)
		bva, err := vestingtypes.NewBaseVestingAccount(base, sdk.NewCoins(sdk.NewInt64Coin(p.EvmDenom, 10)), vestEnd)
		require.NoError(t, err)
		ak.SetAccount(ctx, vestingtypes.NewDelayedVestingAccountRaw(bva))
	}
	return f
}

func (tw *twin) finalize(t *testing.T, s *itutil.ChainIntegrationTestSuite, h int64, txs [][]byte) (*abci.ResponseFinalizeBlock, []byte) {
	hdr := tw.header(s, h)
	stop := make(chan struct{})
	var wg sync.WaitGroup
	if tw.during != nil && h > 2 {
		tw.during(h, stop, &wg)
	}
	res, err := tw.app.FinalizeBlock(&abci.RequestFinalizeBlock{Height: h, Txs: txs, Hash: blockHashOf(h), Time: hdr.Time, ProposerAddress: hdr.ProposerAddress})
	close(stop)
	wg.Wait()
	require.NoError(t, err)
	if tw.nodeLocal != nil {
		tw.nodeLocal(h, txs) // traffic only this node sees: queries and mempool checks between FinalizeBlock and Commit
	}
	_, err = tw.app.Commit()
	require.NoError(t, err)
	return res, tw.app.LastCommitID().Hash
}

func TestEngineReexec(t *testing.T) {
	seed := hx.Seed()
	nBlocks := hx.EnvInt("VERIF_N", 25)
	r := hx.NewRng(seed ^ 0x4ee8ec)
	p := hx.NewProto("reexec")
	defer p.Close()
	s := itutil.CreateChainIntegrationTestSuiteFromChainConfig(t, require.New(t), itutil.IntegrationTestChain1, true)
	defer s.Cleanup()
	vestEnd := reexecT0().Add(365 * 24 * time.Hour).Unix()
	if v := os.Getenv("VERIF_VEST_END"); v != "" {
		vestEnd, _ = strconv.ParseInt(v, 10, 64)
	}
	{ // directed: on the fresh chain (one custom precompile: the appended list fits the spare capacity of go-ethereum's
		// package-level precompile list) one message is executed, without commit; the shared list must be as it was
		from, to := s.WalletAccounts[1].GetEthAddress(), s.WalletAccounts[2].GetEthAddress()
		msg := ethtypes.NewMessage(from, &to, 0, big.NewInt(1), 100000, big.NewInt(2_000_000_000_000), big.NewInt(2_000_000_000_000), big.NewInt(0), nil, nil, true)
		_, err := s.ChainApp.EvmKeeper().ApplyMessage(s.CurrentContext, msg, evmtypes.NewNoOpTracer(), false)
		require.NoError(t, err)
		pre := corevm.ActivePrecompiles(params.Rules{IsBerlin: true})
		for i, a := range pre[:cap(pre)][len(pre):] {
			if a != (common.Address{}) {
				p.Oracle("C01-shared-precompile-list-written", "after executing one message on a fresh chain the spare capacity of the EVM package's shared precompile address list (len %d, cap %d) holds %s at offset %d: transaction execution appends to a slice that every goroutine of the process shares", len(pre), cap(pre), a.Hex(), i)
				break
			}
		}
		p.Count("shared-precompile-list-probe")
	}
	A, B := newTwin(t, s, "A"), newTwin(t, s, "B")
	fx := A.setup(t, s, vestEnd)
	fxB := B.setup(t, s, vestEnd)
	require.Equal(t, fx.erc20B, fxB.erc20B)

	c := &chain{t: t, s: s, evmDenom: itutil.IntegrationTestChain1.BaseDenom, chainID: big.NewInt(itutil.IntegrationTestChain1.EvmChainId)}
	// instance B additionally serves node-local traffic (JSON-RPC style queries against every known precompile and
	// mempool checks) between FinalizeBlock and Commit: none of it may influence what consensus computes
	B.nodeLocal = func(h int64, txs [][]byte) {
		from := s.WalletAccounts[1].GetEthAddress()
		targets := []common.Address{fx.erc20A, fx.erc20B, cpctypes.CpcStakingFixedAddress}
		for i := 0; i < 12; i++ {
			targets = append(targets, crypto.CreateAddress(cpctypes.CpcModuleAddress, uint64(i)))
		}
		for _, to := range targets {
			to := to
			data := append(append([]byte{}, cpcabi.Erc20CpcInfo.ABI.Methods["balanceOf"].ID...), common.LeftPadBytes(from.Bytes(), 32)...)
			args, _ := json.Marshal(evmtypes.TransactionArgs{From: &from, To: &to, Data: (*hexutil.Bytes)(&data)})
			bz, _ := proto.Marshal(&evmtypes.EthCallRequest{Args: args, GasCap: 1_000_000})
			_, _ = B.app.Query(context.Background(), &abci.RequestQuery{Path: "/ethermint.evm.v1.Query/EthCall", Data: bz, Height: h - 1})
		}
		for _, tx := range txs {
			_, _ = B.app.CheckTx(&abci.RequestCheckTx{Tx: tx, Type: abci.CheckTxType_New})
		}
	}
	B.during = func(h int64, stop <-chan struct{}, wg *sync.WaitGroup) {
		for g := 0; g < 4; g++ {
			g := g
			wg.Add(1)
			go func() {
				defer wg.Done()
				defer func() { _ = recover() }()
				targets := []common.Address{fx.storer, fx.logger, fx.erc20B, fx.sink}
				for k := 0; ; k++ {
					select {
					case <-stop:
						return
					default:
					}
					bz, _ := proto.Marshal(&evmtypes.QueryStorageRequest{Address: targets[(k+g)%len(targets)].Hex(), Key: common.BigToHash(big.NewInt(int64(k % 7))).Hex()})
					_, _ = B.app.Query(context.Background(), &abci.RequestQuery{Path: "/ethermint.evm.v1.Query/Storage", Data: bz, Height: h - 1})
					bz, _ = proto.Marshal(&evmtypes.QueryCodeRequest{Address: targets[(k+g)%len(targets)].Hex()})
					_, _ = B.app.Query(context.Background(), &abci.RequestQuery{Path: "/ethermint.evm.v1.Query/Code", Data: bz, Height: h - 1})
				}
			}()
		}
	}
	ws := s.WalletAccounts[:5]
	nonces := map[int]uint64{}
	txCfg := s.EncodingConfig.TxConfig
	var lateTokens []common.Address
	lateNext := 0
	var cosmosMsgs func(ctx sdk.Context, from *itutiltypes.TestAccount, msgs []sdk.Msg, seq uint64, gas uint64, fee *big.Int) []byte
	cosmosSend := func(ctx sdk.Context, from *itutiltypes.TestAccount, to sdk.AccAddress, amt int64, seq uint64, gas uint64, fee *big.Int) []byte {
		return cosmosMsgs(ctx, from, []sdk.Msg{&banktypes.MsgSend{FromAddress: from.GetCosmosAddress().String(), ToAddress: to.String(), Amount: sdk.NewCoins(sdk.NewInt64Coin(c.evmDenom, amt))}}, seq, gas, fee)
	}
	cosmosMsgs = func(ctx sdk.Context, from *itutiltypes.TestAccount, msgs []sdk.Msg, seq uint64, gas uint64, fee *big.Int) []byte {
		b := txCfg.NewTxBuilder()
		require.NoError(t, b.SetMsgs(msgs...))
		b.SetGasLimit(gas)
		b.SetFeeAmount(sdk.NewCoins(sdk.NewCoin(c.evmDenom, sdkmath.NewIntFromBigInt(fee))))
		acc := A.capp.AccountKeeper().GetAccount(ctx, from.GetCosmosAddress())
		signMode, err := authsigning.APISignModeToInternal(txCfg.SignModeHandler().DefaultMode())
		require.NoError(t, err)
		require.NoError(t, b.SetSignatures(signing.SignatureV2{PubKey: from.GetPubKey(), Data: &signing.SingleSignatureData{SignMode: signMode}, Sequence: seq}))
		sig, err := clienttx.SignWithPrivKey(ctx, signMode, authsigning.SignerData{ChainID: itutil.IntegrationTestChain1.CosmosChainId, AccountNumber: acc.GetAccountNumber(), Sequence: seq}, b, from.PrivateKey, txCfg, seq)
		require.NoError(t, err)
		require.NoError(t, b.SetSignatures(sig))
		bz, err := txCfg.TxEncoder()(b.GetTx())
		require.NoError(t, err)
		return bz
	}
	sdNext := 0
	valEth := common.BytesToAddress(s.ValidatorAccounts.Number(1).GetValidatorAddress())
	stakingAddr := cpctypes.CpcStakingFixedAddress

	for h := int64(1); h <= int64(nBlocks); h++ {
		var txs [][]byte
		var kinds []string
		if h > 1 {
			ctx := A.app.NewUncachedContext(false, A.header(s, h-1)).WithChainID(itutil.IntegrationTestChain1.CosmosChainId)
			baseFee := A.capp.FeeMarketKeeper().GetBaseFee(ctx).BigInt()
			price := new(big.Int).Add(baseFee, big.NewInt(int64(1+r.Intn(1000))))
			for i, w := range ws {
				nonces[i] = A.capp.AccountKeeper().GetAccount(ctx, w.GetCosmosAddress()).GetSequence()
			}
			n := 1 + r.Intn(8)
			for i := 0; i < n; i++ {
				si := r.Intn(len(ws))
				a := ethTxArgs{from: ws[si], typ: r.Intn(3), nonce: nonces[si], value: big.NewInt(0), gas: 300_000, gasPrice: price, feeCap: price, tip: big.NewInt(1)}
				kind := ""
				switch k := r.Intn(100); {
				case k < 10:
					to := ws[r.Intn(len(ws))].GetEthAddress()
					a.to, a.value, a.gas, kind = &to, big.NewInt(int64(1+r.Intn(100))), 21000, "transfer"
				case k < 20:
					a.to, a.data, kind = &fx.logger, []byte{byte(r.Intn(6))}, "logger"
				case k < 30:
					a.to, a.data, kind = &fx.storer, []byte{byte(r.Intn(2))}, "storer"
				case k < 36:
					a.to, kind = &fx.reverter, "reverter"
				case k < 58 && sdNext+6 < len(fx.sds): // self-destruct fan-out: several contracts with extra denominations destroyed in ONE tx
					m := 2 + r.Intn(5)
					var script []byte
					for j := 0; j < m; j++ {
						ben := common.BytesToAddress(crypto.Keccak256([]byte(fmt.Sprintf("ben-%d", sdNext)))[12:])
						script = append(script, record(0, fx.sds[sdNext], ben.Bytes())...)
						sdNext++
					}
					script = append(script, 2)
					a.to, a.data, a.gas, kind = &fx.runner, script, 900_000, fmt.Sprintf("sd-fanout-%d", m)
				case k < 70: // ERC-20 precompile calls through the runner, one reverted sub-frame
					tr := append(append([]byte{}, cpcabi.Erc20CpcInfo.ABI.Methods["transfer"].ID...), mustPack(cpcabi.Erc20CpcInfo.ABI.Methods["transfer"].Inputs.Pack(ws[r.Intn(len(ws))].GetEthAddress(), big.NewInt(int64(1+r.Intn(50)))))...)
					sub := append(record(0, fx.erc20A, tr), 3)
					script := append(record(0, fx.erc20B, tr), record(0, fx.runner, sub)...)
					script = append(script, record(0, fx.erc20A, tr)...)
					script = append(script, 2)
					a.to, a.data, a.gas, kind = &fx.runner, script, 900_000, "erc20-tree"
				case k < 76: // staking precompile: delegate
					dl := append(append([]byte{}, cpcabi.StakingCpcInfo.ABI.Methods["delegate"].ID...), mustPack(cpcabi.StakingCpcInfo.ABI.Methods["delegate"].Inputs.Pack(valEth, big.NewInt(int64(1000+r.Intn(1000)))))...)
					a.to, a.data, a.gas, kind = &stakingAddr, dl, 1_500_000, "stake-delegate"
				case k < 80: // staking precompile: transfer() picks validators itself
					tr := append(append([]byte{}, cpcabi.StakingCpcInfo.ABI.Methods["transfer"].ID...), mustPack(cpcabi.StakingCpcInfo.ABI.Methods["transfer"].Inputs.Pack(ws[r.Intn(len(ws))].GetEthAddress(), big.NewInt(int64(10+r.Intn(50)))))...)
					a.to, a.data, a.gas, kind = &stakingAddr, tr, 2_500_000, "stake-transfer"
				case k < 84: // zero-value touch of the vesting account (deletion candidate at commit, guarded)
					a.to, a.gas, kind = &fx.vest, 30_000, "touch-vesting"
				case k < 88:
					a.to, a.data, a.gas, kind = nil, initCode(codeLogger), 250_000, "create"
				case k < 90 && len(lateTokens) > 0: // a precompile that a transaction of this history deployed
					tok := lateTokens[r.Intn(len(lateTokens))]
					tr := append(append([]byte{}, cpcabi.Erc20CpcInfo.ABI.Methods["transfer"].ID...), mustPack(cpcabi.Erc20CpcInfo.ABI.Methods["transfer"].Inputs.Pack(ws[r.Intn(len(ws))].GetEthAddress(), big.NewInt(int64(1+r.Intn(20)))))...)
					a.to, a.data, a.gas, kind = &tok, tr, 200_000, "erc20-late-transfer"
				case k < 92:
					a.nonce += 2
					to := ws[0].GetEthAddress()
					a.to, kind = &to, "bad-nonce"
				default:
					fee := new(big.Int).Mul(price, big.NewInt(150_000))
					txs = append(txs, cosmosSend(ctx, ws[si], ws[r.Intn(len(ws))].GetCosmosAddress(), int64(1+r.Intn(50)), nonces[si], 150_000, fee))
					kinds = append(kinds, "cosmos-send")
					nonces[si]++
					continue
				}
				bz, _ := c.buildEthTx(a)
				txs = append(txs, bz)
				kinds = append(kinds, kind)
				if kind != "bad-nonce" {
					nonces[si]++
				}
			}
		}
		if h > 1 && lateNext < len(reexecLateDenoms) && (h%4 == 2 || r.Chance(1, 6)) { // deploy the next ERC-20 precompile by transaction
			ctx := A.app.NewUncachedContext(false, A.header(s, h-1)).WithChainID(itutil.IntegrationTestChain1.CosmosChainId)
			price := new(big.Int).Add(A.capp.FeeMarketKeeper().GetBaseFee(ctx).BigInt(), big.NewInt(7))
			d := reexecLateDenoms[lateNext]
			msg := &cpctypes.MsgDeployErc20ContractRequest{Authority: ws[0].GetCosmosAddress().String(), Name: "late-" + d, Symbol: strings.ToUpper(d[1:]), Decimals: 6, MinDenom: d}
			txs = append(txs, cosmosMsgs(ctx, ws[0], []sdk.Msg{msg}, nonces[0], 600_000, new(big.Int).Mul(price, big.NewInt(600_000))))
			kinds = append(kinds, "cpc-deploy")
			nonces[0]++
			lateNext++
		}
		resA, hashA := A.finalize(t, s, h, txs)
		resB, hashB := B.finalize(t, s, h, txs)
		{ // addresses of the precompiles deployed so far, for the following blocks
			ctx := A.app.NewUncachedContext(false, A.header(s, h)).WithChainID(itutil.IntegrationTestChain1.CosmosChainId)
			lateTokens = lateTokens[:0]
			for _, d := range reexecLateDenoms {
				if a := A.capp.CpcKeeper().GetErc20CustomPrecompiledContractAddressByMinDenom(ctx, d); a != nil {
					lateTokens = append(lateTokens, *a)
				}
			}
		}
		// Log / Info / Codespace texts are not part of consensus (CometBFT hashes code, data, gas wanted, gas used);
		// a recovered panic puts a stack trace with addresses into Log.  They are compared separately below.
		strip := func(r *abci.ResponseFinalizeBlock) *abci.ResponseFinalizeBlock {
			c := *r
			c.TxResults = nil
			for _, tr := range r.TxResults {
				x := *tr
				x.Log, x.Info = "", ""
				c.TxResults = append(c.TxResults, &x)
			}
			return &c
		}
		bzA, err := strip(resA).Marshal()
		require.NoError(t, err)
		bzB, err := strip(resB).Marshal()
		require.NoError(t, err)
		sumA := sha256.Sum256(bzA)
		var codes []string
		for i, tr := range resA.TxResults {
			codes = append(codes, fmt.Sprintf("%s:%d:%d", kinds[i], tr.Code, tr.GasUsed))
			p.Count("kind:" + strings.Split(kinds[i], "-")[0] + fmt.Sprintf(":code=%d", tr.Code))
		}
		p.Emit(fmt.Sprintf("blk h=%d n=%d", h, len(txs)), fmt.Sprintf("apphash=%s res=%s valupd=%d txs=%s", hex.EncodeToString(hashA), hex.EncodeToString(sumA[:8]), len(resA.ValidatorUpdates), strings.Join(codes, ",")))
		if !bytes.Equal(hashA, hashB) {
			p.Oracle("C01-apphash", "block %d: app hash differs between two executions of the same history (%x vs %x)", h, hashA, hashB)
		}
		// process-wide state written by transaction execution: the precompile address lists of the EVM package are shared by
		// every execution of the process (block execution, mempool checks, JSON-RPC calls run on different goroutines); a
		// transaction that writes into their spare capacity makes the warm set of one execution depend on what another
		// goroutine is doing at that moment (goroutine scheduling)
		for _, rules := range []params.Rules{{IsBerlin: true}, {IsIstanbul: true}, {IsByzantium: true}, {}} {
			pre := corevm.ActivePrecompiles(rules)
			for i, a := range pre[:cap(pre)][len(pre):] {
				if a != (common.Address{}) || i < 0 {
					p.Oracle("C01-shared-precompile-list-written", "block %d: after executing the block the spare capacity of the EVM package's shared precompile address list (len %d, cap %d) holds %s at offset %d: transaction execution appends to a slice that every goroutine of the process shares", h, len(pre), cap(pre), a.Hex(), i)
					break
				}
			}
		}
		p.Count("shared-precompile-list-checked")
		if !bytes.Equal(bzA, bzB) {
			where := "block events / updates"
			for i := range resA.TxResults {
				a, _ := resA.TxResults[i].Marshal()
				b, _ := resB.TxResults[i].Marshal()
				if !bytes.Equal(a, b) {
					where = fmt.Sprintf("tx %d (%s): code %d/%d gas %d/%d, %d/%d events", i, kinds[i], resA.TxResults[i].Code, resB.TxResults[i].Code, resA.TxResults[i].GasUsed, resB.TxResults[i].GasUsed, len(resA.TxResults[i].Events), len(resB.TxResults[i].Events))
					for j := range resA.TxResults[i].Events {
						if j < len(resB.TxResults[i].Events) && resA.TxResults[i].Events[j].String() != resB.TxResults[i].Events[j].String() {
							where += fmt.Sprintf("; first differing event #%d: %s vs %s", j, resA.TxResults[i].Events[j].String(), resB.TxResults[i].Events[j].String())
							break
						}
					}
					break
				}
			}
			p.Oracle("C01-results", "block %d: ResponseFinalizeBlock differs between two executions of the same history: %s", h, where)
		}
	}

	// ---- restart in the middle of a history -------------------------------------------------------------------
	// Node R1 is built on a database this test can reach (InitChain from A's exported state), executes a few blocks,
	// then R2 = a fresh application instance opened on a byte-for-byte copy of R1's database ("the same node after a
	// restart", or a node that state-synced).  Both execute the same further blocks: results and app hashes must agree.
	{
		appA := A.capp.IbcTestingApp().(*chainapp.Evermint)
		exported, err := appA.ExportAppStateAndValidators(false, nil, nil)
		require.NoError(t, err)
		chainID := itutil.IntegrationTestChain1.CosmosChainId
		newAppWith := func(db sdkdb.DB, opts simtestutil.AppOptionsMap, bopts ...func(*baseapp.BaseApp)) *chainapp.Evermint {
			m := simtestutil.AppOptionsMap{sdkflags.FlagHome: chainapp.DefaultNodeHome}
			for k, v := range opts {
				m[k] = v
			}
			return chainapp.NewEvermint(log.NewNopLogger(), db, nil, true, map[int64]bool{}, chainapp.DefaultNodeHome, 0, s.EncodingConfig,
				m, append([]func(*baseapp.BaseApp){baseapp.SetChainID(chainID)}, bopts...)...)
		}
		newApp := func(db sdkdb.DB) *chainapp.Evermint { return newAppWith(db, nil) }
		dbR := sdkdb.NewMemDB()
		R1 := newApp(dbR)
		cp := exported.ConsensusParams
		t0 := reexecT0().Add(1000 * time.Hour)
		_, err = R1.InitChain(&abci.RequestInitChain{ChainId: chainID, ConsensusParams: &cp, Validators: []abci.ValidatorUpdate{}, AppStateBytes: exported.AppState, InitialHeight: exported.Height, Time: t0})
		require.NoError(t, err)
		proposer := s.ValidatorAccounts.Number(1).GetConsensusAddress().Bytes()
		block := func(app *chainapp.Evermint, h int64, txs [][]byte) (*abci.ResponseFinalizeBlock, []byte) {
			res, err := app.FinalizeBlock(&abci.RequestFinalizeBlock{Height: h, Txs: txs, Hash: blockHashOf(h), Time: t0.Add(time.Duration(h) * 5 * time.Second), ProposerAddress: proposer})
			require.NoError(t, err)
			_, err = app.Commit()
			require.NoError(t, err)
			return res, app.LastCommitID().Hash
		}
		var restartCreated []common.Address
		mkTxs := func(app *chainapp.Evermint, h int64) [][]byte {
			ctx := app.NewUncachedContext(false, tmproto.Header{ChainID: chainID, Height: h - 1, Time: t0}).WithChainID(chainID)
			var txs [][]byte
			if app.LastBlockHeight() == 0 || h == exported.Height {
				return txs // the imported state is committed by the first block
			}
			price := new(big.Int).Add(app.FeeMarketKeeper.GetBaseFee(ctx).BigInt(), big.NewInt(int64(1+r.Intn(1000))))
			for i := 0; i < r.Intn(3); i++ {
				w := ws[i]
				acc := app.AccountKeeper.GetAccount(ctx, w.GetCosmosAddress())
				if acc == nil {
					continue
				}
				to := ws[(i+1)%len(ws)].GetEthAddress()
				bz, _ := c.buildEthTx(ethTxArgs{from: w, typ: 2, nonce: acc.GetSequence(), to: &to, value: big.NewInt(int64(1 + r.Intn(50))), gas: 21000, feeCap: price, tip: big.NewInt(1)})
				txs = append(txs, bz)
			}
			if w := ws[3]; true { // a contract creation (and, once it exists, a call of the created logger) from a wallet of its own
				if acc := app.AccountKeeper.GetAccount(ctx, w.GetCosmosAddress()); acc != nil {
					if r.Chance(1, 4) { // a constructor that loops until its gas is gone: long enough for any timer of the node to fire
						bz, _ := c.buildEthTx(ethTxArgs{from: w, typ: 2, nonce: acc.GetSequence(), data: codeBurner, gas: 1_500_000, feeCap: price, tip: big.NewInt(1)})
						txs = append(txs, bz)
					} else if r.Bool() || len(restartCreated) == 0 {
						bz, _ := c.buildEthTx(ethTxArgs{from: w, typ: r.Intn(3), nonce: acc.GetSequence(), data: initCode(codeLogger), gas: 400_000, gasPrice: price, feeCap: price, tip: big.NewInt(1)})
						txs = append(txs, bz)
						restartCreated = append(restartCreated, crypto.CreateAddress(w.GetEthAddress(), acc.GetSequence()))
					} else {
						to := restartCreated[r.Intn(len(restartCreated))]
						bz, _ := c.buildEthTx(ethTxArgs{from: w, typ: 2, nonce: acc.GetSequence(), to: &to, data: []byte{1, 2, 3}, gas: 200_000, feeCap: price, tip: big.NewInt(1)})
						txs = append(txs, bz)
					}
				}
			}
			return txs
		}
		h := exported.Height
		for i, k := 0, 2+r.Intn(3); i < k; i++ {
			block(R1, h, mkTxs(R1, h))
			h++
		}
		cloneDB := func() sdkdb.DB {
			clone := sdkdb.NewMemDB()
			it, err := dbR.Iterator(nil, nil)
			require.NoError(t, err)
			for ; it.Valid(); it.Next() {
				require.NoError(t, clone.Set(append([]byte{}, it.Key()...), append([]byte{}, it.Value()...)))
			}
			_ = it.Close()
			return clone
		}
		R2 := newApp(cloneDB())
		// R3: the same database again, opened by a node whose operator chose other (valid) node-local settings: the EVM
		// tracer of app.toml, the node's own minimum gas price, the cap on gas wanted, pruning and cache sizes
		type nodeCfg struct {
			name string
			app  *chainapp.Evermint
		}
		var R3 []nodeCfg
		for _, tr := range []string{"access_list", "struct", "json"} {
			if tr == "json" && os.Getenv("VERIF_TRACER_JSON") == "" {
				continue // writes every opcode to stderr; behaviourally the same hook set as "struct"
			}
			R3 = append(R3, nodeCfg{"evm.tracer=" + tr, newAppWith(cloneDB(), simtestutil.AppOptionsMap{"evm.tracer": tr, "evm.max-tx-gas-wanted": uint64(100_000), "json-rpc.gas-cap": uint64(1), "json-rpc.evm-timeout": time.Nanosecond, "json-rpc.logs-cap": int32(1), "iavl-cache-size": 1},
				baseapp.SetMinGasPrices("7000000000"+c.evmDenom))})
		}
		if R1.LastBlockHeight() != R2.LastBlockHeight() || !bytes.Equal(R1.LastCommitID().Hash, R2.LastCommitID().Hash) {
			p.Oracle("C01-restart", "an instance opened on a copy of the database does not start from the same state (height %d / %d)", R1.LastBlockHeight(), R2.LastBlockHeight())
		}
		for i := 0; i < 4; i++ {
			txs := mkTxs(R1, h)
			res1, hash1 := block(R1, h, txs)
			res2, hash2 := block(R2, h, txs)
			b1, _ := res1.Marshal()
			b2, _ := res2.Marshal()
			p.Emit(fmt.Sprintf("blk restart h=%d n=%d", h, len(txs)), fmt.Sprintf("apphash=%s", hex.EncodeToString(hash1)))
			p.Count("restart-block")
			if !bytes.Equal(hash1, hash2) || !bytes.Equal(b1, b2) {
				p.Oracle("C01-restart", "block %d: the instance restarted on the same database computes a different app hash or result than the one that kept running (%x vs %x, results equal: %v)", h, hash1, hash2, bytes.Equal(b1, b2))
				break
			}
			bad := false
			for _, n3 := range R3 {
				res3, hash3 := block(n3.app, h, txs)
				b3, _ := res3.Marshal()
				p.Count("nodecfg-block")
				if !bytes.Equal(hash1, hash3) || !bytes.Equal(b1, b3) {
					where := ""
					for k := range res1.TxResults {
						x1, _ := res1.TxResults[k].Marshal()
						x3, _ := res3.TxResults[k].Marshal()
						if !bytes.Equal(x1, x3) {
							where = fmt.Sprintf("tx %d: code %d gasUsed %d log %q  vs  code %d gasUsed %d log %q", k, res1.TxResults[k].Code, res1.TxResults[k].GasUsed, res1.TxResults[k].Log, res3.TxResults[k].Code, res3.TxResults[k].GasUsed, res3.TxResults[k].Log)
							break
						}
					}
					p.Oracle("C01-nodecfg", "block %d: a node with node-local setting %s computes a different app hash or result (%x vs %x) %s", h, n3.name, hash1, hash3, where)
					bad = true
				}
			}
			if bad {
				break
			}
			h++
		}
	}
}

func mustPack(bz []byte, err error) []byte {
	if err != nil {
		panic(err)
	}
	return bz
}
