package engines

import (
	"context"

	"fmt"
	"google.golang.org/grpc"
	"math/big"
	"reflect"
	"strings"
	"sync"
	"testing"
	"time"
	"unsafe"

	"cosmossdk.io/log"
	abci "github.com/cometbft/cometbft/abci/types"
	cmtrpcclient "github.com/cometbft/cometbft/rpc/client"
	coretypes "github.com/cometbft/cometbft/rpc/core/types"
	cmttypes "github.com/cometbft/cometbft/types"
	sdkdb "github.com/cosmos/cosmos-db"
	"github.com/cosmos/cosmos-sdk/server"
	"github.com/ethereum/go-ethereum/common"
	"github.com/ethereum/go-ethereum/common/hexutil"
	"github.com/ethereum/go-ethereum/core"
	ethtypes "github.com/ethereum/go-ethereum/core/types"
	"github.com/stretchr/testify/require"

	dlanteutils "github.com/EscanBE/evermint/v12/app/antedl/utils"
	"github.com/EscanBE/evermint/v12/indexer"
	rpcbackend "github.com/EscanBE/evermint/v12/rpc/backend"
	rpcfilters "github.com/EscanBE/evermint/v12/rpc/namespaces/ethereum/eth/filters"
	rpctypes "github.com/EscanBE/evermint/v12/rpc/types"
	evmserver "github.com/EscanBE/evermint/v12/server"
	evertypes "github.com/EscanBE/evermint/v12/types"
	evmtypes "github.com/EscanBE/evermint/v12/x/evm/types"

	"verifharness/hx"
)

// fakeCmt serves blocks and block results recorded from real FinalizeBlock calls to the JSON-RPC backend
// and to the indexer service; every other method of the client interface is absent (nil embedded interface).
type fakeCmt struct {
	cmtrpcclient.Client
	mu      sync.Mutex
	blocks  map[int64]*coretypes.ResultBlock
	results map[int64]*coretypes.ResultBlockResults
	latest  int64
	subs    chan coretypes.ResultEvent
}

func newFakeCmt() *fakeCmt {
	return &fakeCmt{blocks: map[int64]*coretypes.ResultBlock{}, results: map[int64]*coretypes.ResultBlockResults{}, subs: make(chan coretypes.ResultEvent, 1024)}
}
func (f *fakeCmt) add(h int64, txs [][]byte, res *abci.ResponseFinalizeBlock, notify bool) *cmttypes.Block {
	f.mu.Lock()
	defer f.mu.Unlock()
	var ctx []cmttypes.Tx
	for _, t := range txs {
		ctx = append(ctx, t)
	}
	blk := &cmttypes.Block{Header: cmttypes.Header{Height: h, Time: time.Unix(1_750_000_000+h, 0).UTC()}, Data: cmttypes.Data{Txs: ctx}}
	f.blocks[h] = &coretypes.ResultBlock{BlockID: cmttypes.BlockID{Hash: blockHashOf(h)}, Block: blk}
	f.results[h] = &coretypes.ResultBlockResults{Height: h, TxsResults: res.TxResults, FinalizeBlockEvents: res.Events}
	if h > f.latest {
		f.latest = h
	}
	if notify {
		select {
		case f.subs <- coretypes.ResultEvent{Data: cmttypes.EventDataNewBlockHeader{Header: blk.Header}}:
		default:
		}
	}
	return blk
}
func (f *fakeCmt) Block(_ context.Context, h *int64) (*coretypes.ResultBlock, error) {
	f.mu.Lock()
	defer f.mu.Unlock()
	hh := f.latest
	if h != nil {
		hh = *h
	}
	if b, ok := f.blocks[hh]; ok {
		return b, nil
	}
	return nil, fmt.Errorf("block %d not found", hh)
}
func (f *fakeCmt) BlockResults(_ context.Context, h *int64) (*coretypes.ResultBlockResults, error) {
	f.mu.Lock()
	defer f.mu.Unlock()
	hh := f.latest
	if h != nil {
		hh = *h
	}
	if b, ok := f.results[hh]; ok {
		return b, nil
	}
	return nil, fmt.Errorf("block results %d not found", hh)
}
func (f *fakeCmt) ConsensusParams(_ context.Context, h *int64) (*coretypes.ResultConsensusParams, error) {
	cp := cmttypes.DefaultConsensusParams()
	cp.Block.MaxGas = 3_000_000
	hh := int64(0)
	if h != nil {
		hh = *h
	}
	return &coretypes.ResultConsensusParams{BlockHeight: hh, ConsensusParams: *cp}, nil
}
func (f *fakeCmt) Status(context.Context) (*coretypes.ResultStatus, error) {
	f.mu.Lock()
	defer f.mu.Unlock()
	return &coretypes.ResultStatus{SyncInfo: coretypes.SyncInfo{LatestBlockHeight: f.latest, EarliestBlockHeight: 1}}, nil
}
func (f *fakeCmt) Subscribe(context.Context, string, string, ...int) (<-chan coretypes.ResultEvent, error) {
	return f.subs, nil
}
func (f *fakeCmt) Unsubscribe(context.Context, string, string) error { return nil }

// failingDB lets a write batch fail: the crash point between two index-database writes.
type failingDB struct {
	sdkdb.DB
	failNext *bool
}
type failingBatch struct {
	sdkdb.Batch
	fail *bool
}

func (d failingDB) NewBatch() sdkdb.Batch { return failingBatch{d.DB.NewBatch(), d.failNext} }
func (b failingBatch) Write() error {
	if *b.fail {
		*b.fail = false
		return fmt.Errorf("injected crash before the batch reached the database")
	}
	return b.Batch.Write()
}

func dumpDB(db sdkdb.DB) string {
	it, _ := db.Iterator(nil, nil)
	defer it.Close()
	var sb strings.Builder
	for ; it.Valid(); it.Next() {
		fmt.Fprintf(&sb, "%x=%x;", it.Key(), it.Value())
	}
	return sb.String()
}

// E-indexer (C14): blocks with every outcome class (and undecodable bytes) produced by the real
// FinalizeBlock are indexed by the real KVIndexer; every hash and every (block, index) — also unknown and
// out-of-range ones — is looked up and compared with the model; re-indexing and an injected failure of the
// batch write are checked for idempotence / atomicity; the real JSON-RPC backend (over the recorded blocks)
// must report the same sender, status, gas used, cumulative gas, log indices and transaction index as the
// consensus results.
func TestEngineIndexer(t *testing.T) {
	rng := hx.NewRng(hx.Seed() ^ 0x1d8)
	nBlocks := hx.EnvInt("VERIF_N", 40)
	p := hx.NewProto("indexer")
	defer p.Close()
	f := newBlockFixture(t, 3_000_000)
	defer f.c.s.Cleanup()
	c := f.c
	ws := f.senders()

	mem := sdkdb.NewMemDB()
	failNext := false
	clientCtx := c.s.QueryClientsAt(0).ClientQueryCtx
	fake := newFakeCmt()
	clientCtx = clientCtx.WithClient(fake)
	kv := indexer.NewKVIndexer(failingDB{mem, &failNext}, log.NewNopLogger(), clientCtx)
	serverCtx := server.NewDefaultContext()
	backend := rpcbackend.NewBackend(serverCtx, serverCtx.Logger, clientCtx, kv)
	traceRec := &traceRecorder{QueryClient: c.s.QueryClientsAt(0).Rpc.QueryClient}
	{ // the gRPC query client of the suite (in-process), as the suite itself wires it; trace requests are recorded on the way
		qc := *c.s.QueryClientsAt(0).Rpc
		qc.QueryClient = traceRec
		fld := reflect.Indirect(reflect.ValueOf(backend).Elem()).FieldByName("queryClient")
		reflect.NewAt(fld.Type(), unsafe.Pointer(fld.UnsafeAddr())).Elem().Set(reflect.ValueOf(&qc))
	}

	hashID := map[common.Hash]int{}
	idOf := func(h common.Hash) int {
		if _, ok := hashID[h]; !ok {
			hashID[h] = len(hashID) + 1
		}
		return hashID[h]
	}
	var known []common.Hash
	var allLogs []*ethtypes.Log
	firstH := int64(0)

	for b := 0; b < nBlocks; b++ {
		ctx := c.ctx()
		baseFee := c.s.ChainApp.FeeMarketKeeper().GetBaseFee(ctx).BigInt()
		for i, w := range ws {
			f.nonces[i] = c.seq(ctx, w.GetCosmosAddress())
		}
		n := 1 + rng.Intn(8)
		f.heavy = false
		heavy := rng.Chance(1, 4)
		var txs []genTx
		for i := 0; i < n; i++ {
			f.heavy = heavy && rng.Chance(2, 3)
			txs = append(txs, f.genTx(rng, baseFee, ws))
		}
		txs = f.appendCrossing(rng, baseFee, ws, txs, heavy, p)
		raw := make([][]byte, 0, len(txs)+1)
		for _, g := range txs {
			raw = append(raw, g.bytes)
		}
		garbageAt := -1
		if rng.Chance(1, 5) { // undecodable bytes inside the block
			garbageAt = rng.Intn(len(raw) + 1)
			raw = append(raw[:garbageAt], append([][]byte{{0xde, 0xad, 0xbe, 0xef, byte(b)}}, raw[garbageAt:]...)...)
		}
		res := c.finalize(raw)
		h := c.app.LastBlockHeight()
		blk := fake.add(h, raw, res, false)

		// ---- model input: what the indexer can see of each transaction ------------------------------------------------
		var recs, qs []string
		type ethInfo struct {
			pos    int
			hash   common.Hash
			obs    txObs
			tx     *ethtypes.Transaction
			sender common.Address
		}
		var eths []ethInfo
		gi := 0
		for pos, bz := range raw {
			r := res.TxResults[pos]
			dec, derr := c.s.EncodingConfig.TxConfig.TxDecoder()(bz)
			decodable, isEth := derr == nil, false
			hid := 0
			o := c.observe(r)
			if decodable {
				isEth = dlanteutils.IsEthereumTx(dec)
				if isEth {
					em := dec.GetMsgs()[0].(*evmtypes.MsgEthereumTx)
					et := em.AsTransaction()
					hid = idOf(et.Hash())
					signer := ethtypes.LatestSignerForChainID(c.chainID)
					from, _ := ethtypes.Sender(signer, et)
					eths = append(eths, ethInfo{pos: pos, hash: et.Hash(), obs: o, tx: et, sender: from})
					qs = append(qs, fmt.Sprint(hid))
					known = append(known, et.Hash())
				}
			}
			if hid == 0 {
				hid = 100000 + int(h)*100 + pos
			}
			recs = append(recs, fmt.Sprintf("%d:%d:%d:%d:%d:%d:%d", hid, b01(decodable), b01(isEth), b01(r.Code == 0), b01(o.hasEthEv), b01(o.hasRcpt), b01(o.vmErr != "")))
			if pos != garbageAt {
				gi++
			}
		}
		// a hash of an earlier block and an unknown hash
		if len(known) > 3 {
			qs = append(qs, fmt.Sprint(idOf(known[rng.Intn(len(known))])))
		}
		qs = append(qs, fmt.Sprint(idOf(common.BigToHash(big.NewInt(int64(b)+777)))))
		var qis []string
		for k := 0; k <= len(eths)+1; k++ {
			qis = append(qis, fmt.Sprintf("%d:%d", h, k))
		}
		qis = append(qis, fmt.Sprintf("%d:0", h+5), fmt.Sprintf("%d:0", h-1))

		// ---- the real indexer, with an injected failure of the batch write now and then ---------------------------------
		if rng.Chance(1, 5) {
			before := dumpDB(mem)
			failNext = true
			err := kv.IndexBlock(blk, res.TxResults)
			if len(eths) > 0 && err == nil {
				p.Oracle("C14-crash-not-reported", "the batch write failed but IndexBlock returned nil (block %d)", h)
			}
			if after := dumpDB(mem); after != before {
				p.Oracle("C14-partial-write", "a failed batch left a partial index for block %d", h)
			}
			failNext = false
		}
		require.NoError(t, kv.IndexBlock(blk, res.TxResults))
		once := dumpDB(mem)
		require.NoError(t, kv.IndexBlock(blk, res.TxResults))
		if dumpDB(mem) != once {
			p.Oracle("C14-reindex-changes", "indexing block %d again changed the index database", h)
		}
		show := func(r *evertypes.TxResult, err error) string {
			if err != nil || r == nil {
				return "-"
			}
			return fmt.Sprintf("%d:%d:%d:%d", r.Height, r.TxIndex, r.EthTxIndex, b01(r.Failed))
		}
		var byH, byI []string
		rev := map[int]common.Hash{}
		for hsh, id := range hashID {
			rev[id] = hsh
		}
		for _, q := range qs {
			var id int
			fmt.Sscan(q, &id)
			r, err := kv.GetByTxHash(rev[id])
			byH = append(byH, show(r, err))
		}
		for _, q := range qis {
			var hh int64
			var k int32
			fmt.Sscanf(q, "%d:%d", &hh, &k)
			r, err := kv.GetByBlockAndIndex(hh, k)
			byI = append(byI, show(r, err))
		}
		p.Emit(fmt.Sprintf("idx h=%d txs=%s q=%s qi=%s", h, strings.Join(recs, ","), strings.Join(qs, ","), strings.Join(qis, ",")),
			fmt.Sprintf("hash=%s index=%s", strings.Join(byH, ","), strings.Join(byI, ",")))
		p.Count(fmt.Sprintf("block:eth=%d", len(eths)))

		// ---- debug_traceTransaction: the transactions replayed in front of the traced one (C08) ---------------------------
		// whatever the trace answers, it must be computed on the state the transaction really ran on: every Ethereum
		// transaction that executed before it in the block is replayed first, in block order, and nothing from its own
		// position on
		for k, e := range eths {
			if !e.obs.hasRcpt || k == 0 || k%2 == 1 {
				continue
			}
			traceRec.last = nil
			_, _ = backend.TraceTransaction(e.hash, nil)
			if traceRec.last == nil {
				continue
			}
			p.Count("trace:requests")
			var got []common.Hash
			for _, m := range traceRec.last.Predecessors {
				got = append(got, m.AsTransaction().Hash())
			}
			gi := 0
			for _, b4 := range eths[:k] {
				if !b4.obs.hasRcpt {
					continue
				}
				for gi < len(got) && got[gi] != b4.hash {
					gi++
				}
				if gi == len(got) {
					p.Oracle("C08-trace-predecessors", "block %d: tracing the Ethereum transaction at block position %d does not replay the executed Ethereum transaction at position %d first (%d predecessors handed to the trace query)", h, e.pos, b4.pos, len(got))
					break
				}
			}
			for _, later := range eths[k:] {
				for _, g := range got {
					if g == later.hash {
						p.Oracle("C08-trace-predecessors", "block %d: tracing the transaction at block position %d replays the transaction at position %d, which is not before it", h, e.pos, later.pos)
					}
				}
			}
			if traceRec.last.Msg == nil || traceRec.last.Msg.AsTransaction().Hash() != e.hash {
				p.Oracle("C08-trace-predecessors", "block %d: the trace query for position %d carries another transaction", h, e.pos)
			}
		}

		// ---- JSON-RPC views vs consensus results (oracle) --------------------------------------------------------------------
		cum := uint64(0)
		logTotal := 0
		ethIdx := 0
		droppedGasBefore := uint64(0)
		for _, e := range eths {
			o := e.obs
			if !o.hasEthEv { // rejected by the ante handler or dropped: not part of the Ethereum view of the block
				if rc, err := backend.GetTransactionReceipt(e.hash); err == nil && rc != nil {
					p.Oracle("C14-receipt-for-dropped", "a receipt is served for a transaction that never passed the ante handler (block %d pos %d)", h, e.pos)
				}
				droppedGasBefore += e.tx.Gas()
				continue
			}
			wantGas, wantStatus, wantLogs := e.tx.Gas(), uint64(0), 0
			if o.hasRcpt && o.receipt != nil {
				wantGas, wantStatus, wantLogs = o.rGasUsed, o.receipt.Status, len(o.receipt.Logs)
			}
			cum += wantGas
			rc, err := backend.GetTransactionReceipt(e.hash)
			if err != nil || rc == nil {
				p.Oracle("C14-receipt-missing", "no receipt for an indexed transaction (block %d pos %d class %s): %v", h, e.pos, obsClass(o), err)
			} else {
				var diffs []string
				if uint64(rc.Status) != wantStatus {
					diffs = append(diffs, fmt.Sprintf("status %d want %d", rc.Status, wantStatus))
				}
				if uint64(rc.GasUsed) != wantGas {
					diffs = append(diffs, fmt.Sprintf("gasUsed %d want %d", rc.GasUsed, wantGas))
					if !o.hasRcpt {
						// C05: a transaction that passed admission and failed outside EVM execution (consensus-level error, block
						// gas exhausted) cost its sender the whole gas limit: that is the gas used its receipt shows
						p.Oracle("C05-receipt-gas-of-tx-failed-outside-evm", "block %d pos %d (class %s): the sender paid for the gas limit %d, the receipt served by eth_getTransactionReceipt shows gas used %d", h, e.pos, obsClass(o), wantGas, rc.GasUsed)
					}
				}
				if uint64(rc.TransactionIndex) != uint64(ethIdx) {
					diffs = append(diffs, fmt.Sprintf("transactionIndex %d want %d", rc.TransactionIndex, ethIdx))
				}
				if rc.From != e.sender {
					diffs = append(diffs, "from")
				}
				if len(rc.Logs) != wantLogs {
					diffs = append(diffs, fmt.Sprintf("logs %d want %d", len(rc.Logs), wantLogs))
				}
				for j, lg := range rc.Logs {
					if int(lg.Index) != logTotal+j {
						diffs = append(diffs, fmt.Sprintf("log index %d want %d", lg.Index, logTotal+j))
						break
					}
				}
				if uint64(rc.CumulativeGasUsed) != cum {
					if !o.hasRcpt && uint64(rc.CumulativeGasUsed) == cum+droppedGasBefore && droppedGasBefore > 0 {
						p.Oracle("C14-synthetic-cumulative-counts-dropped", "synthetic receipt of a failed tx (block %d pos %d): cumulative gas %d counts %d gas of earlier transactions that never passed the ante handler; consensus running sum is %d", h, e.pos, rc.CumulativeGasUsed, droppedGasBefore, cum)
					} else {
						diffs = append(diffs, fmt.Sprintf("cumulativeGasUsed %d want %d", rc.CumulativeGasUsed, cum))
					}
				}
				if len(diffs) > 0 {
					p.Oracle("C14-rpc-receipt", "JSON-RPC receipt differs from the consensus result (block %d pos %d class %s): %s", h, e.pos, obsClass(o), strings.Join(diffs, "; "))
					for _, d := range diffs {
						if strings.HasPrefix(d, "transactionIndex") || strings.HasPrefix(d, "log index") || strings.HasPrefix(d, "cumulativeGasUsed") {
							// C13: numbering and running sums, as the receipts served for the block show them
							p.Oracle("C13-served-receipt-numbering", "block %d pos %d (class %s): the receipt served for the transaction has %s", h, e.pos, obsClass(o), d)
							break
						}
					}
				}
			}
			if tx, err := backend.GetTransactionByHash(e.hash); err != nil || tx == nil {
				p.Oracle("C14-tx-missing", "eth_getTransactionByHash finds nothing for an indexed transaction (block %d pos %d): %v", h, e.pos, err)
			} else if tx.TransactionIndex == nil || uint64(*tx.TransactionIndex) != uint64(ethIdx) || tx.From != e.sender {
				p.Oracle("C14-rpc-tx", "eth_getTransactionByHash reports another index / sender than consensus (block %d pos %d)", h, e.pos)
				p.Oracle("C13-served-receipt-numbering", "block %d pos %d: the transaction is served with another index than its position among the Ethereum transactions that reached execution", h, e.pos)
			}
			logTotal += wantLogs
			ethIdx++
			_ = core.IntrinsicGas
		}
		// ---- the block view: the Ethereum transactions that passed the ante handler, in block order (also when Cosmos
		// transactions stand between or before them), and the gas they used according to consensus
		if blk, err := backend.GetBlockByNumber(rpctypes.BlockNumber(h), false); err != nil || blk == nil {
			if ethIdx > 0 {
				p.Oracle("C14-rpc-block", "eth_getBlockByNumber fails for an indexed block with %d Ethereum transactions (block %d): %v", ethIdx, h, err)
			}
		} else {
			var diffs []string
			if gu, ok := blk["gasUsed"].(*hexutil.Big); !ok || gu.ToInt().Uint64() != cum {
				diffs = append(diffs, fmt.Sprintf("gasUsed %v want %d", blk["gasUsed"], cum))
			}
			var want []common.Hash
			for _, e := range eths {
				if e.obs.hasEthEv {
					want = append(want, e.hash)
				}
			}
			got, _ := blk["transactions"].([]interface{})
			if len(got) != len(want) {
				diffs = append(diffs, fmt.Sprintf("%d transactions want %d", len(got), len(want)))
			} else {
				for k := range got {
					if hh, ok := got[k].(common.Hash); !ok || hh != want[k] {
						diffs = append(diffs, fmt.Sprintf("transaction %d is %v want %s", k, got[k], want[k].Hex()))
						break
					}
				}
			}
			if len(diffs) > 0 {
				p.Oracle("C14-rpc-block", "eth_getBlockByNumber differs from the consensus results (block %d, %d Ethereum of %d transactions): %s", h, len(want), len(eths), strings.Join(diffs, "; "))
			}
			p.Count("rpc-block-view")
		}
		if firstH == 0 {
			firstH = h
		}
		// ---- the logs view: range filters (eth_getLogs / eth_newFilter over a block range, the path with the bloom
		// pre-check) with SEVERAL alternatives per position, some of which occur in no block: every log of the consensus
		// results that matches must be returned, and nothing else
		for _, e := range eths {
			if e.obs.hasRcpt && e.obs.receipt != nil {
				for _, lg := range e.obs.receipt.Logs {
					cp := *lg
					cp.BlockNumber = uint64(h)
					allLogs = append(allLogs, &cp)
				}
			}
		}
		if len(allLogs) > 0 && (b%4 == 3 || b == nBlocks-1) {
			absentA := common.BytesToAddress([]byte{0xab, byte(b), 0x01})
			absentT := common.BytesToHash([]byte{0xcd, byte(b), 0x02})
			pick := allLogs[rng.Intn(len(allLogs))]
			var crits []struct {
				a []common.Address
				t [][]common.Hash
			}
			add := func(a []common.Address, t [][]common.Hash) {
				crits = append(crits, struct {
					a []common.Address
					t [][]common.Hash
				}{a, t})
			}
			add([]common.Address{pick.Address}, nil)
			add([]common.Address{absentA, pick.Address}, nil)
			add([]common.Address{pick.Address, absentA}, nil)
			add([]common.Address{absentA}, nil)
			if len(pick.Topics) > 0 {
				add(nil, [][]common.Hash{{pick.Topics[0]}})
				add(nil, [][]common.Hash{{absentT, pick.Topics[0]}})
				add([]common.Address{absentA, pick.Address}, [][]common.Hash{{pick.Topics[0], absentT}})
				add(nil, [][]common.Hash{{absentT}})
				if len(pick.Topics) > 1 {
					add(nil, [][]common.Hash{{}, {absentT, pick.Topics[1]}})
				}
			}
			// the recorder serves the blocks of this run only (a range that starts before them is answered with nothing,
			// like on a node that has pruned those heights)
			from := firstH
			if rng.Chance(1, 2) {
				from = h - int64(rng.Intn(4))
				if from < firstH {
					from = firstH
				}
			}
			var inRange []*ethtypes.Log
			for _, lg := range allLogs {
				if int64(lg.BlockNumber) >= from && int64(lg.BlockNumber) <= h {
					inRange = append(inRange, lg)
				}
			}
			for _, cr := range crits {
				want := rpcfilters.FilterLogs(inRange, nil, nil, cr.a, cr.t)
				got, err := rpcfilters.NewRangeFilter(serverCtx.Logger, backend, from, h, cr.a, cr.t).Logs(context.Background(), 1_000_000, 1_000_000)
				p.Count("range-filter")
				if err != nil {
					p.Oracle("C14-rpc-logs", "range log filter [%d,%d] failed: %v", from, h, err)
					continue
				}
				if len(got) != len(want) {
					p.Oracle("C14-rpc-logs", "range log filter [%d,%d] with %d address and %d topic alternatives returns %d logs, the consensus results contain %d matching logs", from, h, len(cr.a), len(cr.t), len(got), len(want))
				}
			}
		}
	}
	_ = evmserver.ServiceName
}

// E-indexersvc (C14, crash / restart): the real EVMIndexerService over the recorded blocks.  The service is
// killed before it has indexed a block with Ethereum transactions and a fresh service is started on the same
// database — once with a non-empty index (must converge to the index of an uninterrupted run) and once with
// an empty one.
func TestEngineIndexerService(t *testing.T) {
	rng := hx.NewRng(hx.Seed() ^ 0x5e7c)
	rounds := hx.EnvInt("VERIF_N", 2)
	p := hx.NewProto("indexersvc")
	defer p.Close()
	for round := 0; round < rounds; round++ {
		for _, nonEmpty := range []bool{true, false} {
			f := newBlockFixture(t, 0)
			c := f.c
			ws := f.senders()
			mem := sdkdb.NewMemDB()
			clientCtx := c.s.QueryClientsAt(0).ClientQueryCtx
			fake := newFakeCmt()
			clientCtx = clientCtx.WithClient(fake)
			newKV := func() *indexer.KVIndexer { return indexer.NewKVIndexer(mem, log.NewNopLogger(), clientCtx) }
			mkBlock := func(withEth bool, notify bool) []common.Hash {
				ctx := c.ctx()
				baseFee := c.s.ChainApp.FeeMarketKeeper().GetBaseFee(ctx).BigInt()
				var raw [][]byte
				var hashes []common.Hash
				if withEth {
					for i := 0; i < 1+rng.Intn(3); i++ {
						si := i % 4
						to := ws[(si+1)%4].GetEthAddress()
						bz, tx := c.buildEthTx(ethTxArgs{from: ws[si], typ: 0, nonce: c.seq(ctx, ws[si].GetCosmosAddress()), to: &to, value: big.NewInt(1), gas: 21000,
							gasPrice: new(big.Int).Add(baseFee, big.NewInt(7)), feeCap: big.NewInt(0), tip: big.NewInt(0)})
						raw = append(raw, bz)
						hashes = append(hashes, tx.Hash())
					}
				}
				res := c.finalize(raw)
				fake.add(c.app.LastBlockHeight(), raw, res, notify)
				return hashes
			}
			waitFor := func(cond func() bool) bool {
				for i := 0; i < 1200; i++ { // up to a minute: a loaded machine is slow, not wrong
					if cond() {
						return true
					}
					time.Sleep(50 * time.Millisecond)
				}
				return false
			}
			indexed := func(kv *indexer.KVIndexer, hs []common.Hash) bool {
				for _, h := range hs {
					if _, err := kv.GetByTxHash(h); err != nil {
						return false
					}
				}
				return true
			}
			mkBlock(false, false)
			mkBlock(false, false)
			kv1 := newKV()
			svc1 := evmserver.NewEVMIndexerService(kv1, fake)
			go func() { _ = svc1.Start() }()
			require.True(t, waitFor(kv1.IsReady), "service 1 never became ready")
			var first []common.Hash
			if nonEmpty {
				first = mkBlock(true, true)
				require.True(t, waitFor(func() bool { return indexed(kv1, first) }), "service 1 did not index the first block")
			}
			// the node commits a block with Ethereum transactions; the service dies before it hears of it
			_ = svc1.Stop()
			time.Sleep(120 * time.Millisecond)
			lost := mkBlock(true, false)
			mkBlock(false, false)
			// restart on the same database
			kv2 := newKV()
			svc2 := evmserver.NewEVMIndexerService(kv2, fake)
			go func() { _ = svc2.Start() }()
			require.True(t, waitFor(kv2.IsReady), "service 2 never became ready")
			last := mkBlock(true, true)
			okLast := waitFor(func() bool { return indexed(kv2, last) })
			okLost := indexed(kv2, lost)
			_ = svc2.Stop()
			p.Emit(fmt.Sprintf("svc round=%d nonEmptyIndexAtRestart=%d", round, b01(nonEmpty)), fmt.Sprintf("blockCommittedWhileDown=%d blockAfterRestart=%d", b01(okLost), b01(okLast)))
			if !okLast {
				p.Oracle("C14-restart-dead", "the restarted service did not index a new block")
			}
			if !okLost {
				if nonEmpty {
					p.Oracle("C14-restart-lost-block", "restart with a non-empty index never indexed a block committed while the service was down")
				} else {
					p.Oracle("C14-restart-empty-db-skips-block", "restart with an EMPTY index database jumped to the node's latest height: the block committed while the service was down is never indexed")
				}
			}
			c.s.Cleanup()
		}
	}
}

// traceRecorder: the EVM query client of the JSON-RPC backend, recording the trace requests it is asked to send
type traceRecorder struct {
	evmtypes.QueryClient
	last *evmtypes.QueryTraceTxRequest
}

func (t *traceRecorder) TraceTx(ctx context.Context, in *evmtypes.QueryTraceTxRequest, opts ...grpc.CallOption) (resp *evmtypes.QueryTraceTxResponse, err error) {
	// only the request is judged (which transactions the backend asks to be replayed first); it is not executed: the suite's
	// in-process query helper runs handlers on the live, unbranched context, so that a trace would leave its transient
	// counters in the state of the next block (a node serves queries on a branch of a committed version)
	t.last = in
	return nil, fmt.Errorf("trace request recorded, not executed")
}
