module verifharness

go 1.22.4

require (
	cosmossdk.io/errors v1.0.1
	cosmossdk.io/log v1.4.1
	cosmossdk.io/math v1.3.0
	cosmossdk.io/store v1.1.1
	github.com/EscanBE/evermint/v12 v12.0.0
	github.com/btcsuite/btcd/btcec/v2 v2.3.4
	github.com/cometbft/cometbft v0.38.12
	github.com/cometbft/cometbft-db v0.12.0
	github.com/cosmos/cosmos-db v1.0.2
	github.com/cosmos/cosmos-sdk v0.50.10
	github.com/cosmos/gogoproto v1.7.0
	github.com/ethereum/go-ethereum v1.10.26
	github.com/gorilla/websocket v1.5.3
	github.com/spf13/cobra v1.8.1
	github.com/stretchr/testify v1.9.0
	github.com/tyler-smith/go-bip39 v1.1.0
	golang.org/x/crypto v0.26.0
	google.golang.org/grpc v1.64.1
)

require (
	cloud.google.com/go v0.115.0 // indirect
	cloud.google.com/go/auth v0.6.0 // indirect
	cloud.google.com/go/auth/oauth2adapt v0.2.2 // indirect
	cloud.google.com/go/compute/metadata v0.3.0 // indirect
	cloud.google.com/go/iam v1.1.9 // indirect
	cloud.google.com/go/storage v1.41.0 // indirect
	cosmossdk.io/api v0.7.5 // indirect
	cosmossdk.io/client/v2 v2.0.0-beta.3 // indirect
	cosmossdk.io/collections v0.4.0 // indirect
	cosmossdk.io/core v0.11.1 // indirect
	cosmossdk.io/depinject v1.0.0 // indirect
	cosmossdk.io/tools/rosetta v0.2.1-0.20230613133644-0a778132a60f // indirect
	cosmossdk.io/x/circuit v0.1.1 // indirect
	cosmossdk.io/x/evidence v0.1.1 // indirect
	cosmossdk.io/x/feegrant v0.1.1 // indirect
	cosmossdk.io/x/tx v0.13.5 // indirect
	cosmossdk.io/x/upgrade v0.1.4 // indirect
	filippo.io/edwards25519 v1.1.0 // indirect
	github.com/99designs/keyring v1.2.1 // indirect
	github.com/DataDog/datadog-go v3.2.0+incompatible // indirect
	github.com/VictoriaMetrics/fastcache v1.6.0 // indirect
	github.com/aws/aws-sdk-go v1.44.224 // indirect
	github.com/beorn7/perks v1.0.1 // indirect
	github.com/bgentry/go-netrc v0.0.0-20140422174119-9fd32a8b3d3d // indirect
	github.com/bgentry/speakeasy v0.1.1-0.20220910012023-760eaf8b6816 // indirect
	github.com/bits-and-blooms/bitset v1.8.0 // indirect
	github.com/btcsuite/btcd v0.24.2 // indirect
	github.com/btcsuite/btcd/btcutil v1.1.6 // indirect
	github.com/btcsuite/btcd/chaincfg/chainhash v1.1.0 // indirect
	github.com/cenkalti/backoff/v4 v4.1.3 // indirect
	github.com/cespare/xxhash/v2 v2.3.0 // indirect
	github.com/chzyer/readline v1.5.1 // indirect
	github.com/cockroachdb/apd/v2 v2.0.2 // indirect
	github.com/cockroachdb/errors v1.11.3 // indirect
	github.com/cockroachdb/logtags v0.0.0-20230118201751-21c54148d20b // indirect
	github.com/cockroachdb/redact v1.1.5 // indirect
	github.com/coinbase/rosetta-sdk-go/types v1.0.0 // indirect
	github.com/cosmos/btcutil v1.0.5 // indirect
	github.com/cosmos/cosmos-proto v1.0.0-beta.5 // indirect
	github.com/cosmos/go-bip39 v1.0.0 // indirect
	github.com/cosmos/gogogateway v1.2.0 // indirect
	github.com/cosmos/iavl v1.2.0 // indirect
	github.com/cosmos/ibc-go/modules/capability v1.0.1 // indirect
	github.com/cosmos/ibc-go/v8 v8.5.1 // indirect
	github.com/cosmos/ics23/go v0.11.0 // indirect
	github.com/cosmos/rosetta-sdk-go v0.10.0 // indirect
	github.com/davecgh/go-spew v1.1.2-0.20180830191138-d8f796af33cc // indirect
	github.com/deckarep/golang-set v1.8.0 // indirect
	github.com/decred/dcrd/dcrec/secp256k1/v4 v4.2.0 // indirect
	github.com/desertbit/timer v0.0.0-20180107155436-c41aec40b27f // indirect
	github.com/dlclark/regexp2 v1.4.1-0.20201116162257-a2a8dda75c91 // indirect
	github.com/dop251/goja v0.0.0-20220405120441-9037c2b61cbf // indirect
	github.com/dvsekhvalnov/jose2go v1.6.0 // indirect
	github.com/edsrzf/mmap-go v1.0.0 // indirect
	github.com/emicklei/dot v1.6.1 // indirect
	github.com/fatih/color v1.15.0 // indirect
	github.com/felixge/httpsnoop v1.0.4 // indirect
	github.com/fsnotify/fsnotify v1.7.0 // indirect
	github.com/gballet/go-libpcsclite v0.0.0-20190607065134-2772fd86a8ff // indirect
	github.com/getsentry/sentry-go v0.27.0 // indirect
	github.com/go-kit/kit v0.12.0 // indirect
	github.com/go-kit/log v0.2.1 // indirect
	github.com/go-logfmt/logfmt v0.6.0 // indirect
	github.com/go-logr/logr v1.4.1 // indirect
	github.com/go-logr/stdr v1.2.2 // indirect
	github.com/go-sourcemap/sourcemap v2.1.3+incompatible // indirect
	github.com/go-stack/stack v1.8.0 // indirect
	github.com/godbus/dbus v0.0.0-20190726142602-4481cbc300e2 // indirect
	github.com/gogo/googleapis v1.4.1 // indirect
	github.com/gogo/protobuf v1.3.2 // indirect
	github.com/golang/groupcache v0.0.0-20210331224755-41bb18bfe9da // indirect
	github.com/golang/mock v1.6.0 // indirect
	github.com/golang/protobuf v1.5.4 // indirect
	github.com/golang/snappy v0.0.4 // indirect
	github.com/google/btree v1.1.2 // indirect
	github.com/google/go-cmp v0.6.0 // indirect
	github.com/google/orderedcode v0.0.1 // indirect
	github.com/google/s2a-go v0.1.7 // indirect
	github.com/google/uuid v1.6.0 // indirect
	github.com/googleapis/enterprise-certificate-proxy v0.3.2 // indirect
	github.com/googleapis/gax-go/v2 v2.12.5 // indirect
	github.com/gorilla/handlers v1.5.2 // indirect
	github.com/gorilla/mux v1.8.1 // indirect
	github.com/grpc-ecosystem/go-grpc-middleware v1.4.0 // indirect
	github.com/grpc-ecosystem/grpc-gateway v1.16.0 // indirect
	github.com/gsterjov/go-libsecret v0.0.0-20161001094733-a6f4afe4910c // indirect
	github.com/hashicorp/go-cleanhttp v0.5.2 // indirect
	github.com/hashicorp/go-getter v1.7.5 // indirect
	github.com/hashicorp/go-hclog v1.5.0 // indirect
	github.com/hashicorp/go-immutable-radix v1.3.1 // indirect
	github.com/hashicorp/go-metrics v0.5.3 // indirect
	github.com/hashicorp/go-plugin v1.5.2 // indirect
	github.com/hashicorp/go-safetemp v1.0.0 // indirect
	github.com/hashicorp/go-version v1.6.0 // indirect
	github.com/hashicorp/golang-lru v1.0.2 // indirect
	github.com/hashicorp/golang-lru/v2 v2.0.7 // indirect
	github.com/hashicorp/hcl v1.0.0 // indirect
	github.com/hashicorp/yamux v0.1.1 // indirect
	github.com/hdevalence/ed25519consensus v0.1.0 // indirect
	github.com/holiman/bloomfilter/v2 v2.0.3 // indirect
	github.com/holiman/uint256 v1.2.0 // indirect
	github.com/huandu/skiplist v1.2.0 // indirect
	github.com/huin/goupnp v1.0.3 // indirect
	github.com/iancoleman/strcase v0.3.0 // indirect
	github.com/improbable-eng/grpc-web v0.15.0 // indirect
	github.com/jackpal/go-nat-pmp v1.0.2 // indirect
	github.com/jmespath/go-jmespath v0.4.0 // indirect
	github.com/klauspost/compress v1.17.9 // indirect
	github.com/kr/pretty v0.3.1 // indirect
	github.com/kr/text v0.2.0 // indirect
	github.com/lib/pq v1.10.7 // indirect
	github.com/magiconair/properties v1.8.7 // indirect
	github.com/manifoldco/promptui v0.9.0 // indirect
	github.com/mattn/go-colorable v0.1.13 // indirect
	github.com/mattn/go-isatty v0.0.20 // indirect
	github.com/mattn/go-runewidth v0.0.9 // indirect
	github.com/minio/highwayhash v1.0.2 // indirect
	github.com/mitchellh/go-homedir v1.1.0 // indirect
	github.com/mitchellh/go-testing-interface v1.14.1 // indirect
	github.com/mitchellh/mapstructure v1.5.0 // indirect
	github.com/mtibben/percent v0.2.1 // indirect
	github.com/munnerz/goautoneg v0.0.0-20191010083416-a7dc8b61c822 // indirect
	github.com/oasisprotocol/curve25519-voi v0.0.0-20230904125328-1f23a7beb09a // indirect
	github.com/oklog/run v1.1.0 // indirect
	github.com/olekukonko/tablewriter v0.0.5 // indirect
	github.com/pelletier/go-toml/v2 v2.2.2 // indirect
	github.com/pkg/errors v0.9.1 // indirect
	github.com/pmezard/go-difflib v1.0.1-0.20181226105442-5d4384ee4fb2 // indirect
	github.com/prometheus/client_golang v1.20.1 // indirect
	github.com/prometheus/client_model v0.6.1 // indirect
	github.com/prometheus/common v0.55.0 // indirect
	github.com/prometheus/procfs v0.15.1 // indirect
	github.com/prometheus/tsdb v0.7.1 // indirect
	github.com/rcrowley/go-metrics v0.0.0-20201227073835-cf1acfcdf475 // indirect
	github.com/rjeczalik/notify v0.9.1 // indirect
	github.com/rogpeppe/go-internal v1.12.0 // indirect
	github.com/rs/cors v1.11.1 // indirect
	github.com/rs/zerolog v1.33.0 // indirect
	github.com/sagikazarmark/slog-shim v0.1.0 // indirect
	github.com/shirou/gopsutil v3.21.4-0.20210419000835-c7a38de76ee5+incompatible // indirect
	github.com/spf13/afero v1.11.0 // indirect
	github.com/spf13/cast v1.6.0 // indirect
	github.com/spf13/pflag v1.0.5 // indirect
	github.com/spf13/viper v1.19.0 // indirect
	github.com/status-im/keycard-go v0.0.0-20190316090335-8537d3370df4 // indirect
	github.com/subosito/gotenv v1.6.0 // indirect
	github.com/syndtr/goleveldb v1.0.1-0.20220721030215-126854af5e6d // indirect
	github.com/tendermint/go-amino v0.16.0 // indirect
	github.com/tidwall/btree v1.7.0 // indirect
	github.com/tidwall/gjson v1.14.4 // indirect
	github.com/tidwall/match v1.1.1 // indirect
	github.com/tidwall/pretty v1.2.0 // indirect
	github.com/tidwall/sjson v1.2.5 // indirect
	github.com/tklauser/go-sysconf v0.3.5 // indirect
	github.com/tklauser/numcpus v0.2.2 // indirect
	github.com/ulikunitz/xz v0.5.11 // indirect
	go.opencensus.io v0.24.0 // indirect
	go.opentelemetry.io/contrib/instrumentation/google.golang.org/grpc/otelgrpc v0.49.0 // indirect
	go.opentelemetry.io/contrib/instrumentation/net/http/otelhttp v0.49.0 // indirect
	go.opentelemetry.io/otel v1.24.0 // indirect
	go.opentelemetry.io/otel/metric v1.24.0 // indirect
	go.opentelemetry.io/otel/trace v1.24.0 // indirect
	golang.org/x/exp v0.0.0-20240613232115-7f521ea00fb8 // indirect
	golang.org/x/net v0.28.0 // indirect
	golang.org/x/oauth2 v0.21.0 // indirect
	golang.org/x/sync v0.8.0 // indirect
	golang.org/x/sys v0.24.0 // indirect
	golang.org/x/term v0.23.0 // indirect
	golang.org/x/text v0.17.0 // indirect
	golang.org/x/time v0.5.0 // indirect
	google.golang.org/api v0.186.0 // indirect
	google.golang.org/genproto v0.0.0-20240701130421-f6361c86f094 // indirect
	google.golang.org/genproto/googleapis/api v0.0.0-20240624140628-dc46fd24d27d // indirect
	google.golang.org/genproto/googleapis/rpc v0.0.0-20240709173604-40e1e62336c5 // indirect
	google.golang.org/protobuf v1.34.2 // indirect
	gopkg.in/ini.v1 v1.67.0 // indirect
	gopkg.in/yaml.v2 v2.4.0 // indirect
	gopkg.in/yaml.v3 v3.0.1 // indirect
	gotest.tools/v3 v3.5.1 // indirect
	nhooyr.io/websocket v1.8.6 // indirect
	pgregory.net/rapid v1.1.0 // indirect
	sigs.k8s.io/yaml v1.4.0 // indirect
)

replace github.com/EscanBE/evermint/v12 => /repo

replace (
	// use cosmos fork of keyring
	github.com/99designs/keyring => github.com/cosmos/keyring v1.2.0
	// go-ethereum fork with custom-precompiled-contract support
	github.com/ethereum/go-ethereum => github.com/EscanBE/go-ethereum-for-evermint v1.10.28
	// Security Advisory https://github.com/advisories/GHSA-h395-qcrw-5vmq
	github.com/gin-gonic/gin => github.com/gin-gonic/gin v1.9.1
	// replace broken goleveldb
	github.com/syndtr/goleveldb => github.com/syndtr/goleveldb v1.0.1-0.20210819022825-2ae1ddf74ef7
)
