// Package hx holds the plumbing shared by all correspondence engines:
// one PRNG state per run (splitmix64 from VERIF_SEED), the line-protocol writers,
// and panic capture.
package hx

import (
	"bufio"
	"fmt"
	"math/big"
	"os"
	"path/filepath"
	"strconv"
	"strings"
)

// Rng is splitmix64; every random choice of an engine derives from one state so that a
// disagreement replays exactly from (seed, engine, n).
type Rng struct{ s uint64 }

func NewRng(seed uint64) *Rng { return &Rng{s: seed} }

func (r *Rng) U64() uint64 {
	r.s += 0x9e3779b97f4a7c15
	z := r.s
	z = (z ^ (z >> 30)) * 0xbf58476d1ce4e5b9
	z = (z ^ (z >> 27)) * 0x94d049bb133111eb
	return z ^ (z >> 31)
}

func (r *Rng) Intn(n int) int {
	if n <= 0 {
		return 0
	}
	return int(r.U64() % uint64(n))
}

func (r *Rng) Bool() bool { return r.U64()&1 == 1 }

// Chance returns true with probability num/den.
func (r *Rng) Chance(num, den int) bool { return r.Intn(den) < num }

// BigBits returns a uniformly random non-negative integer of at most `bits` bits.
func (r *Rng) BigBits(bits int) *big.Int {
	x := new(big.Int)
	for i := 0; i < (bits+63)/64; i++ {
		x.Lsh(x, 64)
		x.Or(x, new(big.Int).SetUint64(r.U64()))
	}
	if bits%64 != 0 || bits == 0 {
		mask := new(big.Int).Sub(new(big.Int).Lsh(big.NewInt(1), uint(bits)), big.NewInt(1))
		x.And(x, mask)
	}
	return x
}

// Pick returns one element.
func Pick[T any](r *Rng, xs []T) T { return xs[r.Intn(len(xs))] }

// Env

func Seed() uint64 {
	if s := os.Getenv("VERIF_SEED"); s != "" {
		if v, err := strconv.ParseUint(s, 10, 64); err == nil {
			return v
		}
		if v, err := strconv.ParseInt(s, 10, 64); err == nil {
			return uint64(v)
		}
	}
	return 1
}

func EnvInt(name string, def int) int {
	if s := os.Getenv(name); s != "" {
		if v, err := strconv.Atoi(s); err == nil {
			return v
		}
	}
	return def
}

func OutDir() string {
	d := os.Getenv("VERIF_OUT")
	if d == "" {
		d = filepath.Join(os.TempDir(), "verif-out")
	}
	_ = os.MkdirAll(d, 0o755)
	return d
}

// Proto writes the two streams of the line protocol: ops (input of the Lean driver) and
// impl (canonical observations of the real code), plus an optional oracle stream with
// implementation-side law violations.
type Proto struct {
	ops, impl, oracle *bufio.Writer
	fo, fi, fr        *os.File
	N                 int
	Hist              map[string]int
}

func NewProto(engine string) *Proto {
	d := OutDir()
	mk := func(suffix string) (*os.File, *bufio.Writer) {
		f, err := os.Create(filepath.Join(d, engine+"."+suffix))
		if err != nil {
			panic(err)
		}
		return f, bufio.NewWriterSize(f, 1<<16)
	}
	p := &Proto{Hist: map[string]int{}}
	p.fo, p.ops = mk("ops")
	p.fi, p.impl = mk("impl")
	p.fr, p.oracle = mk("oracle")
	return p
}

// Emit writes one op line and its observation line. Lines must not contain newlines.
func (p *Proto) Emit(op string, obs string) {
	op = strings.ReplaceAll(op, "\n", " ")
	obs = strings.ReplaceAll(obs, "\n", " ")
	fmt.Fprintln(p.ops, op)
	fmt.Fprintln(p.impl, obs)
	p.N++
}

// Count records a branch / class hit for the distribution printed into evidence.
func (p *Proto) Count(class string) { p.Hist[class]++ }

// Oracle records an implementation-side violation of the property's observable law.
// The line format is `<finding-signature-class> <free text>`.
func (p *Proto) Oracle(class string, format string, a ...any) {
	fmt.Fprintf(p.oracle, "%s %s\n", class, strings.ReplaceAll(fmt.Sprintf(format, a...), "\n", " "))
	p.oracle.Flush()
}

func (p *Proto) Flush() { p.ops.Flush(); p.impl.Flush(); p.oracle.Flush() }

func (p *Proto) Close() {
	p.Flush()
	// distribution
	d := OutDir()
	f, err := os.Create(filepath.Join(d, filepath.Base(p.fo.Name())[:len(filepath.Base(p.fo.Name()))-4]+".hist"))
	if err == nil {
		for k, v := range p.Hist {
			fmt.Fprintf(f, "%s %d\n", k, v)
		}
		f.Close()
	}
	p.fo.Close()
	p.fi.Close()
	p.fr.Close()
}

// Catch runs f and reports a recovered panic value (nil if none).
func Catch(f func()) (pv any) {
	defer func() {
		if r := recover(); r != nil {
			pv = r
		}
	}()
	f()
	return nil
}

// PanicClass maps a recovered panic to a small enum used on the wire.
func PanicClass(pv any) string {
	s := fmt.Sprint(pv)
	switch {
	case strings.Contains(s, "division by zero"):
		return "divzero"
	case strings.Contains(s, "out of bound"), strings.Contains(s, "overflow"):
		return "overflow"
	default:
		return "other:" + strings.ReplaceAll(firstN(s, 60), " ", "_")
	}
}

func firstN(s string, n int) string {
	if len(s) > n {
		return s[:n]
	}
	return s
}
