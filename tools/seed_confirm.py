#!/usr/bin/env python3
"""Confirm a seeded change in a scratch worktree: applies, builds, demo fails with it, the existing suite
still passes with it, demo passes without it.  usage: seed_confirm.py <worktree> <seed-dir> [--no-suite]"""
import sys, os, json, subprocess, shutil, re, glob, time
# every seeded variant of /repo compiles anew: keep the shared Go build cache from filling the disk
subprocess.run("find /root/.cache/go-build -type f -mmin +180 -delete 2>/dev/null", shell=True)
wt, sd = sys.argv[1], sys.argv[2]
no_suite = '--no-suite' in sys.argv
env = dict(os.environ, GOFLAGS='-mod=mod', GOPROXY='off', GOSUMDB='off', GOTOOLCHAIN='local')
def sh(cmd, cwd=wt, timeout=3000):
    p = subprocess.run(cmd, shell=True, cwd=cwd, env=env, stdout=subprocess.PIPE, stderr=subprocess.STDOUT, timeout=timeout)
    return p.returncode, p.stdout.decode(errors='replace')
meta = json.load(open(os.path.join(sd, 'meta.json')))
res = dict(seed=sd, property=meta.get('property'))
def clean():
    sh('git checkout -- . && git clean -fdq')
clean()
rc, out = sh('git apply ' + os.path.join(sd, 'patch.diff'))
res['applies'] = rc == 0
rc, out = sh('go build ./...')
res['builds'] = rc == 0
demo_src = os.path.join(sd, meta['demo_file'])
dest = os.path.join(wt, meta['demo_dest'])
def run_demo():
    os.makedirs(os.path.dirname(dest), exist_ok=True)
    shutil.copy(demo_src, dest)
    cmd = meta['demo_cmd']
    rc, out = sh(cmd)
    os.remove(dest)
    return rc, out
rc, out = run_demo()
res['demo_fails_with_patch'] = rc != 0
res['demo_out_with'] = out[-1500:]
if not no_suite:
    t0 = time.time()
    rc, out = sh('go test -mod=mod -vet=off -count=1 -timeout 25m ./... 2>&1 | grep -v "^ok\\|no test files"', timeout=3000)
    fails = [l for l in out.split('\n') if l.startswith('FAIL') or l.startswith('--- FAIL')]
    res['suite_fail_lines'] = fails[:20]
    res['suite_ok'] = all(('client' in l or 'TestInitConfigNonNotExistError' in l or l.strip() == 'FAIL') for l in fails)
    res['suite_s'] = round(time.time() - t0)
clean()
rc, out = run_demo()
res['demo_passes_without_patch'] = rc == 0
res['demo_out_without'] = out[-600:]
clean()
for d in glob.glob('/tmp/' + '-_' + wt.strip('/').replace('/', '_') + '_*'):
    shutil.rmtree(d, ignore_errors=True)
tag = 'r2' if '/out2/' in sd else ('r3' if '/out3/' in sd else ('r4' if '/out4/' in sd else ''))
json.dump(res, open(os.path.join('/tmp/mut/confirm', os.path.basename(os.path.dirname(sd.rstrip('/'))) + '-' + tag + os.path.basename(sd.rstrip('/')) + '.json'), 'w'), indent=1)
print(json.dumps({k: v for k, v in res.items() if not k.startswith('demo_out')}))
