#!/usr/bin/env python3
"""Store confirmed seeded changes under /verif/seeded/<prop>-<k>/ (patch.diff, demonstration, meta.json)."""
import sys, os, json, shutil, glob
src_root = sys.argv[1] if len(sys.argv) > 1 else '/tmp/mut/out'
tag = 'r2' if src_root.rstrip('/').endswith('out2') else ('r3' if src_root.rstrip('/').endswith('out3') else ('r4' if src_root.rstrip('/').endswith('out4') else ''))   # second-round seeds are stored as <prop>-r2m<k>
for d in sorted(glob.glob(os.path.join(src_root, 'C*', 'm*'))):
    prop, k = d.split('/')[-2], d.split('/')[-1]
    conf = '/tmp/mut/confirm/%s-%s%s.json' % (prop, tag, k)
    if not os.path.exists(conf):
        continue
    c = json.load(open(conf))
    dst = '/verif/seeded/%s-%s%s' % (prop, tag, k)
    os.makedirs(dst, exist_ok=True)
    meta = json.load(open(os.path.join(d, 'meta.json')))
    shutil.copy(os.path.join(d, 'patch.diff'), dst)
    shutil.copy(os.path.join(d, meta['demo_file']), dst)
    old = {}
    if os.path.exists(os.path.join(dst, 'meta.json')):
        old = json.load(open(os.path.join(dst, 'meta.json')))
    out = dict(property=prop, breaks=meta.get('summary'), needs_to_manifest=meta.get('needs_to_manifest'),
               demo_file=meta['demo_file'], demo_dest=meta.get('demo_dest'), demo_cmd=meta.get('demo_cmd'),
               author='independent sub-agent given only the property text and a scratch worktree',
               confirmed_by_me=dict(applies=c.get('applies'), builds=c.get('builds'), demo_fails_with_patch=c.get('demo_fails_with_patch'),
                                    existing_suite_passes_with_patch=c.get('suite_ok'), demo_passes_without_patch=c.get('demo_passes_without_patch'),
                                    how='tools/seed_confirm.py in a scratch worktree: git apply; go build ./...; demo (fails); go test ./... (only the known client failure); checkout; demo (passes)',
                                    note=old.get('confirmed_by_me', {}).get('note', '')),
               detection=old.get('detection', {}))
    json.dump(out, open(os.path.join(dst, 'meta.json'), 'w'), indent=1)
    print('stored', dst)
