#!/usr/bin/env python3
"""Compare a `go test -json` log against /root/.vp/BASELINE.json stable_pass list.
usage: baseline_cmp.py <gotest.json>"""
import json, sys
base = json.load(open('/root/.vp/BASELINE.json'))
stable = set(base['stable_pass'])
res = {}
for line in open(sys.argv[1], errors='replace'):
    line = line.strip()
    if not line.startswith('{'):
        continue
    try:
        e = json.loads(line)
    except Exception:
        continue
    if e.get('Action') in ('pass', 'fail', 'skip') and e.get('Test'):
        res[e['Package'] + '::' + e['Test']] = e['Action']
missing = [t for t in stable if res.get(t) != 'pass']
print('stable_pass=%d seen_pass=%d not_passing=%d' % (len(stable), sum(1 for t in stable if res.get(t) == 'pass'), len(missing)))
for t in sorted(missing)[:60]:
    print('  NOT PASS:', t, res.get(t))
fails = [t for t, a in res.items() if a == 'fail']
print('failing tests overall:', len(fails))
for t in sorted(fails)[:40]:
    print('  FAIL:', t, '(in stable)' if t in stable else '(not in stable)')
sys.exit(1 if missing else 0)
