#!/usr/bin/env python3
"""Run registered checks against ONE patch in isolation (a copy of /verif and a scratch worktree of /repo), before the
seed is stored.  usage: seed_try.py <patch.diff> <Cxx>[,Cyy] [--tier quick] [--work /tmp/seedtry]"""
import sys, os, subprocess, re, time, argparse
ap = argparse.ArgumentParser()
ap.add_argument('patch'); ap.add_argument('props')
ap.add_argument('--tier', default='quick'); ap.add_argument('--work', default='/tmp/seedtry')
a = ap.parse_args()
W = a.work; V, R = os.path.join(W, 'verif'), os.path.join(W, 'repo')
os.makedirs(W, exist_ok=True)
def sh(cmd, cwd=None, env=None):
    p = subprocess.run(cmd, shell=True, cwd=cwd, env=env, stdout=subprocess.PIPE, stderr=subprocess.STDOUT)
    return p.returncode, p.stdout.decode(errors='replace')
if not os.path.exists(R):
    sh('git -C /repo worktree add -q --detach %s HEAD' % R)
sh('git checkout -q --detach $(git -C /repo rev-parse HEAD) && git checkout -q -- . && git clean -fdq', cwd=R)
sh('rsync -a --delete --exclude .git --exclude replays --exclude .cache/run %s/ %s/' % (os.environ.get('VERIF_SRC', '/verif'), V))
gm = os.path.join(V, 'harness', 'go.mod')
txt = open(gm).read().replace('=> /repo', '=> ' + R)
open(gm, 'w').write(txt)
rc, out = sh('git apply %s' % os.path.abspath(a.patch), cwd=R)
if rc != 0:
    print('PATCH DOES NOT APPLY', out[-300:]); sys.exit(2)
env = dict(os.environ, VERIF_REPO=R)
for p in a.props.split(','):
    t0 = time.time()
    rc, out = sh('./check %s --tier %s' % (p, a.tier), cwd=V, env=env)
    vio = [l for l in out.split('\n') if l.startswith('VIOLATION')]
    why = [l[8:] for l in out.split('\n') if re.match(r'\[check\] (oracle|correspondence|proof|tie) ', l)]
    print(os.path.basename(os.path.dirname(os.path.abspath(a.patch))), p, 'DETECTED' if vio else 'missed', '%ds' % (time.time() - t0), '|', (why[0][:220] if why else ''), flush=True)
sh('git checkout -q -- . && git clean -fdq', cwd=R)
