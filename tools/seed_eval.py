#!/usr/bin/env python3
"""Evaluate registered checks against seeded changes in ISOLATION: a copy of /verif and a scratch git
worktree of /repo under /tmp/seedeval (the harness's replace directive is pointed at the worktree), so that
/repo and /verif are untouched and other work can go on.  Results -> seeded/<id>/meta.json 'detection'.
usage: seed_eval.py [--tier quick] [--only C03-m1,...] [--extra C04-m3=C02,C15]"""
import sys, os, json, subprocess, shutil, glob, re, argparse, time
# every seeded variant of /repo compiles anew: keep the shared Go build cache from filling the disk
subprocess.run("find /root/.cache/go-build -type f -mmin +180 -delete 2>/dev/null", shell=True)
ap = argparse.ArgumentParser()
ap.add_argument('--tier', default='quick')
ap.add_argument('--only', default='')
ap.add_argument('--extra', default='')
ap.add_argument('--work', default='/tmp/seedeval')
args = ap.parse_args()
W = args.work
V, R = os.path.join(W, 'verif'), os.path.join(W, 'repo')
os.makedirs(W, exist_ok=True)
def sh(cmd, cwd=None, env=None):
    p = subprocess.run(cmd, shell=True, cwd=cwd, env=env, stdout=subprocess.PIPE, stderr=subprocess.STDOUT)
    return p.returncode, p.stdout.decode(errors='replace')
if not os.path.exists(R):
    sh('git -C /repo worktree add -q --detach %s HEAD' % R)
sh('git checkout -q --detach $(git -C /repo rev-parse HEAD) && git checkout -q -- . && git clean -fdq', cwd=R)
sh('rsync -a --delete --exclude .git --exclude replays --exclude .cache/run /verif/ %s/' % V)
gm = os.path.join(V, 'harness', 'go.mod')
s = open(gm).read().replace('=> /repo', '=> ' + R)
open(gm, 'w').write(s)
extra = dict(x.split('=') for x in args.extra.split(';') if x)
env = dict(os.environ, VERIF_REPO=R)
seeds = sorted(glob.glob('/verif/seeded/C*'))
if args.only:
    seeds = [s for s in seeds if os.path.basename(s) in args.only.split(',')]
for sd in seeds:
    sid = os.path.basename(sd)
    meta = json.load(open(os.path.join(sd, 'meta.json')))
    props = [meta['property']] + [p for p in extra.get(sid, '').split(',') if p]
    sh('git checkout -q -- . && git clean -fdq', cwd=R)
    rc, out = sh('git apply %s' % os.path.join(sd, 'patch.diff'), cwd=R)
    if rc != 0:
        print(sid, 'PATCH DOES NOT APPLY', out[-300:]); continue
    det = meta.get('detection', {})
    for p in props:
        t0 = time.time()
        rc, out = sh('./check %s --tier %s' % (p, args.tier), cwd=V, env=env)
        vio = [l for l in out.split('\n') if l.startswith('VIOLATION')]
        why = [l[8:] for l in out.split('\n') if re.match(r'\[check\] (oracle|correspondence|proof|tie) ', l)]
        det[p + ':' + args.tier] = dict(detected=bool(vio), exit=rc, line=(vio[0].replace(V, '/verif') if vio else ''), by=[w[:260] for w in why[:3]],
                                       wall_s=round(time.time() - t0), verif_commit=subprocess.run('git -C /verif rev-parse --short HEAD', shell=True, stdout=subprocess.PIPE).stdout.decode().strip())
        print(sid, p, 'DETECTED' if vio else 'missed', '|', (why[0][:150] if why else ''), flush=True)
    meta['detection'] = det
    json.dump(meta, open(os.path.join(sd, 'meta.json'), 'w'), indent=1)
sh('git checkout -q -- . && git clean -fdq', cwd=R)
