#!/bin/sh
# Runs registered checks against a seeded change: apply to /repo, run, undo.  usage: seed_check.sh <patch.diff> <Cxx> [<Cyy> ...]
set -u
patch="$1"; shift
cd /repo || exit 2
if [ -n "$(git status --porcelain)" ]; then echo "/repo not clean"; exit 2; fi
git apply "$patch" || { echo "patch does not apply"; exit 2; }
cd /verif
for p in "$@"; do
  echo "=== $p against $patch"
  ./check "$p" --tier "${TIER:-quick}" 2>&1 | grep -E "^VIOLATION|^KNOWN-FINDING|^\[check\] (oracle|correspondence|proof|tie)|\[check\] C" | cut -c1-400
  echo "exit=$?"
done
git -C /repo checkout -- .
git -C /verif checkout -- evidence 2>/dev/null
git -C /repo status --porcelain
