#!/usr/bin/env python3
"""Writes /verif/MANIFEST.json from tools/props.py (single source of truth for the checks)."""
import json, os, sys
ROOT = os.path.dirname(os.path.dirname(os.path.abspath(__file__)))
sys.path.insert(0, os.path.join(ROOT, 'tools'))
import props as P

ids = [json.loads(l)['id'] for l in open(os.path.join(ROOT, 'properties.jsonl'))]
checks = []
for pid in ids:
    if pid not in P.PROPS or P.PROPS[pid].get('disabled'):
        continue
    c = P.PROPS[pid]
    checks.append(dict(
        property_id=pid,
        quick_cmd='./check %s --tier quick' % pid,
        thorough_cmd='./check %s --tier thorough' % pid,
        evidence_file='/verif/evidence/%s.json' % pid,
        replay_cmd_template='cat {path}   # every replay file holds the seed, the op line(s) and the exact ./check command that reproduces it',
        engine=','.join(e['name'] for e in c['engines']) or 'lean-only',
        level_claimed=dict(category='proof', text=c.get('level_text', P.LEVEL_TEXT.get(pid, '')), design_ref=c.get('design_ref', 'DESIGN.md §5 ' + pid)),
        level_note=c.get('level_note', 'Trusted: Lean kernel + propext/Classical.choice/Quot.sound; factgen; the correspondence harness; SDK/geth internals are modelled, not verified.'),
        technique=c.get('technique', 'Lean 4 theorems over a hand-written executable model + regenerated fact obligations + differential correspondence against the real code')
                  + (' + Go functions translated to Lean on every run (go2lean, Facts/GenCode.lean) with kernel-checked tie theorems to the model (' + ', '.join(m for m in c['lean_modules'] if m.startswith('Facts.Tie') and m != 'Facts.TieMeta') + ')'
                     if any(m.startswith('Facts.Tie') and m != 'Facts.TieMeta' for m in c['lean_modules']) else ''),
    ))
na = []
for pid in ids:
    if pid not in [c['property_id'] for c in checks]:
        na.append(dict(property_id=pid, reason=P.NOT_APPLICABLE.get(pid, 'check not built yet in this round (work in progress; see DESIGN.md §5)')))
m = dict(
    version=1,
    setup_cmd='./setup.sh',
    hooks=dict(guard='verif', enable='go test -tags verif (the harness module /verif/harness builds /repo through a replace directive)',
               baseline_off_cmd='cd /repo && go test -mod=mod -json -vet=off -count=1 -timeout 25m ./...',
               source_commits=P.HOOK_COMMITS, add_only=True),
    engines=[dict(name=n, path='/verif/harness/engines', serves_properties=sorted(ps), kind_free_text=k) for n, (ps, k) in sorted(P.engine_index().items())],
    checks=checks,
    notes='Every check: regenerate facts from /repo, lake build the property theorems + axiom audit, build the Go harness from /repo (-tags verif), run engines, diff against the Lean driver, classify against known_findings.json. See DESIGN.md.',
    not_applicable=na,
)
json.dump(m, open(os.path.join(ROOT, 'MANIFEST.json'), 'w'), indent=1)
print('checks:', [c['property_id'] for c in checks], 'not claimed:', [n['property_id'] for n in na])
