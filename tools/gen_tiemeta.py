#!/usr/bin/env python3
"""Rewrites lean/EvermintModel/Facts/TieMeta.lean (the pinned lists of translated functions and of uninterpreted items)
from the current Facts/GenCode.lean.  Run by hand after the list of translation targets was changed on purpose; the file
is then a committed expectation that every check run compares the regenerated GenCode.lean against."""
import re, os
root = os.path.dirname(os.path.dirname(os.path.abspath(__file__)))
gc = open(os.path.join(root, 'lean/EvermintModel/Facts/GenCode.lean')).read()
tr = re.search(r'def translated : List String := (\[.*?\])\n', gc).group(1)
un = re.search(r'def uninterpreted : List String := (\[.*\])\n', gc).group(1)
def wrap(lst):
    items = re.findall(r'"(?:[^"\\]|\\.)*"', lst)
    out = []; line = '      '
    for i, it in enumerate(items):
        tok = it + (', ' if i < len(items) - 1 else '')
        if len(line) + len(tok) > 118 and line.strip():
            out.append(line.rstrip()); line = '      '
        line += tok
    out.append(line.rstrip())
    return '[' + '\n'.join(out).strip() + ']'
open(os.path.join(root, 'lean/EvermintModel/Facts/TieMeta.lean'), 'w').write('''import EvermintModel.Facts.GenCode
/-! What the translator produced on this run: every target function was translated, and the only conditions, calls and
constructed objects left uninterpreted (inputs of the generated definitions, or names of accessors) are the ones listed —
anything else is a changed obligation. -/
namespace Evermint.Facts.TieMeta
open Evermint.GenCode

theorem fact_translated_all :
    translated = %s := by
  decide +kernel

theorem fact_uninterpreted :
    uninterpreted = %s := by
  decide +kernel

end Evermint.Facts.TieMeta
''' % (wrap(tr), wrap(un)))
