#!/bin/sh
# Runs the checks on a COPY of /verif (against /repo itself), so that the working tree can be edited meanwhile.
# usage: sweep_copy.sh <tier> <seed> [props...]   -> log on stdout; the copy lives in /tmp/sweep/verif
tier=$1; seed=$2; shift 2
props=${*:-C01 C02 C03 C04 C05 C06 C07 C08 C09 C10 C11 C12 C13 C14 C15 C16 C17 C18 C19 C20}
mkdir -p /tmp/sweep
rsync -a --delete --exclude .git --exclude replays --exclude .cache/run /verif/ /tmp/sweep/verif/
cd /tmp/sweep/verif
for p in $props; do
  VERIF_SEED=$seed ./check $p --tier $tier 2>&1 | grep -v "^KNOWN-FINDING" | tail -3 | sed "s/^/seed=$seed /"
done
