"""Per-property configuration of ./check (which Lean modules, which theorems must exist and be
axiom-clean, which engines tie the model to /repo)."""

TRUSTED_BASE = [
    "Lean 4.33 kernel (thorough tier: re-checked with leanchecker); axioms allowed: propext, Classical.choice, Quot.sound",
    "factgen (go/packages AST+types extraction) and the runtime fact printer in the harness extract what they claim",
    "the Go correspondence harness and its canonicalisation; generator coverage bounds what a divergence search can see",
    "modelled, not verified: Go semantics/runtime, Cosmos-SDK BaseApp.runTx/cachekv/iavl/x/bank/x/auth/x/staking, CometBFT, the go-ethereum interpreter, gas tables, RLP, ABI, secp256k1, Keccak",
]


def nontrivial(engine, opline):
    """A case counts as non-trivial when it is not one of the degenerate shapes of its engine."""
    t = opline.split()
    if engine == 'feemarket':
        # non-trivial: positive base fee and gas consumption different from 0
        return len(t) == 5 and t[1] != '0' and t[3] != '0'
    if engine == 'statedb':
        return bool(t) and not t[0].startswith('w.') and t[0] != 'new'
    return True


def divergence_matches(finding, engine, d):
    """Does the first diverging line match the signature of a listed known finding?"""
    sig = finding.get('divergence')
    if not sig or sig.get('engine') != engine:
        return False
    import re
    return bool(re.search(sig.get('op_regex', '.*'), d['op'])) and bool(re.search(sig.get('impl_regex', '.*'), d['impl']))


PROPS = {
    'C03': dict(
        lean_modules=['Model.CDbGeneric', 'Model.World', 'Model.StateDB', 'Proofs.CDb', 'Properties.C03'],
        facts=['*'],
        theorems=['C03_revert_exact', 'C03_no_trace', 'C03_ids_stable', 'C03_calltree', 'C03_vmerr_residue',
                  'execNode_spec', 'execList_spec', 'framed_run', 'revertGo_frame', 'revert_ok', 'snapshot_ok', 'upd_ok'],
        engines=[dict(name='statedb', test='TestEngineStatedb', quick=6000, thorough=120000, thorough_seeds=3)],
        rule='random cStateDb API sequences (19 op kinds incl. precompile-style bank/allowance writes through GetCurrentContext, nested snapshot/revert incl. invalid ids, commit) on a real chain context with base/contract/module/vesting fixtures; full getter dump after every op; non-trivial = a real op line (not world set-up); distinct by (op line) hash',
        assumptions=['cachekv CacheContext is a value copy of its parent for reads and isolates writes until write() (SDK contract; exercised by every revert in E-statedb)',
                     'the interpreter uses the StateDB only as snapshot; body; revert-on-failure (evm.Call/Create) — call-tree theorem; arbitrary API sequences are covered by C03_revert_exact'],
    ),
    'C09': dict(
        lean_modules=['Model.FeeMarket', 'Properties.C09', 'Facts.C09'],
        facts=['*'],
        theorems=['C09_unchanged_at_target', 'C09_increase_exact', 'C09_decrease_exact', 'C09_increase_strict',
                  'C09_decrease_le', 'C09_ge_floor_min', 'C09_total_no_divzero', 'C09_total', 'C09_keeper_exact',
                  'C09_zero_target_keeps', 'C09_admission', 'C09_admission_implies_precheck',
                  'fact_elasticity', 'fact_changeDenom', 'fact_london_always', 'fact_feemarket_endblock_last', 'fact_maxgas_guard'],
        engines=[dict(name='feemarket', test='TestEngineFeemarket', quick=20000, thorough=400000, thorough_seeds=3, functional=True)],
        rule='tuples (baseFee, MaxGas|nil, gasConsumed, minGasPrice mantissa) drawn from edge classes (0,1,2^63,2^256-1, around target/limit, MaxGas in {-1,0,1,2,3,..}) and uniform bit-lengths; non-trivial = baseFee>0 and gasConsumed>0; distinct by op line hash',
        assumptions=['geth CalcBaseFee is the compiled fork function (exercised, constants regenerated)',
                     'admission theorem is about the fee checker arithmetic; that the checker runs for every delivered tx is C07/E-ante'],
    ),
}

NOT_APPLICABLE = {}
HOOK_COMMITS = []


def engine_index():
    idx = {}
    for pid, c in PROPS.items():
        for e in c['engines']:
            ps, k = idx.setdefault(e['name'], (set(), e.get('kind', 'differential correspondence engine (real code in-process vs Lean driver)')))
            ps.add(pid)
    return idx
