"""Per-property configuration of ./check (which Lean modules, which theorems must exist and be
axiom-clean, which engines tie the model to /repo)."""

TRUSTED_BASE = [
    "Lean 4.33 kernel (thorough tier: re-checked with leanchecker); axioms allowed: propext, Classical.choice, Quot.sound",
    "factgen (go/packages AST+types extraction) and the runtime fact printer in the harness extract what they claim",
    "the Go correspondence harness and its canonicalisation; generator coverage bounds what a divergence search can see",
    "modelled, not verified: Go semantics/runtime, Cosmos-SDK BaseApp.runTx/cachekv/iavl/x/bank/x/auth/x/staking, CometBFT, the go-ethereum interpreter, gas tables, RLP, ABI, secp256k1, Keccak",
]


def nontrivial(engine, opline):
    """A case counts as non-trivial when it is not one of the degenerate shapes of its engine."""
    t = opline.split()
    if engine == 'feemarket':
        # non-trivial: positive base fee and gas consumption different from 0
        return len(t) == 5 and t[1] != '0' and t[3] != '0'
    if engine == 'feecheck':
        return bool(t) and t[0] == 'fc'
    if engine == 'block':
        # non-trivial: a transaction line that was admitted (not a begin/end line, not refused at admission)
        return bool(t) and t[0] in ('eth', 'cos')
    if engine == 'indexer':
        return bool(t) and t[0] == 'idx'
    if engine == 'indexersvc':
        return bool(t) and t[0] == 'svc'
    if engine == 'binsearch':
        return bool(t) and t[0] == 'bs' and ('0' in t[3] and '1' in t[3])
    if engine == 'query':
        return bool(t) and t[0] == 'q'
    if engine == 'geth':
        return bool(t) and t[0] == 'msg'
    if engine == 'genesis':
        return bool(t) and t[0] == 'gen'
    if engine == 'reexec':
        return bool(t) and t[0] == 'blk' and 'n=0' not in t
    if engine == 'cpc':
        return bool(t) and t[0] in ('cgen', 'cdep', 'cstk', 'cupd', 'cdis')
    if engine == 'calltree':
        return bool(t) and t[0] == 'tree'
    if engine == 'erc20':
        return bool(t) and t[0] in ('erc', 'esend')
    if engine == 'logfilter':
        return bool(t) and t[0] == 'lf' and 'logs=-' not in t
    if engine == 'crash':
        return bool(t) and t[0] == 'crash'
    if engine == 'conc':
        return bool(t) and t[0] == 'conc'
    if engine == 'crypto':
        return bool(t) and t[0] in ('keccak', 'eip712', 'docok')
    if engine == 'staking':
        return bool(t) and t[0] == 'stk'
    if engine == 'vauth':
        return bool(t) and t[0] == 'vsubmit'
    if engine == 'ante':
        return bool(t) and t[0] == 'ante'
    if engine == 'genfuncs':
        return bool(t) and t[0] in ('tik', 'gm')
    if engine == 'statedb':
        return bool(t) and not t[0].startswith('w.') and t[0] != 'new'
    return True


def divergence_matches(finding, engine, d):
    """Does the first diverging line match the signature of a listed known finding?"""
    sig = finding.get('divergence')
    if not sig or sig.get('engine') != engine:
        return False
    import re
    return bool(re.search(sig.get('op_regex', '.*'), d['op'])) and bool(re.search(sig.get('impl_regex', '.*'), d['impl']))


BLOCK_RULE = 'random multi-tx blocks (1-10 txs; 20 tx kinds: transfers, logging/storing/reverting/gas-burning/self-destructing contracts, creations, consensus errors, handler panics, bad nonce/price/chain/signature, Cosmos sends; heavy blocks that exhaust block gas) through the real FinalizeBlock; per tx the model predicts class, gas, indices, cumulative gas, price and all balance/supply deltas; non-trivial = a transaction line; distinct by op-line hash'
BLOCK_ASSUME = ['the EVM interpreter enters only as an execution summary (vmErr, gas before refund, refund counter via the verif-tag hook, log count, panicked) read from the implementation',
                'signature validity is symbolic: the harness states whether the bytes recover to From under this chain id',
                'BaseApp.runTx cache/recover/block-gas semantics are transcribed, not verified (exercised by every outcome class)']

PROPS = {
    'C04': dict(
        lean_modules=['Model.World', 'Model.StateDB', 'Model.Block', 'Proofs.World', 'Properties.C04', 'Properties.C05', 'Facts.Block', 'Facts.TieFee', 'Facts.TieTransition', 'Facts.TieAnteSig', 'Facts.TieMeta', 'Facts.TieEmpty'],
        facts=['*'],
        theorems=['tie_is_empty_account', 'tie_effective_fee', 'tie_refund_gas', 'tie_refund_is_model', 'tie_deduct_fee_flag', 'fact_translated_all', 'C04_transfer_conserves', 'C04_addBalance', 'C04_subBalance', 'C04_refund_conserves', 'C04_evmModule_zero',
                  'C04_supply', 'C04_sender_collector', 'C05_collector_gain', 'mintTo_effect', 'burnFrom_effect', 'sendCoins_bal',
                  'fact_balance_sites', 'fact_refund_mints', 'fact_refund_burnt_from_collector'],
        engines=[dict(name='block', test='TestEngineBlock', quick=500, thorough=6000, thorough_seeds=3),
                 dict(name='statedb', test='TestEngineStatedb', quick=3000, thorough=60000, thorough_seeds=2),
                 dict(name='geth', test='TestEngineGeth', quick=800, thorough=6000, thorough_seeds=2, no_model=True),
                 dict(name='erc20', test='TestEngineErc20', quick=1000, thorough=20000, thorough_seeds=2)],   # coins moved by the ERC-20 precompile (transfer / transferFrom to bank-blocked recipients: the EVM module account stays empty)
        rule=BLOCK_RULE, assumptions=BLOCK_ASSUME + ['bank keeps supply = sum of balances (x/bank invariant, trusted); per-tx supply and balance deltas are reconstructed from the bank events of each ExecTxResult'],
    ),
    'C05': dict(
        lean_modules=['Model.FeeMarket', 'Model.Block', 'Properties.C05', 'Facts.Block', 'Facts.C09', 'Facts.TieFee', 'Facts.TieTransition', 'Facts.TieGas', 'Facts.TieMeta'],
        facts=['*'],
        theorems=['tie_effective_gas_price', 'tie_effective_fee', 'tie_refund_gas', 'tie_refund_is_model', 'tie_gas_used', 'tie_buy_gas', 'tie_intrinsic_gas', 'tie_intrinsic_ge_txgas', 'tie_reset_reads_gas_used', 'tie_reset_effects', 'tie_consume_gas', 'tie_refund_gas_meter', 'tie_add_overflow', 'tie_evm_base_fee', 'fact_translated_all', 'C05_charge', 'C05_charge_self', 'C05_rejected_free', 'C05_refund_cap', 'C05_bounds', 'C05_result_eq_receipt',
                  'C05_collector_gain', 'C05_one_price', 'stepEth_cases', 'fact_refund_quotient', 'fact_min_gas', 'fact_gas_meter_reset', 'fact_one_base_fee'],
        engines=[dict(name='block', test='TestEngineBlock', quick=500, thorough=6000, thorough_seeds=3),
                 dict(name='genfuncs', test='TestEngineGenfuncs', quick=2000, thorough=100000, thorough_seeds=2, no_model=True),   # the translated gas meter run against the real one (translator-vs-implementation)
                 dict(name='indexer', test='TestEngineIndexer', quick=40, thorough=600, thorough_seeds=2, no_model=True, own_oracles_only=True)],   # oracle C05-receipt-gas-of-tx-failed-outside-evm only: the Ethereum receipt (JSON-RPC) of a transaction that failed outside the EVM shows the gas limit its sender paid for
        rule=BLOCK_RULE, assumptions=BLOCK_ASSUME + ['C05_bounds lower bound assumes intrinsic + refundCounter <= gas used before refund (geth gas table: every refunded unit was paid for); E-block checks intrinsic <= gasUsed on every committed tx'],
    ),
    'C06': dict(
        lean_modules=['Model.Block', 'Model.Ante', 'Properties.C05', 'Properties.C06', 'Properties.C07', 'Facts.Block', 'Facts.Ante', 'Facts.TieTransition', 'Facts.TieAnteEvm', 'Facts.TieAnteSig', 'Facts.TieMeta', 'Facts.TieEmpty'],
        facts=['*'],
        theorems=['tie_is_empty_account', 'tie_pre_check_accepts', 'tie_validate_eoa', 'tie_sig_verification', 'tie_sig_accepts', 'tie_increment_sequence', 'tie_increment_is_plus_one', 'tie_deduct_fee_flag', 'fact_translated_all', 'fact_uninterpreted', 'C06_authorised', 'C06_seq_plus_one', 'C06_seq_unchanged', 'C06_seq_monotone', 'C06_no_replay', 'C06_seq_counts',
                  'C07_handler_unreachable', 'C07_cosmos_lane', 'fact_nonce_flag_used', 'fact_ante_order', 'fact_ante_chain', 'fact_disabled_list'],
        engines=[dict(name='block', test='TestEngineBlock', quick=500, thorough=6000, thorough_seeds=3),
                 dict(name='ante', test='TestEngineAnte', quick=250, thorough=3000, thorough_seeds=2),
                 dict(name='crypto', test='TestEngineCrypto', quick=600, thorough=6000, thorough_seeds=2, no_model=True, own_oracles_only=True),
                 dict(name='statedb', test='TestEngineStatedb', quick=3000, thorough=60000, thorough_seeds=2)],   # an account with a non-zero nonce is never "empty": it is not swept at commit, so its nonce cannot restart at 0 (base, vesting — also expired —, module accounts)
        rule=BLOCK_RULE + '; E-crypto (oracle C06-signed-cosmos-tx-replayable only; its correspondence is judged by C19): for every real sign document, the signature and the EIP-712 rendering of the amino and of the DIRECT-mode protobuf document must not stand for the same body at the next sequence, the next account number, another chain epoch or revision',
        assumptions=BLOCK_ASSUME + ['Cosmos-lane signature verification is the SDK decorator (trusted); only its sequence effect is modelled; that an eth_secp256k1 signature binds sequence, account number and chain id in both sign modes is observed on the real VerifySignature (E-crypto) and is C19 for the rest'],
    ),
    'C13': dict(
        lean_modules=['Model.Block', 'Model.Bloom', 'Properties.C05', 'Properties.C06', 'Model.CreateAddr', 'Properties.C13', 'Properties.C13Bloom', 'Properties.C13Create', 'Facts.Block', 'Facts.TieReceipt', 'Facts.TieAnteEvm', 'Facts.TieMeta'],
        facts=['*'],
        theorems=['loop_spec', 'tie_tx_count', 'tie_emit_event', 'tie_setup_exec', 'tie_cumulative_log_count', 'fact_translated_all', 'C13_txIndex', 'C13_receipt_index', 'C13_logIndex', 'C13_cumulativeGas', 'C13_status', 'C13_contract',
                  'C13_inv_block', 'C13_endBlock_total', 'inv_step', 'fact_log_index_restored',
                  'C13_bloom_exact', 'C13_bloom_covers', 'C13_bloom_union', 'C13_block_bloom_is_union', 'C13_block_bloom_bits', 'C13_block_bloom_order', 'C13_bloom_fits', 'testBit_logsBloom', 'C13_create_roundtrip', 'C13_create_preimage_injective', 'C13_create_address_injective', 'C17_registry_preimages_distinct', 'decodeNat_rlpNat', 'ofBE_beBytes'],
        engines=[dict(name='block', test='TestEngineBlock', quick=500, thorough=6000, thorough_seeds=3),
                 dict(name='indexer', test='TestEngineIndexer', quick=40, thorough=600, thorough_seeds=2, no_model=True, own_oracles_only=True)],   # oracle C13-served-receipt-numbering only: transaction index, log indices and cumulative gas as the indexer and the JSON-RPC backend serve them for blocks with refused / dropped / failed transactions in between
        rule=BLOCK_RULE, assumptions=BLOCK_ASSUME + ['bloom filters: the theorems (exactly the own logs, union, order-independence, 2048 bits) hold for any hash function; that the code computes the same function is the correspondence of the `bloom` lines (Lean Keccak-256 on the logs of the real receipts of every block vs the receipts\' Bloom fields and the block_bloom event), plus the Go-side oracle block-bloom'],
    ),
    'C03': dict(
        lean_modules=['Model.CDbGeneric', 'Model.World', 'Model.StateDB', 'Model.CallTree', 'Proofs.CDb', 'Properties.C03', 'Properties.C12', 'Facts.TieEmpty', 'Facts.TieMeta'],
        facts=['*'],
        theorems=['tie_is_empty_account', 'C03_revert_exact', 'C03_no_trace', 'C03_ids_stable', 'C03_calltree', 'C03_vmerr_residue', 'C03_reverted_frame_no_trace',
                  'execNode_spec', 'execList_spec', 'framed_run', 'revertGo_frame', 'revert_ok', 'snapshot_ok', 'upd_ok'],
        engines=[dict(name='statedb', test='TestEngineStatedb', quick=6000, thorough=120000, thorough_seeds=3),
                 dict(name='calltree', test='TestEngineCalltree', quick=300, thorough=6000, thorough_seeds=2),
                 dict(name='block', test='TestEngineBlock', quick=250, thorough=3000, thorough_seeds=2, no_model=True, own_oracles_only=True)],   # oracle C03-vmerr-leaves-more-than-the-fee only: real transactions that end with a VM error
        rule='random cStateDb API sequences (19 op kinds incl. precompile-style bank/allowance writes through GetCurrentContext, nested snapshot/revert incl. invalid ids, commit) on a real chain context with base/contract/module/vesting fixtures; full getter dump after every op; non-trivial = a real op line (not world set-up); distinct by (op line) hash',
        assumptions=['cachekv CacheContext is a value copy of its parent for reads and isolates writes until write() (SDK contract; exercised by every revert in E-statedb)',
                     'the interpreter uses the StateDB only as snapshot; body; revert-on-failure (evm.Call/Create) — call-tree theorem; arbitrary API sequences are covered by C03_revert_exact'],
    ),
    'C09': dict(
        lean_modules=['Model.FeeMarket', 'Model.Block', 'Properties.C09', 'Facts.C09', 'Facts.TieFee', 'Facts.TieFeeMarket', 'Facts.TieTransition', 'Facts.TieMeta', 'Facts.TieAdmission'],
        facts=['*'],
        theorems=['tie_cosmos_fee_checker_admits', 'tie_eth_fee_checker_admits', 'min_gas_price_ge', 'priority_ok', 'tie_geth_calc_base_fee', 'tie_calculate_base_fee', 'tie_feemarket_params_validate', 'tie_feemarket_params_validate_refuses', 'tie_min_gas_price_deliver', 'tie_min_gas_price_ge', 'tie_priority_refuses', 'tie_priority_panics_on_empty', 'tie_single_fee', 'tie_pre_check_accepts', 'fact_translated_all', 'C09_unchanged_at_target', 'C09_increase_exact', 'C09_decrease_exact', 'C09_increase_strict',
                  'C09_decrease_le', 'C09_ge_floor_min', 'C09_total_no_divzero', 'C09_total', 'C09_keeper_exact',
                  'C09_zero_target_keeps', 'C09_admission', 'C09_admission_implies_precheck',
                  'fact_elasticity', 'fact_changeDenom', 'fact_london_always', 'fact_feemarket_endblock_last', 'fact_feemarket_after_gov', 'fact_maxgas_guard', 'fact_basefee_guards', 'fact_one_base_fee'],
        engines=[dict(name='feemarket', test='TestEngineFeemarket', quick=20000, thorough=400000, thorough_seeds=3, functional=True),
                 dict(name='feecheck', test='TestEngineFeecheck', quick=4000, thorough=100000, thorough_seeds=3, no_model=True),
                 dict(name='block', test='TestEngineBlock', quick=500, thorough=6000, thorough_seeds=2)],
        rule='tuples (baseFee, MaxGas|nil, gasConsumed, minGasPrice mantissa) drawn from edge classes (0,1,2^63,2^256-1, around target/limit, MaxGas in {-1,0,1,2,3,..}) and uniform bit-lengths; non-trivial = baseFee>0 and gasConsumed>0; distinct by op line hash. E-feecheck: the two real fee checkers called directly on contexts with base fee below / at / above the minimum gas price, deliver / check / re-check mode, node minimum prices, fee lists (also empty, foreign, two coins), gas, ExtensionOptionDynamicFeeTx with small / zero / negative tips, legacy / access-list / dynamic-fee Ethereum payloads priced around both floors; judged by the law "charged price >= max(base fee, floor(min))" and compared line by line with the fee checkers as translated from the Go source',
        assumptions=['geth CalcBaseFee is the compiled fork function (exercised, constants regenerated)',
                     'admission theorem is about the fee checker arithmetic; that the checker runs for every delivered tx is C07/E-ante'],
    ),
}

ANTE_RULE = 'random transaction shapes (Ethereum-lane base tx with 0-2 of 20 perturbations: memo, timeout, fee amount/denoms, gas limit, extension options of three kinds, non-critical options, signatures, signer infos, payer, granter, unprotected, contract sender, low gas, tip>cap, huge gas limit, creation; Cosmos-lane txs with 1-3 message trees of exec depth 0-5 over send/grant/vesting/eth leaves, signed) x 4 modes through the real Simulate / CheckTx(recheck, new) / FinalizeBlock; non-trivial = every line; distinct by op-line hash'
PROPS['C07'] = dict(
    lean_modules=['Model.Ante', 'Properties.C07', 'Facts.Ante', 'Facts.TieAnte', 'Facts.TieAnteChain', 'Facts.TieAnteBasic', 'Facts.TieAnteEvm', 'Facts.TieAnteLane', 'Facts.TieMeta'],
    facts=['*'],
    theorems=['tie_eth_lane_shape', 'verdict03_refusal_not_reached', 'tie_has_single_eth', 'tie_is_ethereum_tx', 'tie_validate_eoa', 'tie_setup_exec', 'tie_emit_event', 'tie_ext_opt', 'tie_timeout_height', 'tie_memo', 'tie_reject_eth_msgs', 'tie_reject_eth_msgs_model', 'tie_vesting_gate', 'tie_vesting_gate_model',
              'tie_validate_basic', 'tie_validate_basic_shape', 'tie_validate_basic_recheck', 'tie_validate_basic_mixed', 'coinsEqual_newCoins1', 'fact_translated_all', 'fact_uninterpreted', 'C07_eth_lane', 'C07_recheck', 'C07_cosmos_lane', 'C07_exclusive', 'C07_handler_unreachable', 'C16_gate',
              'checkMsgs_sound', 'checkTail_sound', 'checkMsg_sound', 'ethLane_none', 'cosmosLane_none', 'vestingGate_sound',
              'fact_ante_chain', 'fact_disabled_list', 'fact_nested_cap'],
    engines=[dict(name='ante', test='TestEngineAnte', quick=350, thorough=4000, thorough_seeds=3)],
    rule=ANTE_RULE,
    assumptions=['decorators outside the lane decision (fee deduction, signature verification, sequence, IBC relay, execution set-up) enter as an observed verdict `late`',
                 'SDK tx.ValidateBasic, MsgEthereumTx.ValidateBasic, AsMessage, Protected are evaluated by the harness with the real functions and passed as booleans',
                 'messages that dispatch nested messages outside the tx path (gov proposals, ICA host packets) are outside the model, as in the property text',
                 're-check mode: CometBFT only re-checks bytes that passed check; C07_recheck states what is re-established there'],
)

PROPS['C16'] = dict(
    lean_modules=['Model.Ante', 'Model.VAuth', 'Properties.C07', 'Properties.C16', 'Facts.Ante', 'Facts.VAuth', 'Facts.TieAnte', 'Facts.TieAnteChain', 'Facts.TieVAuth', 'Facts.TieMeta'],
    facts=['*'],
    theorems=['tie_has_single_eth', 'tie_vesting_gate', 'tie_vesting_gate_model', 'goGate_model', 'goGate_none_all', 'tie_submit_proof', 'tie_submit_rejected_no_effect', 'tie_submit_ok', 'tie_submit_save_last', 'fact_translated_all', 'fact_uninterpreted', 'C16_gate', 'C16_proof_sound', 'C16_cost', 'C16_final', 'C16_reject_noop', 'C16_stored_signed', 'sound_step', 'final_step',
              'genesis_sound', 'vestingGate_sound', 'C07_cosmos_lane', 'checkMsgs_sound',
              'fact_vauth_cost', 'fact_vauth_message', 'fact_disabled_list', 'fact_ante_chain', 'fact_nested_cap'],
    engines=[dict(name='vauth', test='TestEngineVauth', quick=300, thorough=4000, thorough_seeds=3),
             dict(name='ante', test='TestEngineAnte', quick=250, thorough=3000, thorough_seeds=2)],
    rule='E-vauth: proof submissions delivered in real blocks (1-3 per block; 20 signature variants: valid, other key, other message, 64 bytes, upper-case hex, no prefix, empty, V=27, flipped bit, extra byte; rich and poor submitters around the fixed cost; repeats; self-submission); E-ante: vesting-creation messages of the three kinds at top level and nested, targets with and without proof, four modes; non-trivial = every line; distinct by op-line hash',
    assumptions=['cryptography is symbolic: well-formedness, the address Ecrecover(keccak(message), sig) yields and lower-case-ness are computed by the harness with go-ethereum crypto (independently of x/vauth/utils) and fed to the model',
                 'unforgeability of ECDSA and collision resistance of Keccak are not proved (C19)',
                 'routes that execute messages outside the tx path (gov proposals, ICA host) are outside the model'],
)

PROPS['C10'] = dict(
    lean_modules=['Model.Erc20', 'Properties.C10', 'Facts.Erc20', 'Facts.TieErc20', 'Facts.TieErc20Transfer', 'Facts.TieMeta'],
    facts=['*'],
    theorems=['tie_spend_allowance', 'tie_erc20_transfer', 'tie_erc20_transfer_ok', 'tie_erc20_transfer_fail_no_log', 'fact_uninterpreted', 'fact_translated_all', 'C10_views_exact', 'C10_fail_is_noop', 'C10_transfer_exact', 'C10_burn_exact', 'C10_transferFrom_exact', 'C10_burnFrom_exact',
              'C10_approve_exact', 'C10_full_fails', 'C10_allowance_safety_partial', 'xfer_spec', 'spendAllowance_spec', 'spendIfOther_spec',
              'ghostAgree_step', 'ghostAgree_run', 'spend_needs_allowance',
              'fact_allowance_key', 'fact_erc20_method_table', 'fact_erc20_selectors', 'fact_erc20_views_write_nothing', 'fact_erc20_writes_no_mint'],
    engines=[dict(name='erc20', test='TestEngineErc20', quick=1500, thorough=40000, thorough_seeds=3),
             dict(name='calltree', test='TestEngineCalltree', quick=300, thorough=6000, thorough_seeds=2)],
    rule='random ERC-20 precompile call sequences over two tokens / two bank denominations (8 methods, callers: EOAs, two forwarder contracts, zero address, module accounts, an address without account; amounts 0, 1, balance, balance+1, 2^256-1, half, small random), interleaved with native MsgSend, through EvmKeeper.ApplyMessage(commit); after every op all balances, supplies and the whole allowance table are compared; non-trivial = every call/send line; distinct by op-line hash',
    assumptions=['atomicity of a failing call is the frame revert of C03', 'amounts are ABI-decoded uint256 (< 2^256)',
                 'vesting-locked balances are outside E-erc20 (C15)', 'calls run through ApplyMessage (no ante handler): fee handling is C04/C05'],
)

CALLTREE_RULE = 'generated call trees (depth <= 4, 1-3 actions per frame, CALL/STATICCALL/DELEGATECALL/CALLCODE edges between two scripted runner contracts, returning and reverting frames, ERC-20 precompile calls of 6 methods over two tokens at every depth; a quarter of the trees entirely under one STATICCALL frame) through EvmKeeper.ApplyMessage and the real interpreter; all balances, supplies, allowances and the log list compared after each tree; non-trivial = every tree line; distinct by op-line hash'
PROPS['C12'] = dict(
    lean_modules=['Model.Erc20', 'Model.CallTree', 'Properties.C10', 'Properties.C12', 'Facts.Cpc', 'Model.StakingCpc', 'Facts.Staking', 'Facts.TieFork', 'Facts.TieMeta'],
    facts=['*'],
    theorems=['tie_run_custom', 'tie_static_write_refused', 'tie_readonly_flag_is_the_argument', 'tie_method_validate', 'tie_run_custom_short_input_panics', 'fact_translated_all', 'C12_direct_static_refused', 'C12_views_never_write', 'C12_full_fails', 'C12_static_partial', 'execAct_guarded', 'execList_guarded',
              'C03_reverted_frame_no_trace', 'C12_ro_no_write', 'C12_rw_gas', 'C12_writers_declared', 'fact_fork_readonly_literals',
              'fact_fork_runcustom_guard', 'fact_selectors_match_abi', 'fact_erc20_iswrite', 'fact_staking_reward_queries'],
    engines=[dict(name='calltree', test='TestEngineCalltree', quick=400, thorough=8000, thorough_seeds=3),
             dict(name='staking', test='TestEngineStaking', quick=300, thorough=4000, thorough_seeds=2)],
    rule=CALLTREE_RULE + '; E-staking: every store of the application is dumped before and after each view call of the staking precompile (delegationOf, totalDelegationOf, rewardOf, rewardsOf, balanceOf, delegatedValidators) executed with commit = true',
    assumptions=['the interpreter (opcode semantics, 63/64 gas rule, read-only flag for LOG/SSTORE/value transfers) is the shared fork code, not modelled; the runner gives every call half of the remaining gas so that gas never decides an outcome',
                 'staking / bech32 methods enter through the regenerated method table (read-only => no write API reachable; writers => gas > 0; selector = ABI id), not through the call-tree model',
                 'the write census is syntactic (callee names over the package-local call graph)'],
)

PROPS['C11'] = dict(
    lean_modules=['Model.StakingCpc', 'Properties.C11', 'Facts.Staking'],
    facts=['*'],
    theorems=['C11_caller_only', 'C11_signed', 'C11_signed_withdraw', 'C11_signed_same_native', 'C11_transfer_self_only', 'C11_logs_exact',
              'C11_no_event_fails', 'C11_two_calls', 'C11_logs_name_delegator', 'fact_staking_executors', 'fact_staking_reward_queries'],
    engines=[dict(name='staking', test='TestEngineStaking', quick=500, thorough=6000, thorough_seeds=3),
             dict(name='crypto', test='TestEngineCrypto', quick=600, thorough=6000, thorough_seeds=2, no_model=True, own_oracles_only=True)],   # oracle C11-typed-message-chain-id only: the typed messages' digest and signature check for chain ids up to and beyond 64 bits
    rule='random sequences of staking-precompile calls (delegate / undelegate / redelegate / withdrawReward / withdrawRewards / transfer / delegateByActionMessage / withdrawRewardsByMessage; callers: three EOAs, a contract forwarding by CALL, a contract forwarding by DELEGATECALL; validators incl. a non-validator address; amounts 0, 1.., exact, exact+1, half; signatures honest, v+27, replayed by another caller, for another chain id, by another key, tampered amount / validator / s, bad denom) interleaved with native MsgDelegate, reward allocation and block progression (unbonding time 3 h, 1 h blocks: entries mature); every call runs through EvmKeeper.ApplyMessage(commit) on one cache context and the native message named by the specification through the SDK message servers on a second cache of the same state; staking, distribution and bank stores compared byte for byte (withdraw-all / transfer: staking + bank byte for byte, pending rewards / outstanding / commission / community pool by value), success compared, logs compared with the model translation of the native run\'s module events; view methods compared with the native gRPC queriers; non-trivial = every call line; distinct by op-line hash',
    assumptions=['x/staking and x/distribution themselves are not modelled: the model fixes which native message (delegator, validators, amount) the precompile hands to them; their effect is whatever the SDK does (twin execution)',
                 'secp256k1 recovery and the EIP-712 hash are the library functions (the harness signs typed data it builds itself with go-ethereum signer/core/apitypes); in the model the recovered address is an input',
                 'withdrawRewards / transfer evaluate the distribution query on the live context: validator period counters and historical-reward records differ from the native run; delegations, entries, balances, pending rewards, outstanding rewards, commission and community pool are compared and agree',
                 'slashing-free histories (as the property states); contracts reach the precompile through one forwarding frame (deeper trees are C12 / E-calltree)'],
    technique='Lean 4 theorems over a hand-written dispatch model (who acts for whom, which logs) + regenerated per-executor AST facts + twin execution of the real precompile against the SDK message servers',
)

PROPS['C19'] = dict(
    lean_modules=['Model.Keccak', 'Model.Eip712', 'Model.Sig', 'Properties.C19', 'Properties.C19Inj', 'Properties.C19Flat', 'Facts.Crypto'],
    facts=['*'],
    theorems=['C19_verify_sound', 'C19_one_key', 'C19_one_message', 'C19_malformed_refused', 'C19_honest_accepted', 'C19_prim_injective',
              'C19_extra_data_refused', 'C19_flatten_refuses_shadow', 'C19_rendering_injective', 'C19_typed_injective', 'C19_document_injective', 'C19_flatten_injective', 'C19_flatten_collides', 'topOK_sound', 'go_spec', 'msgField_inj', 'C19_numeric_string_collides', 'members_inj', 'field_inj', 'item_inj', 'pigeonhole', 'canonB_sound', 'membersNodupB_sound', 'fact_verify_shape', 'fact_verify_ecdsa', 'fact_key_sizes', 'fact_address_calls',
              'fact_eip712_fixed_types', 'fact_eip712_consts', 'fact_eip712_domain', 'fact_eip712_orders', 'fact_cpc_verify'],
    engines=[dict(name='crypto', test='TestEngineCrypto', quick=1500, thorough=30000, thorough_seeds=3)],
    level='partial',
    rule='(a) Keccak-256 of the Lean model vs go-ethereum on inputs of every length class around the 136-byte rate; (b) generated JSON sign documents (1-3 messages over 5 type names with random value trees of depth <= 3: strings, integers, booleans, nulls, non-integral numbers, homogeneous and mixed arrays, nested objects; 22 malformations: dropped / extra / null top-level members, fee extras, empty amounts, msgs not an array, message not an object, missing / numeric / empty message type, pre-existing msg0, empty value, empty key, ...) through the real WrapTxToTypedData + TypedDataAndHash, digest compared with the Lean model digest for digest and error for error; (c) real amino-JSON and protobuf sign documents of registered messages (MsgSend, MsgDelegate, MsgWithdrawDelegatorReward, MsgVote, MsgMultiSend; 1-3 per document) through GetEIP712BytesForMsg: protobuf digest = amino digest = Lean digest, 11 single-field perturbations must each change the digest and invalidate both signature forms, honest signatures (64 / 65 bytes, over the plain bytes or over the rendering) must verify, another key / bit-flipped / truncated / extended / high-s signatures must not; (d) address vs independent decompression + Keccak, BIP-39/32/44 derivation vs cosmos-sdk BIP-32 and the published Hardhat vectors, amino / amino-JSON / protobuf Any key round trips, wrong key sizes refused. Non-trivial = every keccak / eip712 line; distinct by op-line hash',
    assumptions=['ECDSA (unforgeability) and Keccak-256 (collision resistance) are ideal primitives of the model, not proved',
                 'BIP-39/32/44 conformance and the encodings are tested against a second implementation and published vectors (sampled, not proved)',
                 'the EIP-712 model covers documents with distinct ASCII keys and integral numbers |n| <= 2^53 (canonical amino JSON is inside); gjson path characters in keys are outside',
                 'injectivity of the rendering (C19_typed_injective) is proved for an ideal hash with the type hash injective in (type name, member list), for documents that are canonical, whose derived schema lists members once and types them by their own JSON kind (docOK): docOK is evaluated by the Lean driver on every real sign document of the run (must be 1), it is not proved to follow from the type generation; the step from the flattened message back to the msgs array is C19_flatten_injective (documents without a top-level member msg<i>, evaluated likewise: topOK; C19_flatten_collides shows the hypothesis is needed)'],
    technique='Lean 4 theorems over an ideal-signature model of VerifySignature and an executable EIP-712 rendering model (with Keccak-256 in Lean) + regenerated AST facts + digest-for-digest differential against the real code; key derivation and encodings by differential test only',
)

PROPS['C20'] = dict(
    lean_modules=['Model.EventSys', 'Model.Block', 'Model.FeeMarket', 'Properties.C06', 'Properties.C09', 'Properties.C13', 'Model.LogFilter', 'Properties.C20', 'Properties.C20Conc', 'Properties.C20Filter', 'Facts.EventSys', 'Facts.C09', 'Facts.Panics', 'Facts.TieFeeMarket', 'Facts.TieQuery', 'Facts.TieGas', 'Facts.TieMeta', 'Facts.KeyCapacity'],
    facts=['*'],
    theorems=['fact_key_prefixes_not_shared_buffers', 'tie_consume_gas', 'tie_refund_gas_meter', 'tie_calculate_base_fee', 'tie_feemarket_params_validate', 'tie_feemarket_params_validate_refuses', 'tie_bin_search_total', 'fact_translated_all', 'C20_rejected_is_noop', 'C20_ante_panic_charges_block_gas_only', 'C20_dropped_is_noop', 'C20_isolation', 'C20_isolation_replace', 'runItems_append',
              'C09_total', 'C09_total_no_divzero', 'C09_zero_target_keeps', 'C13_endBlock_total', 'C13_inv_block',
              'C20_no_send_on_closed', 'inv_step', 'inv_run', 'C20_original_crashes', 'C20_original_drops', 'C20_lock_needed', 'C20_index_needed',
              'C20_filter_total', 'C20_filterLogs_total', 'C20_guard_needed', 'topicLoop_total', 'fact_filterlogs_guards', 'fact_basefee_guards', 'fact_one_base_fee', 'fact_maxgas_guard', 'fact_block_panic_sites', 'fact_consume_locks_across_send', 'fact_install_shape', 'fact_uninstall_shape', 'fact_join_indexes', 'fact_context_guarded'],
    engines=[dict(name='crash', test='TestEngineCrash', quick=250, thorough=600, thorough_seeds=3, no_model=True),
             dict(name='conc', test='TestEngineConc', quick=3, thorough=12, thorough_seeds=2, no_model=True, race_in_thorough=True),
             dict(name='logfilter', test='TestEngineLogfilter', quick=3000, thorough=200000, thorough_seeds=3),
             dict(name='staking', test='TestEngineStaking', quick=300, thorough=3000, thorough_seeds=2, no_model=True, own_oracles_only=True)],   # oracle C20-precompile-input-panics only: signed staking messages, valid signature, invalid content
    rule='E-crash: batches of 1-4 hostile transactions (16 classes: garbage / empty embedded Ethereum payloads, extreme numeric fields, every custom-precompile selector with random / truncated / saturated / far-offset calldata directly and through CALL / STATICCALL / DELEGATECALL / CALLCODE, mixed lanes, nested authz, bad addresses and coins, adversarial module messages, Ethereum message in the Cosmos lane, mutated valid bytes, random bytes, random init code with large access lists, foreign chain ids, value into module / precompile addresses, wrong declared sender) through CheckTx (new, recheck), PrepareProposal, ProcessProposal, FinalizeBlock + Commit with a recover sentinel outside BaseApp; gRPC queries (15 paths, adversarial and random request bytes, heights incl. negative and future); consensus-parameter sweeps (MaxGas -1,0,1,2,20999,21000,21001,1e6 x MaxBytes 1,200,default,-1) with blocks of valid transactions; a liveness block after every fifth batch and every sweep; isolation on two fresh instances of the application (same genesis, block 1 with one position holding two different failing transactions that leave no event). E-conc: the real EventSystem + memEventBus over the real CometBFT WSClient against an in-process websocket endpoint, in child processes: the two schedules of the protocol model forced through the verif schedule points, and 6-goroutine subscribe / unsubscribe stress with events for known and unknown queries (thorough: under the race detector). Non-trivial = every crash / conc line; distinct by op-line hash',
    assumptions=['crash-freedom for inputs outside the generators is NOT proved: E-crash is an exploration (labelled); the theorems cover isolation and totality in the block / fee-market / receipt models and the channel protocol of the event system',
                 'the SDK, CometBFT and go-ethereum code is exercised, not verified; memory exhaustion and the websocket server are out of scope',
                 'the event-system model covers one query at a time (topics are independent maps entries) and abstracts CometBFT subscribe / unsubscribe calls; atomic step = code between lock operations (regenerated order facts)'],
    technique='Lean 4 theorems (isolation of refused transactions, totality of end-of-block processing, invariant of the event system\'s lock / channel protocol for every schedule) + regenerated order facts + schedule replay on the real goroutines through verif schedule points + exploration of every ABCI entry point with a recover sentinel',
)

PROPS['C17'] = dict(
    lean_modules=['Model.Cpc', 'Model.CreateAddr', 'Properties.C17', 'Properties.C13Create', 'Facts.CpcRegistry', 'Facts.TieCpc', 'Facts.TieMeta'],
    facts=['*'],
    theorems=['tie_validate_deployer', 'tie_empty_whitelist_refuses', 'fact_translated_all', 'C17_registry_preimages_distinct', 'C13_create_roundtrip', 'C17_type_immutable', 'C17_version_monotone', 'C17_only_whitelisted_add', 'C17_inv_run', 'C17_one_erc20_per_denom', 'C17_exposure',
              'C17_genesis_inv', 'inv_step', 'step_cases', 'step_keeps_none', 'fact_newevm_wires_all_with_disabled'],
    engines=[dict(name='cpc', test='TestEngineCpc', quick=600, thorough=12000, thorough_seeds=3)],
    rule='epochs of [InitGenesis on a wiped cpc store with random flags and whitelist; 8-32 random ops: deploy ERC-20 (6 denominations incl. no-supply and invalid, odd decimals, empty symbol), deploy staking, update params (authority or not, versions 0/1/2, duplicate deployers), keeper-level enable/disable] through the real message server / keeper with per-op cache contexts; after each op the registry, reverse index, params, module sequence and the set of addresses callable through ApplyMessage and through the EthCall query path are compared; non-trivial = every line; distinct by op-line hash',
    assumptions=['crypto.CreateAddress is injective in the nonce and never hits the two fixed addresses (hash assumption; the harness maps real addresses to model ids)',
                 'metadata / params validity (ValidateBasic, Validate) is evaluated by the harness with the real functions and passed as booleans',
                 'the keeper-level metadata update is modelled for the disabled flag only (no message reaches it; a caller changing the typed metadata of an ERC-20 entry could break the index agreement)',
                 'check-tx and simulate modes build the EVM through the same NewEVM as deliver and query (regenerated call list); only deliver-context and query paths are executed'],
)

PROPS['C15'] = dict(
    lean_modules=['Model.World', 'Model.StateDB', 'Proofs.World', 'Properties.C15', 'Facts.StateDB', 'Facts.TieTransition', 'Facts.TieMeta', 'Facts.TieEmpty'],
    facts=['*'],
    theorems=['tie_is_empty_account', 'tie_destroy_guard', 'tie_destroyable', 'fact_translated_all', 'fact_uninterpreted', 'C15_destroy_needs_unprotected', 'C15_delete_complete', 'C15_commit_keeps_protected', 'C15_no_silent_delete',
              'C15_locked_never_spent', 'C15_subBalance_respects_lock', 'destroyAccount_ok', 'burnAll_keeps', 'destroyAccount_others',
              'protected_not_destroyable', 'fact_destroy_guard_block_time', 'fact_destroy_removes_everything', 'fact_commit_sorted'],
    engines=[dict(name='statedb', test='TestEngineStatedb', quick=6000, thorough=120000, thorough_seeds=3),
             dict(name='block', test='TestEngineBlock', quick=250, thorough=3000, thorough_seeds=2, no_model=True, own_oracles_only=True)],   # oracle C15-sender-retyped only: a vesting account among the senders of real blocks
    rule='random cStateDb API sequences on a context whose block time lies in the past (so that a wall-clock guard would disagree with the model), over fixtures: fee-collector and EVM module accounts, delayed vesting accounts (unexpired funded, expired funded, end time between block time and wall clock), base / contract / storage-only / balance-only / empty accounts with two denominations; ops include touch (zero-value AddBalance), pay, CreateAccount collision, Suicide, Selfdestruct6780, commit with and without deleteEmpty; full dump of accounts, balances, code hashes, storage after every op; non-trivial = a real op line; distinct by op-line hash',
    assumptions=['x/bank enforces vesting locks in SendCoins (trusted SDK code; exercised: a SubBalance beyond the spendable amount panics)',
                 'the interpreter reaches accounts only through the StateDB API the engine drives (touch, Transfer, CreateAccount, Suicide)',
                 'only delayed vesting accounts are in the fixture; the guard reads GetEndTime() which all vesting kinds implement'],
)

PROPS['C01'] = dict(
    lean_modules=['Model.StateDB', 'Properties.C01', 'Facts.Determinism', 'Facts.StateDB', 'Facts.TieTransition', 'Facts.TieFee', 'Facts.TieMeta'],
    facts=['*'],
    theorems=['tie_destroy_guard', 'tie_min_gas_price_deliver', 'fact_translated_all', 'C01_touched_order_irrelevant', 'C01_commit_order_independent', 'C01_map_copy_order_independent', 'C01_deliver_ignores_node_config',
              'canon_perm', 'sorted_ext', 'setInsert_sorted', 'copy_get', 'find_perm',
              'fact_census_time_now', 'fact_census_map_range', 'fact_census_go_stmt', 'fact_census_no_rand_no_env',
              'fact_commit_sorted', 'fact_destroy_guard_block_time', 'fact_pkg_vars', 'fact_mem_fields', 'fact_to_derefs_guarded', 'fact_no_append_to_shared_call_result', 'fact_key_prefixes_no_spare_capacity'],
    engines=[dict(name='reexec', test='TestEngineReexec', quick=25, thorough=120, thorough_seeds=2, no_model=True, rerun_compare=True, vest_end_delay=20)],
    rule='seeded block histories (1-8 txs per block: transfers, logging / storing / reverting contracts, creations, self-destruct fan-outs destroying 2-6 contracts that hold three denominations in ONE transaction, ERC-20 precompile call trees with a reverted frame, staking precompile delegate and transfer(), zero-value touches of a vesting account, bad nonces, Cosmos sends) executed on two fresh application instances with fixed genesis and header times, and again in a second process; compared: app hash and the marshalled ResponseFinalizeBlock without Log/Info; non-trivial = a block line; distinct by op-line hash',
    assumptions=['nondeterminism inside Cosmos-SDK, CometBFT, IAVL and go-ethereum themselves is outside the census (trusted); it is still exercised by the twin execution',
                 'ExecTxResult.Log / Info are not consensus data (a recovered panic puts a stack trace with addresses there) and are excluded from the comparison',
                 'the wall-clock part of the tie (second process started after a vesting end time has passed) runs in the thorough tier only; in the quick tier wall-clock independence rests on the census obligation',
                 'the models are pure functions: the theorems here are the order-independence arguments for each place the census finds a map'],
    technique='Lean 4 theorems (order-independence of every map use) + regenerated census obligations + twin execution / twin process re-execution of the real application',
)

PROPS['C18'] = dict(
    lean_modules=['Model.Cpc', 'Model.Genesis', 'Properties.C18', 'Facts.Genesis'],
    facts=['*'],
    theorems=['C18_full_fails', 'C18_feemarket_roundtrip', 'C18_evm_roundtrip', 'C18_evm_roundtrip_exact', 'C18_roundtrip_partial', 'C18_export_idempotent', 'staking_flag_stable',
              'fact_init_genesis_order'],
    engines=[dict(name='genesis', test='TestEngineGenesis', quick=6, thorough=120, thorough_seeds=2)],
    rule='per epoch a fresh chain is driven into a state with 1-4 contracts with random storage (zero-valued words, deleted slots), a storage-only address, a contract self-destructed through the EVM, optionally an ERC-20 precompile deployed after genesis, a staking precompile (optionally disabled), a whitelist, allowances (incl. unlimited), an ownership proof and a moved base fee; ExportAppStateAndValidators; a fresh Evermint InitChain-ed from the export; all observables of evm / feemarket / cpc / vauth compared, and each module exported again; non-trivial = every epoch line; distinct by op-line hash',
    assumptions=['only the four custom modules are compared (SDK modules are trusted)', 'EVM and fee-market parameter sets are compared as opaque marshalled blobs',
                 'the re-imported state is read from the InitChain (not yet committed) state of the fresh application'],
)

GETH_RULE = 'per epoch five contracts with generated programs (SSTORE/SLOAD on four slots incl. clearing, LOG0/1, CALL/STATICCALL/DELEGATECALL/CALLCODE with and without value to each other and to fresh addresses, three-call bursts with value to one target, CREATE/CREATE2 with storing, code-returning or reverting init code, SELFDESTRUCT to any target, REVERT, INVALID, BALANCE/EXTCODESIZE/EXTCODEHASH) and 12-24 messages (calls with value, plain transfers, creation transactions) executed through evermint ApplyMessage and through go-ethereum core.ApplyMessage on a state.StateDB seeded with the mirrored pre-state, same chain config and block context; compared after every message: error class, return data, gas used, logs, and nonce / balance / code / four storage slots of ~150 tracked addresses (universe, CREATE and CREATE2 targets); non-trivial = every message line; distinct by op-line hash'
PROPS['C02'] = dict(
    lean_modules=['Model.StateDB', 'Proofs.World', 'Properties.C02', 'Properties.C03', 'Facts.Geth', 'Facts.Block', 'Facts.TieEmpty', 'Facts.TieMeta'],
    facts=['*'],
    theorems=['tie_is_empty_account', 'C02_setNonce_sim', 'C02_setCode_sim', 'C02_setState_sim', 'C02_addBalance_sim', 'C02_subBalance_sim',
              'C02_diff_zero_credit_creates_nothing', 'C02_diff_storage_only_not_empty', 'C02_zero_address_warm', 'C03_revert_exact',
              'nonceOf_ensureAcc', 'fact_fork_write_primitives', 'fact_fork_precompile_list_zero_prefixed', 'fact_refund_quotients', 'fact_refund_quotient'],
    engines=[dict(name='geth', test='TestEngineGeth', quick=800, thorough=8000, thorough_seeds=3, no_model=True),
             dict(name='statedb', test='TestEngineStatedb', quick=3000, thorough=60000, thorough_seeds=2)],
    rule=GETH_RULE,
    assumptions=['PARTIAL: the theorems cover the StateDB write primitives (simulation of a value-semantic reference) and snapshot/revert; that equal behaviour at the vm.StateDB interface gives equal executions rests on the interpreter being the same compiled code on both sides (trusted base item 5); the interpreter, gas tables and native precompiles are not modelled',
                 'messages are zero-priced with the NoBaseFee switch on both sides (as eth_call does), so the permitted fee difference (no buyGas / coinbase payment in evermint) does not enter; fee handling is C04/C05',
                 'accounts hold only the EVM denomination and are neither module nor vesting accounts (the documented design differences)',
                 'custom precompile addresses are not called by the generated programs (permitted difference: callable and warm)'],
    technique='Lean 4 simulation theorems (context StateDB vs value-semantic reference) + regenerated fork facts + differential execution against go-ethereum itself (core.ApplyMessage over state.StateDB)',
)

PROPS['C08'] = dict(
    lean_modules=['Model.Query', 'Model.CDbGeneric', 'Properties.C08', 'Facts.Query', 'Facts.TieQuery', 'Facts.TieMeta'],
    facts=['*'],
    theorems=['tie_bin_search', 'tie_bin_search_total', 'fact_translated_all', 'C08_estimateGas', 'C08_estimateGas_capped', 'C08_stale_cap_returns_unexecutable', 'searchBound_le_cap', 'fact_estimate_gas_assigns', 'C08_estimate', 'C08_estimate_range', 'C08_no_commit_no_write', 'binSearch_spec', 'step_orig', 'fact_commit_literals'],
    engines=[dict(name='binsearch', test='TestEngineBinsearch', quick=3000, thorough=200000, thorough_seeds=2, functional=True),
             dict(name='query', test='TestEngineQuery', quick=100, thorough=2500, thorough_seeds=2, no_model=True),
             dict(name='indexer', test='TestEngineIndexer', quick=40, thorough=600, thorough_seeds=2, no_model=True, own_oracles_only=True)],   # oracle C08-trace-predecessors only: debug_traceTransaction of the real JSON-RPC backend replays exactly the executed Ethereum transactions in front of the traced one (mixed blocks)
    rule='E-binsearch: the real evmtypes.BinSearch on arbitrary executable tables (monotone, random, mostly failing, gapped, with consensus errors) vs the Lean binSearch. E-query: on committed states, eth_call / estimateGas / traceTx (with predecessors, commit=true inside the query context) / traceBlock / evm, cpc, feemarket, vauth gRPC queries through BaseApp.Query, then Simulate, CheckTx new and re-check of the same call as a signed transaction (9 call kinds: storage set / clear, logs, a gas-dependent branch, ERC-20 precompile transfer, precompile writes with a reverted frame, self-destruct, creation, revert); every key and value of every KV store plus the working hash is digested before and after each request; the call is then delivered (same gas limit) and once more with the estimate as gas limit; non-trivial = every line; distinct by op-line hash',
    assumptions=['check-state vs committed-state separation, the query multistore branch and the simulate branch are BaseApp mechanisms (trusted SDK code) — exercised by the store digest around every request',
                 'prediction (same return data, logs, gas) is asserted for calls that read neither block context nor sender balance; it is tied by delivery, not proved: both paths run ApplyMessageWithConfig (regenerated call-site table)',
                 'estimate executability is proved for the state the estimate was computed on; the delivery check is restricted to calls whose outcome does not depend on the preceding delivery in the same block'],
)

PROPS['C14'] = dict(
    lean_modules=['Model.Indexer', 'Model.LogFilter', 'Properties.C14', 'Properties.C13', 'Properties.C20Filter', 'Facts.Indexer', 'Facts.Block', 'Facts.EventSys', 'Facts.TieIndexer', 'Facts.TieMeta'],
    facts=['*'],
    theorems=['tie_tx_index_key', 'tie_tx_index_key_injective', 'tie_parse_block_number_roundtrip', 'tie_parse_block_number_refuses', 'tie_height_bytes_order', 'tie_tx_index_key_order_height', 'tie_tx_index_key_order_index', 'tie_indexer_is_eth_tx', 'tie_indexer_filter_is_lane', 'beToU64_u64ToBe', 'fact_translated_all', 'C14_filter_topics', 'topicLoop_spec', 'fact_filterlogs_guards', 'C14_lookup_by_hash', 'C14_lookup_by_index', 'C14_index_eq_consensus', 'C14_reindex_idempotent', 'C14_restart_skips_fails',
              'C14_restart_partial', 'C14_restart_resumes', 'indexFrom_get', 'indexFrom_get_other', 'cntBefore_eq_consensus', 'C13_txIndex', 'C13_logIndex',
              'C13_cumulativeGas', 'fact_one_batch_per_block', 'fact_restart_rule', 'fact_log_index_restored'],
    engines=[dict(name='genfuncs', test='TestEngineGenfuncs', quick=2000, thorough=100000, thorough_seeds=2, no_model=True),
             dict(name='indexer', test='TestEngineIndexer', quick=40, thorough=1200, thorough_seeds=2),
             dict(name='indexersvc', test='TestEngineIndexerService', quick=1, thorough=6, thorough_seeds=1, no_model=True),
             dict(name='logfilter', test='TestEngineLogfilter', quick=2000, thorough=100000, thorough_seeds=2)],
    rule='E-indexer: multi-transaction blocks of every outcome class (20 tx kinds of E-block, heavy blocks, undecodable bytes inserted at random positions) from the real FinalizeBlock are indexed by the real KVIndexer; every Ethereum hash of the block, an older hash, an unknown hash, every (block, index) up to two past the end and of neighbouring heights are looked up; one block in five is first indexed with an injected failure of the batch write, every block is indexed twice; the real JSON-RPC backend over the recorded blocks must report sender, status, gas used, cumulative gas, log indices and transaction index of the consensus results. E-indexersvc: the real EVMIndexerService is stopped before it hears of a block with Ethereum transactions and restarted on the same database (non-empty and empty). non-trivial = every block line; distinct by op-line hash',
    assumptions=['the CometBFT RPC client is replaced by a recorder serving the blocks and results of the real FinalizeBlock calls (block hash and header fields other than height are synthetic)',
                 'getBlock / getLogs views are covered through the same event parsing as the receipts; block-level RPC formatting is not compared field by field',
                 'goleveldb / memdb batch atomicity is trusted; the injected fault is a failing batch write',
                 'tx hashes are unique within the history (replay protection, C06)'],
)

NOT_APPLICABLE = {}

# what each check claims, in our own words (MANIFEST level_claimed.text)
LEVEL_TEXT = {
 'C01': 'Proof (model) + tie: order-independence theorems for every map the commit path consults and a deliver function that does not read node configuration, a regenerated census of nondeterminism sources in consensus packages (must equal the audited list), and twin / second-process re-execution of the same history on the real application (results, events and app hashes compared). The theorems are unbounded; that the real code has no other nondeterminism source is the census plus the re-execution, not a proof.',
 'C02': 'Partial proof: simulation theorems between the context StateDB model and a value-semantic go-ethereum-style reference for the write primitives, regenerated facts about the pinned fork, and differential execution of the real ApplyMessage against go-ethereum core.ApplyMessage on mirrored states. Opcode semantics are shared fork code, not modelled.',
 'C03': 'Proof over the StateDB / call-tree models (snapshot, revert, nested frames: a reverted frame leaves no trace in any store the model carries) + differential correspondence of the real StateDB and of real call trees through the interpreter.',
 'C04': 'Proof over the block / fee model (supply delta of every outcome class is exactly the burnt amount) + E-block (real FinalizeBlock, supply and balances observed per transaction) + differential against go-ethereum.',
 'C05': 'Proof over the block model: for each of the seven outcome classes the sender pays gas used x effective price (or nothing when refused); tied by E-block on real multi-transaction blocks.',
 'C06': 'Proof over the block / ante models (sequence +1 exactly on admission, replay refused, foreign chain / unprotected refused) + E-block and E-ante on the real ante handlers.',
 'C07': 'Proof over the ante-lane model (decision table of the dual-lane handler incl. nested authz) with regenerated handler-chain facts + E-ante differential on the real handler.',
 'C08': 'Proof over the query model (binary search of EstimateGas without monotonicity assumption; commit=false writes nothing) + E-binsearch and E-query on the real Query / CheckTx / Simulate paths with whole-store digests.',
 'C09': 'Proof: the base-fee function is transcribed and proved against EIP-1559 (exact increase / decrease, floor, totality for every MaxGas) with regenerated constants; tied by differential runs of the real keeper and by admission oracles in E-block.',
 'C10': 'Proof over the ERC-20 precompile model (each method is exactly the bank operation; failing calls are no-ops); the allowance clause is proved only per unscoped table (known finding F5) and stated as _partial; tied by E-erc20 / E-calltree.',
 'C11': 'Thin proof + twin execution: the dispatch model fixes who acts for whom and which logs are emitted (theorems for every call and every signature input); the effect on staking / distribution / bank is compared byte for byte with the SDK message servers on every call of generated histories.',
 'C12': 'Proof over the call-tree model for STATICCALL edges, with the full statement refuted by a witness (known finding F6, defect in the pinned fork); regenerated facts: declared read-only methods reach no write API, writers charge gas; E-calltree, static probes with all-store dumps, E-staking view checks.',
 'C13': 'Proof over the block model (tx index, log index, cumulative gas, status for every block) and over a model of the bloom filter (a receipt bloom has exactly the bits of its own logs, the block bloom is the union, for any hash) + E-block on the real FinalizeBlock, blooms recomputed in Lean with Keccak-256.',
 'C14': 'Proof over the indexer model (lookups agree with positions, idempotent, restart rule) with the restart clause partial (known finding F12) + the real KVIndexer, RPC backend and indexer service over recorded blocks.',
 'C15': 'Proof over the world / StateDB models (protected accounts survive every committed operation sequence; locked coins unspendable) + E-statedb differential incl. delayed, continuous and periodic vesting accounts.',
 'C16': 'Proof over the vauth model (a stored proof is unforgeable relative to ideal recovery, final, and gates vesting creation) + E-vauth / E-ante on real blocks.',
 'C17': 'Proof: registry invariant by induction over every operation sequence (type immutable, one ERC-20 per denom, version monotone, exposure = enabled set) + E-cpc on the real message server, keeper and both EVM construction paths.',
 'C18': 'Proof over the genesis model for what the modules export, with the lossy parts refuted by witnesses (known finding F10) + E-genesis: export, InitChain of a fresh application, second export.',
 'C19': 'Partial proof: decision logic of VerifySignature over ideal ECDSA / Keccak (one key, one message); injectivity of the EIP-712 rendering proved for an ideal hash (C19_document_injective: equal renderings => equal chain id, the same msgs array and the same other members, objects as maps) under hypotheses that the driver evaluates on every real sign document; the rendering itself is an executable Lean model (with Keccak-256 in Lean) compared digest for digest with the Go code. Unforgeability, collision resistance and BIP-32 conformance are assumptions / tests.',
 'C20': 'Partial proof: isolation of refused transactions and totality of end-of-block processing in the models, invariant proof of the event system channel protocol for every schedule (with regenerated lock-order facts and schedule replay on the real goroutines). Crash-freedom of decoding and execution for arbitrary bytes is explored (E-crash), not proved.',
}
HOOK_COMMITS = ['6892cbf4753434ae03c9f54a2d1a2dc6d5dfb558', '48ae13975a8de05cf1d0c8f44e7e45cc6a4855be',
                '13b05b91311645d4d4befea441819c79cc9804c4']


def engine_index():
    idx = {}
    for pid, c in PROPS.items():
        for e in c['engines']:
            ps, k = idx.setdefault(e['name'], (set(), e.get('kind', 'differential correspondence engine (real code in-process vs Lean driver)')))
            ps.add(pid)
    return idx
