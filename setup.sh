#!/bin/sh
# Builds the framework from files on disk only (offline): Lean project + driver, factgen, Go harness.
set -e
cd "$(dirname "$0")"
export GOFLAGS=-mod=mod GOPROXY=off GOSUMDB=off GOTOOLCHAIN=local
mkdir -p .cache evidence
(cd lean && lake build && lake build gendriver)
(cd factgen && go build -o ../.cache/factgen .)
cp /repo/go.sum harness/go.sum
(cd harness && go test -c -tags verif -o ../.cache/engines.test ./engines)
echo setup-ok
