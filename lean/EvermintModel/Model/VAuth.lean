import EvermintModel.Base.FMap
/-!
# x/vauth: proofs of external ownership (C16)

Transcribes `MsgSubmitProofExternalOwnedAccount.ValidateBasic`, the message server
`SubmitProofExternalOwnedAccount`, `SaveProofExternalOwnedAccount` + `ProofExternalOwnedAccount.ValidateBasic`
and the tx boundary of `BaseApp.runTx` (a panic or error under the handler drops the message cache).

Cryptography is symbolic: a signature is the triple (is it `0x`-prefixed hex with ≥ 1 byte?, what does
`Ecrecover(keccak(MessageToSign), sig)` give — `none` on error —, is its hex lower-case?).  The harness
evaluates these with go-ethereum's own `crypto` package, independently of `x/vauth/utils`.
-/
namespace Evermint.VAuth
open Evermint

structure Sig where
  wellFormed : Bool          -- "0x" prefix, valid hex, at least one byte
  recovers : Option Nat      -- address id recovered for the fixed message, none = Ecrecover error
  lower : Bool               -- the hex string is lower-case (demanded only by the stored proof's ValidateBasic)
deriving Repr, DecidableEq

structure Msg where
  submitter : Nat
  account : Nat
  sig : Sig
deriving Repr

def cost : Nat := 1000000000000000000

structure State where
  proofs : FMap (Option Sig)
  bal : FMap Nat
  supply : Nat

inductive Outcome where
  | ok | basic | conflict | funds | panic
deriving Repr, DecidableEq

/-- `MsgSubmitProofExternalOwnedAccount.ValidateBasic` (bech32 validity of both addresses is a
precondition of building the op) -/
def validateBasic (m : Msg) : Bool :=
  m.submitter != m.account && m.sig.wellFormed && m.sig.recovers == some m.account

/-- one submission delivered in a block (after the ante handler accepted the carrying transaction) -/
def submit (s : State) (m : Msg) : State × Outcome :=
  if !validateBasic m then (s, .basic) else
  if (s.proofs.get m.account).isSome then (s, .conflict) else
  if s.bal.get m.submitter < cost then (s, .funds) else
  -- fee moved to the module account and burnt, then the proof is saved with the stricter validation:
  -- a failure there is a panic, recovered at the tx boundary, which discards the whole message cache
  if !m.sig.lower then (s, .panic) else
  ({ proofs := s.proofs.set m.account (some m.sig),
     bal := s.bal.set m.submitter (s.bal.get m.submitter - cost),
     supply := s.supply - cost }, .ok)

def hasProof (s : State) (a : Nat) : Bool := (s.proofs.get a).isSome

def run (s : State) : List Msg → State
  | [] => s
  | m :: ms => run (submit s m).1 ms

end Evermint.VAuth
