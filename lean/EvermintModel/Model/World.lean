import EvermintModel.Base.FMap
/-!
# The world as seen by the EVM StateDB: auth accounts, bank, evm store, cpc allowances

Transcription notes: DESIGN.md appendix D.1 / D.5.  Addresses, storage keys, code blobs and
denominations are small naturals on the wire (ids assigned by the harness in *byte order* of
the real addresses, so that sorted iteration agrees).
Bank semantics modelled: keeper-level `SendCoins` (spendable check honouring vesting locks,
recipient account auto-created), `MintCoins` / `BurnCoins` on the EVM module account,
`SendCoinsFromModuleToAccount` (refuses block-listed recipients), event counts.
-/
namespace Evermint

abbrev Addr := Nat
abbrev Denom := Nat     -- 0 = EVM denomination
def evmDenom : Denom := 0
def nDenoms : Nat := 2

def pair (a b : Nat) : Nat := a * 4096 + b

inductive Kind where
  | base
  | module
  | vesting (endTime : Nat) (lockedEvm : Nat)   -- delayed vesting: `lockedEvm` of denom 0 locked until endTime
deriving Repr, DecidableEq

structure Acc where
  kind : Kind
  seq  : Nat
  num  : Nat
deriving Repr, DecidableEq

structure World where
  acc      : FMap (Option Acc)
  bal      : FMap Nat            -- key = pair addr denom
  supply   : FMap Nat            -- key = denom
  codeHash : FMap Nat            -- key = addr; 0 = no entry; otherwise a code id
  storage  : FMap (Option Nat)   -- key = pair addr key; `some 0` is a stored zero word
  allow    : FMap Nat            -- key = pair owner spender  (no token component: F5)
  nextAcc  : Nat
  events   : Nat                 -- number of events emitted into this context chain
  now      : Nat                 -- block time (header)
  evmMod   : Addr                -- address of the EVM module account
  blocked  : List Addr           -- bank block-list (all module accounts)

namespace World

def balOf (w : World) (a : Addr) (d : Denom) : Nat := w.bal.get (pair a d)
def setBal (w : World) (a : Addr) (d : Denom) (n : Nat) : World := { w with bal := w.bal.set (pair a d) n }
def hasAcc (w : World) (a : Addr) : Bool := (w.acc.get a).isSome

/-- `NewAccountWithAddress` + `SetAccount` when absent -/
def ensureAcc (w : World) (a : Addr) : World :=
  if w.hasAcc a then w
  else { w with acc := w.acc.set a (some { kind := .base, seq := 0, num := w.nextAcc }), nextAcc := w.nextAcc + 1 }

/-- coins locked by vesting as of the block time -/
def locked (w : World) (a : Addr) (d : Denom) : Nat :=
  match w.acc.get a with
  | some { kind := .vesting endT l, .. } => if d = evmDenom ∧ w.now < endT then l else 0
  | _ => 0

def spendable (w : World) (a : Addr) (d : Denom) : Nat := w.balOf a d - min (w.balOf a d) (w.locked a d)

/-- keeper-level `SendCoins` of one positive coin. Events: coin_spent, coin_received, transfer, message. -/
def sendCoins (w : World) (from_ to : Addr) (d : Denom) (n : Nat) : Except String World :=
  if w.spendable from_ d < n then .error "insufficient-funds" else
  let w1 := w.setBal from_ d (w.balOf from_ d - n)
  let w2 := w1.setBal to d (w1.balOf to d + n)
  let w3 := w2.ensureAcc to
  .ok { w3 with events := w3.events + 4 }

/-- `MintCoins(evm, n)`: supply and module balance up. Events: coin_received, coinbase. -/
def mint (w : World) (d : Denom) (n : Nat) : World :=
  let w1 := w.setBal w.evmMod d (w.balOf w.evmMod d + n)
  { w1 with supply := w1.supply.set d (w1.supply.get d + n), events := w1.events + 2 }

/-- `BurnCoins(evm, n)`. Events: coin_spent, burn. -/
def burn (w : World) (d : Denom) (n : Nat) : Except String World :=
  if w.balOf w.evmMod d < n then .error "burn-insufficient" else
  let w1 := w.setBal w.evmMod d (w.balOf w.evmMod d - n)
  .ok { w1 with supply := w1.supply.set d (w1.supply.get d - n), events := w1.events + 2 }

/-- StateDB `mintCoins(addr, coin)`: Mint to the EVM module, then module→account (block-list!) -/
def mintTo (w : World) (a : Addr) (d : Denom) (n : Nat) : Except String World :=
  if n = 0 then .ok w else
  if w.blocked.contains a then .error "blocked-recipient" else
  (w.mint d n).sendCoins w.evmMod a d n

/-- StateDB `burnCoins(addr, coin)`: account→module (honours vesting locks), then Burn -/
def burnFrom (w : World) (a : Addr) (d : Denom) (n : Nat) : Except String World :=
  if n = 0 then .ok w else do
  let w1 ← w.sendCoins a w.evmMod d n
  w1.burn d n

def storageKeysOf (w : World) (a : Addr) : List Nat :=
  (w.storage.l.filter (fun e => e.1 / 4096 == a && e.2.isSome)).map (fun e => e.1 % 4096)

def hasStorage (w : World) (a : Addr) : Bool := !(w.storageKeysOf a).isEmpty

/-- `Keeper.IsEmptyAccount`: no code hash, zero in **all** denominations, sequence 0, no storage entry -/
def isEmpty (w : World) (a : Addr) : Bool :=
  w.codeHash.get a == 0 &&
  (List.range nDenoms).all (fun d => w.balOf a d == 0) &&
  (match w.acc.get a with | some ac => ac.seq == 0 | none => true) &&
  !w.hasStorage a

/-- destroy guard (`CheckIfAccountIsSuitableForDestroyingAt(acc, blockTime)`) -/
def destroyable (w : World) (a : Addr) : Bool :=
  match w.acc.get a with
  | none => true
  | some { kind := .module, .. } => false
  | some { kind := .vesting endT _, .. } => !(endT > w.now)
  | some _ => true

/-- burn the balances of every denomination (one `SendCoins` + one `BurnCoins` with multi-denom coins) -/
def burnAll (w : World) (a : Addr) : Except String World :=
  let ds := (List.range nDenoms).filter (fun d => w.balOf a d > 0)
  if ds.isEmpty then .ok w else
  if ds.any (fun d => w.spendable a d < w.balOf a d) then .error "insufficient-funds" else
  let w1 := ds.foldl (fun (w : World) d =>
      let n := w.balOf a d
      let w := w.setBal a d 0
      w.setBal w.evmMod d (w.balOf w.evmMod d + n)) w
  let w1 := { w1 with events := w1.events + 4 }
  -- burn
  let w2 := ds.foldl (fun (w' : World) d =>
      let n := w.balOf a d
      let w' := w'.setBal w'.evmMod d (w'.balOf w'.evmMod d - n)
      { w' with supply := w'.supply.set d (w'.supply.get d - n) }) w1
  .ok { w2 with events := w2.events + 2 }

/-- `cStateDb.DestroyAccount` -/
def destroyAccount (w : World) (a : Addr) : Except String World :=
  if !w.destroyable a then .error "protected-account" else do
  let w1 : World := { w with acc := w.acc.set a none }
  let w2 ← w1.burnAll a
  .ok { w2 with codeHash := w2.codeHash.set a 0,
                storage := w2.storage.eraseIf (fun k => k / 4096 == a) }

end World
end Evermint
