import EvermintModel.Model.Keccak
/-!
# Log bloom filters (go-ethereum `core/types/bloom9.go`, as used by evermint's receipts and `EndBlock`)

A bloom is a 2048-bit number.  Every log contributes its address and each of its topics; an item sets the three
bits `((h[2k] * 256 + h[2k+1]) mod 2048)`, `k = 0, 1, 2`, of the big-endian number, where `h` is the Keccak-256 of the
item (`bloomValues`: byte `256 - 1 - bit / 8`, mask `1 <<< (bit mod 8)` — i.e. bit `bit` of the number).  A receipt's
bloom is the union over its logs (`CreateBloom` / `LogsBloom`); the block bloom is accumulated in the transient store
as `bloom := bloom OR receiptBloom` (`SetBlockBloomTransient` in `x/evm/keeper`) and emitted by `EndBlock`.

The hash is a parameter of the definitions (`H`), so that the theorems hold for any hash function; the driver
instantiates it with the Keccak-256 of `Model/Keccak.lean` and is compared bit for bit with the real receipts.
-/
namespace Evermint.Bloom

structure Log where
  address : List UInt8
  topics : List (List UInt8)
deriving Repr, DecidableEq

abbrev Hash := List UInt8 → List UInt8

def byteAt (h : List UInt8) (i : Nat) : Nat := (h.getD i 0).toNat

/-- the three bit positions of one item -/
def bits (H : Hash) (item : List UInt8) : List Nat :=
  let h := H item
  [(byteAt h 0 * 256 + byteAt h 1) % 2048, (byteAt h 2 * 256 + byteAt h 3) % 2048, (byteAt h 4 * 256 + byteAt h 5) % 2048]

/-- `Bloom.add` -/
def addItem (H : Hash) (b : Nat) (item : List UInt8) : Nat := (bits H item).foldl (fun acc i => acc ||| (1 <<< i)) b

/-- the items of a log: its address, then its topics -/
def items (l : Log) : List (List UInt8) := l.address :: l.topics

def addLog (H : Hash) (b : Nat) (l : Log) : Nat := (items l).foldl (addItem H) b

/-- `LogsBloom` / `CreateBloom` of one receipt -/
def logsBloom (H : Hash) (logs : List Log) : Nat := logs.foldl (addLog H) 0

/-- the block bloom as `EndBlock` emits it: receipts folded in block order with OR -/
def blockBloom (H : Hash) (receipts : List (List Log)) : Nat := receipts.foldl (fun acc r => acc ||| logsBloom H r) 0

/-- membership test (`Bloom.Test`) -/
def test (H : Hash) (b : Nat) (item : List UInt8) : Bool := (bits H item).all (fun i => b.testBit i)

end Evermint.Bloom
