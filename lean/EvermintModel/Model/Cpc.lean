import EvermintModel.Base.KMap
/-!
# Custom-precompile registry (C17)

Transcribes `/repo/x/cpc`: `genesis.go` (InitGenesis flags), `keeper/msg_server.go` (`validateDeployer`,
the two deploy messages, `UpdateParams`), `keeper/params.go` (`SetParams`: no downgrade),
`keeper/precompiles.go` (`SetCustomPrecompiledContractMeta` new / update, dynamic address from the module
account sequence), `keeper/precompiles_erc20.go` (`DeployErc20…`: one per denom, positive supply, reverse
index) and the wiring of `/repo/x/evm/keeper/state_transition.go NewEVM` (every stored contract, with its
`Disabled` flag, into every new EVM).  Addresses, denominations and senders are small ids;
`createAddr : Nat → Nat` stands for `crypto.CreateAddress(cpcModule, nonce)`.
-/
namespace Evermint.Cpc
open Evermint

def tyErc20 : Nat := 1
def tyStaking : Nat := 2
def tyBech32 : Nat := 3
def latestVersion : Nat := 1
def stakingAddr : Nat := 1001
def bech32Addr : Nat := 1002
/-- dynamic addresses live in their own range (CreateAddress is a hash; collision-freedom with the two
fixed addresses and injectivity in the nonce are the assumptions recorded here) -/
def createAddr (nonce : Nat) : Nat := 2000 + nonce

structure Meta where
  ty : Nat
  denom : Nat        -- meaningful for ERC-20 only
  disabled : Bool
deriving DecidableEq, Repr

structure State where
  version : Nat
  whitelist : List Nat
  metas : KMap Nat (Option Meta)
  idx : KMap Nat (Option Nat)      -- denom ↦ address of its ERC-20 precompile
  seq : Nat                        -- cpc module account sequence

inductive Op where
  | deployErc20 (sender denom : Nat) (metaValid supplyPositive : Bool)
  | deployStaking (sender : Nat) (metaValid : Bool)
  | updateParams (authorityOK paramsValid : Bool) (version : Nat) (whitelist : List Nat)
  | setDisabled (addr : Nat) (disabled : Bool)     -- keeper-level metadata update (upgrade handlers)
deriving Repr

inductive Out where
  | ok (addr : Nat) | unauthorized | invalid | conflict | zeroSupply | inUse | missing | downgrade
deriving DecidableEq, Repr

def empty : State := { version := 0, whitelist := [], metas := KMap.empty none, idx := KMap.empty none, seq := 0 }

/-- `SetCustomPrecompiledContractMeta(meta, newDeployment = true)` -/
def addNew (s : State) (a : Nat) (m : Meta) : Option State :=
  if (s.metas.get a).isSome then none else some { s with metas := s.metas.set a (some m) }

/-- one message / keeper call; a failing op leaves the state as it was (tx atomicity) -/
def step (s : State) : Op → State × Out
  | .deployErc20 sender denom metaValid supplyPositive =>
    if !s.whitelist.contains sender then (s, .unauthorized) else
    if !metaValid then (s, .invalid) else
    if (s.idx.get denom).isSome then (s, .conflict) else
    if !supplyPositive then (s, .zeroSupply) else
    let a := createAddr s.seq
    match addNew { s with seq := s.seq + 1 } a ⟨tyErc20, denom, false⟩ with
    | none => (s, .inUse)
    | some s1 => ({ s1 with idx := s1.idx.set denom (some a) }, .ok a)
  | .deployStaking sender metaValid =>
    if !s.whitelist.contains sender then (s, .unauthorized) else
    if !metaValid then (s, .invalid) else
    match addNew s stakingAddr ⟨tyStaking, 0, false⟩ with
    | none => (s, .inUse)
    | some s1 => (s1, .ok stakingAddr)
  | .updateParams authorityOK paramsValid version whitelist =>
    if !authorityOK then (s, .unauthorized) else
    if !paramsValid || version = 0 || version > latestVersion then (s, .invalid) else
    if s.version > version then (s, .downgrade) else
    ({ s with version := version, whitelist := whitelist }, .ok 0)
  | .setDisabled a d =>
    match s.metas.get a with
    | none => (s, .missing)
    | some m => ({ s with metas := s.metas.set a (some { m with disabled := d }) }, .ok a)

def addBech32 (s : State) : State := { s with metas := s.metas.set bech32Addr (some ⟨tyBech32, 0, false⟩) }

/-- `InitGenesis` on an empty store: params, optional native ERC-20 for the bond denom (needs positive
supply — otherwise the chain does not start), optional staking contract, always bech32.  The deployments
use the keeper functions directly (no whitelist check): modelled by a temporary whitelist `[0]`. -/
def genesis (version : Nat) (whitelist : List Nat) (erc20Native staking : Bool) (bond : Nat) : State :=
  let s0 : State := { empty with version := version, whitelist := [0] }
  let s1 := if erc20Native then (step s0 (.deployErc20 0 bond true true)).1 else s0
  let s2 := if staking then (step s1 (.deployStaking 0 true)).1 else s1
  { addBech32 s2 with whitelist := whitelist }

def run (s : State) (ops : List Op) : State := ops.foldl (fun s o => (step s o).1) s

/-- `NewEVM`: a contract is callable iff it is stored and not disabled (the fork's `RunPrecompiledContract`
refuses a disabled one) -/
def callable (s : State) (a : Nat) : Bool :=
  match s.metas.get a with
  | some m => !m.disabled
  | none => false

end Evermint.Cpc
