/-!
# `FilterLogs` — which logs a filter criterion selects (C14, C20)

Transcribes `/repo/rpc/namespaces/ethereum/eth/filters/utils.go` `FilterLogs`: block range (a missing or
negative bound is no bound), address list (empty = any), the length guard, positional topic alternatives with
wildcards.  `log.Topics[i]` is an indexing operation that panics when out of range — in a goroutine without
recovery, i.e. the node process dies — so the transcription makes it explicit: `none` = panic.
-/
namespace Evermint.LogFilter

structure Log where
  addr : Nat
  topics : List Nat
  block : Nat
deriving Repr, DecidableEq

structure Crit where
  fromB : Option Int
  toB : Option Int
  addrs : List Nat
  topics : List (List Nat)
deriving Repr

/-- the loop over the positional alternatives, from position `i`; `none` = `log.Topics[i]` out of range -/
def topicLoop (lt : List Nat) : Nat → List (List Nat) → Option Bool
  | _, [] => some true
  | i, sub :: rest =>
    if sub.isEmpty then topicLoop lt (i + 1) rest          -- empty rule set = wildcard, nothing is indexed
    else match lt[i]? with
      | none => none
      | some t => if sub.contains t then topicLoop lt (i + 1) rest else some false

def belowFrom (c : Crit) (l : Log) : Bool := match c.fromB with | some f => decide (f ≥ 0) && decide (f.toNat > l.block) | none => false
def aboveTo (c : Crit) (l : Log) : Bool := match c.toB with | some t => decide (t ≥ 0) && decide (t.toNat < l.block) | none => false
def addrOut (c : Crit) (l : Log) : Bool := !c.addrs.isEmpty && !c.addrs.contains l.addr
def tooLong (c : Crit) (l : Log) : Bool := decide (c.topics.length > l.topics.length)

/-- one log against the criterion; `guarded = false` drops the length guard (to show what it is for) -/
def selects (guarded : Bool) (c : Crit) (l : Log) : Option Bool :=
  if belowFrom c l then some false else
  if aboveTo c l then some false else
  if addrOut c l then some false else
  if guarded && tooLong c l then some false else
  topicLoop l.topics 0 c.topics

/-- `FilterLogs`: indices of the selected logs, or `none` if the evaluation panics -/
def filterLogs (c : Crit) (logs : List Log) : Option (List Log) :=
  logs.foldr (fun l acc => match selects true c l, acc with
    | some true, some r => some (l :: r)
    | some false, some r => some r
    | _, _ => none) (some [])

/-- the declarative meaning of the positional topic rule -/
def topicsOK (c : Crit) (l : Log) : Prop :=
  c.topics.length ≤ l.topics.length ∧
  ∀ (i : Nat) (sub : List Nat), c.topics[i]? = some sub → sub = [] ∨ ∃ t, l.topics[i]? = some t ∧ t ∈ sub

end Evermint.LogFilter
