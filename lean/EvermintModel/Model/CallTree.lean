import EvermintModel.Model.Erc20
/-!
# Call trees reaching custom precompiles (C12; also the call-tree form of C03 / C10)

A frame is a list of actions executed by a contract whose address is `self`:
* `pc k tok m` — a call of kind `k` into the ERC-20 precompile `tok` with method `m`;
* `sub k target body rev` — a call of kind `k` into another contract running `body`; `rev` says whether
  that frame ends with REVERT (all its effects vanish — C03) or returns.

The write protection mirrors the pinned fork: `RunPrecompiledContract(p, evm, caller, addr, input, gas,
readOnly)` receives the **literal** `true` only from `EVM.StaticCall` and `false` from `Call`, `CallCode`,
`DelegateCall` (regenerated as `Facts.Gen.forkRunPrecompiledReadOnlyArg`), and `RunCustom` refuses iff
`readOnly && !method.ReadOnly` (`Facts.Gen.forkRunCustomGuards`).  The interpreter's inherited
read-only flag is *not* consulted.  The caller seen by the precompile is the calling frame's own address
for all four kinds; `self` changes on CALL / STATICCALL and is kept on DELEGATECALL / CALLCODE.
-/
namespace Evermint.CallTree
open Evermint Evermint.Erc20

inductive Kind where
  | call | staticcall | delegatecall | callcode
deriving DecidableEq, Repr

inductive Act where
  | pc (k : Kind) (tok : Nat) (m : Method)
  | sub (k : Kind) (target : Nat) (body : List Act) (rev : Bool)

def isWrite : Method → Bool
  | .balanceOf _ => false
  | .totalSupply => false
  | .allowance _ _ => false
  | _ => true

/-- the `readOnly` argument at the fork's call site for this kind of edge -/
def readOnlyArg : Kind → Bool
  | .staticcall => true
  | _ => false

structure St where
  s : State
  logs : List Log

def callPc (x : St) (self : Nat) (k : Kind) (tok : Nat) (m : Method) : St :=
  if readOnlyArg k && isWrite m then x       -- `RunCustom` refuses: the sub-call fails, nothing changes
  else
    match step x.s ⟨tok, self, m⟩ with
    | (s', .ok _ l) => { s := s', logs := x.logs ++ l.toList }
    | (_, .revert) => x

def nextSelf (self : Nat) (k : Kind) (target : Nat) : Nat :=
  match k with
  | .call => target
  | .staticcall => target
  | _ => self

mutual
def execAct (x : St) (self : Nat) : Act → St
  | .pc k tok m => callPc x self k tok m
  | .sub k target body rev =>
    let r := execList x (nextSelf self k target) body
    if rev then x else r
def execList (x : St) (self : Nat) : List Act → St
  | [] => x
  | a :: as => execList (execAct x self a) self as
end

end Evermint.CallTree
