/-!
# Keccak-256 (the pre-NIST padding Ethereum uses), executable, core Lean only

Used by the executable EIP-712 model so that the Lean side computes the very digest the Go code signs
(`Driver/Crypto.lean`); tied to go-ethereum's `crypto.Keccak256` by E-crypto on random inputs of every length
class around the 136-byte rate.  No theorem depends on this file: the injectivity theorems of C19 are stated
over an abstract, injective hash (`Properties/C19.lean`).
-/
namespace Evermint.Keccak

def roundConstants : Array UInt64 := #[
  0x0000000000000001, 0x0000000000008082, 0x800000000000808A, 0x8000000080008000,
  0x000000000000808B, 0x0000000080000001, 0x8000000080008081, 0x8000000000008009,
  0x000000000000008A, 0x0000000000000088, 0x0000000080008009, 0x000000008000000A,
  0x000000008000808B, 0x800000000000008B, 0x8000000000008089, 0x8000000000008003,
  0x8000000000008002, 0x8000000000000080, 0x000000000000800A, 0x800000008000000A,
  0x8000000080008081, 0x8000000000008080, 0x0000000080000001, 0x8000000080008008]

/-- rotation offsets, indexed `x + 5*y` -/
def rotations : Array Nat := #[
  0, 1, 62, 28, 27,
  36, 44, 6, 55, 20,
  3, 10, 43, 25, 39,
  41, 45, 15, 21, 8,
  18, 2, 61, 56, 14]

@[inline] def rotl (x : UInt64) (n : Nat) : UInt64 :=
  if n % 64 = 0 then x else (x <<< (n % 64).toUInt64) ||| (x >>> (64 - n % 64).toUInt64)

@[inline] def lane (a : Array UInt64) (x y : Nat) : UInt64 := a.getD (x % 5 + 5 * (y % 5)) 0

def round (a : Array UInt64) (rc : UInt64) : Array UInt64 := Id.run do
  -- θ
  let c : Array UInt64 := (Array.range 5).map (fun x => lane a x 0 ^^^ lane a x 1 ^^^ lane a x 2 ^^^ lane a x 3 ^^^ lane a x 4)
  let d : Array UInt64 := (Array.range 5).map (fun x => c.getD ((x + 4) % 5) 0 ^^^ rotl (c.getD ((x + 1) % 5) 0) 1)
  let a1 : Array UInt64 := (Array.range 25).map (fun i => a.getD i 0 ^^^ d.getD (i % 5) 0)
  -- ρ and π :  B[y, 2x+3y] = rot(A[x,y], r[x,y])
  let mut b : Array UInt64 := Array.replicate 25 0
  for i in [0:25] do
    let x := i % 5
    let y := i / 5
    b := b.set! (y + 5 * ((2 * x + 3 * y) % 5)) (rotl (a1.getD i 0) (rotations.getD i 0))
  -- χ
  let a2 : Array UInt64 := (Array.range 25).map (fun i =>
    let x := i % 5
    let y := i / 5
    lane b x y ^^^ ((~~~ lane b (x + 1) y) &&& lane b (x + 2) y))
  -- ι
  return a2.set! 0 (a2.getD 0 0 ^^^ rc)

def permute (a : Array UInt64) : Array UInt64 := roundConstants.foldl round a

def rate : Nat := 136

/-- little-endian 8 bytes → lane -/
def laneOfBytes (bs : List UInt8) : UInt64 :=
  (bs.take 8).reverse.foldl (fun acc b => (acc <<< 8) ||| b.toUInt64) 0

def bytesOfLane (w : UInt64) : List UInt8 :=
  (List.range 8).map (fun i => (w >>> (8 * i).toUInt64).toUInt8)

def absorbBlock (st : Array UInt64) (block : List UInt8) : Array UInt64 :=
  let rec go (i : Nat) (bs : List UInt8) (st : Array UInt64) (fuel : Nat) : Array UInt64 :=
    match fuel with
    | 0 => st
    | fuel + 1 =>
      if bs.isEmpty then st else go (i + 1) (bs.drop 8) (st.set! i (st.getD i 0 ^^^ laneOfBytes bs)) fuel
  permute (go 0 block st 17)

/-- Keccak padding `0x01 … 0x80` to a multiple of the rate -/
def pad (msg : List UInt8) : List UInt8 :=
  let r := rate - msg.length % rate
  if r = 1 then msg ++ [0x81] else msg ++ [0x01] ++ List.replicate (r - 2) 0 ++ [0x80]

def blocks (bs : List UInt8) (fuel : Nat) : List (List UInt8) :=
  match fuel with
  | 0 => []
  | fuel + 1 => if bs.isEmpty then [] else bs.take rate :: blocks (bs.drop rate) fuel

def keccak256 (msg : List UInt8) : List UInt8 :=
  let p := pad msg
  let st := (blocks p (p.length / rate + 1)).foldl absorbBlock (Array.replicate 25 0)
  ((List.range 4).map (fun i => bytesOfLane (st.getD i 0))).flatten

def hexDigit (n : Nat) : Char := if n < 10 then Char.ofNat (48 + n) else Char.ofNat (87 + n)
def toHex (bs : List UInt8) : String := String.ofList (bs.flatMap (fun b => [hexDigit (b.toNat / 16), hexDigit (b.toNat % 16)]))
def hexVal (c : Char) : Option Nat :=
  if '0' ≤ c ∧ c ≤ '9' then some (c.toNat - 48) else if 'a' ≤ c ∧ c ≤ 'f' then some (c.toNat - 87) else if 'A' ≤ c ∧ c ≤ 'F' then some (c.toNat - 55) else none
def ofHex (s : String) : Option (List UInt8) :=
  let rec go : List Char → Option (List UInt8)
    | [] => some []
    | [_] => none
    | a :: b :: rest => do
      let x ← hexVal a
      let y ← hexVal b
      let r ← go rest
      pure ((x * 16 + y).toUInt8 :: r)
  go s.toList

end Evermint.Keccak
