/-!
# Gas estimation (C08)

`evmtypes.BinSearch` (`/repo/x/evm/types/utils.go`) and the surrounding logic of `Keeper.EstimateGas`
(`/repo/x/evm/keeper/grpc_query.go`): `executable gas` runs the message on a branch of the query context
with `commit = false` and answers `failed?` (VM error, or intrinsic-gas shortage) or a consensus error.
Nothing is assumed about `executable` — in particular no monotonicity in the gas (63/64 rule,
gas-dependent branches and refunds make it non-monotone).
-/
namespace Evermint.Query

/-- `executable`: `none` = consensus error (bail out), `some failed` -/
abbrev Exec := Nat → Option Bool

/-- `BinSearch(lo, hi, executable)`; `none` = error returned -/
def binSearch (exec : Exec) (lo hi : Nat) : Option Nat :=
  if _h : lo + 1 < hi then
    let mid := (hi + lo) / 2
    match exec mid with
    | none => none
    | some true => binSearch exec mid hi
    | some false => binSearch exec lo mid
  else some hi
termination_by hi - lo
decreasing_by all_goals omega

inductive Estimate where
  | gas (g : Nat)
  | error          -- consensus error, VM error at the cap, or "gas required exceeds allowance"
deriving DecidableEq, Repr

/-- `EstimateGas` after the cap `hi = gasCap` has been determined; `lo = TxGas − 1` -/
def estimate (exec : Exec) (lo cap : Nat) : Estimate :=
  match binSearch exec lo cap with
  | none => .error
  | some h =>
    if h = cap then
      match exec h with
      | some false => .gas h
      | _ => .error
    else .gas h

/-- the upper bound of the search, as `EstimateGas` determines it: the caller's gas if it is at least 21 000, else
the block gas limit if there is one, else the gas cap of the request (`rawBound`); then capped by the request's gas cap -/
def rawBound (argsGas : Option Nat) (maxGas : Int) (reqCap : Nat) : Nat :=
  match argsGas with
  | some g => if g ≥ 21000 then g else (if maxGas > 0 then maxGas.toNat else reqCap)
  | none => if maxGas > 0 then maxGas.toNat else reqCap

def searchBound (argsGas : Option Nat) (maxGas : Int) (reqCap : Nat) : Nat :=
  if reqCap ≠ 0 ∧ rawBound argsGas maxGas reqCap > reqCap then reqCap else rawBound argsGas maxGas reqCap

/-- `EstimateGas`: `gasCap` is the bound *after* the recap (`gasCap = hi` follows the recap in the source) -/
def estimateGas (exec : Exec) (argsGas : Option Nat) (maxGas : Int) (reqCap : Nat) : Estimate :=
  estimate exec 20999 (searchBound argsGas maxGas reqCap)

/-- what a stale `gasCap` (remembered before the recap) does: the bound itself is returned without ever having run -/
def estimateGasStale (exec : Exec) (argsGas : Option Nat) (maxGas : Int) (reqCap : Nat) : Estimate :=
  let hi := searchBound argsGas maxGas reqCap
  let stale := searchBound argsGas maxGas 0
  match binSearch exec 20999 hi with
  | none => .error
  | some h => if h = stale then (match exec h with | some false => .gas h | _ => .error) else .gas h

end Evermint.Query
