/-!
# The context-based StateDB, generically

Transcribes the *stack discipline* of `/repo/x/evm/vm/state_db.go`
(`NewStateDB`, `Snapshot`, `RevertToSnapshot`, `CommitMultiStore`) over an arbitrary world
type `W` (whatever lives in the branched `sdk.Context`: every module's store **and** the event
manager) and an arbitrary journaled-state type `J` (`touched, refund, selfDestructed,
accessList, logs, transientStorage`).

* A cache context is a *value copy* of its parent (cachekv's contract, exercised by E-statedb).
* Every write — by the StateDB's own setters or by a precompile through
  `GetCurrentContext()` — is `upd h`, an arbitrary function of the *current* view and the
  journaled state.  Nothing about `h` is assumed, so bank, allowance, staking and distribution
  effects are all covered without being interpreted.
* Snapshots are never popped on success (one cache layer per `evm.Call`), exactly as in the Go code.
* The stack is kept top-first: `top` is `snapshots[len−1]` (its context is `currentCtx`),
  `below` are the older ones, the last element of `below` (or `top` itself) is the id −1
  snapshot created by `NewStateDB`.
-/
namespace Evermint.CDbG

structure Snap (W J : Type) where
  id    : Int
  view  : W
  saved : J

structure CDb (W J : Type) where
  orig  : W                 -- originalCtx: never written by the StateDB
  top   : Snap W J
  below : List (Snap W J)
  j     : J

variable {W J : Type}

/-- `NewStateDB(ctx)` -/
def new (w : W) (j0 : J) : CDb W J :=
  { orig := w, top := { id := -1, view := w, saved := j0 }, below := [], j := j0 }

/-- the view of `currentCtx` -/
def CDb.cur (s : CDb W J) : W := s.top.view

/-- any write through the current context, together with any change of the journaled fields -/
def CDb.upd (s : CDb W J) (h : W → J → W × J) : CDb W J :=
  let r := h s.top.view s.j
  { s with top := { s.top with view := r.1 }, j := r.2 }

/-- `Snapshot()`: id = len(snapshots) − 1 before the append; branch from the current context;
copies of the journaled fields -/
def CDb.snapshot (s : CDb W J) : CDb W J × Int :=
  let id : Int := (s.below.length : Int)        -- len(snapshots) − 1
  ({ s with top := { id := id, view := s.top.view, saved := s.j }, below := s.top :: s.below }, id)

/-- pop until the snapshot with the wanted id is on top, then re-branch it from its parent and
restore the saved journaled fields.  `none` is the Go panic. -/
def revertGo (id : Int) (top : Snap W J) : List (Snap W J) → Option (Snap W J × List (Snap W J))
  | [] => none                                   -- reached snapshots[0] (id −1): not revertible
  | p :: below =>
    if top.id = id then some ({ top with view := p.view }, p :: below)
    else revertGo id p below

/-- `RevertToSnapshot(id)` -/
def CDb.revert (s : CDb W J) (id : Int) : Option (CDb W J) :=
  if id < 0 then none else
  match revertGo id s.top s.below with
  | none => none
  | some (t, b) => some { s with top := t, below := b, j := t.saved }

/-- `CommitMultiStore`: layers are written innermost-first into their parents; with value-copy
layers the result is the innermost view. (The destroy loop is an `upd` done before.) -/
def CDb.commitWorld (s : CDb W J) : W := s.top.view

/-! ## Generic operations and runs -/

inductive Op (W J : Type) where
  | upd (h : W → J → W × J)
  | snapshot
  | revert (id : Int)

def CDb.step (s : CDb W J) : Op W J → Option (CDb W J)
  | .upd h => some (s.upd h)
  | .snapshot => some s.snapshot.1
  | .revert id => s.revert id

def CDb.run (s : CDb W J) : List (Op W J) → Option (CDb W J)
  | [] => some s
  | o :: os => match s.step o with
    | none => none
    | some s' => s'.run os

/-! ## The code's index-based lookup (`snapshots[id+1]`, `snapshots[id]`), for the record.
`snapsBottomFirst` is the Go slice. -/
def CDb.snapsBottomFirst (s : CDb W J) : List (Snap W J) := (s.top :: s.below).reverse

def CDb.revertIdx (s : CDb W J) (id : Int) : Option (CDb W J) :=
  if id < 0 then none else
  let l := s.snapsBottomFirst
  let k := id.toNat
  match l[k+1]?, l[k]? with
  | some sn, some parent =>
    if sn.id ≠ id then none else
    let sn' : Snap W J := { sn with view := parent.view }
    some { s with top := sn', below := (l.take (k+1)).reverse, j := sn.saved }
  | _, _ => none

end Evermint.CDbG
