/-!
# Lane decisions of the composed ante handler (C07; the vesting gate of C16)

Transcribes `/repo/app/antedl`: `utils/tx.go` (`HasSingleEthereumMessage`, `IsEthereumTx`),
`duallane/01..05`, `evmlane/03e`, `cosmoslane/991c, 992c, 993c`, in the order of `ante.go`
(regenerated as `Facts.Gen.anteChain`, see `Facts/Ante.lean`).

Decorators that do not take part in the lane decision (size gas, fee deduction, pub-key, signature
count / gas / verification, sequence increment, IBC relay, execution set-up, event, trial execution)
are *not* interpreted here: their verdict enters as `late` (observed).  What is computed is which
lane a transaction takes and every shape rule of the property.
-/
namespace Evermint.Ante

/-- messages, as far as the lane rules look at them. `url` ids: the four entries of
`WithDefaultDisabledNestedMsgs` are 0 (MsgEthereumTx), 1, 2, 3 (vesting kinds); anything else ≥ 4. -/
inductive Msg where
  | eth : Msg
  | exec : List Msg → Msg          -- authz.MsgExec
  | grant : Nat → Msg              -- authz.MsgGrant, by the MsgTypeURL of its authorization
  | vesting : Nat → Nat → Msg      -- kind 0..2, `to` address id
  | other : Nat → Msg              -- any other message, by url id

def disabledUrls : List Nat := [0, 1, 2, 3]
def maxNestedLevels : Nat := 3

def Msg.url : Msg → Nat
  | .eth => 0
  | .vesting k _ => 1 + k
  | .exec _ => 4
  | .grant _ => 5
  | .other u => u

def Msg.isEth : Msg → Bool
  | .eth => true
  | _ => false

def isDisabledUrl (u : Nat) : Bool := disabledUrls.contains u

/-- what `03_validate_basic` reads from the embedded Ethereum transaction (observed by the harness
with the repository's own functions; the arithmetic of these is C05/C06/C09 territory) -/
structure EthFields where
  msgBasicOK : Bool      -- MsgEthereumTx.ValidateBasic() = nil
  asMessageOK : Bool     -- ethTx.AsMessage(signer, baseFee) = nil
  create : Bool          -- To == nil
  prot : Bool            -- EIP-155 replay protected
  fee : Nat              -- evmutils.EthTxFee = gas × (fee cap | gas price)
  gas : Nat
  fromEmpty : Bool
  senderHasCode : Bool

structure Tx where
  msgs : List Msg
  eth : EthFields
  extOpts : List Nat     -- critical extension options: 0 = ExtensionOptionsEthereumTx, 1 = ExtensionOptionDynamicFeeTx, ≥ 2 foreign
  nonCrit : Nat          -- number of non-critical extension options
  sigs : Nat
  signerInfos : Nat
  payer : Bool           -- AuthInfo.Fee.Payer ≠ ""
  granter : Bool
  memo : Bool            -- Body.Memo ≠ ""
  timeout : Nat
  feeCoins : List (Nat × Nat)   -- AuthInfo.Fee.Amount as (denom id, amount); denom 0 = EVM denom
  gasLimit : Nat
  txBasicOK : Bool       -- sdk tx.ValidateBasic() is nil or ErrNoSignatures (SDK code, observed)

inductive Mode where
  | check | recheck | simulate | deliver
deriving DecidableEq, Repr

structure Params where
  enableCreate : Bool := true
  enableCall : Bool := true

/-- `HasSingleEthereumMessage` -/
def hasSingleEth (t : Tx) : Bool :=
  match t.msgs with
  | [m] => m.isEth
  | _ => false

/-- `IsEthereumTx` -/
def isEthereumTx (t : Tx) : Bool :=
  hasSingleEth t && t.nonCrit == 0 && (t.extOpts == [] || t.extOpts == [0])

/-- `sdk.NewCoins(sdk.NewCoin(evmDenom, fee))`: a zero coin is dropped -/
def coinsOfFee (fee : Nat) : List (Nat × Nat) := if fee = 0 then [] else [(0, fee)]

mutual
/-- `checkDisabledMsgs(msgs, lvl)`; `none` = nil error -/
def checkMsgs : List Msg → Nat → Option String
  | [], lvl => if lvl > maxNestedLevels then some "992c-level" else none
  | m :: ms, lvl =>
    if lvl > maxNestedLevels then some "992c-level" else
    match checkMsg m lvl with
    | some e => some e
    | none => checkTail ms lvl
/-- the loop body for the remaining messages (the level test was done once, on entry) -/
def checkTail : List Msg → Nat → Option String
  | [], _ => none
  | m :: ms, lvl =>
    match checkMsg m lvl with
    | some e => some e
    | none => checkTail ms lvl
def checkMsg : Msg → Nat → Option String
  | .exec inner, lvl => checkMsgs inner (lvl + 1)
  | .grant u, _ => if isDisabledUrl u then some "992c-grant" else none
  | .eth, lvl => if lvl > 1 && isDisabledUrl 0 then some "992c-nested" else none
  | .vesting k _, lvl => if lvl > 1 && isDisabledUrl (1 + k) then some "992c-nested" else none
  | .other u, lvl => if lvl > 1 && isDisabledUrl u then some "992c-nested" else none
end

/-- `993c`: every top-level vesting-creation message needs a stored proof for its target -/
def vestingGate (hasProof : Nat → Bool) : List Msg → Option String
  | [] => none
  | .vesting k to :: ms => if k < 3 && !hasProof to then some "993c" else vestingGate hasProof ms
  | _ :: ms => vestingGate hasProof ms

/-- the Ethereum lane, decorators 01–05 (+03e) in chain order -/
def ethLane (p : Params) (t : Tx) (mode : Mode) : Option String :=
  -- 02
  if !isEthereumTx t then some "02-extopt" else
  -- 03 (skipped in recheck)
  let r03 : Option String :=
    if mode = .recheck then none else
    if !isEthereumTx t then some "03e-shape" else
    if !t.txBasicOK then some "03e-txbasic" else
    if t.signerInfos > 0 then some "03e-signerinfos" else
    if t.payer || t.granter then some "03e-payer" else
    if t.sigs > 0 then some "03e-sigs" else
    if !t.eth.msgBasicOK then some "03e-msgbasic" else
    if !t.eth.asMessageOK then some "03e-asmsg" else
    if !p.enableCreate && t.eth.create then some "03e-create" else
    if !p.enableCall && !t.eth.create then some "03e-call" else
    if !t.eth.prot then some "03e-unprotected" else
    if t.feeCoins ≠ coinsOfFee t.eth.fee then some "03e-fee" else
    if t.gasLimit ≠ t.eth.gas then some "03e-gas" else none
  match r03 with
  | some e => some e
  | none =>
  -- 03e
  if t.eth.fromEmpty then some "03eoa-from" else
  if t.eth.senderHasCode then some "03eoa-code" else
  -- 04, 05
  if t.timeout ≠ 0 then some "04e-timeout" else
  if t.memo then some "05e-memo" else none

/-- the Cosmos lane: 03 (mixed check, skipped in recheck), SDK decorators (observed), 991c–993c -/
def cosmosLane (t : Tx) (mode : Mode) (sdk : Option String) (hasProof : Nat → Bool) : Option String :=
  -- 02: the SDK decorator with `HasDynamicFeeExtensionOption` as checker refuses every other critical option
  if t.extOpts.any (· != 1) then some "02-extopt" else
  if mode ≠ .recheck && t.msgs.any Msg.isEth then some "03c-mixed" else
  match sdk with
  | some e => some ("late:" ++ e)
  | none =>
    if t.msgs.any Msg.isEth then some "991c-mixed" else
    match checkMsgs t.msgs 1 with
    | some e => some e
    | none => vestingGate hasProof t.msgs

/-- the composed handler; `late` = verdict of the non-lane decorators (observed) -/
def run (p : Params) (t : Tx) (mode : Mode) (late : Option String) (hasProof : Nat → Bool) : Option String :=
  -- `BaseApp.runTx` → `validateBasicTxMsgs` runs `ValidateBasic` of every top-level message before the ante handler
  if t.msgs.any Msg.isEth && !t.eth.msgBasicOK then some "prebasic" else
  if hasSingleEth t then
    match ethLane p t mode with
    | some e => some e
    | none => late.map ("late:" ++ ·)
  else cosmosLane t mode late hasProof

end Evermint.Ante
