/-!
# Staking precompile: who acts, for whom, and which logs (C11)

Transcribes the dispatch of `/repo/x/cpc/keeper/precompiles_staking.go`: every state-changing method builds
a native staking / distribution message whose delegator is `caller.Address()`; the `*ByMessage` variants
additionally require `message.delegator = caller` and that the EIP-712 signature over the message **for this
chain id** recovers to that delegator.  The staking and distribution modules themselves are not modelled:
the native message is handed to their message servers (the effect is whatever they do — tied by the twin
execution of E-staking).  `logsOf` transcribes `autoEmitEventsFromSdkEvents`.
-/
namespace Evermint.StakingCpc

inductive Action where
  | delegate | undelegate | redelegate
deriving DecidableEq, Repr

inductive Call where
  | delegate (val amt : Nat)
  | undelegate (val amt : Nat)
  | redelegate (src dst amt : Nat)
  | withdrawReward (val : Nat)
  | withdrawRewards
  /-- `transfer(to, amount)`: the ERC-20 face of the contract; only a self-transfer is accepted and means
  "withdraw all my rewards, then delegate `amount` to a validator chosen for me" -/
  | transfer (to amt : Nat)
  /-- `delegateByActionMessage`: `recovered` = address recovered from (r, s, v) over the typed message for this chain id -/
  | byMessage (a : Action) (msgDelegator val oldVal amt : Nat) (msgValid : Bool) (recovered : Option Nat)
  /-- `withdrawRewardsByMessage`; `fromVal = none` means "all validators" -/
  | withdrawByMessage (msgDelegator : Nat) (fromVal : Option Nat) (msgValid : Bool) (recovered : Option Nat)
deriving Repr

/-- the native message(s) handed to the SDK message servers -/
inductive Native where
  | delegate (delegator val amt : Nat)
  | undelegate (delegator val amt : Nat)
  | redelegate (delegator src dst amt : Nat)
  | withdraw (delegator val : Nat)
  | withdrawAll (delegator : Nat)         -- one `MsgWithdrawDelegatorReward` per validator with a reward above the minimum
  | selfStake (delegator amt : Nat)       -- `withdrawAll delegator`, then `MsgDelegate delegator <chosen validator> amt`
deriving DecidableEq, Repr

def Native.delegator : Native → Nat
  | .delegate d _ _ => d | .undelegate d _ _ => d | .redelegate d _ _ _ => d | .withdraw d _ => d | .withdrawAll d => d | .selfStake d _ => d

/-- `none` = the executor returns an error before touching any module (the call reverts) -/
def toNative (caller : Nat) : Call → Option Native
  | .delegate v a => if a = 0 then none else some (.delegate caller v a)
  | .undelegate v a => if a = 0 then none else some (.undelegate caller v a)
  | .redelegate s d a => if a = 0 then none else some (.redelegate caller s d a)
  | .withdrawReward v => some (.withdraw caller v)
  | .withdrawRewards => some (.withdrawAll caller)
  | .transfer to a => if caller = 0 ∨ to = 0 ∨ to ≠ caller ∨ a = 0 then none else some (.selfStake caller a)
  | .byMessage act md v ov a valid rec =>
    if !valid then none else
    if caller ≠ md then none else
    if rec ≠ some md then none else
    match act with
    | .delegate => some (.delegate md v a)
    | .undelegate => some (.undelegate md v a)
    | .redelegate => some (.redelegate md ov v a)
  | .withdrawByMessage md fv valid rec =>
    if !valid then none else
    if caller ≠ md then none else
    if rec ≠ some md then none else
    match fv with
    | none => some (.withdrawAll md)
    | some v => some (.withdraw md v)

/-- SDK events the translation looks at (amounts in the bond denomination) -/
inductive Ev where
  | delegate (val del amt : Nat)
  | unbond (val del amt : Nat)
  | redelegate (src dst amt : Nat)
  | withdraw (val del amt : Nat)
  | other
deriving DecidableEq, Repr

inductive Log where
  | delegate (delegator val amt : Nat)
  | undelegate (delegator val amt : Nat)
  | withdrawReward (delegator val amt : Nat)
deriving DecidableEq, Repr

def toLogs (callerDelegator : Nat) : Ev → List Log
  | .delegate v d a => if a > 0 then [.delegate d v a] else []
  | .unbond v d a => if a > 0 then [.undelegate d v a] else []
  | .redelegate s t a => if a > 0 then [.undelegate callerDelegator s a, .delegate callerDelegator t a] else []
  | .withdraw v d a => if a > 0 then [.withdrawReward d v a] else []
  | .other => []

/-- `autoEmitEventsFromSdkEvents(em, originalEventCounts, delegator, env)`: `none` = "no old-event found" error -/
def logsOf (callerDelegator : Nat) (events : List Ev) (originalCount : Nat) : Option (List Log) :=
  let relevant := events.filter (· ≠ .other)
  if relevant.length ≤ originalCount then none
  else some ((relevant.drop originalCount).flatMap (toLogs callerDelegator))

end Evermint.StakingCpc
