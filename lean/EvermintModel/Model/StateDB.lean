import EvermintModel.Model.World
import EvermintModel.Model.CDbGeneric
/-!
# Concrete context-based StateDB (`/repo/x/evm/vm/state_db.go`) over `World`

Every method is a generic `upd` (see `CDbGeneric`), `Snapshot`, `RevertToSnapshot` or the commit
loop, so the C03 theorems apply verbatim.  A Go panic is `Except.error` (the whole transaction
aborts).  Transcription notes: DESIGN.md appendix D.1.
-/
namespace Evermint
open CDbG

structure Journal where
  touched   : List Addr := []              -- sorted set
  refund    : Nat := 0
  selfDestr : List Addr := []              -- sorted set
  alAddrs   : List Addr := []              -- sorted set
  alSlots   : List Nat := []               -- sorted set of `pair addr key`
  logs      : List (Addr × Nat) := []      -- (emitting address, tag), in emission order
  transient : FMap Nat := FMap.empty 0     -- key = pair addr key
  
abbrev SDB := CDb World Journal

inductive SOp where
  | createAccount (a : Addr)
  | addBalance (a : Addr) (n : Nat)
  | subBalance (a : Addr) (n : Nat)
  | setNonce (a : Addr) (n : Nat)
  | setCode (a : Addr) (c : Nat)            -- c = 0: empty code
  | setState (a : Addr) (k v : Nat)
  | suicide (a : Addr)
  | selfdestruct6780 (a : Addr)
  | addRefund (n : Nat)
  | subRefund (n : Nat)
  | addAddr (a : Addr)
  | addSlot (a : Addr) (k : Nat)
  | setTransient (a : Addr) (k v : Nat)
  | addLog (a : Addr) (tag : Nat)
  | pcSend (from_ to : Addr) (d : Denom) (n : Nat)      -- precompile write: bank SendCoins on GetCurrentContext()
  | pcAllow (owner spender : Addr) (n : Nat)            -- precompile write: SetErc20CpcAllowance
  | snapshot
  | revert (id : Int)
  | commit (deleteEmpty : Bool)

def touch (j : Journal) (a : Addr) : Journal := { j with touched := setInsert a j.touched }

def maxU64 : Nat := 2^64 - 1

/-- the `W → J → Except (W × J × result)` body of every non-stack method; `orig` is the original
context (committed state), needed by `Selfdestruct6780` -/
def updBody (orig : World) (w : World) (j : Journal) : SOp → Except String (World × Journal × String)
  | .addBalance a n => do
    let j := touch j a
    let w ← w.mintTo a evmDenom n
    pure (w, j, "ok")
  | .subBalance a n => do
    let j := touch j a
    let w ← w.burnFrom a evmDenom n
    pure (w, j, "ok")
  | .setNonce a n =>
    let j := touch j a
    let w := w.ensureAcc a
    match w.acc.get a with
    | some ac => pure ({ w with acc := w.acc.set a (some { ac with seq := n }) }, j, "ok")
    | none => .error "no-account"
  | .setCode a c =>
    let j := touch j a
    let w := w.ensureAcc a
    pure ({ w with codeHash := w.codeHash.set a c }, j, "ok")
  | .setState a k v =>
    let j := touch j a
    let w := w.ensureAcc a
    pure ({ w with storage := w.storage.set (pair a k) (some v) }, j, "ok")
  | .suicide a =>
    let j := touch j a
    if !w.hasAcc a then pure (w, j, "false") else do
    let j := { j with selfDestr := setInsert a j.selfDestr }
    let w ← w.burnFrom a evmDenom (w.balOf a evmDenom)
    pure (w, j, "true")
  | .selfdestruct6780 a =>
    match w.acc.get a with
    | none => pure (w, j, "ok")
    | some cur =>
      let created := match orig.acc.get a with
        | none => true
        | some o => o.num != cur.num
      if !created then pure (w, j, "ok") else do
      let j := touch j a
      let j := { j with selfDestr := setInsert a j.selfDestr }
      let w ← w.burnFrom a evmDenom (w.balOf a evmDenom)
      pure (w, j, "ok")
  | .createAccount a => do
    let j := touch j a
    let bals := (List.range nDenoms).map (fun d => (d, w.balOf a d))
    let w ← w.destroyAccount a
    let w := w.ensureAcc a
    -- carry over the balance: one mintCoins with all coins (Mint: 2 events, module→account: 4 events)
    let pos := bals.filter (fun p => p.2 > 0)
    if pos.isEmpty then pure (w, j, "ok") else
    if w.blocked.contains a then .error "blocked-recipient" else
    let w := pos.foldl (fun (w : World) p =>
      let w := w.setBal a p.1 (w.balOf a p.1 + p.2)
      { w with supply := w.supply.set p.1 (w.supply.get p.1 + p.2) }) w
    pure ({ w with events := w.events + 6 }, j, "ok")
  | .addRefund n =>
    if j.refund + n > maxU64 then .error "refund-overflow" else pure (w, { j with refund := j.refund + n }, "ok")
  | .subRefund n =>
    if j.refund < n then .error "refund-underflow" else pure (w, { j with refund := j.refund - n }, "ok")
  | .addAddr a => pure (w, { j with alAddrs := setInsert a j.alAddrs }, "ok")
  | .addSlot a k => pure (w, { j with alAddrs := setInsert a j.alAddrs, alSlots := setInsert (pair a k) j.alSlots }, "ok")
  | .setTransient a k v => pure (w, { j with transient := j.transient.set (pair a k) v }, "ok")
  | .addLog a t => pure (w, { j with logs := j.logs ++ [(a, t)] }, "ok")
  | .pcSend f t d n =>
    match w.sendCoins f t d n with
    | .ok w' => pure (w', j, "ok")
    | .error _ => pure (w, j, "err")          -- the executor returns an error; nothing was written
  | .pcAllow o s n => pure ({ w with allow := w.allow.set (pair o s) n }, j, "ok")
  | .snapshot | .revert _ | .commit _ => .error "not-an-upd"

/-- commit loop: destroy touched accounts in sorted order -/
def commitLoop (deleteEmpty : Bool) (sd : List Addr) : List Addr → World → Except String World
  | [], w => .ok w
  | a :: as, w =>
    if sd.contains a || (deleteEmpty && w.isEmpty a) then do
      let w' ← w.destroyAccount a
      commitLoop deleteEmpty sd as w'
    else commitLoop deleteEmpty sd as w

structure SState where
  db : SDB
  committed : Bool := false

def SState.new (w : World) : SState := { db := CDbG.new w {} }

/-- one StateDB call; the string is the method's return value as printed on the wire -/
def SState.step (s : SState) : SOp → Except String (SState × String)
  | .snapshot =>
    let r := s.db.snapshot
    pure ({ s with db := r.1 }, s!"{r.2}")
  | .revert id =>
    match s.db.revert id with
    | some db => pure ({ s with db := db }, "ok")
    | none => .error "bad-snapshot-id"
  | .commit de =>
    if s.committed then .error "commit-twice" else
    match commitLoop de s.db.j.selfDestr s.db.j.touched s.db.cur with
    | .error e => .error e
    | .ok w =>
      -- the layers are flushed into the original context: afterwards it *is* the committed world
      pure ({ db := { s.db.upd (fun _ j => (w, j)) with orig := w }, committed := true }, "ok")
  | op =>
    match updBody s.db.orig s.db.cur s.db.j op with
    | .error e => .error e
    | .ok (w, j, r) => pure ({ s with db := s.db.upd (fun _ _ => (w, j)) }, r)

/-! ### Getters (pure observations) -/

def getState (w : World) (a : Addr) (k : Nat) : Nat := (w.storage.get (pair a k)).getD 0

def getCommittedState (s : SDB) (a : Addr) (k : Nat) : Nat :=
  match s.cur.acc.get a, s.orig.acc.get a with
  | some c, some o => if c.num != o.num then 0 else getState s.orig a k
  | _, _ => 0

/-- 0 = zero hash (no account), 1 = empty-code hash, c+1 = hash of code c -/
def getCodeHashClass (w : World) (a : Addr) : Nat :=
  let c := w.codeHash.get a
  if c != 0 then c + 1 else if w.hasAcc a then 1 else 0

def exist (s : SDB) (a : Addr) : Bool := s.j.selfDestr.contains a || s.cur.hasAcc a

end Evermint
