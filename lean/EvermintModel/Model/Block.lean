import EvermintModel.Base.FMap
import EvermintModel.Model.FeeMarket
/-!
# Accounting model of one block of transactions (deliver mode)

Transcribes, for the accounting quantities only:
`BaseApp.runTx` (SDK 0.50.10: pre-ante block-gas check, ante cache / msg cache, panic recovery,
`consumeBlockGas`), the Ethereum-lane ante decorators of `/repo/app/antedl` (validate-basic,
fee checker + deduction, signature / nonce check, sequence increment, execution-context setup),
the message server `EthereumTx`, `ApplyTransaction`, `refundGas` (+ the fee-collector burn of the
refunded amount) and the transient per-block bookkeeping of `/repo/x/evm/keeper/keeper.go`.

The EVM interpreter is **not** modelled: its result enters as `Exec` (gas used, VM error?,
number of logs, whether the handler panicked, coins explicitly destroyed by the program).
Everything else — admission, outcome class, gas wanted/used, indices, cumulative gas, effective
price, every balance and supply delta, the next base fee — is computed here.
DESIGN.md appendix D.2 / D.3.
-/
namespace Evermint.Block
open Evermint

inductive SigClass where
  | ok          -- recovers, under this chain's latest signer, to the declared From
  | wrongChain  -- signed for another EIP-155 chain id
  | unprotected -- pre-EIP-155 (homestead) signature
  | fromMismatch -- valid signature of another key
deriving Repr, DecidableEq

structure EthTx where
  sender  : Nat
  ty      : Nat          -- 0 legacy, 1 access-list, 2 dynamic-fee
  gasLimit : Nat
  gasPrice : Nat
  feeCap  : Nat
  tip     : Nat
  value   : Nat
  nonce   : Nat
  create  : Bool
  intrinsic : Nat        -- core.IntrinsicGas of (data, access list, create) — supplied
  sig     : SigClass
  toWallet : Option Nat  -- tracked recipient, if any
  sdBurn  : Nat          -- coins the program explicitly destroys when it succeeds (scenario knowledge)
deriving Repr

/-- what the interpreter did (observed, not modelled) -/
structure Exec where
  vmErr   : Bool         -- receipt status 0
  gasBefore : Nat        -- gas used before the refund: gasLimit − gas left after the interpreter returned
  refundCounter : Nat    -- StateDB refund counter at the end of execution
  nLogs   : Nat
  panicked : Bool        -- a panic under the message handler (recovered by runTx)
  meterGas : Nat := 0    -- reading of the context's gas meter, only reported for txs refused before the ante handler
deriving Repr

/-- `params.RefundQuotientEIP3529` (London is always active) -/
def refundQuotient : Nat := 5

/-- `refundGas`: refund = min(gasUsed / 5, counter) -/
def Exec.refund (x : Exec) : Nat := min (x.gasBefore / refundQuotient) x.refundCounter

/-- gas used reported by the state transition (after refund) -/
def Exec.gasUsed (x : Exec) : Nat := x.gasBefore - x.refund

inductive Class where
  | dropped            -- block gas meter already exhausted: not even the ante handler ran
  | preBasic           -- refused by runTx's ValidateBasic of the messages, before the ante handler
  | anteRejected (code : String)
  | cerr               -- consensus error returned by the state transition (handler fails)
  | panic              -- panic under the handler
  | blockOog           -- executed, then the block gas meter overflowed: execution not committed
  | vmerr              -- committed with a VM error
  | ok
deriving Repr, DecidableEq

structure BState where
  bal      : FMap Nat        -- tracked wallets, EVM denom
  seq      : FMap Nat
  baseFee  : Nat
  maxGas   : Int             -- consensus MaxGas
  minRaw   : Nat             -- global min gas price mantissa (LegacyDec)
  blockGas : Nat := 0        -- consumed on the block gas meter
  txCount  : Nat := 0        -- transient tx counter (Ethereum txs that passed the ante handler)
  gasSlots : List Nat := []  -- transient per-tx gas, index = tx index
  logSlots : List Nat := []  -- transient per-tx log count

structure TxOut where
  cls     : Class
  gasWanted : Int
  gasUsed : Nat
  anteIdx : Option Nat       -- txIndex attribute of the ethereum_tx (ante) event
  rcptIdx : Option Nat       -- txIdx of the tx_receipt event
  logIdx  : Option Nat       -- logIdx of the tx_receipt event (present iff ≥ 1 log)
  rcptGas : Option Nat
  cumGas  : Option Nat
  status  : Option Nat
  effPrice : Option Nat
  dSender : Int
  dCollector : Int
  dSupply : Int
  contract : Option Bool     -- created-contract address reported
deriving Repr

def effPrice (t : EthTx) (base : Nat) : Nat :=
  if t.ty = 2 then min (t.tip + base) t.feeCap else t.gasPrice

def declaredPrice (t : EthTx) : Nat := if t.ty = 2 then t.feeCap else t.gasPrice

def floorMin (s : BState) : Nat := s.minRaw / 10^18

def blockExhausted (s : BState) : Bool := s.maxGas > 0 && s.blockGas ≥ s.maxGas.toNat

def noOut (c : Class) (gw : Int) (gu : Nat) : TxOut :=
  { cls := c, gasWanted := gw, gasUsed := gu, anteIdx := none, rcptIdx := none, logIdx := none, rcptGas := none,
    cumGas := none, status := none, effPrice := none, dSender := 0, dCollector := 0, dSupply := 0, contract := none }

def sumTake (l : List Nat) (n : Nat) : Nat := (l.take n).foldl (· + ·) 0

def listSet (l : List Nat) (i v : Nat) : List Nat := l.set i v

/-- codespace / code of a panic recovered by `runTx` -/
def antePanicCode : String := "undefined/111222"

/-- ante decision of the Ethereum lane (deliver mode); `none` = accepted -/
def anteReject (s : BState) (t : EthTx) : Option String :=
  if t.sig = .wrongChain then some "sdk/18" else
  if t.sig = .unprotected then some "sdk/37" else
  if declaredPrice t * t.gasLimit = 0 then some "sdk/10" else            -- empty fee coins: exactly one fee coin required
  -- an effective fee of zero (possible only when the base fee is 0): `sdk.NewCoins` drops the zero coin and the fee
  -- checker indexes the empty list — a panic, recovered by `runTx`: refused, nothing written
  if effPrice t s.baseFee * t.gasLimit = 0 then some antePanicCode else
  if effPrice t s.baseFee * t.gasLimit / t.gasLimit < max s.baseFee (floorMin s) then some "sdk/13" else
  if s.bal.get t.sender < effPrice t s.baseFee * t.gasLimit then some "sdk/5" else
  if t.sig = .fromMismatch then some "sdk/24" else
  if t.nonce ≠ s.seq.get t.sender then some "sdk/3" else
  none

/-- ante effects, written to the block state whatever happens next: fee moved to the collector,
sequence + 1, transient tx counter + 1, assume-failed gas (= gas limit) and zero logs recorded -/
def anteState (s : BState) (t : EthTx) : BState :=
  { s with
    bal := s.bal.set t.sender (s.bal.get t.sender - effPrice t s.baseFee * t.gasLimit),
    seq := s.seq.set t.sender (s.seq.get t.sender + 1),
    txCount := s.txCount + 1,
    gasSlots := s.gasSlots ++ [t.gasLimit],
    logSlots := s.logSlots ++ [0] }

/-- the handler failed (error, panic, or block gas overflow after execution): message cache dropped,
ante effects stay, `gu` is what the tx gas meter shows (and what the block meter is charged) -/
def failedOut (s : BState) (t : EthTx) (c : Class) (gu : Nat) : BState × TxOut :=
  ({ anteState s t with blockGas := s.blockGas + gu },
   { noOut c t.gasLimit gu with anteIdx := some s.txCount,
                                 dSender := -((effPrice t s.baseFee * t.gasLimit : Nat) : Int),
                                 dCollector := ((effPrice t s.baseFee * t.gasLimit : Nat) : Int) })

def cerrCond (s : BState) (t : EthTx) : Bool :=
  decide (t.gasLimit < t.intrinsic) || (decide (t.value > 0) && decide ((anteState s t).bal.get t.sender < t.value))

def oogCond (s : BState) (x : Exec) : Bool := decide (s.maxGas > 0) && decide (s.blockGas + x.gasUsed > s.maxGas.toNat)

/-- execution committed (with or without a VM error) -/
def committedOut (s : BState) (t : EthTx) (x : Exec) : BState × TxOut :=
  let p := effPrice t s.baseFee
  let fee := p * t.gasLimit
  let idx := s.txCount
  let s1 := anteState s t
  let eg := x.gasUsed
  let refund := (t.gasLimit - eg) * p
  let moved := if x.vmErr then 0 else t.value
  let bal1 := s1.bal.set t.sender (s1.bal.get t.sender + refund - moved)
  let bal2 := match t.toWallet with
    | some w => bal1.set w (bal1.get w + moved)
    | none => bal1
  ({ s1 with bal := bal2, blockGas := s.blockGas + eg,
             gasSlots := listSet s1.gasSlots idx eg, logSlots := listSet s1.logSlots idx x.nLogs },
   { cls := if x.vmErr then .vmerr else .ok, gasWanted := t.gasLimit, gasUsed := eg,
     anteIdx := some idx, rcptIdx := some idx,
     logIdx := if x.nLogs > 0 then some (sumTake s.logSlots idx) else none,
     rcptGas := some eg, cumGas := some (eg + sumTake s.gasSlots idx),
     status := some (if x.vmErr then 0 else 1), effPrice := some p,
     dSender := -(fee : Int) + refund - moved + (if t.toWallet = some t.sender then (moved : Int) else 0),
     dCollector := (fee : Int) - refund,
     dSupply := -((if x.vmErr then 0 else t.sdBurn : Nat) : Int),
     contract := some (t.create && !x.vmErr) })

/-- one Ethereum transaction in deliver mode -/
def stepEth (s : BState) (t : EthTx) (x : Exec) : BState × TxOut :=
  if blockExhausted s then (s, noOut .dropped 0 0) else
  if t.gasLimit < 20999 then
    -- msg.ValidateBasic in runTx: no ante, GasWanted 0; the context's own meter reading is reported and charged to the block
    ({ s with blockGas := s.blockGas + x.meterGas }, noOut .preBasic 0 x.meterGas)
  else
  match anteReject s t with
  | some code =>
    if code = antePanicCode then
      -- the panic is recovered in `runTx` before the ante handler returns: GasWanted 0, and the reading of the context's own
      -- meter (the transaction-size gas) is reported and charged to the block; nothing else is written
      ({ s with blockGas := s.blockGas + x.meterGas }, noOut (.anteRejected code) 0 x.meterGas)
    else (s, noOut (.anteRejected code) (-1) 0)     -- infinite meter's limit cast to int64; nothing written
  | none =>
    if x.panicked then failedOut s t .panic 0 else
    if cerrCond s t then failedOut s t .cerr t.gasLimit else
    if oogCond s x then failedOut s t .blockOog x.gasUsed else
    committedOut s t x

/-- the seven outcomes, each with the exact result (used by every property proof) -/
theorem stepEth_cases (s : BState) (t : EthTx) (x : Exec) :
    (blockExhausted s = true ∧ stepEth s t x = (s, noOut .dropped 0 0)) ∨
    (blockExhausted s = false ∧ t.gasLimit < 20999 ∧
      stepEth s t x = ({ s with blockGas := s.blockGas + x.meterGas }, noOut .preBasic 0 x.meterGas)) ∨
    (blockExhausted s = false ∧ ¬ t.gasLimit < 20999 ∧ ∃ code gw gu, anteReject s t = some code ∧
      stepEth s t x = ({ s with blockGas := s.blockGas + gu }, noOut (.anteRejected code) gw gu)) ∨
    (blockExhausted s = false ∧ ¬ t.gasLimit < 20999 ∧ anteReject s t = none ∧ x.panicked = true ∧
      stepEth s t x = failedOut s t .panic 0) ∨
    (blockExhausted s = false ∧ ¬ t.gasLimit < 20999 ∧ anteReject s t = none ∧ x.panicked = false ∧ cerrCond s t = true ∧
      stepEth s t x = failedOut s t .cerr t.gasLimit) ∨
    (blockExhausted s = false ∧ ¬ t.gasLimit < 20999 ∧ anteReject s t = none ∧ x.panicked = false ∧ cerrCond s t = false ∧
      oogCond s x = true ∧ stepEth s t x = failedOut s t .blockOog x.gasUsed) ∨
    (blockExhausted s = false ∧ ¬ t.gasLimit < 20999 ∧ anteReject s t = none ∧ x.panicked = false ∧ cerrCond s t = false ∧
      oogCond s x = false ∧ stepEth s t x = committedOut s t x) := by
  unfold stepEth
  by_cases h0 : blockExhausted s = true
  · simp [h0]
  · have h0' : blockExhausted s = false := by simpa using h0
    by_cases h1 : t.gasLimit < 20999
    · simp [h0', h1]
    · cases h2 : anteReject s t with
      | some code =>
        by_cases hp : code = antePanicCode
        · refine Or.inr (Or.inr (Or.inl ⟨h0', h1, code, 0, x.meterGas, rfl, ?_⟩))
          simp [h0', h1, hp]
        · refine Or.inr (Or.inr (Or.inl ⟨h0', h1, code, -1, 0, rfl, ?_⟩))
          simp [h0', h1, hp]
      | none =>
        by_cases h3 : x.panicked = true
        · simp [h0', h1, h3]
        · have h3' : x.panicked = false := by simpa using h3
          cases h4 : cerrCond s t with
          | true => simp [h0', h1, h3']
          | false =>
            cases h5 : oogCond s x with
            | true => simp [h0', h1, h3']
            | false => simp [h0', h1, h3']

structure CosTx where
  sender : Nat
  gasLimit : Nat
  fee : Nat
  value : Nat
  to : Nat
  nonce : Nat

/-- a Cosmos bank send; `ok`/`gasUsed` are observed (SDK gas metering is not modelled) -/
def stepCos (s : BState) (t : CosTx) (ok : Bool) (gasUsed : Nat) : BState × TxOut :=
  if blockExhausted s then (s, noOut .dropped 0 0) else
  let rej : Option String :=
    if t.fee / t.gasLimit < max s.baseFee (floorMin s) then some "sdk/13" else
    if s.bal.get t.sender < t.fee then some "sdk/5" else
    if t.nonce ≠ s.seq.get t.sender then some "sdk/32" else none
  match rej with
  | some code => ({ s with blockGas := s.blockGas + min gasUsed t.gasLimit }, noOut (.anteRejected code) t.gasLimit gasUsed)
  | none =>
    let s1 : BState := { s with
      bal := s.bal.set t.sender (s.bal.get t.sender - t.fee),
      seq := s.seq.set t.sender (s.seq.get t.sender + 1) }
    if s1.maxGas > 0 ∧ s1.blockGas + gasUsed > s1.maxGas.toNat then
      ({ s1 with blockGas := s1.blockGas + gasUsed },
       { noOut .blockOog t.gasLimit gasUsed with dSender := -(t.fee : Int), dCollector := t.fee })
    else if !ok then
      ({ s1 with blockGas := s1.blockGas + gasUsed },
       { noOut .cerr t.gasLimit gasUsed with dSender := -(t.fee : Int), dCollector := t.fee })
    else
      let bal1 := s1.bal.set t.sender (s1.bal.get t.sender - t.value)
      let bal2 := bal1.set t.to (bal1.get t.to + t.value)
      ({ s1 with bal := bal2, blockGas := s1.blockGas + gasUsed },
       { noOut .ok t.gasLimit gasUsed with dSender := -(t.fee : Int) - t.value + (if t.to = t.sender then (t.value : Int) else 0),
                                           dCollector := t.fee })

/-- end of block: the fee market computes the next base fee from the block gas meter -/
def endBlock (s : BState) : FeeMarket.Res :=
  FeeMarket.calcBaseFee FeeMarket.londonConsts s.baseFee (some s.maxGas) s.blockGas s.minRaw

end Evermint.Block
