import EvermintModel.Model.Keccak
/-!
# EIP-712 rendering of a Cosmos sign document (C19)

Transcribes
* `/repo/ethereum/eip712/message.go` — `createEIP712MessagePayload`, `FlattenPayloadMessages` (`msgs[i]` ↦ `msg{i}`),
* `/repo/ethereum/eip712/types.go` — `createEIP712Types`, `recursivelyAddTypesToRoot` (keys in *descending* order,
  arrays typed by their first element, `string[]` for empty arrays, `null` / nested-array fields silently skipped,
  type names `sanitizeTypedef(prefix)` with duplicate indexing `Name{k}`),
* `/repo/ethereum/eip712/domain.go`, `eip712.go` — the fixed domain and `WrapTxToTypedData`,
* the pinned go-ethereum `signer/core/apitypes` — `Types.validate`, `Dependencies`, `EncodeType` (including its
  truncation quirk for member-less types), `EncodeData` (extra-data check `len(types) < len(data)`, missing
  member = mismatch), `EncodePrimitiveValue`, `TypedDataAndHash`.

The result is a *symbolic* encoding `Enc` (which bytes are hashed where); `Enc.eval` computes the digest with the
executable Keccak-256 of `Model/Keccak.lean`, and that digest is compared with the Go code on every run.
Restrictions (the driver rejects anything else, the generators stay inside): object keys are distinct; numbers
are integral with |n| ≤ 2^53 or are marked `float`; key characters are ASCII.
-/
namespace Evermint.Eip712

inductive J where
  | null
  | bool (b : Bool)
  | num (n : Int)
  | float                       -- a JSON number that is not an integer (or not losslessly an int64)
  | str (s : String)
  | arr (xs : List J)
  | obj (kvs : List (String × J))
deriving Repr, Inhabited

abbrev Members := List (String × String)         -- (name, type)
abbrev Types := List (String × Members)

def Types.get (t : Types) (n : String) : Option Members := (t.find? (·.1 == n)).map (·.2)
def Types.has (t : Types) (n : String) : Bool := (t.get n).isSome
def Types.put (t : Types) (n : String) (m : Members) : Types :=
  if t.has n then t.map (fun e => if e.1 == n then (n, m) else e) else t ++ [(n, m)]

def lookup (kvs : List (String × J)) (k : String) : Option J := (kvs.find? (·.1 == k)).map (·.2)

/-! ## message.go -/

def msgField (i : Nat) : String := "msg" ++ toString i

/-- `FlattenPayloadMessages`: `none` = one of its errors -/
def flatten (payload : J) : Option (List (String × J) × Nat) :=
  match payload with
  | .obj kvs =>
    match lookup kvs "msgs" with
    | some (.arr msgs) =>
      let rec go (i : Nat) (ms : List J) (acc : List (String × J)) : Option (List (String × J)) :=
        match ms with
        | [] => some acc
        | m :: rest =>
          if (lookup acc (msgField i)).isSome then none       -- "did not expect to find key at field"
          else match m with
            | .obj _ => go (i + 1) rest (acc ++ [(msgField i, m)])
            | _ => none                                        -- "msg at index is not valid JSON"
      match go 0 msgs kvs with
      | some acc => some (acc.filter (·.1 != "msgs"), msgs.length)
      | none => none
    | _ => none
  | _ => none

/-! ## types.go -/

/-- `strings.Split(s, sep)` for a one-character separator (written out so that the kernel can evaluate it) -/
def splitChars (sep : Char) : List Char → List Char → List (List Char)
  | [], cur => [cur.reverse]
  | c :: cs, cur => if c = sep then cur.reverse :: splitChars sep cs [] else splitChars sep cs (c :: cur)
def splitOn1 (s : String) (sep : Char) : List String := (splitChars sep s.toList []).map String.ofList

def capitalize (s : String) : String :=
  match s.toList with
  | [] => ""
  | c :: cs => String.ofList ((if 'a' ≤ c ∧ c ≤ 'z' then Char.ofNat (c.toNat - 32) else c) :: cs)

/-- `sanitizeTypedef`: `_.foo_bar.baz` ↦ `TypeFooBarBaz` -/
def sanitize (s : String) : String :=
  String.join ((splitOn1 s '.').map (fun part =>
    if part == "_" then "Type" else String.join ((splitOn1 part '_').map capitalize)))

def ethTypeOf : J → Option String
  | .bool _ => some "bool"
  | .num _ => some "int64"
  | .float => some "int64"
  | .str _ => some "string"
  | _ => none

def insertDesc (k : String) : List String → List String
  | [] => [k]
  | x :: xs => if k > x then k :: x :: xs else x :: insertDesc k xs
/-- keys in descending order (`strings.Compare(keys[i], keys[j]) > 0`) -/
def sortDesc (ks : List String) : List String := ks.foldr insertDesc []

def maxDuplicateTypeDefs : Nat := 1000

/-- `addTypesToRoot`: first index `k` with `Name{k}` absent or identical -/
def addTypesToRoot (t : Types) (typeDef : String) (m : Members) : Option (Types × String) :=
  let rec go (k fuel : Nat) : Option (Types × String) :=
    match fuel with
    | 0 => none
    | fuel + 1 =>
      let name := typeDef ++ toString k
      match t.get name with
      | some ex => if ex == m then some (t, name) else (if k + 1 == maxDuplicateTypeDefs then none else go (k + 1) fuel)
      | none => some (t ++ [(name, m)], name)
  go 0 maxDuplicateTypeDefs

/-- `recursivelyAddTypesToRoot`; `fuel` bounds the nesting depth -/
def addTypes (fuel : Nat) (t : Types) (rootType pfx : String) (payload : J) : Option (Types × String) :=
  match fuel with
  | 0 => none
  | fuel + 1 =>
    match payload with
    | .obj kvs =>
      let typeDef := if pfx == "_" then rootType else sanitize pfx
      let step (acc : Option (Types × Members)) (name : String) : Option (Types × Members) :=
        match acc with
        | none => none
        | some (t, ms) =>
          match lookup kvs name with
          | none => some (t, ms)
          | some field =>
            let (field, isColl, emptyArr) := match field with
              | .arr [] => (field, false, true)
              | .arr (x :: _) => (x, true, false)
              | f => (f, false, false)
            if emptyArr then some (t, ms ++ [(name, "string[]")]) else
            match ethTypeOf field with
            | some et => some (t, ms ++ [(name, if isColl then et ++ "[]" else et)])
            | none =>
              match field with
              | .obj _ =>
                match addTypes fuel t rootType (pfx ++ "." ++ name) field with
                | none => none
                | some (t', def_) =>
                  let d := sanitize def_
                  some (t', ms ++ [(name, if isColl then d ++ "[]" else d)])
              | _ => some (t, ms)                       -- null, nested array: silently skipped
      match (sortDesc (kvs.map (·.1))).foldl step (some (t, [])) with
      | none => none
      | some (t', ms) => addTypesToRoot t' typeDef ms
    | _ => none

def fixedTypes : Types := [
  ("EIP712Domain", [("name", "string"), ("version", "string"), ("chainId", "uint256"), ("verifyingContract", "string"), ("salt", "string")]),
  ("Tx", [("account_number", "string"), ("chain_id", "string"), ("fee", "Fee"), ("memo", "string"), ("sequence", "string")]),
  ("Fee", [("amount", "Coin[]"), ("gas", "string")]),
  ("Coin", [("denom", "string"), ("amount", "string")])]

def lastSegment (s : String) : String := ((splitOn1 s '/').getLast?).getD ""

mutual
  def jdepth : J → Nat
    | .arr xs => 1 + jdepthList xs
    | .obj kvs => 1 + jdepthFields kvs
    | _ => 1
  def jdepthList : List J → Nat
    | [] => 0
    | x :: xs => max (jdepth x) (jdepthList xs)
  def jdepthFields : List (String × J) → Nat
    | [] => 0
    | (_, v) :: r => max (jdepth v) (jdepthFields r)
end

/-- `createEIP712Types` -/
def typesOf (msg : List (String × J)) (n : Nat) : Option Types :=
  let rec go (i : Nat) (k : Nat) (t : Types) : Option Types :=
    match k with
    | 0 => some t
    | k + 1 =>
      match lookup msg (msgField i) with
      | some (m@(.obj kvs)) =>
        match lookup kvs "type" with
        | some (.str ty) =>
          if ty == "" then none else
          match addTypes (jdepth m + 1) t ("Type" ++ lastSegment ty) "_" m with
          | none => none
          | some (t', def_) => go (i + 1) k (t'.put "Tx" ((t'.get "Tx").getD [] ++ [(msgField i, def_)]))
        | _ => none
      | _ => none
  go 0 n fixedTypes

/-! ## go-ethereum `apitypes` -/

def isWordChar (c : Char) : Bool := c.isAlphanum || c == '_'
def trimArr (ty : String) : String := if ty.endsWith "[]" then (ty.dropEnd 2).toString else ty
def isRefType (ty : String) : Bool := match ty.toList with | c :: _ => c.isUpper | [] => false
def primitiveOK (ty : String) : Bool := ["string", "bool", "int64", "uint256"].contains (trimArr ty)

/-- `Types.validate` (the cases reachable from generated types) -/
def validate (t : Types) : Bool :=
  t.all (fun (key, ms) => key != "" && ms.all (fun (name, ty) =>
    ty != "" && name != "" && key != ty &&
    (if isRefType ty then t.has (trimArr ty) && (trimArr ty).toList.all isWordChar else primitiveOK ty)))

/-- `Dependencies` -/
def deps (t : Types) (fuel : Nat) (ty : String) (found : List String) : List String :=
  match fuel with
  | 0 => found
  | fuel + 1 =>
    let ty := trimArr ty
    if found.contains ty then found else
    match t.get ty with
    | none => found
    | some ms =>
      ms.foldl (fun found (_, fty) =>
        (deps t fuel fty found).foldl (fun acc d => if acc.contains d then acc else acc ++ [d]) found) (found ++ [ty])

def insertAsc (k : String) : List String → List String
  | [] => [k]
  | x :: xs => if k < x then k :: x :: xs else x :: insertAsc k xs
def sortAsc (ks : List String) : List String := ks.foldr insertAsc []

/-- `EncodeType`, with the `Truncate(len-1)` that eats the `(` of a member-less type -/
def encodeType (t : Types) (primary : String) : String :=
  let ds := deps t (t.length + 1) primary []
  let ds := match ds with | [] => [] | p :: rest => p :: sortAsc rest
  String.join (ds.map (fun d =>
    let ms := (t.get d).getD []
    if ms.isEmpty then d ++ ")" else d ++ "(" ++ ",".intercalate (ms.map (fun (n, ty) => ty ++ " " ++ n)) ++ ")"))

/-- which bytes are hashed where -/
inductive Enc where
  | word (n : Int)                                                     -- 32 bytes, big endian, two's complement
  | str (s : String)                                                   -- keccak(utf8 s)
  | arr (xs : List Enc)                                                -- keccak(‖ xs)
  | struct (name : String) (members : Members) (typeStr : String) (fields : List Enc)   -- keccak(keccak(typeStr) ‖ fields)
deriving Repr, Inhabited

def int64OK (n : Int) : Bool := n.natAbs ≤ 2 ^ 53

def digitVal (base : Nat) (c : Char) : Option Nat :=
  let v := if '0' ≤ c ∧ c ≤ '9' then some (c.toNat - 48) else if 'a' ≤ c ∧ c ≤ 'z' then some (c.toNat - 87) else if 'A' ≤ c ∧ c ≤ 'Z' then some (c.toNat - 55) else none
  v.bind (fun d => if d < base then some d else none)

/-- `big.Int.SetString(s, base)` for base 10 / 16: optional sign, at least one digit, nothing else -/
def setString (cs : List Char) (base : Nat) : Option Int :=
  let (neg, ds) := match cs with
    | '-' :: r => (true, r)
    | '+' :: r => (false, r)
    | r => (false, r)
  if ds.isEmpty then none else
  (ds.foldl (fun acc c => acc.bind (fun a => (digitVal base c).map (fun d => a * base + d))) (some 0)).map
    (fun (m : Nat) => if neg then - (m : Int) else (m : Int))

/-- `math.ParseBig256` (what `HexOrDecimal256.UnmarshalText` accepts): "" is 0; `0x` / `0X` prefix = hex -/
def parseBig256 (s : String) : Option Int :=
  let cs := s.toList
  let r := match cs with
    | [] => some 0
    | '0' :: 'x' :: r => setString r 16
    | '0' :: 'X' :: r => setString r 16
    | _ => setString cs 10
  r.bind (fun n => if n.natAbs < 2 ^ 256 then some n else none)

/-- `parseInteger` for `int64`: a JSON number must be losslessly an int64, a *string* is parsed as a decimal or
hexadecimal integer (this is how later elements of an array typed by its first element get in); ≤ 64 bits -/
def parseInt64 (v : J) : Option Int :=
  match v with
  | .num n => if int64OK n then some n else none
  | .str s => (parseBig256 s).bind (fun n => if n.natAbs < 2 ^ 64 then some n else none)
  | _ => none

def encodePrim (ty : String) (v : J) : Option Enc :=
  if ty = "bool" then (match v with | .bool b => some (.word (if b then 1 else 0)) | _ => none)
  else if ty = "string" then (match v with | .str s => some (.str s) | _ => none)
  else if ty = "int64" then (parseInt64 v).map Enc.word
  else if ty = "uint256" then (match v with | .num n => if 0 ≤ n then some (.word n) else none | _ => none)
  else none

/-- element type of an array member: `Coin[]` ↦ `Coin` (`strings.Split(encType, "[")[0]`) -/
def elemType (ty : String) : String := (splitOn1 ty '[').headD ""

/-- one array item / one struct member; `recur` encodes a nested struct (it is `encodeStruct` with less fuel) -/
def encodeItem (recur : String → List (String × J) → Option Enc) (t : Types) (pt : String) (item : J) : Option Enc :=
  if t.has pt then (match item with | .obj kvs => recur pt kvs | _ => none) else encodePrim pt item

def encodeField (recur : String → List (String × J) → Option Enc) (t : Types) (data : List (String × J)) (name ty : String) : Option Enc :=
  if ty.endsWith "[]" then
    match lookup data name with
    | some (.arr items) => (items.mapM (encodeItem recur t (elemType ty))).map Enc.arr
    | _ => none
  else if t.has ty then
    match lookup data name with
    | some (.obj kvs) => recur ty kvs
    | _ => none
  else match lookup data name with
    | some v => encodePrim ty v
    | none => none

/-- `EncodeData` + the hash around it (`HashStruct` / the struct case of a member) -/
def encodeStruct (fuel : Nat) (t : Types) (primary : String) (data : List (String × J)) : Option Enc :=
  match fuel with
  | 0 => none
  | fuel + 1 =>
    match t.get primary with
    | none => if data.length > 0 then none else some (.struct primary [] (encodeType t primary) [])
    | some ms =>
      if ms.length < data.length then none else     -- "there is extra data provided in the message"
      (ms.mapM (fun m => encodeField (encodeStruct fuel t) t data m.1 m.2)).map (Enc.struct primary ms (encodeType t primary))

structure Typed where
  types : Types
  message : List (String × J)

/-- `WrapTxToTypedData` (without the domain, which is a function of the chain id alone) -/
def wrap (doc : J) : Option Typed :=
  match flatten doc with
  | none => none
  | some (msg, n) =>
    match typesOf msg n with
    | none => none
    | some t => some { types := t, message := msg }

def domainEnc (t : Types) (chainId : Nat) : Option Enc :=
  encodeStruct 2 t "EIP712Domain"
    [("name", .str "Cosmos Web3"), ("version", .str "1.0.0"), ("chainId", .num chainId), ("verifyingContract", .str "cosmos"), ("salt", .str "0")]

/-- `TypedDataAndHash`: (domain separator, message hash); the digest is keccak(0x19 0x01 ‖ d ‖ m) -/
def typedEnc (chainId : Nat) (doc : J) : Option (Enc × Enc) :=
  match wrap doc with
  | none => none
  | some td =>
    if td.message.isEmpty then none else          -- `isValidEIP712Payload`
    if !validate td.types then none else
    match domainEnc td.types chainId, encodeStruct (jdepth doc + 2) td.types "Tx" td.message with
    | some d, some m => some (d, m)
    | _, _ => none

/-! ## evaluation with the real hash -/

def wordBytes (n : Int) : List UInt8 :=
  let m : Nat := (n % (2 ^ 256 : Int)).toNat
  (List.range 32).map (fun i => (m / 256 ^ (31 - i) % 256).toUInt8)

def Enc.eval : Enc → List UInt8
  | .word n => wordBytes n
  | .str s => Keccak.keccak256 s.toUTF8.toList
  | .arr xs => Keccak.keccak256 (xs.attach.map (fun ⟨x, _⟩ => x.eval)).flatten
  | .struct _ _ ts fs => Keccak.keccak256 (Keccak.keccak256 ts.toUTF8.toList ++ (fs.attach.map (fun ⟨x, _⟩ => x.eval)).flatten)
termination_by e => sizeOf e
decreasing_by
  all_goals simp_wf
  all_goals (have := List.sizeOf_lt_of_mem ‹_›; omega)

def digest (chainId : Nat) (doc : J) : Option (List UInt8) :=
  (typedEnc chainId doc).map (fun (d, m) => Keccak.keccak256 ([0x19, 0x01] ++ d.eval ++ m.eval))

end Evermint.Eip712
