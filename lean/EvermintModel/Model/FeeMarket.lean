/-
Model of the fee-market base-fee computation.

Transcribes
  * /repo/x/feemarket/keeper/eip1559.go   `Keeper.CalculateBaseFee`
  * fork  consensus/misc/eip1559.go        `CalcBaseFee`   (London always active: see Facts)
  * /repo/x/feemarket/keeper/abci.go      `updateBaseFeeForNextBlock` (the telemetry gauge)

All quantities are unbounded naturals / integers except where the Go code itself
truncates (uint64 header fields) or refuses (256-bit `sdkmath.Int`).
Core-only: no Mathlib import (this file is linked into the driver executable).
-/
namespace Evermint.FeeMarket

/-- Constants regenerated from the fork by factgen are compared against these in
`Facts/FeeMarketFacts.lean`; the model is parameterised so the theorems hold for
every positive denominator. -/
structure Consts where
  elasticity  : Nat   -- params.ElasticityMultiplier
  changeDenom : Nat   -- params.BaseFeeChangeDenominator
deriving Repr, DecidableEq

def maxUint64 : Nat := 2^64 - 1
def maxInt256 : Nat := 2^256 - 1   -- sdkmath.Int accepts |x| with BitLen ≤ 256

/-- Outcome of the Go function: a value, or a Go panic (which, in EndBlock, halts the chain). -/
inductive Res where
  | ok (v : Nat)
  | panicDivZero          -- big.Int.Div by zero
  | panicOverflow         -- sdkmath.NewIntFromBigInt: BitLen > 256
deriving Repr, DecidableEq

/-- `gasLimit` as computed by `CalculateBaseFee` after the fix "MaxGas = 0 means unlimited,
exactly as the SDK block gas meter treats it". (`consParams.Block == nil` is `maxGas = none`.) -/
def gasLimitOf (maxGas : Option Int) : Nat :=
  match maxGas with
  | some m => if m > 0 then m.toNat % 2^64 else maxUint64
  | none   => maxUint64

/-- Block gas meter as built by `BaseApp.getBlockGasMeter`: limited iff `MaxGas > 0`;
`GasConsumedToLimit` caps at the limit for a limited meter. -/
def gasUsedOf (maxGas : Option Int) (consumed : Nat) : Nat :=
  match maxGas with
  | some m => if m > 0 then min consumed m.toNat else consumed
  | none   => consumed

/-- geth `CalcBaseFee` for a London block (pure arithmetic part). `none` = division by zero. -/
def gethCalc (c : Consts) (b gasLimit gasUsed : Nat) : Option Nat :=
  let target := gasLimit / c.elasticity
  if gasUsed = target then some b
  else if target = 0 then none
  else if gasUsed > target then
    let delta := (gasUsed - target) * b / target / c.changeDenom
    some (b + max delta 1)
  else
    let delta := (target - gasUsed) * b / target / c.changeDenom
    some (b - delta)         -- truncated subtraction = max(b - delta, 0)

/-- `CalculateBaseFee`: geth value, then lower-bounded by ⌊minGasPrice⌋.
`minRaw` is the LegacyDec mantissa (value · 10^18). The fixed code short-circuits a zero gas
target ("keep the base fee") instead of dividing by it. -/
def calcBaseFee (c : Consts) (b : Nat) (maxGas : Option Int) (consumed : Nat) (minRaw : Nat) : Res :=
  let gasLimit := gasLimitOf maxGas
  let gasUsed  := gasUsedOf maxGas consumed
  let floorMin := minRaw / 10^18
  let next : Option Nat :=
    if gasLimit / c.elasticity = 0 then some b     -- fix: zero target ⇒ unchanged
    else gethCalc c b gasLimit gasUsed
  match next with
  | none   => .panicDivZero
  | some n =>
    let n' := min n maxInt256            -- fix: saturate at 2^256−1 instead of panicking
    let r := max n' floorMin
    if r ≤ maxInt256 then .ok r else .panicOverflow   -- ⌊min⌋ > 2^256−1 is not encodable (315-bit Dec)

/-- The *unfixed* computation (pinned commit 63a20fd), kept for the record and for the
regression theorem `C09_total_fails_before_fix`. -/
def calcBaseFeeOld (c : Consts) (b : Nat) (maxGas : Option Int) (consumed : Nat) (minRaw : Nat) : Res :=
  let gasLimit := match maxGas with
    | some m => if m > -1 then m.toNat % 2^64 else maxUint64
    | none => maxUint64
  let gasUsed  := gasUsedOf maxGas consumed
  let floorMin := minRaw / 10^18
  match gethCalc c b gasLimit gasUsed with
  | none   => .panicDivZero
  | some n =>
    let r := max n floorMin
    if r ≤ maxInt256 then .ok r else .panicOverflow

def londonConsts : Consts := { elasticity := 2, changeDenom := 8 }

end Evermint.FeeMarket
