/-!
# The event system's channel protocol (C20, concurrency part)

Transcribes the synchronisation skeleton of `/repo/rpc/namespaces/ethereum/eth/filters/filter_system.go` for
ONE query (topics are independent of each other):

* `eventLoop` (one goroutine) handles `install` and `uninstall` under the write lock of `indexMux`:
  install indexes the subscription and, when the query has no topic channel yet, creates one;
  uninstall removes the subscription and, when no indexed subscription of the query is left, **closes** the
  topic channel and forgets it;
* `subscribe` of a query that already has a topic takes a shortcut (`join`): it attaches to the event bus
  directly; `indexJoined` says whether that path indexes the subscription too;
* `consumeEvents` (one goroutine): looks the topic channel up under the read lock (`consumeRead`), then sends the
  event on it (`consumeSend`) or gives up after a second (`consumeTimeout`); `lockAcrossSend` says whether the
  read lock is still held during the send.

An atomic step of the model is the code between two lock operations.  Sending on a closed channel panics in
Go and a panic in a goroutine terminates the process: that is `crashed`.  A subscriber whose bus channel was
closed while it is still subscribed is `dropped`.
-/
namespace Evermint.EventSys

structure Protocol where
  lockAcrossSend : Bool
  indexJoined : Bool
deriving Repr, DecidableEq

/-- the tree as it is now (after the two repairs) and as it was -/
def fixed : Protocol := { lockAcrossSend := true, indexJoined := true }
def original : Protocol := { lockAcrossSend := false, indexJoined := false }

structure State where
  nextChan : Nat := 0
  closed : List Nat := []              -- channel ids that have been closed
  topic : Option Nat := none           -- `topicChans[query]`
  indexed : Nat := 0                   -- indexed subscriptions of the query
  joined : Nat := 0                    -- live subscriptions attached through the shortcut and NOT indexed
  holding : Option Nat := none         -- the consumer has looked up this channel and has not sent yet
  crashed : Bool := false
  dropped : Bool := false
deriving Repr, DecidableEq

inductive Op where
  | install | uninstall | join | leave | consumeRead | consumeSend | consumeTimeout
deriving Repr, DecidableEq

/-- may the write lock be taken?  not while the consumer holds the read lock -/
def writeLockFree (p : Protocol) (s : State) : Bool := !(p.lockAcrossSend && s.holding.isSome)

/-- `none` = the step is not enabled in this state (the goroutine is blocked / the call is not possible) -/
def step (p : Protocol) (s : State) : Op → Option State
  | .install =>
    if s.crashed || !writeLockFree p s then none else
    match s.topic with
    | some _ => some { s with indexed := s.indexed + 1 }                       -- AddTopic: "topic already registered"
    | none => some { s with indexed := s.indexed + 1, topic := some s.nextChan, nextChan := s.nextChan + 1 }
  | .uninstall =>
    if s.crashed || !writeLockFree p s || s.indexed = 0 then none else
    if s.indexed = 1 then
      match s.topic with
      | some c => some { s with indexed := 0, topic := none, closed := c :: s.closed, dropped := s.dropped || decide (s.joined > 0) }
      | none => some { s with indexed := 0 }
    else some { s with indexed := s.indexed - 1 }
  | .join =>
    if s.crashed || s.topic.isNone then none else
    if p.indexJoined then (if !writeLockFree p s then none else some { s with indexed := s.indexed + 1 })
    else some { s with joined := s.joined + 1 }
  | .leave =>                                                                    -- a joined, unindexed subscriber unsubscribes
    if s.crashed || s.joined = 0 then none else some { s with joined := s.joined - 1 }
  | .consumeRead =>
    if s.crashed || s.holding.isSome then none else
    match s.topic with
    | some c => some { s with holding := some c }
    | none => some s                                                              -- "channel for subscription not found"
  | .consumeSend =>
    match s.holding with
    | some c => if s.crashed then none else
      if s.closed.contains c then some { s with crashed := true, holding := none } else some { s with holding := none }
    | none => none
  | .consumeTimeout =>
    match s.holding with
    | some _ => if s.crashed then none else some { s with holding := none }
    | none => none

def run (p : Protocol) (s : State) : List Op → State
  | [] => s
  | o :: os => match step p s o with
    | some s' => run p s' os
    | none => run p s os          -- a step that is not enabled does not happen

end Evermint.EventSys
