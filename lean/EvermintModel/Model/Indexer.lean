import EvermintModel.Base.KMap
/-!
# EVM transaction indexer and its service (C14)

Transcribes `/repo/indexer/kv_indexer.go IndexBlock` (skip transactions dropped before / rejected by the
ante handler, undecodable ones and non-Ethereum ones; own running counter of Ethereum transactions; the
`Failed` flag from `rpc/types/events.go ParseTxResult`; one write batch per block), the two lookups, and the
restart rule of `/repo/server/indexer_service.go OnStart` (resume after the last block found in the index;
an **empty** index resumes at the node's latest height).
-/
namespace Evermint.Indexer
open Evermint

structure TxRec where
  hash : Nat
  decodable : Bool
  isEth : Bool          -- `IsEthereumTx`
  codeOK : Bool         -- ExecTxResult.Code == 0
  hasEthEv : Bool       -- an `ethereum_tx` event: the ante handler accepted it
  hasRcpt : Bool        -- a `tx_receipt` event: execution was committed
  vmErr : Bool          -- the receipt event carries a VM error
deriving DecidableEq, Repr

structure Entry where
  height : Nat
  pos : Nat             -- position in the block (TxIndex)
  ethIdx : Nat          -- EthTxIndex
  failed : Bool
deriving DecidableEq, Repr

structure Db where
  byHash : KMap Nat (Option Entry)
  byIdx : KMap (Nat × Nat) (Option Nat)

def Db.empty : Db := { byHash := KMap.empty none, byIdx := KMap.empty none }

/-- `TxWasDroppedPreAnteHandleDueToBlockGasExcess`: failed and no `ethereum_tx` event -/
def dropped (t : TxRec) : Bool := !t.codeOK && !t.hasEthEv

/-- is the transaction counted (and, unless it has no event at all, stored) by `IndexBlock` -/
def counted (t : TxRec) : Bool := !dropped t && t.decodable && t.isEth

/-- `ParseTxResult(...).Failed` / the `result.Code != OK` shortcut -/
def failedFlag (t : TxRec) : Bool := !t.codeOK || !t.hasEthEv || !t.hasRcpt || t.vmErr

/-- persisted unless the result is OK and carries no event at all (`parsedTx == nil`) -/
def persisted (t : TxRec) : Bool := !t.codeOK || t.hasEthEv || t.hasRcpt

def put (db : Db) (h pos idx : Nat) (t : TxRec) : Db :=
  { byHash := db.byHash.set t.hash (some ⟨h, pos, idx, failedFlag t⟩), byIdx := db.byIdx.set (h, idx) (some t.hash) }

/-- the loop of `IndexBlock` from position `pos` with running Ethereum counter `cnt` -/
def indexFrom (h : Nat) : List TxRec → Nat → Nat → Db → Db
  | [], _, _, db => db
  | t :: ts, pos, cnt, db =>
    if counted t then indexFrom h ts (pos + 1) (cnt + 1) (if persisted t then put db h pos cnt t else db)
    else indexFrom h ts (pos + 1) cnt db

def indexBlock (db : Db) (h : Nat) (txs : List TxRec) : Db := indexFrom h txs 0 0 db

def getByHash (db : Db) (hash : Nat) : Option Entry := db.byHash.get hash
def getByBlockAndIndex (db : Db) (h idx : Nat) : Option Entry :=
  match db.byIdx.get (h, idx) with
  | some hash => db.byHash.get hash
  | none => none

/-- the transient counter of the chain: number of earlier transactions that passed the ante handler -/
def consensusIdx : List TxRec → Nat → Nat
  | [], _ => 0
  | _, 0 => 0
  | t :: ts, n + 1 => (if t.hasEthEv then 1 else 0) + consensusIdx ts n

/-- `OnStart`: where indexing resumes -/
def resumeAfter (lastIndexed : Option Nat) (latest : Nat) : Nat :=
  match lastIndexed with
  | none => latest
  | some l => l

end Evermint.Indexer
