import EvermintModel.Model.Keccak
/-!
# The CREATE address: `crypto.CreateAddress(sender, nonce) = keccak256(rlp([sender, nonce]))[12:]`

Used by the receipts ("a created-contract address … equals the CREATE address for (sender, nonce)", C13) and by the
registry of custom precompiles, whose contracts get `CreateAddress(module account, protocol nonce)` (C17).  RLP of
the pair is written out (a 20-byte string and an integer), together with its decoder; `Properties/C13Create.lean`
proves the round trip and hence that different (sender, nonce) pairs never share a pre-image.
-/
namespace Evermint.CreateAddr

/-- minimal big-endian bytes of a number (`[]` for 0), with fuel (`beBytes n` uses `n` itself, always enough) -/
def beBytesF : Nat → Nat → List UInt8
  | 0, _ => []
  | f + 1, n => if n = 0 then [] else beBytesF f (n / 256) ++ [UInt8.ofNat (n % 256)]

def beBytes (n : Nat) : List UInt8 := beBytesF n n

def ofBE (bs : List UInt8) : Nat := bs.foldl (fun acc b => acc * 256 + b.toNat) 0

/-- RLP of an unsigned integer -/
def rlpNat (n : Nat) : List UInt8 :=
  if n = 0 then [0x80] else if n < 128 then [UInt8.ofNat n] else UInt8.ofNat (0x80 + (beBytes n).length) :: beBytes n

/-- RLP of the list `[sender (20 bytes), nonce]` (payload shorter than 56 bytes) -/
def rlpCreate (sender : List UInt8) (nonce : Nat) : List UInt8 :=
  let payload := (0x94 : UInt8) :: sender ++ rlpNat nonce
  UInt8.ofNat (0xc0 + payload.length) :: payload

def decodeNat : List UInt8 → Nat
  | [] => 0
  | [b] => if b.toNat < 128 then b.toNat else 0
  | _ :: rest => ofBE rest

/-- reads the pair back (the two length bytes are skipped) -/
def decodeCreate (bs : List UInt8) : List UInt8 × Nat := ((bs.drop 2).take 20, decodeNat (bs.drop 22))

/-- the address, for a hash function `H` -/
def createAddress (H : List UInt8 → List UInt8) (sender : List UInt8) (nonce : Nat) : List UInt8 :=
  (H (rlpCreate sender nonce)).drop 12

end Evermint.CreateAddr
