import EvermintModel.Model.Cpc
/-!
# Genesis export / import of the custom modules (C18)

Transcribes `/repo/x/evm/genesis.go`, `/repo/x/feemarket/genesis.go`, `/repo/x/cpc/genesis.go` and
`/repo/x/vauth/module.go` (`InitGenesis` does nothing, `ExportGenesis` returns the default state).

* evm: `ExportGenesis` walks the **code-hash table**; an address without (non-empty) code hash is not
  exported, whatever storage it has.  `InitGenesis` writes code hash, code and every storage entry
  (a zero-valued entry is written as 32 zero bytes — it survives).
* feemarket: the whole parameter set (which contains the current base fee).
* cpc: parameters plus two booleans; `DeployErc20Native` is exported as the constant `false`, the staking
  flag as "the fixed staking address is registered"; bech32 is always redeployed.  Dynamic ERC-20
  precompiles, disabled flags, the denomination index and allowances have no field in the genesis type.
* vauth: nothing.
-/
namespace Evermint.Genesis
open Evermint

structure Contract where
  addr : Nat
  code : Nat                    -- code id, 0 = no code hash entry
  storage : List (Nat × Nat)    -- (key, value) entries as `ForEachStorage` yields them (sorted by key); value 0 is a stored zero word
deriving DecidableEq, Repr

structure CpcEntry where
  addr : Nat
  ty : Nat
  denom : Nat
  disabled : Bool
deriving DecidableEq, Repr

structure State where
  contracts : List Contract                 -- every address with a code-hash entry or any storage entry
  evmParams : Nat
  feeParams : Nat                           -- opaque parameter set …
  baseFee : Nat                             -- … and the base fee inside it
  cpcVersion : Nat
  cpcWhitelist : List Nat
  cpc : List CpcEntry                       -- sorted by address
  allowances : List (Nat × Nat × Nat)       -- (owner, spender, amount ≠ 0)
  proofs : List Nat                         -- addresses with a stored ownership proof
deriving DecidableEq, Repr

structure EvmGen where
  accounts : List Contract
  params : Nat
deriving DecidableEq, Repr

structure CpcGen where
  version : Nat
  whitelist : List Nat
  erc20Native : Bool
  staking : Bool
deriving DecidableEq, Repr

structure Exported where
  evm : EvmGen
  fee : Nat × Nat
  cpc : CpcGen
  vauth : Unit
deriving DecidableEq, Repr

def exportEvm (s : State) : EvmGen := { accounts := s.contracts.filter (fun c => c.code != 0), params := s.evmParams }

def exportCpc (s : State) : CpcGen :=
  { version := s.cpcVersion, whitelist := s.cpcWhitelist, erc20Native := false,
    staking := s.cpc.any (fun e => e.addr == Cpc.stakingAddr) }

def export_ (s : State) : Exported := { evm := exportEvm s, fee := (s.feeParams, s.baseFee), cpc := exportCpc s, vauth := () }

/-- `InitGenesis` of the four modules on a fresh chain (bond denom 0; native ERC-20 would get the first
dynamic address).  Entries are kept sorted by address: staking 1001 < bech32 1002 < dynamic 2000+. -/
def import_ (g : Exported) : State :=
  { contracts := g.evm.accounts, evmParams := g.evm.params, feeParams := g.fee.1, baseFee := g.fee.2,
    cpcVersion := g.cpc.version, cpcWhitelist := g.cpc.whitelist,
    cpc := (if g.cpc.staking then [⟨Cpc.stakingAddr, Cpc.tyStaking, 0, false⟩] else []) ++ [⟨Cpc.bech32Addr, Cpc.tyBech32, 0, false⟩] ++
           (if g.cpc.erc20Native then [⟨Cpc.createAddr 0, Cpc.tyErc20, 0, false⟩] else []),
    allowances := [], proofs := [] }

end Evermint.Genesis
