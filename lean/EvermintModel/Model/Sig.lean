/-!
# `PubKey.VerifySignature` — decision logic over an ideal signature scheme (C19)

Transcribes `/repo/crypto/ethsecp256k1/ethsecp256k1.go`:
`VerifySignature msg sig = verifyECDSA msg sig || (match GetEIP712BytesForMsg msg with | ok b => verifyECDSA b sig | error => false)`
and `verifyECDSA msg sig = (drop the 65th byte if the signature has 65) ; crypto.VerifySignature key keccak(msg) sig`
(which itself demands exactly 64 bytes and a low `s`).

ECDSA and Keccak are *ideal* here: a signature is the record of who signed which digest, digests are the
messages themselves (collision-free).  What the theorems decide is the logic around the primitives — which
byte strings reach the verifier, under which key, in which of the two renderings — not the primitives.
-/
namespace Evermint.Sig

/-- an ideal signature: produced by `signer` over `digest`; `len` is its byte length; `lowS` whether s ≤ n/2 -/
structure Signature (Key Msg : Type) where
  signer : Key
  digest : Msg
  len : Nat
  lowS : Bool
deriving Repr

variable {Key Msg : Type} [DecidableEq Key] [DecidableEq Msg]

/-- `crypto.VerifySignature(pubkey, hash, sig)`: 64 bytes exactly, low s, and the (ideal) ECDSA relation -/
def ecdsaVerify (pk : Key) (h : Msg) (sigLen : Nat) (s : Signature Key Msg) : Bool :=
  sigLen == 64 && s.lowS && s.signer == pk && s.digest == h

/-- `verifySignatureECDSA`: strip the recovery id of a 65-byte signature -/
def verifyECDSA (pk : Key) (msg : Msg) (s : Signature Key Msg) : Bool :=
  ecdsaVerify pk msg (if s.len == 65 then 64 else s.len) s

/-- `VerifySignature`; `render` is `GetEIP712BytesForMsg` (`none` = it returned an error) -/
def verify (render : Msg → Option Msg) (pk : Key) (msg : Msg) (s : Signature Key Msg) : Bool :=
  verifyECDSA pk msg s || (match render msg with | some b => verifyECDSA pk b s | none => false)

end Evermint.Sig
