import EvermintModel.Base.KMap
/-!
# ERC-20 custom precompiles over the bank ledger (C10)

Transcribes `/repo/x/cpc/keeper/precompiles_erc20.go`: the eleven methods, `spendAllowance`, `transfer`
(balance check, self / zero-amount shortcut, burn through the module account, bank block-list, one
`Transfer` log) and `Set/GetErc20CpcAllowance` with the store key of `x/cpc/types/keys.go`
(**owner ++ spender — no token component**, regenerated as `Facts.Gen.allowanceKeyComponents`).

A failing call is the identity on the state: the interpreter reverts the frame (`evm.Call` →
`RevertToSnapshot`, property C03).  Amounts are `uint256` words (the ABI decoder guarantees `< 2^256`).
Addresses are small ids; id 0 is the zero address.
-/
namespace Evermint.Erc20
open Evermint

def maxU256 : Nat := 2^256 - 1

inductive Method where
  | balanceOf (a : Nat)
  | totalSupply
  | allowance (o s : Nat)
  | transfer (to amt : Nat)
  | transferFrom (frm to amt : Nat)
  | approve (spender amt : Nat)
  | burn (amt : Nat)
  | burnFrom (a amt : Nat)
deriving Repr, DecidableEq

structure Call where
  token : Nat          -- which ERC-20 precompile is called
  caller : Nat         -- immediate caller (`caller.Address()`)
  m : Method
deriving Repr

inductive Log where
  | transfer (token frm to amt : Nat)
  | approval (token owner spender amt : Nat)
deriving Repr, DecidableEq

inductive Res where
  | ok (ret : Nat) (log : Option Log)     -- ret: the uint256 / bool (1) returned
  | revert
deriving Repr, DecidableEq

structure State where
  denomOf : KMap Nat (Option Nat)          -- registered ERC-20 precompile ↦ its bank denomination
  bal : KMap (Nat × Nat) Nat               -- (address, denom)
  supply : KMap Nat Nat
  allow : KMap (Nat × Nat) Nat             -- (owner, spender): the code's key layout
  blocked : List Nat                       -- bank block-list (module accounts)
  /-- specification ghost: what each owner approved for each spender **on each token** and has not been
  spent yet — never read by `step`'s decisions -/
  ghost : KMap (Nat × Nat × Nat) Nat

/-- `spendAllowance` on the code's table; `none` = ERC20InsufficientAllowance -/
def spendAllowance (s : State) (owner spender amt : Nat) : Option State :=
  let cur := s.allow.get (owner, spender)
  if cur = maxU256 then some s
  else if cur < amt then none
  else some { s with allow := s.allow.set (owner, spender) (cur - amt) }

/-- the same spend on the ghost table of token `t` (saturating: the ghost never blocks) -/
def ghostSpend (s : State) (t owner spender amt : Nat) : State :=
  let cur := s.ghost.get (t, owner, spender)
  if cur = maxU256 then s else { s with ghost := s.ghost.set (t, owner, spender) (cur - amt) }

/-- `transfer(ctx, from, to, amount, …)`; `to = 0` is the burn path; `none` = the call fails -/
def xfer (s : State) (d frm to amt : Nat) : Option State :=
  if s.bal.get (frm, d) < amt then none else
  if amt = 0 ∨ frm = to then some s else
  if to = 0 then
    some { s with bal := s.bal.set (frm, d) (s.bal.get (frm, d) - amt),
                  supply := s.supply.set d (s.supply.get d - amt) }
  else if s.blocked.contains to then none
  else
    some { s with bal := (s.bal.set (frm, d) (s.bal.get (frm, d) - amt)).set (to, d)
                            ((s.bal.set (frm, d) (s.bal.get (frm, d) - amt)).get (to, d) + amt) }

/-- allowance handling shared by `transferFrom` and `burnFrom` -/
def spendIfOther (s : State) (t owner caller amt : Nat) : Option State :=
  if owner = caller then some s
  else (spendAllowance s owner caller amt).map (fun s1 => ghostSpend s1 t owner caller amt)

/-- one method body; `none` = returns an error (the frame is reverted) -/
def exec (s : State) (c : Call) (d : Nat) : Option (State × Nat × Option Log) :=
  match c.m with
  | .balanceOf a => some (s, s.bal.get (a, d), none)
  | .totalSupply => some (s, s.supply.get d, none)
  | .allowance o sp => some (s, s.allow.get (o, sp), none)
  | .transfer to amt =>
    if c.caller = 0 ∨ to = 0 then none else
    (xfer s d c.caller to amt).map (fun s' => (s', 1, some (.transfer c.token c.caller to amt)))
  | .transferFrom frm to amt =>
    if frm = 0 ∨ to = 0 then none else
    (spendIfOther s c.token frm c.caller amt).bind (fun s1 =>
      (xfer s1 d frm to amt).map (fun s' => (s', 1, some (.transfer c.token frm to amt))))
  | .approve sp amt =>
    if c.caller = 0 ∨ sp = 0 then none else
    some ({ s with allow := s.allow.set (c.caller, sp) amt, ghost := s.ghost.set (c.token, c.caller, sp) amt },
          1, some (.approval c.token c.caller sp amt))
  | .burn amt =>
    if c.caller = 0 then none else
    (xfer s d c.caller 0 amt).map (fun s' => (s', 1, some (.transfer c.token c.caller 0 amt)))
  | .burnFrom a amt =>
    if a = 0 then none else
    (spendIfOther s c.token a c.caller amt).bind (fun s1 =>
      (xfer s1 d a 0 amt).map (fun s' => (s', 1, some (.transfer c.token a 0 amt))))

/-- a call to an ERC-20 precompile: a failing body leaves the state as it was (frame revert, C03) -/
def step (s : State) (c : Call) : State × Res :=
  match s.denomOf.get c.token with
  | none => (s, .revert)                  -- not an ERC-20 precompile
  | some d =>
    match exec s c d with
    | none => (s, .revert)
    | some (s', r, l) => (s', .ok r l)

/-- a native bank send interleaved with the calls (`MsgSend`: block-list, balance) -/
def bankSend (s : State) (frm to d amt : Nat) : State × Bool :=
  if s.blocked.contains to then (s, false) else
  if s.bal.get (frm, d) < amt then (s, false) else
  if frm = to then (s, true) else
  let b1 := s.bal.set (frm, d) (s.bal.get (frm, d) - amt)
  ({ s with bal := b1.set (to, d) (b1.get (to, d) + amt) }, true)

inductive Op where
  | call (c : Call)
  | send (frm to d amt : Nat)

def apply (s : State) : Op → State
  | .call c => (step s c).1
  | .send f t d a => (bankSend s f t d a).1

def run (s : State) (ops : List Op) : State := ops.foldl apply s

/-- what a spender takes out of an owner's balance on token `t` with this call, if it succeeds -/
def Call.spends (c : Call) : Option (Nat × Nat × Nat) :=   -- (owner, spender, amount)
  match c.m with
  | .transferFrom frm _ amt => if frm ≠ c.caller then some (frm, c.caller, amt) else none
  | .burnFrom a amt => if a ≠ c.caller then some (a, c.caller, amt) else none
  | _ => none

end Evermint.Erc20
