import EvermintModel.Model.CDbGeneric
/-! Helper lemmas for the snapshot stack (used by Properties/C03, C15). -/
namespace Evermint.CDbG
variable {W J : Type}

/-- ids from the bottom are −1, 0, 1, … : on a top-first list, the head's id is `tail.length − 1`. -/
def IdsOk : List (Snap W J) → Prop
  | [] => True
  | x :: xs => x.id = (xs.length : Int) - 1 ∧ IdsOk xs

theorem IdsOk.tail {x : Snap W J} {xs : List (Snap W J)} (h : IdsOk (x :: xs)) : IdsOk xs := h.2

theorem IdsOk.suffix : ∀ (pre l : List (Snap W J)), IdsOk (pre ++ l) → IdsOk l
  | [], _, h => h
  | _ :: pre, l, h => IdsOk.suffix pre l h.2

def CDb.stack (s : CDb W J) : List (Snap W J) := s.top :: s.below
def CDb.Ok (s : CDb W J) : Prop := IdsOk s.stack

theorem new_ok (w : W) (j : J) : (new w j).Ok := by
  simp [CDb.Ok, CDb.stack, new, IdsOk]

theorem upd_stack (s : CDb W J) (h : W → J → W × J) :
    (s.upd h).stack = { s.top with view := (h s.top.view s.j).1 } :: s.below := rfl

theorem upd_ok (s : CDb W J) (h : W → J → W × J) (hs : s.Ok) : (s.upd h).Ok := by
  simp only [CDb.Ok, upd_stack, IdsOk]; exact hs

theorem snapshot_ok (s : CDb W J) (hs : s.Ok) : s.snapshot.1.Ok := by
  simp only [CDb.Ok, CDb.stack, CDb.snapshot, IdsOk] at *
  refine ⟨?_, hs⟩
  simp only [List.length_cons]; omega

/-- structural characterisation of a successful `revertGo`: it stops at a suffix whose head has
the wanted id, and re-branches that head from its parent -/
theorem revertGo_some (id : Int) :
    ∀ (below : List (Snap W J)) (top t : Snap W J) (b' : List (Snap W J)),
      revertGo id top below = some (t, b') →
      ∃ pre t0 p rest, top :: below = pre ++ t0 :: p :: rest ∧ b' = p :: rest ∧
        t0.id = id ∧ t = { t0 with view := p.view }
  | [], top, t, b', h => by simp [revertGo] at h
  | p :: below, top, t, b', h => by
    unfold revertGo at h
    split at h
    · rename_i heq
      injection h with h; injection h with h1 h2
      exact ⟨[], top, p, below, rfl, h2.symm, heq, h1.symm⟩
    · obtain ⟨pre, t0, p', rest, h1, h2, h3, h4⟩ := revertGo_some id below p t b' h
      exact ⟨top :: pre, t0, p', rest, by rw [h1]; rfl, h2, h3, h4⟩

theorem revert_ok (s s' : CDb W J) (id : Int) (hs : s.Ok) (h : s.revert id = some s') : s'.Ok := by
  unfold CDb.revert at h
  split at h
  · cases h
  · split at h
    · cases h
    · rename_i t b heq
      injection h with h; subst h
      obtain ⟨pre, t0, p, rest, h1, h2, _, h4⟩ := revertGo_some id s.below s.top t b heq
      have : IdsOk (t0 :: p :: rest) := IdsOk.suffix pre _ (by rw [← h1]; exact hs)
      subst h2 h4
      exact this

/-- under `IdsOk`, the head of a stack of length n+1 has id n−1 -/
theorem ids_head {x : Snap W J} {xs : List (Snap W J)} (h : IdsOk (x :: xs)) : x.id = (xs.length : Int) - 1 := h.1

/-- popping finds exactly the marked snapshot when it sits below a front of newer ones -/
theorem revertGo_frame (m p : Snap W J) (b : List (Snap W J)) :
    ∀ (front : List (Snap W J)) (top : Snap W J) (below : List (Snap W J)),
      top :: below = front ++ m :: p :: b → IdsOk (top :: below) →
      revertGo m.id top below = some ({ m with view := p.view }, p :: b)
  | [], top, below, h, _ => by
    simp only [List.nil_append, List.cons.injEq] at h
    obtain ⟨h1, h2⟩ := h
    subst h1 h2
    simp [revertGo]
  | x :: front, top, below, h, hok => by
    simp only [List.cons_append, List.cons.injEq] at h
    obtain ⟨h1, h2⟩ := h
    subst h1
    -- below = front ++ m :: p :: b is non-empty
    cases hb : below with
    | nil => rw [hb] at h2; cases front <;> simp at h2
    | cons y ys =>
      have hm : IdsOk (m :: p :: b) := IdsOk.suffix (top :: front) _ (by rw [h2] at hok; exact hok)
      have hmid : m.id = (b.length : Int) := by have := hm.1; simp only [List.length_cons] at this; omega
      have htop : top.id = ((front ++ m :: p :: b).length : Int) - 1 := by rw [← h2]; exact hok.1
      have hne : ¬ top.id = m.id := by
        rw [htop, hmid]; simp only [List.length_append, List.length_cons]; omega
      unfold revertGo
      simp only [hne, if_false]
      apply revertGo_frame m p b front y ys
      · rw [← hb]; exact h2
      · rw [← hb]; exact hok.2

end Evermint.CDbG
