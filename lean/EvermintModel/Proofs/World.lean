import EvermintModel.Model.World
/-! Bank-level lemmas over `World`: what each primitive does to supply and to the EVM module account. -/
namespace Evermint.World

theorem pair_inj {a a' d d' : Nat} (hd : d < 4096) (hd' : d' < 4096) (h : pair a d = pair a' d') : a = a' ∧ d = d' := by
  unfold pair at h; omega

theorem pair_ne_of_addr {a a' d d' : Nat} (hd : d < 4096) (hd' : d' < 4096) (h : a ≠ a') : pair a d ≠ pair a' d' :=
  fun e => h (pair_inj hd hd' e).1

@[simp] theorem balOf_setBal_eq (w : World) (a : Addr) (d : Denom) (n : Nat) : (w.setBal a d n).balOf a d = n := by
  simp [balOf, setBal]

theorem balOf_setBal_ne (w : World) (a a' : Addr) (d d' : Denom) (n : Nat) (hd : d < 4096) (hd' : d' < 4096)
    (h : a' ≠ a ∨ d' ≠ d) : (w.setBal a d n).balOf a' d' = w.balOf a' d' := by
  simp only [balOf, setBal]
  apply FMap.get_set_ne
  intro e
  have := pair_inj hd' hd e
  rcases h with h | h
  · exact h this.1
  · exact h this.2

@[simp] theorem setBal_supply (w : World) (a : Addr) (d : Denom) (n : Nat) : (w.setBal a d n).supply = w.supply := rfl
@[simp] theorem setBal_evmMod (w : World) (a : Addr) (d : Denom) (n : Nat) : (w.setBal a d n).evmMod = w.evmMod := rfl
@[simp] theorem ensureAcc_supply (w : World) (a : Addr) : (w.ensureAcc a).supply = w.supply := by
  unfold ensureAcc; split <;> rfl
@[simp] theorem ensureAcc_bal (w : World) (a : Addr) : (w.ensureAcc a).bal = w.bal := by
  unfold ensureAcc; split <;> rfl
@[simp] theorem ensureAcc_evmMod (w : World) (a : Addr) : (w.ensureAcc a).evmMod = w.evmMod := by
  unfold ensureAcc; split <;> rfl

/-- a bank send never changes any supply -/
theorem sendCoins_supply {w w' : World} {f t : Addr} {d : Denom} {n : Nat}
    (h : w.sendCoins f t d n = .ok w') : w'.supply = w.supply := by
  unfold sendCoins at h
  split at h
  · cases h
  · injection h with h; subst h; simp

theorem sendCoins_evmMod {w w' : World} {f t : Addr} {d : Denom} {n : Nat}
    (h : w.sendCoins f t d n = .ok w') : w'.evmMod = w.evmMod := by
  unfold sendCoins at h
  split at h
  · cases h
  · injection h with h; subst h; simp

@[simp] theorem balOf_ensureAcc (w : World) (x a : Addr) (d : Denom) : (w.ensureAcc x).balOf a d = w.balOf a d := by
  simp [balOf]

/-- balances after a successful send, as two `setBal`s -/
theorem sendCoins_ok_form {w w' : World} {f t : Addr} {d : Denom} {n : Nat}
    (h : w.sendCoins f t d n = .ok w') :
    ¬ w.spendable f d < n ∧
    ∀ a d', w'.balOf a d' =
      ((w.setBal f d (w.balOf f d - n)).setBal t d ((w.setBal f d (w.balOf f d - n)).balOf t d + n)).balOf a d' := by
  unfold sendCoins at h
  split at h
  · cases h
  · rename_i hsp
    injection h with h; subst h
    exact ⟨hsp, fun a d' => by simp [balOf]⟩

/-- what a bank send does to balances: exactly `n` leaves `f` and arrives at `t`, nothing else moves -/
theorem sendCoins_bal {w w' : World} {f t : Addr} {d : Denom} {n : Nat} (hd : d < 4096)
    (h : w.sendCoins f t d n = .ok w') (hft : f ≠ t) :
    w'.balOf f d = w.balOf f d - n ∧ w'.balOf t d = w.balOf t d + n ∧ n ≤ w.balOf f d ∧
    ∀ a d', d' < 4096 → (a ≠ f ∧ a ≠ t ∨ d' ≠ d) → w'.balOf a d' = w.balOf a d' := by
  obtain ⟨hsp, hform⟩ := sendCoins_ok_form h
  have hle : n ≤ w.balOf f d := by
    have : w.spendable f d ≤ w.balOf f d := Nat.sub_le _ _
    omega
  refine ⟨?_, ?_, hle, ?_⟩
  · rw [hform, balOf_setBal_ne _ _ _ _ _ _ hd hd (Or.inl hft), balOf_setBal_eq]
  · rw [hform, balOf_setBal_eq, balOf_setBal_ne _ _ _ _ _ _ hd hd (Or.inl (Ne.symm hft))]
  · intro a d' hd' hne
    rw [hform]
    have h1 : a ≠ t ∨ d' ≠ d := by
      rcases hne with ⟨_, h1⟩ | h2
      · exact Or.inl h1
      · exact Or.inr h2
    have h2 : a ≠ f ∨ d' ≠ d := by
      rcases hne with ⟨h1, _⟩ | h2
      · exact Or.inl h1
      · exact Or.inr h2
    rw [balOf_setBal_ne _ _ _ _ _ _ hd hd' h1, balOf_setBal_ne _ _ _ _ _ _ hd hd' h2]

@[simp] theorem mint_evmMod (w : World) (d : Denom) (n : Nat) : (w.mint d n).evmMod = w.evmMod := rfl
theorem mint_balOf (w : World) (d : Denom) (n : Nat) (a : Addr) (d' : Denom) :
    (w.mint d n).balOf a d' = (w.setBal w.evmMod d (w.balOf w.evmMod d + n)).balOf a d' := rfl
theorem mint_supply (w : World) (d : Denom) (n : Nat) :
    (w.mint d n).supply = w.supply.set d (w.supply.get d + n) := rfl

/-- StateDB `AddBalance` (`mintTo`): supply of the denomination grows by exactly `n`, every other
supply is unchanged, and the EVM module account ends with the balance it started with -/
theorem mintTo_effect {w w' : World} {a : Addr} {d : Denom} {n : Nat} (hd : d < 4096)
    (h : w.mintTo a d n = .ok w') (ha : a ≠ w.evmMod) :
    w'.supply.get d = w.supply.get d + n ∧ (∀ d', d' ≠ d → w'.supply.get d' = w.supply.get d') ∧
    w'.balOf w.evmMod d = w.balOf w.evmMod d ∧ w'.balOf a d = w.balOf a d + n ∧ w'.evmMod = w.evmMod := by
  unfold mintTo at h
  split at h
  · rename_i hz; injection h with h; subst h; subst hz; simp
  · split at h
    · cases h
    · have hs := sendCoins_supply h
      have hb := sendCoins_bal hd h (Ne.symm ha)
      have he := sendCoins_evmMod h
      rw [mint_evmMod] at he
      refine ⟨?_, ?_, ?_, ?_, he⟩
      · rw [hs, mint_supply]; simp
      · intro d' hne; rw [hs, mint_supply]; exact FMap.get_set_ne _ _ _ _ hne
      · rw [hb.1, mint_balOf, balOf_setBal_eq]; omega
      · rw [hb.2.1, mint_balOf, balOf_setBal_ne _ _ _ _ _ _ hd hd (Or.inl ha)]

/-- StateDB `SubBalance` (`burnFrom`): supply shrinks by exactly `n`; the EVM module account ends with
the balance it started with -/
theorem burnFrom_effect {w w' : World} {a : Addr} {d : Denom} {n : Nat} (hd : d < 4096)
    (h : w.burnFrom a d n = .ok w') (ha : a ≠ w.evmMod) :
    w'.supply.get d = w.supply.get d - n ∧ (∀ d', d' ≠ d → w'.supply.get d' = w.supply.get d') ∧
    w'.balOf w.evmMod d = w.balOf w.evmMod d ∧ w'.balOf a d = w.balOf a d - n ∧ n ≤ w.balOf a d ∧ w'.evmMod = w.evmMod := by
  unfold burnFrom at h
  split at h
  · rename_i hz; injection h with h; subst h; subst hz; simp
  · simp only [bind, Except.bind] at h
    split at h
    · cases h
    · rename_i w1 h1
      have hs := sendCoins_supply h1
      have hb := sendCoins_bal hd h1 ha
      have he := sendCoins_evmMod h1
      unfold burn at h
      split at h
      · cases h
      · injection h with h; subst h
        refine ⟨?_, ?_, ?_, ?_, hb.2.2.1, ?_⟩
        · show (w1.supply.set d (w1.supply.get d - n)).get d = _
          rw [FMap.get_set_eq, hs]
        · intro d' hne
          show (w1.supply.set d (w1.supply.get d - n)).get d' = _
          rw [FMap.get_set_ne _ _ _ _ hne, hs]
        · show (w1.setBal w1.evmMod d (w1.balOf w1.evmMod d - n)).balOf w.evmMod d = _
          rw [he, balOf_setBal_eq, hb.2.1]; omega
        · show (w1.setBal w1.evmMod d (w1.balOf w1.evmMod d - n)).balOf a d = _
          rw [he, balOf_setBal_ne _ _ _ _ _ _ hd hd (Or.inl ha), hb.1]
        · exact he

end Evermint.World
