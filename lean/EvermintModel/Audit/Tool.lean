import Lean
/-!
`#audit_module M` prints, for every theorem declared in module `M`, one line
`AXIOMS <name> := [<axioms>]` — the machine-readable form of `#print axioms`, so the
check driver can verify the axiom set of every property theorem without a hand-kept list.
-/
open Lean Elab Command

elab "#audit_module " m:ident : command => do
  let env ← getEnv
  let some idx := env.getModuleIdx? m.getId
    | throwError "module {m.getId} not imported"
  let names := env.header.moduleData[idx.toNat]!.constNames
  let mut count : Nat := 0
  for n in names do
    if n.isInternal then continue
    match env.find? n with
    | some (.thmInfo _) =>
      let axs ← Lean.collectAxioms n
      let axs := axs.qsort Name.lt
      logInfo m!"AXIOMS {n} := {axs.toList}"
      count := count + 1
    | _ => pure ()
  logInfo m!"AUDITED {m.getId} theorems={count}"
