import EvermintModel.Facts.Gen
import EvermintModel.Model.EventSys
/-!
# Facts tying `Model/EventSys.lean` to `/repo/rpc/namespaces/ethereum/eth/filters/filter_system.go`  (regenerated every run)

factgen lists, in source order, the lock operations on `indexMux`, the channel sends and closes, the index and
topic-table updates and the event-bus calls of `consumeEvents`, of the two cases of `eventLoop` and of the
existing-topic shortcut of `subscribe` (annotated with the `if` they sit under).  The expectations below are the
reading `EventSys.fixed` is written from.
-/
namespace Evermint.Facts.EventSys
open Evermint.Facts

/-- `lockAcrossSend = true`: the send sits between `RLock` and the final `RUnlock`; the only earlier `RUnlock`
is on the not-found path, which does not send -/
theorem fact_consume_locks_across_send :
    Gen.eventSysConsume = ["RLock", "RUnlock@if(!ok)", "Topics@if(!ok)", "send ch", "RUnlock"] := by decide +kernel

/-- install: index and (when the bus accepts the topic) record the channel, all under the write lock -/
theorem fact_install_shape :
    Gen.eventSysInstall = ["Lock", "index-assign", "AddTopic", "topicChans-assign@else", "Unlock", "close f.installed"] := by decide +kernel

/-- uninstall: the topic channel is closed only when no indexed subscription uses it, under the write lock -/
theorem fact_uninstall_shape :
    Gen.eventSysUninstall = ["Lock", "delete es.index[f.typ]", "RemoveTopic@if(!channelInUse)@if(ok)", "close ch@if(!channelInUse)@if(ok)",
      "delete es.topicChans@if(!channelInUse)@if(ok)", "Unlock", "close f.err"] := by decide +kernel

/-- `indexJoined = true`: the shortcut of `subscribe` indexes the subscription, under the write lock -/
theorem fact_join_indexes : Gen.eventSysJoin = ["Subscribe", "Lock", "index-assign", "Unlock"] := by decide +kernel

end Evermint.Facts.EventSys

namespace Evermint.Facts.EventSys
open Evermint.Facts

/-- the guards of `FilterLogs`, in order — `LogFilter.selects`: block bounds (missing / negative = none), address
list, **the length guard on all positions** (`len(topics) > len(log.Topics)`, wildcards included), then the
positional comparison `log.Topics[i] == topic` -/
theorem fact_filterlogs_guards :
    Gen.filterLogsGuards =
      ["fromBlock!=nil&&fromBlock.Int64()>=0&&fromBlock.Uint64()>log.BlockNumber",
       "toBlock!=nil&&toBlock.Int64()>=0&&toBlock.Uint64()<log.BlockNumber",
       "len(addresses)>0&&!includes(addresses,log.Address)",
       "len(topics)>len(log.Topics)",
       "log.Topics[i]==topic",
       "!match"] := by decide +kernel

/-- the event system's context (an interface value shared by the requests of all clients and the event loop) is
written under the index lock, used by nobody but the event loop — which reads it between `Lock` and `Unlock`
(`fact_uninstall_shape`) — and no method copies the struct (finding F22: `WithContext` wrote it bare while the event loop
and two value-receiver methods read it: a data race on a two-word value) -/
theorem fact_context_guarded :
    Gen.eventSysWithContext = ["Lock", "ctx-assign", "Unlock"] ∧
    Gen.eventSysValueReceivers = [] ∧
    Gen.eventSysCtxUsers = ["EventSystem.WithContext", "EventSystem.eventLoop"] := by decide +kernel

end Evermint.Facts.EventSys
