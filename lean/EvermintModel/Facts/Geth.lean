import EvermintModel.Facts.Gen
/-! Fact obligations for C02: which StateDB write primitives the pinned fork's interpreter and
`core/evm.go` use (the simulation theorems cover exactly these), the refund quotients, and how the fork
builds the custom-precompile address list (finding F11). -/
namespace Evermint.Facts.Geth
open Evermint.Facts

def setOf (l : List String) : List String := l.foldl (fun acc x => if acc.contains x then acc else acc ++ [x]) []

/-- the interpreter writes state through these StateDB methods only -/
theorem fact_fork_write_primitives :
    setOf ((Gen.forkStateWriteSites.map (·.2.2)) ++ (Gen.forkCoreEvmBalanceSites.map (·.2.2))) =
      ["CanTransfer", "CreateAccount", "Transfer", "AddBalance", "SetNonce", "SetCode", "AddRefund", "SubRefund", "SetState", "Suicide", "AddLog", "SubBalance"] := by
  decide +kernel

/-- `GetCustomPrecompiledContractsAddress` does `make([]Address, n)` (length n, not capacity) and then `append`s:
the list starts with n zero addresses, which `PrepareAccessList` warms (F11) -/
theorem fact_fork_precompile_list_zero_prefixed : Gen.forkCustomPrecompileAddrBuild = ["make/2", "append"] := by decide +kernel

theorem fact_refund_quotients : Gen.refundQuotient = 2 ∧ Gen.refundQuotientEIP3529 = 5 ∧
    Gen.refundQuotientArgs = ["params.RefundQuotient", "params.RefundQuotientEIP3529"] := by decide +kernel

end Evermint.Facts.Geth
