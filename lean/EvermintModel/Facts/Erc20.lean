import EvermintModel.Facts.Gen
import EvermintModel.Model.Erc20
/-! Fact obligations for C10: the allowance key layout and the ERC-20 method table are what the model
transcribes (regenerated from /repo on every run). -/
namespace Evermint.Facts.Erc20
open Evermint.Facts

/-- the allowance store key is `prefix ++ owner ++ spender` — the model's `(owner, spender)` table;
a token component appearing here means the model (and finding F5) must be revisited -/
theorem fact_allowance_key : Gen.allowanceKeyComponents = ["KeyPrefixErc20CpcAllowance", "owner", "spender"] := by
  decide +kernel

def erc20Rows : List Gen.MethodFact := Gen.cpcMethods.filter (fun m => m.contract == "erc20")

/-- the eleven methods, by ABI signature and read-only flag, exactly as modelled (`name/symbol/decimals`
are constant views of the metadata) -/
theorem fact_erc20_method_table : erc20Rows.map (fun m => (m.name, m.readOnly)) =
    [("name()", true), ("approve(address,uint256)", false), ("totalSupply()", true),
     ("transferFrom(address,address,uint256)", false), ("decimals()", true), ("burn(uint256)", false),
     ("balanceOf(address)", true), ("burnFrom(address,uint256)", false), ("symbol()", true),
     ("transfer(address,uint256)", false), ("allowance(address,address)", true)] := by decide +kernel

/-- every hard-coded selector is the ABI id of the method it names; one executor per ABI method -/
theorem fact_erc20_selectors : erc20Rows.all (fun m => m.selector == m.abiId && m.abiId != "") = true ∧
    erc20Rows.length = Gen.abiMethodCount_erc20 := by decide +kernel

/-- view methods reach no state-writing API at all (write census of the executor bodies) -/
theorem fact_erc20_views_write_nothing : (erc20Rows.filter (·.readOnly)).all (fun m => m.writes == []) = true := by
  decide +kernel

/-- the coin-moving methods only use bank send / burn (never mint) and the allowance setter -/
theorem fact_erc20_writes_no_mint :
    erc20Rows.all (fun m => m.writes.all (fun w => ["AddLog", "BurnCoins", "Delete", "SendCoins", "SendCoinsFromAccountToModule", "Set", "SetErc20CpcAllowance"].contains w)) = true := by
  decide +kernel

end Evermint.Facts.Erc20
