import EvermintModel.Facts.GenCode
import EvermintModel.Base.GoSemLemmas
import EvermintModel.Model.VAuth
/-!
Tie theorems for C16: the message server `SubmitProofExternalOwnedAccount` of `/repo/x/vauth/keeper`, **as translated from the
Go source on this run**.  The bank keeper and the proof store are objects the translator does not interpret: their calls appear
as an *effect log* (in call order) and their error results as inputs.  The theorems give the handler's complete decision table —
for every message, every bank behaviour, every stored state:

* nothing is charged and nothing is stored unless `ValidateBasic` (which carries the signature check) passes **and** the account
  has no proof yet (`tie_submit_rejected_no_effect`);
* a successful submission made exactly three calls, in this order: the fixed fee (1e18 of the EVM denomination) from the
  submitter to the module, the burn of that same fee, the save of the proof (`tie_submit_ok`);
* a failing save is a panic (the transaction boundary then drops the fee movement as well), never a silent success.
-/
namespace Evermint.Facts.TieVAuth
open Evermint Evermint.GenCode

def fee (m : keeper_msgServer) : List Go.Coin := [⟨m.evmKeeper_GetParams_EvmDenom, 1000000000000000000⟩]

def effSend (m : keeper_msgServer) : Go.Effect :=
  ⟨"m.bankKeeper.SendCoinsFromAccountToModule_MustAccAddressFromBech32", (fee m).map (·.Amount)⟩
def effBurn (m : keeper_msgServer) : Go.Effect := ⟨"m.bankKeeper.BurnCoins", (fee m).map (·.Amount)⟩
def effSave : Go.Effect := ⟨"m.SaveProofExternalOwnedAccount_m_lit_vauthtypes_ProofExternalOwnedAccount_5084c998", []⟩

/-- the handler's result: `none` = Go panic; otherwise the error class (none = success) and the calls made -/
def spec (m : keeper_msgServer) (msg : types_MsgSubmitProofExternalOwnedAccount) : Option (Option String × List Go.Effect) :=
  if msg.ValidateBasic ≠ none then some (msg.ValidateBasic, []) else
  if m.HasProofExternalOwnedAccount_MustAccAddressFromBech32 msg.Account then some (some "ErrConflict", []) else
  let e1 := m.bankKeeper_SendCoinsFromAccountToModule_MustAccAddressFromBech32 msg.Submitter "vauth" (fee m)
  if e1 ≠ none then some (e1, [effSend m]) else
  let e2 := m.bankKeeper_BurnCoins "vauth" (fee m)
  if e2 ≠ none then some (e2, [effSend m, effBurn m]) else
  if m.SaveProofExternalOwnedAccount_m_lit_vauthtypes_ProofExternalOwnedAccount_5084c998 ≠ none then none else
  some (none, [effSend m, effBurn m, effSave])

theorem tie_submit_proof (m : keeper_msgServer) (g : context_Context) (msg : types_MsgSubmitProofExternalOwnedAccount) :
    keeper_msgServer_SubmitProofExternalOwnedAccount m g msg = spec m msg := by
  unfold keeper_msgServer_SubmitProofExternalOwnedAccount spec fee effSend effBurn effSave
  have hc : Go.newCoin m.evmKeeper_GetParams_EvmDenom 1000000000000000000 = some ⟨m.evmKeeper_GetParams_EvmDenom, 1000000000000000000⟩ := by
    simp [Go.newCoin]
  simp only [hc, Go.newCoins1]
  cases msg.ValidateBasic with
  | some e => simp
  | none =>
    simp only [Option.isNone_none, Bool.not_true, Bool.false_eq_true, if_false, ne_eq, not_true_eq_false]
    cases m.HasProofExternalOwnedAccount_MustAccAddressFromBech32 msg.Account
    · simp only [Bool.false_eq_true, if_false]
      have h0 : ¬ ((1000000000000000000 : Int) = 0) := by decide
      simp only [h0, if_false, fee]
      cases m.bankKeeper_SendCoinsFromAccountToModule_MustAccAddressFromBech32 msg.Submitter "vauth" _ with
      | some e => simp
      | none =>
        simp only [Option.isNone_none, Bool.not_true, Bool.false_eq_true, if_false, not_true_eq_false]
        cases m.bankKeeper_BurnCoins "vauth" _ with
        | some e => simp
        | none =>
          simp only [Option.isNone_none, Bool.not_true, Bool.false_eq_true, if_false, not_true_eq_false]
          cases m.SaveProofExternalOwnedAccount_m_lit_vauthtypes_ProofExternalOwnedAccount_5084c998 <;> simp
    · simp

/-- **a rejected submission stores nothing and burns nothing**: when `ValidateBasic` fails (bad or foreign signature, malformed
addresses) or the account already has a proof, the handler made no call at all on the bank or on the proof store -/
theorem tie_submit_rejected_no_effect (m : keeper_msgServer) (g : context_Context) (msg : types_MsgSubmitProofExternalOwnedAccount)
    (h : msg.ValidateBasic ≠ none ∨ m.HasProofExternalOwnedAccount_MustAccAddressFromBech32 msg.Account = true) :
    ∃ e, e ≠ none ∧ keeper_msgServer_SubmitProofExternalOwnedAccount m g msg = some (e, []) := by
  rw [tie_submit_proof]; unfold spec
  by_cases hv : msg.ValidateBasic ≠ none
  · exact ⟨msg.ValidateBasic, hv, by simp [hv]⟩
  · have hp := h.resolve_left hv
    exact ⟨some "ErrConflict", by simp, by simp [hv, hp]⟩

/-- **a successful submission**: the signature check passed, the account had no proof, and exactly the fixed fee was moved to the
module and burnt before the proof was saved — three calls, in this order, and no other -/
theorem tie_submit_ok (m : keeper_msgServer) (g : context_Context) (msg : types_MsgSubmitProofExternalOwnedAccount) (eff : List Go.Effect)
    (h : keeper_msgServer_SubmitProofExternalOwnedAccount m g msg = some (none, eff)) :
    msg.ValidateBasic = none ∧ m.HasProofExternalOwnedAccount_MustAccAddressFromBech32 msg.Account = false ∧
    eff = [effSend m, effBurn m, effSave] ∧ (fee m).map (·.Amount) = [(VAuth.cost : Int)] := by
  rw [tie_submit_proof] at h; unfold spec at h
  refine ⟨?_, ?_, ?_, by simp [fee, VAuth.cost]⟩
  all_goals
    simp only [ne_eq] at h
    (repeat' (split at h)) <;> simp_all

/-- every error return happens before the proof is saved, and a failing save is a panic: the handler never reports success
without having called the save -/
theorem tie_submit_save_last (m : keeper_msgServer) (g : context_Context) (msg : types_MsgSubmitProofExternalOwnedAccount)
    (e : Option String) (eff : List Go.Effect)
    (h : keeper_msgServer_SubmitProofExternalOwnedAccount m g msg = some (e, eff)) : effSave ∈ eff ↔ e = none := by
  rw [tie_submit_proof] at h; unfold spec at h
  simp only [ne_eq] at h
  (repeat' (split at h)) <;> simp_all [effSave, effSend, effBurn]
  all_goals (obtain ⟨h1, h2⟩ := h; subst h2; first | (subst h1; simp; done) | (simp [fee]; done) | (rw [← h1]; assumption))

/-- non-vacuity: an accepting bank and store — the three calls; a refusing burn — error after two calls -/
example : keeper_msgServer_SubmitProofExternalOwnedAccount
    ⟨fun _ => false, none, fun _ _ => none, fun _ _ _ => none, "wei"⟩ ⟨⟩ ⟨"acc", "sub", none⟩ =
    some (none, [⟨"m.bankKeeper.SendCoinsFromAccountToModule_MustAccAddressFromBech32", [1000000000000000000]⟩,
                 ⟨"m.bankKeeper.BurnCoins", [1000000000000000000]⟩,
                 ⟨"m.SaveProofExternalOwnedAccount_m_lit_vauthtypes_ProofExternalOwnedAccount_5084c998", []⟩]) := by decide

end Evermint.Facts.TieVAuth
