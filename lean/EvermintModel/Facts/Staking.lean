import EvermintModel.Facts.Gen
import EvermintModel.Model.StakingCpc
/-!
# Facts tying `Model/StakingCpc.lean` to `/repo/x/cpc/keeper/precompiles_staking.go`  (regenerated every run)

factgen reads, for every `Execute` method of the staking precompile: the name of its caller parameter, whether
`caller.Address()` is read, the expression the delegator is taken from, the `caller.Address() != …` guard and
the arguments of `eip712.VerifySignature`; and, for every evaluation of a distribution reward query, the
context it runs on.  The expectations below are the reading the model is written from: any edit that changes
who an executor acts for, drops a guard, or verifies for another chain id breaks a named obligation.
-/
namespace Evermint.Facts.Staking
open Evermint.Facts

private def ro (recv : String) : Gen.StakingExec :=
  { recv := recv, callerParam := "_", readsCaller := false, delegatorFrom := "", callerVsDelegator := "", verifyArgs := "", verifyGuard := false }
private def rw (recv from_ : String) : Gen.StakingExec :=
  { recv := recv, callerParam := "caller", readsCaller := true, delegatorFrom := from_, callerVsDelegator := "", verifyArgs := "", verifyGuard := false }
private def signed (recv msg : String) : Gen.StakingExec :=
  { recv := recv, callerParam := "caller", readsCaller := true, delegatorFrom := msg ++ ".Delegator",
    callerVsDelegator := "caller.Address() != " ++ msg ++ ".Delegator",
    verifyArgs := "delegator|" ++ msg ++ "|env.evm.ChainConfig().ChainID", verifyGuard := true }

private def callerAcc := "sdk.AccAddress(caller.Address().Bytes())"

/-- one row per executor; the eight state-changing ones are the eight constructors of `StakingCpc.Call` -/
def expected : List Gen.StakingExec := [
  ro "stakingCustomPrecompiledContractRoBalanceOf",
  ro "stakingCustomPrecompiledContractRoDecimals",
  ro "stakingCustomPrecompiledContractRoDelegatedValidators",
  ro "stakingCustomPrecompiledContractRoDelegationOf",
  ro "stakingCustomPrecompiledContractRoName",
  ro "stakingCustomPrecompiledContractRoRewardOf",
  ro "stakingCustomPrecompiledContractRoRewardsOf",
  ro "stakingCustomPrecompiledContractRoSymbol",
  ro "stakingCustomPrecompiledContractRoTotalDelegationOf",
  rw "stakingCustomPrecompiledContractRwDelegate" callerAcc,                        -- Call.delegate
  signed "stakingCustomPrecompiledContractRwDelegateByActionMessage" "delegateMessage",   -- Call.byMessage
  rw "stakingCustomPrecompiledContractRwReDelegate" callerAcc,                      -- Call.redelegate
  rw "stakingCustomPrecompiledContractRwTransfer" "caller.Address()",               -- Call.transfer
  rw "stakingCustomPrecompiledContractRwUnDelegate" callerAcc,                      -- Call.undelegate
  rw "stakingCustomPrecompiledContractRwWithdrawReward" callerAcc,                  -- Call.withdrawReward
  rw "stakingCustomPrecompiledContractRwWithdrawRewards" callerAcc,                 -- Call.withdrawRewards
  signed "stakingCustomPrecompiledContractRwWithdrawRewardsByMessage" "withdrawRewardMessage"  -- Call.withdrawByMessage
]

/-- **who the executors act for**: view methods ignore the caller; every state-changing method takes the
delegator from `caller.Address()`; the signed variants take it from the message, refuse when it differs from
`caller.Address()`, and verify the signature against that delegator for the EVM's own chain id. -/
theorem fact_staking_executors : Gen.stakingExecutors = expected := by decide +kernel

/-- **where reward queries run**: the distribution queries close reward periods (they write); the read-only
methods evaluate them on a branch that is discarded (`CacheContext`), only the state-changing
`withdrawRewards` evaluates them on the live context. -/
theorem fact_staking_reward_queries :
    Gen.distQuerierCalls =
      [("stakingCustomPrecompiledContractRoRewardOf.Execute", "DelegationRewards", "queryCtx", "ctx.CacheContext()"),
       ("stakingCustomPrecompiledContractRoRewardsOf.getTotalRewards", "DelegationTotalRewards", "queryCtx", "ctx.CacheContext()"),
       ("stakingCustomPrecompiledContractRwWithdrawRewards.withdrawRewards", "DelegationTotalRewards", "ctx", "")] := by decide +kernel

end Evermint.Facts.Staking
