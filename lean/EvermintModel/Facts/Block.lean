import EvermintModel.Facts.Gen
import EvermintModel.Model.Block
/-! Fact obligations shared by C04 / C05 / C06 / C13: what the accounting model assumes about the
code is re-read from /repo and the pinned fork on every run. -/
namespace Evermint.Facts.Block
open Evermint.Facts

/-- balance-changing call sites of the interpreter: only `core.Transfer` (Sub;Add), the zero-value
touch in `StaticCall`, and `opSelfdestruct` — the primitives the C04 theorems cover -/
theorem fact_balance_sites :
    (Gen.forkStateWriteSites.filter (fun s => s.2.2 == "AddBalance" || s.2.2 == "SubBalance")).map (fun s => (s.2.1, s.2.2))
      = [("EVM.StaticCall", "AddBalance"), ("opSelfdestruct", "AddBalance")] ∧
    Gen.forkCoreEvmBalanceSites.map (fun s => (s.2.1, s.2.2)) = [("Transfer", "SubBalance"), ("Transfer", "AddBalance")] := by
  decide +kernel

/-- the refund is credited with `AddBalance` (a mint) inside the transition … -/
theorem fact_refund_mints : Gen.refundGasCalls.contains "st.state.AddBalance" = true := by decide +kernel

/-- … and `EthereumTx` takes the same amount out of the fee collector and burns it (F3 fix) -/
theorem fact_refund_burnt_from_collector :
    Gen.ethereumTxCalls.contains "k.bankKeeper.SendCoinsFromModuleToModule" = true ∧
    Gen.ethereumTxCalls.contains "k.bankKeeper.BurnCoins" = true ∧
    Gen.ethereumTxCalls.contains "k.IsSenderPaidTxFeeInAnteHandle" = true := by decide +kernel

theorem fact_refund_quotient : Gen.refundQuotientEIP3529 = Evermint.Block.refundQuotient ∧
    Gen.refundQuotientArgs = ["params.RefundQuotient", "params.RefundQuotientEIP3529"] := by decide +kernel

/-- minimum accepted gas limit is TxGas − 1 -/
theorem fact_min_gas : Gen.txGas - 1 = 20999 := by decide

/-- consume-all-gas on consensus errors, reset-to-used on success -/
theorem fact_gas_meter_reset :
    (Gen.applyTransactionCalls.filter (· == "k.ResetGasMeterAndConsumeGas")).length = 2 ∧
    Gen.applyTransactionCalls.contains "ctx.GasMeter().Limit" = true := by decide +kernel

/-- the receipt event restores log indices from the cumulative transient log count (F7 fix) -/
theorem fact_log_index_restored : Gen.ethereumTxCalls.contains "k.GetCumulativeLogCountTransient" = true := by decide +kernel

/-- the handler undoes the ante nonce bump and clears the flag before applying the transaction -/
theorem fact_nonce_flag_used :
    Gen.ethereumTxCalls.contains "k.IsSenderNonceIncreasedByAnteHandle" = true ∧
    Gen.ethereumTxCalls.contains "k.SetFlagSenderNonceIncreasedByAnteHandle" = true := by decide +kernel

/-- ante order for the Ethereum lane as the model applies it: validate-basic < fee < signature/nonce <
sequence increment < execution set-up < event -/
theorem fact_ante_order :
    Gen.anteChain.idxOf "duallane.NewDualLaneValidateBasicDecorator" < Gen.anteChain.idxOf "duallane.NewDualLaneDeductFeeDecorator" ∧
    Gen.anteChain.idxOf "duallane.NewDualLaneDeductFeeDecorator" < Gen.anteChain.idxOf "duallane.NewDualLaneSigVerificationDecorator" ∧
    Gen.anteChain.idxOf "duallane.NewDualLaneSigVerificationDecorator" < Gen.anteChain.idxOf "duallane.NewDualLaneIncrementSequenceDecorator" ∧
    Gen.anteChain.idxOf "duallane.NewDualLaneIncrementSequenceDecorator" < Gen.anteChain.idxOf "evmlane.NewEvmLaneSetupExecutionDecorator" ∧
    Gen.anteChain.idxOf "evmlane.NewEvmLaneSetupExecutionDecorator" < Gen.anteChain.idxOf "evmlane.NewEvmLaneEmitEventDecorator" ∧
    Gen.anteChain.idxOf "evmlane.NewEvmLaneEmitEventDecorator" < Gen.anteChain.length := by decide +kernel

end Evermint.Facts.Block
