import EvermintModel.Facts.GenCode
import EvermintModel.Base.GoSemLemmas
import EvermintModel.Model.Erc20
/-!
Tie theorem for C10: `spendAllowance` of the ERC-20 precompile, **as translated from the Go source on this run**, against
`Erc20.spendAllowance` (the function `C10_allowance_*` are about): an unlimited allowance is left alone, an insufficient
one refuses without writing, any other is rewritten to exactly `current − amount` — and the accessor the Go code reads and
writes is named by *(owner, spender)* only: the translated code has no token in the key either (finding F5).
-/
namespace Evermint.Facts.TieErc20
open Evermint Evermint.GenCode Evermint.Erc20

/-- the precompile, as `spendAllowance` reads it: the stored allowance of (owner, spender) -/
def viewOf (s : State) (owner spender : Nat) : keeper_erc20CustomPrecompiledContractRwTransferFrom :=
  { (default : keeper_erc20CustomPrecompiledContractRwTransferFrom) with contract_keeper_GetErc20CpcAllowance_owner_spender := (s.allow.get (owner, spender) : Int) }

theorem tie_spend_allowance (s : State) (owner spender amt : Nat) (ctx : types_Context) (o sp : common_Address) :
    keeper_erc20CustomPrecompiledContractRwTransferFrom_spendAllowance (viewOf s owner spender) ctx o sp (amt : Int) =
      some (match spendAllowance s owner spender amt with
            | none => (some "ERC20InsufficientAllowance(\"%s\",%s,%s)", [])
            | some s' =>
              (none, if s.allow.get (owner, spender) = maxU256 then []
                     else [Go.Effect.mk "e.contract.keeper.SetErc20CpcAllowance_owner_spender" [(s'.allow.get (owner, spender) : Int)]])) := by
  unfold keeper_erc20CustomPrecompiledContractRwTransferFrom_spendAllowance keeper_erc20CustomPrecompiledContractRwTransferFrom_spendAllowance.k1 spendAllowance viewOf
  have hM : (115792089237316195423570985008687907853269984665640564039457584007913129639935 : Int) = ((maxU256 : Nat) : Int) := by
    unfold maxU256; omega
  rw [hM]
  generalize maxU256 = M
  generalize s.allow.get (owner, spender) = cur
  simp only [Go.bigCmp]
  by_cases h1 : cur = M
  · subst h1; simp
  · have h1' : ¬ ((cur : Int) = (M : Int)) := by omega
    by_cases h2 : cur < amt
    · have h2' : (cur : Int) < (amt : Int) := by omega
      simp only [h1, h1', h2, h2', if_true, if_false]
      split <;> simp_all
    · have h2' : ¬ (cur : Int) < (amt : Int) := by omega
      simp only [h1, h1', h2, h2', if_false]
      rw [KMap.get_set_eq]
      have hsub : ((cur - amt : Nat) : Int) = (cur : Int) - (amt : Int) := by omega
      rw [hsub]
      have e1 : ¬ ((if (cur : Int) < (M : Int) then (-1 : Int) else 1) = 0) := by split <;> omega
      have e2 : ¬ ((if (cur : Int) = (amt : Int) then (0 : Int) else 1) < 0) := by split <;> omega
      simp only [e1, e2, decide_false, Bool.false_eq_true, if_false, List.nil_append]

end Evermint.Facts.TieErc20
