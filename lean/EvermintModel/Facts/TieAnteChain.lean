import EvermintModel.Facts.TieAnte
/-!
Tie theorems for C07 / C16: the lane decorators of `/repo/app/antedl` themselves — `duallane/02_ext_opt`, `04_timeout_height`,
`05_memo`, `cosmoslane/991c_reject_eth_msgs`, `993c_vesting_msg_authorization` — **as translated from the Go source on this
run**.  An `AnteHandle` is translated as a function of the *result of the rest of the chain* (`next`) and of the wrapped SDK
decorator (`cd`): "the decorator refuses" is then the statement that its result does not consult `next` at all.
Each theorem gives the decorator's complete decision table, for every transaction, every continuation and every mode; the
corollaries over `txView` connect them to the clauses of `Ante.ethLane` / `Ante.cosmosLane` that the C07 theorems are about.
-/
namespace Evermint.Facts.TieAnteChain
open Evermint Evermint.GenCode Evermint.Ante Evermint.Facts.TieAnte

abbrev Next := Bool → (Unit × Option String)

/-- `02_ext_opt`: a transaction with a single Ethereum message goes on only if it is a well-formed Ethereum transaction (no
foreign / non-critical extension option); anything else is handed to the SDK decorator -/
theorem tie_ext_opt (d : duallane_DLExtensionOptionsDecorator) (ctx : types_Context) (tx : types_Tx) (sim : Bool) (next : Next)
    (b e : Bool) (hb : utils_HasSingleEthereumMessage tx = some b) (he : utils_IsEthereumTx tx = some e) :
    duallane_DLExtensionOptionsDecorator_AnteHandle d ctx tx sim next =
      some (if !b then (d.cd_AnteHandle_tx sim next).2 else if !e then some "ErrUnknownExtensionOptions" else (next sim).2) := by
  unfold duallane_DLExtensionOptionsDecorator_AnteHandle
  simp only [hb, he]
  cases b <;> cases e <;> rfl

/-- `04_timeout_height`: on the Ethereum lane only a zero timeout height goes on -/
theorem tie_timeout_height (d : duallane_DLTxTimeoutHeightDecorator) (ctx : types_Context) (tx : types_Tx) (sim : Bool) (next : Next)
    (b : Bool) (hb : utils_HasSingleEthereumMessage tx = some b) :
    duallane_DLTxTimeoutHeightDecorator_AnteHandle d ctx tx sim next =
      some (if !b then (d.cd_AnteHandle_tx sim next).2
            else if tx.as_protoTxProvider_GetProtoTx_Body_TimeoutHeight ≠ 0 then some "ErrInvalidRequest" else (next sim).2) := by
  unfold duallane_DLTxTimeoutHeightDecorator_AnteHandle
  simp only [hb]
  cases b
  · rfl
  · by_cases h : tx.as_protoTxProvider_GetProtoTx_Body_TimeoutHeight = 0 <;> simp [h]

/-- `05_memo`: on the Ethereum lane only an empty memo goes on -/
theorem tie_memo (d : duallane_DLValidateMemoDecorator) (ctx : types_Context) (tx : types_Tx) (sim : Bool) (next : Next)
    (b : Bool) (hb : utils_HasSingleEthereumMessage tx = some b) :
    duallane_DLValidateMemoDecorator_AnteHandle d ctx tx sim next =
      some (if !b then (d.cd_AnteHandle_tx sim next).2
            else if tx.as_protoTxProvider_GetProtoTx_Body_Memo ≠ "" then some "ErrInvalidRequest" else (next sim).2) := by
  unfold duallane_DLValidateMemoDecorator_AnteHandle
  simp only [hb]
  cases b
  · rfl
  · by_cases h : tx.as_protoTxProvider_GetProtoTx_Body_Memo = "" <;> simp [h]

/-! ### 991c: no Ethereum message beside other messages -/

theorem reject_range (d : cosmoslane_CLRejectEthereumMsgsDecorator) (ctx : types_Context) (tx : types_Tx) (sim : Bool) (next : Next)
    (err : Option String) : ∀ (ms : List iface_ProtoMessage_Reset_String) (ix : Int),
    cosmoslane_CLRejectEthereumMsgsDecorator_AnteHandle.range1 ms ix d ctx tx sim next err =
      some (if ms.any (·.is_evmtypes_MsgEthereumTx) then some "ErrInvalidType" else (next sim).2) := by
  intro ms
  induction ms with
  | nil => intro ix; simp [cosmoslane_CLRejectEthereumMsgsDecorator_AnteHandle.range1, cosmoslane_CLRejectEthereumMsgsDecorator_AnteHandle.k2]
  | cons m tl ih =>
    intro ix
    unfold cosmoslane_CLRejectEthereumMsgsDecorator_AnteHandle.range1
    cases hm : m.is_evmtypes_MsgEthereumTx <;> simp [hm, ih]

/-- `991c_reject_eth_msgs`: a transaction that is not a single-Ethereum-message transaction goes on only if **none** of its
messages is a `MsgEthereumTx` -/
theorem tie_reject_eth_msgs (d : cosmoslane_CLRejectEthereumMsgsDecorator) (ctx : types_Context) (tx : types_Tx) (sim : Bool)
    (next : Next) (b : Bool) (hb : utils_HasSingleEthereumMessage tx = some b) :
    cosmoslane_CLRejectEthereumMsgsDecorator_AnteHandle d ctx tx sim next =
      some (if b then (next sim).2
            else if tx.GetMsgs.any (·.is_evmtypes_MsgEthereumTx) then some "ErrInvalidType" else (next sim).2) := by
  unfold cosmoslane_CLRejectEthereumMsgsDecorator_AnteHandle
  simp only [hb]
  cases b
  · simp only [Bool.false_eq_true, if_false]; exact reject_range _ _ _ _ _ _ _ _
  · rfl

/-- over the model's transactions: the clause `if t.msgs.any Msg.isEth then some "991c-mixed"` of `Ante.cosmosLane` -/
theorem tie_reject_eth_msgs_model (d : cosmoslane_CLRejectEthereumMsgsDecorator) (ctx : types_Context) (t : Tx) (sim : Bool) (next : Next) :
    cosmoslane_CLRejectEthereumMsgsDecorator_AnteHandle d ctx (txView t true) sim next =
      some (if hasSingleEth t then (next sim).2 else if t.msgs.any Msg.isEth then some "ErrInvalidType" else (next sim).2) := by
  rw [tie_reject_eth_msgs _ _ _ _ _ _ (tie_has_single_eth t true)]
  have : (txView t true).GetMsgs.any (·.is_evmtypes_MsgEthereumTx) = t.msgs.any Msg.isEth := by
    simp [txView, List.any_map, Function.comp_def]
  rw [this]

/-! ### 993c: the vesting gate (C16) -/

/-- the gate over Go messages: every message that is one of the three vesting-creation kinds needs a stored proof for its
`ToAddress` -/
def goGate (hasProof : String → Bool) : List iface_ProtoMessage_Reset_String → Option String
  | [] => none
  | m :: ms =>
    if m.is_vestingtypes_MsgCreateVestingAccount then
      (if hasProof m.as_vestingtypes_MsgCreateVestingAccount_ToAddress then goGate hasProof ms else some "ErrUnauthorized")
    else if m.is_vestingtypes_MsgCreatePeriodicVestingAccount then
      (if hasProof m.as_vestingtypes_MsgCreatePeriodicVestingAccount_ToAddress then goGate hasProof ms else some "ErrUnauthorized")
    else if m.is_vestingtypes_MsgCreatePermanentLockedAccount then
      (if hasProof m.as_vestingtypes_MsgCreatePermanentLockedAccount_ToAddress then goGate hasProof ms else some "ErrUnauthorized")
    else goGate hasProof ms

theorem vesting_range (d : cosmoslane_CLVestingMessagesAuthorizationDecorator) (ctx : types_Context) (tx : types_Tx) (sim : Bool)
    (next : Next) (err : Option String) : ∀ (ms : List iface_ProtoMessage_Reset_String) (ix : Int),
    cosmoslane_CLVestingMessagesAuthorizationDecorator_AnteHandle.range1 ms ix d ctx tx sim next err =
      some (match goGate d.vak_HasProofExternalOwnedAccount_MustAccAddressFromBech32 ms with
            | some e => some e
            | none => (next sim).2) := by
  intro ms
  induction ms with
  | nil => intro ix; simp [cosmoslane_CLVestingMessagesAuthorizationDecorator_AnteHandle.range1,
      cosmoslane_CLVestingMessagesAuthorizationDecorator_AnteHandle.k2, goGate]
  | cons m tl ih =>
    intro ix
    unfold cosmoslane_CLVestingMessagesAuthorizationDecorator_AnteHandle.range1 goGate
    cases h0 : m.is_vestingtypes_MsgCreateVestingAccount <;> cases h1 : m.is_vestingtypes_MsgCreatePeriodicVestingAccount <;>
      cases h2 : m.is_vestingtypes_MsgCreatePermanentLockedAccount <;> simp [ih] <;> split <;> simp_all

/-- **`993c_vesting_msg_authorization`**: a Cosmos-lane transaction goes on only if every vesting-creation message in it
(each of the three kinds) names a target with a stored proof of external ownership; otherwise `ErrUnauthorized`, and the rest
of the chain — hence the message handler — is never reached -/
theorem tie_vesting_gate (d : cosmoslane_CLVestingMessagesAuthorizationDecorator) (ctx : types_Context) (tx : types_Tx) (sim : Bool)
    (next : Next) (b : Bool) (hb : utils_HasSingleEthereumMessage tx = some b) :
    cosmoslane_CLVestingMessagesAuthorizationDecorator_AnteHandle d ctx tx sim next =
      some (if b then (next sim).2
            else match goGate d.vak_HasProofExternalOwnedAccount_MustAccAddressFromBech32 tx.GetMsgs with
                 | some e => some e
                 | none => (next sim).2) := by
  unfold cosmoslane_CLVestingMessagesAuthorizationDecorator_AnteHandle
  simp only [hb]
  cases b
  · simp only [Bool.false_eq_true, if_false]; exact vesting_range _ _ _ _ _ _ _ _
  · rfl

/-- **C16 on the code**: when the gate lets a transaction through, *every* vesting-creation message in it — whichever of the
three kinds, at whichever position — names a target with a stored proof -/
theorem goGate_none_all (hp : String → Bool) : ∀ (ms : List iface_ProtoMessage_Reset_String), goGate hp ms = none →
    ∀ m ∈ ms,
      (m.is_vestingtypes_MsgCreateVestingAccount = true → hp m.as_vestingtypes_MsgCreateVestingAccount_ToAddress = true) ∧
      (m.is_vestingtypes_MsgCreateVestingAccount = false → m.is_vestingtypes_MsgCreatePeriodicVestingAccount = true →
        hp m.as_vestingtypes_MsgCreatePeriodicVestingAccount_ToAddress = true) ∧
      (m.is_vestingtypes_MsgCreateVestingAccount = false → m.is_vestingtypes_MsgCreatePeriodicVestingAccount = false →
        m.is_vestingtypes_MsgCreatePermanentLockedAccount = true → hp m.as_vestingtypes_MsgCreatePermanentLockedAccount_ToAddress = true) := by
  intro ms
  induction ms with
  | nil => intro _ m hm; simp at hm
  | cons x xs ih =>
    intro h m hm
    unfold goGate at h
    have hx : (x.is_vestingtypes_MsgCreateVestingAccount = true → hp x.as_vestingtypes_MsgCreateVestingAccount_ToAddress = true) ∧
      (x.is_vestingtypes_MsgCreateVestingAccount = false → x.is_vestingtypes_MsgCreatePeriodicVestingAccount = true →
        hp x.as_vestingtypes_MsgCreatePeriodicVestingAccount_ToAddress = true) ∧
      (x.is_vestingtypes_MsgCreateVestingAccount = false → x.is_vestingtypes_MsgCreatePeriodicVestingAccount = false →
        x.is_vestingtypes_MsgCreatePermanentLockedAccount = true → hp x.as_vestingtypes_MsgCreatePermanentLockedAccount_ToAddress = true) ∧
      goGate hp xs = none := by
      cases h0 : x.is_vestingtypes_MsgCreateVestingAccount <;> cases h1 : x.is_vestingtypes_MsgCreatePeriodicVestingAccount <;>
        cases h2 : x.is_vestingtypes_MsgCreatePermanentLockedAccount <;> simp [h0, h1, h2] at h ⊢ <;>
        (first | exact h | (split at h <;> simp_all))
    rcases List.mem_cons.mp hm with rfl | hin
    · exact ⟨hx.1, hx.2.1, hx.2.2.1⟩
    · exact ih hx.2.2.2 m hin

/-- the Go gate over the views of model messages is the model's `vestingGate` (the function `C16_gate` is about) -/
theorem goGate_model (hp : String → Bool) : ∀ (ms : List Msg),
    goGate hp (ms.map msgView) = (vestingGate (fun a => hp (addrStr a)) ms).map (fun _ => "ErrUnauthorized") := by
  intro ms
  induction ms with
  | nil => rfl
  | cons m tl ih =>
    cases m with
    | vesting k to =>
      match k with
      | 0 => simp [goGate, msgView, msgViewE, vestingKind, toAddr, vestingGate, ih]; split <;> simp_all
      | 1 => simp [goGate, msgView, msgViewE, vestingKind, toAddr, vestingGate, ih]; split <;> simp_all
      | 2 => simp [goGate, msgView, msgViewE, vestingKind, toAddr, vestingGate, ih]; split <;> simp_all
      | n + 3 =>
        have : ¬ (n + 3 < 3) := by omega
        simp [goGate, msgView, msgViewE, vestingKind, vestingGate, ih, this]
    | eth => simp [goGate, msgView, msgViewE, vestingKind, vestingGate, ih]
    | exec l => simp [goGate, msgView, msgViewE, vestingKind, vestingGate, ih]
    | grant u => simp [goGate, msgView, msgViewE, vestingKind, vestingGate, ih]
    | other u => simp [goGate, msgView, msgViewE, vestingKind, vestingGate, ih]

/-- over the model's transactions: the decorator refuses exactly when `Ante.vestingGate` does -/
theorem tie_vesting_gate_model (d : cosmoslane_CLVestingMessagesAuthorizationDecorator) (ctx : types_Context) (t : Tx) (sim : Bool) (next : Next) :
    cosmoslane_CLVestingMessagesAuthorizationDecorator_AnteHandle d ctx (txView t true) sim next =
      some (if hasSingleEth t then (next sim).2
            else match vestingGate (fun a => d.vak_HasProofExternalOwnedAccount_MustAccAddressFromBech32 (addrStr a)) t.msgs with
                 | some _ => some "ErrUnauthorized"
                 | none => (next sim).2) := by
  rw [tie_vesting_gate _ _ _ _ _ _ (tie_has_single_eth t true)]
  have : (txView t true).GetMsgs = t.msgs.map msgView := rfl
  rw [this, goGate_model]
  cases hasSingleEth t <;> simp
  cases vestingGate (fun a => d.vak_HasProofExternalOwnedAccount_MustAccAddressFromBech32 (addrStr a)) t.msgs <;> simp

/-- non-vacuity: a periodic-vesting message for an unproven target beside a bank message is refused; with a proof it goes on -/
example : cosmoslane_CLVestingMessagesAuthorizationDecorator_AnteHandle ⟨fun _ => false⟩ default
    (txView { msgs := [.other 9, .vesting 1 7], eth := default, extOpts := [], nonCrit := 0, sigs := 1, signerInfos := 1, payer := false,
              granter := false, memo := false, timeout := 0, feeCoins := [], gasLimit := 0, txBasicOK := true } true) false
    (fun _ => ((), none)) = some (some "ErrUnauthorized") := by
  rw [tie_vesting_gate_model]; decide
example : cosmoslane_CLVestingMessagesAuthorizationDecorator_AnteHandle ⟨fun _ => true⟩ default
    (txView { msgs := [.other 9, .vesting 1 7], eth := default, extOpts := [], nonCrit := 0, sigs := 1, signerInfos := 1, payer := false,
              granter := false, memo := false, timeout := 0, feeCoins := [], gasLimit := 0, txBasicOK := true } true) false
    (fun _ => ((), none)) = some none := by
  rw [tie_vesting_gate_model]; decide

end Evermint.Facts.TieAnteChain
