import EvermintModel.Facts.Gen
/-! Fact obligations for C15 / C01 about `x/evm/vm/state_db.go` and `x/evm/utils/validation.go`. -/
namespace Evermint.Facts.StateDB
open Evermint.Facts

/-- `DestroyAccount` evaluates the guard at the **block time** of its current context, and the guard
itself never reads the wall clock (F1 fix) -/
theorem fact_destroy_guard_block_time :
    Gen.destroyAccountCalls.contains "evmutils.CheckIfAccountIsSuitableForDestroyingAt" = true ∧
    Gen.destroyAccountCalls.contains "d.currentCtx.BlockTime" = true ∧
    Gen.destroyGuardAtCalls.contains "time.Now" = false ∧
    Gen.destroyAccountCalls.contains "time.Now" = false := by decide +kernel

/-- `DestroyAccount` removes the account record, burns all balances, deletes the code hash and every storage slot -/
theorem fact_destroy_removes_everything :
    Gen.destroyAccountCalls.contains "d.accountKeeper.RemoveAccount" = true ∧
    Gen.destroyAccountCalls.contains "d.bankKeeper.GetAllBalances" = true ∧
    Gen.destroyAccountCalls.contains "d.burnCoins" = true ∧
    Gen.destroyAccountCalls.contains "d.evmKeeper.DeleteCodeHash" = true ∧
    Gen.destroyAccountCalls.contains "d.evmKeeper.ForEachStorage" = true := by decide +kernel

/-- the commit loop destroys accounts while ranging a sorted slice, never the Go map (F2 fix) -/
theorem fact_commit_sorted :
    Gen.commitRanges = ["d.touched map=true effects=false", "touchedAddresses map=false effects=true"] := by decide +kernel

/-- the only wall-clock read in consensus packages is the deprecated wrapper, which nothing in
consensus code calls (`destroyAccountCalls` uses the `…At` variant) -/
theorem fact_census_time_now :
    Gen.censusTimeNow = [("x/evm/utils/validation.go", "CheckIfAccountIsSuitableForDestroying", "time.Now")] := by decide +kernel

end Evermint.Facts.StateDB
