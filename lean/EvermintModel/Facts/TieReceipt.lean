import EvermintModel.Facts.GenCode
import EvermintModel.Base.GoSemLemmas
/-!
Tie theorems for C13: the transient per-block bookkeeping of `/repo/x/evm/keeper/keeper.go` — the transaction counter and
the cumulative log count from which a receipt's first log index is taken — **as translated from the Go source on this
run** (a counting loop with `continue` over store reads keyed by the transaction index).
-/
namespace Evermint.Facts.TieReceipt
open Evermint Evermint.GenCode

/-- the log count stored for the transaction with index `i` of the current block -/
def cnt (ctx : types_Context) (i : Nat) : Nat := Go.beToU64 (ctx.TransientStore_k_transientKey_Get_TxLogCountTransientKey i)

theorem cnt_def (ctx : types_Context) (i : Nat) :
    Go.beToU64 (ctx.TransientStore_k_transientKey_Get_TxLogCountTransientKey i) = cnt ctx i := rfl
attribute [irreducible] cnt

/-- what one iteration adds -/
def term (ctx : types_Context) (exceptCurrent : Bool) (txCount i : Nat) : Nat :=
  if exceptCurrent && decide (i = txCount - 1) then 0 else cnt ctx i

def sumFrom (f : Nat → Nat) (i k : Nat) : Nat := ((List.range' i k).map f).sum

theorem sumFrom_succ (f : Nat → Nat) (i k : Nat) : sumFrom f i (k + 1) = f i + sumFrom f (i + 1) k := by
  simp [sumFrom, List.range'_succ]

theorem loop_spec (k : keeper_Keeper) (ctx : types_Context) (ec : Bool) (txCount : Nat) (htc : 0 < txCount ∧ txCount < 2^64) :
    ∀ fuel i total, txCount - i < fuel → i ≤ txCount →
      total + sumFrom (term ctx ec txCount) i (txCount - i) < 2^64 →
      keeper_Keeper_GetCumulativeLogCountTransient.loop1 fuel k ctx ec total txCount i
        = some (total + sumFrom (term ctx ec txCount) i (txCount - i)) := by
  intro fuel
  induction fuel with
  | zero => intro i total h; omega
  | succ f ih =>
    intro i total hf hi hsum
    unfold keeper_Keeper_GetCumulativeLogCountTransient.loop1
    by_cases hlt : i < txCount
    · have hk : txCount - i = (txCount - (i + 1)) + 1 := by omega
      rw [hk, sumFrom_succ] at hsum ⊢
      have e1 : Go.usub 64 txCount 1 = txCount - 1 := Go.usub_of_le _ _ (by omega) htc.2
      have e2 : Go.uadd 64 i 1 = i + 1 := Go.uadd_of_lt _ _ (by omega)
      simp only [hlt, decide_true, if_true, e1, e2]
      by_cases hc : (ec && decide (i = txCount - 1)) = true
      · have ht : term ctx ec txCount i = 0 := by simp [term, hc]
        simp only [hc, if_true]
        rw [ih (i + 1) total (by omega) (by omega) (by rw [ht] at hsum; omega), ht]
        simp
      · have ht : term ctx ec txCount i = cnt ctx i := by simp [term, hc]
        simp only [hc, Bool.false_eq_true, if_false]
        have hd := cnt_def ctx i
        rw [ht] at hsum
        have e3 : Go.uadd 64 total (cnt ctx i) = total + cnt ctx i := Go.uadd_of_lt _ _ (by omega)
        rw [hd]
        rw [e3]
        have := ih (i + 1) (total + cnt ctx i) (by omega) (by omega) (by omega)
        rw [this]
        rw [ht, Nat.add_assoc]
    · have : txCount - i = 0 := by omega
      simp [hlt, this, sumFrom, keeper_Keeper_GetCumulativeLogCountTransient.k2]

/-- the stored transaction counter, as `GetTxCountTransient` reports it: at least 1 -/
def txCountOf (ctx : types_Context) : Nat := max (Go.beToU64 ctx.TransientStore_k_transientKey_Get_KeyTransientTxCount) 1

theorem beToU64_lt (bz : List Nat) : Go.beToU64 bz < 2^64 := by
  unfold Go.beToU64; split
  · omega
  · exact Nat.mod_lt _ (by omega)

theorem tie_tx_count (k : keeper_Keeper) (ctx : types_Context) :
    keeper_Keeper_GetTxCountTransient k ctx = some (txCountOf ctx) := by
  unfold keeper_Keeper_GetTxCountTransient keeper_Keeper_GetRawTxCountTransient txCountOf
  simp only []
  split <;> simp_all <;> omega

/-- **C13 (log indices)**: `GetCumulativeLogCountTransient(ctx, exceptCurrent)` is the sum of the stored log counts of the
transactions `0 … txCount−1` of this block — without the last one when `exceptCurrent` — whenever that sum fits 64 bits.
With `exceptCurrent = true` this is the start log index of the current transaction: the logs of all *earlier* transactions
(`Block.committedOut`'s `sumTake s.logSlots idx`). -/
theorem tie_cumulative_log_count (k : keeper_Keeper) (ctx : types_Context) (ec : Bool)
    (hfit : sumFrom (term ctx ec (txCountOf ctx)) 0 (txCountOf ctx) < 2^64) :
    keeper_Keeper_GetCumulativeLogCountTransient k ctx ec = some (sumFrom (term ctx ec (txCountOf ctx)) 0 (txCountOf ctx)) := by
  unfold keeper_Keeper_GetCumulativeLogCountTransient
  rw [tie_tx_count]
  simp only []
  have hb := beToU64_lt ctx.TransientStore_k_transientKey_Get_KeyTransientTxCount
  have htc : 0 < txCountOf ctx ∧ txCountOf ctx < 2^64 := by unfold txCountOf; omega
  have := loop_spec k ctx ec (txCountOf ctx) htc (txCountOf ctx + 1) 0 0 (by omega) (by omega) (by simpa using hfit)
  simpa using this

/-- with `exceptCurrent` the last transaction contributes nothing, without it every transaction contributes its count -/
theorem term_except (ctx : types_Context) (n i : Nat) (hi : i < n - 1) : term ctx true n i = cnt ctx i := by
  unfold term; simp; omega
theorem term_last (ctx : types_Context) (n : Nat) : term ctx true n (n - 1) = 0 := by
  unfold term; simp
theorem term_all (ctx : types_Context) (n i : Nat) : term ctx false n i = cnt ctx i := by
  unfold term; simp

end Evermint.Facts.TieReceipt
