import EvermintModel.Facts.GenCode
import EvermintModel.Base.GoSemLemmas
/-!
Tie theorems for C06: the two decorators of the Ethereum lane that authorise a transaction and consume its nonce —
`duallane/11_sig_verification` and `12_increment_sequence` — **as translated from the Go source on this run**.

* `tie_sig_verification` / **`tie_sig_accepts`**: the rest of the chain (and with it the execution) is reached only when the
  signature recovers — with the signer of *this chain's* EIP-155 id — to an address whose bech32 text **is** the declared
  `From`, the account of `From` exists and the transaction's nonce **equals** that account's sequence; every other case is an
  error (or, for a missing account, a panic) that does not consult the continuation.
* **`tie_increment_sequence`**: for an Ethereum-lane transaction exactly three calls are made, in this order — the sequence of the
  declared sender's account is set to *its current value + 1*, the account is stored, the "nonce increased" flag is raised — and
  then the rest of the chain runs; a transaction of the other lane is handed to the SDK decorator without any call.
-/
namespace Evermint.Facts.TieAnteSig
open Evermint Evermint.GenCode

abbrev Next := Bool → (Unit × Option String)

/-- the decision of `11_sig_verification` on an Ethereum-lane transaction: `none` = go on -/
def verdict11 (d : duallane_DLSigVerificationDecorator) (el : iface_ProtoMessage_Reset_String) : Option (Option (Option String)) :=
  if d.new_LatestSignerForChainID_ced01bc1_Sender_el_as_evmtypes_MsgEthereumTx_AsTransaction.2 ≠ none then some (some (some "ErrorInvalidSigner")) else
  if el.as_evmtypes_MsgEthereumTx_From ≠
      d.new_LatestSignerForChainID_ced01bc1_Sender_el_as_evmtypes_MsgEthereumTx_AsTransaction_res0_Bytes_as_sdk_AccAddress_String then
    some (some (some "ErrorInvalidSigner")) else
  if d.ak_GetAccount_el_as_evmtypes_MsgEthereumTx_GetFrom_isNil then some none else
  if el.as_evmtypes_MsgEthereumTx_AsTransaction_Nonce ≠ d.ak_GetAccount_el_as_evmtypes_MsgEthereumTx_GetFrom_GetSequence then
    some (some (some "ErrInvalidSequence")) else none

theorem tie_sig_verification (d : duallane_DLSigVerificationDecorator) (ctx : types_Context) (tx : types_Tx) (sim : Bool) (next : Next)
    (b : Bool) (el : iface_ProtoMessage_Reset_String) (hb : utils_HasSingleEthereumMessage tx = some b) (h0 : Go.idx tx.GetMsgs 0 = some el) :
    duallane_DLSigVerificationDecorator_AnteHandle d ctx tx sim next =
      if !b then some (d.cd_AnteHandle_tx sim next).2
      else match verdict11 d el with
           | some r => r
           | none => some (next sim).2 := by
  unfold duallane_DLSigVerificationDecorator_AnteHandle verdict11
  simp only [hb, h0]
  cases b
  · rfl
  · simp only [Bool.not_true, Bool.false_eq_true, if_false]
    generalize hS : d.new_LatestSignerForChainID_ced01bc1_Sender_el_as_evmtypes_MsgEthereumTx_AsTransaction = S
    simp only [hS]   -- (the occurrence on the generated side, spelled with a primitive projection after `simp`)
    obtain ⟨u, e⟩ := S
    cases e with
    | some v => simp
    | none =>
      simp only [Option.isNone_none, Bool.not_true, Bool.false_eq_true, if_false, ne_eq, not_true_eq_false]
      by_cases hf : el.as_evmtypes_MsgEthereumTx_From =
          d.new_LatestSignerForChainID_ced01bc1_Sender_el_as_evmtypes_MsgEthereumTx_AsTransaction_res0_Bytes_as_sdk_AccAddress_String
      · simp only [hf, decide_true, Bool.not_true, Bool.false_eq_true, if_false, not_true_eq_false]
        cases d.ak_GetAccount_el_as_evmtypes_MsgEthereumTx_GetFrom_isNil
        · simp only [Bool.false_eq_true, if_false]
          by_cases hn : el.as_evmtypes_MsgEthereumTx_AsTransaction_Nonce = d.ak_GetAccount_el_as_evmtypes_MsgEthereumTx_GetFrom_GetSequence <;> simp [hn]
        · simp
      · simp [hf]

/-- **C06 on the code**: what lets an Ethereum-lane transaction past `11_sig_verification` -/
theorem tie_sig_accepts (d : duallane_DLSigVerificationDecorator) (el : iface_ProtoMessage_Reset_String) (h : verdict11 d el = none) :
    d.new_LatestSignerForChainID_ced01bc1_Sender_el_as_evmtypes_MsgEthereumTx_AsTransaction.2 = none ∧
    el.as_evmtypes_MsgEthereumTx_From =
      d.new_LatestSignerForChainID_ced01bc1_Sender_el_as_evmtypes_MsgEthereumTx_AsTransaction_res0_Bytes_as_sdk_AccAddress_String ∧
    d.ak_GetAccount_el_as_evmtypes_MsgEthereumTx_GetFrom_isNil = false ∧
    el.as_evmtypes_MsgEthereumTx_AsTransaction_Nonce = d.ak_GetAccount_el_as_evmtypes_MsgEthereumTx_GetFrom_GetSequence := by
  unfold verdict11 at h
  split at h; · simp at h
  split at h; · simp at h
  split at h; · simp at h
  split at h; · simp at h
  rename_i h1 h2 h3 h4
  exact ⟨by simpa using h1, by simpa using h2, by simpa using h3, by simpa using h4⟩

def effSetSeq (d : duallane_DLIncrementSequenceDecorator) : Go.Effect :=
  ⟨"svd.ak.GetAccount_el_as_evmtypes_MsgEthereumTx_GetFrom.SetSequence",
   [((Go.uadd 64 d.ak_GetAccount_el_as_evmtypes_MsgEthereumTx_GetFrom_GetSequence 1 : Nat) : Int)]⟩
def effSetAcc : Go.Effect := ⟨"svd.ak.SetAccount_svd_ak_GetAccount_el_as_evmtypes_MsgEthereumTx_GetFrom", []⟩
def effFlag : Go.Effect := ⟨"svd.ek.SetFlagSenderNonceIncreasedByAnteHandle", []⟩

/-- **`12_increment_sequence`**: the declared sender's sequence becomes its current value plus one — exactly once — before the rest
of the chain runs; a missing account or a failing `SetSequence` is a panic (recovered by `runTx`: nothing is written) -/
theorem tie_increment_sequence (d : duallane_DLIncrementSequenceDecorator) (ctx : types_Context) (tx : types_Tx) (sim : Bool) (next : Next)
    (b : Bool) (el : iface_ProtoMessage_Reset_String) (hb : utils_HasSingleEthereumMessage tx = some b) (h0 : Go.idx tx.GetMsgs 0 = some el) :
    duallane_DLIncrementSequenceDecorator_AnteHandle d ctx tx sim next =
      if !b then some ((d.cd_AnteHandle_tx sim next).2, [])
      else if d.ak_GetAccount_el_as_evmtypes_MsgEthereumTx_GetFrom_isNil then none
      else if d.ak_GetAccount_el_as_evmtypes_MsgEthereumTx_GetFrom_SetSequence
                (Go.uadd 64 d.ak_GetAccount_el_as_evmtypes_MsgEthereumTx_GetFrom_GetSequence 1) ≠ none then none
      else some ((next sim).2, [effSetSeq d, effSetAcc, effFlag]) := by
  unfold duallane_DLIncrementSequenceDecorator_AnteHandle effSetSeq effSetAcc effFlag
  simp only [hb, h0]
  cases b
  · rfl
  · simp only [Bool.not_true, Bool.false_eq_true, if_false]
    cases d.ak_GetAccount_el_as_evmtypes_MsgEthereumTx_GetFrom_isNil
    · simp only [Bool.false_eq_true, if_false]
      cases d.ak_GetAccount_el_as_evmtypes_MsgEthereumTx_GetFrom_SetSequence
          (Go.uadd 64 d.ak_GetAccount_el_as_evmtypes_MsgEthereumTx_GetFrom_GetSequence 1) with
      | some e => simp
      | none => simp
    · simp

/-- the new sequence is the old one plus one (no wrap-around below 2^64 − 1) -/
theorem tie_increment_is_plus_one (seq : Nat) (h : seq + 1 < 2^64) : Go.uadd 64 seq 1 = seq + 1 := Go.uadd_of_lt _ _ h

/-- **`07_deduct_fee`**: the fee itself is deducted by the SDK decorator with the dual-lane fee checker (tied in
`Facts/TieAdmission.lean`); what this decorator adds is the "sender paid the fee in the ante handler" flag — raised exactly for
Ethereum-lane transactions, *before* the deduction — on which the state transition's refund (`tie_refund_gas`) and the burn of
the refunded fee in the message server depend (C04, C05) -/
theorem tie_deduct_fee_flag (d : duallane_DLDeductFeeDecorator) (ctx : types_Context) (tx : types_Tx) (sim : Bool) (next : Next)
    (b : Bool) (hb : utils_HasSingleEthereumMessage tx = some b) :
    duallane_DLDeductFeeDecorator_AnteHandle d ctx tx sim next =
      some ((d.cd_AnteHandle_tx sim next).2, if b then [Go.Effect.mk "dfd.ek.SetFlagSenderPaidTxFeeInAnteHandle" []] else []) := by
  unfold duallane_DLDeductFeeDecorator_AnteHandle
  simp only [hb]
  cases b <;> rfl

end Evermint.Facts.TieAnteSig
