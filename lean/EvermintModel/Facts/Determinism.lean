import EvermintModel.Facts.Gen
import EvermintModel.Facts.StateDB
/-! Fact obligations for C01: the census of nondeterminism sources in the consensus packages
(`x/`, `app/`, `types/`, `utils/`, `ethereum/`, `crypto/`; test, CLI and simulation files excluded) is
exactly the list below.  A new wall-clock read, map range, goroutine, random source or environment read
changes a regenerated table and breaks the corresponding obligation until it is argued for here. -/
namespace Evermint.Facts.Determinism
open Evermint.Facts

/-- wall clock: one site, the deprecated wrapper; `DestroyAccount` calls the `…At(blockTime)` variant
(`StateDB.fact_destroy_guard_block_time`) -/
theorem fact_census_time_now :
    Gen.censusTimeNow = [("x/evm/utils/validation.go", "CheckIfAccountIsSuitableForDestroying", "time.Now")] := by decide +kernel

/-- `range` over map-typed expressions.  With effects in the body: building the module-address map and the
block-list (`app.go`, result is a map / order-free), AutoCLI options (not consensus), and the three `Copy()`
helpers (insert into a fresh map: `C01_map_copy_order_independent`).  The commit loop ranges the map only to
collect keys into a slice that is sorted before use (`effects=false`; `StateDB.fact_commit_sorted`,
`C01_commit_order_independent`). -/
theorem fact_census_map_range : Gen.censusMapRange =
    [("app/app.go", "Evermint.ModuleAccountAddrs", "maccPerms effects=true"),
     ("app/app.go", "Evermint.BlockedModuleAccountAddrs", "modAccAddrs effects=false"),
     ("app/app.go", "Evermint.AutoCliOpts", "app.mm.Modules effects=true"),
     ("ethereum/eip712/types.go", "sortedJSONKeys", "jsonMap effects=false"),
     ("x/evm/vm/state_db.go", "cStateDb.CommitMultiStore", "d.touched effects=false"),
     ("x/evm/vm/state_db_access_list.go", "AccessList2.Copy", "al.elements effects=true"),
     ("x/evm/vm/state_db_access_list.go", "AccessList2.Copy", "existingSlots effects=false"),
     ("x/evm/vm/state_db_access_list_geth.go", "accessList.Copy", "a.addresses effects=false"),
     ("x/evm/vm/state_db_access_list_geth.go", "accessList.Copy", "slotMap effects=false"),
     ("x/evm/vm/state_db_account_tracker.go", "AccountTracker.Copy", "t effects=false"),
     ("x/evm/vm/state_db_transient_store_geth.go", "transientStorage.Copy", "t effects=true")] := by decide +kernel

/-- goroutines: only the generated gRPC-gateway registration code and the tracer timeout of the `traceTx`
query path — none in block execution -/
theorem fact_census_go_stmt : Gen.censusGoStmt.map (fun s => (s.1, s.2.1)) =
    [("x/cpc/types/query.pb.gw.go", "RegisterQueryHandlerFromEndpoint"), ("x/evm/keeper/grpc_query.go", "Keeper.traceTx"),
     ("x/evm/types/query.pb.gw.go", "RegisterQueryHandlerFromEndpoint"), ("x/evm/types/tx.pb.gw.go", "RegisterMsgHandlerFromEndpoint"),
     ("x/feemarket/types/query.pb.gw.go", "RegisterQueryHandlerFromEndpoint"), ("x/feemarket/types/tx.pb.gw.go", "RegisterMsgHandlerFromEndpoint"),
     ("x/vauth/types/query.pb.gw.go", "RegisterQueryHandlerFromEndpoint"), ("x/vauth/types/tx.pb.gw.go", "RegisterMsgHandlerFromEndpoint")] := by decide +kernel

/-- no random source and no environment read anywhere in the consensus packages -/
theorem fact_census_no_rand_no_env : Gen.censusRand = [] ∧ Gen.censusGetenv = [] := by decide +kernel

/-! ## In-memory state that outlives a transaction (C01: results must not depend on node-local state)

Every package-level variable and every struct field that is a map, a channel, a `sync` primitive or is named like a
cache, in the consensus packages (x/, app, types, utils, ethereum/, crypto/).  The audited list: constants in `var`
form (store-key prefixes, ABI tables, codecs, defaults), the per-transaction containers of the context StateDB, the
singleton codecs of `ethereum/eip712` (set once at start-up), `preventCommit` (a test switch of the StateDB that
nothing sets), and the two `cache…Metadata` fields of the precompile instances (immutable metadata of an instance
that is rebuilt for every EVM).  A memoisation added to a keeper, a precompile, a key type or a codec changes the
list and has to be justified (or found by E-reexec / E-query, which compare instances with different histories). -/

theorem fact_pkg_vars :
    Gen.censusPkgVars = [
      ("app/app.go", "DefaultNodeHome", "string"),
      ("app/app.go", "HardForks", "[]upgrades.Fork"),
      ("app/app.go", "Upgrades", "[]upgrades.Upgrade"),
      ("app/modules.go", "ModuleBasics", "module.BasicManager"),
      ("app/modules.go", "maccPerms", "map[string][]string"),
      ("app/upgrades/v13_sample/constants.go", "Upgrade", "upgrades.Upgrade"),
      ("crypto/hd/algorithm.go", "EthSecp256k1", "hd.ethSecp256k1Algo"),
      ("crypto/hd/algorithm.go", "SupportedAlgorithms", "keyring.SigningAlgoList"),
      ("crypto/hd/algorithm.go", "SupportedAlgorithmsLedger", "keyring.SigningAlgoList"),
      ("crypto/keyring/options.go", "CreatePubkey", "func(key []byte) types.PubKey"),
      ("crypto/keyring/options.go", "LedgerDerivation", "ledger.Secp256k1DerivationFn"),
      ("crypto/keyring/options.go", "SkipDERConversion", "bool"),
      ("crypto/keyring/options.go", "SupportedAlgorithms", "keyring.SigningAlgoList"),
      ("crypto/keyring/options.go", "SupportedAlgorithmsLedger", "keyring.SigningAlgoList"),
      ("ethereum/eip712/encoding.go", "aminoCodec", "*codec.LegacyAmino"),
      ("ethereum/eip712/encoding.go", "protoCodec", "codec.Codec"),
      ("ethereum/eip712/encoding.go", "txConfig", "client.TxConfig"),
      ("types/chain_id.go", "evermintChainID", "*regexp.Regexp"),
      ("types/chain_id.go", "regexChainID", "string"),
      ("types/chain_id.go", "regexEIP155", "string"),
      ("types/chain_id.go", "regexEIP155Separator", "string"),
      ("types/chain_id.go", "regexEpoch", "string"),
      ("types/chain_id.go", "regexEpochSeparator", "string"),
      ("types/coin.go", "PowerReduction", "math.Int"),
      ("types/hdpath.go", "BIP44HDPath", "string"),
      ("types/hdpath.go", "Bip44CoinType", "uint32"),
      ("x/cpc/abi/precompiled_info.go", "Bech32CpcInfo", "abi.CustomPrecompiledContractInfo"),
      ("x/cpc/abi/precompiled_info.go", "Erc20CpcInfo", "abi.CustomPrecompiledContractInfo"),
      ("x/cpc/abi/precompiled_info.go", "StakingCpcInfo", "abi.CustomPrecompiledContractInfo"),
      ("x/cpc/abi/precompiled_info.go", "bech32Json", "[]byte"),
      ("x/cpc/abi/precompiled_info.go", "erc20JSON", "[]byte"),
      ("x/cpc/abi/precompiled_info.go", "stakingJson", "[]byte"),
      ("x/cpc/types/codec.go", "Amino", "*codec.LegacyAmino"),
      ("x/cpc/types/codec.go", "ModuleCdc", "*codec.ProtoCodec"),
      ("x/cpc/types/keys.go", "CpcModuleAddress", "common.Address"),
      ("x/cpc/types/keys.go", "KeyPrefixCustomPrecompiledContractMeta", "[]byte"),
      ("x/cpc/types/keys.go", "KeyPrefixErc20CpcAllowance", "[]byte"),
      ("x/cpc/types/keys.go", "KeyPrefixErc20CpcDenomToAddress", "[]byte"),
      ("x/cpc/types/keys.go", "KeyPrefixParams", "[]byte"),
      ("x/cpc/types/precompiles.go", "CpcBech32FixedAddress", "common.Address"),
      ("x/cpc/types/precompiles.go", "CpcStakingFixedAddress", "common.Address"),
      ("x/cpc/types/utils.go", "BigMaxUint256", "*big.Int"),
      ("x/cpc/utils/abi.go", "abiArgsSingleArrayOfAddresses", "abi.Arguments"),
      ("x/cpc/utils/abi.go", "abiArgsSingleBool", "abi.Arguments"),
      ("x/cpc/utils/abi.go", "abiArgsSingleString", "abi.Arguments"),
      ("x/cpc/utils/abi.go", "abiArgsSingleUint256", "abi.Arguments"),
      ("x/cpc/utils/abi.go", "abiArgsSingleUint8", "abi.Arguments"),
      ("x/evm/types/codec.go", "AminoCdc", "*codec.AminoCodec"),
      ("x/evm/types/codec.go", "ModuleCdc", "*codec.ProtoCodec"),
      ("x/evm/types/codec.go", "amino", "*codec.LegacyAmino"),
      ("x/evm/types/compiled_contract.go", "ERC20Contract", "types.CompiledContract"),
      ("x/evm/types/compiled_contract.go", "SimpleStorageContract", "types.CompiledContract"),
      ("x/evm/types/compiled_contract.go", "TestMessageCall", "types.CompiledContract"),
      ("x/evm/types/compiled_contract.go", "erc20JSON", "[]byte"),
      ("x/evm/types/compiled_contract.go", "simpleStorageJSON", "[]byte"),
      ("x/evm/types/compiled_contract.go", "testMessageCallJSON", "[]byte"),
      ("x/evm/types/key.go", "KeyEip155ChainId", "[]byte"),
      ("x/evm/types/key.go", "KeyPrefixBlockHash", "[]byte"),
      ("x/evm/types/key.go", "KeyPrefixCode", "[]byte"),
      ("x/evm/types/key.go", "KeyPrefixCodeHash", "[]byte"),
      ("x/evm/types/key.go", "KeyPrefixParams", "[]byte"),
      ("x/evm/types/key.go", "KeyPrefixStorage", "[]byte"),
      ("x/evm/types/key.go", "KeyPrefixTransientTxGas", "[]byte"),
      ("x/evm/types/key.go", "KeyPrefixTransientTxLogCount", "[]byte"),
      ("x/evm/types/key.go", "KeyPrefixTransientTxReceipt", "[]byte"),
      ("x/evm/types/key.go", "KeyTransientFlagIncreasedSenderNonce", "[]byte"),
      ("x/evm/types/key.go", "KeyTransientFlagNoBaseFee", "[]byte"),
      ("x/evm/types/key.go", "KeyTransientSenderPaidFee", "[]byte"),
      ("x/evm/types/key.go", "KeyTransientTxCount", "[]byte"),
      ("x/evm/types/params.go", "DefaultEVMDenom", "string"),
      ("x/evm/types/params.go", "DefaultEnableCall", "bool"),
      ("x/evm/types/params.go", "DefaultEnableCreate", "bool"),
      ("x/evm/types/params.go", "DefaultExtraEIPs", "[]int64"),
      ("x/evm/types/params.go", "EmptyBlockBloom", "types.Bloom"),
      ("x/evm/types/params_legacy.go", "ParamStoreKeyChainConfig", "[]byte"),
      ("x/evm/types/params_legacy.go", "ParamStoreKeyEVMDenom", "[]byte"),
      ("x/evm/types/params_legacy.go", "ParamStoreKeyEnableCall", "[]byte"),
      ("x/evm/types/params_legacy.go", "ParamStoreKeyEnableCreate", "[]byte"),
      ("x/evm/types/params_legacy.go", "ParamStoreKeyExtraEIPs", "[]byte"),
      ("x/evm/types/utils.go", "EmptyCodeHash", "[]byte"),
      ("x/evm/vm/state_db.go", "preventCommit", "bool"),
      ("x/feemarket/types/codec.go", "AminoCdc", "*codec.AminoCodec"),
      ("x/feemarket/types/codec.go", "ModuleCdc", "*codec.ProtoCodec"),
      ("x/feemarket/types/codec.go", "amino", "*codec.LegacyAmino"),
      ("x/feemarket/types/params.go", "DefaultBaseFee", "uint64"),
      ("x/feemarket/types/params.go", "DefaultMinGasPrice", "math.LegacyDec"),
      ("x/feemarket/types/params.go", "ParamStoreKeyBaseFee", "[]byte"),
      ("x/feemarket/types/params.go", "ParamStoreKeyMinGasPrice", "[]byte"),
      ("x/feemarket/types/params.go", "ParamsKey", "[]byte"),
      ("x/vauth/types/codec.go", "Amino", "*codec.LegacyAmino"),
      ("x/vauth/types/codec.go", "ModuleCdc", "*codec.ProtoCodec"),
      ("x/vauth/types/keys.go", "KeyPrefixProofExternalOwnedAccount", "[]byte")] := by decide +kernel

theorem fact_mem_fields :
    Gen.censusMemFields = [
      ("app/antedl/cosmoslane/992c_reject_authz_msgs.go", "CLRejectAuthzMsgsDecorator.disabledNestedMsgs", "map[string]struct{}"),
      ("app/app.go", "Evermint.ModuleBasics", "module.BasicManager"),
      ("app/keepers/keepers.go", "AppKeepers.keys", "map[string]*types.KVStoreKey"),
      ("app/keepers/keepers.go", "AppKeepers.memKeys", "map[string]*types.MemoryStoreKey"),
      ("app/keepers/keepers.go", "AppKeepers.tkeys", "map[string]*types.TransientStoreKey"),
      ("ethereum/eip712/message.go", "eip712MessagePayload.message", "map[string]interface{}"),
      ("x/cpc/keeper/precompiles_erc20.go", "erc20CustomPrecompiledContract.cacheErc20Metadata", "*types.Erc20CustomPrecompiledContractMeta"),
      ("x/cpc/keeper/precompiles_staking.go", "stakingCustomPrecompiledContract.cacheStakingMetadata", "*types.StakingCustomPrecompiledContractMeta"),
      ("x/cpc/keeper/precompiles_util.go", "normalizedEvent.Attributes", "map[string]string"),
      ("x/evm/vm/state_db.go", "cStateDb.selfDestructed", "vm.AccountTracker"),
      ("x/evm/vm/state_db.go", "cStateDb.touched", "vm.AccountTracker"),
      ("x/evm/vm/state_db_access_list.go", "AccessList2.elements", "map[common.Address]map[common.Hash]bool"),
      ("x/evm/vm/state_db_access_list_geth.go", "accessList.addresses", "map[common.Address]int"),
      ("x/evm/vm/state_db_snapshot.go", "RtStateDbSnapshot.selfDestructed", "vm.AccountTracker"),
      ("x/evm/vm/state_db_snapshot.go", "RtStateDbSnapshot.touched", "vm.AccountTracker")] := by decide +kernel

/-- every dereference `*x.To()` of a recipient pointer (nil for a contract creation) sits in a function that compares
a `To()` with nil (finding F21: `NewTracer` did not, so a node configured with `evm.tracer = access_list` panicked
on contract creations that every other node executed) -/
theorem fact_to_derefs_guarded : Gen.censusToDerefs.all (fun s => s.2.2 == "guarded") = true := by decide +kernel

/-- no store-key prefix has spare capacity: `append(prefix, addr...)`, executed by the consensus goroutine and by every
query goroutine, therefore always copies and never writes into a backing array shared between goroutines (18
prefixes examined in the compiled code; the set of package-level variables is `fact_pkg_vars`) -/
theorem fact_key_prefixes_no_spare_capacity :
    Gen.keyPrefixesWithSpareCapacity = [] ∧ Gen.keyPrefixesExamined = 18 := by decide +kernel

/-- no `append` whose first argument is the result of a call, other than the one storage-key constructor whose callee
returns a fresh slice (`AddressStoragePrefix` itself appends to a prefix without spare capacity, see above): appending to
a slice handed out by a callee writes into the callee's array when it has spare capacity.  Finding F23: `TransitionDb`
appended the custom precompile addresses to go-ethereum's package-level `ActivePrecompiles(rules)` (len 9, cap 16) —
every transaction of every goroutine (block execution, mempool checks, JSON-RPC calls) wrote the same shared array, in
map iteration order, while others read it to build their warm set -/
theorem fact_no_append_to_shared_call_result :
    Gen.censusAppendToCall = [("x/evm/types/key.go", "StateKey", "AddressStoragePrefix")] := by decide +kernel

end Evermint.Facts.Determinism
