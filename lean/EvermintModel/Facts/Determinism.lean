import EvermintModel.Facts.Gen
import EvermintModel.Facts.StateDB
/-! Fact obligations for C01: the census of nondeterminism sources in the consensus packages
(`x/`, `app/`, `types/`, `utils/`, `ethereum/`, `crypto/`; test, CLI and simulation files excluded) is
exactly the list below.  A new wall-clock read, map range, goroutine, random source or environment read
changes a regenerated table and breaks the corresponding obligation until it is argued for here. -/
namespace Evermint.Facts.Determinism
open Evermint.Facts

/-- wall clock: one site, the deprecated wrapper; `DestroyAccount` calls the `…At(blockTime)` variant
(`StateDB.fact_destroy_guard_block_time`) -/
theorem fact_census_time_now :
    Gen.censusTimeNow = [("x/evm/utils/validation.go", "CheckIfAccountIsSuitableForDestroying", "time.Now")] := by decide +kernel

/-- `range` over map-typed expressions.  With effects in the body: building the module-address map and the
block-list (`app.go`, result is a map / order-free), AutoCLI options (not consensus), and the three `Copy()`
helpers (insert into a fresh map: `C01_map_copy_order_independent`).  The commit loop ranges the map only to
collect keys into a slice that is sorted before use (`effects=false`; `StateDB.fact_commit_sorted`,
`C01_commit_order_independent`). -/
theorem fact_census_map_range : Gen.censusMapRange =
    [("app/app.go", "Evermint.ModuleAccountAddrs", "maccPerms effects=true"),
     ("app/app.go", "Evermint.BlockedModuleAccountAddrs", "modAccAddrs effects=false"),
     ("app/app.go", "Evermint.AutoCliOpts", "app.mm.Modules effects=true"),
     ("ethereum/eip712/types.go", "sortedJSONKeys", "jsonMap effects=false"),
     ("x/evm/vm/state_db.go", "cStateDb.CommitMultiStore", "d.touched effects=false"),
     ("x/evm/vm/state_db_access_list.go", "AccessList2.Copy", "al.elements effects=true"),
     ("x/evm/vm/state_db_access_list.go", "AccessList2.Copy", "existingSlots effects=false"),
     ("x/evm/vm/state_db_access_list_geth.go", "accessList.Copy", "a.addresses effects=false"),
     ("x/evm/vm/state_db_access_list_geth.go", "accessList.Copy", "slotMap effects=false"),
     ("x/evm/vm/state_db_account_tracker.go", "AccountTracker.Copy", "t effects=false"),
     ("x/evm/vm/state_db_transient_store_geth.go", "transientStorage.Copy", "t effects=true")] := by decide +kernel

/-- goroutines: only the generated gRPC-gateway registration code and the tracer timeout of the `traceTx`
query path — none in block execution -/
theorem fact_census_go_stmt : Gen.censusGoStmt.map (fun s => (s.1, s.2.1)) =
    [("x/cpc/types/query.pb.gw.go", "RegisterQueryHandlerFromEndpoint"), ("x/evm/keeper/grpc_query.go", "Keeper.traceTx"),
     ("x/evm/types/query.pb.gw.go", "RegisterQueryHandlerFromEndpoint"), ("x/evm/types/tx.pb.gw.go", "RegisterMsgHandlerFromEndpoint"),
     ("x/feemarket/types/query.pb.gw.go", "RegisterQueryHandlerFromEndpoint"), ("x/feemarket/types/tx.pb.gw.go", "RegisterMsgHandlerFromEndpoint"),
     ("x/vauth/types/query.pb.gw.go", "RegisterQueryHandlerFromEndpoint"), ("x/vauth/types/tx.pb.gw.go", "RegisterMsgHandlerFromEndpoint")] := by decide +kernel

/-- no random source and no environment read anywhere in the consensus packages -/
theorem fact_census_no_rand_no_env : Gen.censusRand = [] ∧ Gen.censusGetenv = [] := by decide +kernel

end Evermint.Facts.Determinism
