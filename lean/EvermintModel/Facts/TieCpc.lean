import EvermintModel.Facts.GenCode
import EvermintModel.Base.GoSemLemmas
/-!
Tie theorem for C17: `validateDeployer` of `/repo/x/cpc/keeper/msg_server.go` (the gate in front of both deploy messages),
**as translated from the Go source on this run**: the authority is accepted exactly when it is an element of the
whitelist stored in the module parameters — for every whitelist, in particular the empty one (nobody), and with no
fallback of any kind.
-/
namespace Evermint.Facts.TieCpc
open Evermint Evermint.GenCode

theorem range_spec (authority : String) (p : cpc_types_Params) : ∀ (ws : List String) (ix : Int),
    keeper_validateDeployer.range1 ws ix authority p = some (if authority ∈ ws then none else some "ErrInvalidSigner") := by
  intro ws
  induction ws with
  | nil => intro ix; simp [keeper_validateDeployer.range1, keeper_validateDeployer.k2]
  | cons w tl ih =>
    intro ix
    unfold keeper_validateDeployer.range1
    by_cases h : w = authority
    · simp [h]
    · have h' : ¬ authority = w := fun e => h e.symm
      simp only [h, decide_false, Bool.false_eq_true, if_false, ih, List.mem_cons, h', false_or]

/-- **deployment is refused unless the signer is on the governance-controlled whitelist** -/
theorem tie_validate_deployer (authority : String) (p : cpc_types_Params) :
    keeper_validateDeployer authority p =
      some (if authority ∈ p.WhitelistedDeployers then none else some "ErrInvalidSigner") := by
  unfold keeper_validateDeployer; exact range_spec _ _ _ _

/-- with the default parameters (empty whitelist) nobody can deploy -/
theorem tie_empty_whitelist_refuses (authority : String) (p : cpc_types_Params) (h : p.WhitelistedDeployers = []) :
    keeper_validateDeployer authority p = some (some "ErrInvalidSigner") := by
  rw [tie_validate_deployer, h]; simp

example : keeper_validateDeployer "b" { WhitelistedDeployers := ["a", "b"] } = some none := by decide
example : keeper_validateDeployer "gov" { WhitelistedDeployers := ["a", "b"] } = some (some "ErrInvalidSigner") := by decide

end Evermint.Facts.TieCpc
