import EvermintModel.Facts.GenCode
import EvermintModel.Base.GoSemLemmas
import EvermintModel.Model.Block
import EvermintModel.Model.World
/-!
Tie theorems for the state transition (C04, C05, C06, C09, C15, C01): `StateTransition.gasUsed / buyGas / preCheck /
refundGas` of `/repo/x/evm/keeper/state_transition_core.go`, go-ethereum's `IntrinsicGas`, the destroy guard
`CheckIfAccountIsSuitableForDestroyingAt` and `BlockGasLimit`, **as translated from the Go source on this run**
(`Facts/GenCode.lean`), against the quantities of `Model/Block.lean` / `Model/World.lean`.
-/
namespace Evermint.Facts.TieTransition
open Evermint Evermint.GenCode Evermint.Block

/-! ### gas bookkeeping of the state transition -/

/-- the invariant of `StateTransition`: gas left never exceeds the gas bought, both are uint64 -/
def GasInv (st : keeper_StateTransition) : Prop := st.gas ≤ st.initialGas ∧ st.initialGas < 2^64

theorem tie_gas_used (st : keeper_StateTransition) (h : GasInv st) :
    keeper_StateTransition_gasUsed st = some (st.initialGas - st.gas) := by
  unfold keeper_StateTransition_gasUsed
  rw [Go.usub_of_le _ _ h.1 h.2]

/-- the refund the Go code applies: `min (gasUsed / quotient) refundCounter` -/
def refundOf (st : keeper_StateTransition) (q : Nat) : Nat := min ((st.initialGas - st.gas) / q) st.state_GetRefund

theorem refundOf_le (st : keeper_StateTransition) (q : Nat) (hq : 0 < q) : refundOf st q ≤ (st.initialGas - st.gas) / q :=
  Nat.min_le_left _ _

/-- a proof script that does not look at how the code spells `min` -/
macro "refund_tac" st:ident q:ident hq:ident h:ident : tactic => `(tactic| (
  rw [tie_gas_used $st $h]
  have hq' : $q ≠ 0 := by omega
  have hdiv : (($st).initialGas - ($st).gas) / $q ≤ ($st).initialGas - ($st).gas := Nat.div_le_self _ _
  have hg1 := ($h).1
  have hg2 := ($h).2
  have ea : Go.uadd 64 ($st).gas ((($st).initialGas - ($st).gas) / $q) = ($st).gas + (($st).initialGas - ($st).gas) / $q := Go.uadd_of_lt _ _ (by omega)
  rcases Nat.lt_trichotomy ((($st).initialGas - ($st).gas) / $q) ($st).state_GetRefund with hlt | heq | hgt
  · have f1 : ¬ (($st).state_GetRefund < (($st).initialGas - ($st).gas) / $q) := by omega
    have f2 : ¬ (($st).state_GetRefund ≤ (($st).initialGas - ($st).gas) / $q) := by omega
    have f3 : (($st).initialGas - ($st).gas) / $q ≤ ($st).state_GetRefund := by omega
    have hm : refundOf $st $q = (($st).initialGas - ($st).gas) / $q := by unfold refundOf; omega
    cases hp : ($st).SenderPaidTheFee <;> simp [Go.udiv, hq', hlt, f1, f2, f3, hm, ea, hp]
  · have eb : Go.uadd 64 ($st).gas ($st).state_GetRefund = ($st).gas + ($st).state_GetRefund := by rw [← heq]; exact ea
    have hm : refundOf $st $q = ($st).state_GetRefund := by unfold refundOf; omega
    cases hp : ($st).SenderPaidTheFee <;> simp [Go.udiv, hq', heq, hm, eb, hp]
  · have f1 : ¬ ((($st).initialGas - ($st).gas) / $q < ($st).state_GetRefund) := by omega
    have f2 : ¬ ((($st).initialGas - ($st).gas) / $q ≤ ($st).state_GetRefund) := by omega
    have f3 : ($st).state_GetRefund ≤ (($st).initialGas - ($st).gas) / $q := by omega
    have eb : Go.uadd 64 ($st).gas ($st).state_GetRefund = ($st).gas + ($st).state_GetRefund := Go.uadd_of_lt _ _ (by omega)
    have hm : refundOf $st $q = ($st).state_GetRefund := by unfold refundOf; omega
    cases hp : ($st).SenderPaidTheFee <;> simp [Go.udiv, hq', hgt, f1, f2, f3, hm, eb, hp]))


/-- **`refundGas`**: the gas counter grows by exactly `min (gasUsed / q) counter`; the sender is credited
`remaining gas × price` exactly when it paid the fee in the ante handler; the same remaining gas goes back to the gas
pool; and the only way to panic is a zero quotient.  (The proof script splits on the order of the two quantities and lets
`simp` decide every comparison, so it does not depend on how the code spells the minimum.) -/
theorem tie_refund_gas (st : keeper_StateTransition) (q : Nat) (hq : 0 < q) (h : GasInv st) :
    ∃ obs, keeper_StateTransition_refundGas st q =
      some ({ st with gas := st.gas + refundOf st q },
            [obs] ++ (if st.SenderPaidTheFee then [Go.Effect.mk "st.state.AddBalance_st_msg_From" [((st.gas + refundOf st q : Nat) : Int) * st.gasPrice]] else [])
                  ++ [Go.Effect.mk "st.gp.AddGas" [((st.gas + refundOf st q : Nat) : Int)]]) := by
  unfold keeper_StateTransition_refundGas
  refund_tac st q hq h


theorem tie_refund_gas_panics_on_zero_quotient (st : keeper_StateTransition) (h : GasInv st) :
    keeper_StateTransition_refundGas st 0 = none := by
  unfold keeper_StateTransition_refundGas
  rw [tie_gas_used st h]; simp [Go.udiv]

/-- the interpreter's summary, as the Block model takes it, for a state transition that bought `initialGas` -/
def execOf (st : keeper_StateTransition) (vmErr : Bool) (nLogs : Nat) : Exec :=
  { vmErr := vmErr, gasBefore := st.initialGas - st.gas, refundCounter := st.state_GetRefund, nLogs := nLogs, panicked := false }

/-- with London's quotient the Go refund is the model's `Exec.refund`, the gas used afterwards is `Exec.gasUsed`
(`C05_refund_cap`: at most a fifth of the gas consumed), and the amount credited to the sender is the model's
`(gasLimit − gasUsed) × price` (`C04_refund_conserves`, `C05_charge`) -/
theorem tie_refund_is_model (st : keeper_StateTransition) (vmErr : Bool) (nLogs : Nat) (h : GasInv st) :
    refundOf st refundQuotient = (execOf st vmErr nLogs).refund ∧
    st.initialGas - (st.gas + refundOf st refundQuotient) = (execOf st vmErr nLogs).gasUsed ∧
    st.gas + refundOf st refundQuotient = st.initialGas - (execOf st vmErr nLogs).gasUsed ∧
    5 * refundOf st refundQuotient ≤ st.initialGas - st.gas := by
  have hg := h.1
  show min ((st.initialGas - st.gas) / 5) st.state_GetRefund = min ((st.initialGas - st.gas) / 5) st.state_GetRefund ∧
       st.initialGas - (st.gas + min ((st.initialGas - st.gas) / 5) st.state_GetRefund)
         = (st.initialGas - st.gas) - min ((st.initialGas - st.gas) / 5) st.state_GetRefund ∧
       st.gas + min ((st.initialGas - st.gas) / 5) st.state_GetRefund
         = st.initialGas - ((st.initialGas - st.gas) - min ((st.initialGas - st.gas) / 5) st.state_GetRefund) ∧
       5 * min ((st.initialGas - st.gas) / 5) st.state_GetRefund ≤ st.initialGas - st.gas
  generalize hr : min ((st.initialGas - st.gas) / 5) st.state_GetRefund = r
  have hle : r ≤ (st.initialGas - st.gas) / 5 := by rw [← hr]; exact Nat.min_le_left _ _
  have h5 : 5 * ((st.initialGas - st.gas) / 5) ≤ st.initialGas - st.gas := Nat.mul_div_le _ _
  omega

/-! ### buying gas and the pre-checks -/

theorem tie_buy_gas (st : keeper_StateTransition) (hg : st.gas + st.msg_Gas < 2^64) :
    keeper_StateTransition_buyGas st =
      some (match st.gp_SubGas st.msg_Gas with
            | some e => (some e, st, [Go.Effect.mk "st.gp.SubGas" [(st.msg_Gas : Int)]])
            | none => (none, { st with initialGas := st.msg_Gas, gas := st.gas + st.msg_Gas },
                       [Go.Effect.mk "st.gp.SubGas" [(st.msg_Gas : Int)]])) := by
  unfold keeper_StateTransition_buyGas
  cases hs : st.gp_SubGas st.msg_Gas with
  | some e => simp [hs]
  | none => simp [hs, Go.uadd_of_lt _ _ hg]

/-- **C06 / C09 at the state transition**: whenever `preCheck` lets a real (non-fake) message through, its nonce equals
the account nonce, the nonce can still be incremented, the sender has no code, and — with London active and the base fee
not disabled — the fee cap is at least the tip and at least the base fee. -/
theorem tie_pre_check_accepts (st st' : keeper_StateTransition) (eff : List Go.Effect)
    (h : keeper_StateTransition_preCheck st = some (none, st', eff)) (hf : st.msg_IsFake = false)
    (hn : st.state_GetNonce_st_msg_From < 2^64) :
    st.state_GetNonce_st_msg_From = st.msg_Nonce ∧ st.state_GetNonce_st_msg_From + 1 < 2^64 ∧
    ¬ (st.cond_6871368b = true ∧ st.cond_efefb3c4 = true) ∧
    (st.evm_ChainConfig_IsLondon st.evm_Context_BlockNumber = true → st.evm_Config_NoBaseFee = false →
       st.gasTipCap ≤ st.gasFeeCap ∧ st.evm_Context_BaseFee ≤ st.gasFeeCap) := by
  unfold keeper_StateTransition_preCheck keeper_StateTransition_preCheck.k1 keeper_StateTransition_preCheck.k2 keeper_StateTransition_preCheck.k3 at h
  simp only [hf, Bool.not_false, if_true] at h
  by_cases h1 : st.state_GetNonce_st_msg_From < st.msg_Nonce
  · simp [h1] at h
  · by_cases h2 : st.state_GetNonce_st_msg_From > st.msg_Nonce
    · simp [h1, h2] at h
    · have heq : st.state_GetNonce_st_msg_From = st.msg_Nonce := by omega
      by_cases h3 : Go.uadd 64 st.state_GetNonce_st_msg_From 1 < st.state_GetNonce_st_msg_From
      · simp [h1, h2, h3] at h
      · have hmax : st.state_GetNonce_st_msg_From + 1 < 2^64 := by
          unfold Go.uadd at h3; omega
        by_cases h4 : (st.cond_6871368b && st.cond_efefb3c4) = true
        · simp [h1, h2, h3, h4] at h
        · refine ⟨heq, hmax, by simpa using h4, ?_⟩
          intro hL hNB
          simp only [h1, h2, h3, h4, decide_false, Bool.false_eq_true, if_false, hL, if_true, hNB, Bool.not_false, Bool.true_or] at h
          by_cases h5 : Go.bigBitLen st.gasFeeCap > 256
          · simp [h5] at h
          · by_cases h6 : Go.bigBitLen st.gasTipCap > 256
            · simp [h5, h6] at h
            · by_cases h7 : Go.bigCmp st.gasFeeCap st.gasTipCap < 0
              · simp [h5, h6, h7] at h
              · by_cases h8 : Go.bigCmp st.gasFeeCap st.evm_Context_BaseFee < 0
                · simp [h5, h6, h7, h8] at h
                · unfold Go.bigCmp at h7 h8
                  constructor
                  · by_cases hh : st.gasFeeCap < st.gasTipCap
                    · simp [hh] at h7
                    · omega
                  · by_cases hh : st.gasFeeCap < st.evm_Context_BaseFee
                    · simp [hh] at h8
                    · omega

/-! ### intrinsic gas -/

def nzCount (d : List Nat) : Nat := (d.filter (fun b => b ≠ 0)).length

theorem nzCount_le (d : List Nat) : nzCount d ≤ d.length := List.length_filter_le _ _

/-- go-ethereum's formula over the naturals -/
def intrinsicSpec (data : List Nat) (alNil : Bool) (alLen alKeys : Nat) (create homestead eip2028 : Bool) : Nat :=
  (if create && homestead then 53000 else 21000)
  + nzCount data * (if eip2028 then 16 else 68)
  + (data.length - nzCount data) * 4
  + (if alNil then 0 else alLen * 2400 + alKeys * 1900)

/-- the counting loop: after the remaining bytes `it`, the counter has grown by their number of non-zero bytes -/
theorem range_count (data : List Nat) (al : types_AccessList) (cc hs e28 : Bool) (gas : Nat) :
    ∀ (it : List Nat) (ix : Int) (nz : Nat), nz + it.length < 2^64 →
      core_IntrinsicGas.range1 it ix data al cc hs e28 gas nz
        = core_IntrinsicGas.k2 data al cc hs e28 gas (nz + nzCount it) := by
  intro it
  induction it with
  | nil => intro ix nz _; unfold core_IntrinsicGas.range1; simp [nzCount]
  | cons b tl ih =>
    intro ix nz hlen
    unfold core_IntrinsicGas.range1
    simp only [List.length_cons] at hlen
    by_cases hb : b = 0
    · simp only [hb, decide_true, Bool.not_true, Bool.false_eq_true, if_false]
      rw [ih _ _ (by omega)]
      simp [nzCount]
    · simp only [hb, decide_false, Bool.not_false, if_true]
      rw [Go.uadd_of_lt _ _ (by omega), ih _ _ (by omega)]
      have : nzCount (b :: tl) = nzCount tl + 1 := by simp [nzCount, hb]
      rw [this]; congr 1; omega

/-- **`IntrinsicGas`** for every payload and access list of realistic size (below 2^32 entries — a transaction is
bounded by the block size): no overflow branch is taken, nothing wraps, and the result is go-ethereum's formula. -/
theorem tie_intrinsic_gas (data : List Nat) (al : types_AccessList) (cc hs e28 : Bool)
    (hd : data.length < 2^32) (hl : 0 ≤ al.len ∧ al.len < 2^32) (hk : 0 ≤ al.StorageKeys ∧ al.StorageKeys < 2^32) :
    core_IntrinsicGas data al cc hs e28
      = some (intrinsicSpec data al.isNil al.len.toNat al.StorageKeys.toNat cc hs e28, none) := by
  have hnz := nzCount_le data
  have hU1 : Go.toU 64 al.len = al.len.toNat := by unfold Go.toU; omega
  have hU2 : Go.toU 64 al.StorageKeys = al.StorageKeys.toNat := by unfold Go.toU; omega
  have hl' : al.len.toNat < 2^32 := by omega
  have hk' : al.StorageKeys.toNat < 2^32 := by omega
  unfold core_IntrinsicGas core_IntrinsicGas.k3 intrinsicSpec
  generalize hbase : (if (cc && hs) = true then (53000 : Nat) else 21000) = base
  have hb : base ≤ 53000 := by rw [← hbase]; split <;> omega
  by_cases h0 : data.length = 0
  · have hd0 : data = [] := List.length_eq_zero_iff.mp h0
    subst hd0
    simp only [List.length_nil, nzCount, List.filter_nil, hU1, hU2]
    simp (disch := omega) only [Go.umul_of_lt, Go.uadd_of_lt]
    cases al.isNil <;> simp <;> omega
  · have hpos : ((data.length : Nat) : Int) > 0 := by omega
    simp only [hpos, decide_true, if_true]
    rw [range_count data al cc hs e28 base data 0 0 (by omega)]
    unfold core_IntrinsicGas.k2 core_IntrinsicGas.k3
    simp only [Nat.zero_add, hU1, hU2]
    generalize hq : (if e28 = true then (16 : Nat) else 68) = q
    have hq' : q = 16 ∨ q = 68 := by rw [← hq]; split <;> simp
    have hq0 : q ≠ 0 := by omega
    generalize hnzq : nzCount data * q = nq
    have hnq : nq < 2^40 := by
      rcases hq' with h | h <;> subst h <;> omega
    have hlenU : Go.toU 64 ((data.length : Nat) : Int) = data.length := by unfold Go.toU; omega
    simp only [Go.udiv, hq0, if_false, hlenU]
    simp (disch := omega) only [Go.usub_of_le]
    have hnov1 : ¬ ((18446744073709551615 - base) / q < nzCount data) := by
      have : (18446744073709551615 - base) / q ≥ 2^50 := by
        rcases hq' with h | h <;> subst h <;> omega
      omega
    simp only [hnov1, decide_false, Bool.false_eq_true, if_false]
    rw [Go.umul_of_lt _ _ (by omega), hnzq, Go.uadd_of_lt _ _ (by omega)]
    simp (disch := omega) only [Go.usub_of_le]
    have hnov2 : ¬ ((18446744073709551615 - (base + nq)) / 4 < data.length - nzCount data) := by omega
    simp only [hnov2, decide_false, Bool.false_eq_true, if_false]
    simp (disch := omega) only [Go.umul_of_lt, Go.uadd_of_lt]
    cases al.isNil <;> simp <;> omega

/-- C05: the intrinsic gas is never below `params.TxGas` -/
theorem tie_intrinsic_ge_txgas (data : List Nat) (alNil : Bool) (alLen alKeys : Nat) (cc hs e28 : Bool) :
    21000 ≤ intrinsicSpec data alNil alLen alKeys cc hs e28 := by
  unfold intrinsicSpec; split <;> omega

/-! ### the destroy guard (C15, C01) -/

/-- **`CheckIfAccountIsSuitableForDestroyingAt`**, for every account value and every instant: destroyable exactly when
the account is not a module account and is not a vesting account (of either kind of type assertion) whose end time lies
after the given instant; it panics only on a nil account.  The instant is a *parameter* — the translated function reads
no clock (C01). -/
theorem tie_destroy_guard (acc : types_AccountI) (now : time_Time) (hnil : acc.cond_71534d2d = false) :
    ∃ reason, utils_CheckIfAccountIsSuitableForDestroyingAt acc now =
      some (!acc.is_sdk_ModuleAccountI
            && !(acc.is_vestingtypes_BaseVestingAccount && decide (acc.as_vestingtypes_BaseVestingAccount_GetEndTime > now.UTC_Unix))
            && !(acc.is_vesting_VestingAccount && decide (acc.as_vesting_VestingAccount_GetEndTime > now.UTC_Unix)), reason) := by
  unfold utils_CheckIfAccountIsSuitableForDestroyingAt utils_CheckIfAccountIsSuitableForDestroyingAt.k1 utils_CheckIfAccountIsSuitableForDestroyingAt.k2
  simp only [hnil, Bool.false_eq_true, if_false]
  cases acc.is_sdk_ModuleAccountI <;> cases acc.is_vestingtypes_BaseVestingAccount <;> cases acc.is_vesting_VestingAccount <;>
    by_cases h1 : acc.as_vestingtypes_BaseVestingAccount_GetEndTime > now.UTC_Unix <;>
    by_cases h2 : acc.as_vesting_VestingAccount_GetEndTime > now.UTC_Unix <;> simp [h1, h2]

/-- how an account of the World model looks to the Go type assertions -/
def accView (k : Kind) : types_AccountI :=
  match k with
  | .base => { (default : types_AccountI) with cond_71534d2d := false, is_sdk_ModuleAccountI := false, is_vesting_VestingAccount := false, is_vestingtypes_BaseVestingAccount := false }
  | .module => { (default : types_AccountI) with cond_71534d2d := false, is_sdk_ModuleAccountI := true, is_vesting_VestingAccount := false, is_vestingtypes_BaseVestingAccount := false }
  | .vesting endT _ => { (default : types_AccountI) with as_vesting_VestingAccount_GetEndTime := endT, as_vestingtypes_BaseVestingAccount_GetEndTime := endT, cond_71534d2d := false, is_sdk_ModuleAccountI := false, is_vesting_VestingAccount := true, is_vestingtypes_BaseVestingAccount := false }

/-- the model's `World.destroyable` is the translated guard evaluated at the block time -/
theorem tie_destroyable (w : World) (a : Addr) (ac : Acc) (h : w.acc.get a = some ac) :
    ∃ reason, utils_CheckIfAccountIsSuitableForDestroyingAt (accView ac.kind) { UTC_Unix := (w.now : Int) }
      = some (w.destroyable a, reason) := by
  obtain ⟨reason, hr⟩ := tie_destroy_guard (accView ac.kind) { UTC_Unix := (w.now : Int) } (by cases ac.kind <;> rfl)
  refine ⟨reason, ?_⟩
  rw [hr]
  unfold World.destroyable
  rw [h]
  rcases ac with ⟨k, s, n⟩
  cases k with
  | base => simp [accView]
  | module => simp [accView]
  | vesting e l => simp [accView]

/-! ### the block gas limit seen by the EVM -/

theorem tie_block_gas_limit (ctx : types_Context) (hm : ctx.ConsensusParams_Block_MaxGas < 2^63) :
    types_BlockGasLimit ctx = some (
      if !ctx.BlockGasMeter_isNil && ctx.BlockGasMeter_Limit ≠ 0 then ctx.BlockGasMeter_Limit
      else if ctx.ConsensusParams_Block_isNil then 0
      else if ctx.ConsensusParams_Block_MaxGas = -1 then 2^64 - 1
      else if ctx.ConsensusParams_Block_MaxGas > 0 then ctx.ConsensusParams_Block_MaxGas.toNat else 0) := by
  unfold types_BlockGasLimit
  by_cases h1 : (!ctx.BlockGasMeter_isNil && ctx.BlockGasMeter_Limit ≠ 0) = true
  · simp at h1; simp [h1]
  · have h1' : ((!ctx.BlockGasMeter_isNil) && (!(decide (ctx.BlockGasMeter_Limit = (0 : Nat))))) = false := by
      cases hh : ctx.BlockGasMeter_isNil <;> simp_all
    rw [if_neg h1]
    simp only [h1', Bool.false_eq_true, if_false]
    cases ctx.ConsensusParams_Block_isNil <;> simp
    by_cases h2 : ctx.ConsensusParams_Block_MaxGas = -1
    · simp [h2]
    · simp only [h2, if_false]
      by_cases h3 : ctx.ConsensusParams_Block_MaxGas > 0
      · simp only [h3, if_true]; unfold Go.toU; congr 1; omega
      · simp [h3]

end Evermint.Facts.TieTransition
