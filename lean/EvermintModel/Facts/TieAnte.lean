import EvermintModel.Facts.GenCode
import EvermintModel.Base.GoSemLemmas
import EvermintModel.Model.Ante
/-!
Tie theorems for C07: the lane predicates `HasSingleEthereumMessage` and `IsEthereumTx` of `/repo/app/antedl/utils/tx.go`,
**as translated from the Go source on this run** (a loop with type assertions over the message list, the extension-option
guards), equal `Ante.hasSingleEth` / `Ante.isEthereumTx` — the predicates every C07 theorem branches on.
-/
namespace Evermint.Facts.TieAnte
open Evermint Evermint.GenCode Evermint.Ante

/-- a model message as the Go type assertion sees it -/
instance : Inhabited EthFields := ⟨⟨true, true, false, true, 0, 0, false, false⟩⟩

def vestingKind : Msg → Option Nat
  | .vesting k _ => some k
  | _ => none

/-- the bech32 text of a model address id (any fixed rendering: the gate only passes it on) -/
def addrStr (a : Nat) : String := toString a

def toAddr : Msg → String
  | .vesting _ to => addrStr to
  | _ => ""

/-- a model message as the Go type assertions see it; `e` : what `03_validate_basic` reads from the embedded Ethereum
transaction (meaningful for `.eth` only) -/
def msgViewE (e : EthFields) (evmTx : types_Transaction) (m : Msg) : iface_ProtoMessage_Reset_String :=
  { (default : iface_ProtoMessage_Reset_String) with
    is_evmtypes_MsgEthereumTx := m.isEth
    is_vestingtypes_MsgCreateVestingAccount := vestingKind m == some 0
    is_vestingtypes_MsgCreatePeriodicVestingAccount := vestingKind m == some 1
    is_vestingtypes_MsgCreatePermanentLockedAccount := vestingKind m == some 2
    as_vestingtypes_MsgCreateVestingAccount_ToAddress := toAddr m
    as_vestingtypes_MsgCreatePeriodicVestingAccount_ToAddress := toAddr m
    as_vestingtypes_MsgCreatePermanentLockedAccount_ToAddress := toAddr m
    as_evmtypes_MsgEthereumTx_ValidateBasic := if e.msgBasicOK then none else some "ErrInvalidMsg"
    as_evmtypes_MsgEthereumTx_AsTransaction_AsMessage_vbd_new_LatestSignerForChainID_01415ad1 :=
      fun _ => ((), if e.asMessageOK then none else some "ErrInvalidSig")
    as_evmtypes_MsgEthereumTx_AsTransaction_To_isNil := e.create
    as_evmtypes_MsgEthereumTx_AsTransaction_Protected := e.prot
    as_evmtypes_MsgEthereumTx_AsTransaction_Gas := evmTx.Gas
    as_evmtypes_MsgEthereumTx_AsTransaction_GasFeeCap := evmTx.GasFeeCap
    as_evmtypes_MsgEthereumTx_AsTransaction_GasPrice := evmTx.GasPrice
    as_evmtypes_MsgEthereumTx_AsTransaction_GasTipCap := evmTx.GasTipCap
    as_evmtypes_MsgEthereumTx_AsTransaction_Type' := evmTx.Type' }

def msgView (m : Msg) : iface_ProtoMessage_Reset_String := msgViewE default default m

@[simp] theorem msgViewE_isEth (e : EthFields) (x : types_Transaction) (m : Msg) :
    (msgViewE e x m).is_evmtypes_MsgEthereumTx = m.isEth := rfl
@[simp] theorem msgView_isEth (m : Msg) : (msgView m).is_evmtypes_MsgEthereumTx = m.isEth := rfl

def extUrl : Nat → String
  | 0 => "/ethermint.evm.v1.ExtensionOptionsEthereumTx"
  | 1 => "/ethermint.types.v1.ExtensionOptionDynamicFeeTx"
  | _ + 2 => "/foreign.ExtensionOption"

def anyView (o : Nat) : types_Any := { (default : types_Any) with GetTypeUrl := extUrl o }

/-- a model transaction as `HasSingleEthereumMessage` / `IsEthereumTx` read it (`nonCritAny` : one placeholder per
non-critical option) -/
def txView (t : Tx) (hasExt : Bool) : types_Tx :=
  { (default : types_Tx) with GetMsgs := t.msgs.map msgView, is_authante_HasExtensionOptionsTx := hasExt, as_authante_HasExtensionOptionsTx_GetExtensionOptions := t.extOpts.map anyView, as_authante_HasExtensionOptionsTx_GetNonCriticalExtensionOptions := List.replicate t.nonCrit (default : types_Any) }

theorem range_spec (tx : types_Tx) : ∀ (ms : List Msg) (ix : Int) (found : Bool),
    utils_HasSingleEthereumMessage.range1 (ms.map msgView) ix tx found
      = some (match ms with
              | [] => found
              | [m] => !found && m.isEth
              | _ => false) := by
  intro ms
  induction ms with
  | nil => intro ix found; simp [utils_HasSingleEthereumMessage.range1, utils_HasSingleEthereumMessage.k2]
  | cons m tl ih =>
    intro ix found
    unfold utils_HasSingleEthereumMessage.range1
    simp only [List.map_cons, msgView_isEth]
    cases hm : m.isEth <;> cases found <;> simp [ih]
    all_goals (cases tl with
      | nil => simp [hm]
      | cons m2 tl2 => cases tl2 <;> simp)

/-- `HasSingleEthereumMessage` is the model's `hasSingleEth`: exactly one message, and it is a `MsgEthereumTx` -/
theorem tie_has_single_eth (t : Tx) (hasExt : Bool) :
    utils_HasSingleEthereumMessage (txView t hasExt) = some (hasSingleEth t) := by
  unfold utils_HasSingleEthereumMessage hasSingleEth txView
  rw [range_spec]
  match t.msgs with
  | [] => rfl
  | [m] => simp
  | _ :: _ :: _ => rfl

theorem extUrl_eth (o : Nat) : (extUrl o = "/ethermint.evm.v1.ExtensionOptionsEthereumTx") ↔ o = 0 := by
  match o with
  | 0 => simp [extUrl]
  | 1 => simp [extUrl]
  | n + 2 => simp [extUrl]

/-- **`IsEthereumTx` is the model's `isEthereumTx`**: a single Ethereum message, no non-critical extension option, and no
critical option other than exactly one `ExtensionOptionsEthereumTx` (C07: "no foreign extension option") -/
theorem tie_is_ethereum_tx (t : Tx) :
    utils_IsEthereumTx (txView t true) = some (isEthereumTx t) := by
  unfold utils_IsEthereumTx isEthereumTx
  rw [tie_has_single_eth]
  cases hs : hasSingleEth t
  · simp
  · simp only [Bool.not_true, Bool.false_eq_true, if_false, txView, List.length_replicate, List.length_map, Bool.true_and]
    by_cases hn : t.nonCrit = 0
    · simp only [hn]
      match he : t.extOpts with
      | [] => simp
      | [o] =>
        simp [Go.idx, anyView]
        have := extUrl_eth o
        by_cases ho : o = 0
        · simp [ho, extUrl]
        · simp [ho, this]
      | _ :: _ :: tl =>
        have h1 : ¬ ((tl.length : Int) + 1 + 1 = 0) := by omega
        have h2 : ¬ ((tl.length : Int) + 1 + 1 = 1) := by omega
        simp [h1, h2]
    · have : ¬ ((t.nonCrit : Int) = 0) := by omega
      simp [hn, this]

end Evermint.Facts.TieAnte
