import EvermintModel.Facts.TieAnte
import EvermintModel.Facts.TieReceipt
/-!
Tie theorems for C06 / C07 / C13: the decorators that close the Ethereum lane — `evmlane/03e_validate_basic_eoa` (the sender is a
non-empty address without code), `991e_setup_exec_ctx` (execution set-up: the per-block transaction counter advances here) and
`992e_emit_event` (the `ethereum_tx` event with the transaction's index) — **as translated from the Go source on this run**.
-/
namespace Evermint.Facts.TieAnteEvm
open Evermint Evermint.GenCode Evermint.Facts.TieReceipt

abbrev Next := Bool → (Unit × Option String)

theorem one_le_txCount (ctx : types_Context) : 1 ≤ txCountOf ctx := by unfold txCountOf; omega
theorem txCount_lt (ctx : types_Context) : txCountOf ctx < 2^64 := by
  unfold txCountOf
  have := beToU64_lt ctx.TransientStore_k_transientKey_Get_KeyTransientTxCount
  omega

/-- `03e_validate_basic_eoa`: on the Ethereum lane the rest of the chain runs only for a transaction whose declared sender is
non-empty and has no code; Cosmos-lane transactions pass through untouched -/
theorem tie_validate_eoa (d : evmlane_ELValidateBasicEoaDecorator) (ctx : types_Context) (tx : types_Tx) (sim : Bool) (next : Next)
    (b : Bool) (el : iface_ProtoMessage_Reset_String) (hb : utils_HasSingleEthereumMessage tx = some b) (h0 : Go.idx tx.GetMsgs 0 = some el) :
    evmlane_ELValidateBasicEoaDecorator_AnteHandle d ctx tx sim next =
      some (if !b then (next sim).2
            else if el.as_evmtypes_MsgEthereumTx_GetFrom = [] then some "ErrInvalidAddress"
            else if !d.ek_GetCodeHash_el_as_evmtypes_MsgEthereumTx_GetFrom_call_IsEmptyCodeHash then some "ErrInvalidType"
            else (next sim).2) := by
  unfold evmlane_ELValidateBasicEoaDecorator_AnteHandle
  simp only [hb, h0]
  cases b
  · rfl
  · simp only [Bool.not_true, Bool.false_eq_true, if_false]
    cases hf : el.as_evmtypes_MsgEthereumTx_GetFrom with
    | nil => simp
    | cons x xs =>
      cases d.ek_GetCodeHash_el_as_evmtypes_MsgEthereumTx_GetFrom_call_IsEmptyCodeHash <;> simp

/-- `991e_setup_exec_ctx`: never refuses; for an Ethereum-lane transaction it makes exactly one call — `SetupExecutionContext`
with the embedded transaction — *before* the rest of the chain runs; for any other transaction it makes none -/
theorem tie_setup_exec (d : evmlane_ELSetupExecutionDecorator) (ctx : types_Context) (tx : types_Tx) (sim : Bool) (next : Next)
    (b : Bool) (el : iface_ProtoMessage_Reset_String) (hb : utils_HasSingleEthereumMessage tx = some b) (h0 : Go.idx tx.GetMsgs 0 = some el) :
    evmlane_ELSetupExecutionDecorator_AnteHandle d ctx tx sim next =
      some ((next sim).2, if b then [Go.Effect.mk "sed.ek.SetupExecutionContext_el_as_evmtypes_MsgEthereumTx_AsTransaction" []] else []) := by
  unfold evmlane_ELSetupExecutionDecorator_AnteHandle
  simp only [hb, h0]
  cases b <;> rfl

/-- **`992e_emit_event`**: never refuses; for an Ethereum-lane transaction it emits one event whose index attribute is
`GetTxCountTransient − 1` — the position of the transaction among the Ethereum transactions that reached execution set-up
(`991e` runs before it: `fact_ante_chain`) -/
theorem tie_emit_event (d : evmlane_ELEmitEventDecorator) (ctx : types_Context) (tx : types_Tx) (sim : Bool) (next : Next)
    (b : Bool) (el : iface_ProtoMessage_Reset_String) (hb : utils_HasSingleEthereumMessage tx = some b) (h0 : Go.idx tx.GetMsgs 0 = some el) :
    evmlane_ELEmitEventDecorator_AnteHandle d ctx tx sim next =
      some ((next sim).2, if b then [Go.Effect.mk "ctx.EventManager().EmitEvent" [((txCountOf ctx - 1 : Nat) : Int)]] else []) := by
  unfold evmlane_ELEmitEventDecorator_AnteHandle
  simp only [hb, h0, tie_tx_count]
  cases b
  · rfl
  · have h1 : 1 ≤ txCountOf ctx := one_le_txCount ctx
    have h2 : txCountOf ctx < 2^64 := txCount_lt ctx
    simp only [Bool.not_true, Bool.false_eq_true, if_false, if_true]
    rw [Go.usub_of_le _ _ h1 h2]
    rfl

end Evermint.Facts.TieAnteEvm
