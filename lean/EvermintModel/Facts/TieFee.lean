import EvermintModel.Facts.GenCode
import EvermintModel.Base.GoSemLemmas
import EvermintModel.Model.Block
/-!
Tie theorems: the fee / price functions **as translated from the Go source on this run** (`Facts/GenCode.lean`)
equal the definitions of `Model/Block.lean` that the property theorems (C04, C05, C09) are about.

`txOf t` is the view of a model transaction that the Go accessors return (`tx.Type()`, `tx.GasFeeCap()`, …).
-/
namespace Evermint.Facts.TieFee
open Evermint Evermint.GenCode Evermint.Block

/-- the go-ethereum transaction accessors of a model transaction -/
def txOf (t : EthTx) : types_Transaction :=
  { (default : types_Transaction) with Gas := t.gasLimit, GasFeeCap := t.feeCap, GasPrice := t.gasPrice, GasTipCap := t.tip, Type' := t.ty }

/-- `EthTxEffectiveGasPrice` is the model's `effPrice` (dynamic-fee: min(tip + base, cap); otherwise the gas price) -/
theorem tie_effective_gas_price (t : EthTx) (base : Nat) :
    utils_EthTxEffectiveGasPrice (txOf t) (base : Int) = some ((effPrice t base : Nat) : Int) := by
  unfold utils_EthTxEffectiveGasPrice effPrice utils_add txOf
  by_cases h : t.ty = 2
  · simp [h]; omega
  · simp [h]

/-- `EthTxEffectiveFee` = effective price × gas limit: what the ante handler deducts (`C05_charge`, `C04_sender_collector`) -/
theorem tie_effective_fee (t : EthTx) (base : Nat) :
    utils_EthTxEffectiveFee (txOf t) (base : Int) = some ((effPrice t base * t.gasLimit : Nat) : Int) := by
  unfold utils_EthTxEffectiveFee
  rw [tie_effective_gas_price]
  simp [utils_mul, txOf]

/-- `EthTxGasPrice` / `EthTxFee`: the declared price (fee cap for a dynamic-fee transaction) and the declared fee -/
theorem tie_declared_price (t : EthTx) :
    utils_EthTxGasPrice (txOf t) = some ((declaredPrice t : Nat) : Int) := by
  unfold utils_EthTxGasPrice declaredPrice txOf
  by_cases h : t.ty = 2 <;> simp [h]

theorem tie_declared_fee (t : EthTx) :
    utils_EthTxFee (txOf t) = some ((declaredPrice t * t.gasLimit : Nat) : Int) := by
  unfold utils_EthTxFee
  rw [tie_declared_price]
  simp [utils_mul, txOf]

/-- the effective price never exceeds the declared one when the tip is within the cap … -/
theorem eff_le_declared (t : EthTx) (base : Nat) : effPrice t base ≤ max (declaredPrice t) (effPrice t base) := by omega

/-! ### the admission price (C09: nothing below max(base fee, ⌊global minimum⌋) is executed) -/

/-- the context and parameters, as `getMinGasPricesAllowed` reads them -/
def ctxOf (isCheck isRecheck : Bool) (nodeMin : String → Int) : types_Context :=
  { (default : types_Context) with IsCheckTx := isCheck, IsReCheckTx := isRecheck, MinGasPrices_AmountOf := nodeMin }

def fpOf (s : BState) : types_Params := { (default : types_Params) with BaseFee := s.baseFee, MinGasPrice := s.minRaw }

open Evermint.Go (decTruncate_nat)

/-- **deliver mode**: the admission price is exactly `max baseFee ⌊minGasPrice⌋` — and the node's own minimum gas price
is not read at all (C01: no node-local configuration in block execution) -/
theorem tie_min_gas_price_deliver (s : BState) (isRecheck : Bool) (nodeMin : String → Int) (denom : String) :
    (duallane_getMinGasPricesAllowed (ctxOf false isRecheck nodeMin) (fpOf s) denom).map (·.1)
      = some ((max s.baseFee (floorMin s) : Nat) : Int) := by
  unfold duallane_getMinGasPricesAllowed ctxOf fpOf floorMin
  simp only [decTruncate_nat]
  simp
  split <;> simp <;> omega

/-- **every mode** (also mempool admission with a node minimum): never below `max baseFee ⌊minGasPrice⌋` -/
theorem tie_min_gas_price_ge (s : BState) (ctx : types_Context) (denom : String) :
    ∃ p src, duallane_getMinGasPricesAllowed ctx (fpOf s) denom = some (p, src) ∧
      ((max s.baseFee (floorMin s) : Nat) : Int) ≤ p := by
  unfold duallane_getMinGasPricesAllowed fpOf floorMin
  simp only [decTruncate_nat]
  by_cases h1 : ctx.IsCheckTx <;> by_cases h2 : ctx.IsReCheckTx <;> simp [h1, h2] <;>
    (repeat' split) <;> simp_all <;> omega

/-- `getTxPriority` on the effective fee: refused with `ErrInsufficientFee` exactly when fee / gas is below the admission
price; **panics on an empty fee list** (a zero effective fee — `sdk.NewCoins` drops the zero coin — the model's
`antePanicCode` clause) and on gas 0 -/
theorem tie_priority_refuses (amount gas minAllowed : Nat) (src denom : String) (hg : 0 < gas) (ha : amount < 2^256) :
    ∃ pr, duallane_getTxPriority [⟨denom, amount⟩] gas minAllowed src
      = some (pr, if amount / gas < minAllowed then some "ErrInsufficientFee" else none) := by
  unfold duallane_getTxPriority
  rw [Go.idx_zero_cons]
  simp only []
  rw [Go.sdkQuo_nat amount gas hg ha]
  generalize amount / gas = q
  simp only [Int.ofNat_lt]
  by_cases h : q < minAllowed
  · exact ⟨0, by simp [h]⟩
  · simp only [h, if_false, decide_false, Bool.false_eq_true]
    cases hi : Go.bigIsInt64 (q : Int)
    · exact ⟨9223372036854775807, by simp⟩
    · refine ⟨q, ?_⟩
      rw [Go.sdkInt64_of _ hi]
      simp

theorem tie_priority_panics_on_empty (gas minAllowed : Int) (src : String) :
    duallane_getTxPriority [] gas minAllowed src = none := by
  simp [duallane_getTxPriority, Go.idx]

/-- `validateSingleFee`: exactly one coin, of the EVM denomination -/
theorem tie_single_fee (fees : List Go.Coin) (denom : String) :
    duallane_validateSingleFee fees denom = some none ↔ ∃ a, fees = [⟨denom, a⟩] := by
  unfold duallane_validateSingleFee
  match fees with
  | [] => simp
  | [c] =>
    simp [Go.idx]
    constructor
    · intro h; exact ⟨c.Amount, by cases c; simp_all⟩
    · rintro ⟨a, rfl⟩; rfl
  | _ :: _ :: tl =>
    have : ((tl.length : Int) + 1 + 1 = 1) = False := by simp; omega
    simp [this]

end Evermint.Facts.TieFee
