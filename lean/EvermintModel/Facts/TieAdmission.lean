import EvermintModel.Facts.GenCode
import EvermintModel.Base.GoSemLemmas
/-!
Tie theorems for C09 (admission): the two fee checkers of `/repo/app/antedl/duallane/07_deduct_fee.go` — closures, a loop
with a `break` over the extension options, a nullable `*sdkmath.Int`, `sdk.NewCoins` — **as translated from the Go
source on this run**.  The statements are about the generated definitions themselves, for *every* value of everything
the code reads (context mode, parameters, fee coins, gas, tip, options): an accepted transaction is charged at least
`max(base fee, ⌊global minimum gas price⌋)` per gas.
-/
namespace Evermint.Facts.TieAdmission
open Evermint Evermint.GenCode

/-- what C09 promises about a transaction that the fee checker lets through: the fee it will be charged, divided by its
gas, is at least the base fee and at least the integer part of the global minimum gas price -/
def Admitted (fk : duallane_FeeMarketKeeperForFeeChecker) (coins : List Go.Coin) (gas : Int) : Prop :=
  ∃ c q, coins.head? = some c ∧ Go.sdkQuo c.Amount gas = some q ∧
    max fk.GetParams_BaseFee (Go.decTruncate fk.GetParams_MinGasPrice) ≤ q

/-- `getMinGasPricesAllowed`, any context, any parameters: a value, never below either floor -/
theorem min_gas_price_ge (ctx : types_Context) (fp : types_Params) (denom : String) :
    ∃ p src, duallane_getMinGasPricesAllowed ctx fp denom = some (p, src) ∧
      max fp.BaseFee (Go.decTruncate fp.MinGasPrice) ≤ p := by
  unfold duallane_getMinGasPricesAllowed
  generalize Go.decTruncate fp.MinGasPrice = g
  generalize Go.decTruncate (ctx.MinGasPrices_AmountOf denom) = v
  cases ctx.IsCheckTx <;> cases ctx.IsReCheckTx <;> simp <;> (repeat' split) <;> simp_all <;> omega

/-- `getTxPriority` without an error: the first fee coin divided by the gas is at least the required price -/
theorem priority_ok (fees : List Go.Coin) (gas minA p : Int) (src : String)
    (h : duallane_getTxPriority fees gas minA src = some (p, none)) :
    ∃ c q, fees.head? = some c ∧ Go.sdkQuo c.Amount gas = some q ∧ minA ≤ q := by
  unfold duallane_getTxPriority at h
  cases fees with
  | nil => simp [Go.idx] at h
  | cons c tl =>
    rw [Go.idx_zero_cons] at h
    simp only [] at h
    cases hq : Go.sdkQuo c.Amount gas with
    | none => simp [hq] at h
    | some q =>
      simp only [hq] at h
      by_cases hlt : q < minA
      · simp [hlt] at h
      · exact ⟨c, q, rfl, hq, by omega⟩

theorem k4_ok (ek fk ctx tx ok denom baseFee fees err fee tip ok1 eff gas) (coins : List Go.Coin) (p : Int)
    (h : duallane_CosmosTxFeeChecker.k4 ek fk ctx tx ok denom baseFee fees err fee tip ok1 eff gas = some (coins, p, none)) :
    coins = eff ∧ Admitted fk eff (Go.toI 64 ((gas : Nat) : Int)) := by
  unfold duallane_CosmosTxFeeChecker.k4 at h
  obtain ⟨m, src, hm, hge⟩ := min_gas_price_ge ctx ({ BaseFee := fk.GetParams_BaseFee, BaseFee_IsNil := fk.GetParams_BaseFee_IsNil, MinGasPrice := fk.GetParams_MinGasPrice, MinGasPrice_call_validateMinGasPrice := fk.GetParams_MinGasPrice_call_validateMinGasPrice } : types_Params) denom
  rw [hm] at h
  simp only [] at h
  cases hp : duallane_getTxPriority eff (Go.toI 64 ((gas : Nat) : Int)) m src with
  | none => simp [hp] at h
  | some r =>
    obtain ⟨pr, er⟩ := r
    simp only [hp] at h
    cases er with
    | some e => simp at h
    | none =>
      simp at h
      obtain ⟨c, q, h1, h2, h3⟩ := priority_ok _ _ _ _ _ hp
      exact ⟨h.1.symm, c, q, h1, h2, by simp only [] at hge; omega⟩

theorem k3_ok (ek fk ctx tx ok denom baseFee fees err fee tip ok1) (coins : List Go.Coin) (p : Int)
    (h : duallane_CosmosTxFeeChecker.k3 ek fk ctx tx ok denom baseFee fees err fee tip ok1 = some (coins, p, none)) :
    Admitted fk coins (Go.toI 64 ((tx.as_sdk_FeeTx_GetGas : Nat) : Int)) := by
  unfold duallane_CosmosTxFeeChecker.k3 at h
  cases tip with
  | none =>
    simp only [Option.isNone_none, Bool.not_true, Bool.false_eq_true, if_false] at h
    obtain ⟨e, ha⟩ := k4_ok _ _ _ _ _ _ _ _ _ _ _ _ _ _ _ _ h
    rw [e]; exact ha
  | some t =>
    simp only [Option.isNone_some, Bool.not_false, if_true] at h
    by_cases hneg : t < 0
    · simp [hneg] at h
    · simp only [hneg, decide_false, Bool.false_eq_true, if_false] at h
      cases h1 : Go.sdkQuo fee.Amount ((tx.as_sdk_FeeTx_GetGas : Nat) : Int) with
      | none => simp [h1] at h
      | some cap =>
        simp only [h1] at h
        cases h2 : Go.sdkInt (min (t + baseFee) cap) with
        | none => simp [h2] at h
        | some e1 =>
          simp only [h2] at h
          cases h3 : Go.sdkMul e1 ((tx.as_sdk_FeeTx_GetGas : Nat) : Int) with
          | none => simp [h3] at h
          | some e2 =>
            simp only [h3] at h
            cases h4 : Go.newCoin denom e2 with
            | none => simp [h4] at h
            | some c =>
              simp only [h4] at h
              obtain ⟨e, ha⟩ := k4_ok _ _ _ _ _ _ _ _ _ _ _ _ _ _ _ _ h
              rw [e]; exact ha

theorem range1_ok (ek fk ctx tx ok denom baseFee fees err fee ok1) (coins : List Go.Coin) (p : Int) :
    ∀ (it : List types_Any) (ix : Int) (tip : Option Int),
      duallane_CosmosTxFeeChecker.range1 it ix ek fk ctx tx ok denom baseFee fees err fee tip ok1 = some (coins, p, none) →
      Admitted fk coins (Go.toI 64 ((tx.as_sdk_FeeTx_GetGas : Nat) : Int)) := by
  intro it
  induction it with
  | nil =>
    intro ix tip h
    unfold duallane_CosmosTxFeeChecker.range1 duallane_CosmosTxFeeChecker.k2 at h
    exact k3_ok _ _ _ _ _ _ _ _ _ _ _ _ _ _ h
  | cons o tl ih =>
    intro ix tip h
    unfold duallane_CosmosTxFeeChecker.range1 at h
    simp only [] at h
    by_cases hd : o.GetCachedValue_is_evertypes_ExtensionOptionDynamicFeeTx = true
    · simp only [hd, if_true] at h
      unfold duallane_CosmosTxFeeChecker.k2 at h
      exact k3_ok _ _ _ _ _ _ _ _ _ _ _ _ _ _ h
    · simp only [hd, Bool.false_eq_true, if_false] at h
      exact ih _ _ h

/-- **C09, Cosmos lane** (every transaction without an Ethereum message, after genesis, every context — check, re-check,
deliver — and every extension option list, with or without `ExtensionOptionDynamicFeeTx`): whatever fee the checker
returns for deduction has a price per gas of at least `max(base fee, ⌊global minimum gas price⌋)` -/
theorem tie_cosmos_fee_checker_admits (ek : duallane_EvmKeeperForFeeChecker) (fk : duallane_FeeMarketKeeperForFeeChecker)
    (ctx : types_Context) (tx : types_Tx) (coins : List Go.Coin) (p : Int) (hh : ctx.BlockHeight ≠ 0)
    (h : duallane_CosmosTxFeeChecker ek fk ctx tx = some (coins, p, none)) :
    Admitted fk coins (Go.toI 64 ((tx.as_sdk_FeeTx_GetGas : Nat) : Int)) := by
  unfold duallane_CosmosTxFeeChecker at h
  cases hs : utils_HasSingleEthereumMessage tx with
  | none => simp [hs] at h
  | some b =>
    simp only [hs] at h
    cases b with
    | true => simp at h
    | false =>
      simp only [Bool.false_eq_true, if_false, hh, decide_false] at h
      by_cases hok : tx.is_sdk_FeeTx = true
      · simp only [hok, Bool.not_true, Bool.false_eq_true, if_false] at h
        cases hv : duallane_validateSingleFee tx.as_sdk_FeeTx_GetFee ek.GetParams_EvmDenom with
        | none => simp [hv] at h
        | some e =>
          simp only [hv] at h
          cases e with
          | some e => simp at h
          | none =>
            simp only [Option.isNone_none, Bool.not_true, Bool.false_eq_true, if_false] at h
            cases hi : Go.idx tx.as_sdk_FeeTx_GetFee 0 with
            | none => simp [hi] at h
            | some fee =>
              simp only [hi] at h
              by_cases he : tx.as_sdk_FeeTx_is_sdkauthante_HasExtensionOptionsTx = true
              · simp only [he, if_true] at h
                exact range1_ok _ _ _ _ _ _ _ _ _ _ _ _ _ _ _ _ h
              · simp only [he, Bool.false_eq_true, if_false] at h
                exact k3_ok _ _ _ _ _ _ _ _ _ _ _ _ _ _ h
      · simp [hok] at h

/-- **C09, Ethereum lane**: whatever the checker returns for deduction is priced at least
`max(base fee, ⌊global minimum gas price⌋)` per gas — in every context and for every transaction content; a zero effective
fee makes it panic (the fee list is empty), never pass -/
theorem tie_eth_fee_checker_admits (ek : duallane_EvmKeeperForFeeChecker) (fk : duallane_FeeMarketKeeperForFeeChecker)
    (ctx : types_Context) (tx : types_Tx) (coins : List Go.Coin) (p : Int)
    (h : duallane_EthereumTxFeeChecker ek fk ctx tx = some (coins, p, none)) :
    ∃ el, Go.idx tx.GetMsgs 0 = some el ∧
      Admitted fk coins (Go.toI 64 ((el.as_evmtypes_MsgEthereumTx_AsTransaction_Gas : Nat) : Int)) := by
  unfold duallane_EthereumTxFeeChecker at h
  cases hs : utils_HasSingleEthereumMessage tx with
  | none => simp [hs] at h
  | some b =>
    simp only [hs] at h
    by_cases hc : ((!b) || decide (ctx.BlockHeight = (0 : Int))) = true
    · simp [hc] at h
    · simp only [hc, Bool.false_eq_true, if_false] at h
      by_cases hok : tx.is_sdk_FeeTx = true
      · simp only [hok, Bool.not_true, Bool.false_eq_true, if_false] at h
        cases hv : duallane_validateSingleFee tx.as_sdk_FeeTx_GetFee ek.GetParams_EvmDenom with
        | none => simp [hv] at h
        | some e =>
          simp only [hv] at h
          cases e with
          | some e => simp at h
          | none =>
            simp only [Option.isNone_none, Bool.not_true, Bool.false_eq_true, if_false] at h
            cases hi : Go.idx tx.GetMsgs 0 with
            | none => simp [hi] at h
            | some el =>
              refine ⟨el, rfl, ?_⟩
              simp only [hi] at h
              generalize utils_EthTxEffectiveFee _ fk.GetParams_BaseFee = ef at h
              cases ef with
              | none => simp at h
              | some f1 =>
                simp only [] at h
                cases h2 : Go.sdkInt f1 with
                | none => simp [h2] at h
                | some f2 =>
                  simp only [h2] at h
                  cases h3 : Go.newCoin ek.GetParams_EvmDenom f2 with
                  | none => simp [h3] at h
                  | some c =>
                    simp only [h3] at h
                    obtain ⟨m, src, hm, hge⟩ := min_gas_price_ge ctx ({ BaseFee := fk.GetParams_BaseFee, BaseFee_IsNil := fk.GetParams_BaseFee_IsNil, MinGasPrice := fk.GetParams_MinGasPrice, MinGasPrice_call_validateMinGasPrice := fk.GetParams_MinGasPrice_call_validateMinGasPrice } : types_Params) ek.GetParams_EvmDenom
                    rw [hm] at h
                    simp only [] at h
                    cases hp : duallane_getTxPriority (Go.newCoins1 c) (Go.toI 64 ((el.as_evmtypes_MsgEthereumTx_AsTransaction_Gas : Nat) : Int)) m src with
                    | none => simp [hp] at h
                    | some r =>
                      obtain ⟨pr, er⟩ := r
                      simp only [hp] at h
                      cases er with
                      | some e => simp at h
                      | none =>
                        simp at h
                        obtain ⟨c', q, h1', h2', h3'⟩ := priority_ok _ _ _ _ _ hp
                        rw [← h.1]
                        exact ⟨c', q, h1', h2', by simp only [] at hge; omega⟩
      · simp [hok] at h

end Evermint.Facts.TieAdmission
