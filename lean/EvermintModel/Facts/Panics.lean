import EvermintModel.Facts.Gen
/-!
# Explicit panic sites on the paths that run outside the per-transaction recovery  (regenerated every run, C20)

`BaseApp.runTx` recovers a panic raised while a transaction executes; nothing recovers one raised in
`BeginBlock` / `EndBlock` (the chain halts) — and the precompile dispatcher runs inside the EVM under `runTx` but
also under queries.  factgen lists every `panic(…)` of the files those paths live in.  The list below is the
audited one; each site is either unreachable from user input or covered by a theorem:

* `GetTxReceiptsTransient` (x2: a counted transaction without a receipt / an undecodable one) — the transient table
  has exactly one slot per counted transaction in every reachable block state: `C13_endBlock_total`;
* `SetBaseFee` / `SetEip155ChainId` / `GetEip155ChainId` / `WithChainID` / `SetupExecutionContext` — parameter
  store corruption or a missing chain id, not reachable by a transaction (the base fee itself is total and fits
  256 bits: `C09_total`);
* `GetBlockHashByBlockNumber` — negative height, callers pass heights of the current context;
* `NewKeeper` (both modules), `NewCustomPrecompiledContract`, `SetCustomPrecompiledContractMeta`,
  `GetNextDynamicCustomPrecompiledContractAddress` — construction / governance-time invariants;
* `customPrecompiledContractMethodExecutorImpl.Execute` (x2) — a call that reaches an executor with a read-only flag
  the fork should have refused, or with a foreign StateDB: under `runTx` recovery; E-crash drives every selector.

A seeded or accidental new panic on these paths changes the list and breaks `fact_block_panic_sites`.
-/
namespace Evermint.Facts.Panics
open Evermint.Facts

theorem fact_block_panic_sites :
    Gen.censusBlockPanics = [
      ("x/cpc/keeper/precompiles.go", "Keeper.GetNextDynamicCustomPrecompiledContractAddress", "panic x1"),
      ("x/cpc/keeper/precompiles.go", "Keeper.SetCustomPrecompiledContractMeta", "panic x2"),
      ("x/cpc/keeper/precompiles.go", "NewCustomPrecompiledContract", "panic x1"),
      ("x/cpc/keeper/precompiles.go", "customPrecompiledContractMethodExecutorImpl.Execute", "panic x2"),
      ("x/evm/keeper/keeper.go", "Keeper.GetBlockHashByBlockNumber", "panic x1"),
      ("x/evm/keeper/keeper.go", "Keeper.GetTxReceiptsTransient", "panic x2"),
      ("x/evm/keeper/keeper.go", "Keeper.SetupExecutionContext", "panic x1"),
      ("x/evm/keeper/keeper.go", "Keeper.WithChainID", "panic x1"),
      ("x/evm/keeper/keeper.go", "NewKeeper", "panic x2"),
      ("x/evm/keeper/params.go", "Keeper.ForTest_RemoveEip155ChainId", "panic x1"),
      ("x/evm/keeper/params.go", "Keeper.GetEip155ChainId", "panic x2"),
      ("x/evm/keeper/params.go", "Keeper.SetEip155ChainId", "panic x1"),
      ("x/feemarket/keeper/keeper.go", "NewKeeper", "panic x1"),
      ("x/feemarket/keeper/params.go", "Keeper.SetBaseFee", "panic x1")] := by decide +kernel

end Evermint.Facts.Panics
