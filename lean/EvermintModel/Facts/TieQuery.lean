import EvermintModel.Facts.GenCode
import EvermintModel.Base.GoSemLemmas
import EvermintModel.Model.Query
/-!
Tie theorem for C08: `evmtypes.BinSearch`, **as translated from the Go source on this run** (a fuel-indexed loop over
uint64 arithmetic), computes `Query.binSearch` — the function `C08_estimate` ("a returned estimate is executable") is
about — for every callback and every pair of bounds below 2^63 (no overflow of `lo + 1` and `hi + lo`; gas limits are
far below), with the fuel `hi + 1` the translator passes.
-/
namespace Evermint.Facts.TieQuery
open Evermint Evermint.GenCode Evermint.Query

/-- the model's view of the Go callback: a consensus error ends the search, otherwise `failed?` -/
def execOf (e : Nat → Bool × Unit × Option String) : Exec :=
  fun g => if (e g).2.2.isSome then none else some (e g).1

theorem loop_eq (e : Nat → Bool × Unit × Option String) :
    ∀ fuel lo hi, hi - lo < fuel → lo < 2^63 → hi < 2^63 →
      (∀ h, binSearch (execOf e) lo hi = some h → types_BinSearch.loop1 fuel lo hi e = some (h, none)) ∧
      (binSearch (execOf e) lo hi = none → ∃ er, types_BinSearch.loop1 fuel lo hi e = some (0, some er)) := by
  intro fuel
  induction fuel with
  | zero => intro lo hi h; omega
  | succ f ih =>
    intro lo hi hd hlo hhi
    unfold types_BinSearch.loop1
    rw [binSearch]
    have e1 : Go.uadd 64 lo 1 = lo + 1 := Go.uadd_of_lt _ _ (by omega)
    have e2 : Go.uadd 64 hi lo = hi + lo := Go.uadd_of_lt _ _ (by omega)
    simp only [e1, e2]
    by_cases hc : lo + 1 < hi
    · simp only [hc, dite_true, decide_true, if_true]
      have hm1 : lo < (hi + lo) / 2 := by omega
      have hm2 : (hi + lo) / 2 < hi := by omega
      rcases hx : e ((hi + lo) / 2) with ⟨failed, u, err⟩
      cases err with
      | some er =>
        simp [execOf, hx]
      | none =>
        cases failed with
        | true =>
          have := ih ((hi + lo) / 2) hi (by omega) (by omega) hhi
          simpa [execOf, hx] using this
        | false =>
          have := ih lo ((hi + lo) / 2) (by omega) hlo (by omega)
          simpa [execOf, hx] using this
    · simp [hc, types_BinSearch.k2]

/-- `BinSearch` returns the model's answer (and `(0, err)` exactly when the model gives up on a consensus error) -/
theorem tie_bin_search (e : Nat → Bool × Unit × Option String) (lo hi : Nat) (hlo : lo < 2^63) (hhi : hi < 2^63) :
    (∀ h, binSearch (execOf e) lo hi = some h → types_BinSearch lo hi e = some (h, none)) ∧
    (binSearch (execOf e) lo hi = none → ∃ er, types_BinSearch lo hi e = some (0, some er)) := by
  unfold types_BinSearch
  exact loop_eq e (hi + 1) lo hi (by omega) hlo hhi

/-- the translated loop never runs out of fuel and never panics below 2^63 -/
theorem tie_bin_search_total (e : Nat → Bool × Unit × Option String) (lo hi : Nat) (hlo : lo < 2^63) (hhi : hi < 2^63) :
    (types_BinSearch lo hi e).isSome = true := by
  have := tie_bin_search e lo hi hlo hhi
  cases hb : binSearch (execOf e) lo hi with
  | none => obtain ⟨er, h⟩ := this.2 hb; simp [h]
  | some h => simp [this.1 h hb]

end Evermint.Facts.TieQuery
