import EvermintModel.Facts.GenCode
import EvermintModel.Base.GoSemLemmas
/-!
Tie theorems for C12: the dispatcher of custom precompiled contracts in the pinned go-ethereum fork
(`core/vm/contracts_evermint.go`: `CustomPrecompiledContract.RunCustom`, `CustomPrecompiledContractMethod.Validate`), **as
translated from the source in the module cache on this run**.

* `tie_run_custom`: the method is the *first* one whose four-byte signature equals the first four bytes of the input; no such
  method is `ErrExecutionReverted`;
* **`tie_static_write_refused`**: with `readOnly = true` a method that is not declared read-only is refused with
  `ErrWriteProtection` and its executor is **not called** (`C12_direct_static_refused`, on the code) — and, conversely,
  **`tie_readonly_flag_is_the_argument`**: whether a state-changing method runs depends on nothing but the `readOnly` *argument*:
  the interpreter's inherited read-only state never enters (finding F6: the call sites pass the literal `false` for CALL,
  CALLCODE and DELEGATECALL — `fact_fork_readonly_literals`);
* **`tie_method_validate`**: a method that passes `Validate` (run for every method when the EVM is built) has a four-byte
  signature, an executor and — unless declared read-only — a **non-zero gas requirement**.
-/
namespace Evermint.Facts.TieFork
open Evermint Evermint.GenCode

abbrev M := vm_CustomPrecompiledContractMethod

def dispatch (ms : List M) (sig : List Nat) : Option M := ms.find? (fun m => decide (m.Method4BytesSignatures = sig))

theorem range_spec (s : vm_CustomPrecompiledContract) (caller : vm_ContractRef) (input : List Nat) (ro : Bool) (evm : vm_EVM) (sig : List Nat) :
    ∀ (ms : List M) (ix : Int),
    vm_CustomPrecompiledContract_RunCustom.range1 ms ix s caller input ro evm sig =
      some (match dispatch ms sig with
            | none => ([], some "ErrExecutionReverted")
            | some m => if ro && !m.ReadOnly then ([], some "ErrWriteProtection") else m.Executor_Execute_caller_s_address_evm input) := by
  intro ms
  induction ms with
  | nil => intro ix; simp [vm_CustomPrecompiledContract_RunCustom.range1, vm_CustomPrecompiledContract_RunCustom.k2, dispatch]
  | cons m tl ih =>
    intro ix
    unfold vm_CustomPrecompiledContract_RunCustom.range1 dispatch
    by_cases h : m.Method4BytesSignatures = sig
    · simp only [h, decide_true, if_true, List.find?_cons_of_pos]
      cases ro <;> cases m.ReadOnly <;> simp
    · simp only [h, decide_false, Bool.false_eq_true, if_false]
      rw [ih]
      simp [dispatch, List.find?_cons, h]

theorem tie_run_custom (s : vm_CustomPrecompiledContract) (caller : vm_ContractRef) (input : List Nat) (ro : Bool) (evm : vm_EVM)
    (hlen : 4 ≤ input.length) :
    vm_CustomPrecompiledContract_RunCustom s caller input ro evm =
      some (match dispatch s.methods (input.take 4) with
            | none => ([], some "ErrExecutionReverted")
            | some m => if ro && !m.ReadOnly then ([], some "ErrWriteProtection") else m.Executor_Execute_caller_s_address_evm input) := by
  unfold vm_CustomPrecompiledContract_RunCustom Go.sliceBytes
  have : (0 : Int) ≤ 0 ∧ (0 : Int) ≤ 4 ∧ (4 : Int) ≤ (input.length : Int) := by omega
  simp only [this, and_self, if_true]
  have h4 : ((4 : Int) - 0).toNat = 4 := by decide
  simp only [Int.toNat_zero, List.drop_zero, h4]
  exact range_spec _ _ _ _ _ _ _ _

/-- an input shorter than a selector makes `input[:4]` panic: the caller must not let it through (the fork's
`RunPrecompiledContract` path refuses such input before; E-crash sends truncated calldata on every run) -/
theorem tie_run_custom_short_input_panics (s : vm_CustomPrecompiledContract) (caller : vm_ContractRef) (input : List Nat) (ro : Bool)
    (evm : vm_EVM) (hlen : input.length < 4) : vm_CustomPrecompiledContract_RunCustom s caller input ro evm = none := by
  unfold vm_CustomPrecompiledContract_RunCustom Go.sliceBytes
  have : ¬ ((4 : Int) ≤ (input.length : Int)) := by omega
  simp [this]

/-- **a state-changing method reached with `readOnly = true` is refused, and its executor is not called**: the result does not
depend on what the executor would have answered -/
theorem tie_static_write_refused (s : vm_CustomPrecompiledContract) (caller : vm_ContractRef) (input : List Nat) (evm : vm_EVM) (m : M)
    (hlen : 4 ≤ input.length) (hm : dispatch s.methods (input.take 4) = some m) (hw : m.ReadOnly = false) :
    vm_CustomPrecompiledContract_RunCustom s caller input true evm = some ([], some "ErrWriteProtection") := by
  rw [tie_run_custom _ _ _ _ _ hlen, hm]; simp [hw]

/-- **the refusal is decided by the `readOnly` argument alone**: with `false` every method runs, declared read-only or not
(finding F6 lives at the call sites, which pass the literal `false` outside `StaticCall`) -/
theorem tie_readonly_flag_is_the_argument (s : vm_CustomPrecompiledContract) (caller : vm_ContractRef) (input : List Nat) (evm : vm_EVM) (m : M)
    (hlen : 4 ≤ input.length) (hm : dispatch s.methods (input.take 4) = some m) :
    vm_CustomPrecompiledContract_RunCustom s caller input false evm = some (m.Executor_Execute_caller_s_address_evm input) := by
  rw [tie_run_custom _ _ _ _ _ hlen, hm]; simp

/-- **`Validate`**: four-byte signature, an executor, and a non-zero gas requirement for every method that is not read-only -/
theorem tie_method_validate (m : M) (h : vm_CustomPrecompiledContractMethod_Validate m = some none) :
    m.Method4BytesSignatures.length = 4 ∧ m.Executor_isNil = false ∧ (m.ReadOnly = false → m.RequireGas ≠ 0) := by
  unfold vm_CustomPrecompiledContractMethod_Validate vm_CustomPrecompiledContractMethod_Validate.k1 at h
  by_cases hl : m.Method4BytesSignatures.length = 4
  · have hl' : ((m.Method4BytesSignatures.length : Nat) : Int) = 4 := by omega
    simp only [hl', decide_true, Bool.not_true, Bool.false_eq_true, if_false] at h
    cases hr : m.ReadOnly <;> cases he : m.Executor_isNil <;> simp [hr, he] at h ⊢
    all_goals (first | exact hl | (by_cases hg : m.RequireGas = 0 <;> simp [hg] at h ⊢ <;> first | exact hl | exact ⟨hl, hg⟩ | trivial))
  · have hl' : ¬ ((m.Method4BytesSignatures.length : Nat) : Int) = 4 := by omega
    simp [hl'] at h

end Evermint.Facts.TieFork
