import EvermintModel.Facts.GenCode
import EvermintModel.Base.GoSemLemmas
import EvermintModel.Model.FeeMarket
/-!
Tie theorems for C09 / C20: go-ethereum's `CalcBaseFee` and evermint's `Keeper.CalculateBaseFee`, **as translated from
the Go source on this run**, equal `FeeMarket.gethCalc` / `FeeMarket.calcBaseFee`, the definitions every C09 theorem
(exact EIP-1559 step, floor clamp, totality) is about.
-/
namespace Evermint.Facts.TieFeeMarket
open Evermint Evermint.GenCode Evermint.FeeMarket

def resOpt : Res → Option Int
  | .ok v => some (v : Int)
  | _ => none

/-- go-ethereum's `CalcBaseFee` (London active, header fields in the uint64 range) is `gethCalc` with elasticity 2 and
denominator 8 — including the panic (division by zero) for a gas target of 0 -/
theorem tie_geth_calc_base_fee (cfg : params_ChainConfig) (b gasLimit gasUsed : Nat) (num : Int)
    (hL : cfg.IsLondon num = true) (hl : gasLimit < 2^64) (hu : gasUsed < 2^64) :
    misc_CalcBaseFee cfg { (default : types_Header) with BaseFee := b, GasLimit := gasLimit, GasUsed := gasUsed, Number := num }
      = (gethCalc londonConsts b gasLimit gasUsed).map (fun (n : Nat) => (n : Int)) := by
  unfold misc_CalcBaseFee gethCalc londonConsts
  simp only [hL, Bool.not_true, Bool.false_eq_true, if_false]
  by_cases h1 : gasUsed = gasLimit / 2
  · simp [h1]
  · simp only [h1, decide_false, Bool.false_eq_true, if_false]
    by_cases h0 : gasLimit / 2 = 0
    · -- target 0: the Go code divides by zero
      have hgt : gasUsed > gasLimit / 2 := by omega
      simp [h0, hgt, Go.bigDiv]
    · have hpos : 0 < gasLimit / 2 := by omega
      by_cases h2 : gasUsed > gasLimit / 2
      · simp only [h2, decide_true, if_true, h0, if_false]
        rw [Go.usub_of_le _ _ (by omega) hu]
        have e1 : ((gasUsed - gasLimit / 2 : Nat) : Int) * (b : Int) = (((gasUsed - gasLimit / 2) * b : Nat) : Int) := by norm_cast
        rw [e1, Go.bigDiv_nat _ _ hpos]
        simp only []
        have e2 : (((8 : Nat) : Nat) : Int) = ((8 : Nat) : Int) := rfl
        rw [Go.bigDiv_nat _ 8 (by omega)]
        simp only [Option.map]
        congr 1
        have : max ((((gasUsed - gasLimit / 2) * b / (gasLimit / 2) / 8 : Nat)) : Int) 1
             = ((max ((gasUsed - gasLimit / 2) * b / (gasLimit / 2) / 8) 1 : Nat) : Int) := by omega
        rw [this]; norm_cast
      · have hlt : gasUsed < gasLimit / 2 := by omega
        simp only [h2, decide_false, Bool.false_eq_true, if_false, h0]
        rw [Go.usub_of_le _ _ (by omega) (by omega)]
        have e1 : ((gasLimit / 2 - gasUsed : Nat) : Int) * (b : Int) = (((gasLimit / 2 - gasUsed) * b : Nat) : Int) := by norm_cast
        rw [e1, Go.bigDiv_nat _ _ hpos]
        simp only []
        rw [Go.bigDiv_nat _ 8 (by omega)]
        simp only [Option.map]
        congr 1
        omega

/-- saturation at 256 bits, the floor, and the final `NewIntFromBigInt` -/
theorem post_eq (n fl : Nat) :
    Go.sdkInt (max (if decide (Go.bigBitLen (n : Int) > (256 : Int)) = true then (Go.bigLsh (1 : Int) (256 : Nat)) - (1 : Int) else (n : Int)) (fl : Int))
      = resOpt (if max (min n maxInt256) fl ≤ maxInt256 then .ok (max (min n maxInt256) fl) else .panicOverflow) := by
  have hsat : (Go.bigLsh (1 : Int) (256 : Nat)) - (1 : Int) = ((maxInt256 : Nat) : Int) := by
    unfold Go.bigLsh maxInt256; omega
  have key : (if decide (Go.bigBitLen (n : Int) > (256 : Int)) = true then (Go.bigLsh (1 : Int) (256 : Nat)) - (1 : Int) else (n : Int))
      = ((min n maxInt256 : Nat) : Int) := by
    by_cases hbl : n < 2^256
    · have h1 : ¬ (Go.bigBitLen (n : Int) > (256 : Int)) := by
        have := (Go.bigBitLen_le_iff (n : Int) 256).mpr (by simpa using hbl)
        omega
      have hmin : min n maxInt256 = n := by unfold maxInt256; omega
      simp only [h1, decide_false, Bool.false_eq_true, if_false, hmin]
    · have h1 : Go.bigBitLen (n : Int) > (256 : Int) := by
        have h2 : ¬ (Go.bigBitLen (n : Int) ≤ ((256 : Nat) : Int)) := fun hh => hbl (by simpa using (Go.bigBitLen_le_iff (n : Int) 256).mp hh)
        omega
      have hmin : min n maxInt256 = maxInt256 := by unfold maxInt256; omega
      simp only [h1, decide_true, if_true, hmin, hsat]
  rw [key]
  generalize min n maxInt256 = n'
  have hmax : max (n' : Int) (fl : Int) = ((max n' fl : Nat) : Int) := by omega
  rw [hmax]
  by_cases hr : max n' fl ≤ maxInt256
  · rw [Go.sdkInt_nat _ (by unfold maxInt256 at hr; omega)]
    simp [hr, resOpt]
  · rw [Go.sdkInt_none _ (by unfold maxInt256 at hr; simp; omega)]
    simp [hr, resOpt]

def ctxOf (maxGas : Option Int) (consumed : Nat) (height : Int) : types_Context :=
  { (default : types_Context) with BlockGasMeter_GasConsumedToLimit := gasUsedOf maxGas consumed, BlockHeight := height, ConsensusParams_Block_MaxGas := maxGas.getD 0, ConsensusParams_Block_isNil := maxGas.isNone }

def keeperOf (b minRaw : Nat) (isLondon : Int → Bool) : feemarket_keeper_Keeper :=
  { (default : feemarket_keeper_Keeper) with GetParams_BaseFee := b, GetParams_MinGasPrice := minRaw, evmKeeper_GetChainConfig_IsLondon := isLondon }

theorem gasLimitOf_lt (maxGas : Option Int) : gasLimitOf maxGas < 2^64 := by
  unfold gasLimitOf maxUint64
  cases maxGas with
  | none => simp
  | some m => simp; split <;> omega

/-- **`Keeper.CalculateBaseFee` is `FeeMarket.calcBaseFee`** for every base fee, every consensus `MaxGas` in the int64 range
(also none / 0 / negative / 1), every meter reading and every minimum gas price: the same value, and a Go panic exactly
where the model says `panic…`.  `C09_total` (no panic for valid parameters), `C09_floor`, `C09_increase_exact`, … are
theorems about the right-hand side. -/
theorem tie_calculate_base_fee (b minRaw consumed : Nat) (maxGas : Option Int) (height : Int) (isLondon : Int → Bool)
    (hL : isLondon height = true) (hm : ∀ m, maxGas = some m → m < 2^63)
    (hc : gasUsedOf maxGas consumed < 2^64) :
    keeper_Keeper_CalculateBaseFee (keeperOf b minRaw isLondon) (ctxOf maxGas consumed height)
      = resOpt (calcBaseFee londonConsts b maxGas consumed minRaw) := by
  unfold keeper_Keeper_CalculateBaseFee calcBaseFee keeperOf ctxOf
  have hgl : Go.bigUint64 (if ((!(maxGas.isNone)) && decide (maxGas.getD 0 > (0 : Int))) = true
        then maxGas.getD 0 else (((18446744073709551615 : Nat) : Nat) : Int)) = gasLimitOf maxGas := by
    unfold gasLimitOf maxUint64
    cases maxGas with
    | none => simp [Go.bigUint64]
    | some m =>
      have := hm m rfl
      by_cases hp : m > 0
      · simp [hp, Go.bigUint64]; omega
      · simp [hp, Go.bigUint64]
  simp only [Go.decTruncate_nat, hgl]
  have hlt := gasLimitOf_lt maxGas
  have e2 : londonConsts.elasticity = 2 := rfl
  simp only [e2]
  by_cases h0 : gasLimitOf maxGas / 2 = 0
  · simp only [h0, decide_true, if_true]
    rw [post_eq]
    generalize resOpt _ = r; cases r <;> rfl
  · simp only [h0, decide_false, Bool.false_eq_true, if_false]
    rw [tie_geth_calc_base_fee _ b _ _ height hL hlt hc]
    cases hg : gethCalc londonConsts b (gasLimitOf maxGas) (gasUsedOf maxGas consumed) with
    | none => simp [resOpt]
    | some n =>
      simp only [Option.map_some]
      rw [post_eq]
      generalize resOpt _ = r; cases r <;> rfl

/-- **`feemarket Params.Validate` refuses no base fee for its size**: a present, non-negative base fee — of any magnitude — is
accepted whenever the minimum gas price is.  `EndBlock` stores the next base fee through `SetBaseFee → SetParams → Validate` and
panics on an error: with this, the stored value of `tie_calculate_base_fee` (never negative) can always be stored (C09 totality,
C20: end-of-block processing never fails) -/
theorem tie_feemarket_params_validate (p : types_Params) (hnil : p.BaseFee_IsNil = false) (hnn : 0 ≤ p.BaseFee) :
    types_Params_Validate p = some p.MinGasPrice_call_validateMinGasPrice := by
  unfold types_Params_Validate
  have : ¬ p.BaseFee < 0 := by omega
  simp [hnil, this]

/-- and the only base fees it refuses are the absent and the negative ones -/
theorem tie_feemarket_params_validate_refuses (p : types_Params) (h : p.BaseFee_IsNil = true ∨ p.BaseFee < 0) :
    ∃ e, types_Params_Validate p = some (some e) := by
  unfold types_Params_Validate
  rcases h with h | h
  · exact ⟨"base fee cannot be nil", by simp [h]⟩
  · cases hn : p.BaseFee_IsNil
    · exact ⟨"base fee cannot be negative: %s", by simp [h]⟩
    · exact ⟨"base fee cannot be nil", by simp⟩

end Evermint.Facts.TieFeeMarket
