import EvermintModel.Facts.TieAnteChain
import EvermintModel.Facts.TieAnteBasic
import EvermintModel.Facts.TieAnteEvm
/-!
**C07 on the generated code, end to end.**  The five lane decorators of the Ethereum lane — `02_ext_opt`, `03_validate_basic`,
`03e_validate_basic_eoa`, `04_timeout_height`, `05_memo`, in the order of `ante.go` (regenerated as `Facts.Gen.anteChain`,
`fact_ante_chain`) — are composed *as translated from the Go source on this run*, each receiving the rest as its continuation.
`tie_eth_lane_shape`: if that composition reaches what follows it (the fee, signature and sequence decorators and finally the
execution), then the transaction has the shape the property demands: a well-formed Ethereum transaction (sole message, no foreign
or non-critical extension option), no signer infos, no fee payer, no fee granter, no Cosmos signatures, no memo, no timeout
height, replay-protected, a non-empty sender without code, and declared fee and gas limit equal to those of the embedded
Ethereum transaction.  No hand-written model stands between this statement and the code.
-/
namespace Evermint.Facts.TieAnteLane
open Evermint Evermint.GenCode Evermint.Facts.TieAnteBasic

abbrev Next := Bool → (Unit × Option String)

/-- a decorator applied to its continuation, as a continuation itself (a Go panic of the decorator is the class "panic") -/
def lift (f : Next → Option (Option String)) (next : Next) : Next := fun _ => ((), (f next).getD (some "panic"))

/-- the lane decorators of the Ethereum lane in chain order -/
def ethLaneChain (d02 : duallane_DLExtensionOptionsDecorator) (d03 : duallane_DLValidateBasicDecorator)
    (d03e : evmlane_ELValidateBasicEoaDecorator) (d04 : duallane_DLTxTimeoutHeightDecorator) (d05 : duallane_DLValidateMemoDecorator)
    (ctx : types_Context) (tx : types_Tx) (sim : Bool) (next : Next) : Option (Option String) :=
  duallane_DLExtensionOptionsDecorator_AnteHandle d02 ctx tx sim <|
  lift (duallane_DLValidateBasicDecorator_AnteHandle d03 ctx tx sim) <|
  lift (evmlane_ELValidateBasicEoaDecorator_AnteHandle d03e ctx tx sim) <|
  lift (duallane_DLTxTimeoutHeightDecorator_AnteHandle d04 ctx tx sim) <|
  lift (duallane_DLValidateMemoDecorator_AnteHandle d05 ctx tx sim) next

/-- the answer of "what follows the lane decorators", distinguishable from every error class they produce -/
def reached : String := "«reached»"
def nextReached : Next := fun _ => ((), some reached)

theorem guardWith_some {α : Type} (c : Prop) [Decidable c] (r x : α) (k : Option α) (h : guardWith c r k = some x) :
    x = r ∨ k = some x := by
  unfold guardWith at h
  split at h
  · left; injection h with h; exact h.symm
  · right; exact h

/-- whatever `03_validate_basic` answers when it refuses, it is not the marker of the continuation -/
theorem verdict03_refusal_not_reached (d03 : duallane_DLValidateBasicDecorator) (tx : types_Tx) (el : iface_ProtoMessage_Reset_String)
    (r : Option (Option String))
    (hin1 : tx.as_sdk_HasValidateBasic_ValidateBasic ≠ some reached) (hin2 : el.as_evmtypes_MsgEthereumTx_ValidateBasic ≠ some reached)
    (hv : verdict03 d03 tx true el = some r) : r.getD (some "panic") ≠ some reached := by
  unfold verdict03 at hv
  rcases guardWith_some _ _ _ _ hv with rfl | hv; · simp [reached]
  rcases guardWith_some _ _ _ _ hv with rfl | hv; · simpa using hin1
  rcases guardWith_some _ _ _ _ hv with rfl | hv; · simp [reached]
  rcases guardWith_some _ _ _ _ hv with rfl | hv; · simp [reached]
  rcases guardWith_some _ _ _ _ hv with rfl | hv; · simp [reached]
  rcases guardWith_some _ _ _ _ hv with rfl | hv; · simp [reached]
  rcases guardWith_some _ _ _ _ hv with rfl | hv; · simpa using hin2
  rcases guardWith_some _ _ _ _ hv with rfl | hv; · simp [reached]
  rcases guardWith_some _ _ _ _ hv with rfl | hv; · simp [reached]
  rcases guardWith_some _ _ _ _ hv with rfl | hv; · simp [reached]
  rcases guardWith_some _ _ _ _ hv with rfl | hv; · simp [reached]
  split at hv
  · injection hv with hv; subst hv; simp [reached]
  · rcases guardWith_some _ _ _ _ hv with rfl | hv; · simp [reached]
    rcases guardWith_some _ _ _ _ hv with rfl | hv; · simp [reached]
    simp at hv

theorem tie_eth_lane_shape (d02 : duallane_DLExtensionOptionsDecorator) (d03 : duallane_DLValidateBasicDecorator)
    (d03e : evmlane_ELValidateBasicEoaDecorator) (d04 : duallane_DLTxTimeoutHeightDecorator) (d05 : duallane_DLValidateMemoDecorator)
    (ctx : types_Context) (tx : types_Tx) (sim : Bool) (isEthTx : Bool) (el : iface_ProtoMessage_Reset_String)
    (hre : ctx.IsReCheckTx = false) (hs : utils_HasSingleEthereumMessage tx = some true) (he : utils_IsEthereumTx tx = some isEthTx)
    (h0 : Go.idx tx.GetMsgs 0 = some el)
    (hin1 : tx.as_sdk_HasValidateBasic_ValidateBasic ≠ some reached) (hin2 : el.as_evmtypes_MsgEthereumTx_ValidateBasic ≠ some reached)
    (hacc : ethLaneChain d02 d03 d03e d04 d05 ctx tx sim nextReached = some (some reached)) :
    isEthTx = true ∧
    tx.as_protoTxProvider_GetProtoTx_AuthInfo_SignerInfos = [] ∧
    tx.as_protoTxProvider_GetProtoTx_AuthInfo_Fee_Payer = "" ∧
    tx.as_protoTxProvider_GetProtoTx_AuthInfo_Fee_Granter = "" ∧
    tx.as_protoTxProvider_GetProtoTx_Signatures_len ≤ 0 ∧
    tx.as_protoTxProvider_GetProtoTx_Body_Memo = "" ∧
    tx.as_protoTxProvider_GetProtoTx_Body_TimeoutHeight = 0 ∧
    el.as_evmtypes_MsgEthereumTx_AsTransaction_Protected = true ∧
    el.as_evmtypes_MsgEthereumTx_GetFrom ≠ [] ∧
    d03e.ek_GetCodeHash_el_as_evmtypes_MsgEthereumTx_GetFrom_call_IsEmptyCodeHash = true ∧
    (∃ fee, ethFeeCoins d03.ek_GetParams_GetEvmDenom el = some fee ∧ tx.as_protoTxProvider_GetProtoTx_AuthInfo_Fee_Amount = fee) ∧
    tx.as_protoTxProvider_GetProtoTx_AuthInfo_Fee_GasLimit = el.as_evmtypes_MsgEthereumTx_AsTransaction_Gas := by
  unfold ethLaneChain at hacc
  rw [TieAnteChain.tie_ext_opt d02 ctx tx sim _ true isEthTx hs he] at hacc
  cases isEthTx with
  | false => simp [reached] at hacc
  | true =>
  simp only [Bool.not_true, Bool.false_eq_true, if_false, lift] at hacc
  rw [tie_validate_basic d03 ctx tx sim _ true el hre hs he h0] at hacc
  cases hv : verdict03 d03 tx true el with
  | some r =>
    simp only [hv] at hacc
    exact absurd (by simpa using hacc) (verdict03_refusal_not_reached d03 tx el r hin1 hin2 hv)
  | none =>
  simp only [hv, Option.getD_some] at hacc
  obtain ⟨_, hsi, hpay, hgr, hsig, _, hprot, _, _, ⟨fee, hfee, hfeq⟩, hgas⟩ := tie_validate_basic_shape d03 tx true el hv
  simp only [lift] at hacc
  rw [TieAnteEvm.tie_validate_eoa d03e ctx tx sim _ true el hs h0] at hacc
  simp only [Bool.not_true, Bool.false_eq_true, if_false, Option.getD_some] at hacc
  by_cases hfrom : el.as_evmtypes_MsgEthereumTx_GetFrom = []
  · simp [hfrom, reached] at hacc
  simp only [hfrom, if_false] at hacc
  cases hcode : d03e.ek_GetCodeHash_el_as_evmtypes_MsgEthereumTx_GetFrom_call_IsEmptyCodeHash with
  | false => simp [hcode, reached] at hacc
  | true =>
  simp only [hcode, Bool.not_true, Bool.false_eq_true, if_false] at hacc
  simp only [lift] at hacc
  rw [TieAnteChain.tie_timeout_height d04 ctx tx sim _ true hs] at hacc
  simp only [Bool.not_true, Bool.false_eq_true, if_false, Option.getD_some] at hacc
  by_cases hto : ¬ tx.as_protoTxProvider_GetProtoTx_Body_TimeoutHeight = 0
  · simp [hto, reached] at hacc
  have hto : tx.as_protoTxProvider_GetProtoTx_Body_TimeoutHeight = 0 := by simpa using hto
  simp only [hto, ne_eq, not_true_eq_false, if_false] at hacc
  simp only [lift] at hacc
  rw [TieAnteChain.tie_memo d05 ctx tx sim _ true hs] at hacc
  simp only [Bool.not_true, Bool.false_eq_true, if_false, Option.getD_some] at hacc
  by_cases hmemo : ¬ tx.as_protoTxProvider_GetProtoTx_Body_Memo = ""
  · simp [hmemo, reached] at hacc
  have hmemo : tx.as_protoTxProvider_GetProtoTx_Body_Memo = "" := by simpa using hmemo
  have hfee' : tx.as_protoTxProvider_GetProtoTx_AuthInfo_Fee_Amount = fee := by
    unfold ethFeeCoins at hfee
    split at hfee
    · simp at hfee
    split at hfee
    · simp at hfee
    split at hfee
    · simp at hfee
    injection hfee with hfee; subst hfee
    exact coinsEqual_newCoins1 _ _ hfeq
  exact ⟨rfl, hsi, hpay, hgr, hsig, hmemo, hto, hprot, hfrom, rfl, ⟨fee, hfee, hfee'⟩, hgas⟩

end Evermint.Facts.TieAnteLane
