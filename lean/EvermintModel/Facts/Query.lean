import EvermintModel.Facts.Gen
/-! Fact obligations for C08: the `commit` argument at every call site of `ApplyMessageWithConfig`. -/
namespace Evermint.Facts.Query
open Evermint.Facts

/-- `EthCall` and `EstimateGas` pass the literal `false`; only `ApplyTransaction` (block execution) and the
predecessor replay of `TraceTx` pass `true` — the latter inside the query's own branched context, which is
dropped (E-query hashes every store before and after a trace) -/
theorem fact_commit_literals : Gen.applyMessageCommitArgs =
    ["Keeper.ApplyMessage:commit", "Keeper.ApplyTransaction:true", "Keeper.EstimateGas:false", "Keeper.EthCall:false",
     "Keeper.TraceTx:true", "Keeper.traceTx:commitMessage"] := by decide +kernel

/-- how `EstimateGas` assigns the search bound and the remembered cap, in source order: caller gas / block limit /
request cap, the recap, **then** `gasCap = hi`, then the search — `Query.searchBound`, `Query.estimateGas` -/
theorem fact_estimate_gas_assigns :
    Gen.estimateGasAssigns =
      ["hi=uint64(*args.Gas)@if(args.Gas!=nil&&uint64(*args.Gas)>=ethparams.TxGas)",
       "hi=uint64(params.Block.MaxGas)@else(args.Gas!=nil&&uint64(*args.Gas)>=ethparams.TxGas)@if(params.Block!=nil&&params.Block.MaxGas>0)",
       "hi=req.GasCap@else(args.Gas!=nil&&uint64(*args.Gas)>=ethparams.TxGas)@else(params.Block!=nil&&params.Block.MaxGas>0)",
       "hi=req.GasCap@if(req.GasCap!=0&&hi>req.GasCap)",
       "gasCap=hi",
       "hi,err=evmtypes.BinSearch(lo,hi,executable)"] := by decide +kernel

end Evermint.Facts.Query
