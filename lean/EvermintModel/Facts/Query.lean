import EvermintModel.Facts.Gen
/-! Fact obligations for C08: the `commit` argument at every call site of `ApplyMessageWithConfig`. -/
namespace Evermint.Facts.Query
open Evermint.Facts

/-- `EthCall` and `EstimateGas` pass the literal `false`; only `ApplyTransaction` (block execution) and the
predecessor replay of `TraceTx` pass `true` — the latter inside the query's own branched context, which is
dropped (E-query hashes every store before and after a trace) -/
theorem fact_commit_literals : Gen.applyMessageCommitArgs =
    ["Keeper.ApplyMessage:commit", "Keeper.ApplyTransaction:true", "Keeper.EstimateGas:false", "Keeper.EthCall:false",
     "Keeper.TraceTx:true", "Keeper.traceTx:commitMessage"] := by decide +kernel

end Evermint.Facts.Query
