import EvermintModel.Facts.Gen
import EvermintModel.Model.Cpc
/-! Fact obligations for C17: NewEVM wires every stored contract *with its disabled flag*. -/
namespace Evermint.Facts.CpcRegistry
open Evermint.Facts

/-- `NewEVM` iterates `GetAllCustomPrecompiledContracts` and passes `WithDisabled(meta.Disabled)` to the fork
(F9 fix) before `WithCustomPrecompiledContracts` -/
theorem fact_newevm_wires_all_with_disabled :
    Gen.newEvmCalls.contains "k.cpcKeeper.GetAllCustomPrecompiledContracts" = true ∧
    Gen.newEvmCalls.contains "*ast.TypeAssertExpr.WithDisabled" = true ∧
    Gen.newEvmCalls.contains "evm.WithCustomPrecompiledContracts" = true := by decide +kernel

end Evermint.Facts.CpcRegistry
