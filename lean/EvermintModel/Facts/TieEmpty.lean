import EvermintModel.Facts.GenCode
import EvermintModel.Base.GoSemLemmas
import EvermintModel.Model.World
/-!
Tie theorem for C02 / C03 / C04 / C06 / C15: `Keeper.IsEmptyAccount` (`/repo/x/evm/keeper/keeper.go`) — the EIP-161 emptiness
test behind `StateDB.Empty`, which decides what the end-of-transaction sweep deletes — **as translated from the Go source on
this run**, equals `World.isEmpty`: no code hash, a zero balance in **every** denomination, sequence 0 (whatever the account's
type) and no storage entry.  Three of the seeded changes of round 4 altered exactly this function (EVM denomination only;
sequence of base accounts only): they change the generated definition and this proof no longer goes through.
-/
namespace Evermint.Facts.TieEmpty
open Evermint Evermint.GenCode

/-- the keeper, as `IsEmptyAccount(ctx, a)` reads it in world `w` (`denomName` : any naming of the denominations) -/
def keeperView (w : World) (a : Addr) (denomName : Nat → String) : keeper_Keeper :=
  { (default : keeper_Keeper) with
    GetCodeHash_addr_Bytes_call_IsEmptyCodeHash := w.codeHash.get a == 0
    bankKeeper_GetAllBalances_addr_Bytes := ((List.range nDenoms).filter (fun d => w.balOf a d > 0)).map (fun d => ⟨denomName d, (w.balOf a d : Int)⟩)
    accountKeeper_GetAccount_addr_Bytes_isNil := (w.acc.get a).isNone
    accountKeeper_GetAccount_addr_Bytes_GetSequence := (match w.acc.get a with | some ac => ac.seq | none => 0)
    ForEachStorage_addr_visits := w.hasStorage a }

theorem tie_is_empty_account (w : World) (a : Addr) (denomName : Nat → String) (ctx : types_Context) (addr : common_Address) :
    keeper_Keeper_IsEmptyAccount (keeperView w a denomName) ctx addr = some (w.isEmpty a) := by
  unfold keeper_Keeper_IsEmptyAccount World.isEmpty keeperView
  simp only []
  cases hc : (w.codeHash.get a == 0)
  · simp
  · simp only [Bool.not_true, Bool.false_eq_true, if_false, Bool.true_and]
    -- balances: the list of positive balances is all-zero iff it is empty iff every denomination is zero
    have hbal : (((List.range nDenoms).filter (fun d => w.balOf a d > 0)).map (fun d => (⟨denomName d, (w.balOf a d : Int)⟩ : Go.Coin))).all
        (fun c => decide (c.Amount = 0)) = (List.range nDenoms).all (fun d => w.balOf a d == 0) := by
      simp only [nDenoms, List.range, List.range.loop]
      by_cases h0 : w.balOf a 0 = 0 <;> by_cases h1 : w.balOf a 1 = 0
      · simp [h0, h1, List.filter]
      · have p1 : 0 < w.balOf a 1 := by omega
        simp [h0, h1, p1, List.filter]
      · have p0 : 0 < w.balOf a 0 := by omega
        simp [h0, h1, p0, List.filter]
      · have p0 : 0 < w.balOf a 0 := by omega
        have p1 : 0 < w.balOf a 1 := by omega
        simp [h0, h1, p0, p1, List.filter]
    rw [hbal]
    cases hb : (List.range nDenoms).all (fun d => w.balOf a d == 0)
    · simp
    · simp only [Bool.not_true, Bool.false_eq_true, if_false, Bool.true_and]
      cases hacc : w.acc.get a with
      | none => cases hs : w.hasStorage a <;> simp [hs]
      | some ac =>
        simp only [Option.isNone_some, Bool.not_false, Bool.true_and]
        by_cases hq : ac.seq = 0
        · cases hs : w.hasStorage a <;> simp [hq, hs]
        · have : ac.seq > 0 := by omega
          simp [hq, this]

end Evermint.Facts.TieEmpty
